/-
  The BROWSER's side of C03 / C04: a model of the HTML5 tokenizer (WHATWG HTML §13.2.5, the states a
  start / end tag goes through) and the theorem that, run over the string the serializer of
  `Model/Render.lean` produces, it gives back exactly one tag token per tag piece — with exactly the
  attribute list the renderer was given (names and values as written, i.e. escaped) — and one
  character token per character of every character-data piece.

  The tokenizer (`step`, `run`, `htmlTokens`) follows the specification state by state:
    data (§13.2.5.1), tag open (.6), end tag open (.7), tag name (.8), before attribute name (.32),
    attribute name (.33), after attribute name (.34), before attribute value (.35), attribute value
    double-quoted / single-quoted / unquoted (.36-.38), after attribute value (quoted) (.39),
    self-closing start tag (.40)
  with "reconsume in state X" written as a call of X's step function on the same character.
  NOT modelled (documented deviations, none of them reachable on the serializer's output, which is
  what `tokens_of_pieces` proves by showing that the run ends in `data` having never left the
  modelled states):
    * `<!` (markup declaration open: comments, DOCTYPE, CDATA) and the bogus-comment states (`<?`,
      `</` followed by a non-letter other than `>`): the state `unmodelled` is a sink;
    * character references are NOT decoded by `run`: `&` is an ordinary character in data and in
      attribute values, tokens carry the RAW text.  Decoding is the separate function
      `HtmlDecode.browserDecode`, and `HtmlDecode.decode_escape` is the theorem about it;
    * the duplicate-attribute rule ("if there is already an attribute with the same name, the new one
      is dropped", applied when the attribute name state is left) is not applied: the token carries
      every attribute in order (`dropDupNames` is that rule as a function on the finished token);
    * parse errors are not recorded, only their effect on the token stream;
    * end of file inside a tag: `run` returns the state it stopped in (the specification drops the
      unfinished tag).
-/
import MdIt.Props.C03

set_option autoImplicit false

namespace MdIt.HtmlTok
open MdIt.Render (Piece pattrsStr flattenP flatten Escaped escapeHtml escapeChar attrStr attrsStr
  escAttrs Event)

/-! ## 1. the tokenizer -/

/-- a start or end tag token -/
structure Tag where
  isEnd : Bool
  name : List Char
  attrs : List (List Char × List Char)
  selfClosing : Bool
  deriving DecidableEq, Repr

inductive Tok where
  | char (c : Char)
  | tag (t : Tag)
  deriving DecidableEq, Repr

inductive St where
  | data
  | tagOpen
  | endTagOpen
  | tagName (t : Tag)
  | beforeAttrName (t : Tag)
  /-- the attribute under construction has name `n` (and empty value) -/
  | attrName (t : Tag) (n : List Char)
  | afterAttrName (t : Tag) (n : List Char)
  | beforeAttrValue (t : Tag) (n : List Char)
  | valueDq (t : Tag) (n v : List Char)
  | valueSq (t : Tag) (n v : List Char)
  | valueUq (t : Tag) (n v : List Char)
  | afterValueQ (t : Tag)
  | selfClosingStart (t : Tag)
  /-- comment / DOCTYPE / CDATA / bogus comment: not modelled (a sink) -/
  | unmodelled
  deriving DecidableEq, Repr

/-- U+0009 TAB, U+000A LF, U+000C FF, U+0020 SPACE -/
def isWs (c : Char) : Bool := c = '\t' || c = '\n' || c = '\x0c' || c = ' '

def isUpper (c : Char) : Bool := decide (65 ≤ c.toNat) && decide (c.toNat ≤ 90)
def isLower (c : Char) : Bool := decide (97 ≤ c.toNat) && decide (c.toNat ≤ 122)
def isAlpha (c : Char) : Bool := isUpper c || isLower c

/-- what is appended to a tag / attribute NAME for the input character `c`: ASCII upper case is
    lowered, U+0000 becomes U+FFFD -/
def normName (c : Char) : Char :=
  if c = '\x00' then '\uFFFD' else if isUpper c then Char.ofNat (c.toNat + 32) else c

/-- what is appended to an attribute VALUE: U+0000 becomes U+FFFD -/
def normVal (c : Char) : Char := if c = '\x00' then '\uFFFD' else c

/-- the current attribute is complete: it joins the tag's list -/
def Tag.push (t : Tag) (n v : List Char) : Tag := { t with attrs := t.attrs ++ [(n, v)] }

/-- §13.2.5.1 data state (`&`: the character reference is not decoded here, see the header) -/
def dataStep (c : Char) : St × List Tok :=
  if c = '<' then (.tagOpen, []) else (.data, [.char c])

/-- §13.2.5.8 tag name state -/
def tagNameStep (t : Tag) (c : Char) : St × List Tok :=
  if isWs c then (.beforeAttrName t, [])
  else if c = '/' then (.selfClosingStart t, [])
  else if c = '>' then (.data, [.tag t])
  else (.tagName { t with name := t.name ++ [normName c] }, [])

/-- §13.2.5.34 after attribute name state.  "Anything else: start a new attribute, reconsume in the
    attribute name state" — for a character that is none of the four above the attribute name state
    appends it, which is what is written here (this breaks the definitional cycle with
    `attrNameStep`). -/
def afterAttrNameStep (t : Tag) (n : List Char) (c : Char) : St × List Tok :=
  if isWs c then (.afterAttrName t n, [])
  else if c = '/' then (.selfClosingStart (t.push n []), [])
  else if c = '=' then (.beforeAttrValue t n, [])
  else if c = '>' then (.data, [.tag (t.push n [])])
  else (.attrName (t.push n []) [normName c], [])

/-- §13.2.5.33 attribute name state (`"`, `'`, `<` are a parse error and appended like anything else) -/
def attrNameStep (t : Tag) (n : List Char) (c : Char) : St × List Tok :=
  if isWs c || c = '/' || c = '>' then afterAttrNameStep t n c
  else if c = '=' then (.beforeAttrValue t n, [])
  else (.attrName t (n ++ [normName c]), [])

/-- §13.2.5.32 before attribute name state.  `/` and `>` are reconsumed in the after attribute name
    state; no attribute has been started, so that state's actions for them are taken on `t` itself. -/
def beforeAttrNameStep (t : Tag) (c : Char) : St × List Tok :=
  if isWs c then (.beforeAttrName t, [])
  else if c = '/' then (.selfClosingStart t, [])
  else if c = '>' then (.data, [.tag t])
  else if c = '=' then (.attrName t ['='], [])
  else attrNameStep t [] c

/-- §13.2.5.38 attribute value (unquoted) state -/
def valueUqStep (t : Tag) (n v : List Char) (c : Char) : St × List Tok :=
  if isWs c then (.beforeAttrName (t.push n v), [])
  else if c = '>' then (.data, [.tag (t.push n v)])
  else (.valueUq t n (v ++ [normVal c]), [])

/-- §13.2.5.35 before attribute value state -/
def beforeAttrValueStep (t : Tag) (n : List Char) (c : Char) : St × List Tok :=
  if isWs c then (.beforeAttrValue t n, [])
  else if c = '"' then (.valueDq t n [], [])
  else if c = '\'' then (.valueSq t n [], [])
  else if c = '>' then (.data, [.tag (t.push n [])])
  else valueUqStep t n [] c

/-- §13.2.5.36 attribute value (double-quoted) state -/
def valueDqStep (t : Tag) (n v : List Char) (c : Char) : St × List Tok :=
  if c = '"' then (.afterValueQ (t.push n v), []) else (.valueDq t n (v ++ [normVal c]), [])

/-- §13.2.5.37 attribute value (single-quoted) state -/
def valueSqStep (t : Tag) (n v : List Char) (c : Char) : St × List Tok :=
  if c = '\'' then (.afterValueQ (t.push n v), []) else (.valueSq t n (v ++ [normVal c]), [])

/-- §13.2.5.39 after attribute value (quoted) state -/
def afterValueQStep (t : Tag) (c : Char) : St × List Tok :=
  if isWs c then (.beforeAttrName t, [])
  else if c = '/' then (.selfClosingStart t, [])
  else if c = '>' then (.data, [.tag t])
  else beforeAttrNameStep t c

/-- §13.2.5.40 self-closing start tag state -/
def selfClosingStartStep (t : Tag) (c : Char) : St × List Tok :=
  if c = '>' then (.data, [.tag { t with selfClosing := true }]) else beforeAttrNameStep t c

/-- §13.2.5.6 tag open state -/
def tagOpenStep (c : Char) : St × List Tok :=
  if c = '!' then (.unmodelled, [])
  else if c = '/' then (.endTagOpen, [])
  else if isAlpha c then tagNameStep ⟨false, [], [], false⟩ c
  else if c = '?' then (.unmodelled, [])
  else ((dataStep c).1, .char '<' :: (dataStep c).2)

/-- §13.2.5.7 end tag open state -/
def endTagOpenStep (c : Char) : St × List Tok :=
  if isAlpha c then tagNameStep ⟨true, [], [], false⟩ c
  else if c = '>' then (.data, [])
  else (.unmodelled, [])

/-- one input character: the new state and the tokens emitted -/
def step : St → Char → St × List Tok
  | .data, c => dataStep c
  | .tagOpen, c => tagOpenStep c
  | .endTagOpen, c => endTagOpenStep c
  | .tagName t, c => tagNameStep t c
  | .beforeAttrName t, c => beforeAttrNameStep t c
  | .attrName t n, c => attrNameStep t n c
  | .afterAttrName t n, c => afterAttrNameStep t n c
  | .beforeAttrValue t n, c => beforeAttrValueStep t n c
  | .valueDq t n v, c => valueDqStep t n v c
  | .valueSq t n v, c => valueSqStep t n v c
  | .valueUq t n v, c => valueUqStep t n v c
  | .afterValueQ t, c => afterValueQStep t c
  | .selfClosingStart t, c => selfClosingStartStep t c
  | .unmodelled, _ => (.unmodelled, [])

/-- the tokens emitted on `s` from state `st`, and the state reached -/
def run : St → List Char → List Tok × St
  | st, [] => ([], st)
  | st, c :: r => ((step st c).2 ++ (run (step st c).1 r).1, (run (step st c).1 r).2)

/-- the token stream of a document (and the state at its end: `data` unless the text stops inside
    a tag or the tokenizer met a construct that is not modelled) -/
def htmlTokens (s : List Char) : List Tok × St := run .data s

/-- the attributes a browser reads off the attribute part of a start tag (what stands between the
    element name and the closing `>`): `none` if the text does not stay inside the tag -/
def parseAttrs (s : List Char) : Option (List (List Char × List Char)) :=
  match run (.tagName ⟨false, [], [], false⟩) (s ++ ['>']) with
  | ([.tag t], .data) => some t.attrs
  | _ => none

/-- the duplicate-attribute rule of the attribute name state, applied to a finished list: an
    attribute whose name already occurred is dropped -/
def dropDupNames : List (List Char × List Char) → List (List Char × List Char)
  | [] => []
  | nv :: r => nv :: (dropDupNames r).filter (fun x => x.1 ≠ nv.1)

/-! ## 2. running over the segments of a tag -/

theorem run_trans {st s1 s2 : St} {a b : List Char} {o1 o2 : List Tok}
    (h1 : run st a = (o1, s1)) (h2 : run s1 b = (o2, s2)) : run st (a ++ b) = (o1 ++ o2, s2) := by
  induction a generalizing st o1 with
  | nil => simp [run] at h1; obtain ⟨rfl, rfl⟩ := h1; simpa using h2
  | cons c r ih =>
    simp only [run, Prod.mk.injEq] at h1
    obtain ⟨rfl, hs⟩ := h1
    have := ih (st := (step st c).1) (o1 := (run (step st c).1 r).1) (by rw [← hs])
    simp only [List.cons_append, run, this, List.append_assoc]

theorem run_cons {st st' s2 : St} {c : Char} {r : List Char} {o o2 : List Tok}
    (h1 : step st c = (st', o)) (h2 : run st' r = (o2, s2)) : run st (c :: r) = (o ++ o2, s2) := by
  simp only [run, h1, h2]

/-- a character a NAME may consist of so that the tokenizer reads it back unchanged: no white space,
    none of `/` `>` `=`, no ASCII upper case letter, not U+0000 -/
def nameChar (c : Char) : Bool :=
  !isWs c && c != '/' && c != '>' && c != '=' && !isUpper c && c != '\x00'

def NameTok (n : List Char) : Prop := ∀ c ∈ n, nameChar c = true

instance (n : List Char) : Decidable (NameTok n) := by unfold NameTok; infer_instance

/-- an element name the tag open state accepts and the tag name state reads back unchanged -/
def TagNameTok (n : List Char) : Prop := ∃ c r, n = c :: r ∧ isLower c = true ∧ NameTok r

/-- a double-quoted value the tokenizer reads back unchanged -/
def ValTok (v : List Char) : Prop := ∀ c ∈ v, c ≠ '"' ∧ c ≠ '\x00'

def AttrTok (nv : List Char × List Char) : Prop := nv.1 ≠ [] ∧ NameTok nv.1 ∧ ValTok nv.2

theorem nameChar_spec {c : Char} (h : nameChar c = true) :
    isWs c = false ∧ c ≠ '/' ∧ c ≠ '>' ∧ c ≠ '=' ∧ normName c = c := by
  simp only [nameChar, Bool.and_eq_true, Bool.not_eq_true', bne_iff_ne, ne_eq] at h
  obtain ⟨⟨⟨⟨⟨h1, h2⟩, h3⟩, h4⟩, h5⟩, h6⟩ := h
  exact ⟨h1, h2, h3, h4, by simp [normName, h5, h6]⟩

theorem isLower_nameChar {c : Char} (h : isLower c = true) : nameChar c = true := by
  simp only [isLower, Bool.and_eq_true, decide_eq_true_eq] at h
  have h1 : isWs c = false := by
    simp only [isWs, Bool.or_eq_false_iff, decide_eq_false_iff_not]
    refine ⟨⟨⟨?_, ?_⟩, ?_⟩, ?_⟩ <;> (rintro rfl; revert h; decide)
  have h2 : c ≠ '/' := by rintro rfl; revert h; decide
  have h3 : c ≠ '>' := by rintro rfl; revert h; decide
  have h4 : c ≠ '=' := by rintro rfl; revert h; decide
  have h5 : isUpper c = false := by
    simp only [isUpper, Bool.and_eq_false_iff, decide_eq_false_iff_not]; omega
  have h6 : c ≠ '\x00' := by rintro rfl; revert h; decide
  simp [nameChar, h1, h2, h3, h4, h5, h6]

theorem isLower_isAlpha {c : Char} (h : isLower c = true) : isAlpha c = true := by
  simp [isAlpha, h]

/-- character data without `<`: one character token each, the state stays `data` -/
theorem run_data (s : List Char) (h : ∀ c ∈ s, c ≠ '<') : run .data s = (s.map .char, .data) := by
  induction s with
  | nil => rfl
  | cons c r ih =>
    have hc := h c (by simp)
    have := ih (fun d hd => h d (by simp [hd]))
    simp [run, step, dataStep, hc, this]

theorem run_tagName (t : Tag) (s : List Char) (h : NameTok s) :
    run (.tagName t) s = ([], .tagName { t with name := t.name ++ s }) := by
  induction s generalizing t with
  | nil => simp [run]
  | cons c r ih =>
    obtain ⟨h1, h2, h3, _, h5⟩ := nameChar_spec (h c (by simp))
    have := ih { t with name := t.name ++ [c] } (fun d hd => h d (by simp [hd]))
    simp [run, step, tagNameStep, h1, h2, h3, h5, this]

theorem run_attrName (t : Tag) (n s : List Char) (h : NameTok s) :
    run (.attrName t n) s = ([], .attrName t (n ++ s)) := by
  induction s generalizing n with
  | nil => simp [run]
  | cons c r ih =>
    obtain ⟨h1, h2, h3, h4, h5⟩ := nameChar_spec (h c (by simp))
    have := ih (n ++ [c]) (fun d hd => h d (by simp [hd]))
    simp [run, step, attrNameStep, h1, h2, h3, h4, h5, this]

theorem run_valueDq (t : Tag) (n v s : List Char) (h : ValTok s) :
    run (.valueDq t n v) s = ([], .valueDq t n (v ++ s)) := by
  induction s generalizing v with
  | nil => simp [run]
  | cons c r ih =>
    obtain ⟨h1, h2⟩ := h c (by simp)
    have := ih (v ++ [c]) (fun d hd => h d (by simp [hd]))
    simp [run, step, valueDqStep, normVal, h1, h2, this]

/-- the two states in which the serializer's next attribute (or the end of the tag) is met: right
    after the element name, or right after a closing quote -/
def AttrStart (st : St) (t : Tag) : Prop := st = .tagName t ∨ st = .afterValueQ t

theorem step_attrStart_space {st : St} {t : Tag} (h : AttrStart st t) :
    step st ' ' = (.beforeAttrName t, []) := by
  rcases h with rfl | rfl <;> simp [step, tagNameStep, afterValueQStep, isWs]

theorem step_attrStart_gt {st : St} {t : Tag} (h : AttrStart st t) :
    step st '>' = (.data, [.tag t]) := by
  rcases h with rfl | rfl <;> simp [step, tagNameStep, afterValueQStep, isWs]

/-- ` name="value"` read from an attribute-start state: the attribute `(name, value)` joins the tag -/
theorem run_attr {st : St} {t : Tag} (hst : AttrStart st t) (n v : List Char) (hn0 : n ≠ [])
    (hn : NameTok n) (hv : ValTok v) :
    run st (' ' :: (n ++ ('=' :: '"' :: (v ++ ['"'])))) = ([], .afterValueQ (t.push n v)) := by
  obtain ⟨c, r, rfl⟩ := List.exists_cons_of_ne_nil hn0
  obtain ⟨h1, h2, h3, h4, h5⟩ := nameChar_spec (hn c (by simp))
  have hr : NameTok r := fun d hd => hn d (by simp [hd])
  -- the blank, the first character of the name
  have s1 := step_attrStart_space hst
  have s2 : step (.beforeAttrName t) c = (.attrName t [c], []) := by
    simp [step, beforeAttrNameStep, attrNameStep, h1, h2, h3, h4, h5]
  have s3 := run_attrName t [c] r hr
  have s4 : step (.attrName t (c :: r)) '=' = (.beforeAttrValue t (c :: r), []) := by
    simp [step, attrNameStep, isWs]
  have s5 : step (.beforeAttrValue t (c :: r)) '"' = (.valueDq t (c :: r) [], []) := by
    simp [step, beforeAttrValueStep, isWs]
  have s6 := run_valueDq t (c :: r) [] v hv
  have s7 : run (.valueDq t (c :: r) v) ['"'] = ([], .afterValueQ (t.push (c :: r) v)) := by
    simp [run, step, valueDqStep]
  have e67 := run_trans (by simpa using s6) s7
  have e57 := run_cons s5 e67
  have e47 := run_cons s4 e57
  have e37 := run_trans (by simpa using s3) e47
  have e27 := run_cons s2 e37
  have e17 := run_cons s1 e27
  simpa using e17

/-- the whole attribute part: every attribute joins the tag, in order -/
theorem run_attrs (a : List (List Char × List Char)) (h : ∀ nv ∈ a, AttrTok nv) :
    ∀ (st : St) (t : Tag), AttrStart st t →
      ∃ st', AttrStart st' { t with attrs := t.attrs ++ a } ∧ run st (pattrsStr a) = ([], st') := by
  induction a with
  | nil => intro st t hst; exact ⟨st, by simpa using hst, rfl⟩
  | cons nv r ih =>
    intro st t hst
    obtain ⟨h0, hn, hv⟩ := h nv (by simp)
    have e1 := run_attr hst nv.1 nv.2 h0 hn hv
    obtain ⟨st', hst', e2⟩ := ih (fun x hx => h x (by simp [hx])) (.afterValueQ (t.push nv.1 nv.2))
      (t.push nv.1 nv.2) (.inr rfl)
    refine ⟨st', ?_, ?_⟩
    · simpa [Tag.push] using hst'
    · have := run_trans e1 e2
      simpa [pattrsStr] using this

/-- `>` after the attribute part -/
theorem run_close_gt {st : St} {t : Tag} (h : AttrStart st t) : run st ['>'] = ([.tag t], .data) := by
  simp [run, step_attrStart_gt h]

/-- ` />` after the attribute part -/
theorem run_close_slash {st : St} {t : Tag} (h : AttrStart st t) :
    run st [' ', '/', '>'] = ([.tag { t with selfClosing := true }], .data) := by
  have s1 := step_attrStart_space h
  have s2 : step (.beforeAttrName t) '/' = (.selfClosingStart t, []) := by
    simp [step, beforeAttrNameStep, isWs]
  have s3 : run (.selfClosingStart t) ['>'] = ([.tag { t with selfClosing := true }], .data) := by
    simp [run, step, selfClosingStartStep]
  have := run_cons s1 (run_cons s2 s3)
  simpa using this

/-- from `data`, `<name`: the tag name state holding `name` -/
theorem run_open_name (n : List Char) (h : TagNameTok n) :
    run .data ('<' :: n) = ([], .tagName ⟨false, n, [], false⟩) := by
  obtain ⟨c, r, rfl, hc, hr⟩ := h
  obtain ⟨h1, h2, h3, _, h5⟩ := nameChar_spec (isLower_nameChar hc)
  have hne : c ≠ '!' := by
    rintro rfl; revert hc; decide
  have hq : c ≠ '?' := by
    rintro rfl; revert hc; decide
  have s1 : step .data '<' = (.tagOpen, []) := by simp [step, dataStep]
  have s2 : step .tagOpen c = (.tagName ⟨false, [c], [], false⟩, []) := by
    simp [step, tagOpenStep, tagNameStep, hne, h2, isLower_isAlpha hc, h1, h3, h5]
  have s3 := run_tagName ⟨false, [c], [], false⟩ r hr
  have := run_cons s1 (run_cons s2 s3)
  simpa using this

/-- from `data`, `</name`: the tag name state holding the end tag `name` -/
theorem run_close_name (n : List Char) (h : TagNameTok n) :
    run .data ('<' :: '/' :: n) = ([], .tagName ⟨true, n, [], false⟩) := by
  obtain ⟨c, r, rfl, hc, hr⟩ := h
  obtain ⟨h1, h2, h3, _, h5⟩ := nameChar_spec (isLower_nameChar hc)
  have s1 : step .data '<' = (.tagOpen, []) := by simp [step, dataStep]
  have s1' : step .tagOpen '/' = (.endTagOpen, []) := by simp [step, tagOpenStep]
  have s2 : step .endTagOpen c = (.tagName ⟨true, [c], [], false⟩, []) := by
    simp [step, endTagOpenStep, tagNameStep, h2, isLower_isAlpha hc, h1, h3, h5]
  have s3 := run_tagName ⟨true, [c], [], false⟩ r hr
  have := run_cons s1 (run_cons s1' (run_cons s2 s3))
  simpa using this

/-! ## 3. the token stream of a piece list -/

/-- what the tokenizer must be able to rely on, piece by piece -/
def PieceTok : Piece → Prop
  | .open n a => TagNameTok n ∧ ∀ nv ∈ a, AttrTok nv
  | .close n => TagNameTok n
  | .void n a _ => TagNameTok n ∧ ∀ nv ∈ a, AttrTok nv
  | .chars s => ∀ c ∈ s, c ≠ '<'

/-- the tokens a piece stands for -/
def tokOf : Piece → List Tok
  | .open n a => [.tag ⟨false, n, a, false⟩]
  | .close n => [.tag ⟨true, n, [], false⟩]
  | .void n a slash => [.tag ⟨false, n, a, slash⟩]
  | .chars s => s.map .char

def toksP : List Piece → List Tok
  | [] => []
  | p :: r => tokOf p ++ toksP r

theorem run_piece (p : Piece) (h : PieceTok p) : run .data p.str = (tokOf p, .data) := by
  cases p with
  | «open» n a =>
    have e1 := run_open_name n h.1
    obtain ⟨st', hst', e2⟩ := run_attrs a h.2 _ ⟨false, n, [], false⟩ (.inl rfl)
    have e3 := run_close_gt hst'
    have := run_trans e1 (run_trans e2 e3)
    simpa [Piece.str, tokOf] using this
  | close n =>
    have e1 := run_close_name n h
    have e3 := run_close_gt (st := .tagName ⟨true, n, [], false⟩) (.inl rfl)
    have := run_trans e1 e3
    simpa [Piece.str, tokOf] using this
  | void n a slash =>
    have e1 := run_open_name n h.1
    obtain ⟨st', hst', e2⟩ := run_attrs a h.2 _ ⟨false, n, [], false⟩ (.inl rfl)
    cases slash with
    | false =>
      have e3 := run_close_gt hst'
      have := run_trans e1 (run_trans e2 e3)
      simpa [Piece.str, tokOf] using this
    | true =>
      have e3 := run_close_slash hst'
      have := run_trans e1 (run_trans e2 e3)
      simpa [Piece.str, tokOf] using this
  | chars s => exact run_data s h

/-- **`tokens_of_pieces`.**  The tokenizer, started in the data state on the flattening of a piece
    list whose names are readable (`PieceTok`), never leaves the modelled states, ends in the data
    state, and emits exactly: one tag token per tag piece — its name, its attribute list in order
    with names and values as written, the self-closing flag iff ` />` — and one character token per
    character of each character-data piece. -/
theorem tokens_of_pieces (ps : List Piece) (h : ∀ p ∈ ps, PieceTok p) :
    htmlTokens (flattenP ps) = (toksP ps, .data) := by
  unfold htmlTokens
  induction ps with
  | nil => rfl
  | cons p r ih =>
    have e1 := run_piece p (h p (by simp))
    have e2 := ih (fun q hq => h q (by simp [hq]))
    have := run_trans e1 e2
    simpa [toksP] using this

end MdIt.HtmlTok
