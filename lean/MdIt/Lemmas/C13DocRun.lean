/-
  C13 at document level, USE side, part 3: the tokenizer on a reference use.
    `parseInline_use_ok`    the lookup succeeds: ONE `Link` node (url, title of the entry) over the
                            whole use, its single child the text node of the link text
    `parseInline_use_text`  the lookup fails: ONE text node with the whole use, literally
-/
import MdIt.Lemmas.C13DocUse
set_option linter.unusedSimpArgs false
set_option linter.unusedVariables false

namespace MdIt.C13D
open MdIt.Inline
open MdIt.InlineOps (Srcmap getSourcePosFor getMap byteLen slice)
open MdIt.C05 (byteLen_append slice_ok_iff)
open MdIt.C11S (PlainTxt splitRun_plain firstRule_quiet tokLoop_step tokLoop_done)

/-! ## 1. text nodes -/

/-- the pending text of the top frame: nothing, or ONE text node over the text `s` read so far -/
def txt (x : Nat) (s : List Char) : List Node :=
  if s = [] then [] else [Node.newText s (some (x, x + byteLen s))]

theorem Fr.sourcePos {st : IState} {c : List Char} {x : Nat} (h : Fr st c x) (p : Nat) :
    liftOps (getSourcePosFor st.srcmap p) = .ok (x + p) := by
  rw [h.map, C05I.single_translate]; rfl

/-- `trailing_text_push` in the top frame: the piece is appended to the one pending text node -/
theorem pushText_txt {st : IState} {c : List Char} {x : Nat} (hfr : Fr st c x) (pre mid b : List Char)
    (hc : c = pre ++ mid ++ b) (hch : st.children = txt x pre) (hne : mid ≠ []) :
    st.pushText (byteLen pre) (byteLen pre + byteLen mid) =
      .ok { st with children := txt x (pre ++ mid) } := by
  have hs : liftOps (slice st.src (byteLen pre) (byteLen pre + byteLen mid)) = .ok mid := by
    rw [hfr.slice pre mid b hc]; rfl
  have hg : liftOps (getMap st.srcmap (byteLen pre) (byteLen pre + byteLen mid)) =
      .ok (x + byteLen pre, x + (byteLen pre + byteLen mid)) := hfr.getMap (Nat.le_add_right _ _)
  have hsp := hfr.sourcePos (byteLen pre + byteLen mid)
  have hne2 : pre ++ mid ≠ [] := by simp [hne]
  unfold IState.pushText trailingTextPush
  rw [hch]
  by_cases hpre : pre = []
  · subst hpre
    simp only [byteLen_nil, Nat.zero_add, Nat.add_zero] at hs hg
    simp only [txt, if_true, popLast, List.nil_append, hne, if_false, byteLen_nil, Nat.zero_add, hs, hg]
  · simp only [txt, hpre, if_false, popLast, Node.newText, Node.isText, if_true, hs, hsp, Node.content,
      hne2, List.nil_append, byteLen_append]

/-- `trailing_text_push` into an empty child list: a fresh text node -/
theorem pushText_new {st : IState} {c : List Char} {x : Nat} (hfr : Fr st c x) (a mid b : List Char)
    (hc : c = a ++ mid ++ b) (hch : st.children = []) :
    st.pushText (byteLen a) (byteLen a + byteLen mid) =
      .ok { st with children := [Node.newText mid (some (x + byteLen a, x + (byteLen a + byteLen mid)))] } := by
  have hs : liftOps (slice st.src (byteLen a) (byteLen a + byteLen mid)) = .ok mid := by
    rw [hfr.slice a mid b hc]; rfl
  have hg : liftOps (getMap st.srcmap (byteLen a) (byteLen a + byteLen mid)) =
      .ok (x + byteLen a, x + (byteLen a + byteLen mid)) := hfr.getMap (Nat.le_add_right _ _)
  unfold IState.pushText trailingTextPush
  rw [hch]
  simp only [popLast, hs, hg, List.nil_append]

/-! ## 2. the top frame -/

/-- a top-level state that has read the prefix `pre` of `c` as pending text -/
structure Top (st : IState) (c : List Char) (x : Nat) (pre : List Char) : Prop where
  fr : Fr st c x
  posMax : st.posMax = byteLen c
  level : st.level = 0
  pos : st.pos = byteLen pre
  children : st.children = txt x pre

theorem Top.window {st : IState} {c : List Char} {x : Nat} {pre : List Char} (ht : Top st c x pre)
    (w : List Char) (hc : c = pre ++ w) : st.window = .ok w :=
  ht.fr.window pre w [] (by rw [hc]; simp) ht.pos (by rw [ht.posMax, hc, byteLen_append])

/-- the real text rule on a plain stretch -/
theorem ruleText_real_plain {st : IState} (P b : List Char) (hw : st.window = .ok (P ++ b))
    (hne : P ≠ []) (hP : PlainTxt P) (hb : ∀ ch ∈ b.head?, ch ∈ Entity.textStop) {st' : IState}
    (hpush : st.pushText st.pos (st.pos + byteLen P) = .ok st') :
    ruleText st false = .ok (some (byteLen P), st') := by
  have hpos : byteLen P ≠ 0 := by have := byteLen_pos hne; omega
  unfold ruleText
  rw [hw]
  simp only [splitRun_plain P b hP hb, hpos, if_false, Bool.false_eq_true, hpush]

/-- one iteration on a plain stretch: the text rule appends it to the pending text -/
theorem tokStep_text {cfg : Cfg} (h : ChainOK cfg) (hmn : 0 < cfg.maxNesting)
    (skip tok : IState → Except Panic IState) (fuel : Nat) {st : IState} {c : List Char} {x : Nat}
    {pre : List Char} (ht : Top st c x pre) (P b : List Char) (hc : c = pre ++ P ++ b) (hne : P ≠ [])
    (hP : PlainTxt P) (hb : ∀ ch ∈ b.head?, ch ∈ Entity.textStop) :
    ∃ st', tokStep cfg skip tok fuel st = .ok st' ∧ Top st' c x (pre ++ P) ∧ st'.cache = st.cache := by
  refine ⟨{ st with children := txt x (pre ++ P), pos := byteLen pre + byteLen P }, ?_,
    ⟨⟨ht.fr.src, ht.fr.map⟩, ht.posMax, ht.level, by simp [byteLen_append], rfl⟩, rfl⟩
  have hw : st.window = .ok (P ++ b) := ht.window _ (by rw [hc, List.append_assoc])
  obtain ⟨c0, c1, hch, hc0⟩ := split_text h
  obtain ⟨p, P', rfl⟩ : ∃ p P', P = p :: P' := by
    cases P with
    | nil => exact absurd rfl hne
    | cons p P' => exact ⟨p, P', rfl⟩
  have hpp : p ∉ Entity.textStop := hP p (by simp)
  have hw1 : st.window = .ok (p :: (P' ++ b)) := by rw [hw]; rfl
  have hpush := pushText_txt ht.fr pre (p :: P') b hc ht.children hne
  rw [← ht.pos] at hpush
  have hrt := ruleText_real_plain (p :: P') b hw hne hP hb hpush
  have hl : st.level < cfg.maxNesting := by rw [ht.level]; exact hmn
  unfold tokStep
  simp only [hl, if_true, hch]
  rw [firstRule_quiet _ st c0 _ (fun r hr =>
    runRule_quiet cfg skip tok fuel hw1 r (quiet_plain h hpp (hc0 r hr).1 (hc0 r hr).2) false)]
  simp only [firstRule, runRule, hrt, liftR, ht.pos]

/-- one iteration at a character no rule owns: it goes to the pending text -/
theorem tokStep_char {cfg : Cfg} (skip tok : IState → Except Panic IState) (fuel : Nat) {st : IState}
    {c : List Char} {x : Nat} {pre : List Char} (ht : Top st c x pre) (ch : Char) (b : List Char)
    (hc : c = pre ++ ch :: b) (hq : ∀ id ∈ cfg.chain, Quiet id ch) :
    ∃ st', tokStep cfg skip tok fuel st = .ok st' ∧ Top st' c x (pre ++ [ch]) ∧ st'.cache = st.cache := by
  refine ⟨{ st with children := txt x (pre ++ [ch]), pos := byteLen pre + byteLen [ch] }, ?_,
    ⟨⟨ht.fr.src, ht.fr.map⟩, ht.posMax, ht.level, by simp [byteLen_append], rfl⟩, rfl⟩
  have hw : st.window = .ok (ch :: b) := ht.window _ hc
  have hpush := pushText_txt ht.fr pre [ch] b (by rw [hc]; simp) ht.children (by simp)
  have hbl : byteLen [ch] = ch.utf8Size := by simp [byteLen]
  rw [hbl] at hpush
  have hfirst : firstRule (fun id s => runRule cfg skip tok fuel id s false) cfg.chain st = .ok (none, st) :=
    firstRule_all_quiet _ st _ (fun r hr => runRule_quiet cfg skip tok fuel hw r (hq r hr) false)
  unfold tokStep
  rw [hfirst]
  simp only [ite_self, firstChar, hw, liftR, ht.pos, hbl, hpush]

/-! ## 3. the link rule declines: the lookup fails -/

/-- one iteration at the `[` of a use whose label is not in the map: `parse_link` runs its look-ahead,
    the lookup fails, every other rule declines at `[`, the bracket goes to the pending text -/
theorem tokStep_link_fail {cfg : Cfg} (h : ChainOK cfg) (hmn : 0 < cfg.maxNesting)
    (tok : IState → Except Panic IState) (G : Nat) {st : IState} {c : List Char} {x : Nat}
    {pre : List Char} (ht : Top st c x pre) (T : List Char) (e : Option (List Char))
    (hc : c = pre ++ useOf T e) (hT : PlainTxt T) (he : PlainTxt (e.getD []))
    (hlook : look cfg (labelOf T e) = none)
    (S : List (Nat × Nat)) (hcache : CacheIn S st.cache)
    (hsub : ∀ p ∈ Entries (byteLen pre) T e, p ∈ S)
    (hf1 : ∀ v, (byteLen pre + 1, v) ∈ S → v = byteLen pre + 1 + byteLen T)
    (hf2 : ∀ v, (byteLen pre + byteLen T + 3, v) ∈ S →
      v = byteLen pre + byteLen T + 3 + byteLen (e.getD [])) :
    ∃ st', tokStep cfg (fun s => skipToken cfg (G + 2) s) tok (G + 2) st = .ok st' ∧
      Top st' c x (pre ++ ['[']) ∧ CacheIn S st'.cache := by
  have hl : st.level < cfg.maxNesting := by rw [ht.level]; exact hmn
  obtain ⟨cache', hpl, hci⟩ := parseLink_use h (G + 1) G false ht.fr pre T e hc ht.posMax hT he hl S hcache
    hsub hf1 hf2
  rw [hlook] at hpl
  obtain ⟨st1, hst1⟩ : ∃ st1 : IState, st1 = { st with cache := cache' } := ⟨_, rfl⟩
  rw [← hst1] at hpl
  have ht1 : Top st1 c x pre := by
    rw [hst1]; exact ⟨⟨ht.fr.src, ht.fr.map⟩, ht.posMax, ht.level, ht.pos, ht.children⟩
  have hc1 : st1.cache = cache' := by rw [hst1]
  refine ⟨{ st1 with children := txt x (pre ++ ['[']), pos := byteLen pre + byteLen ['['] }, ?_,
    ⟨⟨ht1.fr.src, ht1.fr.map⟩, ht1.posMax, ht1.level, by simp [byteLen_append], rfl⟩, by rw [← hc1] at hci; exact hci⟩
  have hw : st.window = .ok ('[' :: (T ++ ']' :: tailOf e)) := ht.window _ hc
  have hw1 : st1.window = .ok ('[' :: (T ++ ']' :: tailOf e)) := ht1.window _ hc
  obtain ⟨d0, d1, hch, hd0, hd1⟩ := split_link h
  have hpush := pushText_txt ht1.fr pre ['['] (T ++ ']' :: tailOf e) (by rw [hc]; simp [useOf])
    ht1.children (by simp)
  rw [bl_open] at hpush
  have hlink : runRule cfg (fun s => skipToken cfg (G + 2) s) tok (G + 2) .link st false =
      .ok (none, st1) := by
    simp only [runRule, ruleLink, hw, liftR]
    unfold linkRule
    simp only [Nat.add_zero, ht.pos, hpl, Option.map_none]
    simp
  have hrest : firstRule (fun id s => runRule cfg (fun s => skipToken cfg (G + 2) s) tok (G + 2) id s false) d1
      st1 = .ok (none, st1) :=
    firstRule_all_quiet _ _ _ (fun r hr => runRule_quiet cfg _ tok (G + 2) hw1 r
      (quiet_open h (hd1 r hr).1 (hd1 r hr).2) false)
  unfold tokStep
  simp only [hl, if_true, hch]
  rw [firstRule_quiet _ st d0 _ (fun r hr =>
    runRule_quiet cfg _ tok (G + 2) hw r (quiet_open h (hd0 r hr).1 (hd0 r hr).2) false)]
  simp only [firstRule, hlink, hrest, firstChar, hw1, liftR, sz_open, bl_open, ht1.pos, hpush]

/-! ## 4. the link rule accepts: the lookup succeeds -/

/-- the nested `tokenize` over a plain link text: one text node -/
theorem tokLoop_nested {cfg : Cfg} (h : ChainOK cfg) (F : Nat) {s : IState} {c : List Char} {x : Nat}
    (hfr : Fr s c x) (a T b : List Char) (hc : c = a ++ T ++ b) (hp : s.pos = byteLen a)
    (hm : s.posMax = byteLen a + byteLen T) (hl : s.level < cfg.maxNesting) (hch : s.children = [])
    (hne : T ≠ []) (hT : PlainTxt T) :
    tokLoop cfg (F + 1) s.posMax s =
      .ok { s with children := [Node.newText T (some (x + byteLen a, x + (byteLen a + byteLen T)))],
                   pos := byteLen a + byteLen T } := by
  have hw : s.window = .ok (T ++ []) := by
    rw [List.append_nil]; exact hfr.window a T b hc hp hm
  obtain ⟨c0, c1, hchain, hc0⟩ := split_text h
  obtain ⟨p, T', rfl⟩ : ∃ p T', T = p :: T' := by
    cases T with
    | nil => exact absurd rfl hne
    | cons p T' => exact ⟨p, T', rfl⟩
  have hpp : p ∉ Entity.textStop := hT p (by simp)
  have hw1 : s.window = .ok (p :: (T' ++ [])) := by rw [hw]; rfl
  have hpush := pushText_new hfr a (p :: T') b hc hch
  rw [← hp] at hpush
  have hrt := ruleText_real_plain (p :: T') [] hw hne hT (by simp) hpush
  have hlt : s.pos < s.posMax := by have := byteLen_pos hne; omega
  have hstep : tokStep cfg (fun s => skipToken cfg F s) (fun s => tokLoop cfg F s.posMax s) F s =
      .ok { s with children := [Node.newText (p :: T') (some (x + byteLen a, x + (byteLen a + byteLen (p :: T'))))],
                   pos := byteLen a + byteLen (p :: T') } := by
    unfold tokStep
    simp only [hl, if_true, hchain]
    rw [firstRule_quiet _ s c0 _ (fun r hr =>
      runRule_quiet cfg _ _ F hw1 r (quiet_plain h hpp (hc0 r hr).1 (hc0 r hr).2) false)]
    simp only [firstRule, runRule, hrt, liftR, hp]
  rw [tokLoop_step cfg F s.posMax hlt hstep]
  exact tokLoop_done cfg F _ (by simp [hm])

/-- the node of a resolved use -/
def linkNode (x : Nat) (T : List Char) (e : Option (List Char)) (r : Refs.Entry) : Node :=
  { val := .link r.dest (r.title.map (fun t => t.map Char.ofNat)),
    range := some (x, x + byteLen (useOf T e)),
    children := [Node.newText T (some (x + 1, x + (1 + byteLen T)))] }

/-- the real link rule when `parse_link` succeeds, in the terms of its definition -/
theorem linkRule_real {cfg : Cfg} {skip tok : IState → Except Panic IState} {fuel : Nat}
    {mk : List Nat → Option (List Char) → Val} {en : Bool} {off : Nat} {st st1 st3 : IState} {res : LinkRes}
    {r : Nat × Nat}
    (hpl : parseLink cfg skip fuel st (st.pos + off) en = .ok (some res, st1))
    (htok : tok { st1 with children := [], bottoms := [], linkLevel := st1.linkLevel + 1, level := st1.level + 1, pos := res.labelStart, posMax := res.labelEnd } = .ok st3)
    (hlev : st3.level ≠ 0) (hgm : st3.getMap st.pos res.endPos = .ok r) (hle : ¬ res.endPos < st3.pos) :
    linkRule cfg skip tok fuel mk en off st false =
      .ok (some (res.endPos - st3.pos),
        { st3 with level := st3.level - 1, posMax := st1.posMax, children := st1.children ++ [⟨mk (res.href.getD []) res.title, some r, st3.children⟩], bottoms := st1.bottoms, linkLevel := st3.linkLevel - 1 }) := by
  unfold linkRule
  simp only [hpl, Bool.false_eq_true, if_false, htok, hlev, hgm, liftR, hle]

set_option maxHeartbeats 400000 in
/-- one iteration at the `[` of a use whose label is in the map (the use is the whole text, the state
    is the initial one): the `Link` node with the entry's destination and title, the link text as
    its one child -/
theorem tokStep_link_ok {cfg : Cfg} (h : ChainOK cfg) (hmn : 2 ≤ cfg.maxNesting) (G : Nat)
    (x : Nat) (T : List Char) (e : Option (List Char)) (bt : CodePair.Cache)
    (hne : T ≠ []) (hT : PlainTxt T) (he : PlainTxt (e.getD [])) (r : Refs.Entry)
    (hlook : look cfg (labelOf T e) = some r) :
    ∃ cache', tokStep cfg (fun s => skipToken cfg (G + 2) s) (fun s => tokLoop cfg (G + 2) s.posMax s) (G + 2)
        ⟨useOf T e, [(0, x)], 0, byteLen (useOf T e), 0, 0, [], bt, [], []⟩ =
        .ok ⟨useOf T e, [(0, x)], byteLen (useOf T e), byteLen (useOf T e), 0, 0, cache', bt,
          [linkNode x T e r], []⟩ := by
  obtain ⟨st, hst⟩ : ∃ st : IState, st = ⟨useOf T e, [(0, x)], 0, byteLen (useOf T e), 0, 0, [], bt, [], []⟩ :=
    ⟨_, rfl⟩
  have ht : Top st (useOf T e) x [] := by rw [hst]; exact ⟨⟨rfl, rfl⟩, rfl, rfl, rfl, rfl⟩
  have hl : st.level < cfg.maxNesting := by rw [ht.level]; omega
  obtain ⟨cache', hpl, hci⟩ := parseLink_use h (G + 1) G false ht.fr [] T e rfl ht.posMax hT he hl
    (Entries 0 T e) (by rw [hst]; exact cacheIn_nil _) (fun p hp => hp)
    (by
      intro v hv
      simp only [Entries, byteLen, List.mem_cons, Prod.mk.injEq, List.mem_nil_iff, or_false] at hv
      rcases hv with ⟨_, rfl⟩ | ⟨hh, _⟩
      · rfl
      · omega)
    (by
      intro v hv
      simp only [Entries, byteLen, List.mem_cons, Prod.mk.injEq, List.mem_nil_iff, or_false] at hv
      rcases hv with ⟨hh, _⟩ | ⟨_, rfl⟩
      · omega
      · rfl)
  rw [hlook] at hpl
  simp only [Option.map_some, byteLen_nil] at hpl
  have hw : st.window = .ok ('[' :: (T ++ ']' :: tailOf e)) := ht.window _ rfl
  obtain ⟨d0, d1, hch, hd0, hd1⟩ := split_link h
  refine ⟨cache', ?_⟩
  rw [← hst]
  -- the nested frame
  obtain ⟨s2, hs2⟩ : ∃ s2 : IState, s2 = ⟨useOf T e, [(0, x)], 0 + 1, 0 + 1 + byteLen T, 0 + 1, 0 + 1, cache', bt, [], []⟩ :=
    ⟨_, rfl⟩
  have hfr2 : Fr s2 (useOf T e) x := by rw [hs2]; exact ⟨rfl, rfl⟩
  have hnest := tokLoop_nested h (G + 1) hfr2 ['['] T (']' :: tailOf e) (by simp [useOf])
    (by rw [hs2]; rfl) (by rw [hs2]; simp [bl_open]) (by rw [hs2]; show 0 + 1 < _; omega)
    (by rw [hs2]) hne hT
  have hpl' : parseLink cfg (fun s => skipToken cfg (G + 2) s) (G + 2) st (st.pos + 0) false =
      .ok (some (resOf 0 T e r), { st with cache := cache' }) := by
    have hp0 : st.pos + 0 = 0 := by rw [ht.pos]; rfl
    rw [hp0]; exact hpl
  have htok : (fun s : IState => tokLoop cfg (G + 2) s.posMax s)
      { ({ st with cache := cache' } : IState) with children := [], bottoms := [], linkLevel := ({ st with cache := cache' } : IState).linkLevel + 1, level := ({ st with cache := cache' } : IState).level + 1, pos := (resOf 0 T e r).labelStart, posMax := (resOf 0 T e r).labelEnd } = .ok { s2 with children := [Node.newText T (some (x + byteLen ['['], x + (byteLen ['['] + byteLen T)))], pos := byteLen ['['] + byteLen T } := by
    have : ({ ({ st with cache := cache' } : IState) with children := [], bottoms := [], linkLevel := ({ st with cache := cache' } : IState).linkLevel + 1, level := ({ st with cache := cache' } : IState).level + 1, pos := (resOf 0 T e r).labelStart, posMax := (resOf 0 T e r).labelEnd } : IState) = s2 := by
      rw [hs2, hst]; rfl
    rw [this]
    exact hnest
  have hgm := ht.fr.getMap (a := 0) (b := byteLen (useOf T e)) (by omega)
  have hle : 1 + byteLen T ≤ byteLen (useOf T e) := by rw [byteLen_useOf]; omega
  have hlr := linkRule_real (mk := Val.link) (tok := fun s : IState => tokLoop cfg (G + 2) s.posMax s) hpl' htok (by rw [hs2]; simp)
    (r := (x + 0, x + byteLen (useOf T e)))
    (by
      show IState.getMap _ st.pos (0 + byteLen (useOf T e)) = _
      rw [ht.pos, Nat.zero_add]
      have hfr3 : Fr ({ s2 with children := [Node.newText T (some (x + byteLen ['['], x + (byteLen ['['] + byteLen T)))], pos := byteLen ['['] + byteLen T } : IState) (useOf T e) x := ⟨hfr2.src, hfr2.map⟩
      exact hfr3.getMap (Nat.zero_le _))
    (by
      show ¬ (0 + byteLen (useOf T e) < byteLen ['['] + byteLen T)
      rw [bl_open]; omega)
  have hlink : runRule cfg (fun s => skipToken cfg (G + 2) s) (fun s => tokLoop cfg (G + 2) s.posMax s) (G + 2)
      .link st false = linkRule cfg (fun s => skipToken cfg (G + 2) s) (fun s => tokLoop cfg (G + 2) s.posMax s)
        (G + 2) Val.link false 0 st false := by
    simp [runRule, ruleLink, hw, liftR]
  rw [hlr] at hlink
  unfold tokStep
  simp only [hl, if_true, hch]
  rw [firstRule_quiet _ st d0 _ (fun r hr =>
    runRule_quiet cfg _ _ (G + 2) hw r (quiet_open h (hd0 r hr).1 (hd0 r hr).2) false)]
  simp only [firstRule, hlink]
  rw [hs2, hst]
  simp only [resOf, linkNode, bl_open, Option.getD_some, List.nil_append, Nat.zero_add, Nat.add_zero,
    Nat.add_sub_cancel]
  congr 2
  omega

end MdIt.C13D
