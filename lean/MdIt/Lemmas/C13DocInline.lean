/-
  C13 at document level, USE side: symbolic runs of the inline parser on a reference use
  `[T]` / `[T][]` / `[T][L]` with plain text and label.

  Part 1 (this file): rules that decline at a character they do not own (`runRule_quiet`, both modes),
  frames over a text with the one-entry table, the look-ahead token over a plain stretch
  (`skipToken_plain`), the label walk over a plain stretch (`labelLoop_plain`, `parseLinkLabel_plain`).
-/
import MdIt.Lemmas.C11SpanInline
import MdIt.Props.InlineTotal
set_option linter.unusedSimpArgs false
set_option linter.unusedVariables false

namespace MdIt.C13D
open MdIt.Inline
open MdIt.InlineOps (Srcmap getSourcePosFor getMap byteLen slice)
open MdIt.C05 (byteLen_append slice_ok_iff)
open MdIt.C11S (PlainTxt splitRun_plain firstRule_quiet)

/-! ## 1. rules that decline -/

/-- rule `id` does not own the character `c`: it is not in the rule's `firesAt` list and `id` is not
    an emphasis rule for `c` -/
def Quiet (id : RuleId) (c : Char) : Prop := id.firesAt c = false ∧ ∀ mk csw, id = .emph mk csw → mk ≠ c

theorem st_backticks_self (st : IState) : ({ st with backticks := st.backticks } : IState) = st := by
  cases st; rfl

/-- a rule that does not own the first character of the window answers `None` and hands the state
    back, in real mode and in look-ahead mode -/
theorem runRule_quiet (cfg : Cfg) (skip tok : IState → Except Panic IState) (fuel : Nat) {st : IState}
    {c : Char} {rest : List Char} (hw : st.window = .ok (c :: rest)) (id : RuleId) (hq : Quiet id c)
    (silent : Bool) : runRule cfg skip tok fuel id st silent = .ok (none, st) := by
  obtain ⟨hf, he⟩ := hq
  cases id with
  | text =>
    have hc : (!Entity.textStop.contains c) = false := hf
    have hc' : c ∈ Entity.textStop := by simpa using hc
    simp [runRule, ruleText, hw, Entity.splitRun, hc', byteLen, liftR]
  | newline =>
    have hc : c ≠ '\n' := by intro e; subst e; simp [RuleId.firesAt] at hf
    simp [runRule, ruleNewline, hw, liftR, hc]
  | escape =>
    have hc : (c != '\\') = true := by simp only [RuleId.firesAt] at hf; simpa using hf
    have hesc : Entity.escapeCore (c :: rest) = .ok none := by
      unfold Entity.escapeCore; simp only [hc, if_true]
    simp [runRule, ruleEscape, hw, hesc, liftR]
  | backticks =>
    have hc : c ≠ '`' := by intro e; subst e; simp [RuleId.firesAt] at hf
    have hsl := window_eq hw
    simp only [runRule, ruleBackticks]
    rw [CodePair.run_other CodePair.Variant.current '`' false silent st.backticks
      ((codeSlice_eq _ _ _ _).mpr hsl) hc]
    rfl
  | emph mk csw =>
    have hmk : c ≠ mk := fun e => he mk csw rfl e.symm
    cases silent with
    | true => simp [runRule, ruleEmph, liftR]
    | false => simp [runRule, ruleEmph, hw, liftR, hmk]
  | link =>
    have hc : c ≠ '[' := by intro e; subst e; simp [RuleId.firesAt] at hf
    simp [runRule, ruleLink, hw, liftR, hc]
  | image =>
    have hc : c ≠ '!' := by intro e; subst e; simp [RuleId.firesAt] at hf
    simp only [runRule, ruleImage, hw, liftR]
    split
    · rename_i heq; cases heq
    · rename_i r heq
      simp only [Except.ok.injEq, List.cons.injEq] at heq
      exact absurd heq.1 hc
    · rfl
  | linkEnd => rfl
  | autolink =>
    have hc : c ≠ '<' := by intro e; subst e; simp [RuleId.firesAt] at hf
    simp [runRule, ruleAutolink, hw, liftR, hc]
  | entity =>
    have hc : c ≠ '&' := by intro e; subst e; simp [RuleId.firesAt] at hf
    simp [runRule, ruleEntity, hw, liftR, hc]

theorem st_level_self (st : IState) :
    ({ st with level := st.level + 1 - 1 } : IState) = st := by
  cases st; simp

theorem silentBumped_quiet (cfg : Cfg) (skip tok : IState → Except Panic IState) (fuel : Nat) {st : IState}
    {c : Char} {rest : List Char} (hw : st.window = .ok (c :: rest)) (id : RuleId) (hq : Quiet id c) :
    silentBumped (runRule cfg skip tok fuel id) st = .ok (none, st) := by
  have hw' : ({ st with level := st.level + 1 } : IState).window = .ok (c :: rest) := hw
  unfold silentBumped
  rw [runRule_quiet cfg skip tok fuel hw' id hq true]
  simp only [Nat.add_one_ne_zero, if_false, st_level_self]

/-! ## 2. the chain -/

/-- the hypotheses on the inline chain: coherent, with the text rule, the link rule exactly once, and
    `]` not an emphasis marker -/
structure ChainOK (cfg : Cfg) : Prop where
  coh : ChainCoherent cfg = true
  text : RuleId.text ∈ cfg.chain
  link : cfg.chain.count .link = 1
  close : ']' ∉ cfg.emphMarkers

theorem mem_emphMarkers {cfg : Cfg} {mk : Char} {csw : Bool} (h : RuleId.emph mk csw ∈ cfg.chain) :
    mk ∈ cfg.emphMarkers := by
  unfold Cfg.emphMarkers
  exact List.mem_filterMap.mpr ⟨_, h, rfl⟩

theorem coherent_marker {cfg : Cfg} (hc : ChainCoherent cfg = true) {mk : Char} (hm : mk ∈ cfg.emphMarkers)
    {id : RuleId} (hid : id ∈ cfg.chain) : id.firesAt mk = false := by
  unfold ChainCoherent at hc
  have := (List.all_eq_true.mp hc) mk hm
  simp only [Bool.and_eq_true] at this
  have := (List.all_eq_true.mp this.2) id hid
  simpa using this

theorem link_mem {cfg : Cfg} (h : ChainOK cfg) : RuleId.link ∈ cfg.chain := by
  have := h.link
  exact List.count_pos_iff.mp (by omega)

/-- at a plain character (not a stop character of the text rule) only the text rule answers -/
theorem quiet_plain {cfg : Cfg} (h : ChainOK cfg) {p : Char} (hp : p ∉ Entity.textStop) {id : RuleId}
    (hid : id ∈ cfg.chain) (hne : id ≠ .text) : Quiet id p := by
  refine ⟨?_, ?_⟩
  · cases id with
    | text => exact absurd rfl hne
    | newline => simp only [RuleId.firesAt, beq_eq_false_iff_ne]; intro e; subst e; exact hp (by decide)
    | escape => simp only [RuleId.firesAt, beq_eq_false_iff_ne]; intro e; subst e; exact hp (by decide)
    | backticks => simp only [RuleId.firesAt, beq_eq_false_iff_ne]; intro e; subst e; exact hp (by decide)
    | emph _ _ => rfl
    | link => simp only [RuleId.firesAt, beq_eq_false_iff_ne]; intro e; subst e; exact hp (by decide)
    | image => simp only [RuleId.firesAt, beq_eq_false_iff_ne]; intro e; subst e; exact hp (by decide)
    | linkEnd => rfl
    | autolink => simp only [RuleId.firesAt, beq_eq_false_iff_ne]; intro e; subst e; exact hp (by decide)
    | entity => simp only [RuleId.firesAt, beq_eq_false_iff_ne]; intro e; subst e; exact hp (by decide)
  · intro mk csw e hmk
    subst e; subst hmk
    have := coherent_marker h.coh (mem_emphMarkers hid) h.text
    simp only [RuleId.firesAt, Bool.not_eq_false'] at this
    exact hp (by simpa using this)

/-- at `[` only the link rule answers -/
theorem quiet_open {cfg : Cfg} (h : ChainOK cfg) {id : RuleId} (hid : id ∈ cfg.chain) (hne : id ≠ .link) :
    Quiet id '[' := by
  refine ⟨?_, ?_⟩
  · cases id <;> first | rfl | exact absurd rfl hne | decide
  · intro mk csw e hmk
    subst e; subst hmk
    have := coherent_marker h.coh (mem_emphMarkers hid) (link_mem h)
    simp [RuleId.firesAt] at this

/-- at `]` no rule answers -/
theorem quiet_close {cfg : Cfg} (h : ChainOK cfg) {id : RuleId} (hid : id ∈ cfg.chain) : Quiet id ']' := by
  refine ⟨?_, ?_⟩
  · cases id <;> first | rfl | decide
  · intro mk csw e hmk
    subst e; subst hmk
    exact h.close (mem_emphMarkers hid)

theorem firstRule_all_quiet (run : RuleId → IState → RuleRes) (st : IState) (ch : List RuleId)
    (h : ∀ r ∈ ch, run r st = .ok (none, st)) : firstRule run ch st = .ok (none, st) := by
  have := firstRule_quiet run st ch [] h
  rw [List.append_nil] at this
  rw [this]; rfl

/-- split the chain at the text rule -/
theorem split_text {cfg : Cfg} (h : ChainOK cfg) :
    ∃ c0 c1, cfg.chain = c0 ++ .text :: c1 ∧ ∀ r ∈ c0, r ∈ cfg.chain ∧ r ≠ .text := by
  obtain ⟨c0, c1, he, hn⟩ := List.eq_append_cons_of_mem h.text
  refine ⟨c0, c1, he, fun r hr => ⟨by rw [he]; simp [hr], fun e => hn (e ▸ hr)⟩⟩

/-- split the chain at THE link rule -/
theorem split_link {cfg : Cfg} (h : ChainOK cfg) :
    ∃ d0 d1, cfg.chain = d0 ++ .link :: d1 ∧ (∀ r ∈ d0, r ∈ cfg.chain ∧ r ≠ .link) ∧
      (∀ r ∈ d1, r ∈ cfg.chain ∧ r ≠ .link) := by
  obtain ⟨d0, d1, he, hn⟩ := List.eq_append_cons_of_mem (link_mem h)
  have hcount := h.link
  rw [he, List.count_append, List.count_cons_self] at hcount
  have h1 : d1.count .link = 0 := by omega
  have hn1 : RuleId.link ∉ d1 := List.count_eq_zero.mp h1
  exact ⟨d0, d1, he, fun r hr => ⟨by rw [he]; simp [hr], fun e => hn (e ▸ hr)⟩,
    fun r hr => ⟨by rw [he]; simp [hr], fun e => hn1 (e ▸ hr)⟩⟩

/-! ## 3. frames -/

/-- a state over the text `c` with the one-entry table -/
structure Fr (st : IState) (c : List Char) (x : Nat) : Prop where
  src : st.src = c
  map : st.srcmap = [(0, x)]

theorem Fr.window {st : IState} {c : List Char} {x : Nat} (h : Fr st c x) (a b d : List Char)
    (hc : c = a ++ b ++ d) (hp : st.pos = byteLen a) (hm : st.posMax = byteLen a + byteLen b) :
    st.window = .ok b := by
  unfold IState.window
  rw [h.src, hm, hp]
  have : slice c (byteLen a) (byteLen a + byteLen b) = .ok b :=
    (slice_ok_iff _ _ _ _).mpr ⟨a, d, hc, rfl, rfl⟩
  rw [this]; rfl

theorem Fr.slice {st : IState} {c : List Char} {x : Nat} (h : Fr st c x) (a b d : List Char)
    (hc : c = a ++ b ++ d) : InlineOps.slice st.src (byteLen a) (byteLen a + byteLen b) = .ok b := by
  rw [h.src]
  exact (slice_ok_iff _ _ _ _).mpr ⟨a, d, hc, rfl, rfl⟩

theorem Fr.getMap {st : IState} {c : List Char} {x : Nat} (h : Fr st c x) {a b : Nat} (hab : a ≤ b) :
    st.getMap a b = .ok (x + a, x + b) := by
  unfold IState.getMap InlineOps.getMap
  rw [if_neg (by omega), h.map, C05I.single_translate, C05I.single_translate]; rfl

theorem byteLen_pos {l : List Char} (h : l ≠ []) : 0 < byteLen l := by
  cases l with
  | nil => exact absurd rfl h
  | cons d r => have := Char.utf8Size_pos d; simp only [byteLen]; omega

theorem byteLen_one (ch : Char) (h : ch.utf8Size = 1) : byteLen [ch] = 1 := by simp [byteLen, h]

/-! ## 4. the look-ahead token over a plain stretch -/

/-- the text rule in look-ahead mode on a plain stretch `P` in front of a stop character / the end of
    the window: the whole stretch -/
theorem ruleText_silent_plain {st : IState} (P b : List Char) (hw : st.window = .ok (P ++ b))
    (hne : P ≠ []) (hP : PlainTxt P) (hb : ∀ ch ∈ b.head?, ch ∈ Entity.textStop) :
    ruleText st true = .ok (some (byteLen P), st) := by
  have hpos : byteLen P ≠ 0 := by have := byteLen_pos hne; omega
  unfold ruleText
  rw [hw]
  simp only [splitRun_plain P b hP hb, hpos, if_false, if_true]

/-- the look-ahead chain on a plain stretch: the rules in front of the text rule decline, the text
    rule takes the stretch -/
theorem firstRule_silent_plain {cfg : Cfg} (h : ChainOK cfg) (skip tok : IState → Except Panic IState)
    (fuel : Nat) {st : IState} (P b : List Char) (hw : st.window = .ok (P ++ b))
    (hne : P ≠ []) (hP : PlainTxt P) (hb : ∀ ch ∈ b.head?, ch ∈ Entity.textStop) :
    firstRule (fun id s => silentBumped (runRule cfg skip tok fuel id) s) cfg.chain st =
      .ok (some (byteLen P), st) := by
  obtain ⟨c0, c1, hch, hc0⟩ := split_text h
  obtain ⟨p, P', rfl⟩ : ∃ p P', P = p :: P' := by
    cases P with
    | nil => exact absurd rfl hne
    | cons p P' => exact ⟨p, P', rfl⟩
  have hpp : p ∉ Entity.textStop := hP p (by simp)
  have hw1 : st.window = .ok (p :: (P' ++ b)) := by rw [hw]; rfl
  rw [hch, firstRule_quiet _ st c0 _ (fun r hr =>
    silentBumped_quiet cfg skip tok fuel hw1 r (quiet_plain h hpp (hc0 r hr).1 (hc0 r hr).2))]
  have hw' : ({ st with level := st.level + 1 } : IState).window = .ok ((p :: P') ++ b) := hw
  simp only [firstRule, silentBumped, runRule, ruleText_silent_plain (p :: P') b hw' hne hP hb, liftR,
    Nat.add_one_ne_zero, if_false, st_level_self]

/-- `skip_token` at the start of a plain stretch: the memo answers (with the end of the stretch), or the
    text rule takes the stretch in look-ahead mode and the answer is recorded -/
theorem skipToken_plain {cfg : Cfg} (h : ChainOK cfg) (f : Nat) {st : IState} (P b : List Char)
    (hw : st.window = .ok (P ++ b)) (hne : P ≠ []) (hP : PlainTxt P)
    (hb : ∀ ch ∈ b.head?, ch ∈ Entity.textStop) (hl : st.level < cfg.maxNesting)
    (hcache : ∀ v, st.cache.lookup st.pos = some v → v = st.pos + byteLen P) :
    ∃ cache', skipToken cfg (f + 1) st = .ok { st with pos := st.pos + byteLen P, cache := cache' } ∧
      (cache' = st.cache ∨ cache' = (st.pos, st.pos + byteLen P) :: st.cache) := by
  rw [skipToken.eq_def]
  simp only
  cases hlk : st.cache.lookup st.pos with
  | some v =>
    have := hcache v hlk
    subst this
    exact ⟨st.cache, by cases st; rfl, .inl rfl⟩
  | none =>
    refine ⟨(st.pos, st.pos + byteLen P) :: st.cache, ?_, .inr rfl⟩
    simp only [hl, if_true]
    unfold skipStep
    simp only [firstRule_silent_plain h _ _ f P b hw hne hP hb, cacheInsert]

/-! ## 5. the label walk -/

/-- what a look-ahead walk may add to the memo: the one entry for the plain stretch at `k` -/
def CacheStep (old new : List (Nat × Nat)) (k v : Nat) : Prop := new = old ∨ new = (k, v) :: old

theorem labelLoop_close (skip : IState → Except Panic IState) (en : Bool) (fuel : Nat) {st : IState}
    {rest : List Char} (hw : st.window = .ok (']' :: rest)) :
    labelLoop skip en (fuel + 1) 1 st = .ok (some true, st) := by
  rw [labelLoop.eq_def]
  simp only [hw, liftR]
  simp

/-- the label walk over a plain stretch `P` that is followed by `]`: found, at the `]` -/
theorem labelLoop_plain {cfg : Cfg} (h : ChainOK cfg) (f fuel : Nat) (en : Bool) {st : IState}
    (P rest : List Char) (hw : st.window = .ok (P ++ ']' :: rest)) (hP : PlainTxt P)
    (hl : st.level < cfg.maxNesting)
    (hcache : ∀ v, st.cache.lookup st.pos = some v → v = st.pos + byteLen P) :
    ∃ cache', labelLoop (fun s => skipToken cfg (f + 1) s) en (fuel + 2) 1 st =
        .ok (some true, { st with pos := st.pos + byteLen P, cache := cache' }) ∧
      CacheStep st.cache cache' st.pos (st.pos + byteLen P) := by
  by_cases hne : P = []
  · subst hne
    refine ⟨st.cache, ?_, .inl rfl⟩
    rw [labelLoop_close _ _ _ hw]
    cases st; simp [byteLen]
  · obtain ⟨cache', hsk, hcs⟩ := skipToken_plain h f P (']' :: rest) hw hne hP
      (by intro ch hch; simp at hch; subst hch; decide) hl hcache
    refine ⟨cache', ?_, hcs⟩
    obtain ⟨p, P', rfl⟩ : ∃ p P', P = p :: P' := by
      cases P with
      | nil => exact absurd rfl hne
      | cons p P' => exact ⟨p, P', rfl⟩
    have hpp : p ∉ Entity.textStop := hP p (by simp)
    have hp1 : p ≠ ']' := by intro e; subst e; exact hpp (by decide)
    have hp2 : p ≠ '[' := by intro e; subst e; exact hpp (by decide)
    have hw1 : st.window = .ok (p :: (P' ++ ']' :: rest)) := by rw [hw]; rfl
    rw [labelLoop.eq_def]
    simp only [hw1, liftR, hp1, false_and, if_false, hsk, hp2]
    have hw2 : ({ st with pos := st.pos + byteLen (p :: P'), cache := cache' } : IState).window =
        .ok (']' :: rest) := by
      have hs := window_eq hw
      obtain ⟨a, q, hsrc, ha, hb⟩ := (slice_ok_iff _ _ _ _).mp hs
      unfold IState.window
      have : slice st.src (st.pos + byteLen (p :: P')) st.posMax = .ok (']' :: rest) := by
        refine (slice_ok_iff _ _ _ _).mpr ⟨a ++ (p :: P'), q, ?_, ?_, ?_⟩
        · rw [hsrc]; simp
        · rw [byteLen_append, ha]
        · rw [← hb, byteLen_append]; omega
      show liftOps (slice st.src (st.pos + byteLen (p :: P')) st.posMax) = _
      rw [this]; rfl
    exact labelLoop_close _ _ _ hw2

/-- `parse_link_label` at a `[` (byte `start`) that is followed by a plain stretch `P` and `]` -/
theorem parseLinkLabel_plain {cfg : Cfg} (h : ChainOK cfg) (f fuel : Nat) (en : Bool) {st : IState}
    {c : List Char} {x : Nat} (hfr : Fr st c x) (a P rest : List Char)
    (hc : c = a ++ '[' :: (P ++ ']' :: rest)) (hm : st.posMax = byteLen c) (hP : PlainTxt P)
    (hl : st.level < cfg.maxNesting)
    (hcache : ∀ v, st.cache.lookup (byteLen a + 1) = some v → v = byteLen a + 1 + byteLen P) :
    ∃ cache', parseLinkLabel (fun s => skipToken cfg (f + 1) s) (fuel + 2) st (byteLen a) en =
        .ok (some (byteLen a + 1 + byteLen P), { st with cache := cache' }) ∧
      CacheStep st.cache cache' (byteLen a + 1) (byteLen a + 1 + byteLen P) := by
  have hfr' : Fr ({ st with pos := byteLen a + 1 } : IState) c x := ⟨hfr.src, hfr.map⟩
  have hw : ({ st with pos := byteLen a + 1 } : IState).window = .ok (P ++ ']' :: rest) := by
    have := hfr'.window (a ++ ['[']) (P ++ ']' :: rest) [] (by rw [hc]; simp)
      (by simp [byteLen_append, byteLen, show '['.utf8Size = 1 by decide]) (by
        show st.posMax = _
        rw [hm, hc]; simp [byteLen_append, byteLen, show '['.utf8Size = 1 by decide]; omega)
    exact this
  obtain ⟨cache', hll, hcs⟩ := labelLoop_plain h f fuel en P rest hw hP hl hcache
  refine ⟨cache', ?_, hcs⟩
  unfold parseLinkLabel
  simp only [hll]
  cases st; simp

end MdIt.C13D
