/-
  Helper development for `Props/MemoSafe.lean`, fourth part (code spans with runs of backticks): THE
  NESTED FRAMES — the copy of `Lemmas/MemoSafeLamNest.lean` in the namespace `MdIt.Inline.CS`, against the
  definitions of `Lemmas/MemoSafeLamCSDef.lean`.

  What is new against the original (all conditional on `RuleId.backticks ∈ cfg.chain`):
    * `NF` has the fields `nocut` (the top `pos_max` cuts no backtick run), `hmk : MK s` (unit memo
      entries that end strictly inside a backtick run are marked in the CURRENT `inside_failed`) and
      `ifp : IFP s` (a state strictly inside a run has its position in `inside_failed`);
    * the witness `CS.Just` of a memo entry knows `IFP` of its state; at a backtick the witness states of
      the chain keep it (`Pair.wifp`: `inside_failed` only grows, and only the code-span rule touches the
      cache there), so the agreement premise of `CS.BackL2` holds: strictly inside a run both
      `inside_failed` contain the position, elsewhere `AgreeHyp`;
    * `CS.BackOK` needs `NoCut` of the `pos_max` of the call: the top `pos_max` (`NF.nocut`) for witness
      states, the `]` at the frame end for nested real states (`WinHyp.noCut`);
    * `InsideSub x.backticks x'.backticks` is tracked through `rule_L2` / `chain_L2` / `nested_step` and
      returned by `nested_eq` (keeps `MK`: memo and text are constant in a nested frame);
    * `IFP` of the successor state: the new position is the end `v` of the memo entry `k ↦ v` — if it is
      strictly inside a run then `v = k + 1` (`EndHyp`) and `MK` gives the mark — or the end of a real
      delimiter run, whose last character is a marker, which is no backtick when the code-span rule is
      in the (coherent) chain.

  Lemmas of the original that do not mention `NF` / `Just` / `BackOK` are RE-USED from `MdIt.Inline`
  (`over_limit`, `fallback_keeps`, `silentBumped_ok`, `wit_step`, `silent_flat_state`, `backticks_other`,
  `link_other`, `image_other`, `linkRule_silent_inv`, `chain_declines_of`, `wit_chain_grow`,
  `wit_chain_step`, `skipStep_inv`, `outer_marker_run` (through `NCtx.toNCtx`), `StepCtx`, `MarkerRun`, …).
  Nothing is OPEN here.
-/
import MdIt.Lemmas.MemoSafeLamCSDef

namespace MdIt.Inline.CS
open MdIt.Inline
open MdIt.InlineOps (Srcmap getSourcePosFor getMap byteLen slice)
open MdIt.C05 (WFMap MonoMap byteLen_append slice_ok_iff)

/-! ## the invariant of the nested frames, with the code-span marks -/

/-- the fixed data of a nested descent (`Inline.NCtx` with the new witnesses) -/
structure NCtx (cfg : Cfg) (B : List Char → CodePair.Cache → Prop) (src : List Char) (Mtop : Nat)
    (m : List (Nat × Nat)) : Prop where
  bmax : Boundary src Mtop
  stop : EntStop src Mtop
  memo : ∀ k v, (k, v) ∈ m → k < v ∧ Boundary src v
  just : JustAll cfg B src Mtop m

theorem NCtx.toNCtx {cfg : Cfg} {B : List Char → CodePair.Cache → Prop} {src : List Char} {Mtop : Nat}
    {m : List (Nat × Nat)} (h : NCtx cfg B src Mtop m) : Inline.NCtx cfg B src Mtop m :=
  ⟨h.bmax, h.stop, h.memo, h.just.toJustAll⟩

/-- **the invariant of a real state inside a nested label frame** (`Inline.NF` plus `nocut`, `MK`, `IFP`) -/
structure NF (cfg : Cfg) (B : List Char → CodePair.Cache → Prop) (src : List Char) (Mtop : Nat)
    (s : IState) : Prop where
  ctx : NCtx cfg B src Mtop s.cache
  hsrc : s.src = src
  back : B s.src s.backticks
  good : ∃ lo, Good lo s
  cut : ∃ r, slice src s.posMax Mtop = .ok (']' :: r)
  outer : Outer src Mtop s.cache s.posMax s.pos 1
  nocut : CodePair.NoCut '`' src Mtop
  hmk : RuleId.backticks ∈ cfg.chain → MK s
  ifp : RuleId.backticks ∈ cfg.chain → IFP s

theorem NF.toNF {cfg : Cfg} {B : List Char → CodePair.Cache → Prop} {src : List Char} {Mtop : Nat}
    {s : IState} (h : NF cfg B src Mtop s) : Inline.NF cfg B src Mtop s :=
  ⟨h.ctx.toNCtx, h.hsrc, h.back, h.good, h.cut, h.outer⟩

theorem NF.memoB {cfg : Cfg} {B : List Char → CodePair.Cache → Prop} {src : List Char} {Mtop : Nat}
    {s : IState} (h : NF cfg B src Mtop s) : MemoB s := h.toNF.memoB

/-- the hypotheses of the nested induction -/
structure NestHyps (cfg : Cfg) (B : List Char → CodePair.Cache → Prop) (src : List Char) (Mtop : Nat) :
    Prop where
  coh : ChainCoherent cfg = true
  hB : BackOK B
  flat : FlatL2 cfg
  back : RuleId.backticks ∈ cfg.chain → BackL2 cfg B src Mtop
  keep : RealKeeps cfg
  emph : EmphL2 cfg
  plLink : RuleId.link ∈ cfg.chain → ParseLinkL2Part cfg B src Mtop 0 false
  plImage : RuleId.image ∈ cfg.chain → ParseLinkL2Part cfg B src Mtop 1 true
  one : cfg.chain.count .link ≤ 1 ∧ cfg.chain.count .image ≤ 1
  hend : EndHyp cfg B src Mtop
  agree : AgreeHyp B src

/-! ## the fixed data of one real step -/

/-- a witness state `w` (look-ahead, top `pos_max`) and a real state `x` of the nested frame at the same
    position.  `B` and `IFP` of the witness state are only needed (and only available) at a backtick. -/
structure Pair (cfg : Cfg) (B : List Char → CodePair.Cache → Prop) (src : List Char) (Mtop : Nat)
    (m : List (Nat × Nat)) (k le : Nat) (ch : Char) (w x : IState) : Prop where
  wi : LInv w
  wsrc : w.src = src
  wmax : w.posMax = Mtop
  wpos : w.pos = k
  wB : ch = '`' → B w.src w.backticks
  wifp : ch = '`' → RuleId.backticks ∈ cfg.chain → IFP w
  nf : NF cfg B src Mtop x
  xpos : x.pos = k
  xmax : x.posMax = le
  xcache : x.cache = m

/-- one real rule call (verdict `o`, state `x'`) against its witness call (verdict `o1`): as
    `Inline.RulePost`, plus: `inside_failed` only grows -/
def RulePost (cfg : Cfg) (B : List Char → CodePair.Cache → Prop) (src : List Char) (ch : Char)
    (v k le : Nat) (o1 : Option Nat) (x : IState) (o : Option Nat) (x' : IState) : Prop :=
  x'.cache = x.cache ∧ x'.src = x.src ∧ x'.posMax = x.posMax ∧ B x'.src x'.backticks ∧
  InsideSub x.backticks x'.backticks ∧
  ((o = none ∧ o1 = none ∧ x'.pos = x.pos ∧ ∃ lo, Good lo x') ∨
   (∃ len, o = some len ∧ (∃ n, o1 = some n) ∧ x'.pos + len = v) ∨
   (∃ n, o = some n ∧ x'.pos = x.pos ∧ MarkerRun cfg src ch k le n))

/-- the callees of one real step: the guarded pair and the model pair -/
structure Callees (cfg : Cfg) (B : List Char → CodePair.Cache → Prop) (src : List Char) (Mtop : Nat)
    (f : Nat) (skipG skipM tokG tokM : IState → Except Panic IState) : Prop where
  calm : CalmFn skipG
  skT : SkipHypT skipG
  tokT : TokHypT tokG
  rng : RangesFn tokG
  hits : f = 0 ∨ (FollowsHits skipG ∧ FollowsHits skipM)
  tokEq : ∀ s, NF cfg B src Mtop s → tokG s = tokM s ∧
    ∀ s', tokG s = .ok s' → s'.cache = s.cache ∧ s'.src = s.src ∧
      InsideSub s.backticks s'.backticks ∧ B s'.src s'.backticks

section
variable {cfg : Cfg} {B : List Char → CodePair.Cache → Prop} {src : List Char} {Mtop : Nat}

theorem NF.top_lt {s : IState} (h : NF cfg B src Mtop s) : s.posMax < Mtop := h.toNF.top_lt

/-- `NF` reads `src`, `posMax`, `pos`, `cache`, `backticks` and `Good` only; `inside_failed` may grow -/
theorem NF.of_same {x x' : IState} (h : NF cfg B src Mtop x) (hc : x'.cache = x.cache)
    (hs : x'.src = x.src) (hm : x'.posMax = x.posMax) (hp : x'.pos = x.pos)
    (hb : B x'.src x'.backticks) (hsub : InsideSub x.backticks x'.backticks)
    (hg : ∃ lo, Good lo x') : NF cfg B src Mtop x' :=
  ⟨by rw [hc]; exact h.ctx, hs.trans h.hsrc, hb, hg, by rw [hm]; exact h.cut,
    by rw [hc, hm, hp]; exact h.outer, h.nocut, fun hbt => (h.hmk hbt).of_sub hs hc hsub,
    fun hbt hi => by
      rw [hs, hp] at hi
      rw [hp]; exact hsub _ (h.ifp hbt hi)⟩

variable {m : List (Nat × Nat)} {k le v : Nat} {ch : Char} {rest : List Char} {w x : IState}

theorem Pair.xlt (S : StepCtx src Mtop m k le v ch rest) (P : Pair cfg B src Mtop m k le ch w x) :
    x.pos < x.posMax := by rw [P.xpos, P.xmax]; exact S.klt

theorem Pair.wlt (S : StepCtx src Mtop m k le v ch rest) (P : Pair cfg B src Mtop m k le ch w x) :
    w.pos < w.posMax := by
  have := P.nf.top_lt
  rw [P.wpos, P.wmax]; have := S.klt; rw [P.xmax] at *; omega

theorem Pair.winHyp (S : StepCtx src Mtop m k le v ch rest) (P : Pair cfg B src Mtop m k le ch w x) :
    WinHyp w le := by
  obtain ⟨r, hr⟩ := P.nf.cut
  have hlt := P.nf.top_lt
  rw [P.xmax] at hr hlt
  refine ⟨P.wi.bpos, P.wi.bmax, by rw [P.wpos]; exact S.klt, by rw [P.wmax]; omega, .inr ⟨r, ?_⟩⟩
  rw [P.wsrc, P.wmax]; exact hr

/-- the top `pos_max` of the witness state cuts no backtick run -/
theorem Pair.wnocut (P : Pair cfg B src Mtop m k le ch w x) : CodePair.NoCut '`' w.src w.posMax := by
  rw [P.wsrc, P.wmax]; exact P.nf.nocut

/-- the `pos_max` of the nested real state cuts no backtick run: the character there is `]` -/
theorem Pair.xnocut (S : StepCtx src Mtop m k le v ch rest) (P : Pair cfg B src Mtop m k le ch w x) :
    CodePair.NoCut '`' x.src x.posMax := by
  have := (P.winHyp S).noCut P.wnocut
  rw [P.nf.hsrc, P.xmax, ← P.wsrc]; exact this

/-- the two windows: the same first character, the small one is a cut of the big one -/
theorem Pair.windows (S : StepCtx src Mtop m k le v ch rest) (P : Pair cfg B src Mtop m k le ch w x) :
    ∃ rest', x.window = .ok (ch :: rest') ∧ w.window = .ok (ch :: rest) ∧
      Cut (ch :: rest') (ch :: rest) := by
  have hW := P.winHyp S
  obtain ⟨w', wb, h1, h2, hne, _, hcut⟩ := window_split hW
  have hwb : w.window = .ok (ch :: rest) := by
    unfold IState.window; rw [P.wsrc, P.wpos, P.wmax, S.sl]; rfl
  rw [hwb] at h2
  simp only [Except.ok.injEq] at h2
  subst h2
  have hx : x.window = .ok w' := by
    rw [← h1, shrink_window]
    unfold IState.window
    rw [P.nf.hsrc, P.xpos, P.xmax, P.wsrc, P.wpos]
  cases w' with
  | nil => exact absurd rfl hne
  | cons c t =>
    have hc : c = ch := by
      rcases hcut with e | ⟨r, e⟩
      · simp only [List.cons.injEq] at e; exact e.1.symm
      · simp only [List.cons_append, List.cons.injEq] at e; exact e.1.symm
    subst hc
    exact ⟨t, hx, hwb, hcut⟩

end

/-! ## the witness side: look-ahead calls -/

/-- at a backtick every look-ahead rule call keeps the code-span cache invariant and only grows
    `inside_failed`: only the code-span rule touches the cache there (the link / image rules decline on
    the first character) -/
theorem wit_back {cfg : Cfg} {B : List Char → CodePair.Cache → Prop} (hB : BackOK B)
    {skip tok : IState → Except Panic IState} {fuel : Nat} {id : RuleId} {w w1 : IState}
    (hnc : CodePair.NoCut '`' w.src w.posMax)
    {rest : List Char} (hw : w.window = .ok ('`' :: rest)) (hb : B w.src w.backticks)
    {o1 : Option Nat} (h : silentBumped (runRule cfg skip tok fuel id) w = .ok (o1, w1)) :
    B w1.src w1.backticks ∧ InsideSub w.backticks w1.backticks := by
  obtain ⟨wb, hwb, rfl⟩ := silentBumped_ok h
  have hwB : ({ w with level := w.level + 1 } : IState).window = .ok ('`' :: rest) := hw
  show B wb.src wb.backticks ∧ InsideSub w.backticks wb.backticks
  by_cases hbt : id = .backticks
  · subst hbt
    have hwb' : liftR (ruleBackticks { w with level := w.level + 1 } true) = .ok (o1, wb) := hwb
    exact ⟨hB _ true _ _ (liftR_ok.mp hwb') hnc hb,
      insideSub_ruleBackticks (st := { w with level := w.level + 1 }) (liftR_ok.mp hwb')⟩
  · by_cases hf : id.isFlat = true
    · rw [silent_flat_state hf hbt hwb]; exact ⟨hb, InsideSub.refl _⟩
    · cases id with
      | link =>
        rw [link_other hwB (by decide) true] at hwb
        simp only [Except.ok.injEq, Prod.mk.injEq] at hwb
        rw [← hwb.2]; exact ⟨hb, InsideSub.refl _⟩
      | image =>
        rw [image_other hwB (by intro t ht; simp at ht) true] at hwb
        simp only [Except.ok.injEq, Prod.mk.injEq] at hwb
        rw [← hwb.2]; exact ⟨hb, InsideSub.refl _⟩
      | _ => simp [RuleId.isFlat] at hf

/-! ## one rule: the flat rules -/

section
variable {cfg : Cfg} {B : List Char → CodePair.Cache → Prop} {src : List Char} {Mtop : Nat}
  {f : Nat} {skipG skipM tokG tokM : IState → Except Panic IState}
  {skip0 tok0 : IState → Except Panic IState} {f0 : Nat}
  {m : List (Nat × Nat)} {k le v : Nat} {ch : Char} {rest : List Char} {w x : IState}

/-- `Good` behind a declining real rule call -/
theorem good_after_none (H : NestHyps cfg B src Mtop)
    (C : Callees cfg B src Mtop f skipG skipM tokG tokM) {id : RuleId} (hid : id ∈ cfg.chain)
    {x x' : IState} (hx : NF cfg B src Mtop x) (hlt : x.pos < x.posMax)
    (h : runRule cfg skipG tokG f id x false = .ok (none, x')) : ∃ lo, Good lo x' := by
  obtain ⟨lo, hg⟩ := hx.good
  have hT := runRule_real_T (coherent_hsz H.coh) C.calm C.skT C.tokT C.rng f hid x hg hx.memoB hlt
  have s1 := hT.ok _ _ h
  exact ⟨lo, Good.of_add_zero (by simpa using s1.good)⟩

/-- the flat rules without cache: `FlatL2` -/
theorem rule_flat (H : NestHyps cfg B src Mtop) (C : Callees cfg B src Mtop f skipG skipM tokG tokM)
    (S : StepCtx src Mtop m k le v ch rest) (P : Pair cfg B src Mtop m k le ch w x)
    {id : RuleId} (hid : id ∈ cfg.chain)
    (hfl : id = .text ∨ id = .newline ∨ id = .escape ∨ id = .autolink ∨ id = .entity ∨ id = .linkEnd)
    {o1 : Option Nat} {w1 : IState}
    (hwit : silentBumped (runRule cfg skip0 tok0 f0 id) w = .ok (o1, w1))
    (hsome : ∀ n, o1 = some n → v = k + n) :
    runRule cfg skipG tokG f id x false = runRule cfg skipM tokM f id x false ∧
    ∀ o x', runRule cfg skipG tokG f id x false = .ok (o, x') →
      RulePost cfg B src ch v k le o1 x o x' := by
  constructor
  · rcases hfl with rfl | rfl | rfl | rfl | rfl | rfl <;> rfl
  · intro o x' hreal
    obtain ⟨wb, hwb, _⟩ := silentBumped_ok hwit
    have hflat : id.isFlat = true := by rcases hfl with rfl | rfl | rfl | rfl | rfl | rfl <;> rfl
    have hnb : id ≠ .backticks := by rcases hfl with rfl | rfl | rfl | rfl | rfl | rfl <;> simp
    obtain ⟨l1, l2⟩ := H.flat skip0 tok0 skipG tokG f0 f id hfl { w with level := w.level + 1 } x
      (by rw [P.xmax]; exact (P.winHyp S).bump) P.wi.stop (P.nf.hsrc.trans P.wsrc.symm)
      (P.xpos.trans P.wpos.symm) o1 wb o x' hwb hreal
    obtain ⟨kp, kc, ks, km, _, kb⟩ := H.keep skipG tokG f id hflat x o x' hreal
    have hBx' : B x'.src x'.backticks := by rw [ks, kb hnb]; exact P.nf.back
    have hsub : InsideSub x.backticks x'.backticks := by rw [kb hnb]; exact InsideSub.refl _
    refine ⟨kc, ks, km, hBx', hsub, ?_⟩
    cases o1 with
    | none =>
      have := l1 rfl; subst this
      exact .inl ⟨rfl, rfl, kp, good_after_none H C hid P.nf (P.xlt S) hreal⟩
    | some n =>
      have hv := hsome n rfl
      have := l2 n rfl (by
        show w.pos + n ≤ x.posMax
        rw [P.wpos, P.xmax]; have := S.vle; omega)
      subst this
      exact .inr (.inl ⟨n, rfl, ⟨n, rfl⟩, by rw [kp, P.xpos]; omega⟩)

/-- the code-span rule: `CS.BackL2` at a backtick (the two `inside_failed` agree at the position:
    strictly inside a run both contain it — `IFP` of the witness state and of the real state —,
    elsewhere `AgreeHyp`), a plain decline elsewhere -/
theorem rule_back (H : NestHyps cfg B src Mtop) (C : Callees cfg B src Mtop f skipG skipM tokG tokM)
    (S : StepCtx src Mtop m k le v ch rest) (P : Pair cfg B src Mtop m k le ch w x)
    (hid : RuleId.backticks ∈ cfg.chain) {o1 : Option Nat} {w1 : IState}
    (hwit : silentBumped (runRule cfg skip0 tok0 f0 .backticks) w = .ok (o1, w1))
    (hsome : ∀ n, o1 = some n → v = k + n) :
    runRule cfg skipG tokG f .backticks x false = runRule cfg skipM tokM f .backticks x false ∧
    ∀ o x', runRule cfg skipG tokG f .backticks x false = .ok (o, x') →
      RulePost cfg B src ch v k le o1 x o x' := by
  refine ⟨rfl, ?_⟩
  intro o x' hreal
  obtain ⟨wb, hwb, _⟩ := silentBumped_ok hwit
  obtain ⟨rest', hwx, hww, _⟩ := P.windows S
  by_cases hch : ch = '`'
  · have hagree : w.backticks.insideFailed.contains w.pos = x.backticks.insideFailed.contains x.pos := by
      by_cases hint : Interior src k
      · rw [P.wifp hch hid (by rw [P.wsrc, P.wpos]; exact hint),
          P.nf.ifp hid (by rw [P.nf.hsrc, P.xpos]; exact hint)]
      · rw [P.wpos, P.xpos]
        exact H.agree _ _ k (by rw [← P.wsrc]; exact P.wB hch) (by rw [← P.nf.hsrc]; exact P.nf.back)
          hint
    obtain ⟨l1, l2⟩ := H.back hid skip0 tok0 skipG tokG f0 f { w with level := w.level + 1 } x
      (by rw [P.xmax]; exact (P.winHyp S).bump) P.wsrc P.wmax (P.nf.hsrc.trans P.wsrc.symm)
      (P.xpos.trans P.wpos.symm) (P.wB hch) P.nf.back hagree o1 wb o x' hwb hreal
    obtain ⟨kp, kc, ks, km, _, _⟩ := H.keep skipG tokG f .backticks rfl x o x' hreal
    have hreal' : liftR (ruleBackticks x false) = .ok (o, x') := hreal
    have hBx' : B x'.src x'.backticks :=
      H.hB x false o x' (liftR_ok.mp hreal') (P.xnocut S) P.nf.back
    have hsub : InsideSub x.backticks x'.backticks := insideSub_ruleBackticks (liftR_ok.mp hreal')
    refine ⟨kc, ks, km, hBx', hsub, ?_⟩
    cases o1 with
    | none =>
      have := l1 rfl; subst this
      exact .inl ⟨rfl, rfl, kp, good_after_none H C hid P.nf (P.xlt S) hreal⟩
    | some n =>
      have hv := hsome n rfl
      have := l2 n rfl (by
        show w.pos + n ≤ x.posMax
        rw [P.wpos, P.xmax]; have := S.vle; omega)
      subst this
      exact .inr (.inl ⟨n, rfl, ⟨n, rfl⟩, by rw [kp, P.xpos]; omega⟩)
  · rw [backticks_other hwx hch false] at hreal
    simp only [Except.ok.injEq, Prod.mk.injEq] at hreal
    obtain ⟨rfl, rfl⟩ := hreal
    have hwB : ({ w with level := w.level + 1 } : IState).window = .ok (ch :: rest) := hww
    rw [backticks_other hwB hch true] at hwb
    simp only [Except.ok.injEq, Prod.mk.injEq] at hwb
    exact ⟨rfl, rfl, rfl, P.nf.back, InsideSub.refl _, .inl ⟨rfl, hwb.1.symm, rfl, P.nf.good⟩⟩

/-- the emphasis rules: `EmphL2` -/
theorem rule_emph (H : NestHyps cfg B src Mtop) (_C : Callees cfg B src Mtop f skipG skipM tokG tokM)
    (S : StepCtx src Mtop m k le v ch rest) (P : Pair cfg B src Mtop m k le ch w x)
    {mk : Char} {csw : Bool} (hid : RuleId.emph mk csw ∈ cfg.chain) {o1 : Option Nat} {w1 : IState}
    (hwit : silentBumped (runRule cfg skip0 tok0 f0 (.emph mk csw)) w = .ok (o1, w1)) :
    runRule cfg skipG tokG f (.emph mk csw) x false = runRule cfg skipM tokM f (.emph mk csw) x false ∧
    ∀ o x', runRule cfg skipG tokG f (.emph mk csw) x false = .ok (o, x') →
      RulePost cfg B src ch v k le o1 x o x' := by
  refine ⟨rfl, ?_⟩
  intro o x' hreal
  obtain ⟨wb, hwb, _⟩ := silentBumped_ok hwit
  obtain ⟨rest', hwx, hww, _⟩ := P.windows S
  have ho1 : o1 = none := by
    have h'' : liftR (ruleEmph cfg mk csw { w with level := w.level + 1 } true) = .ok (o1, wb) := hwb
    have h' := liftR_ok.mp h''
    rw [ruleEmph_silent] at h'
    simp only [Except.ok.injEq, Prod.mk.injEq] at h'
    exact h'.1.symm
  have hsz := coherent_hsz H.coh mk csw hid
  have hreal' : liftR (ruleEmph cfg mk csw x false) = .ok (o, x') := hreal
  obtain ⟨e1, e2⟩ := H.emph mk csw hsz x o x' (liftR_ok.mp hreal')
  by_cases hc : ch = mk
  · subst hc
    obtain ⟨n, hn, h1, h2, h3⟩ := e2 rest' hwx
    obtain ⟨kp, kc, ks, km, _, kb⟩ := H.keep skipG tokG f (.emph ch csw) rfl x o x' hreal
    have hBx' : B x'.src x'.backticks := by rw [ks, kb (by simp)]; exact P.nf.back
    have hsub : InsideSub x.backticks x'.backticks := by rw [kb (by simp)]; exact InsideSub.refl _
    refine ⟨kc, ks, km, hBx', hsub, .inr (.inr ⟨n, hn, kp, ⟨csw, hid⟩, h1, ?_, ?_⟩)⟩
    · rw [P.xpos, P.xmax] at h2; exact h2
    · intro i hi
      have := h3 i hi
      rw [P.nf.hsrc, P.xpos, P.xmax] at this
      exact this
  · obtain ⟨rfl, rfl⟩ := e1 ch rest' hwx hc
    exact ⟨rfl, rfl, rfl, P.nf.back, InsideSub.refl _, .inl ⟨rfl, ho1, rfl, P.nf.good⟩⟩

end

end MdIt.Inline.CS
