/-
  Helper development for `Props/C16Doc.lean`, part 3d: `IFP` AFTER ANY REAL STEP OF THE TOP FRAME — the
  statement `MissIFP` of `Lemmas/C16DocTopRun.lean`, proved for every coherent chain.

  A real step that ends strictly inside a backtick run, behind a non-escaped character, is the one-character
  fall-back at a backtick behind a declining code-span rule (real-mode analogue of `ES.endHyp_holds`):
    * a flat rule that answers in real mode answers the same in look-ahead mode on the same state
      (`real_silent_verdict`), and such a token ends inside a run only as the escape of a backtick
      (`rule_end_interior`) — then the previous character IS escaped;
    * the emphasis rule ends behind a run of its marker, which is no backtick (`not_interior_after_run`);
    * a link / image ends behind `)` / `]` (`CS.linkRule_closedAt`);
  and the declining code-span rule marks the next position (`back_decline_marks`, real-mode analogue of
  `CS.chain_marks`: `real_chain_marks`), which the rest of the real chain and the fall-back keep.
-/
import MdIt.Lemmas.C16DocTopRun

namespace MdIt.Inline.ES.C16Doc
open MdIt.Inline
open MdIt.Inline.CS (Interior MK InsideSub MK.of_sub InsideSub.refl InsideSub.trans AgreeHyp
  not_interior_after_run)
open MdIt.InlineOps (Srcmap getSourcePosFor getMap byteLen slice)

/-- a chain that answers: the rule that answered, and the state it was called at -/
theorem firstRule_some_arrives {run : RuleId → IState → RuleRes} :
    ∀ (rules : List RuleId) (st : IState) (n : Nat) (x' : IState),
      firstRule run rules st = .ok (some n, x') →
      ∃ id x, Arrives run rules st id x ∧ run id x = .ok (some n, x') := by
  intro rules
  induction rules with
  | nil => intro st n x' h; simp [firstRule] at h
  | cons r rs ih =>
    intro st n x' h
    unfold firstRule at h
    split at h
    · simp at h
    · next n1 s1 he =>
      simp only [Except.ok.injEq, Prod.mk.injEq, Option.some.injEq] at h
      obtain ⟨rfl, rfl⟩ := h
      exact ⟨r, st, Arrives.here _ _ _, he⟩
    · next s1 he =>
      obtain ⟨id, x, hA, hx⟩ := ih s1 n x' h
      exact ⟨id, x, Arrives.next he hA, hx⟩

section
variable {cfg : Cfg}

/-- **the real chain at a backtick that is followed by a backtick, when it declines**: the declining
    code-span rule leaves the next position marked, every other rule keeps the code-span cache -/
theorem real_chain_marks
    {skip tok : IState → Except Panic IState} {fuel : Nat} {rest : List Char} :
    ∀ (rules : List RuleId) (s : IState), s.window = .ok ('`' :: '`' :: rest) →
      (InsideFull s.src s.backticks ∨ (s.pos + 1) ∈ s.backticks.insideFailed) →
      ∀ w', firstRule (fun id s => runRule cfg skip tok fuel id s false) rules s = .ok (none, w') →
        ((s.pos + 1) ∈ s.backticks.insideFailed → (s.pos + 1) ∈ w'.backticks.insideFailed) ∧
        (RuleId.backticks ∈ rules → (s.pos + 1) ∈ w'.backticks.insideFailed) := by
  intro rules
  induction rules with
  | nil =>
    intro s _ _ w' h
    simp only [firstRule, Except.ok.injEq, Prod.mk.injEq, true_and] at h
    subst h
    exact ⟨fun h => h, by intro h; simp at h⟩
  | cons r rs ih =>
    intro s hw hP w' h
    unfold firstRule at h
    split at h
    · simp at h
    · simp at h
    · next s1 he =>
      by_cases hr : r = .backticks
      · subst hr
        have hrb : ruleBackticks s false = .ok (none, s1) := by
          unfold runRule at he; exact liftR_ok.mp he
        have hsim := ruleBackticks_simple hrb
        have hw1 : s1.window = .ok ('`' :: '`' :: rest) := by
          rw [← hw]; exact window_congr hsim.frame.src hsim.pos hsim.frame.posMax
        have hmono := ruleBackticks_inside_mono hrb
        have hmark : (s.pos + 1) ∈ s1.backticks.insideFailed := by
          rcases hP with hfull | hm
          · exact back_decline_marks hw hrb hfull
          · exact hmono _ hm
        obtain ⟨a3, _⟩ := ih s1 hw1 (.inr (by rw [hsim.pos]; exact hmark)) w' h
        have hfin := a3 (by rw [hsim.pos]; exact hmark)
        rw [hsim.pos] at hfin
        exact ⟨fun _ => hfin, fun _ => hfin⟩
      · -- every other rule keeps text, position, `pos_max` and the code-span cache
        have hkeep : s1.src = s.src ∧ s1.pos = s.pos ∧ s1.posMax = s.posMax ∧
            s1.backticks = s.backticks := by
          by_cases hf : r.isFlat = true
          · obtain ⟨a, _, c, d, _, e⟩ := realKeeps_holds cfg skip tok fuel r hf s none s1 he
            exact ⟨c, a, d, e hr⟩
          · cases r with
            | link =>
              rw [link_other hw (by decide) false] at he
              simp only [Except.ok.injEq, Prod.mk.injEq, true_and] at he
              subst he; exact ⟨rfl, rfl, rfl, rfl⟩
            | image =>
              rw [image_other hw (by intro t ht; simp at ht) false] at he
              simp only [Except.ok.injEq, Prod.mk.injEq, true_and] at he
              subst he; exact ⟨rfl, rfl, rfl, rfl⟩
            | _ => simp [RuleId.isFlat] at hf
        obtain ⟨k1, k2, k3, k4⟩ := hkeep
        have hw1 : s1.window = .ok ('`' :: '`' :: rest) := by
          rw [← hw]; exact window_congr k1 k2 k3
        have hP1 : InsideFull s1.src s1.backticks ∨ (s1.pos + 1) ∈ s1.backticks.insideFailed := by
          rw [k1, k2, k4]; exact hP
        obtain ⟨a3, a4⟩ := ih s1 hw1 hP1 w' h
        rw [k2, k4] at a3
        rw [k2] at a4
        refine ⟨a3, ?_⟩
        intro hmem
        simp only [List.mem_cons] at hmem
        rcases hmem with hmem | hmem
        · exact absurd hmem.symm hr
        · exact a4 hmem

end

section
variable {cfg : Cfg} {B : List Char → CodePair.Cache → Prop} {src : List Char} {Mtop : Nat}

/-- the states along the real chain of the top frame, guarded callees: invariants and position -/
theorem top_arrives_G (hB : BackOK cfg B) (hend : EndHyp cfg B src Mtop)
    (hep : EndEP cfg B src Mtop)
    (hsz : ∀ mk csw, RuleId.emph mk csw ∈ cfg.chain → mk.utf8Size = 1)
    {skipG skipM tokG tokM : IState → Except Panic IState} {P : IState → Prop}
    (hq : CalmFn skipG) (hs : SkipHypT skipG) (hgr : SkipGrowHyp skipG)
    (hT : SkipTopHyp cfg B src Mtop skipG)
    (he : SkipEqHyp skipG skipM) (ht : TokHypT tokG) (hr : RangesFn tokG)
    (hte : TokEqAt B P tokG tokM) (hP : EntryP cfg B src Mtop skipG P) (fuel : Nat) {lo : Nat} :
    ∀ (rules : List RuleId), (∀ id ∈ rules, id ∈ cfg.chain) →
      ∀ (st : IState), Good lo st → MemoB st → st.pos < st.posMax → TopInv cfg B src Mtop st →
      EPc cfg src st.pos →
      ∀ id x, Arrives (fun id s => runRule cfg skipG tokG fuel id s false) rules st id x →
        Good lo x ∧ MemoB x ∧ x.pos = st.pos ∧ TopInv cfg B src Mtop x ∧ id ∈ cfg.chain := by
  intro rules
  induction rules with
  | nil => intro _ st _ _ _ _ _ id x hA; cases hA
  | cons r rs ih =>
    intro hall st hg hm hlt htop hepos id x hA
    cases hA with
    | here => exact ⟨hg, hm, rfl, htop, hall _ (by simp)⟩
    | next hrun hA' =>
      rename_i st1
      obtain ⟨_, n1⟩ := runRule_real_top hB hend hep hq hs hgr hT he hte hP fuel r st hg hm hlt htop
        hepos
      have hRT := runRule_real_T hsz hq hs ht hr fuel (hall r (by simp)) st hg hm hlt
      have ht1 := n1 none st1 hrun
      have s1 := hRT.ok _ _ hrun
      have hg1 : Good lo st1 := Good.of_add_zero (by simpa using s1.good)
      have hp1 := s1.nonePos rfl
      obtain ⟨a, b, c, d, e⟩ := ih (fun id hid => hall id (List.mem_cons_of_mem _ hid)) st1 hg1 s1.memo
        (by rw [hp1, s1.frame.posMax]; exact hlt) ht1 (by rw [hp1]; exact hepos) id x hA'
      exact ⟨a, b, c.trans hp1, d, e⟩

end

section
variable {cfg : Cfg} {content : List Char} {mapping : Srcmap}

/-- **`IFP` after ANY real step of the top frame** (guarded callees) -/
theorem real_step_ifp_G (hc : ChainCoherent cfg = true)
    (hone : cfg.chain.count .link ≤ 1 ∧ cfg.chain.count .image ≤ 1)
    (hbt : RuleId.backticks ∈ cfg.chain) {f : Nat} {s s' : IState}
    (T : TopSt cfg content (IState.init content mapping).posMax s) (hl : s.level < cfg.maxNesting)
    (hlt : s.pos < s.posMax)
    (hstep : tokStep cfg (fun s => skipTokenG cfg true f s) (fun s => tokLoopG cfg true f s.posMax s) f s
      = .ok s') : IFP cfg s' := by
  have hnc := CS.nocut_init content mapping
  have H := hyps_all (content := content) (mapping := mapping) hc hone
  have hsz := coherent_hsz hc
  have hend := endHyp_holds cfg (BE cfg) hnc
  have hep := endEP_holds cfg (BE cfg) (src := content) (Mtop := (IState.init content mapping).posMax)
  obtain ⟨lo, hg⟩ := T.good
  have hq := skipTokenG_calm cfg true f
  have hsT := skipTokenG_T cfg f
  have hr := rangesFnG cfg true f
  have ht : TokHypT (fun s => tokLoopG cfg true f s.posMax s) :=
    fun lo s hg hm => ((guarded_total cfg hsz f).2 lo s hg hm).tokT
  have hsrc := T.inv.hsrc
  have hmax := T.inv.hmax
  have hRT := firstRule_real_T hsz hq hsT ht hr f cfg.chain (fun _ h => h) s hg T.memo hlt
  obtain ⟨_, hm1, fr1, _⟩ := (tokStep_T hsz hq hsT ht hr f s hg T.memo hlt).2 s' hstep
  intro hint hprev
  rw [fr1.src, hsrc] at hint hprev
  unfold tokStep at hstep
  simp only [if_pos hl] at hstep
  cases hG : firstRule (fun id s => runRule cfg (fun s => skipTokenG cfg true f s)
      (fun s => tokLoopG cfg true f s.posMax s) f id s false) cfg.chain s with
  | error e => rw [hG] at hstep; simp at hstep
  | ok p =>
    obtain ⟨o, x'⟩ := p
    rw [hG] at hstep
    have sT := hRT.ok _ _ hG
    cases o with
    | some len =>
      exfalso
      simp only [Except.ok.injEq] at hstep
      subst hstep
      have hint' : Interior content (x'.pos + len) := hint
      obtain ⟨id, x, hA, hx⟩ := firstRule_some_arrives _ _ _ _ hG
      obtain ⟨hgx, hmx, hpx, htx, hid⟩ := top_arrives_G (backOK_BE cfg) hend hep hsz hq hsT
        (skip_grow cfg f) (skip_top (backOK_BE cfg) hend hep (marksHyp_BE cfg) f) (skip_guard_free cfg f)
        ht hr (fun s hs => nested_tokEq H f s hs) (entryP_NF f) f cfg.chain (fun _ h => h) s hg T.memo hlt
        T.inv (T.ep hlt) id x hA
      have hix := hgx.linv hmx
      have hltx : x.pos < x.posMax := by rw [hpx, htx.hmax, ← hmax]; exact hlt
      have sx := (runRule_real_T hsz hq hsT ht hr f hid x hgx hmx hltx).ok _ _ hx
      have hsx' : x'.src = content := sx.frame.src.trans htx.hsrc
      -- the flat rules that answer in look-ahead mode as well
      have hflat : (id = .text ∨ id = .newline ∨ id = .escape ∨ id = .backticks ∨ id = .autolink ∨
          id = .entity) → False := by
        intro hcase
        obtain ⟨s'', hsil⟩ := real_silent_verdict id hcase hx
        have hpos' : x'.pos = x.pos := by
          have hfl : id.isFlat = true := by rcases hcase with rfl | rfl | rfl | rfl | rfl | rfl <;> rfl
          exact (realKeeps_holds cfg _ _ f id hfl x _ x' hx).1
        obtain ⟨rfl, rfl, hbs⟩ := rule_end_interior (cfg := cfg)
          (tok := fun s => tokLoopG cfg true f s.posMax s) hq hsT f id hix hltx htx.nocut_st hsil
          (by rw [htx.hsrc, ← hpos']; exact hint')
        have hesc : RuleId.escape ∈ cfg.chain := hid
        have hbs' : CodePair.charAt content x.pos = some '\\' := by rw [← htx.hsrc]; exact hbs
        have h1 := esc_bs (by rw [hpx]; exact T.ep hlt hesc) hbs'
        have h2 := hprev hesc
        have e : x'.pos + 2 - 1 = x.pos + 1 := by omega
        rw [e, h1] at h2
        cases h2
      cases id with
      | text => exact hflat (by simp)
      | newline => exact hflat (by simp)
      | escape => exact hflat (by simp)
      | backticks => exact hflat (by simp)
      | autolink => exact hflat (by simp)
      | entity => exact hflat (by simp)
      | linkEnd => unfold runRule at hx; simp at hx
      | emph mk csw =>
        have hx' : liftR (ruleEmph cfg mk csw x false) = .ok (some len, x') := hx
        obtain ⟨e1, e2⟩ := emphL2_holds cfg mk csw (hsz mk csw hid) x _ x' (liftR_ok.mp hx')
        obtain ⟨wd, hw, hsl, hlen⟩ := hix.window
        cases wd with
        | nil => simp only [byteLen] at hlen; omega
        | cons c rest =>
          by_cases hcm : c = mk
          · subst hcm
            obtain ⟨n, hn, h1, h2, h3⟩ := e2 rest hw
            simp only [Option.some.injEq] at hn
            subst hn
            have hpos' : x'.pos = x.pos :=
              (realKeeps_holds cfg _ _ f (.emph c csw) rfl x _ x' hx).1
            have hrun : MarkerRun cfg content c x.pos x.posMax len :=
              ⟨⟨csw, hid⟩, h1, h2, by intro i hi; have := h3 i hi; rw [htx.hsrc] at this; exact this⟩
            exact not_interior_after_run hc hbt hrun (by rw [← hpos']; exact hint')
          · have := (e1 c rest hw hcm).1
            cases this
      | link =>
        unfold runRule at hx
        simp only at hx
        unfold ruleLink at hx
        split at hx
        · simp at hx
        · simp at hx
        · split at hx
          · simp at hx
          · have := CS.linkRule_closedAt hq hx
            rw [htx.hsrc] at this
            exact CS.closedAt_not_interior this hint'
      | image =>
        unfold runRule at hx
        simp only at hx
        unfold ruleImage at hx
        split at hx
        · simp at hx
        · have := CS.linkRule_closedAt hq hx
          rw [htx.hsrc] at this
          exact CS.closedAt_not_interior this hint'
        · simp at hx
    | none =>
      simp only at hstep
      obtain ⟨c, hfc, hp', _, hb', hs', _, _⟩ := fallback_keeps hstep
      have hpx : x'.pos = s.pos := sT.nonePos rfl
      have hwin : x'.window = s.window := window_congr sT.frame.src hpx sT.frame.posMax
      obtain ⟨wd, hw, hsl, hlen⟩ := (hg.linv T.memo).window
      rw [hsrc] at hsl
      cases wd with
      | nil => simp only [byteLen] at hlen; omega
      | cons c1 rest =>
        unfold firstChar at hfc
        rw [hwin, hw] at hfc
        simp only [liftR, Except.ok.injEq] at hfc
        subst hfc
        have hk : s'.pos = s.pos + c1.utf8Size := by rw [hp', hpx]
        have hx := charAt_last (c := '`') (u' := []) (by simpa using hsl) (by
          have : s.pos + byteLen ([] ++ [c1]) - 1 = s'.pos - 1 := by
            simp only [List.nil_append, byteLen]; omega
          rw [this]; exact hint.2.1)
        subst hx
        have e3 : ('`' : Char).utf8Size = 1 := by decide
        rw [e3] at hk
        cases rest with
        | nil =>
          exfalso
          have hend' : s.pos + 1 = s.posMax := by
            simp only [byteLen, e3] at hlen; omega
          have : Interior content s.posMax := by rw [← hend', ← hk]; exact hint
          rw [hmax] at this
          exact hnc this
        | cons b rest2 =>
          have hb1 := charAt_next (u := ['`']) (b := b) (v := rest2) (a := s.pos) (q := s.posMax)
            (by simpa using hsl)
          simp only [byteLen, e3, Nat.add_zero] at hb1
          have h1 : CodePair.charAt content (s.pos + 1) = some '`' := by rw [← hk]; exact hint.2.2
          rw [h1] at hb1
          simp only [Option.some.injEq] at hb1
          subst hb1
          have hfull : InsideFull s.src s.backticks := T.inv.back.1.2
          have hmark := (real_chain_marks (cfg := cfg) cfg.chain s hw (.inl hfull) x' hG).2 hbt
          rw [hk, hb']
          simpa using hmark

/-- **`MissIFP` holds for every coherent chain** -/
theorem missIFP_all (hc : ChainCoherent cfg = true)
    (hone : cfg.chain.count .link ≤ 1 ∧ cfg.chain.count .image ≤ 1) (hm : MapOK content mapping) :
    MissIFP cfg content mapping := by
  intro hbt f s s' hR htop hl hlt _ _ hstep _
  rcases reach_inv hc hone hm _ _ hR hl with T | N
  · obtain ⟨e1, _⟩ := top_step_G (f := f) hc hone T hlt
    exact real_step_ifp_G hc hone hbt T hl hlt (e1.trans hstep)
  · have := N.top_lt
    omega

end

end MdIt.Inline.ES.C16Doc
