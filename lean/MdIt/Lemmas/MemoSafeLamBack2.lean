/-
  Helper development for `Props/MemoSafe.lean`, second part: groundwork for the code-span comparison
  (`back_L2` needs the witness cache and the later cache to agree on `insideFailed.contains pos` at
  positions strictly inside a run of backticks).  Rule-level facts the state invariants rest on:

    * PART A — `InsideFull`: the marks are run-complete (a remembered position followed by a backtick has
      its successor remembered too); kept by every call whose `pos_max` cuts no run of backticks
      (`insideFull_run`, `insideFull_ruleBackticks`);
    * PART B — `back_decline_marks`: a declining call at a backtick that is followed by a backtick leaves
      the next position remembered (every declining path marks, or declined because of a mark);
    * PART C — no look-ahead token of a flat rule ends strictly inside a run of backticks
      (`text_end_not_inside`, `newline_end_not_inside`, `autolink_end_not_inside`, `entity_end_not_inside`,
      `backticks_end_not_inside`), with the exact exception of the escape rule (`escape_end_inside_iff`:
      `\` + backtick followed by a backtick).
-/
import MdIt.Lemmas.MemoSafeLamBack

/-! ## PART A / B at the level of `MdIt.CodePair` -/

namespace MdIt.CodePair

/-- marks are run-complete: a remembered position followed by a marker has its successor remembered -/
def InsideFullM (m : Char) (src : List Char) (c : Cache) : Prop :=
  ∀ q ∈ c.insideFailed, charAt src (q + 1) = some m → (q + 1) ∈ c.insideFailed

theorem InsideFullM.empty (m : Char) (src : List Char) : InsideFullM m src Cache.empty := by
  intro q hq; cases hq

theorem markInside_inside (v : Variant) (a b : Nat) (e : Cache) :
    (markInside v a b e).insideFailed =
      if v.inside = true then e.insideFailed ++ interior a b else e.insideFailed := by
  unfold markInside; split <;> rfl

/-- the marks `markInside` adds behind a failed opener at `pos` (window `m :: rest`) are run-complete
    when `pos_max` cuts no run -/
theorem InsideFullM.markInside {m : Char} (hm1 : m.utf8Size = 1) {src : List Char} {pos posMax : Nat}
    {rest : List Char} (hu : slice src pos posMax = some (m :: rest)) (hnc : NoCut m src posMax)
    {c : Cache} (h : InsideFullM m src c) (v : Variant) :
    InsideFullM m src (markInside v pos (pos + 1 + runLen m rest) c) := by
  obtain ⟨x, T, Z, _, hT, hx, hsrc, f⟩ := run_frame hm1 hu
  unfold MdIt.CodePair.markInside
  split
  · intro q hq hc
    simp only [List.mem_append] at hq ⊢
    rcases hq with hq | hq
    · exact .inl (h q hq hc)
    · rw [mem_interior] at hq
      by_cases hlast : q + 1 < pos + 1 + runLen m rest
      · exact .inr (mem_interior.mpr ⟨by omega, hlast⟩)
      · -- `q` is the last position of the opener run: the character behind it is no marker
        exfalso
        have hq1 : q + 1 = pos + 1 + runLen m rest := by omega
        have hlen : byteLen (x ++ List.replicate (runLen m rest + 1) m) = pos + 1 + runLen m rest := by
          rw [byteLen_append, byteLen_replicate hm1, hx]; omega
        have hat : charAt src (q + 1) = (T ++ Z).head? := by
          have := charAt_append_add (x ++ List.replicate (runLen m rest + 1) m) (T ++ Z) 0
          rw [charAt_zero, hlen, Nat.add_zero] at this
          rw [hq1, hsrc, List.append_assoc]; exact this
        cases T with
        | nil =>
          -- the run ends at `pos_max`: a marker there would be cut
          have hpm := f.hpm
          simp only [byteLen] at hpm
          apply hnc
          refine ⟨by omega, ?_, ?_⟩
          · have := opener_chars hm1 hsrc hx (pos + runLen m rest) (by omega) (by omega)
            rw [hpm]
            have e : pos + 1 + runLen m rest + 0 - 1 = pos + runLen m rest := by omega
            rw [e]; exact this
          · rw [hpm, Nat.add_zero, ← hq1]; exact hc
        | cons t T' =>
          rw [hat] at hc
          simp only [List.cons_append, List.head?_cons, Option.some.injEq] at hc
          simp only [List.head?_cons, ne_eq, Option.some.injEq] at hT
          exact hT hc
  · exact h

/-- **`InsideFull` is kept by every call whose `pos_max` cuts no run** -/
theorem insideFullM_run (v : Variant) (m : Char) (hm1 : m.utf8Size = 1) (src : List Char)
    (pos posMax : Nat) (prev silent : Bool) (c : Cache) (r : Option Outcome) (c' : Cache)
    (hnc : NoCut m src posMax) (hfull : InsideFullM m src c)
    (h : run v m src pos posMax prev silent c = .ok (r, c')) : InsideFullM m src c' := by
  cases run_path h with
  | other _ _ _ _ _ hc => subst hc; exact hfull
  | prevGuard _ _ _ _ _ hc => subst hc; exact hfull
  | inside _ _ _ _ _ hc => subst hc; exact hfull
  | consult rest _ hu _ _ _ _ _ hc => subst hc; exact hfull.markInside hm1 hu hnc v
  | scanned rest hu _ hs =>
    obtain ⟨x, T, Z, _, hT, hx, hsrc, f⟩ := run_frame hm1 hu
    cases r with
    | some o =>
      obtain ⟨_, _, _, _, _, _, hc', _⟩ :=
        scan_some v m hm1 src pos _ posMax _ silent _ Z T [] _ c o c' f hT hs
      rw [hc']; exact hfull
    | none =>
      obtain ⟨mx, hc', _, _⟩ := scan_none v m hm1 src pos _ posMax _ silent _ Z T [] _ c c' f hT hs
      have hmi := hfull.markInside hm1 hu hnc v
      intro q hq hcq
      rw [hc', insideFailed_done, markInside_inside] at hq ⊢
      have := hmi q (by rw [markInside_inside]; exact hq) hcq
      rw [markInside_inside] at this
      exact this

/-- **a declining call at a marker that is followed by a marker leaves the next position remembered**
    (current variant: `inside = true`): it declined because `pos` is remembered — then run-completeness —
    or it marked the interior of the opener run itself -/
theorem decline_marks (v : Variant) (hi : v.inside = true) (m : Char) (hm1 : m.utf8Size = 1)
    (src : List Char) (pos posMax : Nat) (prev silent : Bool) (c c' : Cache) {rest : List Char}
    (hu : slice src pos posMax = some (m :: m :: rest)) (hfull : InsideFullM m src c)
    (h : run v m src pos posMax prev silent c = .ok (none, c')) : (pos + 1) ∈ c'.insideFailed := by
  have hmark : ∀ e : Cache, (pos + 1) ∈ (markInside v pos (pos + 1 + runLen m (m :: rest)) e).insideFailed := by
    intro e
    unfold markInside
    rw [if_pos hi]
    simp only [List.mem_append, mem_interior, runLen, if_true]
    exact .inr ⟨by omega, by omega⟩
  have hnext : charAt src (pos + 1) = some m := by
    obtain ⟨x, z, hs, hx, _⟩ := slice_some hu
    have := charAt_append_add (x ++ [m]) (m :: rest ++ z) 0
    rw [charAt_zero, byteLen_append, hx] at this
    simp only [byteLen, hm1, Nat.add_zero] at this
    rw [hs]
    simpa using this
  cases run_path h with
  | other ch r hu' hch _ _ =>
    rw [hu] at hu'
    simp only [Option.some.injEq, List.cons.injEq] at hu'
    exact absurd hu'.1.symm hch
  | prevGuard _ _ hv _ _ _ => rw [hi] at hv; cases hv
  | inside _ _ _ hmem _ hc =>
    subst hc
    exact hfull pos (by simpa using hmem) hnext
  | consult r x hu' _ _ _ _ _ hc =>
    rw [hu] at hu'
    simp only [Option.some.injEq, List.cons.injEq, true_and] at hu'
    subst hu' hc
    exact hmark _
  | scanned r hu' _ hs =>
    rw [hu] at hu'
    simp only [Option.some.injEq, List.cons.injEq, true_and] at hu'
    subst hu'
    obtain ⟨x, T, Z, _, hT, hx, hsrc, f⟩ := run_frame hm1 hu
    obtain ⟨mx, hc', _, _⟩ := scan_none v m hm1 src pos _ posMax _ silent _ Z T [] _ c c' f hT hs
    rw [hc', insideFailed_done]
    exact hmark _

end MdIt.CodePair

namespace MdIt.Inline
open MdIt.InlineOps (Srcmap getSourcePosFor getMap byteLen slice)
open MdIt.C05 (WFMap byteLen_append slice_ok_iff)

/-! ## PART A: marks are run-complete -/

/-- a remembered position followed by a backtick has its successor remembered -/
def InsideFull (src : List Char) (c : CodePair.Cache) : Prop :=
  ∀ q ∈ c.insideFailed, CodePair.charAt src (q + 1) = some '`' → (q + 1) ∈ c.insideFailed

theorem InsideFull.empty (src : List Char) : InsideFull src CodePair.Cache.empty :=
  CodePair.InsideFullM.empty '`' src

/-- **kept by every call of the code-span rule whose `pos_max` cuts no run of backticks** (`NoCut` is
    exactly what is needed: the marks added are the interior of the opener run AS SEEN UNDER `pos_max`) -/
theorem insideFull_run {src : List Char} {pos posMax : Nat} {silent : Bool} {c : CodePair.Cache}
    {r : Option CodePair.Outcome} {c' : CodePair.Cache}
    (h : CodePair.run CodePair.Variant.current '`' src pos posMax false silent c = .ok (r, c'))
    (hnc : CodePair.NoCut '`' src posMax) (hfull : InsideFull src c) : InsideFull src c' :=
  CodePair.insideFullM_run _ '`' backtick_size src pos posMax false silent c r c' hnc hfull h

theorem insideFull_ruleBackticks {st : IState} {silent : Bool} {o : Option Nat} {st' : IState}
    (h : ruleBackticks st silent = .ok (o, st')) (hnc : CodePair.NoCut '`' st.src st.posMax)
    (hfull : InsideFull st.src st.backticks) : InsideFull st'.src st'.backticks := by
  obtain ⟨hsrc, oc, hrun, _⟩ := ruleBackticks_run h
  rw [hsrc]
  exact insideFull_run hrun hnc hfull

/-- `NoCut` is needed: three backticks under `pos_max = 2` (inside the run) — the failed opener of
    length 2 (as seen under `pos_max`) marks position 1 only, although position 2 holds a backtick -/
example :
    (ruleBackticks (exState ['`', '`', '`'] 0 2) true).map (fun r => r.2.backticks.insideFailed)
      = .ok [1] ∧
    CodePair.charAt ['`', '`', '`'] 2 = some '`' := by
  decide +kernel

/-! ## PART B: a declining call at a backtick marks the next position of the run -/

theorem back_decline_marks {st st' : IState} {silent : Bool} {rest : List Char}
    (hw : st.window = .ok ('`' :: '`' :: rest)) (h : ruleBackticks st silent = .ok (none, st'))
    (hfull : InsideFull st.src st.backticks) : (st.pos + 1) ∈ st'.backticks.insideFailed := by
  obtain ⟨_, oc, hrun, ho⟩ := ruleBackticks_run h
  cases oc with
  | some o1 => simp at ho
  | none =>
    exact CodePair.decline_marks _ rfl '`' backtick_size st.src st.pos st.posMax false silent _ _
      ((codeSlice_eq _ _ _ _).mpr (window_eq hw)) hfull hrun

/-! ## PART C: no look-ahead token of a flat rule ends strictly inside a run of backticks -/

/-- the character at the end of `u` in a slice `u ++ b :: v` -/
theorem charAt_next {src u v : List Char} {b : Char} {a q : Nat}
    (h : slice src a q = .ok (u ++ b :: v)) : CodePair.charAt src (a + byteLen u) = some b := by
  obtain ⟨p, post, e, l1, _⟩ := (slice_ok_iff _ _ _ _).mp h
  have := CodePair.charAt_append_add (p ++ u) (b :: v ++ post) 0
  rw [CodePair.charAt_zero, codeByteLen_eq, byteLen_append, l1, Nat.add_zero] at this
  rw [e]
  simpa using this

/-- the character that ends just before the end of `u' ++ [a]` in a slice `u' ++ a :: v` is `a` -/
theorem charAt_last {src u' v : List Char} {a c : Char} {pos q : Nat}
    (h : slice src pos q = .ok (u' ++ a :: v))
    (hc : CodePair.charAt src (pos + byteLen (u' ++ [a]) - 1) = some c) : c = a := by
  obtain ⟨p, post, e, l1, _⟩ := (slice_ok_iff _ _ _ _).mp h
  have e2 : src = (p ++ u') ++ a :: (v ++ post) := by rw [e]; simp
  have hidx : pos + byteLen (u' ++ [a]) - 1 = CodePair.byteLen (p ++ u') + a.utf8Size - 1 := by
    rw [codeByteLen_eq, byteLen_append, byteLen_append, l1]
    simp only [byteLen]; omega
  rw [hidx, e2] at hc
  exact CodePair.charAt_before _ _ _ _ hc

/-- a token `u' ++ [a]` whose last character is not a backtick does not end inside a run of backticks -/
theorem end_not_inside {src u' v : List Char} {a : Char} {pos q : Nat}
    (h : slice src pos q = .ok (u' ++ a :: v)) (ha : a ≠ '`') :
    ¬ (CodePair.charAt src (pos + byteLen (u' ++ [a]) - 1) = some '`' ∧
       CodePair.charAt src (pos + byteLen (u' ++ [a])) = some '`') :=
  fun ⟨h1, _⟩ => ha (charAt_last h h1).symm

/-- a non-empty list is `dropLast ++ [last]` with `last` one of its elements -/
theorem snoc_of_ne_nil {l : List Char} (h : l ≠ []) : ∃ u' a, l = u' ++ [a] ∧ a ∈ l :=
  ⟨l.dropLast, l.getLast h, (List.dropLast_concat_getLast h).symm, List.getLast_mem h⟩

/-- what a look-ahead run that returned says about the window -/
theorem silent_verdict {R : IState → Bool → SRes}
    {V : List Char → Nat → List Char → Except RPanic (Option Nat)}
    (hR : ∀ st : IState, R st true =
      match st.window with
      | .error e => .error e
      | .ok w =>
        match V st.src st.pos w with
        | .error e => .error e
        | .ok o => .ok (o, st))
    {st : IState} {o : Option Nat} {st' : IState} (h : R st true = .ok (o, st')) :
    ∃ w, st.window = .ok w ∧ V st.src st.pos w = .ok o := by
  rw [hR] at h
  cases hw : st.window with
  | error e => rw [hw] at h; simp at h
  | ok w =>
    rw [hw] at h
    simp only at h
    cases hv : V st.src st.pos w with
    | error e => rw [hv] at h; simp at h
    | ok o1 =>
      rw [hv] at h
      simp only [Except.ok.injEq, Prod.mk.injEq] at h
      exact ⟨w, rfl, by rw [hv, h.1]⟩

/-- **text**: the run's last character is not a stop character, and the backtick is one -/
theorem text_end_not_inside {st st' : IState} {n : Nat} (h : ruleText st true = .ok (some n, st')) :
    ¬ (CodePair.charAt st.src (st.pos + n - 1) = some '`' ∧
       CodePair.charAt st.src (st.pos + n) = some '`') := by
  obtain ⟨w, hw, hv⟩ := silent_verdict (V := textV) ruleText_silent h
  unfold textV at hv
  split at hv
  · simp at hv
  · next hne =>
    simp only [Except.ok.injEq, Option.some.injEq] at hv
    have hs := Entity.splitRun_sound (fun c => !Entity.textStop.contains c) w
    have hu : (Entity.splitRun (fun c => !Entity.textStop.contains c) w).1 ≠ [] := by
      intro e; unfold textLen at hne; rw [e] at hne; exact hne rfl
    obtain ⟨u', a, hua, hmem⟩ := snoc_of_ne_nil hu
    have ha : a ≠ '`' := by
      intro e; subst e
      have := hs.1 _ hmem
      revert this; decide
    have hsl := window_eq hw
    rw [hs.2.1, hua, List.append_assoc, List.singleton_append] at hsl
    have := end_not_inside hsl ha
    rw [← hua] at this
    unfold textLen at hv
    rw [hv] at this
    exact this

/-- **newline**: the token is a line feed and blanks -/
theorem newline_end_not_inside {st st' : IState} {n : Nat}
    (h : ruleNewline st true = .ok (some n, st')) :
    ¬ (CodePair.charAt st.src (st.pos + n - 1) = some '`' ∧
       CodePair.charAt st.src (st.pos + n) = some '`') := by
  obtain ⟨w, hw, hv⟩ := silent_verdict (V := newlineV) ruleNewline_silent h
  unfold newlineV at hv
  cases w with
  | nil => simp at hv
  | cons c rest =>
    simp only at hv
    split at hv
    · simp at hv
    · next hc =>
      have hc' : c = '\n' := by simpa using hc
      subst hc'
      simp only [Except.ok.injEq, Option.some.injEq] at hv
      -- the token
      have htk : ('\n' :: rest.takeWhile isSpTab) ≠ [] := by simp
      obtain ⟨u', a, hua, hmem⟩ := snoc_of_ne_nil htk
      have ha : a ≠ '`' := by
        intro e; subst e
        simp only [List.mem_cons] at hmem
        rcases hmem with hm | hm
        · revert hm; decide
        · have := mem_takeWhile_imp hm
          revert this; decide
      have hsl := window_eq hw
      have hsplit : '\n' :: rest = u' ++ a :: rest.dropWhile isSpTab := by
        have : '\n' :: rest = ('\n' :: rest.takeWhile isSpTab) ++ rest.dropWhile isSpTab := by
          simp [List.takeWhile_append_dropWhile]
        rw [this, hua]; simp
      rw [hsplit] at hsl
      have := end_not_inside hsl ha
      rw [← hua] at this
      have e1 : ('\n' : Char).utf8Size = 1 := by decide
      have hlen : byteLen ('\n' :: rest.takeWhile isSpTab) = n := by
        simp only [byteLen, e1, byteLen_takeWhile_spTab]
        unfold newlineLen at hv; omega
      rw [hlen] at this
      exact this

/-- **autolink**: the token ends with `>` -/
theorem autolink_end_not_inside {st st' : IState} {n : Nat}
    (h : ruleAutolink st true = .ok (some n, st')) :
    ¬ (CodePair.charAt st.src (st.pos + n - 1) = some '`' ∧
       CodePair.charAt st.src (st.pos + n) = some '`') := by
  obtain ⟨w, hw, hv⟩ := silent_verdict (V := autolinkV) ruleAutolink_silent h
  unfold autolinkV at hv
  cases w with
  | nil => simp at hv
  | cons c rest =>
    simp only at hv
    split at hv
    · simp at hv
    · next hc =>
      have hc' : c = '<' := by simpa using hc
      subst hc'
      obtain ⟨p, hp, hn⟩ := autolinkTail_some hv
      obtain ⟨u, v, hr, hpu⟩ := autolinkScan_spec hp
      have hsl := window_eq hw
      have hsplit : '<' :: rest = ('<' :: u) ++ '>' :: v := by rw [hr]; simp
      rw [hsplit] at hsl
      have := end_not_inside hsl (by decide : ('>' : Char) ≠ '`')
      have e1 : ('<' : Char).utf8Size = 1 := by decide
      have e2 : ('>' : Char).utf8Size = 1 := by decide
      have hlen : byteLen (('<' :: u) ++ ['>']) = n := by
        simp only [List.cons_append, byteLen, byteLen_append, e1, e2]; omega
      rw [hlen] at this
      exact this

/-- **entity**: the token is `&` followed by reference characters (ending with `;`) -/
theorem entity_end_not_inside {cfg : Cfg} {st st' : IState} {n : Nat}
    (h : ruleEntity cfg st true = .ok (some n, st')) :
    ¬ (CodePair.charAt st.src (st.pos + n - 1) = some '`' ∧
       CodePair.charAt st.src (st.pos + n) = some '`') := by
  obtain ⟨w, hw, hv⟩ := silent_verdict (V := entityV cfg) (ruleEntity_silent cfg) h
  unfold entityV at hv
  cases w with
  | nil => simp at hv
  | cons c rest =>
    simp only at hv
    split at hv
    · simp at hv
    · split at hv
      · simp at hv
      · next suffix hsuf =>
        have hsuf' := liftOps_ok.mp hsuf
        split at hv
        · simp at hv
        · simp at hv
        · next sp hcore =>
          simp only [Except.ok.injEq, Option.some.injEq] at hv
          obtain ⟨t, rest', hmk, hsf, hall⟩ := entityCore_some hcore
          have hne : sp.markup ≠ [] := by rw [hmk]; simp
          obtain ⟨u', a, hua, hmem⟩ := snoc_of_ne_nil hne
          have ha : a ≠ '`' := by
            intro e; subst e
            rw [hmk] at hmem
            simp only [List.mem_cons] at hmem
            rcases hmem with hm | hm
            · revert hm; decide
            · have := hall _ hm
              revert this; decide
          rw [hsf, hua, List.append_assoc, List.singleton_append] at hsuf'
          have := end_not_inside hsuf' ha
          rw [← hua, hv] at this
          exact this

/-- **code span**: the closer run is maximal inside the window, so the character behind it (inside the
    window) is not a backtick -/
theorem backticks_end_not_inside {st st' : IState} {n : Nat}
    (h : ruleBackticks st true = .ok (some n, st')) (hlt : st.pos + n < st.posMax) :
    ¬ (CodePair.charAt st.src (st.pos + n - 1) = some '`' ∧
       CodePair.charAt st.src (st.pos + n) = some '`') := by
  obtain ⟨c', hrun⟩ := (ruleBackticks_silent_some st n).mp ⟨st', h⟩
  rintro ⟨_, hc⟩
  cases CodePair.run_path hrun with
  | other _ _ _ _ hr _ => cases hr
  | prevGuard _ _ _ _ hr _ => cases hr
  | inside _ _ _ _ hr _ => cases hr
  | consult _ _ _ _ _ _ _ hr _ => cases hr
  | scanned rest hu _ hs =>
    obtain ⟨x, T, Z, _, hT, _, _, f⟩ := CodePair.run_frame backtick_size hu
    obtain ⟨ms, R, hms, hrun', _, ho, _, _⟩ :=
      CodePair.scan_some _ '`' backtick_size st.src st.pos _ st.posMax _ true _ Z T [] _ _ _ c' f hT hs
    obtain ⟨hl, hle, _, hright, _⟩ := hrun'
    have hn : n = ms + (1 + CodePair.runLen '`' rest) - st.pos := by
      have := congrArg CodePair.Outcome.len ho
      simpa using this
    apply hright
    have e : ms + (1 + CodePair.runLen '`' rest) = st.pos + n := by omega
    rw [e]
    exact ⟨hlt, hc⟩

/-- **escape — the exact exception**: a look-ahead escape token ends strictly inside a run of backticks
    iff it is `\` + backtick followed by a backtick -/
theorem escape_end_inside_iff {st st' : IState} {n : Nat}
    (h : ruleEscape st true = .ok (some n, st')) (hlt : st.pos + n < st.posMax) :
    (CodePair.charAt st.src (st.pos + n - 1) = some '`' ∧
       CodePair.charAt st.src (st.pos + n) = some '`') ↔
      ∃ rest, st.window = .ok ('\\' :: '`' :: '`' :: rest) := by
  obtain ⟨w, hw, hv⟩ := silent_verdict (V := escapeV) ruleEscape_silent h
  have hsl := window_eq hw
  have e1 : ('\\' : Char).utf8Size = 1 := by decide
  have e2 : ('\n' : Char).utf8Size = 1 := by decide
  have e3 : ('`' : Char).utf8Size = 1 := by decide
  obtain ⟨_, _, hwlen⟩ := slice_boundaries hsl
  constructor
  · rintro ⟨h1, h2⟩
    unfold escapeV at hv
    split at hv
    · simp at hv
    · simp at hv
    · next len hcore =>
      -- `\` + line feed + blanks: ends with a line feed or a blank
      exfalso
      simp only [Except.ok.injEq, Option.some.injEq] at hv
      obtain ⟨w', rfl, hlen⟩ := escapeCore_hardbreak hcore
      have hs := Entity.splitRun_sound (fun x => x == ' ' || x == '\t') w'
      have htk : ('\\' :: '\n' :: (Entity.splitRun (fun x => x == ' ' || x == '\t') w').1) ≠ [] := by simp
      obtain ⟨u', a, hua, hmem⟩ := snoc_of_ne_nil htk
      have ha : a ≠ '`' := by
        intro e; subst e
        simp only [List.mem_cons] at hmem
        rcases hmem with hm | hm | hm
        · revert hm; decide
        · revert hm; decide
        · have := hs.1 _ hm
          revert this; decide
      have hsplit : '\\' :: '\n' :: w' = u' ++ a :: (Entity.splitRun (fun x => x == ' ' || x == '\t') w').2 := by
        have : '\\' :: '\n' :: w' = ('\\' :: '\n' :: (Entity.splitRun (fun x => x == ' ' || x == '\t') w').1) ++
            (Entity.splitRun (fun x => x == ' ' || x == '\t') w').2 := by
          simp only [List.cons_append, List.cons.injEq, true_and]; exact hs.2.1
        rw [this, hua]; simp
      rw [hsplit] at hsl
      have hno := end_not_inside hsl ha
      rw [← hua] at hno
      have hasc : byteLen (Entity.splitRun (fun x => x == ' ' || x == '\t') w').1
          = (Entity.splitRun (fun x => x == ' ' || x == '\t') w').1.length :=
        byteLen_ascii _ (fun c hc => isSpTab_size (by have := hs.1 c hc; simpa [isSpTab] using this))
      have hbl : byteLen ('\\' :: '\n' :: (Entity.splitRun (fun x => x == ' ' || x == '\t') w').1) = n := by
        simp only [byteLen, e1, e2, hasc]; omega
      rw [hbl] at hno
      exact hno ⟨h1, h2⟩
    · next sp hcore =>
      simp only [Except.ok.injEq, Option.some.injEq] at hv
      obtain ⟨chr, w', rfl, hmk⟩ := escapeCore_special hcore
      rw [hmk] at hv
      -- the token is `\` + chr: chr is the backtick
      have hsl1 : slice st.src st.pos st.posMax = .ok (['\\'] ++ chr :: w') := hsl
      have hchr : chr = '`' := by
        have := charAt_last (c := '`') hsl1 (by
          have : byteLen (['\\'] ++ [chr]) = n := by rw [← hv]; rfl
          rw [this]; exact h1)
        exact this.symm
      subst hchr
      -- and the character behind it is one
      cases w' with
      | nil =>
        exfalso
        simp only [byteLen, e1, e3] at hwlen hv
        omega
      | cons b r =>
        have hsl2 : slice st.src st.pos st.posMax = .ok (['\\', '`'] ++ b :: r) := hsl
        have := charAt_next hsl2
        have hbl : byteLen ['\\', '`'] = n := hv
        rw [hbl, h2] at this
        simp only [Option.some.injEq] at this
        subst this
        exact ⟨r, hw⟩
  · rintro ⟨rest, hw2⟩
    rw [hw] at hw2
    simp only [Except.ok.injEq] at hw2
    subst hw2
    have hn : n = 2 := by
      simp [escapeV, Entity.escapeCore, byteLen, e1, e3] at hv
      omega
    subst hn
    have hsl1 : slice st.src st.pos st.posMax = .ok (['\\'] ++ '`' :: '`' :: rest) := hsl
    have hsl2 : slice st.src st.pos st.posMax = .ok (['\\', '`'] ++ '`' :: rest) := hsl
    have a1 := charAt_next hsl1
    have a2 := charAt_next hsl2
    simp only [byteLen, e1, e3, Nat.add_zero] at a1 a2
    exact ⟨a1, a2⟩

end MdIt.Inline
