/-
  C05, the remaining clauses: the emphasis-marker rule and the delimiter matching
  (`scan_and_match_delimiters`) keep the frame invariant `FI` of Lemmas/C05RestDefs.lean.

  (a) list lemmas about `Adjd` / `StrictTop` / `FthL`, (b) runs of a one-byte marker
  (`em_cut_replicate_split`), (c) `em_matchInner` (invariant `em_IShape`), (d) `em_matchOuter`
  (`em_MInv`), (e) `em_scanAndMatch` (`em_LI` = `FI` without the cursor), (f) `em_ruleEmph` and the
  deliverable `emphOK : EmphOK cfg src0`; at the end a worked instance (`em_ex_hyps`: all
  hypotheses of the contract hold in front of the closer of `*a*`) and the witness that a
  multi-byte marker breaks the contract.

  Template: Lemmas/InlineRanges5.lean (the geometric invariant `RI` through the same code).  Unlike
  there, no geometric fact (`MarkersOK`) is needed: the exact selections `Cut src0 s e (replicate
  remaining mk)` carried here imply `e = s + remaining`.
-/
import MdIt.Lemmas.C05RestDefs

namespace MdIt.C05R
open MdIt.Inline
open MdIt.InlineOps (Srcmap getSourcePosFor getMap byteLen slice)

/-! ## (a) sibling lists -/

theorem em_adjd_append_iff (a b : List Node) :
    Adjd (a ++ b) ↔ Adjd a ∧ Adjd b ∧ ∀ x y, a.getLast? = some x → b.head? = some y → Adj x y := by
  induction a with
  | nil => simp [Adjd]
  | cons x a ih =>
    cases a with
    | nil =>
      cases b with
      | nil => simp [Adjd]
      | cons y r => simp [Adjd, and_comm]
    | cons z a' =>
      have e : (x :: z :: a') ++ b = x :: z :: (a' ++ b) := rfl
      rw [e]
      simp only [Adjd]
      have ih' : Adjd (z :: (a' ++ b)) ↔ _ := ih
      rw [ih']
      simp only [List.getLast?_cons_cons]
      constructor
      · rintro ⟨h1, h2, h3, h4⟩; exact ⟨⟨h1, h2⟩, h3, h4⟩
      · rintro ⟨⟨h1, h2⟩, h3, h4⟩; exact ⟨h1, h2, h3, h4⟩

theorem em_adjd_left {a b : List Node} (h : Adjd (a ++ b)) : Adjd a :=
  ((em_adjd_append_iff a b).mp h).1

theorem em_adjd_right {a b : List Node} (h : Adjd (a ++ b)) : Adjd b :=
  ((em_adjd_append_iff a b).mp h).2.1

/-- a contiguous part of an `Adjd` list is `Adjd` -/
theorem em_adjd_drop {l : List Node} (h : Adjd l) (k : Nat) : Adjd (l.drop k) := by
  rw [← List.take_append_drop k l] at h; exact em_adjd_right h

theorem em_adjd_take {l : List Node} (h : Adjd l) (k : Nat) : Adjd (l.take k) := by
  rw [← List.take_append_drop k l] at h; exact em_adjd_left h

theorem em_adjd_single (x : Node) : Adjd [x] := trivial

/-- appending a node: only the link to the old last member is new -/
theorem em_adjd_snoc {l : List Node} {n : Node} (h : Adjd l)
    (hl : ∀ init last, l = init ++ [last] → Adj last n) : Adjd (l ++ [n]) := by
  rw [em_adjd_append_iff]
  refine ⟨h, trivial, ?_⟩
  intro x y hx hy
  simp only [List.head?_cons, Option.some.injEq] at hy; subst hy
  obtain ⟨init, rfl⟩ := List.getLast?_eq_some_iff.mp hx
  exact hl init x rfl

/-- appending a node that is not text-like -/
theorem em_adjd_snoc_other {l : List Node} {n : Node} (h : Adjd l) (hn : ¬ TextLike n) :
    Adjd (l ++ [n]) :=
  em_adjd_snoc h (fun _ _ _ _ hy => absurd hy hn)

/-- the link between the two members around an append point -/
theorem em_adjd_link {a b : List Node} {x y : Node} (h : Adjd (a ++ [x] ++ y :: b)) : Adj x y := by
  rw [em_adjd_append_iff] at h
  exact h.2.2 x y (by simp) (by simp)

/-- replacing a member by one that is linked to its neighbours as well -/
theorem em_adjd_set {a b : List Node} {x y : Node} (h : Adjd (a ++ [x] ++ b))
    (h1 : ∀ p, Adj p x → Adj p y) (h2 : ∀ q, Adj x q → Adj y q) : Adjd (a ++ [y] ++ b) := by
  rw [em_adjd_append_iff] at h ⊢
  obtain ⟨hax, hb, hl⟩ := h
  rw [em_adjd_append_iff] at hax ⊢
  obtain ⟨ha, _, hl'⟩ := hax
  refine ⟨⟨ha, trivial, ?_⟩, hb, ?_⟩
  · intro p q hp hq
    simp only [List.head?_cons, Option.some.injEq] at hq; subst hq
    exact h1 p (hl' p x hp (by simp))
  · intro p q hp hq
    simp only [List.getLast?_append, List.getLast?_singleton, Option.some_or, Option.some.injEq] at hp
    subst hp
    exact h2 q (hl x q (by simp) hq)

theorem em_strict_append {a b : List Node} (ha : StrictTop a) (hb : StrictTop b) :
    StrictTop (a ++ b) := by
  intro n hn
  rcases List.mem_append.mp hn with h | h
  · exact ha n h
  · exact hb n h

theorem em_strict_left {a b : List Node} (h : StrictTop (a ++ b)) : StrictTop a :=
  fun n hn => h n (List.mem_append_left _ hn)

theorem em_strict_right {a b : List Node} (h : StrictTop (a ++ b)) : StrictTop b :=
  fun n hn => h n (List.mem_append_right _ hn)

theorem em_strict_nil : StrictTop [] := by intro n hn; simp at hn

theorem em_strict_single {n : Node} (h : TextLike n → ∃ a b, n.range = some (a, b) ∧ a < b) :
    StrictTop [n] := by
  intro x hx; simp only [List.mem_singleton] at hx; subst hx; exact h

theorem em_fthL_append {src : List Char} {a b : List Node} (ha : FthL src a) (hb : FthL src b) :
    FthL src (a ++ b) := by
  rw [fthL_iff] at *
  intro n hn
  rcases List.mem_append.mp hn with h | h
  · exact ha n h
  · exact hb n h

theorem em_fthL_left {src : List Char} {a b : List Node} (h : FthL src (a ++ b)) : FthL src a := by
  rw [fthL_iff] at *
  exact fun n hn => h n (List.mem_append_left _ hn)

theorem em_fthL_right {src : List Char} {a b : List Node} (h : FthL src (a ++ b)) : FthL src b := by
  rw [fthL_iff] at *
  exact fun n hn => h n (List.mem_append_right _ hn)

theorem em_fthL_single {src : List Char} {n : Node} (h : FthN src n) : FthL src [n] := ⟨h, trivial⟩

theorem em_fthL_mem {src : List Char} {l : List Node} (h : FthL src l) {n : Node} (hn : n ∈ l) :
    FthN src n := (fthL_iff src l).mp h n hn

/-! ### text-like values -/

theorem em_wrap_not_textLike (w : Wrap) (mk : Char) (r : Option (Nat × Nat)) (cs : List Node) :
    ¬ TextLike (Node.mk (.wrap w mk) r cs) := by
  simp [TextLike, textOf]

theorem em_marker_textLike (m : Marker) (r : Option (Nat × Nat)) (cs : List Node) :
    TextLike (Node.mk m.toVal r cs) := by
  simp [TextLike, textOf, Marker.toVal]

theorem em_asMarker_val {n : Node} {m : Marker} (h : n.asMarker = some m) : n.val = m.toVal := by
  unfold Node.asMarker at h
  split at h
  · next hv =>
    simp only [Option.some.injEq] at h; subst h; rw [hv]; rfl
  · cases h

theorem em_asMarker_textLike {n : Node} {m : Marker} (h : n.asMarker = some m) : TextLike n := by
  unfold TextLike; rw [em_asMarker_val h]; simp [textOf, Marker.toVal]

/-! ## (b) runs of a one-byte marker -/

theorem em_byteLen_replicate {c : Char} (hc : c.utf8Size = 1) (n : Nat) :
    byteLen (List.replicate n c) = n := by
  induction n with
  | zero => rfl
  | succ n ih => rw [List.replicate_succ]; simp only [byteLen, ih, hc]; omega

/-- the two halves of a selection -/
theorem em_cut_app {s : List Char} {a b : Nat} {w1 w2 : List Char} (h : Cut s a b (w1 ++ w2)) :
    Cut s a (a + byteLen w1) w1 ∧ Cut s (a + byteLen w1) b w2 := by
  obtain ⟨p, q, e, hp, hb⟩ := h
  rw [C05.byteLen_append] at hb
  refine ⟨⟨p, w2 ++ q, by rw [e]; simp [List.append_assoc], hp, rfl⟩,
    ⟨p ++ w1, q, by rw [e]; simp [List.append_assoc], by rw [C05.byteLen_append]; omega, by omega⟩⟩

/-- an exact run of `k` one-byte markers is `k` bytes long -/
theorem em_cut_replicate_len {s : List Char} {a b k : Nat} {c : Char} (hc : c.utf8Size = 1)
    (h : Cut s a b (List.replicate k c)) : b = a + k := by
  obtain ⟨_, _, _, _, hb⟩ := h
  rw [em_byteLen_replicate hc] at hb; omega

/-- **cutting `ml` markers off either end of an exact run** -/
theorem em_cut_replicate_split {s : List Char} {a b k ml : Nat} {c : Char} (hc : c.utf8Size = 1)
    (h : Cut s a b (List.replicate k c)) (hml : ml ≤ k) :
    b = a + k ∧
    Cut s a (a + ml) (List.replicate ml c) ∧ Cut s (a + ml) b (List.replicate (k - ml) c) ∧
    Cut s a (b - ml) (List.replicate (k - ml) c) ∧ Cut s (b - ml) b (List.replicate ml c) := by
  have hlen := em_cut_replicate_len hc h
  have e1 : List.replicate k c = List.replicate ml c ++ List.replicate (k - ml) c := by
    rw [List.replicate_append_replicate]; congr 1; omega
  have e2 : List.replicate k c = List.replicate (k - ml) c ++ List.replicate ml c := by
    rw [List.replicate_append_replicate]; congr 1; omega
  have h1 := h; rw [e1] at h1
  have h2 := h; rw [e2] at h2
  obtain ⟨c1, c2⟩ := em_cut_app h1
  obtain ⟨c3, c4⟩ := em_cut_app h2
  rw [em_byteLen_replicate hc] at c1 c2 c3 c4
  have e3 : a + (k - ml) = b - ml := by omega
  rw [e3] at c3 c4
  exact ⟨hlen, c1, c2, c3, c4⟩

/-- the run in front of the cursor: `ruleEmph` scans `1 + runLen mk rest` markers -/
theorem em_runLen_cut {c : List Char} {pos posMax : Nat} {mk : Char} {rest : List Char}
    (hmk : mk.utf8Size = 1) (h : Cut c pos posMax (mk :: rest)) :
    Cut c pos (pos + (1 + CodePair.runLen mk rest))
      (List.replicate (1 + CodePair.runLen mk rest) mk) := by
  obtain ⟨t, ht⟩ := runLen_split mk rest
  have e : mk :: rest = List.replicate (1 + CodePair.runLen mk rest) mk ++ t := by
    rw [Nat.add_comm, List.replicate_succ, List.cons_append, ← ht]
  rw [e] at h
  have := (em_cut_app h).1
  rwa [em_byteLen_replicate hmk] at this

theorem em_not_mem_replicate {c d : Char} (h : c ≠ d) (n : Nat) : d ∉ List.replicate n c := by
  intro hm
  exact h (List.eq_of_mem_replicate hm).symm

/-- replacing the last member by one that is linked to its left neighbour as well -/
theorem em_adjd_set_last {a : List Node} {x y : Node} (h : Adjd (a ++ [x]))
    (h1 : ∀ p, Adj p x → Adj p y) : Adjd (a ++ [y]) := by
  rw [em_adjd_append_iff] at h ⊢
  obtain ⟨ha, _, hl⟩ := h
  refine ⟨ha, trivial, ?_⟩
  intro p q hp hq
  simp only [List.head?_cons, Option.some.injEq] at hq; subst hq
  exact h1 p (hl p x hp (by simp))

/-! ## (c) the inner loop -/

/-- the closer part of the matching state: its range `(s, eC)` selects exactly its remaining
    delimiters, and a text-like last member of the list ends where the closer starts -/
def em_CloserOK (src0 : List Char) (eC s : Nat) (ms : MatchSt) : Prop :=
  ms.closerRange = some (s, eC) ∧
  Cut src0 s eC (List.replicate ms.closer.remaining ms.closer.marker) ∧
  ms.closer.marker.utf8Size = 1 ∧
  ∀ init last, ms.children = init ++ [last] → TextLike last → ∃ a, last.range = some (a, s)

/-- the shape of the children while the opener at index `pre.length` (range start `oS`) is being
    matched: the nodes before it, the opener token unless it has been used up — its VALUE still
    holds the old `remaining`, its range has been cut to the tracked `opener.remaining` — and what
    follows -/
def em_IShape (src0 : List Char) (eC : Nat) (pre : List Node) (oS : Nat) (opener : Marker)
    (ms : MatchSt) : Prop :=
  ∃ oE s, em_CloserOK src0 eC s ms ∧
    Cut src0 oS oE (List.replicate opener.remaining opener.marker) ∧ opener.marker.utf8Size = 1 ∧
    Adjd ms.children ∧ StrictTop ms.children ∧
    ((0 < opener.remaining ∧ ∃ otok tail, otok.range = some (oS, oE) ∧ Adjd otok.children ∧
        FthL src0 otok.children ∧ TextLike otok ∧ ms.children = pre ++ [otok] ++ tail ∧
        FthL src0 tail) ∨
     (opener.remaining = 0 ∧ ∃ tail, ms.children = pre ++ tail ∧ FthL src0 tail))

theorem em_fthN_wrap {src0 : List Char} {w : Wrap} {mk : Char} {a b : Nat} {cs : List Node}
    (ha : Bdy src0 a) (hb : Bdy src0 b) (hadj : Adjd cs) (hf : FthL src0 cs) :
    FthN src0 (Node.mk (.wrap w mk) (some (a, b)) cs) := by
  rw [FthN_eq]
  refine ⟨⟨a, b, rfl, ha, hb, ?_, ?_, ?_, hadj⟩, hf⟩
  · intro t ht; cases ht
  · intro ct mu info ht; cases ht
  · intro mk' l rem o c ht; cases ht

theorem em_matchInner {src0 : List Char} {eC : Nat} {fns : Nat → Option Wrap} {mk : Char} {room : Nat}
    {pre : List Node} {oS : Nat} :
    ∀ (fuel : Nat) (opener : Marker) (ms : MatchSt) (opener' : Marker) (ms' : MatchSt),
      matchInner fns mk room pre.length fuel opener ms = .ok (opener', ms') →
      em_IShape src0 eC pre oS opener ms → em_IShape src0 eC pre oS opener' ms' := by
  intro fuel
  induction fuel with
  | zero =>
    intro opener ms opener' ms' h hs
    simp only [matchInner, Except.ok.injEq, Prod.mk.injEq] at h
    obtain ⟨rfl, rfl⟩ := h; exact hs
  | succ fuel ih =>
    intro opener ms opener' ms' h hs
    unfold matchInner at h
    split at h
    · next hpos =>
      split at h
      · simp only [Except.ok.injEq, Prod.mk.injEq] at h
        obtain ⟨rfl, rfl⟩ := h; exact hs
      simp only at h
      split at h
      · simp only [Except.ok.injEq, Prod.mk.injEq] at h
        obtain ⟨rfl, rfl⟩ := h; exact hs
      · next ml w hpick =>
        obtain ⟨hml1, hml2⟩ := pickLen_le hpick
        obtain ⟨oE, s, ⟨hcr, hcc, hcu, hlast⟩, hoc, hou, hadj, hstr, hshape⟩ := hs
        rcases hshape with ⟨_, otok, tail, hor, hoa, hof, hotl, hch, hft⟩ | ⟨h0, _⟩
        · split at h
          · simp at h
          · split at h
            · simp at h
            · -- `head = pre ++ [otok]`, `tail` moves into the wrapper
              have hlen : pre.length + 1 = (pre ++ [otok]).length := by simp
              have htake : ms.children.take (pre.length + 1) = pre ++ [otok] := by
                rw [hch, hlen, List.take_left]
              have hdrop : ms.children.drop (pre.length + 1) = tail := by
                rw [hch, hlen, List.drop_left]
              rw [htake, hdrop, popLast_snoc, hcr] at h
              simp only [hor] at h
              split at h
              · simp at h
              · next otok' smp hcut =>
                split at hcut
                · simp at hcut
                · next hnu =>
                  simp only [Except.ok.injEq, Prod.mk.injEq] at hcut
                  obtain ⟨rfl, rfl⟩ := hcut
                  apply ih _ _ _ _ h
                  -- the state after one match
                  obtain ⟨hcE, _, cc2, _, _⟩ := em_cut_replicate_split hcu hcc
                    (show ml ≤ ms.closer.remaining by omega)
                  obtain ⟨hoE, _, _, oc3, _⟩ := em_cut_replicate_split hou hoc
                    (show ml ≤ opener.remaining by omega)
                  have hoE' := em_cut_replicate_len hou oc3
                  rw [hch] at hadj hstr
                  have hnew : FthN src0 (Node.mk (.wrap w mk) (some (oE - ml, s + ml)) tail) :=
                    em_fthN_wrap oc3.bdy_right cc2.bdy_left (em_adjd_right hadj) hft
                  have hnt := em_wrap_not_textLike w mk (some (oE - ml, s + ml)) tail
                  have hpreA : Adjd pre := em_adjd_left (em_adjd_left hadj)
                  have hpreS : StrictTop pre := em_strict_left (em_strict_left hstr)
                  have hnS : StrictTop [Node.mk (.wrap w mk) (some (oE - ml, s + ml)) tail] :=
                    em_strict_single (fun ht => absurd ht hnt)
                  refine ⟨oE - ml, s + ml, ⟨rfl, cc2, hcu, ?_⟩, oc3, hou, ?_, ?_, ?_⟩
                  · intro init last hl hlt
                    simp only at hl
                    obtain ⟨_, rfl⟩ := snoc_inj hl
                    exact absurd hlt hnt
                  · simp only
                    apply em_adjd_snoc_other _ hnt
                    by_cases hz : opener.remaining - ml = 0
                    · simp only [hz, if_true]; exact hpreA
                    · simp only [hz, if_false]
                      apply em_adjd_set_last (em_adjd_left hadj)
                      intro p hp tp _
                      obtain ⟨a1, b1, b2, e1, e2⟩ := hp tp hotl
                      rw [hor] at e2
                      simp only [Option.some.injEq, Prod.mk.injEq] at e2
                      exact ⟨a1, b1, oE - ml, e1, by rw [e2.1]⟩
                  · simp only
                    apply em_strict_append _ hnS
                    by_cases hz : opener.remaining - ml = 0
                    · simp only [hz, if_true]; exact hpreS
                    · simp only [hz, if_false]
                      apply em_strict_append hpreS
                      apply em_strict_single
                      intro _
                      exact ⟨oS, oE - ml, rfl, by omega⟩
                  · by_cases hz : opener.remaining - ml = 0
                    · right
                      refine ⟨hz, [_], ?_, em_fthL_single hnew⟩
                      simp only [hz, if_true]
                    · left
                      refine ⟨by simp only; omega, Node.mk otok.val (some (oS, oE - ml)) otok.children,
                        [_], rfl, hoa, hof, hotl, ?_, em_fthL_single hnew⟩
                      simp only [hz, if_false]
        · omega
    · simp only [Except.ok.injEq, Prod.mk.injEq] at h
      obtain ⟨rfl, rfl⟩ := h; exact hs

/-! ## (d) the outer loop -/

/-- the invariant of the outer loop -/
def em_MInv (src0 : List Char) (eC : Nat) (ms : MatchSt) : Prop :=
  FthL src0 ms.children ∧ Adjd ms.children ∧ StrictTop ms.children ∧ ∃ s, em_CloserOK src0 eC s ms

theorem em_adj_right_congr {p x y : Node} (hr : y.range = x.range) (ht : TextLike y → TextLike x)
    (h : Adj p x) : Adj p y := by
  intro tp ty
  obtain ⟨a1, b1, b2, e1, e2⟩ := h tp (ht ty)
  exact ⟨a1, b1, b2, e1, by rw [hr, e2]⟩

theorem em_adj_left_congr {q x y : Node} (hr : y.range = x.range) (ht : TextLike y → TextLike x)
    (h : Adj x q) : Adj y q := by
  intro ty tq
  obtain ⟨a1, b1, b2, e1, e2⟩ := h (ht ty) tq
  exact ⟨a1, b1, b2, by rw [hr, e1], e2⟩

/-- replacing a member by one with the same range keeps "a text-like last member ends at `s`" -/
theorem em_last_set {pre t : List Node} {x y : Node} {s : Nat} (hr : y.range = x.range)
    (ht : TextLike y → TextLike x)
    (h : ∀ init last, pre ++ [x] ++ t = init ++ [last] → TextLike last → ∃ a, last.range = some (a, s)) :
    ∀ init last, pre ++ [y] ++ t = init ++ [last] → TextLike last → ∃ a, last.range = some (a, s) := by
  intro init last hl hlt
  rcases List.eq_nil_or_concat t with rfl | ⟨t', z, ht'⟩
  · simp only [List.append_nil] at hl
    obtain ⟨_, rfl⟩ := snoc_inj hl
    rw [hr]
    exact h pre x (by simp) (ht hlt)
  · rw [List.concat_eq_append] at ht'; subst ht'
    have e1 : pre ++ [y] ++ (t' ++ [z]) = (pre ++ [y] ++ t') ++ [z] := by simp
    rw [e1] at hl
    obtain ⟨_, rfl⟩ := snoc_inj hl
    exact h (pre ++ [x] ++ t') z (by simp) hlt

theorem em_matchOuter {src0 : List Char} {eC : Nat} {fns : Nat → Option Wrap} {mk : Char}
    (room minIdx : Nat) :
    ∀ (k : Nat) (ms ms' : MatchSt), matchOuter fns mk room minIdx k ms = .ok ms' →
      em_MInv src0 eC ms → em_MInv src0 eC ms' := by
  intro k
  induction k with
  | zero =>
    intro ms ms' h hm
    simp only [matchOuter, Except.ok.injEq] at h; subst h; exact hm
  | succ k ih =>
    intro ms ms' h hm
    unfold matchOuter at h
    simp only at h
    split at h
    · simp at h
    next nxt hnxt =>
    -- the depth bookkeeping does not touch what `em_MInv` / `em_IShape` talk about
    have hm' : em_MInv src0 eC { ms with innerDepth := max ms.innerDepth (wrapDepth nxt) } := hm
    split at h
    · simp at h
    · next tok htok =>
      split at h
      · exact ih _ _ h hm'
      · next opener hop =>
        obtain ⟨hfl, hadj, hstr, s, hcl⟩ := hm
        obtain ⟨hsplit, hlen⟩ := split_at_getElem? htok
        obtain ⟨pre, hpredef⟩ : ∃ pre, pre = ms.children.take (minIdx + k) := ⟨_, rfl⟩
        obtain ⟨tl, htldef⟩ : ∃ tl, tl = ms.children.drop (minIdx + k + 1) := ⟨_, rfl⟩
        rw [← hpredef] at hlen
        rw [← hpredef, ← htldef] at hsplit
        -- the three parts of the list
        have hf3 := hfl
        rw [hsplit] at hf3
        have hpre : FthL src0 pre := em_fthL_left (em_fthL_left hf3)
        have htlF : FthL src0 tl := em_fthL_right hf3
        have htokF : FthN src0 tok := em_fthL_mem hfl (List.mem_of_getElem? htok)
        have htokT : TextLike tok := em_asMarker_textLike hop
        rw [FthN_eq] at htokF
        obtain ⟨⟨oS, oE, hor, _, _, _, _, hmkc, hoa⟩, hof⟩ := htokF
        obtain ⟨hou, hoc⟩ := hmkc opener.marker opener.length opener.remaining opener.open_
          opener.close (em_asMarker_val hop)
        have hrem : 0 < opener.remaining := by
          obtain ⟨a, b, hab, hlt⟩ := hstr tok (List.mem_of_getElem? htok) htokT
          rw [hor] at hab; simp only [Option.some.injEq, Prod.mk.injEq] at hab
          have := em_cut_replicate_len hoc hou
          omega
        -- the shape before the inner loop
        have hshape0 : em_IShape src0 eC pre oS opener
            { ms with innerDepth := max ms.innerDepth (wrapDepth nxt) } :=
          ⟨oE, s, hcl, hou, hoc, hadj, hstr, Or.inl ⟨hrem, tok, tl, hor, hoa, hof, htokT, hsplit, htlF⟩⟩
        split at h
        · simp at h
        · next opener' ms1 hgo =>
          have hshape : em_IShape src0 eC pre oS opener' ms1 := by
            split at hgo
            · rw [← hlen] at hgo
              exact em_matchInner _ _ _ _ _ hgo hshape0
            · simp only [Except.ok.injEq, Prod.mk.injEq] at hgo
              obtain ⟨rfl, rfl⟩ := hgo; exact hshape0
          obtain ⟨oE', s', ⟨hcr', hcc', hcu', hlast'⟩, hou', hoc', hadj', hstr', hsh⟩ := hshape
          split at h
          · next hpos =>
            split at h
            · simp at h
            · next cs hrep =>
              apply ih _ _ h
              rcases hsh with ⟨_, otok', tail', hor', hoa', hof', hotl', hch', hft'⟩ | ⟨h0, _⟩
              · -- the opener token gets its new value
                unfold replaceAt at hrep
                rw [hch', ← hlen, getElem?_mid] at hrep
                simp only [Except.ok.injEq] at hrep
                rw [set_mid] at hrep
                subst hrep
                have hnewF : FthN src0 (Node.mk opener'.toVal otok'.range otok'.children) := by
                  rw [FthN_eq]
                  refine ⟨⟨oS, oE', hor', hou'.bdy_left, hou'.bdy_right, ?_, ?_, ?_, hoa'⟩, hof'⟩
                  · intro t ht; simp [Marker.toVal] at ht
                  · intro ct mu info ht; simp [Marker.toVal] at ht
                  · intro mk' l rem o c ht
                    simp only [Marker.toVal, Val.emphMarker.injEq] at ht
                    obtain ⟨rfl, _, rfl, _, _⟩ := ht
                    exact ⟨hou', hoc'⟩
                have hrng : (Node.mk opener'.toVal otok'.range otok'.children).range = otok'.range := rfl
                have htxt : TextLike (Node.mk opener'.toVal otok'.range otok'.children) →
                    TextLike otok' := fun _ => hotl'
                rw [hch'] at hadj' hstr' hlast'
                refine ⟨em_fthL_append (em_fthL_append hpre (em_fthL_single hnewF)) hft', ?_, ?_,
                  s', hcr', hcc', hcu', ?_⟩
                · exact em_adjd_set hadj' (fun p => em_adj_right_congr hrng htxt)
                    (fun q => em_adj_left_congr hrng htxt)
                · apply em_strict_append (em_strict_append (em_strict_left (em_strict_left hstr')) _)
                    (em_strict_right hstr')
                  apply em_strict_single
                  intro _
                  exact hstr' otok' (by simp) hotl'
                · exact em_last_set hrng htxt hlast'
              · omega
          · next hpos =>
            apply ih _ _ h
            rcases hsh with ⟨hp, _⟩ | ⟨h0, tail', hch', hft'⟩
            · omega
            · exact ⟨by rw [hch']; exact em_fthL_append hpre hft', hadj', hstr', s', hcr', hcc', hcu',
                hlast'⟩

/-! ## (e) `scan_and_match_delimiters` -/

/-- what the matching works on (`FI` without the cursor): every member `FthN`, mergeable
    neighbours adjacent, text-like members non-empty, a text-like LAST member ends at `eC` -/
structure em_LI (src0 : List Char) (eC : Nat) (cs : List Node) : Prop where
  deep : FthL src0 cs
  adj : Adjd cs
  strict : StrictTop cs
  tail : ∀ init last, cs = init ++ [last] → TextLike last → ∃ a, last.range = some (a, eC)

theorem em_fthN_marker {src0 : List Char} {m : Marker} {a b : Nat} {cs : List Node}
    (hc : Cut src0 a b (List.replicate m.remaining m.marker)) (hu : m.marker.utf8Size = 1)
    (hadj : Adjd cs) (hf : FthL src0 cs) : FthN src0 (Node.mk m.toVal (some (a, b)) cs) := by
  rw [FthN_eq]
  refine ⟨⟨a, b, rfl, hc.bdy_left, hc.bdy_right, ?_, ?_, ?_, hadj⟩, hf⟩
  · intro t ht; simp [Marker.toVal] at ht
  · intro ct mu info ht; simp [Marker.toVal] at ht
  · intro mk' l rem o c ht
    simp only [Marker.toVal, Val.emphMarker.injEq] at ht
    obtain ⟨rfl, _, rfl, _, _⟩ := ht
    exact ⟨hc, hu⟩

theorem em_scanAndMatch {src0 : List Char} {eC : Nat} {fns : Nat → Option Wrap} {mk : Char}
    {room : Nat} {cs out : List Node} {b b' : List (Char × List Nat)} (hi : em_LI src0 eC cs)
    (h : scanAndMatch fns mk room cs b = .ok (out, b')) : em_LI src0 eC out := by
  unfold scanAndMatch at h
  split at h
  · simp only [Except.ok.injEq, Prod.mk.injEq] at h; rw [← h.1]; exact hi
  · split at h
    · simp at h
    · next init closerTok hpop =>
      have hcs : cs = init ++ [closerTok] := by
        rcases popLast_spec cs with ⟨hp, _⟩ | ⟨i, l, hp, hl⟩
        · rw [hp] at hpop; simp at hpop
        · rw [hp] at hpop; simp only [Option.some.injEq, Prod.mk.injEq] at hpop
          rw [hl, hpop.1, hpop.2]
      subst hcs
      split at h
      · simp at h
      · next closer hcl =>
        have hcT : TextLike closerTok := em_asMarker_textLike hcl
        have hcF : FthN src0 closerTok := em_fthL_mem hi.deep (by simp)
        rw [FthN_eq] at hcF
        obtain ⟨⟨cS, cE, hcr, _, _, _, _, hmkc, hca⟩, hcf⟩ := hcF
        obtain ⟨hcu, hcc⟩ := hmkc closer.marker closer.length closer.remaining closer.open_
          closer.close (em_asMarker_val hcl)
        obtain ⟨a0, ha0⟩ := hi.tail init closerTok rfl hcT
        rw [hcr] at ha0; simp only [Option.some.injEq, Prod.mk.injEq] at ha0
        obtain ⟨_, rfl⟩ := ha0
        simp only at h
        split at h
        · simp at h
        · split at h
          · simp at h
          · split at h
            · simp at h
            · next ms hms =>
              have hm0 : em_MInv src0 cE
                  { closer := closer, closerRange := closerTok.range, children := init,
                    newMin := init.length - 1 } := by
                refine ⟨em_fthL_left hi.deep, em_adjd_left hi.adj, em_strict_left hi.strict, cS, hcr,
                  hcu, hcc, ?_⟩
                intro i l hl hlt
                simp only at hl; subst hl
                have hlink : Adj l closerTok :=
                  em_adjd_link (a := i) (x := l) (y := closerTok) (b := []) hi.adj
                obtain ⟨a1, b1, b2, e1, e2⟩ := hlink hlt hcT
                rw [hcr] at e2; simp only [Option.some.injEq, Prod.mk.injEq] at e2
                exact ⟨a1, by rw [e1, e2.1]⟩
              obtain ⟨hfl, hadj, hstr, s, hcr', hcu', hcc', hlast'⟩ :=
                em_matchOuter _ _ _ _ _ hms hm0
              have hlen := em_cut_replicate_len hcc' hcu'
              split at h
              · next hpos =>
                simp only [Except.ok.injEq, Prod.mk.injEq] at h; rw [← h.1]
                have hF : FthN src0 (Node.mk ms.closer.toVal ms.closerRange closerTok.children) := by
                  rw [hcr']; exact em_fthN_marker hcu' hcc' hca hcf
                refine ⟨em_fthL_append hfl (em_fthL_single hF), em_adjd_snoc hadj ?_,
                  em_strict_append hstr (em_strict_single ?_), ?_⟩
                · intro i l hl tl _
                  obtain ⟨a, ha⟩ := hlast' i l hl tl
                  exact ⟨a, s, cE, ha, hcr'⟩
                · intro _
                  exact ⟨s, cE, hcr', by omega⟩
                · intro i l hl _
                  obtain ⟨_, rfl⟩ := snoc_inj hl
                  exact ⟨s, hcr'⟩
              · next hpos =>
                simp only [Except.ok.injEq, Prod.mk.injEq] at h; rw [← h.1]
                have hs : s = cE := by omega
                subst hs
                exact ⟨hfl, hadj, hstr, hlast'⟩

/-! ## (f) the rule -/

theorem em_ruleEmph {cfg : Cfg} {src0 : List Char} {mk : Char} {csw : Bool} {st st' : IState}
    {o : Option Nat} (hmk : mk.utf8Size = 1) (hnl : mk ≠ '\n') (hc : Ctx src0 st.src st.srcmap)
    (hf : FInv src0 st) (h : ruleEmph cfg mk csw st false = .ok (o, st')) :
    FI src0 st.src st.srcmap (st'.pos + o.getD 0) st'.children := by
  have hf' : FI src0 st.src st.srcmap st.pos st.children := hf
  unfold ruleEmph at h
  simp only [Bool.false_eq_true, if_false] at h
  split at h
  · simp at h
  · simp at h
  · next c w hw =>
    split at h
    · simp only [Except.ok.injEq, Prod.mk.injEq] at h; obtain ⟨rfl, rfl⟩ := h
      simpa using hf'
    · next hcm =>
      have hcm' : c = mk := Decidable.not_not.mp hcm
      subst hcm'
      split at h
      · simp at h
      · next scanned hsc =>
        obtain ⟨mk', rest, hsl, _, hlen⟩ := scanDelims_length hsc
        unfold IState.window at hw
        rw [hw] at hsl
        simp only [Except.ok.injEq, List.cons.injEq] at hsl
        obtain ⟨rfl, rfl⟩ := hsl
        have hcut : Cut st.src st.pos st.posMax (c :: w) :=
          (cut_iff_ops _ _ _ _).mp (liftOps_ok.mp hw)
        have hrun := em_runLen_cut hmk hcut
        rw [← hlen] at hrun
        split at h
        · simp at h
        · next r hr =>
          obtain ⟨rx, ry⟩ := r
          obtain ⟨e1, e2, _⟩ := getMap_eq hr
          -- the run is a copy of source bytes
          have hlow : Cut src0 rx ry (List.replicate scanned.length c) :=
            hc.fth.copy _ _ _ _ _ hrun (em_not_mem_replicate hnl _) e1 e2
          have hrlen := em_cut_replicate_len hmk hlow
          have hleaf : FthN src0 (Node.leaf (.emphMarker c scanned.length scanned.length
              scanned.canOpen scanned.canClose) (some (rx, ry))) :=
            em_fthN_marker (m := ⟨c, scanned.length, scanned.length, scanned.canOpen,
              scanned.canClose⟩) hlow hmk trivial trivial
          have hpushed : em_LI src0 ry (st.children ++ [Node.leaf (.emphMarker c scanned.length
              scanned.length scanned.canOpen scanned.canClose) (some (rx, ry))]) := by
            refine ⟨em_fthL_append hf'.deep (em_fthL_single hleaf), em_adjd_snoc hf'.adj ?_,
              em_strict_append hf'.strict (em_strict_single ?_), ?_⟩
            · intro i l hil tl _
              obtain ⟨a, b, ha, hb⟩ := hf'.tail i l hil tl
              rw [e1] at hb; simp only [Except.ok.injEq] at hb; subst hb
              exact ⟨a, rx, ry, ha, rfl⟩
            · intro _
              exact ⟨rx, ry, rfl, by omega⟩
            · intro i l hil _
              obtain ⟨_, rfl⟩ := snoc_inj hil
              exact ⟨rx, rfl⟩
          have hfin : ∀ out, em_LI src0 ry out →
              FI src0 st.src st.srcmap (st.pos + scanned.length) out := by
            intro out hl
            refine ⟨hrun.bdy_right, hl.deep, hl.adj, hl.strict, ?_⟩
            intro i l hil tl
            obtain ⟨a, ha⟩ := hl.tail i l hil tl
            exact ⟨a, ry, ha, e2⟩
          split at h
          · split at h
            · simp at h
            · next cs b hsm =>
              simp only [Except.ok.injEq, Prod.mk.injEq] at h; obtain ⟨rfl, rfl⟩ := h
              simp only [Option.getD_some, IState.push]
              exact hfin _ (em_scanAndMatch hpushed hsm)
          · simp only [Except.ok.injEq, Prod.mk.injEq] at h; obtain ⟨rfl, rfl⟩ := h
            simp only [Option.getD_some, IState.push]
            exact hfin _ hpushed

/-- **the contract of the emphasis-marker rule** (consumed by Lemmas/C05RestInline.lean) -/
theorem emphOK (cfg : Inline.Cfg) (src0 : List Char) : EmphOK cfg src0 := by
  intro mk csw lo st st' o hmk hnl hc _ hf h
  exact em_ruleEmph hmk hnl hc hf h

/-! ## the contract is not vacuous, and its two hypotheses on the marker are needed -/

theorem em_tr_id (p : Nat) : getSourcePosFor [(0, 0)] p = .ok p := by
  have hwf : C05.WFMap [(0, 0)] := ⟨⟨0, [], rfl⟩, by simp⟩
  obtain ⟨i, k, v, h1, h2, h3, _⟩ := C05.lineOf_spec _ hwf p
  have := C05.getSourcePosFor_of_line _ p i k v h1 h2 h3
  cases i with
  | zero =>
    simp only [List.getElem?_cons_zero, Option.some.injEq, Prod.mk.injEq] at h2
    obtain ⟨rfl, rfl⟩ := h2; simpa using this
  | succ j => simp at h2

/-- a content that is its own document (identity table) -/
theorem em_ctx_id (c : List Char) : Ctx c c [(0, 0)] := by
  refine ⟨⟨⟨⟨0, [], rfl⟩, by simp⟩, ?_, ?_⟩, ⟨?_, ?_⟩⟩
  · intro i k1 v1 k2 v2 _ h2; simp at h2
  · intro i k v h hk
    cases i with
    | zero => simp at h; omega
    | succ j => simp at h
  · intro p q w a b hc _ ha hb
    rw [em_tr_id] at ha hb
    simp only [Except.ok.injEq] at ha hb; subst ha hb; exact hc
  · intro p q w a b w' hc hn ha hb hc' hnb
    rw [em_tr_id] at ha hb
    simp only [Except.ok.injEq] at ha hb; subst ha hb
    rw [hc'.unique hc] at hnb
    exact hnb.1 hn

/-- `*a` has been read from `*a*`, the cursor is in front of the closing `*` -/
def em_exSt : IState :=
  { IState.init ['*', 'a', '*'] [(0, 0)] with
    pos := 2
    children := [Node.leaf (.emphMarker '*' 1 1 true false) (some (0, 1)),
                 Node.newText ['a'] (some (1, 2))] }

def em_show (r : SRes) : List (Val × Option (Nat × Nat) × List Val) :=
  match r with
  | .ok (_, st) => st.children.map (fun n => (n.val, n.range, n.children.map (·.val)))
  | .error _ => []

def em_step (r : SRes) : Option (Option Nat × Nat) :=
  match r with
  | .ok (o, st) => some (o, st.pos)
  | .error _ => none

-- the rule fires, matches the opener and wraps the text: all hypotheses of `EmphOK` hold of this
-- state (`em_ex_hyps`), so `emphOK` says something about a run through `matchInner`
example : em_step (ruleEmph (exCfg 100) '*' true em_exSt false) = some (some 1, 2) ∧
    em_show (ruleEmph (exCfg 100) '*' true em_exSt false) =
      [(.wrap .em '*', some (0, 3), [.text ['a']])] := by decide +kernel

theorem em_ex_hyps : ('*' : Char).utf8Size = 1 ∧ ('*' : Char) ≠ '\n' ∧
    Ctx ['*', 'a', '*'] em_exSt.src em_exSt.srcmap ∧ RInv 0 em_exSt ∧ FInv ['*', 'a', '*'] em_exSt := by
  have c01 : Cut ['*', 'a', '*'] 0 1 ['*'] := ⟨[], ['a', '*'], rfl, rfl, rfl⟩
  have c12 : Cut ['*', 'a', '*'] 1 2 ['a'] := ⟨['*'], ['*'], rfl, rfl, rfl⟩
  refine ⟨by decide, by decide, em_ctx_id _, ?_, ?_⟩
  · refine ⟨⟨2, em_tr_id 2, 0, 1, rfl, Nat.le_refl _, by omega, 1, 2, rfl, Nat.le_refl _, by omega,
        Nat.le_refl _⟩, ⟨wellRanged_leaf (by omega), wellRanged_leaf (by omega), trivial⟩, ?_, ?_⟩
    · intro n hn mk hmk
      simp only [em_exSt, List.mem_cons, List.not_mem_nil, or_false] at hn
      rcases hn with rfl | rfl
      · simp only [Node.leaf, Node.asMarker, Option.some.injEq] at hmk; subst hmk
        exact ⟨rfl, by decide, 0, 1, rfl, by decide⟩
      · simp [Node.newText, Node.asMarker] at hmk
    · intro init last hl _
      have hl' : [Node.leaf (.emphMarker '*' 1 1 true false) (some (0, 1))] ++
          [Node.newText ['a'] (some (1, 2))] = init ++ [last] := hl
      obtain ⟨_, rfl⟩ := snoc_inj hl'
      exact ⟨rfl, 1, 1, 2, (cut_iff_ops _ _ _ _).mpr c12, em_tr_id 1, em_tr_id 2, rfl⟩
  · refine ⟨⟨['*', 'a'], ['*'], rfl, rfl⟩, ⟨?_, ?_, trivial⟩, ?_, ?_, ?_⟩
    · exact em_fthN_marker (m := ⟨'*', 1, 1, true, false⟩) c01 (by decide) trivial trivial
    · rw [FthN_eq]
      refine ⟨⟨1, 2, rfl, c12.bdy_left, c12.bdy_right, ?_, ?_, ?_, trivial⟩, trivial⟩
      · intro t ht
        simp only [Node.newText, Val.text.injEq] at ht; subst ht; exact Sel.of_cut c12
      · intro ct mu info ht; simp [Node.newText] at ht
      · intro mk l rem o c ht; simp [Node.newText] at ht
    · exact ⟨fun _ _ => ⟨0, 1, 2, rfl, rfl⟩, trivial⟩
    · intro n hn _
      simp only [em_exSt, List.mem_cons, List.not_mem_nil, or_false] at hn
      rcases hn with rfl | rfl
      · exact ⟨0, 1, rfl, by decide⟩
      · exact ⟨1, 2, rfl, by decide⟩
    · intro init last hl _
      have hl' : [Node.leaf (.emphMarker '*' 1 1 true false) (some (0, 1))] ++
          [Node.newText ['a'] (some (1, 2))] = init ++ [last] := hl
      obtain ⟨_, rfl⟩ := snoc_inj hl'
      exact ⟨1, 2, rfl, em_tr_id 2⟩

-- `mk.utf8Size = 1` is needed: `scan_delims` counts CHARACTERS and the rule advances by that
-- count, so behind a run of one two-byte marker the cursor (and the end of the marker's range) is
-- inside the character: no `FI.bpos`, no `FthN` of the pushed leaf
example : em_step (ruleEmph (exCfg 100) 'é' true (IState.init ['é', 'a'] [(0, 0)]) false) =
      some (some 1, 0) ∧
    em_show (ruleEmph (exCfg 100) 'é' true (IState.init ['é', 'a'] [(0, 0)]) false) =
      [(.emphMarker 'é' 1 1 true false, some (0, 1), [])] ∧
    ¬ Bdy ['é', 'a'] 1 := by
  refine ⟨by decide +kernel, by decide +kernel, ?_⟩
  rintro ⟨p, q, e, hp⟩
  cases p with
  | nil => simp [byteLen] at hp
  | cons x p' =>
    simp only [List.cons_append, List.cons.injEq] at e
    obtain ⟨rfl, _⟩ := e
    have : ('é' : Char).utf8Size = 2 := by decide
    simp only [byteLen, this] at hp; omega

-- `mk ≠ '\n'` is needed: behind a container prefix a line feed of the inline text stands for the
-- line break AND the prefix of the next line (`> a\n> b`: content `a\nb`, table `[(0, 2), (2, 6)]`),
-- so the range of a "marker" made of the line feed, `(3, 6)`, does not select `replicate 1 '\n'`
example : em_show (ruleEmph (exCfg 100) '\n' true
        { IState.init ['a', '\n', 'b'] [(0, 2), (2, 6)] with pos := 1 } false) =
      [(.emphMarker '\n' 1 1 true true, some (3, 6), [])] ∧
    ¬ Cut ['>', ' ', 'a', '\n', '>', ' ', 'b'] 3 6 (List.replicate 1 '\n') := by
  refine ⟨by decide +kernel, ?_⟩
  rintro ⟨p, q, _, _, hb⟩
  have : ('\n' : Char).utf8Size = 1 := by decide
  simp only [List.replicate, byteLen, this] at hb; omega

end MdIt.C05R
