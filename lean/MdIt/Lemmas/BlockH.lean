/-
  Lemmas for `MdIt/Props/BlockH.lean`: the block pass with the raw-HTML rule in the chain.

  What is reused VERBATIM.  Every per-rule lemma of the nine cmark rules (`Props/Block.lean`,
  `Lemmas/BlockTotal*.lean`) is stated for arbitrary call-backs `tok` / `test` under contracts
  (`TokSpec`, `TokShape`, `TestPure`, `TestOK`, `TokOK`, `TokNF`, `TestNF`), so it applies to the new
  `tokenizeH` / `testRulesH` unchanged.  The tokenizer-loop lemmas (`tokLoop_spec`, `tokLoop_shape`,
  `tokLoop_np`, `tokLoop_nf`) are stated for an arbitrary runner `run : RuleId → …` and are reused
  through a re-indexing:

      tokLoopG maxNesting chain run  =  Block.tokLoop (one cfg) (fun _ => runChainG run chain)

  — the WHOLE ten-rule chain is ONE rule of a one-element `Block` chain (`tokLoopG_eq`); the chain as
  a single rule satisfies `RunSpec` / `RunNP` / `RunNF` / the shape contract when its members do
  (`chain_runSpec`, `chain_np`, `chain_nf`, `chain_shape`: four short inductions on the chain).

  What is new: the html rule meets each per-rule contract (`htmlRule_*`, from `Props/Html.lean`).
-/
import MdIt.Model.BlockH
import MdIt.Props.BlockTotal
import MdIt.Props.Html

namespace MdIt.BlockH
open MdIt.Block
open MdIt.Lines (LineOffset)

/-! ## 1. the html rule as a chain member -/

theorem htmlRule_ok {s s' : BState} {silent b : Bool} (h : htmlRule s silent = .ok (b, s')) :
    ∃ s1 nd, Html.htmlBlockRule s silent = .ok (b, s1, nd) ∧
      ((nd = none ∧ s' = s1) ∨ (∃ n, nd = some n ∧ s' = s1.push (htmlNode n))) := by
  unfold htmlRule at h
  split at h
  · cases h
  · rename_i b1 s1 he
    simp only [Except.ok.injEq, Prod.mk.injEq] at h
    obtain ⟨rfl, rfl⟩ := h
    exact ⟨_, _, he, .inl ⟨rfl, rfl⟩⟩
  · rename_i b1 s1 n he
    simp only [Except.ok.injEq, Prod.mk.injEq] at h
    obtain ⟨rfl, rfl⟩ := h
    exact ⟨_, _, he, .inr ⟨n, rfl, rfl⟩⟩

/-- silent mode is pure -/
theorem htmlRule_silent_pure {s s' : BState} {b : Bool} (h : htmlRule s true = .ok (b, s')) : s' = s := by
  obtain ⟨s1, nd, he, hc⟩ := htmlRule_ok h
  obtain ⟨rfl, rfl⟩ := Html.html_block_silent_quiet he
  rcases hc with ⟨_, rfl⟩ | ⟨n, hn, _⟩
  · rfl
  · cases hn

/-- `false` in real mode leaves the state alone -/
theorem htmlRule_false_same {s s' : BState} (h : htmlRule s false = .ok (false, s')) : s' = s := by
  obtain ⟨s1, nd, he, hc⟩ := htmlRule_ok h
  rcases Html.htmlBlockRule_ok he with ⟨_, rfl, rfl, _⟩ | ⟨_, _, _, _, _, _, _, _, hmode⟩
  · rcases hc with ⟨_, rfl⟩ | ⟨n, hn, _⟩
    · rfl
    · cases hn
  · rcases hmode with ⟨hs, _⟩ | ⟨_, hb, _⟩
    · cases hs
    · cases hb

/-- real success: exactly one node is pushed, `line` moves forward and not beyond `line_max`, nothing
    else changes -/
theorem htmlRule_true {s s' : BState} (h : htmlRule s false = .ok (true, s')) :
    ∃ (n : Html.BlockNode) (l : Nat), Html.htmlBlockRule s false = .ok (true, { s with line := l }, some n) ∧
      s' = { s with line := l, children := s.children ++ [htmlNode n] } ∧ s.line < l ∧
      (s.line < s.lineMax → l ≤ s.lineMax) := by
  obtain ⟨s1, nd, he, hc⟩ := htmlRule_ok h
  obtain ⟨hlt, hle, hs1, n, rfl⟩ := Html.block_rule_progress_html he
  rcases hc with ⟨hn, _⟩ | ⟨n', hn, rfl⟩
  · cases hn
  · cases hn
    refine ⟨n, s1.line, ?_, ?_, hlt, hle⟩
    · rw [← hs1]; exact he
    · conv => lhs; rw [hs1]
      rfl

theorem htmlRule_advanced {s s' : BState} (h : htmlRule s false = .ok (true, s')) (hl : s.line < s.lineMax) :
    Advanced s s' := by
  obtain ⟨n, l, _, rfl, hlt, hle⟩ := htmlRule_true h
  exact ⟨⟨rfl, rfl, rfl, rfl, rfl, rfl, rfl⟩, hlt, fun _ => hle hl⟩

/-- no panic on an existing line of a state that satisfies the invariant, either mode -/
theorem htmlRule_np {s : BState} (hI : BInv s) (hl : s.line < s.lineMax) (silent : Bool) :
    NoPanic (htmlRule s silent) := by
  obtain ⟨b, s1, nd, he⟩ := Html.htmlBlock_no_panic hI hl silent
  refine NoPanic.of_total ?_
  unfold htmlRule
  rw [he]
  cases nd <;> exact ⟨_, rfl⟩

@[blockNF] theorem blockScan_nf (s : BState) (i n : Nat) : Html.blockScan s i n = .error .fuel ↔ False := by
  fun_induction Html.blockScan s i n <;> simp_all [blockNF]
  all_goals (rintro rfl; simp_all [blockNF])

theorem htmlBlockRule_nf (s : BState) (silent : Bool) : Html.htmlBlockRule s silent ≠ .error .fuel := by
  intro h
  unfold Html.htmlBlockRule at h
  split at h
  · rename_i e he; injection h with h; subst h; exact (lineIndent_nf _ _).mp he
  · split at h
    · cases h
    · split at h
      · rename_i e he; injection h with h; subst h; exact (getLine_nf _ _).mp he
      · split at h
        · cases h
        · split at h
          · cases h
          · split at h
            · cases h
            · simp only at h
              split at h
              · rename_i e he; injection h with h; subst h
                split at he
                · cases he
                · exact (blockScan_nf _ _ _).mp he
              · split at h
                · rename_i e he; injection h with h; subst h; exact (getLines_nf _ _ _ _ _).mp he
                · split at h
                  · rename_i e he; injection h with h; subst h; exact (psub_nf _ _).mp he
                  · split at h
                    · rename_i e he; injection h with h; subst h; exact (getMap_nf _ _ _).mp he
                    · cases h

/-- the html rule involves no fuel -/
theorem htmlRule_nf (s : BState) (silent : Bool) : htmlRule s silent ≠ .error .fuel := by
  intro h
  unfold htmlRule at h
  split at h
  · rename_i e he
    simp only [Except.error.injEq] at h
    subst h
    exact htmlBlockRule_nf s silent he
  · cases h
  · cases h

/-- the pushed node is a leaf that is neither a list nor a list item -/
theorem htmlNode_good (n : Html.BlockNode) : Good (htmlNode n) :=
  good_leaf _ _ rfl (by simp [htmlKind])

theorem htmlRule_shape {s s' : BState} {b : Bool} (h : htmlRule s false = .ok (b, s')) : KeepsGood s s' := by
  cases b with
  | false => rw [htmlRule_false_same h]; exact fun hg => hg
  | true =>
    obtain ⟨n, l, _, rfl, _, _⟩ := htmlRule_true h
    exact fun hg => hg.push (htmlNode_good n)

/-! ## 2. the ten rules meet the contracts of the nine -/

theorem silent_pure_ruleH {cfg : Cfg} {tok : Tok} {test : Test} {fuel : Nat} {r : RuleIdH}
    {s s' : BState} {b : Bool} (h : runRuleH cfg tok test fuel r s true = .ok (b, s')) : s' = s := by
  cases r with
  | base r => exact silent_pure_rule h
  | html => exact htmlRule_silent_pure h

/-- `RunSpec` over an arbitrary id type -/
structure RunSpecG {ι : Type} (run : ι → BState → Bool → Res) : Prop where
  false_same : ∀ r s s', run r s false = .ok (false, s') → s' = s
  advanced : ∀ r s s', run r s false = .ok (true, s') → s.line < s.lineMax → IndentOk s → Advanced s s'

theorem runRuleH_spec {cfg : Cfg} {tok : Tok} {test : Test} (hk : TokSpec tok) (ht : TestPure test)
    (fuel : Nat) : RunSpecG (runRuleH cfg tok test fuel) := by
  have h9 := runRule_spec (cfg := cfg) hk ht fuel
  constructor
  · intro r s s' h
    cases r with
    | base r => exact h9.false_same r s s' h
    | html => exact htmlRule_false_same h
  · intro r s s' h hl hi
    cases r with
    | base r => exact h9.advanced r s s' h hl hi
    | html => exact htmlRule_advanced h hl

theorem runRuleH_shape {cfg : Cfg} {tok : Tok} {test : Test} (hk : TokSpec tok) (hsh : TokShape tok)
    (ht : TestPure test) (fuel : Nat) (r : RuleIdH) {s s' : BState} {b : Bool}
    (h : runRuleH cfg tok test fuel r s false = .ok (b, s')) (hl : s.line < s.lineMax) : KeepsGood s s' := by
  cases r with
  | base r => exact runRule_shape hk hsh ht fuel r h hl
  | html => exact htmlRule_shape h

/-- `RunNP` over an arbitrary id type -/
def RunNPG {ι : Type} (run : ι → BState → Bool → Res) : Prop :=
  ∀ r s silent, BInv s → s.line < s.lineMax → (silent = false → IndentOk s) → NoPanic (run r s silent)

theorem runRuleH_np {cfg : Cfg} {tok : Tok} {test : Test} {fuel : Nat} (hk : TokSpec tok) (hsh : TokShape tok)
    (ht : TestPure test) (hto : TestOK test) (hko : TokOK tok) : RunNPG (runRuleH cfg tok test fuel) := by
  intro r s silent hI hl hi
  cases r with
  | base r => exact rulesNP cfg tok test fuel hk hsh ht hto hko r s silent hI hl hi
  | html => exact htmlRule_np hI hl silent

theorem runRuleH_silent_nf (cfg : Cfg) (tok : Tok) (test : Test) (fuel : Nat) (r : RuleIdH) (s : BState) :
    runRuleH cfg tok test fuel r s true ≠ .error .fuel := by
  cases r with
  | base r => exact runRule_silent_nf cfg tok test fuel r s
  | html => exact htmlRule_nf s true

theorem runRuleH_nf {cfg : Cfg} {tok : Tok} {test : Test} {N : Nat} (hk : TokSpec tok) (ht : TestPure test)
    (htf : TestNF test) (hkf : TokNF cfg tok N) {fuel : Nat} (r : RuleIdH) {s : BState} {silent : Bool}
    (hl : s.line < s.lineMax) (hf : s.lineMax < s.line + fuel) (hi : IndentOk s)
    (hn : need cfg s ≤ N + 1) (hlv : s.level < cfg.maxNesting) :
    runRuleH cfg tok test fuel r s silent ≠ .error .fuel := by
  cases r with
  | base r => exact runRule_nf hk ht htf hkf r hl hf hi hn hlv
  | html => exact htmlRule_nf s silent

/-! ## 3. the chain as ONE rule -/

theorem runChainG_real {ι : Type} {run : ι → BState → Bool → Res} (hr : RunSpecG run) :
    ∀ (chain : List ι) (s : BState) (b : Bool) (s' : BState),
      runChainG run chain s false = .ok (b, s') →
      (b = false → s' = s) ∧ (b = true → s.line < s.lineMax → IndentOk s → Advanced s s') := by
  intro chain
  induction chain with
  | nil => intro s b s' h; simp [runChainG] at h; simp [h.1, h.2]
  | cons r rs ih =>
    intro s b s' h
    simp only [runChainG] at h
    split at h
    · cases h
    · rename_i s1 h1
      cases h
      exact ⟨by simp, fun _ => hr.advanced _ _ _ h1⟩
    · rename_i s1 h1
      have := hr.false_same _ _ _ h1
      subst this
      exact ih _ _ _ h

theorem chain_runSpec {ι : Type} {run : ι → BState → Bool → Res} (hr : RunSpecG run) (chain : List ι) :
    RunSpec (fun _ => runChainG run chain) :=
  ⟨fun _ s s' h => (runChainG_real hr chain s false s' h).1 rfl,
   fun _ s s' h hl hi => (runChainG_real hr chain s true s' h).2 rfl hl hi⟩

theorem runChainG_silent_pure {ι : Type} {run : ι → BState → Bool → Res}
    (hp : ∀ r s b s', run r s true = .ok (b, s') → s' = s) :
    ∀ (chain : List ι) (s : BState) (b : Bool) (s' : BState),
      runChainG run chain s true = .ok (b, s') → s' = s := by
  intro chain
  induction chain with
  | nil => intro s b s' h; simp [runChainG] at h; exact h.2.symm
  | cons r rs ih =>
    intro s b s' h
    simp only [runChainG] at h
    split at h
    · cases h
    · rename_i s1 h1
      cases h
      exact hp _ _ _ _ h1
    · rename_i s1 h1
      have := hp _ _ _ _ h1
      subst this
      exact ih _ _ _ h

theorem chain_shape {ι : Type} {run : ι → BState → Bool → Res} (hr : RunSpecG run)
    (hsh : ∀ r s b s', run r s false = .ok (b, s') → s.line < s.lineMax → KeepsGood s s') :
    ∀ (chain : List ι) (s : BState) (b : Bool) (s' : BState),
      runChainG run chain s false = .ok (b, s') → s.line < s.lineMax → KeepsGood s s' := by
  intro chain
  induction chain with
  | nil => intro s b s' h _; simp [runChainG] at h; rw [← h.2]; exact fun hg => hg
  | cons r rs ih =>
    intro s b s' h hl
    simp only [runChainG] at h
    split at h
    · cases h
    · rename_i s1 h1
      cases h
      exact hsh _ _ _ _ h1 hl
    · rename_i s1 h1
      have := hr.false_same _ _ _ h1
      subst this
      exact ih _ _ _ h hl

theorem chain_np {ι : Type} {run : ι → BState → Bool → Res} (hr : RunSpecG run)
    (hp : ∀ r s b s', run r s true = .ok (b, s') → s' = s) (hrun : RunNPG run) (chain : List ι) :
    RunNP (fun _ => runChainG run chain) := by
  intro _ s silent hI hl hi
  show NoPanic (runChainG run chain s silent)
  induction chain with
  | nil => intro e h; simp [runChainG] at h
  | cons r rs ih =>
    intro e h
    simp only [runChainG] at h
    split at h
    · rename_i e' he
      simp only [Except.error.injEq] at h
      subst h
      exact hrun r s silent hI hl hi _ he
    · cases h
    · rename_i s1 h1
      have : s1 = s := by
        cases silent with
        | true => exact hp _ _ _ _ h1
        | false => exact hr.false_same _ _ _ h1
      subst this
      exact ih e h

theorem chain_silent_nf {ι : Type} {run : ι → BState → Bool → Res}
    (hrun : ∀ r s, run r s true ≠ .error .fuel) :
    ∀ (chain : List ι) (s : BState), runChainG run chain s true ≠ .error .fuel := by
  intro chain
  induction chain with
  | nil => intro s h; simp [runChainG] at h
  | cons r rs ih =>
    intro s h
    simp only [runChainG] at h
    split at h
    · rename_i e he
      simp only [Except.error.injEq] at h
      subst h
      exact hrun _ _ he
    · cases h
    · exact ih _ h

theorem chain_nf {ι : Type} {run : ι → BState → Bool → Res} (hr : RunSpecG run) {s : BState}
    (hrun : ∀ r, run r s false ≠ .error .fuel) :
    ∀ (chain : List ι), runChainG run chain s false ≠ .error .fuel := by
  intro chain
  induction chain with
  | nil => intro h; simp [runChainG] at h
  | cons r rs ih =>
    intro h
    simp only [runChainG] at h
    split at h
    · rename_i e he
      simp only [Except.error.injEq] at h
      subst h
      exact hrun _ he
    · cases h
    · rename_i s1 h1
      have := hr.false_same _ _ _ h1
      subst this
      exact ih h

/-! ## 4. `tokLoopG` is `Block.tokLoop` over the one-rule chain -/

/-- a `Block.Cfg` whose chain has one element (which one does not matter: the runner ignores it) -/
def oneCfg (cfg : Cfg) : Cfg := { cfg with chain := [.code] }

theorem need_oneCfg (cfg : Cfg) (s : BState) : need (oneCfg cfg) s = need cfg s := rfl

theorem runChain_one (R : BState → Bool → Res) (s : BState) (silent : Bool) :
    runChain (fun _ => R) [.code] s silent = R s silent := by
  simp only [runChain]
  cases R s silent with
  | error e => rfl
  | ok w =>
    obtain ⟨b, s'⟩ := w
    cases b <;> rfl

theorem tokLoopG_eq {ι : Type} (cfg : Cfg) (chain : List ι) (run : ι → BState → Bool → Res) :
    ∀ (k : Nat) (he : Bool) (s : BState),
      tokLoopG cfg.maxNesting chain run k he s = tokLoop (oneCfg cfg) (fun _ => runChainG run chain) k he s := by
  intro k
  induction k with
  | zero => intro he s; rfl
  | succ k ih =>
    intro he s
    simp only [tokLoopG, tokLoop, oneCfg, runChain_one, ih]

/-! ## 5. the engine: structural contracts -/

theorem testRulesH_pure (cfg : Cfg) (chain : List RuleIdH) (fuel : Nat) : TestPure (testRulesH cfg chain fuel) := by
  intro s r h
  cases fuel with
  | zero => simp [testRulesH, engineH] at h
  | succ f =>
    simp only [testRulesH, engineH] at h
    exact runChainG_silent_pure (fun r s b s' h => silent_pure_ruleH h) _ _ _ _ h

/-- **the tokenizer with the html rule, for every fuel** -/
theorem tokenizeH_spec (cfg : Cfg) (chain : List RuleIdH) :
    ∀ (fuel : Nat) (s s' : BState), tokenizeH cfg chain fuel s = .ok s' → TokPost s s' := by
  intro fuel
  induction fuel with
  | zero => intro s s' h; simp [tokenizeH, engineH] at h
  | succ f ih =>
    intro s s' h
    simp only [tokenizeH, engineH] at h
    rw [tokLoopG_eq] at h
    exact tokLoop_spec
      (chain_runSpec (runRuleH_spec (TokSpec.of_post ih) (testRulesH_pure cfg chain f) _) chain) _ _ _ _ h

theorem tokenizeH_tokSpec (cfg : Cfg) (chain : List RuleIdH) (fuel : Nat) : TokSpec (tokenizeH cfg chain fuel) :=
  TokSpec.of_post (tokenizeH_spec cfg chain fuel)

/-- the tokenizer pushes only well-shaped nodes that are not list items (`list_shape` with html) -/
theorem tokenizeH_shape (cfg : Cfg) (chain : List RuleIdH) : ∀ fuel : Nat, TokShape (tokenizeH cfg chain fuel) := by
  intro fuel
  induction fuel with
  | zero => intro s s' h; simp [tokenizeH, engineH] at h
  | succ f ih =>
    intro s s' h
    simp only [tokenizeH, engineH] at h
    rw [tokLoopG_eq] at h
    have hk := tokenizeH_tokSpec cfg chain f
    have ht := testRulesH_pure cfg chain f
    have hspec := runRuleH_spec (cfg := cfg) hk ht (f + 1)
    exact tokLoop_shape (chain_runSpec hspec chain)
      (fun _ s b s' h hl => chain_shape hspec (fun r s b s' h hl => runRuleH_shape hk ih ht _ r h hl) chain s b s' h hl)
      _ _ _ _ h

/-! ## 6. the engine: no panic -/

theorem engineH_np (cfg : Cfg) (chain : List RuleIdH) :
    ∀ (f : Nat), TokOK (tokenizeH cfg chain f) ∧ TestOK (testRulesH cfg chain f) := by
  intro f
  induction f with
  | zero =>
    refine ⟨fun s _ e h => ?_, fun s _ _ e h => ?_⟩ <;>
      simp [tokenizeH, testRulesH, engineH] at h <;> exact h.symm
  | succ f ih =>
    have hk := tokenizeH_tokSpec cfg chain f
    have hsh := tokenizeH_shape cfg chain f
    have ht := testRulesH_pure cfg chain f
    have hspec := runRuleH_spec (cfg := cfg) hk ht (f + 1)
    have hrun : RunNPG (runRuleH cfg (tokenizeH cfg chain f) (testRulesH cfg chain f) (f + 1)) :=
      runRuleH_np hk hsh ht ih.2 ih.1
    have hnp := chain_np hspec (fun r s b s' h => silent_pure_ruleH h) hrun chain
    refine ⟨fun s hI => ?_, fun s hI hl => ?_⟩
    · simp only [tokenizeH, engineH]
      rw [tokLoopG_eq]
      exact tokLoop_np (chain_runSpec hspec chain) hnp _ _ _ hI
    · simp only [testRulesH, engineH]
      exact hnp .code s true hI hl (fun h => by cases h)

/-! ## 7. the engine: fuel -/

theorem testRulesH_nf (cfg : Cfg) (chain : List RuleIdH) (fuel : Nat) (s : BState) :
    testRulesH cfg chain (fuel + 1) s ≠ .error .fuel := by
  simp only [testRulesH, engineH]
  exact chain_silent_nf (fun r s => runRuleH_silent_nf cfg _ _ _ r s) _ _

/-- **fuel sufficiency of the tokenizer**: the measure `need` of `Lemmas/BlockTotalFuel.lean` is
    unchanged (the html rule neither nests nor loops on fuel) -/
theorem tokenizeH_nf (cfg : Cfg) (chain : List RuleIdH) : ∀ (f : Nat), TokNF cfg (tokenizeH cfg chain f) f := by
  intro f
  induction f with
  | zero => intro s hn; unfold need at hn; omega
  | succ f ih =>
    intro s hn
    simp only [tokenizeH, engineH]
    have hf : 1 ≤ f := by unfold need at hn; omega
    obtain ⟨g, rfl⟩ : ∃ g, f = g + 1 := ⟨f - 1, by omega⟩
    rw [tokLoopG_eq]
    have hk := tokenizeH_tokSpec cfg chain (g + 1)
    have ht := testRulesH_pure cfg chain (g + 1)
    have hspec := runRuleH_spec (cfg := cfg) hk ht (g + 1 + 1)
    refine tokLoop_nf (cfg := oneCfg cfg) (N := g + 1) (F := g + 1 + 1) (chain_runSpec hspec chain) ?_ _ _ _ ?_ ?_ hn
    · intro _ s' hl hF hi hn' hlv
      exact chain_nf hspec
        (fun r => runRuleH_nf hk ht (fun s => testRulesH_nf cfg chain g s) ih r hl hF hi hn' hlv) chain
    · unfold need at hn; omega
    · unfold need at hn; omega

/-! ## 8. conservativity: a chain without the html rule -/

theorem runChainG_map_base (cfg : Cfg) (tok : Tok) (test : Test) (fuel : Nat) :
    ∀ (chain : List RuleId) (s : BState) (silent : Bool),
      runChainG (runRuleH cfg tok test fuel) (chain.map .base) s silent =
        runChain (runRule cfg tok test fuel) chain s silent := by
  intro chain
  induction chain with
  | nil => intro s silent; rfl
  | cons r rs ih =>
    intro s silent
    simp only [List.map_cons, runChainG, runChain, runRuleH]
    cases runRule cfg tok test fuel r s silent with
    | error e => rfl
    | ok w =>
      obtain ⟨b, s'⟩ := w
      cases b
      · exact ih _ _
      · rfl

theorem tokLoopG_map_base (cfg : Cfg) (tok : Tok) (test : Test) (fuel : Nat) :
    ∀ (k : Nat) (he : Bool) (s : BState),
      tokLoopG cfg.maxNesting (cfg.chain.map .base) (runRuleH cfg tok test fuel) k he s =
        tokLoop cfg (runRule cfg tok test fuel) k he s := by
  intro k
  induction k with
  | zero => intro he s; rfl
  | succ k ih =>
    intro he s
    simp only [tokLoopG, tokLoop, runChainG_map_base, ih]

theorem engineH_conservative (cfg : Cfg) : ∀ (f : Nat), engineH cfg (cfg.chain.map .base) f = engine cfg f := by
  intro f
  induction f with
  | zero => rfl
  | succ f ih =>
    simp only [engineH, engine, ih]
    refine Prod.ext ?_ ?_
    · funext s
      exact tokLoopG_map_base cfg _ _ _ _ _ s
    · funext s
      exact runChainG_map_base cfg _ _ _ _ s true

theorem filterMap_base_map (l : List RuleId) : (l.map RuleIdH.base).filterMap RuleIdH.base? = l := by
  induction l with
  | nil => rfl
  | cons r rs ih => simp [RuleIdH.base?, ih]

theorem map_base_filterMap : ∀ (l : List RuleIdH), RuleIdH.html ∉ l → (l.filterMap RuleIdH.base?).map .base = l
  | [], _ => rfl
  | .html :: _, h => by simp at h
  | .base r :: rs, h => by
    have := map_base_filterMap rs (fun hm => h (List.mem_cons_of_mem _ hm))
    simp [RuleIdH.base?, this]

theorem base_ofCfg (cfg : Cfg) : (CfgH.ofCfg cfg).base = cfg := by
  cases cfg
  simp only [CfgH.ofCfg, CfgH.base, filterMap_base_map]

end MdIt.BlockH
