/-
  Helper development for `Props/MemoSafe.lean`, fourth part: the assembly for code spans with runs of
  backticks, under the text hypothesis `NoEscTickTick` (no backslash-backtick-backtick).

    * `nocut_init`        — the top `pos_max` (`trim_src` cuts trailing blanks only) cuts no backtick run;
    * `entryP_NF`         — a nested frame entered from the top frame satisfies `CS.NF`;
    * `nestHyps_noesc`    — the hypotheses of the nested induction for `B := BC`;
    * `parseInline_total_noesc` — **`md.inline.parse` is total for EVERY `ChainCoherent` chain on contents
      without backslash-backtick-backtick**.
-/
import MdIt.Lemmas.MemoSafeLamCSTop
import MdIt.Lemmas.MemoSafeLamCSNest
import MdIt.Lemmas.MemoSafeLamCSEnd

namespace MdIt.Inline.CS
open MdIt.Inline
open MdIt.InlineOps (Srcmap getSourcePosFor getMap byteLen slice)

theorem mem_takeWhile_true {p : Char → Bool} : ∀ (l : List Char) (c : Char), c ∈ l.takeWhile p → p c = true
  | [], _, h => by simp at h
  | x :: r, c, h => by
    simp only [List.takeWhile_cons] at h
    split at h
    · next hx =>
      rcases List.mem_cons.mp h with rfl | h
      · exact hx
      · exact mem_takeWhile_true r c h
    · simp at h

theorem byteLen_blanks : ∀ (l : List Char), (∀ c ∈ l, isSpTab c = true) → byteLen l = l.length
  | [], _ => rfl
  | c :: r, h => by
    have hc : c.utf8Size = 1 := by
      have := h c (by simp)
      simp only [isSpTab, Bool.or_eq_true, beq_iff_eq] at this
      rcases this with rfl | rfl <;> decide
    simp only [byteLen, List.length_cons, hc]
    rw [byteLen_blanks r (fun x hx => h x (List.mem_cons_of_mem _ hx))]
    omega

/-- the top `pos_max` (`trim_src` cuts trailing blanks only) does not cut a backtick run -/
theorem nocut_init (content : List Char) (mapping : InlineOps.Srcmap) :
    CodePair.NoCut '`' content (IState.init content mapping).posMax := by
  rintro ⟨_, _, h2⟩
  let blanks := (content.reverse.takeWhile isSpTab).reverse
  let body := (content.reverse.dropWhile isSpTab).reverse
  have hsplit : content = body ++ blanks := by
    have := List.takeWhile_append_dropWhile (p := isSpTab) (l := content.reverse)
    have h' := congrArg List.reverse this
    simp only [List.reverse_append, List.reverse_reverse] at h'
    exact h'.symm
  have hbl : ∀ c ∈ blanks, isSpTab c = true := by
    intro c hc
    have : c ∈ content.reverse.takeWhile isSpTab := by simpa [blanks] using hc
    exact mem_takeWhile_true _ _ this
  have hM : (IState.init content mapping).posMax = byteLen body := by
    show (trimSrc content).2 = byteLen body
    unfold trimSrc
    simp only
    have e1 : byteLen content = byteLen body + byteLen blanks := by
      rw [hsplit, C05.byteLen_append]
    have e2 : byteLen blanks = (content.reverse.takeWhile isSpTab).length := by
      rw [byteLen_blanks blanks hbl]; simp [blanks]
    omega
  rw [hM] at h2
  have hch : CodePair.charAt content (byteLen body) = blanks.head? := by
    have := CodePair.charAt_append_add body blanks 0
    rw [CodePair.charAt_zero] at this
    rw [hsplit]
    rw [codeByteLen_eq] at this
    simpa using this
  rw [hch] at h2
  cases hb : blanks with
  | nil => rw [hb] at h2; simp at h2
  | cons c r =>
    rw [hb] at h2
    simp only [List.head?_cons, Option.some.injEq] at h2
    have := hbl c (by rw [hb]; simp)
    rw [h2] at this
    simp [isSpTab] at this

variable {cfg : Cfg} {B : List Char → CodePair.Cache → Prop} {src : List Char} {Mtop : Nat}

/-- **a nested frame entered from the top frame satisfies `CS.NF`** -/
theorem entryP_NF (f : Nat) :
    EntryP cfg B src Mtop (fun s => skipTokenG cfg true f s) (NF cfg B src Mtop) := by
  intro lo st offset en fuel res st1 hg hm htop hb hle hch hpl htop1
  have hq := skipTokenG_calm cfg true f
  have hs := skipTokenG_T cfg f
  have hgr := skip_grow cfg f
  have hi := hg.linv hm
  obtain ⟨hi1, hc1, _, hres⟩ := (parseLink_T (cfg := cfg) hq hs fuel st (st.pos + offset) en hi hb hle).2
    _ _ hpl
  have hR := hres res rfl
  obtain ⟨rx, hrx⟩ := hR.bracket
  obtain ⟨hls, hrec⟩ := parseLink_records (cfg := cfg) hq hs hgr fuel st (st.pos + offset) en hi hb hle
    res st1 hpl
  have hsrc : st.src = src := htop.hsrc
  have hmax : st.posMax = Mtop := htop.hmax
  refine ⟨⟨?_, ?_, ?_, htop1.just⟩, htop1.hsrc, htop1.back, ?_, ?_, ?_, htop1.nocut,
    fun hbt => htop1.hmk hbt, ?_⟩
  · rw [← hsrc, ← hmax]; exact hg.bmax
  · rw [← hsrc, ← hmax]; exact hg.stop
  · intro k v hkv
    have := hi1.memo k v hkv
    rw [htop1.hsrc] at this
    exact this
  · obtain ⟨lo', hg', _⟩ := nested_good (cfg := cfg) hq hs hg hm hb hle hpl
    exact ⟨lo', hg'⟩
  · rw [← hsrc, ← hmax]; exact ⟨rx, hrx⟩
  · have := hrec st1.cache (LookupMono.refl _)
    rw [hsrc, hmax] at this
    refine ⟨en, fuel, 1, Int.le_refl _, ?_⟩
    show pwalk src Mtop st1.cache en fuel 1 res.labelStart = .done (some true) res.labelEnd
    rw [hls]
    exact this
  · intro _ hint
    obtain ⟨r, hr⟩ := hch
    have : Interior st.src (st.pos + offset + 1) := by
      have h1 : (nestedState st1 res).src = st.src := hc1.src
      have h2 : (nestedState st1 res).pos = st.pos + offset + 1 := hls
      rw [h1, h2] at hint
      exact hint
    exact absurd this (not_interior_after_bracket hr)

/-- the hypotheses of the nested induction for `B := BC`, texts without backslash-backtick-backtick -/
theorem nestHyps_noesc (cfg : Cfg) (src : List Char) (Mtop : Nat) (hc : ChainCoherent cfg = true)
    (hone : cfg.chain.count .link ≤ 1 ∧ cfg.chain.count .image ≤ 1) (hne : NoEscTickTick src)
    (hnc : CodePair.NoCut '`' src Mtop) : NestHyps cfg BC src Mtop :=
  { coh := hc
    hB := backOK_BC
    flat := flatL2_holds cfg
    back := fun _ => backL2_holds cfg hnc
    keep := realKeeps_holds cfg
    emph := emphL2_holds cfg
    plLink := fun _ => parseLinkL2Part_link cfg _ src Mtop
    plImage := fun _ => parseLinkL2Part_image cfg _ src Mtop
    one := hone
    hend := endHyp_holds cfg BC hne hnc
    agree := agreeHyp_holds src }

/-- **`md.inline.parse` is total for EVERY `ChainCoherent` chain — the stock CommonMark chain with
    strikethrough included — on contents without backslash-backtick-backtick** (code spans with any
    backtick runs), every `max_nesting`, every reference map, every `MapOK` table. -/
theorem parseInline_total_noesc (cfg : Cfg) (hc : ChainCoherent cfg = true)
    (hone : cfg.chain.count .link ≤ 1 ∧ cfg.chain.count .image ≤ 1) {content : List Char}
    {mapping : Srcmap} (hm : MapOK content mapping) (hne : NoEscTickTick content) :
    ∃ cs, parseInline cfg content mapping = .ok cs := by
  have hnc := nocut_init content mapping
  have hend := endHyp_holds cfg BC hne hnc
  have H := nestHyps_noesc cfg content (IState.init content mapping).posMax hc hone hne hnc
  exact parseInline_total_of_nested (B := BC) backOK_BC (coherent_hsz hc) hm (BC.empty content) hnc hend
    (marksHyp_holds cfg) (fun f s hs => nested_tokEq H f s hs) (fun f => entryP_NF f)

end MdIt.Inline.CS
