/-
  Helper development for `Props/InlineTotal.lean`: NO RUST PANIC of the recursive part of the inline
  parser — `parse_link_label`, `parse_link`, the link rule, one step of each tokenizer loop —
  against ARBITRARY callees `skip` / `tok` that meet the totality contracts `SkipHypT` / `TokHypT`
  (and are calm / keep the range invariant, which the partial-correctness developments
  `InlineCalm`, `InlineLinkEnd`, `InlineRanges6` need).
-/
import MdIt.Lemmas.InlineTotalDef

namespace MdIt.Inline
open MdIt.InlineOps (Srcmap getSourcePosFor getMap byteLen slice)
open MdIt.C05 (WFMap MonoMap byteLen_append slice_ok_iff)

/-! ## invariants -/

/-- **the global memo invariant**: every memoised jump of `skip_token` goes forward and ends on a
    character boundary of the text (whatever frame made it) -/
def MemoB (st : IState) : Prop := ∀ k v, (k, v) ∈ st.cache → k < v ∧ Boundary st.src v

theorem MemoB.memoInv {st : IState} (h : MemoB st) : MemoInv st := fun k v hkv => (h k v hkv).1

theorem MemoB.insert {st : IState} (h : MemoB st) {k v : Nat} (hkv : k < v) (hb : Boundary st.src v) :
    ∀ a b, (a, b) ∈ cacheInsert st.cache k v → a < b ∧ Boundary st.src b := by
  intro a b hab
  unfold cacheInsert at hab
  simp only [List.mem_cons, Prod.mk.injEq] at hab
  rcases hab with ⟨rfl, rfl⟩ | hab
  · exact ⟨hkv, hb⟩
  · exact h a b hab

/-- the invariant under which look-ahead code runs: window inside the text on boundaries, usable
    table, the entity regexes cannot run over `posMax`, sound memo -/
structure LInv (st : IState) : Prop where
  le : st.pos ≤ st.posMax
  bpos : Boundary st.src st.pos
  bmax : Boundary st.src st.posMax
  wf : WFMap st.srcmap
  stop : EntStop st.src st.posMax
  memo : MemoB st

theorem LInv.inv {st : IState} (h : LInv st) (hlt : st.pos < st.posMax) : InlineInv st :=
  ⟨hlt, h.bpos, h.bmax, h.wf⟩

/-- along a calm step to a new position inside the window -/
theorem LInv.step {st st' : IState} (h : LInv st) (hc : Calm st st') (hm : MemoB st')
    (hle : st'.pos ≤ st.posMax) (hb : Boundary st.src st'.pos) : LInv st' :=
  ⟨by rw [hc.posMax]; exact hle, by rw [hc.src]; exact hb, by rw [hc.src, hc.posMax]; exact h.bmax,
   by rw [hc.srcmap]; exact h.wf, by rw [hc.src, hc.posMax]; exact h.stop, hm⟩

theorem LInv.same {st st' : IState} (h : LInv st) (hc : Calm st st') (hm : MemoB st')
    (hp : st'.pos = st.pos) : LInv st' :=
  h.step hc hm (by rw [hp]; exact h.le) (by rw [hp]; exact h.bpos)

/-- the window of a state under `LInv` can be sliced -/
theorem LInv.window {st : IState} (h : LInv st) :
    ∃ w, st.window = .ok w ∧ slice st.src st.pos st.posMax = .ok w ∧ st.pos + byteLen w = st.posMax := by
  obtain ⟨pre, w, post, _, _, hw, hsl⟩ := slice_of_boundaries h.bpos h.bmax h.le
  exact ⟨w, by unfold IState.window; rw [hsl]; rfl, hsl, hw⟩

theorem NoRust.of_liftR {α : Type} {x : Except RPanic α} {a : α} (h : x = .ok a) :
    NoRust (liftR x) := by rw [h]; exact NoRust.ok a

theorem noRust_of_eq {α : Type} {r : Except Panic α} {a : α} (h : r = .ok a) : NoRust r := by
  rw [h]; exact NoRust.ok a

/-! ## contracts -/

/-- what `skip_token` guarantees on a state under `LInv` with `pos < posMax` -/
structure SkipT (st : IState) (r : Except Panic IState) : Prop where
  noRust : NoRust r
  ok : ∀ st', r = .ok st' →
    MemoB st' ∧ st.pos < st'.pos ∧ st'.pos ≤ st.posMax ∧ Boundary st.src st'.pos

def SkipHypT (skip : IState → Except Panic IState) : Prop :=
  ∀ s, LInv s → s.pos < s.posMax → SkipT s (skip s)

/-! ## `parse_link_label` -/

theorem labelLoop_T {skip : IState → Except Panic IState} (hq : CalmFn skip) (hs : SkipHypT skip)
    (en : Bool) :
    ∀ (n : Nat) (level : Int) (st : IState), LInv st →
      NoRust (labelLoop skip en n level st) ∧
      ∀ res st', labelLoop skip en n level st = .ok (res, st') → MemoB st' ∧ st.pos ≤ st'.pos := by
  intro n
  induction n with
  | zero => intro level st _; exact ⟨by unfold labelLoop; exact NoRust.fuel, by intro res st' h; simp [labelLoop] at h⟩
  | succ n ih =>
    intro level st hi
    obtain ⟨w, hw, hsl, hlen⟩ := hi.window
    unfold labelLoop
    rw [hw]
    simp only [liftR]
    cases w with
    | nil =>
      exact ⟨NoRust.ok _, by
        intro res st' h
        simp only [Except.ok.injEq, Prod.mk.injEq] at h; obtain ⟨_, rfl⟩ := h
        exact ⟨hi.memo, Nat.le_refl _⟩⟩
    | cons ch rest =>
      have hlt : st.pos < st.posMax := by
        have := Char.utf8Size_pos ch
        simp only [byteLen] at hlen; omega
      simp only
      split
      · exact ⟨NoRust.ok _, by
          intro res st' h
          simp only [Except.ok.injEq, Prod.mk.injEq] at h; obtain ⟨_, rfl⟩ := h
          exact ⟨hi.memo, Nat.le_refl _⟩⟩
      · have hsk := hs st hi hlt
        split
        · next e he =>
          refine ⟨?_, by intro res st' h; simp at h⟩
          intro p hp
          simp only [Except.error.injEq] at hp; subst hp
          exact hsk.noRust p he
        · next st1 hst1 =>
          obtain ⟨hm1, hp1, hle1, hb1⟩ := hsk.ok st1 hst1
          have hc1 := hq st st1 hst1
          have hi1 : LInv st1 := hi.step hc1 hm1 hle1 hb1
          have hrec : ∀ level', NoRust (labelLoop skip en n level' st1) ∧
              ∀ res st', labelLoop skip en n level' st1 = .ok (res, st') →
                MemoB st' ∧ st.pos ≤ st'.pos := by
            intro level'
            obtain ⟨h1, h2⟩ := ih level' st1 hi1
            refine ⟨h1, ?_⟩
            intro res st' h
            obtain ⟨a, b⟩ := h2 res st' h
            exact ⟨a, by omega⟩
          split
          · split
            · next h0 => omega
            · split
              · exact hrec _
              · split
                · exact ⟨NoRust.ok _, by
                    intro res st' h
                    simp only [Except.ok.injEq, Prod.mk.injEq] at h; obtain ⟨_, rfl⟩ := h
                    exact ⟨hm1, by omega⟩⟩
                · exact hrec _
          · exact hrec _

/-- `parse_link_label` from a `[` whose successor position lies in the window -/
theorem parseLinkLabel_T {skip : IState → Except Panic IState} (hq : CalmFn skip)
    (hs : SkipHypT skip) (en : Bool) (fuel : Nat) (st : IState) (start : Nat) (hi : LInv st)
    (hb : Boundary st.src (start + 1)) (hle : start + 1 ≤ st.posMax) :
    NoRust (parseLinkLabel skip fuel st start en) ∧
    ∀ o st', parseLinkLabel skip fuel st start en = .ok (o, st') →
      LInv st' ∧ Calm st st' ∧ st'.pos = st.pos ∧
      (∀ e, o = some e → start + 1 ≤ e ∧ ∃ r, slice st.src e st.posMax = .ok (']' :: r)) := by
  have hi0 : LInv { st with pos := start + 1 } :=
    ⟨hle, hb, hi.bmax, hi.wf, hi.stop, hi.memo⟩
  have hspec := labelLoop_T hq hs en fuel 1 { st with pos := start + 1 } hi0
  constructor
  · unfold parseLinkLabel
    simp only
    split
    · next e he =>
      intro p hp
      simp only [Except.error.injEq] at hp; subst hp
      exact hspec.1 p he
    · exact NoRust.ok _
    · exact NoRust.ok _
  · intro o st' h
    have hc := parseLinkLabel_calm hq h
    have hp := parseLinkLabel_pos h
    have hm : MemoB st' := by
      unfold parseLinkLabel at h
      simp only at h
      split at h
      · simp at h
      · next st1 he =>
        simp only [Except.ok.injEq, Prod.mk.injEq] at h; obtain ⟨_, rfl⟩ := h
        exact (hspec.2 _ _ he).1
      · next found st1 he =>
        simp only [Except.ok.injEq, Prod.mk.injEq] at h; obtain ⟨_, rfl⟩ := h
        exact (hspec.2 _ _ he).1
    refine ⟨hi.same hc hm hp, hc, hp, ?_⟩
    intro e he
    subst he
    refine ⟨?_, parseLinkLabel_end hq h⟩
    unfold parseLinkLabel at h
    simp only at h
    split at h
    · simp at h
    · simp at h
    · next found st1 hl =>
      simp only [Except.ok.injEq, Prod.mk.injEq] at h
      obtain ⟨h1, _⟩ := h
      split at h1
      · simp only [Option.some.injEq] at h1; subst h1
        have := (hspec.2 _ _ hl).2
        simpa using this
      · simp at h1

/-! ## `parse_link` -/

theorem slice_ok_of {src : List Char} {a b : Nat} (ha : Boundary src a) (hb : Boundary src b)
    (hab : a ≤ b) : ∃ w, slice src a b = .ok w := by
  obtain ⟨_, w, _, _, _, _, h⟩ := slice_of_boundaries ha hb hab
  exact ⟨w, h⟩

theorem liftR_liftOps_ok {α : Type} (a : α) :
    liftR (liftOps (Except.ok a : Except InlineOps.Panic α)) = .ok a := rfl

theorem parseLinkRef_T {cfg : Cfg} {skip : IState → Except Panic IState} (hq : CalmFn skip)
    (hs : SkipHypT skip) (fuel : Nat) (st : IState) (labelStart labelEnd : Nat) (hi : LInv st)
    (hls : Boundary st.src labelStart) (hle : labelStart ≤ labelEnd)
    (hend : ∃ r, slice st.src labelEnd st.posMax = .ok (']' :: r)) :
    NoRust (parseLinkRef cfg skip fuel st labelStart labelEnd) ∧
    ∀ o st', parseLinkRef cfg skip fuel st labelStart labelEnd = .ok (o, st') →
      MemoB st' ∧ (∀ res, o = some res → res.labelStart = labelStart ∧ res.labelEnd = labelEnd ∧
        labelEnd < res.endPos) := by
  obtain ⟨r0, hr0⟩ := hend
  obtain ⟨hle1, hb1⟩ := after_bracket hr0
  have hbe : Boundary st.src labelEnd := (slice_boundaries hr0).1
  obtain ⟨w, hw⟩ := slice_ok_of hb1 hi.bmax hle1
  have hbr : ∀ r1, w = '[' :: r1 →
      Boundary st.src (labelEnd + 1 + 1) ∧ labelEnd + 1 + 1 ≤ st.posMax := by
    intro r1 hr1
    subst hr1
    have e1 : ('[' : Char).utf8Size = 1 := by decide
    constructor
    · have := boundary_in_slice (u := ['[']) (v := r1) hw
      simpa [byteLen, e1] using this
    · have := (slice_boundaries hw).2.2
      simp only [byteLen, e1] at this; omega
  unfold parseLinkRef
  rw [hw, liftR_liftOps_ok]
  clear hw
  simp only
  -- the optional second label
  have hsecond : ∀ (w' : List Char),
      (∀ r1, w' = '[' :: r1 → Boundary st.src (labelEnd + 1 + 1) ∧ labelEnd + 1 + 1 ≤ st.posMax) →
      ∀ (second : Except Panic (Option (List Char) × Nat × IState)),
      second = (match w' with
        | '[' :: _ =>
          match parseLinkLabel skip fuel st (labelEnd + 1) false with
          | .error e => .error e
          | .ok (some x, st') =>
            match liftR (liftOps (slice st.src (labelEnd + 1 + 1) x)) with
            | .error e => .error e
            | .ok l => .ok (some l, x + 1, st')
          | .ok (none, st') => .ok (none, labelEnd + 1, st')
        | _ => .ok (none, labelEnd + 1, st)) →
      NoRust second ∧ ∀ ml pos st', second = .ok (ml, pos, st') → MemoB st' ∧ labelEnd < pos := by
    intro w' hbr' second hsec
    subst hsec
    have hdefault : NoRust (Except.ok (none, labelEnd + 1, st) :
          Except Panic (Option (List Char) × Nat × IState)) ∧
        ∀ ml pos st', (Except.ok (none, labelEnd + 1, st) :
          Except Panic (Option (List Char) × Nat × IState)) = .ok (ml, pos, st') →
          MemoB st' ∧ labelEnd < pos := by
      refine ⟨NoRust.ok _, ?_⟩
      intro ml pos st' h
      simp only [Except.ok.injEq, Prod.mk.injEq] at h
      obtain ⟨_, rfl, rfl⟩ := h
      exact ⟨hi.memo, by omega⟩
    rcases w' with _ | ⟨c, r1⟩
    · exact hdefault
    · by_cases hc : c = '['
      · subst hc
        obtain ⟨hb2, hle2⟩ := hbr' r1 rfl
        clear hbr'
        simp only
        have hlab := parseLinkLabel_T hq hs false fuel st (labelEnd + 1) hi hb2 hle2
        split
        · next e he =>
          refine ⟨?_, by intro ml pos st' h; simp at h⟩
          intro p hp; simp only [Except.error.injEq] at hp; subst hp; exact hlab.1 p he
        · next x st1 he =>
          obtain ⟨hi1, _, _, hx⟩ := hlab.2 _ _ he
          obtain ⟨hx1, rx, hrx⟩ := hx x rfl
          obtain ⟨l, hl⟩ := slice_ok_of hb2 (slice_boundaries hrx).1 hx1
          rw [hl, liftR_liftOps_ok]
          simp only
          refine ⟨NoRust.ok _, ?_⟩
          intro ml pos st' h
          simp only [Except.ok.injEq, Prod.mk.injEq] at h
          obtain ⟨_, rfl, rfl⟩ := h
          exact ⟨hi1.memo, by omega⟩
        · next st1 he =>
          obtain ⟨hi1, _, _, _⟩ := hlab.2 _ _ he
          refine ⟨NoRust.ok _, ?_⟩
          intro ml pos st' h
          simp only [Except.ok.injEq, Prod.mk.injEq] at h
          obtain ⟨_, rfl, rfl⟩ := h
          exact ⟨hi1.memo, by omega⟩
      · clear hbr'
        split
        · next heq =>
          simp only [List.cons.injEq] at heq
          exact absurd heq.1 hc
        · exact hdefault
  have hsec := hsecond w hbr _ rfl
  obtain ⟨lab, hlab⟩ := slice_ok_of hls hbe hle
  split
  · next e he =>
    refine ⟨?_, by intro o st' h; simp at h⟩
    intro p hp; simp only [Except.error.injEq] at hp; subst hp; exact hsec.1 p he
  · next ml pos st1 he =>
    obtain ⟨hm1, hpos⟩ := hsec.2 _ _ _ he
    split
    · refine ⟨NoRust.ok _, ?_⟩
      intro o st' h
      simp only [Except.ok.injEq, Prod.mk.injEq] at h; obtain ⟨rfl, rfl⟩ := h
      exact ⟨hm1, by intro res h; simp at h⟩
    · split
      · next e2 he2 =>
        exfalso
        revert he2
        rw [hlab, liftR_liftOps_ok]
        split <;> simp
      · split
        · refine ⟨NoRust.ok _, ?_⟩
          intro o st' h
          simp only [Except.ok.injEq, Prod.mk.injEq] at h; obtain ⟨rfl, rfl⟩ := h
          exact ⟨hm1, by intro res h; simp at h⟩
        · refine ⟨NoRust.ok _, ?_⟩
          intro o st' h
          simp only [Except.ok.injEq, Prod.mk.injEq] at h; obtain ⟨rfl, rfl⟩ := h
          refine ⟨hm1, ?_⟩
          intro res h
          simp only [Option.some.injEq] at h; subst h
          exact ⟨rfl, rfl, hpos⟩

/-- what a successful `parse_link` found -/
structure LinkResT (st : IState) (pos : Nat) (res : LinkRes) : Prop where
  labelStart : res.labelStart = pos + 1
  labelLe : res.labelStart ≤ res.labelEnd
  bracket : ∃ r, slice st.src res.labelEnd st.posMax = .ok (']' :: r)
  endGt : res.labelEnd < res.endPos
  endLe : res.endPos ≤ st.posMax
  endB : Boundary st.src res.endPos

theorem parseLink_T {cfg : Cfg} {skip : IState → Except Panic IState} (hq : CalmFn skip)
    (hs : SkipHypT skip) (fuel : Nat) (st : IState) (pos : Nat) (en : Bool) (hi : LInv st)
    (hb : Boundary st.src (pos + 1)) (hle : pos + 1 ≤ st.posMax) :
    NoRust (parseLink cfg skip fuel st pos en) ∧
    ∀ o st', parseLink cfg skip fuel st pos en = .ok (o, st') →
      LInv st' ∧ Calm st st' ∧ st'.pos = st.pos ∧ (∀ res, o = some res → LinkResT st pos res) := by
  have hlab := parseLinkLabel_T hq hs en fuel st pos hi hb hle
  have hok : ∀ o st', parseLink cfg skip fuel st pos en = .ok (o, st') → MemoB st' ∧
      (∀ res, o = some res → res.labelStart ≤ res.labelEnd ∧
        (∃ r, slice st.src res.labelEnd st.posMax = .ok (']' :: r)) ∧ res.labelEnd < res.endPos) := by
    intro o st' h
    unfold parseLink at h
    split at h
    · simp at h
    · next st1 he =>
      simp only [Except.ok.injEq, Prod.mk.injEq] at h; obtain ⟨rfl, rfl⟩ := h
      exact ⟨(hlab.2 _ _ he).1.memo, by intro res h; simp at h⟩
    · next labelEnd st1 he =>
      obtain ⟨hi1, hc1, hp1, hx⟩ := hlab.2 _ _ he
      obtain ⟨hx1, rx, hrx⟩ := hx labelEnd rfl
      simp only at h
      split at h
      · simp at h
      · next il hil =>
        simp only [Except.ok.injEq, Prod.mk.injEq] at h; obtain ⟨rfl, rfl⟩ := h
        refine ⟨hi1.memo, ?_⟩
        intro res h
        simp only [Option.some.injEq] at h; subst h
        have := tail_end_gt hil
        exact ⟨hx1, ⟨rx, hrx⟩, by simp only; omega⟩
      · have href := parseLinkRef_T (cfg := cfg) hq hs fuel st1 (pos + 1) labelEnd hi1
          (by rw [hc1.src]; exact hb) hx1 (by rw [hc1.src, hc1.posMax]; exact ⟨rx, hrx⟩)
        obtain ⟨hm2, hres⟩ := href.2 _ _ h
        refine ⟨hm2, ?_⟩
        intro res hr
        obtain ⟨r1, r2, r3⟩ := hres res hr
        rw [r1, r2]
        exact ⟨hx1, ⟨rx, hrx⟩, r3⟩
  constructor
  · unfold parseLink
    split
    · next e he =>
      intro p hp; simp only [Except.error.injEq] at hp; subst hp; exact hlab.1 p he
    · exact NoRust.ok _
    · next labelEnd st1 he =>
      obtain ⟨hi1, hc1, hp1, hx⟩ := hlab.2 _ _ he
      obtain ⟨hx1, rx, hrx⟩ := hx labelEnd rfl
      obtain ⟨hle1, hb1⟩ := after_bracket hrx
      obtain ⟨chars, hch⟩ := slice_ok_of (by rw [hc1.src]; exact hb1 : Boundary st1.src (labelEnd + 1))
        hi1.bmax (by rw [hc1.posMax]; exact hle1)
      obtain ⟨r, hr⟩ := Link.tail_total (Entity.unescapeAll cfg.entity) st1.src chars (labelEnd + 1)
        st1.posMax ((linkSlice_eq _ _ _ _).mpr hch)
      simp only
      rw [hr]
      cases r with
      | some il => exact NoRust.ok _
      | none =>
        simp only
        exact (parseLinkRef_T (cfg := cfg) hq hs fuel st1 (pos + 1) labelEnd hi1
          (by rw [hc1.src]; exact hb) hx1 (by rw [hc1.src, hc1.posMax]; exact ⟨rx, hrx⟩)).1
  · intro o st' h
    have hc := parseLink_calm hq h
    have hp := parseLink_pos h
    obtain ⟨hm, hres⟩ := hok o st' h
    refine ⟨hi.same hc hm hp, hc, hp, ?_⟩
    intro res hr
    subst hr
    obtain ⟨a, b, c⟩ := hres _ rfl
    obtain ⟨d, e⟩ := parseLink_end hq h
    exact ⟨parseLink_labelStart h, a, b, c, d, e⟩

/-! ## the link rule -/

/-- what `tokenize` guarantees on a good state (frame started at source offset `lo`) -/
structure TokT (st : IState) (r : Except Panic IState) : Prop where
  noRust : NoRust r
  ok : ∀ st', r = .ok st' → Frame st st' ∧ MemoB st' ∧ st'.pos ≤ st'.posMax

def TokHypT (tok : IState → Except Panic IState) : Prop :=
  ∀ lo s, Good lo s → MemoB s → TokT s (tok s)

theorem Good.linv {lo : Nat} {st : IState} (h : Good lo st) (hm : MemoB st) : LInv st :=
  ⟨h.le, h.bpos, h.bmax, h.map.wf, h.stop, hm⟩

/-- a calm step that leaves `pos` alone keeps the frame good -/
theorem Good.calm {lo : Nat} {st st' : IState} (h : Good lo st) (hc : Calm st st')
    (hp : st'.pos = st.pos) : Good lo st' := by
  refine ⟨by rw [hp, hc.posMax]; exact h.le, by rw [hp, hc.src]; exact h.bpos,
    by rw [hc.src, hc.posMax]; exact h.bmax, by rw [hc.src, hc.srcmap]; exact h.map,
    by rw [hc.src, hc.posMax]; exact h.stop, ?_, by rw [hc.bottoms]; exact h.bottoms⟩
  unfold RInv; rw [hc.src, hc.srcmap, hp, hc.children]; exact h.ri

/-- look-ahead mode -/
theorem linkRule_silent_T {cfg : Cfg} {skip tok : IState → Except Panic IState} (hq : CalmFn skip)
    (hs : SkipHypT skip) (fuel : Nat) (mk : List Nat → Option (List Char) → Val) (en : Bool)
    (offset : Nat) (st : IState) (hi : LInv st)
    (hb : Boundary st.src (st.pos + offset + 1)) (hle : st.pos + offset + 1 ≤ st.posMax) :
    NoRust (linkRule cfg skip tok fuel mk en offset st true) ∧
    ∀ o st', linkRule cfg skip tok fuel mk en offset st true = .ok (o, st') →
      LInv st' ∧ Calm st st' ∧ st'.pos = st.pos ∧ Advances st o := by
  have hpl := parseLink_T (cfg := cfg) hq hs fuel st (st.pos + offset) en hi hb hle
  unfold linkRule
  simp only
  split
  · next e he =>
    refine ⟨?_, by intro o st' h; simp at h⟩
    intro p hp; simp only [Except.error.injEq] at hp; subst hp; exact hpl.1 p he
  · next st1 he =>
    obtain ⟨a, b, c, _⟩ := hpl.2 _ _ he
    refine ⟨NoRust.ok _, ?_⟩
    intro o st' h
    simp only [Except.ok.injEq, Prod.mk.injEq] at h; obtain ⟨rfl, rfl⟩ := h
    exact ⟨a, b, c, by intro len h; simp at h⟩
  · next res st1 he =>
    obtain ⟨a, b, c, d⟩ := hpl.2 _ _ he
    have hres := d res rfl
    have h1 := hres.labelStart; have h2 := hres.labelLe; have h3 := hres.endGt
    simp only [if_true]
    rw [if_neg (by omega)]
    refine ⟨NoRust.ok _, ?_⟩
    intro o st' h
    simp only [Except.ok.injEq, Prod.mk.injEq] at h; obtain ⟨rfl, rfl⟩ := h
    refine ⟨a, b, c, ?_⟩
    intro len hl
    simp only [Option.some.injEq] at hl; subst hl
    have e : st.pos + (res.endPos - st1.pos) = res.endPos := by omega
    rw [e]
    exact ⟨by omega, hres.endLe, hres.endB⟩

/-- what a rule call in real mode leaves behind -/
structure StepT (lo : Nat) (st : IState) (o : Option Nat) (st' : IState) : Prop where
  good : Good lo { st' with pos := st'.pos + o.getD 0 }
  memo : MemoB st'
  frame : Frame st st'
  nonePos : o = none → st'.pos = st.pos
  adv : ∀ len, o = some len → st.pos < st'.pos + len

theorem isEntChar_bracket : isEntChar ']' = false := by decide

/-- real mode -/
theorem linkRule_real_T {cfg : Cfg} {skip tok : IState → Except Panic IState} (hq : CalmFn skip)
    (hs : SkipHypT skip) (ht : TokHypT tok) (hr : RangesFn tok) (fuel : Nat)
    (mk : List Nat → Option (List Char) → Val)
    (hmk : ∀ u t, ∀ c, mk u t ≠ .text c) (hmk2 : ∀ u t r cs, (Node.mk (mk u t) r cs).asMarker = none)
    (en : Bool) (offset : Nat) {lo : Nat} (st : IState) (hg : Good lo st) (hm : MemoB st)
    (hb : Boundary st.src (st.pos + offset + 1)) (hle : st.pos + offset + 1 ≤ st.posMax) :
    NoRust (linkRule cfg skip tok fuel mk en offset st false) ∧
    ∀ o st', linkRule cfg skip tok fuel mk en offset st false = .ok (o, st') → StepT lo st o st' := by
  have hi := hg.linv hm
  have hpl := parseLink_T (cfg := cfg) hq hs fuel st (st.pos + offset) en hi hb hle
  -- the nested frame
  have hnest : ∀ res st1, parseLink cfg skip fuel st (st.pos + offset) en = .ok (some res, st1) →
      ∃ lo', Good lo' (IState.mk st1.src st1.srcmap res.labelStart res.labelEnd
          (st1.level + 1) (st1.linkLevel + 1) st1.cache st1.backticks [] []) ∧
        MemoB (IState.mk st1.src st1.srcmap res.labelStart res.labelEnd
          (st1.level + 1) (st1.linkLevel + 1) st1.cache st1.backticks [] []) := by
    intro res st1 he
    obtain ⟨a, b, c, d⟩ := hpl.2 _ _ he
    have hres := d res rfl
    obtain ⟨rx, hrx⟩ := hres.bracket
    have hm1 : MapOK st1.src st1.srcmap := by rw [b.src, b.srcmap]; exact hg.map
    obtain ⟨lo', hlo'⟩ := C05.translate_total st1.srcmap hm1.wf res.labelStart
    refine ⟨lo', ⟨hres.labelLe, ?_, ?_, hm1, ?_, ?_, ?_⟩, a.memo⟩
    · show Boundary st1.src res.labelStart
      rw [b.src, hres.labelStart]; exact hb
    · show Boundary st1.src res.labelEnd
      rw [b.src]; exact (slice_boundaries hrx).1
    · show EntStop st1.src res.labelEnd
      intro pre c post hsrc hl
      obtain ⟨p, q, e, l1, _⟩ := (slice_ok_iff _ _ _ _).mp hrx
      rw [b.src] at hsrc
      have := C05.append_inj_byteLen pre (c :: post) p (']' :: rx ++ q)
        (by rw [← hsrc, e]; simp) (by rw [hl, l1])
      have hc : c = ']' := by
        have h2 := this.2
        simp only [List.cons_append, List.cons.injEq] at h2
        exact h2.1
      rw [hc]; exact isEntChar_bracket
    · exact ⟨⟨lo', hlo', Nat.le_refl _⟩, trivial, markersOK_nil, by intro init last hcs; simp at hcs⟩
    · intro k l hkl; simp at hkl
  constructor
  · unfold linkRule
    simp only
    split
    · next e he =>
      intro p hp; simp only [Except.error.injEq] at hp; subst hp; exact hpl.1 p he
    · exact NoRust.ok _
    · next res st1 he =>
      obtain ⟨a, b, c, d⟩ := hpl.2 _ _ he
      have hres := d res rfl
      obtain ⟨lo', hg2, hm2⟩ := hnest res st1 he
      have htk := ht lo' _ hg2 hm2
      simp only [Bool.false_eq_true, if_false]
      split
      · next e2 he2 =>
        intro p hp; simp only [Except.error.injEq] at hp; subst hp; exact htk.noRust p he2
      · next st3 he3 =>
        obtain ⟨f3, m3, hle3⟩ := htk.ok st3 he3
        have hlev : st3.level = st1.level + 1 := f3.level
        rw [if_neg (by omega)]
        have hpm3 : st3.posMax = res.labelEnd := f3.posMax
        have h1 := hres.labelStart; have h2 := hres.labelLe; have h3 := hres.endGt
        obtain ⟨x, y, hxy, _, _⟩ := getMap_ok (st := st3) (by rw [f3.srcmap]; exact a.wf)
          (by omega : st.pos ≤ res.endPos)
        rw [hxy]
        simp only [liftR]
        rw [if_neg (by omega)]
        exact NoRust.ok _
  · intro o st' h
    have hstep := linkRule_ranges hq hr hmk hmk2 hg.map hg.ri h
    have hbnd : ∀ len, o = some len → st'.pos + len ≤ st.posMax ∧ Boundary st.src (st'.pos + len) := by
      intro len hl; subst hl; exact linkRule_bounds hq h
    -- the remaining fields
    have hrest : MemoB st' ∧ st'.posMax = st.posMax ∧ st'.level = st.level ∧
        st'.linkLevel = st.linkLevel ∧ st'.bottoms = st.bottoms ∧ (o = none → st'.pos = st.pos) ∧
        (∀ len, o = some len → st.pos < st'.pos + len) := by
      unfold linkRule at h
      simp only at h
      split at h
      · simp at h
      · next st1 he =>
        obtain ⟨a, b, c, d⟩ := hpl.2 _ _ he
        simp only [Except.ok.injEq, Prod.mk.injEq] at h; obtain ⟨rfl, rfl⟩ := h
        exact ⟨a.memo, b.posMax, b.level, b.linkLevel, b.bottoms, fun _ => c, by intro len h; simp at h⟩
      · next res st1 he =>
        obtain ⟨a, b, c, d⟩ := hpl.2 _ _ he
        have hres := d res rfl
        obtain ⟨lo', hg2, hm2⟩ := hnest res st1 he
        have htk := ht lo' _ hg2 hm2
        simp only [Bool.false_eq_true, if_false] at h
        split at h
        · simp at h
        · next st3 he3 =>
          obtain ⟨f3, m3, hle3⟩ := htk.ok st3 he3
          have hlev : st3.level = st1.level + 1 := f3.level
          have hsrc3 : st3.src = st1.src := f3.src
          have hll : st3.linkLevel = st1.linkLevel + 1 := f3.linkLevel
          split at h
          · simp at h
          · split at h
            · simp at h
            · split at h
              · simp at h
              · next hnu =>
                simp only [Except.ok.injEq, Prod.mk.injEq] at h; obtain ⟨rfl, rfl⟩ := h
                have h1 := hres.labelStart; have h2 := hres.labelLe; have h3 := hres.endGt
                refine ⟨?_, b.posMax, ?_, ?_, b.bottoms, by intro h; simp at h, ?_⟩
                · intro k v hkv
                  have := m3 k v hkv
                  simpa using this
                · simp only; rw [hlev]; simp only [Nat.add_sub_cancel]; exact b.level
                · simp only; rw [hll]
                  have := b.linkLevel
                  omega
                · intro len hl
                  simp only [Option.some.injEq] at hl; subst hl
                  simp only at hnu ⊢
                  omega
    obtain ⟨r1, r2, r3, r3', r4, r5, r6⟩ := hrest
    refine ⟨⟨?_, ?_, ?_, ?_, ?_, ?_, ?_⟩, r1, ⟨hstep.src, hstep.srcmap, r2, r3, r3'⟩, r5, r6⟩
    · show st'.pos + o.getD 0 ≤ st'.posMax
      rw [r2]
      cases o with
      | none => simp only [Option.getD_none, Nat.add_zero]; rw [r5 rfl]; exact hg.le
      | some len => exact (hbnd len rfl).1
    · show Boundary st'.src (st'.pos + o.getD 0)
      rw [hstep.src]
      cases o with
      | none => simp only [Option.getD_none, Nat.add_zero]; rw [r5 rfl]; exact hg.bpos
      | some len => exact (hbnd len rfl).2
    · show Boundary st'.src st'.posMax
      rw [hstep.src, r2]; exact hg.bmax
    · show MapOK st'.src st'.srcmap
      rw [hstep.src, hstep.srcmap]; exact hg.map
    · show EntStop st'.src st'.posMax
      rw [hstep.src, r2]; exact hg.stop
    · show RI st'.src st'.srcmap lo (st'.pos + o.getD 0) st'.children
      rw [hstep.src, hstep.srcmap]; exact hstep.ri
    · show BottomsOK st'.bottoms
      rw [r4]; exact hg.bottoms

end MdIt.Inline
