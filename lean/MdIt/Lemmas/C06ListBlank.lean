/-
  C06, list half — the tokenizer simulation of `Lemmas/C06ListSim.lean` without any hypothesis on where
  the run starts: whatever the `tight` flags were at the start, at the end either they agree (the loop
  ran the chain at least once and overwrote them) or no block was parsed (`children` unchanged).
-/
import MdIt.Props.C06List
set_option linter.unusedSimpArgs false
set_option linter.unusedVariables false

namespace MdIt.Block.Li
open MdIt.Lines (LineOffset NoTerm AllBlank lead mkOff)

section tokany
variable {C : Ctx}

theorem Sim.downgrade {lo d : Nat} {s s' : BState} (S : Sim C lo d true s s') (te : Bool) : Sim C lo d te s s' :=
  ⟨S.tbl, S.line, S.lineMax, fun _ => S.tight rfl, S.listIndent, S.level, S.nodeKind, S.children, S.refs⟩

/-- the tokenizer loop from ANY related pair of states: related final states, and either the `tight` flags
    agree at the end or the run on `D` parsed no block -/
theorem tokLoop_sim_any {cfg cfg' : Cfg} (hc : cfg'.chain = cfg.chain) (hm : cfg'.maxNesting = cfg.maxNesting + 2)
    {run run' : RuleId → BState → Bool → Res} (hr : RunSpec run) (R : RunSim C run run') {lo d : Nat} {te : Bool}
    {fuel : Nat} {he : Bool} {s s' t : BState} (S : Sim C lo d te s s') (hlo : lo ≤ s.line)
    (h : tokLoop cfg run fuel he s = .ok t) :
    ∃ t', tokLoop cfg' run' fuel he s' = .ok t' ∧ Sim C lo d te t t' ∧
      (t'.tight = t.tight ∨ t.children = s.children) := by
  cases fuel with
  | zero => simp [tokLoop] at h
  | succ f =>
    simp only [tokLoop] at h ⊢
    have hl'lo : s.line ≤ Lines.skipEmptyLines s.offs s.lineMax s.line := (skipEmpty_spec _ _ _).1
    generalize hl' : Lines.skipEmptyLines s.offs s.lineMax s.line = l' at h hl'lo
    have hskip : Lines.skipEmptyLines s'.offs s'.lineMax s'.line = l' := by
      rw [S.lineMax, S.line, ← hl']
      exact skipEmpty_congr (fun n => S.tbl.isEmpty n) _ _
    have hc1 : (s'.line < s'.lineMax) = (s.line < s.lineMax) := by rw [S.line, S.lineMax]
    have hc2 : (l' ≥ s'.lineMax) = (l' ≥ s.lineMax) := by rw [S.lineMax]
    have hc3 : (s'.level ≥ cfg'.maxNesting) = (s.level ≥ cfg.maxNesting) := by
      rw [S.level, hm]; simp
    simp only [hskip, hc, hc1, hc2, hc3]
    have Sl := S.setLine l'
    clear hl' hskip
    by_cases hge : l' ≥ s.lineMax
    · crack h
      all_goals (try subst_vars)
      · replay_li
        exact ⟨_, rfl, S, by simp⟩
      · replay_li
        exact ⟨_, rfl, Sl, by simp⟩
    · have hlt' : l' < s.lineMax := by omega
      have hind' := Sl.tbl.lineIndent l' (by omega) hlt'
      crack h
      · subst_vars
        replay_li
        exact ⟨_, rfl, S, by simp⟩
      · subst_vars
        replay_li
        exact ⟨_, rfl, Sl, by simp⟩
      · subst_vars
        replay_li
        refine ⟨_, rfl, ?_, by simp⟩
        exact ⟨S.tbl.of_eq rfl rfl rfl rfl rfl rfl rfl, S.lineMax, S.lineMax, S.tight, S.listIndent, S.level, S.nodeKind,
          S.children, S.refs⟩
      all_goals (
        have hchain := ‹runChain _ _ _ _ = _›
        have hafter := ‹afterChain _ _ _ = _›
        have hind := ‹BState.lineIndent _ _ = _›
        have hpsub := ‹psub _ 1 = _›
        rename_i w _ s3 _ _ _ _
        obtain ⟨b, s2⟩ := w
        have hiok : IndentOk ({ s with line := l' } : BState) := ⟨_, hind, by omega⟩
        obtain ⟨s2', hchain', Sw⟩ := runChain_sim hr R _ _ _ _ _ Sl (by simp only; omega) (by simp only; omega) hiok hchain
        obtain ⟨hfs, _⟩ := runChain_real hr _ _ _ _ hchain
        obtain ⟨s3', hafter', S3⟩ := afterChain_sim Sw (fun hb => by
          have := hfs hb
          subst this
          exact ⟨by simp only; omega, by simp only; omega⟩) hafter
        obtain ⟨_, hadv, _⟩ := tok_iter hr (s1 := { s with line := l' }) (w := (b, s2)) (s3 := s3) rfl
          (by simp only; omega) hiok hchain hafter
        have T3 : Tbl C lo d { s3 with tight := !he } { s3' with tight := !he } := S3.tbl.of_eq rfl rfl rfl rfl rfl rfl rfl
        have hpsub' := (show psub s3'.line 1 = psub s3.line 1 by rw [S3.line]).trans hpsub
        have hcA : (s3'.line < s3'.lineMax) = (s3.line < s3.lineMax) := by rw [S3.line, S3.lineMax]
        have hemp := T3.isEmpty
        simp only at hchain' hafter' hadv
        replay_li
        try simp only [hemp, S3.line]
        try replay_li)
      · obtain ⟨t', ht', St⟩ := tokLoop_sim hc hm hr R _ _ _ _ _
          (by have := (S3.setLineTight (s3.line + 1) (!he)).upgrade rfl; simpa using this) (by simp only; omega) h
        exact ⟨t', ht', St.downgrade te, .inl (St.tight rfl)⟩
      · obtain ⟨t', ht', St⟩ := tokLoop_sim hc hm hr R _ _ _ _ _
          (by have := (S3.setLineTight s3.line (!he)).upgrade rfl; simpa using this) (by simp only; omega) h
        exact ⟨t', ht', St.downgrade te, .inl (St.tight rfl)⟩

/-- **the tokenizer nested in the list item on the prefixed document simulates the tokenizer on `D`, from
    any related start**: either the `tight` flags agree at the end, or the run on `D` parsed no block -/
theorem tokenize_sim_any {cfg cfg' : Cfg} (R : CfgRel cfg cfg') {fuel lo d : Nat} {te : Bool} {s s' t : BState}
    (S : Sim C lo d te s s') (hlo : lo ≤ s.line) (h : tokenize cfg fuel s = .ok t) :
    ∃ t', tokenize cfg' fuel s' = .ok t' ∧ Sim C lo d te t t' ∧ (t'.tight = t.tight ∨ t.children = s.children) := by
  cases fuel with
  | zero => simp [tokenize, engine] at h
  | succ f =>
    simp only [tokenize, engine] at h ⊢
    have hk := tokenize_tokSpec cfg f
    have hk' := tokenize_tokSpec cfg' f
    have TS := testRules_sim (C := C) R f
    exact tokLoop_sim_any R.chain R.nesting (runRule_spec hk TS.pure _)
      (runRule_sim R hk hk' (tokenize_sim R f) TS _) S hlo h
end tokany

end MdIt.Block.Li
