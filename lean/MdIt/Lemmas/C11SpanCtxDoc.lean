/-
  C11, code SPANS, paragraph lines in front of the opening line / behind the closing line — DOCUMENT level
  (`Props/C11SpanCtx.lean`, part 2): the inline nodes of `C11X.parseInline_mid` as nodes of the document, through
  the join pass, `SyntaxPosRule`, the renderer and the serializer.

    nodes        `sbR` (the `Softbreak` node), `linesR` (text, break, text, …), `midNodes`
    join         `fragmentsJoin_of_alt` (a general fixpoint criterion: no marker, no two adjacent texts, no empty
                 text), `joinFix_midNodes`
    sourcepos    `sourcepos_midNodes`
    render       `linesE`, `midEvents`, `renderList_midNodes` (a soft break is the trait call `cr`)
    serializer   `InlOut` (inline events behind an opening tag append a fixed HTML), `out_linesE`: a `cr` between two
                 texts appends ONE line feed, so the lines render as `escapeHtml (docOf As)`; `inlOut_mid`;
                 `blocky_inlForest` (`C11N.blocky_spanForest` for any `InlOut` events)
-/
import MdIt.Lemmas.C11SpanCtxInline
import MdIt.Lemmas.C11SpanMultiDoc
set_option linter.unusedSimpArgs false
set_option linter.unusedVariables false

namespace MdIt.C11X
open MdIt.Block MdIt.Block.Li MdIt.Pipeline MdIt.C11N MdIt.C11M
open MdIt.Lines (NoTerm lead)
open MdIt.Render (Event piece piecesFrom flatten solAfter attrsStr escapeHtml)
open MdIt.NodeRender (aSourcepos tP tCode tBlockquote tUl tOl tLi olAttrs)
open MdIt.C11S (PlainTxt)

/-! ## 1. the nodes -/

/-- the `Softbreak` node over the source range `r` -/
def sbR (att : Nat × Nat → List (List Char × List Char)) (r : Nat × Nat) : Node := ⟨.inl .softbreak, some r, att r, []⟩

/-- the nodes of the plain lines `As` from inline offset `p`: `Text`, `Softbreak`, `Text`, … -/
def linesR (att : Nat × Nat → List (List Char × List Char)) (tr : Nat → Nat) : Nat → List (List Char) → List Node
  | _, [] => []
  | p, [A] => txtR att (tr p, tr (p + Lines.byteLen A)) A
  | p, A :: B :: r =>
    txtR att (tr p, tr (p + Lines.byteLen A)) A ++
      sbR att (tr (p + Lines.byteLen A), tr (p + Lines.byteLen A + 1)) :: linesR att tr (p + Lines.byteLen A + 1) (B :: r)

/-- the children of the paragraph: the lines in front, the code span, the lines behind -/
def midNodes (att : Nat × Nat → List (List Char × List Char)) (tr : Nat → Nat) (k : Nat) (As : List (List Char))
    (R : List Char) (Bs : List (List Char)) : List Node :=
  linesR att tr 0 As ++
    [codeR att k (spanRange tr k (docOf As) R) (innerRange tr k (docOf As) R) (spanContent R)] ++
    linesR att tr (Lines.byteLen (docOf As) + (2 * (k + 1) + Lines.byteLen R)) Bs

theorem ofInlineList_linesInl (tr : Nat → Nat) : ∀ (As : List (List Char)) (p : Nat),
    ofInlineList (linesInl tr p As) = linesR (fun _ => []) tr p As
  | [], _ => rfl
  | [A], p => by simp only [linesInl, linesR, ofInlineList_textNodesT]
  | A :: B :: r, p => by
    have ih := ofInlineList_linesInl tr (B :: r) (p + Lines.byteLen A + 1)
    rw [C05I.linesLen_eq] at ih
    simp only [linesInl, linesR, ofInlineList_append, ofInlineList_textNodesT, ofInlineList, C05I.linesLen_eq, ih]
    simp [ofInline, brkNode, sbR, Inline.Node.leaf, ofInlineList]

theorem ofInlineList_mid (tr : Nat → Nat) (k : Nat) (As : List (List Char)) (R : List Char) (Bs : List (List Char)) :
    ofInlineList (linesInl tr 0 As ++ [codeNodeR tr (InlineOps.byteLen (docOf As)) k R] ++
      linesInl tr (InlineOps.byteLen (docOf As) + (2 * (k + 1) + InlineOps.byteLen R)) Bs) =
      midNodes (fun _ => []) tr k As R Bs := by
  rw [ofInlineList_append, ofInlineList_append, ofInlineList_linesInl, ofInlineList_linesInl]
  simp [ofInlineList, ofInline, codeNodeR, codeR, midNodes, spanRange, innerRange, Inline.Node.newText,
    C05I.linesLen_eq]

/-! ## 2. `FragmentsJoin` -/

/-- no two adjacent text nodes -/
def Alt : List Node → Prop
  | [] => True
  | [_] => True
  | a :: b :: r => (a.isText && b.isText) = false ∧ Alt (b :: r)

theorem mergeLoop_alt : ∀ (rest : List Node) (cur : Node), Alt (cur :: rest) → mergeLoop cur rest = cur :: rest
  | [], _, _ => rfl
  | nxt :: rest, cur, h => by
    rw [mergeLoop, h.1]
    simp only [Bool.false_eq_true, if_false]
    rw [mergeLoop_alt rest nxt h.2]

/-- **a fixpoint criterion for `fragments_join`**: no emphasis marker left, no two adjacent texts, no empty text -/
theorem fragmentsJoin_of_alt (cs : List Node) (h1 : ∀ c ∈ cs, markerToText c = c) (h2 : Alt cs)
    (h3 : ∀ c ∈ cs, keep c = true) : fragmentsJoin cs = cs := by
  have hp : pass1 cs = cs := by
    unfold pass1
    conv => rhs; rw [← List.map_id cs]
    exact List.map_congr_left (fun c hc => by simpa using h1 c hc)
  have hm : mergeAll cs = cs := by
    cases cs with
    | nil => rfl
    | cons c r => exact mergeLoop_alt r c h2
  unfold fragmentsJoin
  rw [hp, hm]
  exact List.filter_eq_self.mpr h3

theorem alt_cons_nontext {m : Node} (hm : m.isText = false) {l : List Node} (h : Alt l) : Alt (m :: l) := by
  cases l with
  | nil => trivial
  | cons b r => exact ⟨by simp [hm], h⟩

theorem alt_txtR_cons (att : Nat × Nat → List (List Char × List Char)) (rg : Nat × Nat) (s : List Char) {m : Node}
    (hm : m.isText = false) {l : List Node} (h : Alt (m :: l)) : Alt (txtR att rg s ++ m :: l) := by
  unfold txtR
  split
  · exact h
  · exact ⟨by simp [hm], h⟩

theorem sbR_isText (att : Nat × Nat → List (List Char × List Char)) (rg : Nat × Nat) : (sbR att rg).isText = false := rfl

theorem alt_linesR_cons (att : Nat × Nat → List (List Char × List Char)) (tr : Nat → Nat) {m : Node}
    (hm : m.isText = false) {l : List Node} (h : Alt (m :: l)) :
    ∀ (As : List (List Char)) (p : Nat), Alt (linesR att tr p As ++ m :: l)
  | [], _ => h
  | [A], p => alt_txtR_cons att _ A hm h
  | A :: B :: r, p => by
    have ih := alt_linesR_cons att tr hm h (B :: r) (p + Lines.byteLen A + 1)
    simp only [linesR, List.append_assoc, List.cons_append]
    exact alt_txtR_cons att _ A (sbR_isText att _) (alt_cons_nontext (sbR_isText att _) ih)

theorem alt_linesR (att : Nat × Nat → List (List Char × List Char)) (tr : Nat → Nat) :
    ∀ (As : List (List Char)) (p : Nat), Alt (linesR att tr p As)
  | [], _ => trivial
  | [A], p => by
    simp only [linesR, txtR]
    split <;> trivial
  | A :: B :: r, p => by
    have ih := alt_linesR att tr (B :: r) (p + Lines.byteLen A + 1)
    simp only [linesR]
    exact alt_txtR_cons att _ A (sbR_isText att _) (alt_cons_nontext (sbR_isText att _) ih)

/-- what the nodes of `linesR` are -/
theorem mem_linesR (att : Nat × Nat → List (List Char × List Char)) (tr : Nat → Nat) :
    ∀ (As : List (List Char)) (p : Nat) (c : Node), c ∈ linesR att tr p As →
      (∃ s rg, s ≠ [] ∧ c = ⟨.inl (.text s), some rg, att rg, []⟩) ∨ ∃ rg, c = sbR att rg
  | [], _, c, h => by simp [linesR] at h
  | [A], p, c, h => by
    simp only [linesR, txtR] at h
    split at h
    · simp at h
    · rename_i hne
      simp only [List.mem_singleton] at h
      exact .inl ⟨A, _, hne, h⟩
  | A :: B :: r, p, c, h => by
    simp only [linesR, List.mem_append, List.mem_cons] at h
    rcases h with h | h | h
    · simp only [txtR] at h
      split at h
      · simp at h
      · rename_i hne
        simp only [List.mem_singleton] at h
        exact .inl ⟨A, _, hne, h⟩
    · exact .inr ⟨_, h⟩
    · exact mem_linesR att tr (B :: r) _ c h

theorem joinNode_sbR (att : Nat × Nat → List (List Char × List Char)) (rg : Nat × Nat) : joinNode (sbR att rg) = sbR att rg :=
  joinNode_of_fix _ _ _ _ ⟨rfl, by simp [joinList_eq_map]⟩

theorem joinFix_midNodes (att : Nat × Nat → List (List Char × List Char)) (tr : Nat → Nat) (k : Nat)
    (As : List (List Char)) (R : List Char) (Bs : List (List Char)) (hR : R ≠ []) :
    JoinFix (midNodes att tr k As R Bs) := by
  have hC := spanContent_ne_nil hR
  have hcode : (codeR att k (spanRange tr k (docOf As) R) (innerRange tr k (docOf As) R) (spanContent R)).isText = false := rfl
  have hmem : ∀ c ∈ midNodes att tr k As R Bs,
      (∃ s rg, s ≠ [] ∧ c = ⟨.inl (.text s), some rg, att rg, []⟩) ∨ (∃ rg, c = sbR att rg) ∨
        c = codeR att k (spanRange tr k (docOf As) R) (innerRange tr k (docOf As) R) (spanContent R) := by
    intro c hc
    simp only [midNodes, List.mem_append, List.mem_singleton] at hc
    rcases hc with (hc | hc) | hc
    · rcases mem_linesR att tr As _ c hc with h | h
      · exact .inl h
      · exact .inr (.inl h)
    · exact .inr (.inr hc)
    · rcases mem_linesR att tr Bs _ c hc with h | h
      · exact .inl h
      · exact .inr (.inl h)
  refine ⟨fragmentsJoin_of_alt _ ?_ ?_ ?_, ?_⟩
  · intro c hc
    rcases hmem c hc with ⟨s, rg, _, rfl⟩ | ⟨rg, rfl⟩ | rfl <;> rfl
  · simp only [midNodes, List.append_assoc, List.singleton_append]
    exact alt_linesR_cons att tr hcode (alt_cons_nontext hcode (alt_linesR att tr Bs _)) As 0
  · intro c hc
    rcases hmem c hc with ⟨s, rg, hs, rfl⟩ | ⟨rg, rfl⟩ | rfl
    · simp [keep, Node.isText, Node.content, hs]
    · rfl
    · rfl
  · rw [joinList_eq_map]
    conv => rhs; rw [← List.map_id (midNodes att tr k As R Bs)]
    apply List.map_congr_left
    intro c hc
    rcases hmem c hc with ⟨s, rg, hs, rfl⟩ | ⟨rg, rfl⟩ | rfl
    · simp [joinNode_text]
    · simp [joinNode_sbR]
    · simp [joinNode_codeR att k _ _ _ hC]

/-! ## 3. `SyntaxPosRule` -/

theorem sourcepos_linesR (src : List Char) (tr : Nat → Nat) : ∀ (As : List (List Char)) (p : Nat),
    sourceposList src (SourceMap.mkMarks src) (linesR (fun _ => []) tr p As) = .ok (linesR (spOn src) tr p As)
  | [], _ => rfl
  | [A], p => sourcepos_txtR src _ A
  | A :: B :: r, p => by
    have ih := sourcepos_linesR src tr (B :: r) (p + Lines.byteLen A + 1)
    simp only [linesR]
    refine sourceposList_append _ _ _ _ _ _ (sourcepos_txtR src _ A) ?_
    simp [sourceposList, sourceposNode, sourceposAttrs_eq, spOn, sbR, ih]

theorem sourcepos_midNodes (src : List Char) (tr : Nat → Nat) (k : Nat) (As : List (List Char)) (R : List Char)
    (Bs : List (List Char)) :
    sourceposList src (SourceMap.mkMarks src) (midNodes (fun _ => []) tr k As R Bs) =
      .ok (midNodes (spOn src) tr k As R Bs) := by
  unfold midNodes
  refine sourceposList_append _ _ _ _ _ _ (sourceposList_append _ _ _ _ _ _ (sourcepos_linesR _ _ _ _) ?_)
    (sourcepos_linesR _ _ _ _)
  simp [sourceposList, sourcepos_codeR]

/-! ## 4. the renderer -/

/-- the trait calls of the lines: `text`, `cr`, `text`, … -/
def linesE : List (List Char) → List Event
  | [] => []
  | [A] => txtE A
  | A :: B :: r => txtE A ++ .cr :: linesE (B :: r)

/-- the trait calls of the paragraph's children -/
def midEvents (a : List (List Char × List Char)) (As : List (List Char)) (C : List Char) (Bs : List (List Char)) :
    List Event :=
  linesE As ++ [.open tCode a, .text C, .close tCode] ++ linesE Bs

theorem renderList_linesR (lookup : List Char → Option (List Char)) (lp : List Char)
    (att : Nat × Nat → List (List Char × List Char)) (tr : Nat → Nat) : ∀ (As : List (List Char)) (p : Nat),
    NodeRender.renderList lookup (toRenderList lp (linesR att tr p As)) = .ok (linesE As)
  | [], _ => rfl
  | [A], p => renderList_txtR lookup lp att _ A
  | A :: B :: r, p => by
    have ih := renderList_linesR lookup lp att tr (B :: r) (p + Lines.byteLen A + 1)
    simp only [linesR, linesE, toRenderList_append]
    refine renderList_append _ _ _ _ _ (renderList_txtR lookup lp att _ A) ?_
    simp [toRenderList, toRender, Kind.toRender, NodeRender.renderList, NodeRender.render, sbR, ih]

theorem renderList_midNodes (lookup : List Char → Option (List Char)) (lp : List Char)
    (att : Nat × Nat → List (List Char × List Char)) (tr : Nat → Nat) (k : Nat) (As : List (List Char)) (R : List Char)
    (Bs : List (List Char)) :
    NodeRender.renderList lookup (toRenderList lp (midNodes att tr k As R Bs)) =
      .ok (midEvents (att (spanRange tr k (docOf As) R)) As (spanContent R) Bs) := by
  unfold midNodes midEvents
  rw [toRenderList_append, toRenderList_append]
  refine renderList_append _ _ _ _ _ (renderList_append _ _ _ _ _ (renderList_linesR _ _ _ _ _ _) ?_)
    (renderList_linesR _ _ _ _ _ _)
  simp [codeR, toRenderList, toRender, Kind.toRender, NodeRender.renderList, NodeRender.render, NodeRender.wrap]

/-! ## 5. the serializer -/

/-- inline trait calls that, behind an opening tag (buffer not at the start of a line), append the HTML `H`
    whatever follows -/
def InlOut (x : Bool) (ev : List Event) (H : List Char) : Prop :=
  ∀ (r : List Event) (T : List Char), (∀ s', out x s' r = T) → out x false (ev ++ r) = H ++ T

/-- the pieces can be serialized from a buffer in state `sol`: no line feed in a piece, and a `cr` never meets a
    buffer at the start of a line — no piece in front of a `cr` is empty unless the buffer is known not to be there -/
def OutOk : Bool → List (List Char) → Prop
  | _, [] => True
  | _, [A] => '\n' ∉ A
  | sol, A :: B :: r => '\n' ∉ A ∧ (sol = true → A ≠ []) ∧ OutOk true (B :: r)

instance : ∀ (sol : Bool) (As : List (List Char)), Decidable (OutOk sol As)
  | _, [] => isTrue trivial
  | _, [A] => by unfold OutOk; infer_instance
  | sol, A :: B :: r => by
    have := instDecidableOutOk true (B :: r)
    unfold OutOk; infer_instance

theorem escapeHtml_append : ∀ (a b : List Char), escapeHtml (a ++ b) = escapeHtml a ++ escapeHtml b
  | [], _ => rfl
  | c :: r, b => by simp [Render.escapeHtml, escapeHtml_append r b]

theorem solAfter_escapeChar (s : Bool) (c : Char) (hc : c ≠ '\n') : solAfter s (Render.escapeChar c) = false := by
  unfold Render.escapeChar
  split
  · rfl
  · split
    · rfl
    · split
      · rfl
      · split
        · rfl
        · simp [solAfter, hc]

theorem solAfter_escape : ∀ (A : List Char) (s : Bool), '\n' ∉ A → solAfter s (escapeHtml A) = (if A = [] then s else false)
  | [], s, _ => rfl
  | c :: r, s, h => by
    have hc : c ≠ '\n' := fun e => h (by simp [e])
    have hr : '\n' ∉ r := fun e => h (List.mem_cons_of_mem _ e)
    rw [Render.escapeHtml, Render.solAfter_append, solAfter_escapeChar s c hc, solAfter_escape r false hr]
    simp

/-- **the serializer on plain lines**: every `cr` between two pieces appends ONE line feed — the lines come out as
    the escaped text with its line feeds -/
theorem out_linesE (x : Bool) (r : List Event) (H : List Char) (hr : ∀ s', out x s' r = H) :
    ∀ (As : List (List Char)) (sol : Bool), OutOk sol As → out x sol (linesE As ++ r) = escapeHtml (docOf As) ++ H
  | [], sol, _ => by simpa [linesE, docOf, Lines.joinLines, Render.escapeHtml] using hr sol
  | [A], sol, _ => by
    have hd : docOf [A] = A := by simp [docOf, Lines.joinLines]
    rw [hd, linesE, out_txtE x sol A r (fun _ => H) hr]
  | A :: B :: rr, sol, ⟨hA, hsol, hrest⟩ => by
    have ih := out_linesE x r H hr (B :: rr) true hrest
    have hs : solAfter sol (escapeHtml A) = false := by
      rw [solAfter_escape A sol hA]
      split
      · rename_i hnil
        cases sol with
        | false => rfl
        | true => exact absurd hnil (hsol rfl)
      · rfl
    simp only [linesE, List.append_assoc, List.cons_append]
    rw [out_txtE x sol A _ (fun s' => out x s' (.cr :: (linesE (B :: rr) ++ r))) (fun _ => rfl), hs, out_cons,
      piece_cr]
    simp only [Bool.false_eq_true, if_false]
    rw [show solAfter false ['\n'] = true from rfl, ih, docOf_cons2, escapeHtml_append]
    simp [Render.escapeHtml, Render.escapeChar, List.append_assoc]

/-- the HTML of the paragraph's children: the inline HTML of `C11N.inlHtml` with the lines joined by line feeds -/
theorem inlOut_mid (x : Bool) (a : List (List Char × List Char)) (As : List (List Char)) (C : List Char)
    (Bs : List (List Char)) (hA : OutOk false As) (hB : OutOk false Bs) :
    InlOut x (midEvents a As C Bs) (inlHtml a (docOf As) C (docOf Bs)) := by
  intro r T hr
  have h2 : ∀ s', out x s' ([.open tCode a, .text C, .close tCode] ++ (linesE Bs ++ r)) =
      openTag tCode a ++ escapeHtml C ++ closeTag tCode ++ escapeHtml (docOf Bs) ++ T := by
    intro s'
    simp only [List.cons_append, List.nil_append, out_cons, sol_close]
    rw [out_linesE x r T hr Bs false hB]
    simp [piece, openTag, closeTag, List.append_assoc]
  unfold midEvents inlHtml
  rw [List.append_assoc, List.append_assoc, out_linesE x _ _ h2 As false hA]
  simp [List.append_assoc]

/-- the paragraph: `cr; open p; …; close p; cr` -/
theorem blocky_para_inl (x : Bool) (ap : List (List Char × List Char)) {ev : List Event} {H : List Char}
    (h : InlOut x ev H) :
    Blocky x (leafEvents ap false ev) (openTag tP ap ++ H ++ closeTag tP ++ ['\n']) := by
  refine ⟨Block.getLast?_snoc _ _, ?_⟩
  intro sol
  have hpost : ∀ s, out x s [.close tP, .cr] = closeTag tP ++ ['\n'] := by
    intro s
    simp only [out_cons, out_nil, sol_close, piece_cr, List.append_nil]
    simp [piece, closeTag]
  simp only [leafEvents, Bool.false_eq_true, if_false, List.cons_append, List.nil_append, out_cons, piece_cr, sol_open]
  rw [h _ _ hpost]
  simp [piece, openTag, List.append_assoc]

/-- the tight item: `open li; …; close li; cr` at the start of a line -/
theorem out_tight_item_inl (x : Bool) (al : List (List Char × List Char)) {ev : List Event} {H : List Char}
    (h : InlOut x ev H) :
    out x true ([.open tLi al] ++ ev ++ [.close tLi, .cr]) = openTag tLi al ++ H ++ closeTag tLi ++ ['\n'] := by
  have hpost : ∀ s, out x s [.close tLi, .cr] = closeTag tLi ++ ['\n'] := by
    intro s
    simp only [out_cons, out_nil, sol_close, piece_cr, List.append_nil]
    simp [piece, closeTag]
  simp only [List.cons_append, List.nil_append, out_cons, sol_open]
  rw [h _ _ hpost]
  simp [piece, openTag, List.append_assoc]

theorem blocky_tight_inl (xh : Bool) (x : Wrapper) (hq : x.isQuote = false) (al : List (List Char × List Char))
    {ev : List Event} {H : List Char} (h : InlOut xh ev H) :
    Blocky xh (x.events al ev) (x.htmlTight al H) := by
  cases x with
  | quote => cases hq
  | bullet c =>
    have := blocky_frame xh tUl al _ _ (Block.getLast?_snoc _ _) (out_tight_item_inl xh al h)
    simpa [Wrapper.events, Wrapper.htmlTight, List.append_assoc] using this
  | ordered ds dl =>
    have := blocky_frame xh tOl (olAttrs al (ordValue ds)) _ _ (Block.getLast?_snoc _ _) (out_tight_item_inl xh al h)
    simpa [Wrapper.events, Wrapper.htmlTight, List.append_assoc] using this

/-- `C11N.blocky_spanForest` for any inline events with a known output -/
theorem blocky_inlForest (xh : Bool) (att : Nat × Nat → List (List Char × List Char)) (E : Nat)
    (ap : List (List Char × List Char)) {ev : List Event} {H : List Char} (h : InlOut xh ev H) :
    ∀ (ws : List Wrapper) (off : Nat),
      Blocky xh (wrapEvents att E (fun _ => leafEvents ap (tightOf ws) ev) ws off)
        (spanHtmlA att E (openTag tP ap ++ H ++ closeTag tP ++ ['\n']) H ws off)
  | [], _ => blocky_para_inl xh ap h
  | [x], off => by
    by_cases hq : x.isQuote = true
    · have : tightOf [x] = false := by simp [tightOf, stepTight, hq]
      simp only [this, wrapEvents, spanHtmlA, hq, if_true]
      exact blocky_wrapper xh x _ _ _ (blocky_para_inl xh ap h)
    · have hq' : x.isQuote = false := by simpa using hq
      have : tightOf [x] = true := by simp [tightOf, stepTight, hq']
      simp only [this, wrapEvents, spanHtmlA, hq', Bool.false_eq_true, if_false, leafEvents, if_true]
      exact blocky_tight_inl xh x hq' _ h
  | x :: y :: ws, off => by
    have ih := blocky_inlForest xh att E ap h (y :: ws) (off + x.width)
    have ht : tightOf (x :: y :: ws) = tightOf (y :: ws) := rfl
    rw [ht]
    simp only [wrapEvents, spanHtmlA] at ih ⊢
    exact blocky_wrapper xh x _ _ _ ih

end MdIt.C11X
