/-
  Helper development for C15 (`MdIt/Props/C15.lean`).

  1. `marksFrom`   — the marks pushed by the construction loop, as a structural recursion.
  2. `runSt`       — operational reading of the specification (a fold of `(line, column)` over the
                     characters that start before a byte position).
  3. marks invariant: sound (`(line, column)` = fold state at a boundary), cover (the byte after every
     line ending carries a mark), strictly increasing offsets.
  4. `bsearch` contract.
  5. the two counting functions of the specification equal the fold (`spec_is_fold`).
-/
import MdIt.Model.SourceMap

namespace MdIt.SourceMap

/-! ### 1. structural view of the construction loop -/

/-- the marks pushed by `newLoop` on `src`, in push order -/
def marksFrom (off line col : Nat) : List Char → List Mark
  | [] => []
  | c :: r =>
    if c = '\r' ∧ r.head? = some '\n' then marksFrom (off + c.utf8Size) line (col + 1) r
    else if c = '\r' ∨ c = '\n' then
      ⟨off + 1, line + 1, 0⟩ :: marksFrom (off + c.utf8Size) (line + 1) 0 r
    else
      (if col % checkpointEvery = 0 ∧ col > 0 then [⟨off, line, col⟩] else [])
        ++ marksFrom (off + c.utf8Size) line (col + 1) r

theorem newLoop_eq (off line col : Nat) (marks : List Mark) (src : List Char) :
    newLoop off line col marks src = marks ++ marksFrom off line col src := by
  induction src generalizing off line col marks with
  | nil => simp [newLoop, marksFrom]
  | cons c r ih =>
    unfold newLoop marksFrom
    split
    · exact ih ..
    · split
      · rw [ih]; simp
      · simp only []
        rw [ih]
        split <;> simp

theorem mkMarks_eq (src : List Char) : mkMarks src = ⟨0, 1, 0⟩ :: marksFrom 0 1 0 src := by
  simp [mkMarks, newLoop_eq]

theorem utf8Size_cr : '\r'.utf8Size = 1 := by decide
theorem utf8Size_lf : '\n'.utf8Size = 1 := by decide

/-! ### 2. the operational fold -/

/-- the character `ch`, followed by `next`, ends a line -/
def isEnd (ch : Char) (next : Option Char) : Prop :=
  ch = '\n' ∨ (ch = '\r' ∧ next ≠ some '\n')

instance (ch : Char) (next : Option Char) : Decidable (isEnd ch next) := by
  unfold isEnd; infer_instance

/-- `(line, column)` after the characters of `src` that start at a byte position `< n`,
    starting from `(l, c)` -/
def runSt (l c : Nat) : List Char → Nat → Nat × Nat
  | [], _ => (l, c)
  | ch :: r, n =>
    if n = 0 then (l, c)
    else if isEnd ch r.head? then runSt (l + 1) 0 r (n - ch.utf8Size)
    else runSt l (c + 1) r (n - ch.utf8Size)

@[simp] theorem runSt_zero (l c : Nat) (src : List Char) : runSt l c src 0 = (l, c) := by
  cases src <;> simp [runSt]

/-- number of characters of `b` starting at a position `< n` -/
def startsBelow : List Char → Nat → Nat
  | [], _ => 0
  | ch :: r, n => if n = 0 then 0 else 1 + startsBelow r (n - ch.utf8Size)

/-- no line ending among the characters of `b` that start at a position `< n` -/
def noEnd : List Char → Nat → Prop
  | [], _ => True
  | ch :: r, n => n = 0 ∨ (¬ isEnd ch r.head? ∧ noEnd r (n - ch.utf8Size))

theorem runSt_append (l c : Nat) (a b : List Char) (n : Nat) (h : byteLen a ≤ n) :
    runSt l c (a ++ b) n =
      runSt (runSt l c (a ++ b) (byteLen a)).1 (runSt l c (a ++ b) (byteLen a)).2 b
        (n - byteLen a) := by
  induction a generalizing l c n with
  | nil => simp [byteLen]
  | cons ch a ih =>
    have hp := Char.utf8Size_pos ch
    simp only [byteLen] at h ⊢
    simp only [List.cons_append, runSt]
    have h1 : n ≠ 0 := by omega
    have h2 : ch.utf8Size + byteLen a ≠ 0 := by omega
    simp only [h1, h2, if_false]
    have e1 : ch.utf8Size + byteLen a - ch.utf8Size = byteLen a := by omega
    have e2 : n - (ch.utf8Size + byteLen a) = n - ch.utf8Size - byteLen a := by omega
    rw [e1, e2]
    split
    · exact ih _ _ _ (by omega)
    · exact ih _ _ _ (by omega)

theorem runSt_noEnd (l c : Nat) (b : List Char) (n : Nat) (h : noEnd b n) :
    runSt l c b n = (l, c + startsBelow b n) := by
  induction b generalizing c n with
  | nil => simp [runSt, startsBelow]
  | cons ch r ih =>
    simp only [runSt, startsBelow]
    by_cases hn : n = 0
    · simp [hn]
    · simp only [hn, if_false]
      simp only [noEnd, hn, false_or] at h
      rw [if_neg h.1, ih _ _ h.2]
      simp; omega

theorem colLoop_eq (base bo off : Nat) (b : List Char) (c : Nat) :
    colLoop base bo off b c = c + startsBelow b (bo - (base + off)) := by
  induction b generalizing off c with
  | nil => simp [colLoop, startsBelow]
  | cons ch r ih =>
    simp only [colLoop, startsBelow]
    by_cases h : base + off ≥ bo
    · have : bo - (base + off) = 0 := by omega
      simp [h, this]
    · have h0 : bo - (base + off) ≠ 0 := by omega
      simp only [h, h0, if_false]
      rw [ih]
      have : bo - (base + (off + ch.utf8Size)) = bo - (base + off) - ch.utf8Size := by omega
      rw [this]; omega

/-- a line ending below `n` in `b`, exhibited as a split of `b` -/
theorem exists_end_of_not_noEnd (b : List Char) (n : Nat) (h : ¬ noEnd b n) :
    ∃ x ch y, b = x ++ ch :: y ∧ byteLen x < n ∧ isEnd ch y.head? := by
  induction b generalizing n with
  | nil => simp [noEnd] at h
  | cons ch r ih =>
    simp only [noEnd, not_or, not_and] at h
    by_cases he : isEnd ch r.head?
    · exact ⟨[], ch, r, rfl, by simp [byteLen]; omega, he⟩
    · have := h.2 he
      obtain ⟨x, ch', y, hxy, hlt, hend⟩ := ih _ this
      refine ⟨ch :: x, ch', y, by simp [hxy], ?_, hend⟩
      simp only [byteLen]; omega

theorem sliceFrom_append (a b : List Char) : sliceFrom (a ++ b) (byteLen a) = some b := by
  induction a with
  | nil => cases b <;> simp [sliceFrom, byteLen]
  | cons ch a ih =>
    have hp := Char.utf8Size_pos ch
    simp only [List.cons_append, sliceFrom, byteLen]
    have h2 : ch.utf8Size + byteLen a ≠ 0 := by omega
    have h3 : ¬ (ch.utf8Size + byteLen a < ch.utf8Size) := by omega
    have e1 : ch.utf8Size + byteLen a - ch.utf8Size = byteLen a := by omega
    simp only [h2, h3, if_false, e1, ih]

theorem byteLen_append (a b : List Char) : byteLen (a ++ b) = byteLen a + byteLen b := by
  induction a with
  | nil => simp [byteLen]
  | cons ch a ih => simp [byteLen, ih]; omega

/-! ### 3. marks invariant -/

/-- every pushed mark sits on a character boundary and records the fold state there -/
theorem marksFrom_sound (off line col : Nat) (rest : List Char) (m : Mark)
    (hm : m ∈ marksFrom off line col rest) :
    ∃ a b, rest = a ++ b ∧ m.offset = off + byteLen a ∧
      (m.line, m.column) = runSt line col rest (byteLen a) := by
  induction rest generalizing off line col with
  | nil => simp [marksFrom] at hm
  | cons c r ih =>
    have hp := Char.utf8Size_pos c
    -- lifting a witness for the tail to a witness for `c :: r`
    have lift : ∀ line' col', (runSt line col (c :: r) c.utf8Size = (line', col')) →
        m ∈ marksFrom (off + c.utf8Size) line' col' r →
        ∃ a b, c :: r = a ++ b ∧ m.offset = off + byteLen a ∧
          (m.line, m.column) = runSt line col (c :: r) (byteLen a) := by
      intro line' col' hstep hmem
      obtain ⟨a, b, hab, ho, hs⟩ := ih _ _ _ hmem
      refine ⟨c :: a, b, by simp [hab], by simp [byteLen]; omega, ?_⟩
      have := runSt_append line col [c] r (byteLen (c :: a)) (by simp [byteLen])
      simp only [List.singleton_append] at this
      rw [this]
      simp only [byteLen, Nat.add_zero] at hstep ⊢
      rw [hstep, hs]
      congr 1; omega
    unfold marksFrom at hm
    split at hm
    · next h =>
      apply lift line (col + 1) _ hm
      have : ¬ isEnd c r.head? := by
        simp only [isEnd]; intro h'
        rcases h' with h' | h'
        · rw [h.1] at h'; exact absurd h' (by decide)
        · exact h'.2 h.2
      have hn : c.utf8Size ≠ 0 := by omega
      simp [runSt, this, hn]
    · next h =>
      split at hm
      · next h2 =>
        have hend : isEnd c r.head? := by
          simp only [isEnd]
          rcases h2 with h2 | h2
          · right; exact ⟨h2, fun h3 => h ⟨h2, h3⟩⟩
          · left; exact h2
        have hs : c.utf8Size = 1 := by
          rcases h2 with h2 | h2 <;> rw [h2] <;> decide
        have hstep : runSt line col (c :: r) c.utf8Size = (line + 1, 0) := by
          have hn : c.utf8Size ≠ 0 := by omega
          simp [runSt, hend, hn]
        rcases List.mem_cons.mp hm with hm | hm
        · refine ⟨[c], r, rfl, by simp [hm, byteLen, hs], ?_⟩
          simp only [byteLen, Nat.add_zero]
          rw [hstep, hm]
        · exact lift _ _ hstep hm
      · next h2 =>
        have hend : ¬ isEnd c r.head? := by
          simp only [isEnd]; intro h'
          rcases h' with h' | h'
          · exact h2 (Or.inr h')
          · exact h2 (Or.inl h'.1)
        have hstep : runSt line col (c :: r) c.utf8Size = (line, col + 1) := by
          have hn : c.utf8Size ≠ 0 := by omega
          simp [runSt, hend, hn]
        rcases List.mem_append.mp hm with hm | hm
        · split at hm
          · simp only [List.mem_singleton] at hm
            exact ⟨[], c :: r, rfl, by simp [hm, byteLen], by simp [hm, byteLen]⟩
          · simp at hm
        · exact lift _ _ hstep hm

/-- the byte after every line ending carries a mark -/
theorem marksFrom_cover (off line col : Nat) (a : List Char) (ch : Char) (b : List Char)
    (hend : isEnd ch b.head?) :
    ∃ m ∈ marksFrom off line col (a ++ ch :: b), m.offset = off + byteLen a + 1 := by
  induction a generalizing off line col with
  | nil =>
    simp only [List.nil_append, byteLen, Nat.add_zero]
    unfold marksFrom
    have h1 : ¬ (ch = '\r' ∧ b.head? = some '\n') := by
      intro h
      rcases hend with h' | h'
      · rw [h.1] at h'; exact absurd h' (by decide)
      · exact h'.2 h.2
    have h2 : ch = '\r' ∨ ch = '\n' := by
      rcases hend with h' | h'
      · exact Or.inr h'
      · exact Or.inl h'.1
    rw [if_neg h1, if_pos h2]
    exact ⟨_, List.mem_cons_self, rfl⟩
  | cons c a ih =>
    simp only [List.cons_append, byteLen]
    unfold marksFrom
    split
    · obtain ⟨m, hm, ho⟩ := ih (off + c.utf8Size) line (col + 1)
      exact ⟨m, hm, by omega⟩
    · split
      · obtain ⟨m, hm, ho⟩ := ih (off + c.utf8Size) (line + 1) 0
        exact ⟨m, List.mem_cons_of_mem _ hm, by omega⟩
      · obtain ⟨m, hm, ho⟩ := ih (off + c.utf8Size) line (col + 1)
        exact ⟨m, List.mem_append_right _ hm, by omega⟩

/-- pushed marks lie at or after the running offset, strictly after when the column is 0 -/
theorem marksFrom_lower (off line col : Nat) (rest : List Char) (m : Mark)
    (hm : m ∈ marksFrom off line col rest) : off ≤ m.offset ∧ (col = 0 → off < m.offset) := by
  induction rest generalizing off line col with
  | nil => simp [marksFrom] at hm
  | cons c r ih =>
    have hp := Char.utf8Size_pos c
    unfold marksFrom at hm
    split at hm
    · have := ih _ _ _ hm; omega
    · split at hm
      · rcases List.mem_cons.mp hm with hm | hm
        · subst hm; simp
        · have := ih _ _ _ hm; omega
      · rcases List.mem_append.mp hm with hm | hm
        · split at hm
          · next hc => simp only [List.mem_singleton] at hm; subst hm; simp; omega
          · simp at hm
        · have := ih _ _ _ hm; omega

theorem marksFrom_pairwise (off line col : Nat) (rest : List Char) :
    (marksFrom off line col rest).Pairwise (fun m m' => m.offset < m'.offset) := by
  induction rest generalizing off line col with
  | nil => simp [marksFrom]
  | cons c r ih =>
    have hp := Char.utf8Size_pos c
    unfold marksFrom
    split
    · exact ih ..
    · split
      · next h2 =>
        have hs : c.utf8Size = 1 := by
          rcases h2 with h2 | h2 <;> rw [h2] <;> decide
        rw [List.pairwise_cons]
        refine ⟨fun m' hm' => ?_, ih ..⟩
        have := (marksFrom_lower _ _ _ _ _ hm').2 rfl
        simp only; omega
      · rw [List.pairwise_append]
        refine ⟨?_, ih .., ?_⟩
        · split <;> simp
        · intro m hm m' hm'
          split at hm
          · simp only [List.mem_singleton] at hm
            have := (marksFrom_lower _ _ _ _ _ hm').1
            subst hm; simp only; omega
          · simp at hm

theorem mkMarks_pairwise (src : List Char) :
    (mkMarks src).Pairwise (fun m m' => m.offset < m'.offset) := by
  rw [mkMarks_eq, List.pairwise_cons]
  exact ⟨fun m' hm' => (marksFrom_lower _ _ _ _ _ hm').2 rfl, marksFrom_pairwise ..⟩

/-- soundness for the whole mark vector (absolute positions, fold from `(1, 0)`) -/
theorem mkMarks_sound (src : List Char) (m : Mark) (hm : m ∈ mkMarks src) :
    ∃ a b, src = a ++ b ∧ m.offset = byteLen a ∧ (m.line, m.column) = runSt 1 0 src (byteLen a) := by
  rw [mkMarks_eq] at hm
  rcases List.mem_cons.mp hm with hm | hm
  · exact ⟨[], src, rfl, by simp [hm, byteLen], by simp [hm, byteLen]⟩
  · obtain ⟨a, b, h1, h2, h3⟩ := marksFrom_sound _ _ _ _ _ hm
    exact ⟨a, b, h1, by omega, h3⟩

theorem mkMarks_cover (a : List Char) (ch : Char) (b : List Char) (hend : isEnd ch b.head?) :
    ∃ m ∈ mkMarks (a ++ ch :: b), m.offset = byteLen a + 1 := by
  obtain ⟨m, hm, ho⟩ := marksFrom_cover 0 1 0 a ch b hend
  exact ⟨m, by rw [mkMarks_eq]; exact List.mem_cons_of_mem _ hm, by omega⟩

/-! ### 4. bisection -/

/-- The contract of Rust's `binary_search_by` for the comparator `|k| k.cmp(&probe)`:
    `Ok(i)` — `keys[i]` equals the probe; `Err(i)` — everything before `i` is smaller, everything
    from `i` on is greater. -/
def BsContract (keys : List Nat) (probe : Nat) : Nat ⊕ Nat → Prop
  | .inl i => ∃ h : i < keys.length, keys[i] = probe
  | .inr i => i ≤ keys.length ∧ (∀ j (h : j < keys.length), j < i → keys[j] < probe) ∧
      (∀ j (h : j < keys.length), i ≤ j → probe < keys[j])

theorem sorted_mono {keys : List Nat} (hs : keys.Pairwise (· < ·)) {i j : Nat}
    (hi : i < keys.length) (hj : j < keys.length) (hij : i ≤ j) : keys[i] ≤ keys[j] := by
  rcases Nat.lt_or_eq_of_le hij with h | h
  · exact Nat.le_of_lt (List.pairwise_iff_getElem.mp hs i j hi hj h)
  · subst h; exact Nat.le_refl _

theorem sorted_strict {keys : List Nat} (hs : keys.Pairwise (· < ·)) {i j : Nat}
    (hi : i < keys.length) (hj : j < keys.length) (hij : i < j) : keys[i] < keys[j] :=
  List.pairwise_iff_getElem.mp hs i j hi hj hij

theorem bsearchGo_contract (keys : List Nat) (probe lo hi : Nat) (hhi : hi ≤ keys.length)
    (hs : keys.Pairwise (· < ·)) (hle : lo ≤ hi)
    (hlo : ∀ j (h : j < keys.length), j < lo → keys[j] < probe)
    (hup : ∀ j (h : j < keys.length), hi ≤ j → probe < keys[j]) :
    BsContract keys probe (bsearchGo keys probe lo hi hhi) := by
  fun_induction bsearchGo keys probe lo hi hhi with
  | case1 lo hi hhi h mid hm k hk ih =>
    apply ih (by omega)
    · intro j hj hjm
      have := sorted_mono hs hj hm (by omega : j ≤ mid)
      omega
    · exact hup
  | case2 lo hi hhi h mid hm k hk1 hk2 ih =>
    apply ih (by omega) hlo
    intro j hj hjm
    have := sorted_mono hs hm hj hjm
    omega
  | case3 lo hi hhi h mid hm k hk1 hk2 =>
    exact ⟨hm, by omega⟩
  | case4 lo hi hhi h =>
    have : lo = hi := by omega
    subst this
    exact ⟨hhi, hlo, hup⟩

theorem bsearch_contract (keys : List Nat) (probe : Nat) (hs : keys.Pairwise (· < ·)) :
    BsContract keys probe (bsearch keys probe) := by
  unfold bsearch
  apply bsearchGo_contract keys probe 0 keys.length _ hs (Nat.zero_le _)
  · intro j _ h; omega
  · intro j h h'; omega

/-- On strictly increasing keys the contract determines the answer: every conforming
    implementation of `binary_search_by` returns what `bsearch` returns. -/
theorem bsearch_unique (keys : List Nat) (probe : Nat) (hs : keys.Pairwise (· < ·))
    (r : Nat ⊕ Nat) (hr : BsContract keys probe r) : r = bsearch keys probe := by
  have hb := bsearch_contract keys probe hs
  generalize bsearch keys probe = r' at hb
  rcases r with i | i <;> rcases r' with i' | i' <;> simp only [BsContract] at hr hb
  · obtain ⟨h, e⟩ := hr; obtain ⟨h', e'⟩ := hb
    congr 1
    rcases Nat.lt_trichotomy i i' with hlt | heq | hgt
    · have := sorted_strict hs h h' hlt; omega
    · exact heq
    · have := sorted_strict hs h' h hgt; omega
  · obtain ⟨h, e⟩ := hr; obtain ⟨_, h1, h2⟩ := hb
    exfalso
    by_cases hc : i < i'
    · have := h1 i h hc; omega
    · have := h2 i h (by omega); omega
  · obtain ⟨h, e⟩ := hb; obtain ⟨_, h1, h2⟩ := hr
    exfalso
    by_cases hc : i' < i
    · have := h1 i' h hc; omega
    · have := h2 i' h (by omega); omega
  · obtain ⟨hl, h1, h2⟩ := hr; obtain ⟨hl', h1', h2'⟩ := hb
    congr 1
    rcases Nat.lt_trichotomy i i' with hlt | heq | hgt
    · have a := h1' i (by omega) hlt; have b := h2 i (by omega) (Nat.le_refl _); omega
    · exact heq
    · have a := h1 i' (by omega) hgt; have b := h2' i' (by omega) (Nat.le_refl _); omega

/-- first key 0, probe ≥ 1: no underflow, and the index found is that of the last key `≤ probe` -/
theorem foundOf_bsearch (keys : List Nat) (probe : Nat) (hs : keys.Pairwise (· < ·))
    (h0 : ∃ h : 0 < keys.length, keys[0] = 0) (hp : 0 < probe) :
    ∃ f, foundOf (bsearch keys probe) = .ok f ∧ ∃ h : f < keys.length, keys[f] ≤ probe ∧
      ∀ j (hj : j < keys.length), f < j → probe < keys[j] := by
  have hb := bsearch_contract keys probe hs
  generalize bsearch keys probe = r at hb
  obtain ⟨hpos, hk0⟩ := h0
  rcases r with i | i <;> simp only [BsContract] at hb
  · obtain ⟨h, e⟩ := hb
    refine ⟨i, rfl, h, by omega, ?_⟩
    intro j hj hij
    have := sorted_strict hs h hj hij; omega
  · obtain ⟨hl, h1, h2⟩ := hb
    have hi : i ≠ 0 := by
      intro hi; subst hi
      have := h2 0 hpos (Nat.le_refl _); omega
    refine ⟨i - 1, by simp [foundOf, hi], by omega, ?_, ?_⟩
    · have := h1 (i - 1) (by omega) (by omega); omega
    · intro j hj hij; exact h2 j hj (by omega)

/-! ### 5. the specification is the fold -/

theorem charAt_cons_zero (ch : Char) (r : List Char) : charAt (ch :: r) 0 = some ch := by
  simp [charAt]

theorem charAt_cons_mid (ch : Char) (r : List Char) (k : Nat) (h0 : 0 < k) (h1 : k < ch.utf8Size) :
    charAt (ch :: r) k = none := by
  have : k ≠ 0 := by omega
  simp [charAt, this, h1]

theorem charAt_cons_add (ch : Char) (r : List Char) (k : Nat) :
    charAt (ch :: r) (ch.utf8Size + k) = charAt r k := by
  have hp := Char.utf8Size_pos ch
  have h1 : ch.utf8Size + k ≠ 0 := by omega
  have h2 : ¬ (ch.utf8Size + k < ch.utf8Size) := by omega
  have h3 : ch.utf8Size + k - ch.utf8Size = k := by omega
  rw [charAt, if_neg h1, if_neg h2, h3]

theorem charAt_zero (r : List Char) : charAt r 0 = r.head? := by
  cases r <;> simp [charAt]

theorem lineEnd_cons_zero (ch : Char) (r : List Char) :
    lineEnd (ch :: r) 0 = decide (isEnd ch r.head?) := by
  unfold lineEnd isEnd
  rw [charAt_cons_zero]
  by_cases h1 : ch = '\n'
  · simp [h1]
  · by_cases h2 : ch = '\r'
    · have : charAt (ch :: r) (0 + 1) = r.head? := by
        have := charAt_cons_add ch r 0
        rw [h2, utf8Size_cr] at this
        rw [h2, ← charAt_zero]; exact this
      rw [this]
      subst h2
      cases hh : r.head? with
      | none => simp
      | some v => by_cases hv : v = '\n' <;> simp [hv]
    · simp [h1, h2]

theorem lineEnd_cons_mid (ch : Char) (r : List Char) (k : Nat) (h0 : 0 < k) (h1 : k < ch.utf8Size) :
    lineEnd (ch :: r) k = false := by
  simp [lineEnd, charAt_cons_mid ch r k h0 h1]

theorem lineEnd_cons_add (ch : Char) (r : List Char) (k : Nat) :
    lineEnd (ch :: r) (ch.utf8Size + k) = lineEnd r k := by
  unfold lineEnd
  rw [charAt_cons_add, Nat.add_assoc, charAt_cons_add]

theorem lineEnd_nil (k : Nat) : lineEnd [] k = false := by simp [lineEnd, charAt]

/-- `afterLastEnd` with an exclusive bound (so that the empty range is expressible) -/
def noEndFrom (src : List Char) (n k : Nat) : Bool :=
  (List.range n).all fun j => j < k || !lineEnd src j

theorem afterLastEnd_eq (src : List Char) (o k : Nat) :
    afterLastEnd src o k = noEndFrom src (o + 1) k := rfl

theorem noEndFrom_iff (src : List Char) (n k : Nat) :
    noEndFrom src n k = true ↔ ∀ j, j < n → k ≤ j → lineEnd src j = false := by
  simp only [noEndFrom, List.all_eq_true, List.mem_range, Bool.or_eq_true, decide_eq_true_eq,
    Bool.not_eq_true']
  constructor
  · intro h j hj hk
    rcases h j hj with h' | h'
    · omega
    · exact h'
  · intro h j hj
    by_cases hk : j < k
    · exact Or.inl hk
    · exact Or.inr (h j hj (by omega))

/-- #{ j < n | line ending at j } -/
def cntL (src : List Char) (n : Nat) : Nat := (List.range n).countP (lineEnd src)

/-- #{ k < n | a character starts at k and no line ending lies in [k, n) } -/
def cntC (src : List Char) (n : Nat) : Nat :=
  (List.range n).countP fun k => startsAt src k && noEndFrom src n k

theorem countP_range_zero (P : Nat → Bool) (n : Nat) (h : ∀ k, k < n → P k = false) :
    (List.range n).countP P = 0 := by
  rw [List.countP_eq_zero]
  intro a ha
  simp [h a (List.mem_range.mp ha)]

theorem countP_range_congr (P Q : Nat → Bool) (n : Nat) (h : ∀ k, k < n → P k = Q k) :
    (List.range n).countP P = (List.range n).countP Q := by
  apply List.countP_congr
  intro x hx
  rw [h x (List.mem_range.mp hx)]

theorem countP_range_add (P : Nat → Bool) (a b : Nat) :
    (List.range (a + b)).countP P =
      (List.range a).countP P + (List.range b).countP (fun k => P (a + k)) := by
  rw [List.range_add, List.countP_append, List.countP_map]
  rfl

/-- splitting a count over the positions of `ch :: r`: position 0, the interior of `ch` (nothing),
    and the positions of `r` shifted by the size `s` of `ch` -/
theorem countP_range_split (P : Nat → Bool) (s n : Nat) (hs : 0 < s) (hn : 0 < n)
    (hmid : ∀ k, 0 < k → k < s → P k = false) :
    (List.range n).countP P =
      (if P 0 then 1 else 0) + (List.range (n - s)).countP (fun k => P (s + k)) := by
  have one : ∀ m, 0 < m → m ≤ s → (List.range m).countP P = if P 0 then 1 else 0 := by
    intro m hm hms
    have : m = 1 + (m - 1) := by omega
    rw [this, countP_range_add]
    have z : (List.range (m - 1)).countP (fun k => P (1 + k)) = 0 :=
      countP_range_zero _ _ (fun k hk => hmid (1 + k) (by omega) (by omega))
    rw [z]
    simp [List.range_succ]
  by_cases h : n ≤ s
  · have : n - s = 0 := by omega
    rw [this, one n hn h]; simp
  · obtain ⟨m, rfl⟩ : ∃ m, n = s + m := ⟨n - s, by omega⟩
    have e : s + m - s = m := by omega
    rw [e, countP_range_add, one s hs (Nat.le_refl _)]

theorem cntL_nil (n : Nat) : cntL [] n = 0 :=
  countP_range_zero _ _ (fun k _ => lineEnd_nil k)

theorem cntC_nil (n : Nat) : cntC [] n = 0 :=
  countP_range_zero _ _ (fun k _ => by simp [startsAt, charAt])

theorem cntL_cons (ch : Char) (r : List Char) (n : Nat) (hn : 0 < n) :
    cntL (ch :: r) n = (if isEnd ch r.head? then 1 else 0) + cntL r (n - ch.utf8Size) := by
  unfold cntL
  rw [countP_range_split (lineEnd (ch :: r)) ch.utf8Size n (Char.utf8Size_pos ch) hn
    (fun k h0 h1 => lineEnd_cons_mid ch r k h0 h1)]
  rw [lineEnd_cons_zero]
  congr 1
  · simp
  · exact countP_range_congr _ _ _ (fun k _ => lineEnd_cons_add ch r k)

theorem cntL_eq_zero_iff (src : List Char) (n : Nat) :
    cntL src n = 0 ↔ ∀ j, j < n → lineEnd src j = false := by
  unfold cntL
  rw [List.countP_eq_zero]
  simp [List.mem_range]

theorem cntC_cons (ch : Char) (r : List Char) (n : Nat) (hn : 0 < n) :
    cntC (ch :: r) n =
      (if cntL (ch :: r) n = 0 then 1 else 0) + cntC r (n - ch.utf8Size) := by
  have hp := Char.utf8Size_pos ch
  unfold cntC
  rw [countP_range_split _ ch.utf8Size n hp hn
    (fun k h0 h1 => by simp [startsAt, charAt_cons_mid ch r k h0 h1])]
  congr 1
  · -- position 0: a character starts there; it counts iff there is no line ending below `n`
    have h1 : startsAt (ch :: r) 0 = true := by simp [startsAt, charAt_cons_zero]
    rw [h1, Bool.true_and]
    by_cases hz : cntL (ch :: r) n = 0
    · have : noEndFrom (ch :: r) n 0 = true := by
        rw [noEndFrom_iff]; intro j hj _; exact (cntL_eq_zero_iff _ _).mp hz j hj
      simp [hz, this]
    · have : noEndFrom (ch :: r) n 0 = false := by
        rw [Bool.eq_false_iff]; intro hc
        rw [noEndFrom_iff] at hc
        exact hz ((cntL_eq_zero_iff _ _).mpr (fun j hj => hc j hj (Nat.zero_le _)))
      simp [hz, this]
  · apply countP_range_congr
    intro k hk
    have h1 : startsAt (ch :: r) (ch.utf8Size + k) = startsAt r k := by
      simp [startsAt, charAt_cons_add]
    rw [h1]
    congr 1
    -- no line ending in [s + k, n) of `ch :: r`  ⇔  none in [k, n - s) of `r`
    rw [Bool.eq_iff_iff, noEndFrom_iff, noEndFrom_iff]
    constructor
    · intro h j hj hkj
      have := h (ch.utf8Size + j) (by omega) (by omega)
      rwa [lineEnd_cons_add] at this
    · intro h j hj hkj
      have := h (j - ch.utf8Size) (by omega) (by omega)
      rw [← lineEnd_cons_add ch r] at this
      have e : ch.utf8Size + (j - ch.utf8Size) = j := by omega
      rwa [e] at this

/-- the fold computes the two counts -/
theorem runSt_eq_counts (l c : Nat) (src : List Char) (n : Nat) :
    runSt l c src n = (l + cntL src n, (if cntL src n = 0 then c else 0) + cntC src n) := by
  induction src generalizing l c n with
  | nil => simp [runSt, cntL_nil, cntC_nil]
  | cons ch r ih =>
    by_cases hn : n = 0
    · subst hn; simp [cntL, cntC]
    · have hn' : 0 < n := by omega
      rw [cntC_cons ch r n hn', cntL_cons ch r n hn']
      simp only [runSt, hn, if_false]
      by_cases he : isEnd ch r.head?
      · simp only [he, if_true]
        rw [ih]
        have : 1 + cntL r (n - ch.utf8Size) ≠ 0 := by omega
        simp only [this, if_false]
        congr 1
        · omega
        · split <;> omega
      · simp only [he, if_false]
        rw [ih]
        congr 1
        · omega
        · simp only [Nat.zero_add]
          split <;> omega

theorem runSt_ge_len (l c : Nat) (src : List Char) (n : Nat) (h : byteLen src ≤ n) :
    runSt l c src n = runSt l c src (byteLen src) := by
  induction src generalizing l c n with
  | nil => simp [runSt]
  | cons ch r ih =>
    have hp := Char.utf8Size_pos ch
    simp only [byteLen] at h ⊢
    have h1 : n ≠ 0 := by omega
    have h2 : ch.utf8Size + byteLen r ≠ 0 := by omega
    have e : ch.utf8Size + byteLen r - ch.utf8Size = byteLen r := by omega
    simp only [runSt, h1, h2, if_false, e]
    split
    · exact ih _ _ _ (by omega)
    · exact ih _ _ _ (by omega)

/-- `spec_is_fold`: the two counting functions of the specification are the fold state after the
    characters starting at positions `≤ o` -/
theorem spec_is_fold (src : List Char) (o : Nat) :
    (specLine src o, specCol src o) = runSt 1 0 src (o + 1) := by
  have h1 : (specLine src o, specCol src o) = runSt 1 0 src (clamp src o + 1) := by
    rw [runSt_eq_counts]
    simp only [specLine, specCol, cntL, cntC, afterLastEnd_eq]
    simp
  rw [h1]
  unfold clamp
  by_cases h : o ≤ byteLen src - 1
  · rw [Nat.min_eq_left h]
  · rw [Nat.min_eq_right (by omega)]
    cases src with
    | nil => simp [runSt]
    | cons ch r =>
      have hp := Char.utf8Size_pos ch
      have hl : byteLen (ch :: r) - 1 + 1 = byteLen (ch :: r) := by simp only [byteLen]; omega
      rw [hl, runSt_ge_len 1 0 (ch :: r) (o + 1) (by omega)]

end MdIt.SourceMap
