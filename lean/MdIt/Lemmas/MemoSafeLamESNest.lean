/-
  Helper development for `Props/MemoSafe.lean`, fifth part (the escape landing): THE NESTED FRAMES — the
  copy of `Lemmas/MemoSafeLamCSNest.lean` in the namespace `MdIt.Inline.ES`, against the definitions of
  `Lemmas/MemoSafeLamESDef.lean`.

  What is new against the `CS` copy:
    * `NF` has the field `ep : s.pos < s.posMax → EPc cfg src s.pos` (a state at which rules run is not at
      an escaped character) and the REFINED `IFP` (marked only when the previous character is not escaped);
    * `ES.BackOK` needs `EPc` of the position of the call: witness and real state sit at the same position
      `k < le` (`Pair.ep`, from `NF.ep`);
    * the agreement premise of `CS.BackL2` at a backtick is split three ways: not strictly inside a run —
      `AgreeHyp`; inside, behind an escaped character — neither cache has the position marked (`LandHyp`);
      inside, behind a non-escaped character — both have it (`IFP` of the witness state, from `ES.Just`,
      and of the real state);
    * `ep` of the successor state: the end `v` of the memo entry — `EndEP` on the entry's witness —, or the
      end of a real delimiter run, whose last character is a marker, which is no backslash when the escape
      rule is in the (coherent) chain (`not_esc_after_run`); `ifp` at `v` through the ES `EndHyp`;
    * the nested start state sits right behind a `[`: `esc_after_bracket`, `not_interior_after_bracket`.
  Lemmas that do not mention `NF` / `Just` / `BackOK` / `IFP` are re-used from `MdIt.Inline` / `MdIt.Inline.CS`.
  Nothing is OPEN here.
-/
import MdIt.Lemmas.MemoSafeLamESDef

namespace MdIt.Inline.ES
open MdIt.Inline
open MdIt.Inline.CS (Interior MK InsideSub MK.of_sub InsideSub.refl InsideSub.trans AgreeHyp
  insideSub_ruleBackticks not_interior_after_bracket not_interior_after_run)
open MdIt.InlineOps (Srcmap getSourcePosFor getMap byteLen slice)
open MdIt.C05 (WFMap MonoMap byteLen_append slice_ok_iff)

/-! ## the invariant of the nested frames, with the code-span marks -/

/-- the fixed data of a nested descent (`Inline.NCtx` with the new witnesses) -/
structure NCtx (cfg : Cfg) (B : List Char → CodePair.Cache → Prop) (src : List Char) (Mtop : Nat)
    (m : List (Nat × Nat)) : Prop where
  bmax : Boundary src Mtop
  stop : EntStop src Mtop
  memo : ∀ k v, (k, v) ∈ m → k < v ∧ Boundary src v
  just : JustAll cfg B src Mtop m

theorem NCtx.toNCtx {cfg : Cfg} {B : List Char → CodePair.Cache → Prop} {src : List Char} {Mtop : Nat}
    {m : List (Nat × Nat)} (h : NCtx cfg B src Mtop m) : Inline.NCtx cfg B src Mtop m :=
  ⟨h.bmax, h.stop, h.memo, h.just.toJustAll⟩

/-- **the invariant of a real state inside a nested label frame** (`Inline.NF` plus `nocut`, `MK`, `IFP`, `EPc`) -/
structure NF (cfg : Cfg) (B : List Char → CodePair.Cache → Prop) (src : List Char) (Mtop : Nat)
    (s : IState) : Prop where
  ctx : NCtx cfg B src Mtop s.cache
  hsrc : s.src = src
  back : B s.src s.backticks
  good : ∃ lo, Good lo s
  cut : ∃ r, slice src s.posMax Mtop = .ok (']' :: r)
  outer : Outer src Mtop s.cache s.posMax s.pos 1
  nocut : CodePair.NoCut '`' src Mtop
  hmk : RuleId.backticks ∈ cfg.chain → MK s
  ifp : RuleId.backticks ∈ cfg.chain → IFP cfg s
  ep : s.pos < s.posMax → EPc cfg src s.pos

theorem NF.toNF {cfg : Cfg} {B : List Char → CodePair.Cache → Prop} {src : List Char} {Mtop : Nat}
    {s : IState} (h : NF cfg B src Mtop s) : Inline.NF cfg B src Mtop s :=
  ⟨h.ctx.toNCtx, h.hsrc, h.back, h.good, h.cut, h.outer⟩

theorem NF.memoB {cfg : Cfg} {B : List Char → CodePair.Cache → Prop} {src : List Char} {Mtop : Nat}
    {s : IState} (h : NF cfg B src Mtop s) : MemoB s := h.toNF.memoB

/-- the hypotheses of the nested induction -/
structure NestHyps (cfg : Cfg) (B : List Char → CodePair.Cache → Prop) (src : List Char) (Mtop : Nat) :
    Prop where
  coh : ChainCoherent cfg = true
  hB : BackOK cfg B
  flat : FlatL2 cfg
  back : RuleId.backticks ∈ cfg.chain → CS.BackL2 cfg B src Mtop
  keep : RealKeeps cfg
  emph : EmphL2 cfg
  plLink : RuleId.link ∈ cfg.chain → ParseLinkL2Part cfg B src Mtop 0 false
  plImage : RuleId.image ∈ cfg.chain → ParseLinkL2Part cfg B src Mtop 1 true
  one : cfg.chain.count .link ≤ 1 ∧ cfg.chain.count .image ≤ 1
  hend : EndHyp cfg B src Mtop
  hendep : EndEP cfg B src Mtop
  agree : AgreeHyp B src
  land : LandHyp cfg B src

/-! ## the fixed data of one real step -/

/-- a witness state `w` (look-ahead, top `pos_max`) and a real state `x` of the nested frame at the same
    position.  `B` and `IFP` of the witness state are only needed (and only available) at a backtick. -/
structure Pair (cfg : Cfg) (B : List Char → CodePair.Cache → Prop) (src : List Char) (Mtop : Nat)
    (m : List (Nat × Nat)) (k le : Nat) (ch : Char) (w x : IState) : Prop where
  wi : LInv w
  wsrc : w.src = src
  wmax : w.posMax = Mtop
  wpos : w.pos = k
  wB : ch = '`' → B w.src w.backticks
  wifp : ch = '`' → RuleId.backticks ∈ cfg.chain → IFP cfg w
  nf : NF cfg B src Mtop x
  xpos : x.pos = k
  xmax : x.posMax = le
  xcache : x.cache = m

/-- one real rule call (verdict `o`, state `x'`) against its witness call (verdict `o1`): as
    `Inline.RulePost`, plus: `inside_failed` only grows -/
def RulePost (cfg : Cfg) (B : List Char → CodePair.Cache → Prop) (src : List Char) (ch : Char)
    (v k le : Nat) (o1 : Option Nat) (x : IState) (o : Option Nat) (x' : IState) : Prop :=
  x'.cache = x.cache ∧ x'.src = x.src ∧ x'.posMax = x.posMax ∧ B x'.src x'.backticks ∧
  InsideSub x.backticks x'.backticks ∧
  ((o = none ∧ o1 = none ∧ x'.pos = x.pos ∧ ∃ lo, Good lo x') ∨
   (∃ len, o = some len ∧ (∃ n, o1 = some n) ∧ x'.pos + len = v) ∨
   (∃ n, o = some n ∧ x'.pos = x.pos ∧ MarkerRun cfg src ch k le n))

/-- the callees of one real step: the guarded pair and the model pair -/
structure Callees (cfg : Cfg) (B : List Char → CodePair.Cache → Prop) (src : List Char) (Mtop : Nat)
    (f : Nat) (skipG skipM tokG tokM : IState → Except Panic IState) : Prop where
  calm : CalmFn skipG
  skT : SkipHypT skipG
  tokT : TokHypT tokG
  rng : RangesFn tokG
  hits : f = 0 ∨ (FollowsHits skipG ∧ FollowsHits skipM)
  tokEq : ∀ s, NF cfg B src Mtop s → tokG s = tokM s ∧
    ∀ s', tokG s = .ok s' → s'.cache = s.cache ∧ s'.src = s.src ∧
      InsideSub s.backticks s'.backticks ∧ B s'.src s'.backticks

section
variable {cfg : Cfg} {B : List Char → CodePair.Cache → Prop} {src : List Char} {Mtop : Nat}

theorem NF.top_lt {s : IState} (h : NF cfg B src Mtop s) : s.posMax < Mtop := h.toNF.top_lt

/-- `NF` reads `src`, `posMax`, `pos`, `cache`, `backticks` and `Good` only; `inside_failed` may grow -/
theorem NF.of_same {x x' : IState} (h : NF cfg B src Mtop x) (hc : x'.cache = x.cache)
    (hs : x'.src = x.src) (hm : x'.posMax = x.posMax) (hp : x'.pos = x.pos)
    (hb : B x'.src x'.backticks) (hsub : InsideSub x.backticks x'.backticks)
    (hg : ∃ lo, Good lo x') : NF cfg B src Mtop x' :=
  ⟨by rw [hc]; exact h.ctx, hs.trans h.hsrc, hb, hg, by rw [hm]; exact h.cut,
    by rw [hc, hm, hp]; exact h.outer, h.nocut, fun hbt => (h.hmk hbt).of_sub hs hc hsub,
    fun hbt hi hne => by
      rw [hs, hp] at hi hne
      rw [hp]; exact hsub _ (h.ifp hbt hi hne),
    fun hlt => by
      rw [hp]; exact h.ep (by rw [← hp, ← hm]; exact hlt)⟩

variable {m : List (Nat × Nat)} {k le v : Nat} {ch : Char} {rest : List Char} {w x : IState}

theorem Pair.xlt (S : StepCtx src Mtop m k le v ch rest) (P : Pair cfg B src Mtop m k le ch w x) :
    x.pos < x.posMax := by rw [P.xpos, P.xmax]; exact S.klt

/-- witness and real state sit at the same position `k < le`, which is not an escaped character -/
theorem Pair.ep (S : StepCtx src Mtop m k le v ch rest) (P : Pair cfg B src Mtop m k le ch w x) :
    EPc cfg src k := by
  have := P.nf.ep (P.xlt S)
  rw [P.xpos] at this; exact this

theorem Pair.wlt (S : StepCtx src Mtop m k le v ch rest) (P : Pair cfg B src Mtop m k le ch w x) :
    w.pos < w.posMax := by
  have := P.nf.top_lt
  rw [P.wpos, P.wmax]; have := S.klt; rw [P.xmax] at *; omega

theorem Pair.winHyp (S : StepCtx src Mtop m k le v ch rest) (P : Pair cfg B src Mtop m k le ch w x) :
    WinHyp w le := by
  obtain ⟨r, hr⟩ := P.nf.cut
  have hlt := P.nf.top_lt
  rw [P.xmax] at hr hlt
  refine ⟨P.wi.bpos, P.wi.bmax, by rw [P.wpos]; exact S.klt, by rw [P.wmax]; omega, .inr ⟨r, ?_⟩⟩
  rw [P.wsrc, P.wmax]; exact hr

/-- the top `pos_max` of the witness state cuts no backtick run -/
theorem Pair.wnocut (P : Pair cfg B src Mtop m k le ch w x) : CodePair.NoCut '`' w.src w.posMax := by
  rw [P.wsrc, P.wmax]; exact P.nf.nocut

/-- the `pos_max` of the nested real state cuts no backtick run: the character there is `]` -/
theorem Pair.xnocut (S : StepCtx src Mtop m k le v ch rest) (P : Pair cfg B src Mtop m k le ch w x) :
    CodePair.NoCut '`' x.src x.posMax := by
  have := (P.winHyp S).noCut P.wnocut
  rw [P.nf.hsrc, P.xmax, ← P.wsrc]; exact this

/-- the two windows: the same first character, the small one is a cut of the big one -/
theorem Pair.windows (S : StepCtx src Mtop m k le v ch rest) (P : Pair cfg B src Mtop m k le ch w x) :
    ∃ rest', x.window = .ok (ch :: rest') ∧ w.window = .ok (ch :: rest) ∧
      Cut (ch :: rest') (ch :: rest) := by
  have hW := P.winHyp S
  obtain ⟨w', wb, h1, h2, hne, _, hcut⟩ := window_split hW
  have hwb : w.window = .ok (ch :: rest) := by
    unfold IState.window; rw [P.wsrc, P.wpos, P.wmax, S.sl]; rfl
  rw [hwb] at h2
  simp only [Except.ok.injEq] at h2
  subst h2
  have hx : x.window = .ok w' := by
    rw [← h1, shrink_window]
    unfold IState.window
    rw [P.nf.hsrc, P.xpos, P.xmax, P.wsrc, P.wpos]
  cases w' with
  | nil => exact absurd rfl hne
  | cons c t =>
    have hc : c = ch := by
      rcases hcut with e | ⟨r, e⟩
      · simp only [List.cons.injEq] at e; exact e.1.symm
      · simp only [List.cons_append, List.cons.injEq] at e; exact e.1.symm
    subst hc
    exact ⟨t, hx, hwb, hcut⟩

end

/-! ## the witness side: look-ahead calls -/

/-- at a backtick every look-ahead rule call keeps the code-span cache invariant and only grows
    `inside_failed`: only the code-span rule touches the cache there (the link / image rules decline on
    the first character) -/
theorem wit_back {cfg : Cfg} {B : List Char → CodePair.Cache → Prop} (hB : BackOK cfg B)
    {skip tok : IState → Except Panic IState} {fuel : Nat} {id : RuleId} {w w1 : IState}
    (hnc : CodePair.NoCut '`' w.src w.posMax) (hep : EPc cfg w.src w.pos)
    {rest : List Char} (hw : w.window = .ok ('`' :: rest)) (hb : B w.src w.backticks)
    {o1 : Option Nat} (h : silentBumped (runRule cfg skip tok fuel id) w = .ok (o1, w1)) :
    B w1.src w1.backticks ∧ InsideSub w.backticks w1.backticks := by
  obtain ⟨wb, hwb, rfl⟩ := silentBumped_ok h
  have hwB : ({ w with level := w.level + 1 } : IState).window = .ok ('`' :: rest) := hw
  show B wb.src wb.backticks ∧ InsideSub w.backticks wb.backticks
  by_cases hbt : id = .backticks
  · subst hbt
    have hwb' : liftR (ruleBackticks { w with level := w.level + 1 } true) = .ok (o1, wb) := hwb
    exact ⟨hB _ true _ _ (liftR_ok.mp hwb') hnc hep hb,
      insideSub_ruleBackticks (st := { w with level := w.level + 1 }) (liftR_ok.mp hwb')⟩
  · by_cases hf : id.isFlat = true
    · rw [silent_flat_state hf hbt hwb]; exact ⟨hb, InsideSub.refl _⟩
    · cases id with
      | link =>
        rw [link_other hwB (by decide) true] at hwb
        simp only [Except.ok.injEq, Prod.mk.injEq] at hwb
        rw [← hwb.2]; exact ⟨hb, InsideSub.refl _⟩
      | image =>
        rw [image_other hwB (by intro t ht; simp at ht) true] at hwb
        simp only [Except.ok.injEq, Prod.mk.injEq] at hwb
        rw [← hwb.2]; exact ⟨hb, InsideSub.refl _⟩
      | _ => simp [RuleId.isFlat] at hf

/-! ## one rule: the flat rules -/

section
variable {cfg : Cfg} {B : List Char → CodePair.Cache → Prop} {src : List Char} {Mtop : Nat}
  {f : Nat} {skipG skipM tokG tokM : IState → Except Panic IState}
  {skip0 tok0 : IState → Except Panic IState} {f0 : Nat}
  {m : List (Nat × Nat)} {k le v : Nat} {ch : Char} {rest : List Char} {w x : IState}

/-- `Good` behind a declining real rule call -/
theorem good_after_none (H : NestHyps cfg B src Mtop)
    (C : Callees cfg B src Mtop f skipG skipM tokG tokM) {id : RuleId} (hid : id ∈ cfg.chain)
    {x x' : IState} (hx : NF cfg B src Mtop x) (hlt : x.pos < x.posMax)
    (h : runRule cfg skipG tokG f id x false = .ok (none, x')) : ∃ lo, Good lo x' := by
  obtain ⟨lo, hg⟩ := hx.good
  have hT := runRule_real_T (coherent_hsz H.coh) C.calm C.skT C.tokT C.rng f hid x hg hx.memoB hlt
  have s1 := hT.ok _ _ h
  exact ⟨lo, Good.of_add_zero (by simpa using s1.good)⟩

/-- the flat rules without cache: `FlatL2` -/
theorem rule_flat (H : NestHyps cfg B src Mtop) (C : Callees cfg B src Mtop f skipG skipM tokG tokM)
    (S : StepCtx src Mtop m k le v ch rest) (P : Pair cfg B src Mtop m k le ch w x)
    {id : RuleId} (hid : id ∈ cfg.chain)
    (hfl : id = .text ∨ id = .newline ∨ id = .escape ∨ id = .autolink ∨ id = .entity ∨ id = .linkEnd)
    {o1 : Option Nat} {w1 : IState}
    (hwit : silentBumped (runRule cfg skip0 tok0 f0 id) w = .ok (o1, w1))
    (hsome : ∀ n, o1 = some n → v = k + n) :
    runRule cfg skipG tokG f id x false = runRule cfg skipM tokM f id x false ∧
    ∀ o x', runRule cfg skipG tokG f id x false = .ok (o, x') →
      RulePost cfg B src ch v k le o1 x o x' := by
  constructor
  · rcases hfl with rfl | rfl | rfl | rfl | rfl | rfl <;> rfl
  · intro o x' hreal
    obtain ⟨wb, hwb, _⟩ := silentBumped_ok hwit
    have hflat : id.isFlat = true := by rcases hfl with rfl | rfl | rfl | rfl | rfl | rfl <;> rfl
    have hnb : id ≠ .backticks := by rcases hfl with rfl | rfl | rfl | rfl | rfl | rfl <;> simp
    obtain ⟨l1, l2⟩ := H.flat skip0 tok0 skipG tokG f0 f id hfl { w with level := w.level + 1 } x
      (by rw [P.xmax]; exact (P.winHyp S).bump) P.wi.stop (P.nf.hsrc.trans P.wsrc.symm)
      (P.xpos.trans P.wpos.symm) o1 wb o x' hwb hreal
    obtain ⟨kp, kc, ks, km, _, kb⟩ := H.keep skipG tokG f id hflat x o x' hreal
    have hBx' : B x'.src x'.backticks := by rw [ks, kb hnb]; exact P.nf.back
    have hsub : InsideSub x.backticks x'.backticks := by rw [kb hnb]; exact InsideSub.refl _
    refine ⟨kc, ks, km, hBx', hsub, ?_⟩
    cases o1 with
    | none =>
      have := l1 rfl; subst this
      exact .inl ⟨rfl, rfl, kp, good_after_none H C hid P.nf (P.xlt S) hreal⟩
    | some n =>
      have hv := hsome n rfl
      have := l2 n rfl (by
        show w.pos + n ≤ x.posMax
        rw [P.wpos, P.xmax]; have := S.vle; omega)
      subst this
      exact .inr (.inl ⟨n, rfl, ⟨n, rfl⟩, by rw [kp, P.xpos]; omega⟩)

/-- the code-span rule: `CS.BackL2` at a backtick (the two `inside_failed` agree at the position:
    strictly inside a run both contain it — `IFP` of the witness state and of the real state —,
    elsewhere `AgreeHyp`), a plain decline elsewhere -/
theorem rule_back (H : NestHyps cfg B src Mtop) (C : Callees cfg B src Mtop f skipG skipM tokG tokM)
    (S : StepCtx src Mtop m k le v ch rest) (P : Pair cfg B src Mtop m k le ch w x)
    (hid : RuleId.backticks ∈ cfg.chain) {o1 : Option Nat} {w1 : IState}
    (hwit : silentBumped (runRule cfg skip0 tok0 f0 .backticks) w = .ok (o1, w1))
    (hsome : ∀ n, o1 = some n → v = k + n) :
    runRule cfg skipG tokG f .backticks x false = runRule cfg skipM tokM f .backticks x false ∧
    ∀ o x', runRule cfg skipG tokG f .backticks x false = .ok (o, x') →
      RulePost cfg B src ch v k le o1 x o x' := by
  refine ⟨rfl, ?_⟩
  intro o x' hreal
  obtain ⟨wb, hwb, _⟩ := silentBumped_ok hwit
  obtain ⟨rest', hwx, hww, _⟩ := P.windows S
  by_cases hch : ch = '`'
  · have hagree : w.backticks.insideFailed.contains w.pos = x.backticks.insideFailed.contains x.pos := by
      by_cases hint : Interior src k
      · by_cases hE : RuleId.escape ∈ cfg.chain ∧ esc src (k - 1) = true
        · rw [P.wpos, P.xpos,
            H.land w.backticks k (by rw [← P.wsrc]; exact P.wB hch) hE.1 hE.2,
            H.land x.backticks k (by rw [← P.nf.hsrc]; exact P.nf.back) hE.1 hE.2]
        · have hne : RuleId.escape ∈ cfg.chain → esc src (k - 1) = false := by
            intro he
            cases h : esc src (k - 1) with
            | false => rfl
            | true => exact absurd ⟨he, h⟩ hE
          rw [P.wifp hch hid (by rw [P.wsrc, P.wpos]; exact hint) (by rw [P.wsrc, P.wpos]; exact hne),
            P.nf.ifp hid (by rw [P.nf.hsrc, P.xpos]; exact hint)
              (by rw [P.nf.hsrc, P.xpos]; exact hne)]
      · rw [P.wpos, P.xpos]
        exact H.agree _ _ k (by rw [← P.wsrc]; exact P.wB hch) (by rw [← P.nf.hsrc]; exact P.nf.back)
          hint
    obtain ⟨l1, l2⟩ := H.back hid skip0 tok0 skipG tokG f0 f { w with level := w.level + 1 } x
      (by rw [P.xmax]; exact (P.winHyp S).bump) P.wsrc P.wmax (P.nf.hsrc.trans P.wsrc.symm)
      (P.xpos.trans P.wpos.symm) (P.wB hch) P.nf.back hagree o1 wb o x' hwb hreal
    obtain ⟨kp, kc, ks, km, _, _⟩ := H.keep skipG tokG f .backticks rfl x o x' hreal
    have hreal' : liftR (ruleBackticks x false) = .ok (o, x') := hreal
    have hBx' : B x'.src x'.backticks :=
      H.hB x false o x' (liftR_ok.mp hreal') (P.xnocut S)
        (by rw [P.nf.hsrc, P.xpos]; exact P.ep S) P.nf.back
    have hsub : InsideSub x.backticks x'.backticks := insideSub_ruleBackticks (liftR_ok.mp hreal')
    refine ⟨kc, ks, km, hBx', hsub, ?_⟩
    cases o1 with
    | none =>
      have := l1 rfl; subst this
      exact .inl ⟨rfl, rfl, kp, good_after_none H C hid P.nf (P.xlt S) hreal⟩
    | some n =>
      have hv := hsome n rfl
      have := l2 n rfl (by
        show w.pos + n ≤ x.posMax
        rw [P.wpos, P.xmax]; have := S.vle; omega)
      subst this
      exact .inr (.inl ⟨n, rfl, ⟨n, rfl⟩, by rw [kp, P.xpos]; omega⟩)
  · rw [backticks_other hwx hch false] at hreal
    simp only [Except.ok.injEq, Prod.mk.injEq] at hreal
    obtain ⟨rfl, rfl⟩ := hreal
    have hwB : ({ w with level := w.level + 1 } : IState).window = .ok (ch :: rest) := hww
    rw [backticks_other hwB hch true] at hwb
    simp only [Except.ok.injEq, Prod.mk.injEq] at hwb
    exact ⟨rfl, rfl, rfl, P.nf.back, InsideSub.refl _, .inl ⟨rfl, hwb.1.symm, rfl, P.nf.good⟩⟩

/-- the emphasis rules: `EmphL2` -/
theorem rule_emph (H : NestHyps cfg B src Mtop) (_C : Callees cfg B src Mtop f skipG skipM tokG tokM)
    (S : StepCtx src Mtop m k le v ch rest) (P : Pair cfg B src Mtop m k le ch w x)
    {mk : Char} {csw : Bool} (hid : RuleId.emph mk csw ∈ cfg.chain) {o1 : Option Nat} {w1 : IState}
    (hwit : silentBumped (runRule cfg skip0 tok0 f0 (.emph mk csw)) w = .ok (o1, w1)) :
    runRule cfg skipG tokG f (.emph mk csw) x false = runRule cfg skipM tokM f (.emph mk csw) x false ∧
    ∀ o x', runRule cfg skipG tokG f (.emph mk csw) x false = .ok (o, x') →
      RulePost cfg B src ch v k le o1 x o x' := by
  refine ⟨rfl, ?_⟩
  intro o x' hreal
  obtain ⟨wb, hwb, _⟩ := silentBumped_ok hwit
  obtain ⟨rest', hwx, hww, _⟩ := P.windows S
  have ho1 : o1 = none := by
    have h'' : liftR (ruleEmph cfg mk csw { w with level := w.level + 1 } true) = .ok (o1, wb) := hwb
    have h' := liftR_ok.mp h''
    rw [ruleEmph_silent] at h'
    simp only [Except.ok.injEq, Prod.mk.injEq] at h'
    exact h'.1.symm
  have hsz := coherent_hsz H.coh mk csw hid
  have hreal' : liftR (ruleEmph cfg mk csw x false) = .ok (o, x') := hreal
  obtain ⟨e1, e2⟩ := H.emph mk csw hsz x o x' (liftR_ok.mp hreal')
  by_cases hc : ch = mk
  · subst hc
    obtain ⟨n, hn, h1, h2, h3⟩ := e2 rest' hwx
    obtain ⟨kp, kc, ks, km, _, kb⟩ := H.keep skipG tokG f (.emph ch csw) rfl x o x' hreal
    have hBx' : B x'.src x'.backticks := by rw [ks, kb (by simp)]; exact P.nf.back
    have hsub : InsideSub x.backticks x'.backticks := by rw [kb (by simp)]; exact InsideSub.refl _
    refine ⟨kc, ks, km, hBx', hsub, .inr (.inr ⟨n, hn, kp, ⟨csw, hid⟩, h1, ?_, ?_⟩)⟩
    · rw [P.xpos, P.xmax] at h2; exact h2
    · intro i hi
      have := h3 i hi
      rw [P.nf.hsrc, P.xpos, P.xmax] at this
      exact this
  · obtain ⟨rfl, rfl⟩ := e1 ch rest' hwx hc
    exact ⟨rfl, rfl, rfl, P.nf.back, InsideSub.refl _, .inl ⟨rfl, ho1, rfl, P.nf.good⟩⟩

end

/-! ## one rule: link and image -/

section
variable {cfg : Cfg} {B : List Char → CodePair.Cache → Prop} {src : List Char} {Mtop : Nat}
  {f : Nat} {skipG skipM tokG tokM : IState → Except Panic IState}
  {skip0 tok0 : IState → Except Panic IState} {f0 : Nat}
  {m : List (Nat × Nat)} {k le v : Nat} {ch : Char} {rest : List Char} {w x : IState}

/-- the one result of `parse_link` for the guarded and the model `skip_token` at the fuel of the step -/
theorem pl_R (C : Callees cfg B src Mtop f skipG skipM tokG tokM) {x : IState} {offset : Nat}
    {en : Bool} {r0 : Option LinkRes}
    (hR : ∃ R : Except Panic (Option LinkRes),
      (∀ skip, FollowsHits skip →
        parseLink cfg skip f x (x.pos + offset) en =
          match R with
          | .ok r => .ok (r, x)
          | .error e => .error e) ∧
      (∀ r, R = .ok r → r = r0)) :
    ∃ R : Except Panic (Option LinkRes),
      parseLink cfg skipG f x (x.pos + offset) en =
        (match R with
          | .ok r => .ok (r, x)
          | .error e => .error e) ∧
      parseLink cfg skipM f x (x.pos + offset) en =
        (match R with
          | .ok r => .ok (r, x)
          | .error e => .error e) ∧
      (∀ r, R = .ok r → r = r0) := by
  rcases C.hits with h0 | ⟨hG, hM⟩
  · subst h0
    exact ⟨.error .fuel, parseLink_fuel0, parseLink_fuel0, by intro r h; cases h⟩
  · obtain ⟨R, h1, h2⟩ := hR
    exact ⟨R, h1 _ hG, h1 _ hM, h2⟩

/-- **the link rule body**: `ParseLinkL2Part` for `parse_link` (on `NF.toNF`), the nested induction
    hypothesis (`Callees.tokEq`) for the label run; the nested start state sits right behind a `[`, so
    its `IFP` is vacuous -/
theorem linkRule_L2 (_H : NestHyps cfg B src Mtop) (C : Callees cfg B src Mtop f skipG skipM tokG tokM)
    (S : StepCtx src Mtop m k le v ch rest) (P : Pair cfg B src Mtop m k le ch w x)
    (mk mk' : List Nat → Option (List Char) → Val) (en : Bool) (offset : Nat)
    (hpl : ParseLinkL2Part cfg B src Mtop offset en)
    (hshape : (offset = 0 ∧ en = false ∧ ∃ r, slice src k Mtop = .ok ('[' :: r)) ∨
      (offset = 1 ∧ en = true ∧ ∃ r, slice src k Mtop = .ok ('!' :: '[' :: r)))
    (hq0 : CalmFn skip0) (hs0 : SkipHypT skip0) (hg0 : SkipGrowHyp skip0)
    (hbx : Boundary x.src (x.pos + offset + 1)) (hlex : x.pos + offset + 1 ≤ x.posMax)
    (hbw : Boundary w.src (w.pos + offset + 1)) (hlew : w.pos + offset + 1 ≤ w.posMax)
    {o1 : Option Nat} {wb : IState}
    (hwit : linkRule cfg skip0 tok0 f0 mk' en offset { w with level := w.level + 1 } true
      = .ok (o1, wb))
    (hmono : LookupMono wb.cache m)
    (hnone : o1 = none → v = k + 1) (hsome : ∀ n, o1 = some n → v = k + n) :
    linkRule cfg skipG tokG f mk en offset x false = linkRule cfg skipM tokM f mk en offset x false ∧
    ∀ o x', linkRule cfg skipG tokG f mk en offset x false = .ok (o, x') →
      RulePost cfg B src ch v k le o1 x o x' := by
  obtain ⟨r0, hpl0, hr0n, hr0s⟩ := linkRule_silent_inv hwit
  have hiB := P.wi.bump
  have hwbpos : wb.pos = w.pos := parseLink_pos (st := { w with level := w.level + 1 }) hpl0
  have hR := hpl skip0 f0 { w with level := w.level + 1 } wb r0 x v hq0 hs0 hg0 hiB
    P.wsrc P.wmax (P.wpos.trans P.xpos.symm) hpl0 (by rw [P.xcache]; exact hmono) P.nf.toNF (P.xlt S)
    (by rw [P.xcache, P.xpos]; exact S.lk) (by rw [P.xmax]; exact S.vle)
    (by rw [P.xpos]; exact hshape)
    (by intro h; rw [P.xpos]; exact hnone (hr0n h))
    (by
      intro res h
      obtain ⟨a, b⟩ := hr0s res h
      have := hsome _ b
      rw [hwbpos, P.wpos] at a this
      omega) f
  -- the position right behind the `[` is not strictly inside a backtick run
  have hni : ¬ Interior src (k + offset + 1) ∧ esc src (k + offset + 1) = false := by
    rcases hshape with ⟨rfl, _, r, hr⟩ | ⟨rfl, _, r, hr⟩
    · exact ⟨not_interior_after_bracket hr, esc_after_bracket hr⟩
    · have := slice_drop_prefix (u := ['!']) (v := '[' :: r) hr
      have e1 : ('!' : Char).utf8Size = 1 := by decide
      simp only [byteLen, e1, Nat.add_zero] at this
      exact ⟨not_interior_after_bracket this, esc_after_bracket this⟩
  obtain ⟨R, hG, hM, hRr⟩ := pl_R C hR
  unfold linkRule
  simp only
  rw [hG, hM]
  cases R with
  | error e => exact ⟨rfl, by intro o x' h; simp at h⟩
  | ok r =>
    have hrr := hRr r rfl
    subst hrr
    cases r with
    | none =>
      simp only
      refine ⟨by trivial, ?_⟩
      intro o x' h
      simp only [Except.ok.injEq, Prod.mk.injEq] at h
      obtain ⟨rfl, rfl⟩ := h
      exact ⟨rfl, rfl, rfl, P.nf.back, InsideSub.refl _, .inl ⟨rfl, hr0n rfl, rfl, P.nf.good⟩⟩
    | some res =>
      simp only [Bool.false_eq_true, if_false]
      -- what the witness knows about `res`
      have hplT := (parseLink_T (cfg := cfg) hq0 hs0 f0 _ _ en hiB hbw hlew).2 _ _ hpl0
      have hresT := hplT.2.2.2 res rfl
      obtain ⟨rb, hrb⟩ := hresT.bracket
      obtain ⟨hls, hrec⟩ :=
        parseLink_records (cfg := cfg) hq0 hs0 hg0 f0 _ _ en hiB hbw hlew res wb hpl0
      obtain ⟨hpe, ho1⟩ := hr0s res rfl
      have hv : res.endPos = v := by
        have := hsome _ ho1
        have h1 := hwbpos; have h2 := P.wpos
        omega
      -- the nested frame
      obtain ⟨lo, hg⟩ := P.nf.good
      have hpG : parseLink cfg skipG f x (x.pos + offset) en = .ok (some res, x) := hG
      obtain ⟨lo2, hg2, hm2⟩ := nested_good C.calm C.skT hg P.nf.memoB hbx hlex hpG
      have hnf : NF cfg B src Mtop (IState.mk x.src x.srcmap res.labelStart res.labelEnd
          (x.level + 1) (x.linkLevel + 1) x.cache x.backticks [] []) := by
        refine ⟨P.nf.ctx, P.nf.hsrc, P.nf.back, ⟨lo2, hg2⟩, ⟨rb, ?_⟩, ⟨en, f0, 1, Int.le_refl _, ?_⟩,
          P.nf.nocut, fun hbt => (P.nf.hmk hbt).of_sub rfl rfl (InsideSub.refl _), ?_, ?_⟩
        · show slice src res.labelEnd Mtop = .ok (']' :: rb)
          rw [← P.wsrc, ← P.wmax]; exact hrb
        · have := hrec x.cache (by rw [P.xcache]; exact hmono)
          show pwalk src Mtop x.cache en f0 1 res.labelStart = .done (some true) res.labelEnd
          rw [hls, ← P.wsrc, ← P.wmax]; exact this
        · intro _ hi _
          exfalso
          apply hni.1
          have hi' : Interior x.src res.labelStart := hi
          have hls' : res.labelStart = w.pos + offset + 1 := hls
          rw [P.nf.hsrc, hls', P.wpos] at hi'
          exact hi'
        · intro _ _
          have hls' : res.labelStart = w.pos + offset + 1 := hls
          show esc src res.labelStart = false
          rw [hls', P.wpos]
          exact hni.2
      obtain ⟨heq, hpost⟩ := C.tokEq _ hnf
      have htk := C.tokT lo2 _ hg2 hm2
      rw [← heq]
      cases hGt : tokG (IState.mk x.src x.srcmap res.labelStart res.labelEnd
          (x.level + 1) (x.linkLevel + 1) x.cache x.backticks [] []) with
      | error e => exact ⟨rfl, by intro o x' h; simp at h⟩
      | ok st3 =>
        simp only
        refine ⟨by trivial, ?_⟩
        obtain ⟨hc3, hs3, hsub3, hb3⟩ := hpost st3 hGt
        intro o x' h
        split at h
        · simp at h
        · split at h
          · simp at h
          · split at h
            · simp at h
            · next hnu =>
              simp only [Except.ok.injEq, Prod.mk.injEq] at h
              obtain ⟨rfl, rfl⟩ := h
              refine ⟨hc3, hs3, rfl, hb3, hsub3, .inr (.inl ⟨_, rfl, ⟨_, ho1⟩, ?_⟩)⟩
              simp only at hnu ⊢
              omega

/-- the link rule -/
theorem rule_link (H : NestHyps cfg B src Mtop) (C : Callees cfg B src Mtop f skipG skipM tokG tokM)
    (S : StepCtx src Mtop m k le v ch rest) (P : Pair cfg B src Mtop m k le ch w x)
    (hq0 : CalmFn skip0) (hs0 : SkipHypT skip0) (hg0 : SkipGrowHyp skip0)
    (hid : RuleId.link ∈ cfg.chain) {o1 : Option Nat} {w1 : IState}
    (hwit : silentBumped (runRule cfg skip0 tok0 f0 .link) w = .ok (o1, w1))
    (hmono : LookupMono w1.cache m)
    (hnone : ch = '[' → o1 = none → v = k + 1) (hsome : ∀ n, o1 = some n → v = k + n) :
    runRule cfg skipG tokG f .link x false = runRule cfg skipM tokM f .link x false ∧
    ∀ o x', runRule cfg skipG tokG f .link x false = .ok (o, x') →
      RulePost cfg B src ch v k le o1 x o x' := by
  obtain ⟨wb, hwb, rfl⟩ := silentBumped_ok hwit
  obtain ⟨rest', hwx, hww, _⟩ := P.windows S
  have hwB : ({ w with level := w.level + 1 } : IState).window = .ok (ch :: rest) := hww
  by_cases hc : ch = '['
  · subst hc
    have hX : ∀ skip tok, runRule cfg skip tok f .link x false =
        linkRule cfg skip tok f Val.link false 0 x false := by
      intro skip tok
      unfold runRule
      simp only
      unfold ruleLink
      rw [hwx]
      simp only [liftR]
      rw [if_neg (by simp)]
    have hWr : runRule cfg skip0 tok0 f0 .link { w with level := w.level + 1 } true =
        linkRule cfg skip0 tok0 f0 Val.link false 0 { w with level := w.level + 1 } true := by
      unfold runRule
      simp only
      unfold ruleLink
      rw [hwB]
      simp only [liftR]
      rw [if_neg (by simp)]
    rw [hX, hX]
    rw [hWr] at hwb
    obtain ⟨hbx, hlex⟩ := after_first (st := x) (by decide) (window_eq hwx)
    obtain ⟨hbw, hlew⟩ := after_first (st := w) (by decide) (window_eq hww)
    exact linkRule_L2 H C S P Val.link Val.link false 0 (H.plLink hid) (.inl ⟨rfl, rfl, rest, S.sl⟩)
      hq0 hs0 hg0 hbx hlex hbw hlew hwb hmono (hnone rfl) hsome
  · rw [link_other hwx hc false, link_other hwx hc false]
    rw [link_other hwB hc true] at hwb
    simp only [Except.ok.injEq, Prod.mk.injEq] at hwb
    refine ⟨rfl, ?_⟩
    intro o x' h
    simp only [Except.ok.injEq, Prod.mk.injEq] at h
    obtain ⟨rfl, rfl⟩ := h
    exact ⟨rfl, rfl, rfl, P.nf.back, InsideSub.refl _, .inl ⟨rfl, hwb.1.symm, rfl, P.nf.good⟩⟩

/-- the image rule -/
theorem rule_image (H : NestHyps cfg B src Mtop) (C : Callees cfg B src Mtop f skipG skipM tokG tokM)
    (S : StepCtx src Mtop m k le v ch rest) (P : Pair cfg B src Mtop m k le ch w x)
    (hq0 : CalmFn skip0) (hs0 : SkipHypT skip0) (hg0 : SkipGrowHyp skip0)
    (hid : RuleId.image ∈ cfg.chain) {o1 : Option Nat} {w1 : IState}
    (hwit : silentBumped (runRule cfg skip0 tok0 f0 .image) w = .ok (o1, w1))
    (hmono : LookupMono w1.cache m)
    (hnone : ch = '!' → o1 = none → v = k + 1) (hsome : ∀ n, o1 = some n → v = k + n) :
    runRule cfg skipG tokG f .image x false = runRule cfg skipM tokM f .image x false ∧
    ∀ o x', runRule cfg skipG tokG f .image x false = .ok (o, x') →
      RulePost cfg B src ch v k le o1 x o x' := by
  obtain ⟨wb, hwb, rfl⟩ := silentBumped_ok hwit
  obtain ⟨rest', hwx, hww, hcut⟩ := P.windows S
  by_cases hc : ch = '!' ∧ ∃ t, rest' = '[' :: t
  · obtain ⟨rfl, t, rfl⟩ := hc
    obtain ⟨t2, ht2⟩ : ∃ t2, rest = '[' :: t2 := by
      rcases hcut with e | ⟨r, e⟩
      · simp only [List.cons.injEq, true_and] at e
        exact ⟨t, e⟩
      · simp only [List.cons_append, List.cons.injEq, true_and] at e
        exact ⟨_, e⟩
    subst ht2
    have hwB : ({ w with level := w.level + 1 } : IState).window = .ok ('!' :: '[' :: t2) := hww
    have hX : ∀ skip tok, runRule cfg skip tok f .image x false =
        linkRule cfg skip tok f Val.image true 1 x false := by
      intro skip tok
      unfold runRule
      simp only
      unfold ruleImage
      rw [hwx]
      simp only [liftR]
    have hWr : runRule cfg skip0 tok0 f0 .image { w with level := w.level + 1 } true =
        linkRule cfg skip0 tok0 f0 Val.image true 1 { w with level := w.level + 1 } true := by
      unfold runRule
      simp only
      unfold ruleImage
      rw [hwB]
      simp only [liftR]
    rw [hX, hX]
    rw [hWr] at hwb
    obtain ⟨hbx, hlex⟩ := after_second (st := x) (by decide) (by decide) (window_eq hwx)
    obtain ⟨hbw, hlew⟩ := after_second (st := w) (by decide) (by decide) (window_eq hww)
    exact linkRule_L2 H C S P Val.image Val.image true 1 (H.plImage hid) (.inr ⟨rfl, rfl, t2, S.sl⟩)
      hq0 hs0 hg0 hbx hlex hbw hlew hwb hmono (hnone rfl) hsome
  · have hnx : ∀ t, ch :: rest' ≠ '!' :: '[' :: t := by
      intro t e
      simp only [List.cons.injEq] at e
      exact hc ⟨e.1, t, e.2⟩
    have hnw : ∀ t, ch :: rest ≠ '!' :: '[' :: t := by
      intro t e
      simp only [List.cons.injEq] at e
      obtain ⟨rfl, rfl⟩ := e
      rcases hcut with e | ⟨r, e⟩
      · simp only [List.cons.injEq, true_and] at e
        exact hc ⟨rfl, t, e.symm⟩
      · cases rest' with
        | nil =>
          simp only [List.cons_append, List.nil_append, List.cons.injEq, true_and] at e
          exact absurd e.1 (by decide)
        | cons c t' =>
          simp only [List.cons_append, List.cons.injEq, true_and] at e
          exact hc ⟨rfl, t', by rw [e.1]⟩
    have hwB : ({ w with level := w.level + 1 } : IState).window = .ok (ch :: rest) := hww
    rw [image_other hwx hnx false, image_other hwx hnx false]
    rw [image_other hwB hnw true] at hwb
    simp only [Except.ok.injEq, Prod.mk.injEq] at hwb
    refine ⟨rfl, ?_⟩
    intro o x' h
    simp only [Except.ok.injEq, Prod.mk.injEq] at h
    obtain ⟨rfl, rfl⟩ := h
    exact ⟨rfl, rfl, rfl, P.nf.back, InsideSub.refl _, .inl ⟨rfl, hwb.1.symm, rfl, P.nf.good⟩⟩

/-- **one rule of the chain**: the witness call (look-ahead at `w`, verdict `o1`) against the real call
    at the nested state `x`; the guarded side equals the model side -/
theorem rule_L2 (H : NestHyps cfg B src Mtop) (C : Callees cfg B src Mtop f skipG skipM tokG tokM)
    (S : StepCtx src Mtop m k le v ch rest) (P : Pair cfg B src Mtop m k le ch w x)
    (hq0 : CalmFn skip0) (hs0 : SkipHypT skip0) (hg0 : SkipGrowHyp skip0)
    {id : RuleId} (hid : id ∈ cfg.chain) {o1 : Option Nat} {w1 : IState}
    (hwit : silentBumped (runRule cfg skip0 tok0 f0 id) w = .ok (o1, w1))
    (hmono : LookupMono w1.cache m)
    (hnone : (id = .link ∧ ch = '[') ∨ (id = .image ∧ ch = '!') → o1 = none → v = k + 1)
    (hsome : ∀ n, o1 = some n → v = k + n) :
    runRule cfg skipG tokG f id x false = runRule cfg skipM tokM f id x false ∧
    ∀ o x', runRule cfg skipG tokG f id x false = .ok (o, x') →
      RulePost cfg B src ch v k le o1 x o x' := by
  cases id with
  | text => exact rule_flat H C S P hid (by simp) hwit hsome
  | newline => exact rule_flat H C S P hid (by simp) hwit hsome
  | escape => exact rule_flat H C S P hid (by simp) hwit hsome
  | backticks => exact rule_back H C S P hid hwit hsome
  | emph mk csw => exact rule_emph H C S P hid hwit
  | link =>
    exact rule_link H C S P hq0 hs0 hg0 hid hwit hmono (fun h1 h2 => hnone (.inl ⟨rfl, h1⟩) h2) hsome
  | image =>
    exact rule_image H C S P hq0 hs0 hg0 hid hwit hmono (fun h1 h2 => hnone (.inr ⟨rfl, h1⟩) h2) hsome
  | linkEnd => exact rule_flat H C S P hid (by simp) hwit hsome
  | autolink => exact rule_flat H C S P hid (by simp) hwit hsome
  | entity => exact rule_flat H C S P hid (by simp) hwit hsome

end

/-! ## the chain -/

section
variable {cfg : Cfg} {B : List Char → CodePair.Cache → Prop} {src : List Char} {Mtop : Nat}
  {f : Nat} {skipG skipM tokG tokM : IState → Except Panic IState}
  {skip0 tok0 : IState → Except Panic IState} {f0 : Nat}
  {m : List (Nat × Nat)} {k le v : Nat} {ch : Char} {rest : List Char}

theorem RulePost.of_same {o0 o : Option Nat} {x x1 x' : IState}
    (h : RulePost cfg B src ch v k le o0 x1 o x') (hc : x1.cache = x.cache) (hs : x1.src = x.src)
    (hm : x1.posMax = x.posMax) (hp : x1.pos = x.pos) (hsub : InsideSub x.backticks x1.backticks) :
    RulePost cfg B src ch v k le o0 x o x' := by
  obtain ⟨a, b, c, d, d', e⟩ := h
  refine ⟨a.trans hc, b.trans hs, c.trans hm, d, hsub.trans d', ?_⟩
  rcases e with ⟨e1, e2, e3, e4⟩ | e | ⟨n, e1, e2, e3⟩
  · exact .inl ⟨e1, e2, e3.trans hp, e4⟩
  · exact .inr (.inl e)
  · exact .inr (.inr ⟨n, e1, e2.trans hp, e3⟩)

/-- **the chain comparison** (as `Inline.chain_L2`; `inside_failed` of the real state only grows, the
    witness states keep `B` and `IFP` at a backtick) -/
theorem chain_L2 (H : NestHyps cfg B src Mtop) (C : Callees cfg B src Mtop f skipG skipM tokG tokM)
    (S : StepCtx src Mtop m k le v ch rest)
    (hq0 : CalmFn skip0) (hs0 : SkipHypT skip0) (hg0 : SkipGrowHyp skip0) :
    ∀ (rules : List RuleId), (∀ id ∈ rules, id ∈ cfg.chain) → rules.count .link ≤ 1 →
      rules.count .image ≤ 1 →
      ∀ (w x : IState), Pair cfg B src Mtop m k le ch w x →
      ∀ o0 w', firstRule (fun id s => silentBumped (runRule cfg skip0 tok0 f0 id) s) rules w
          = .ok (o0, w') →
        LookupMono w'.cache m → (o0 = none → v = k + ch.utf8Size) → (∀ n, o0 = some n → v = k + n) →
        firstRule (fun id s => runRule cfg skipG tokG f id s false) rules x =
          firstRule (fun id s => runRule cfg skipM tokM f id s false) rules x ∧
        ∀ o x', firstRule (fun id s => runRule cfg skipG tokG f id s false) rules x = .ok (o, x') →
          RulePost cfg B src ch v k le o0 x o x' := by
  intro rules
  induction rules with
  | nil =>
    intro _ _ _ w x P o0 w' hwit _ _ _
    simp only [firstRule, Except.ok.injEq, Prod.mk.injEq] at hwit
    unfold firstRule
    refine ⟨rfl, ?_⟩
    intro o x' h
    simp only [Except.ok.injEq, Prod.mk.injEq] at h
    obtain ⟨rfl, rfl⟩ := h
    exact ⟨rfl, rfl, rfl, P.nf.back, InsideSub.refl _, .inl ⟨rfl, hwit.1.symm, rfl, P.nf.good⟩⟩
  | cons id rs ih =>
    intro hall hcl hci w x P o0 w' hwit hmono hnone0 hsome0
    have hid : id ∈ cfg.chain := hall id (by simp)
    have hwlt := P.wlt S
    have hepw : EPc cfg w.src w.pos := by rw [P.wsrc, P.wpos]; exact P.ep S
    obtain ⟨rest', hwx, hww, _⟩ := P.windows S
    unfold firstRule at hwit
    cases hr1 : silentBumped (runRule cfg skip0 tok0 f0 id) w with
    | error e => rw [hr1] at hwit; simp at hwit
    | ok p1 =>
      obtain ⟨o1, w1⟩ := p1
      rw [hr1] at hwit
      obtain ⟨hi1, hs1, hm1, hp1⟩ := wit_step hq0 hs0 f0 id P.wi hwlt hr1
      have hw1 : w1.window = .ok (ch :: rest) := by
        rw [← hww]; exact window_congr hs1 hp1 hm1
      -- the memo of the witness only grows
      have hmono1 : LookupMono w1.cache m := by
        cases o1 with
        | some n =>
          simp only [Except.ok.injEq, Prod.mk.injEq] at hwit
          rw [hwit.2]; exact hmono
        | none =>
          simp only at hwit
          exact (wit_chain_grow hq0 hs0 hg0 f0 rs hi1 (by rw [hp1, hm1]; exact hwlt) hwit).mono.trans
            hmono
      -- a declining link / image rule at `[` / `!`: the rest of the chain declines
      have hnone1 : (id = .link ∧ ch = '[') ∨ (id = .image ∧ ch = '!') → o1 = none → v = k + 1 := by
        intro hcase ho1
        subst ho1
        simp only at hwit
        have hfire : ∀ id' ∈ rs, id'.firesAt ch = false := by
          intro id' hid'
          rcases hcase with ⟨rfl, rfl⟩ | ⟨rfl, rfl⟩
          · exact firesAt_bracket id' (fun e => not_mem_tail_of_count hcl (e ▸ hid'))
          · exact firesAt_bang id' (fun e => not_mem_tail_of_count hci (e ▸ hid'))
        have ho0 := chain_declines_of hq0 hs0 f0 rs hfire w1 hi1 hw1 _ _ hwit
        have := hnone0 ho0
        rcases hcase with ⟨_, rfl⟩ | ⟨_, rfl⟩
        · exact this
        · exact this
      have hsome1 : ∀ n, o1 = some n → v = k + n := by
        intro n ho1
        subst ho1
        simp only [Except.ok.injEq, Prod.mk.injEq] at hwit
        exact hsome0 n hwit.1.symm
      obtain ⟨eq1, post1⟩ := rule_L2 H C S P hq0 hs0 hg0 hid hr1 hmono1 hnone1 hsome1
      unfold firstRule
      rw [← eq1]
      cases hG : runRule cfg skipG tokG f id x false with
      | error e => exact ⟨rfl, by intro o x' h; simp at h⟩
      | ok p =>
        obtain ⟨o, x1⟩ := p
        have hp1' := post1 o x1 hG
        cases o with
        | some n =>
          simp only
          refine ⟨by trivial, ?_⟩
          intro o x' h
          simp only [Except.ok.injEq, Prod.mk.injEq] at h
          obtain ⟨rfl, rfl⟩ := h
          obtain ⟨a, b, c, d, d', e⟩ := hp1'
          refine ⟨a, b, c, d, d', ?_⟩
          rcases e with ⟨e1, _⟩ | ⟨len, e1, ⟨n', e2⟩, e3⟩ | e
          · simp at e1
          · subst e2
            simp only [Except.ok.injEq, Prod.mk.injEq] at hwit
            exact .inr (.inl ⟨len, e1, ⟨n', hwit.1.symm⟩, e3⟩)
          · exact .inr (.inr e)
        | none =>
          simp only
          obtain ⟨a, b, c, d, d', e⟩ := hp1'
          rcases e with ⟨_, e2, e3, e4⟩ | ⟨len, e1, _⟩ | ⟨n, e1, _⟩
          · subst e2
            simp only at hwit
            have P1 : Pair cfg B src Mtop m k le ch w1 x1 :=
              ⟨hi1, hs1.trans P.wsrc, hm1.trans P.wmax, hp1.trans P.wpos,
                fun hc => by subst hc; exact (wit_back H.hB P.wnocut hepw hww (P.wB rfl) hr1).1,
                fun hc hbt hi hne => by
                  subst hc
                  rw [hs1, hp1] at hi hne
                  rw [hp1]
                  exact (wit_back H.hB P.wnocut hepw hww (P.wB rfl) hr1).2 _ (P.wifp rfl hbt hi hne),
                P.nf.of_same a b c e3 d d' e4, e3.trans P.xpos, c.trans P.xmax, a.trans P.xcache⟩
            obtain ⟨eq2, post2⟩ := ih (fun id hid => hall id (List.mem_cons_of_mem _ hid))
              (count_tail_le hcl) (count_tail_le hci) w1 x1 P1 o0 w' hwit hmono hnone0 hsome0
            exact ⟨eq2, fun o x' h => (post2 o x' h).of_same a b c e3 d'⟩
          · simp at e1
          · simp at e1

end

/-! ## the witness of a memo entry, unpacked to its chain -/

/-- **the witness of the entry `k ↦ v`, as a chain** (as `Inline.just_chain`, plus `IFP` of the witness
    state) -/
theorem just_chain {cfg : Cfg} {B : List Char → CodePair.Cache → Prop} {src : List Char} {Mtop : Nat}
    {m : List (Nat × Nat)} {k v : Nat} (hJ : Just cfg B src Mtop m k v) {ch : Char} {rest : List Char}
    (hsl : slice src k Mtop = .ok (ch :: rest)) :
    ∃ (skip0 tok0 : IState → Except Panic IState) (f0 : Nat) (st0 : IState) (o0 : Option Nat)
      (w' : IState),
      CalmFn skip0 ∧ SkipHypT skip0 ∧ SkipGrowHyp skip0 ∧
      LInv st0 ∧ st0.src = src ∧ st0.posMax = Mtop ∧ st0.pos = k ∧ B st0.src st0.backticks ∧
      (RuleId.backticks ∈ cfg.chain → IFP cfg st0) ∧
      firstRule (fun id s => silentBumped (runRule cfg skip0 tok0 f0 id) s) cfg.chain st0
        = .ok (o0, w') ∧
      LookupMono w'.cache m ∧ (o0 = none → v = k + ch.utf8Size) ∧ (∀ n, o0 = some n → v = k + n) := by
  obtain ⟨skip0, tok0, f0, st0, st0', hq0, hs0, hg0, hi0, hsrc0, hmax0, hpos0, hlt0, hB0, hmiss, hstep,
    hv, hmono, hifp, _⟩ := hJ
  obtain ⟨o0, w', hfr, hcache, hsome, hnone⟩ := skipStep_inv hstep
  obtain ⟨hi', hs', hm', hp'⟩ := wit_chain_step hq0 hs0 f0 cfg.chain hi0 hlt0 hfr
  have hgrow := wit_chain_grow hq0 hs0 hg0 f0 cfg.chain hi0 hlt0 hfr
  refine ⟨skip0, tok0, f0, st0, o0, w', hq0, hs0, hg0, hi0, hsrc0, hmax0, hpos0, hB0, hifp, hfr,
    ?_, ?_, ?_⟩
  · refine LookupMono.trans ?_ hmono
    intro a b hab
    rw [hcache, lookup_cacheInsert]
    by_cases hak : a = st0.pos
    · subst hak
      rw [hgrow.low _ (by omega), hpos0, hmiss] at hab
      cases hab
    · rw [if_neg hak]; exact hab
  · intro ho
    obtain ⟨c, hc, hpc⟩ := hnone ho
    have hw' : w'.window = .ok (ch :: rest) := by
      unfold IState.window
      rw [hs', hp', hm', hsrc0, hpos0, hmax0, hsl]
      rfl
    unfold firstChar at hc
    rw [hw'] at hc
    simp only [liftR, Except.ok.injEq] at hc
    subst hc
    rw [← hv, hpc, hp', hpos0]
  · intro n hn
    rw [← hv, hsome n hn, hp', hpos0]

/-! ## one iteration of the loop -/

section
variable {cfg : Cfg} {B : List Char → CodePair.Cache → Prop} {src : List Char} {Mtop : Nat}
  {f : Nat} {skipG skipM tokG tokM : IState → Except Panic IState}

/-- the end of a real delimiter run is not an escaped character: its last character is an emphasis
    marker, and no rule of a coherent chain — in particular not the escape rule — fires at a marker -/
theorem not_esc_after_run (hcoh : ChainCoherent cfg = true) {ch : Char} {k le n : Nat}
    (h : MarkerRun cfg src ch k le n) : EPc cfg src (k + n) := by
  intro hesc
  obtain ⟨⟨csw, hcsw⟩, h1, _, h3⟩ := h
  obtain ⟨r, hr⟩ := h3 (n - 1) (by omega)
  have hc : CodePair.charAt src (k + (n - 1)) = some ch := by
    have := charAt_next (u := []) (b := ch) (v := r) (a := k + (n - 1)) (q := le) (by simpa using hr)
    simpa [byteLen] using this
  have hne : ch ≠ '\\' := by
    have := (coherent_marker hcoh hcsw).2 .escape hesc
    intro e
    subst e
    simp [RuleId.firesAt] at this
  have e : k + n = k + (n - 1) + 1 := by omega
  rw [e]
  apply esc_succ_of_ne
  rw [hc]
  intro h2
  simp only [Option.some.injEq] at h2
  exact hne h2

/-- **one iteration of the tokenizer loop inside a nested frame** (below the nesting limit): the
    guarded step is the model's step, the memo and the text are left alone, `inside_failed` only grows,
    `NF` is kept -/
theorem nested_step (H : NestHyps cfg B src Mtop) (C : Callees cfg B src Mtop f skipG skipM tokG tokM)
    {s : IState} (hnf : NF cfg B src Mtop s) (hl : s.level < cfg.maxNesting)
    (hlt : s.pos < s.posMax) :
    tokStep cfg skipG tokG f s = tokStep cfg skipM tokM f s ∧
    ∀ s', tokStep cfg skipG tokG f s = .ok s' →
      s'.cache = s.cache ∧ s'.posMax = s.posMax ∧ s'.src = s.src ∧
      InsideSub s.backticks s'.backticks ∧ NF cfg B src Mtop s' := by
  have hf : ∀ k v, (k, v) ∈ s.cache → k < v := fun k v h => (hnf.ctx.memo k v h).1
  obtain ⟨ch, rest, v, hsl, hlk, hkv, hvle, hOv, _⟩ := outer_step hf hnf.outer hlt
  have htop := hnf.top_lt
  have S : StepCtx src Mtop s.cache s.pos s.posMax v ch rest := ⟨hsl, hlk, hvle, hlt⟩
  rcases hnf.ctx.just _ _ (lookup_mem hlk) with hvM | hJ
  · omega
  obtain ⟨skip0, tok0, f0, st0, o0, w', hq0, hs0, hg0, hi0, hsrc0, hmax0, hpos0, hB0, hifp0, hfr, hmono,
    hn0, hs0'⟩ := just_chain hJ hsl
  have P : Pair cfg B src Mtop s.cache s.pos s.posMax ch st0 s :=
    ⟨hi0, hsrc0, hmax0, hpos0, fun _ => hB0, fun _ => hifp0, hnf, rfl, rfl, rfl⟩
  obtain ⟨eq1, post1⟩ := chain_L2 H C S hq0 hs0 hg0 cfg.chain (fun _ h => h) H.one.1 H.one.2 st0 s P
    o0 w' hfr hmono hn0 hs0'
  obtain ⟨lo, hg⟩ := hnf.good
  have hT := tokStep_T (coherent_hsz H.coh) C.calm C.skT C.tokT C.rng f s hg hnf.memoB hlt
  have heq : tokStep cfg skipG tokG f s = tokStep cfg skipM tokM f s := by
    unfold tokStep
    simp only [if_pos hl]
    rw [eq1]
  refine ⟨heq, ?_⟩
  intro s' h
  obtain ⟨hg', _, fr', _⟩ := hT.2 s' h
  have key : s'.cache = s.cache ∧ B s'.src s'.backticks ∧ InsideSub s.backticks s'.backticks ∧
      Outer src Mtop s.cache s.posMax s'.pos 1 ∧
      (s'.pos = v ∨
        ((RuleId.backticks ∈ cfg.chain → ¬ Interior src s'.pos) ∧ EPc cfg src s'.pos)) := by
    unfold tokStep at h
    simp only [if_pos hl] at h
    cases hG : firstRule (fun id s => runRule cfg skipG tokG f id s false) cfg.chain s with
    | error e => rw [hG] at h; simp at h
    | ok p =>
      obtain ⟨o, x'⟩ := p
      rw [hG] at h
      obtain ⟨a, b, c, d, d', e⟩ := post1 o x' hG
      rcases e with ⟨e1, e2, e3, _⟩ | ⟨len, e1, _, e3⟩ | ⟨n, e1, e2, e3⟩
      · subst e1
        simp only at h
        obtain ⟨c', hfc, hp', hc', hb', hs', _, _⟩ := fallback_keeps h
        obtain ⟨rest', hwx, _, _⟩ := P.windows S
        have hwx' : x'.window = .ok (ch :: rest') := by
          rw [← hwx]; exact window_congr b e3 c
        unfold firstChar at hfc
        rw [hwx'] at hfc
        simp only [liftR, Except.ok.injEq] at hfc
        subst hfc
        have hv : v = s.pos + ch.utf8Size := hn0 e2
        have hpv : s'.pos = v := by rw [hp', e3, ← hv]
        refine ⟨hc'.trans a, by rw [hs', hb']; exact d, by rw [hb']; exact d', ?_, .inl hpv⟩
        rw [hpv]
        exact hOv
      · subst e1
        simp only [Except.ok.injEq] at h
        subst h
        have hpv : x'.pos + len = v := e3
        refine ⟨a, d, d', ?_, .inl hpv⟩
        show Outer src Mtop s.cache s.posMax (x'.pos + len) 1
        rw [e3]
        exact hOv
      · subst e1
        simp only [Except.ok.injEq] at h
        subst h
        refine ⟨a, d, d', ?_, .inr ?_⟩
        · show Outer src Mtop s.cache s.posMax (x'.pos + n) 1
          rw [e2]
          obtain ⟨hmk, _, h2, h3⟩ := e3
          exact outer_marker_run H.coh hnf.ctx.toNCtx htop hmk n hnf.outer h2 h3
        · refine ⟨?_, ?_⟩
          · intro hbt
            show ¬ Interior src (x'.pos + n)
            rw [e2]
            exact not_interior_after_run H.coh hbt e3
          · show EPc cfg src (x'.pos + n)
            rw [e2]
            exact not_esc_after_run H.coh e3
  obtain ⟨k1, k2, k3, k4, k5⟩ := key
  have hsrc' : s'.src = s.src := fr'.src
  have hmk' : RuleId.backticks ∈ cfg.chain → MK s' := fun hbt => (hnf.hmk hbt).of_sub hsrc' k1 k3
  refine ⟨k1, fr'.posMax, hsrc', k3,
    ⟨by rw [k1]; exact hnf.ctx, hsrc'.trans hnf.hsrc, k2, ⟨lo, hg'⟩,
      by rw [fr'.posMax]; exact hnf.cut, by rw [k1, fr'.posMax]; exact k4, hnf.nocut, hmk', ?_, ?_⟩⟩
  -- `IFP` at the new position
  · intro hbt hi hne
    rw [hsrc', hnf.hsrc] at hi hne
    rcases k5 with hpv | hno
    · rw [hpv] at hi hne ⊢
      have hv1 : v = s.pos + 1 := H.hend _ _ _ hJ.toJust hJ.ep hi hne
      have hmem : (s.pos, s.pos + 1) ∈ s'.cache := by
        rw [k1, ← hv1]; exact lookup_mem hlk
      have := hmk' hbt s.pos hmem (by rw [hsrc', hnf.hsrc, ← hv1]; exact hi)
      rw [hv1]; exact this
    · exact absurd hi (hno.1 hbt)
  -- `EPc` at the new position
  · intro _
    rcases k5 with hpv | hno
    · rw [hpv]
      exact H.hendep _ _ _ hJ.toJust hJ.ep (by omega)
    · exact hno.2

end

/-! ## the induction on fuel -/

section
variable {cfg : Cfg} {B : List Char → CodePair.Cache → Prop} {src : List Char} {Mtop : Nat}

/-- the guarded and the model callees at fuel `f`, given the nested statement at fuel `f` -/
theorem callees_of (H : NestHyps cfg B src Mtop) (f : Nat)
    (ih : ∀ s : IState, NF cfg B src Mtop s →
      tokLoopG cfg true f s.posMax s = tokLoop cfg f s.posMax s ∧
      ∀ s', tokLoopG cfg true f s.posMax s = .ok s' → s'.cache = s.cache ∧ s'.src = s.src ∧
        InsideSub s.backticks s'.backticks ∧ B s'.src s'.backticks) :
    Callees cfg B src Mtop f (fun s => skipTokenG cfg true f s) (fun s => skipToken cfg f s)
      (fun s => tokLoopG cfg true f s.posMax s) (fun s => tokLoop cfg f s.posMax s) := by
  refine ⟨skipTokenG_calm cfg true f, skipTokenG_T cfg f,
    fun lo s hg hm => ((guarded_total cfg (coherent_hsz H.coh) f).2 lo s hg hm).tokT,
    rangesFnG cfg true f, ?_, ih⟩
  cases f with
  | zero => exact .inl rfl
  | succ f' => exact .inr ⟨followsHits_guarded cfg true f', followsHits_model cfg f'⟩

/-- **inside a nested label frame the guarded tokenizer IS the model tokenizer**, at every fuel; it leaves
    the memo and the text alone, only grows `inside_failed`, and keeps the code-span cache invariant -/
theorem nested_eq (H : NestHyps cfg B src Mtop) : ∀ (f : Nat) (s : IState), NF cfg B src Mtop s →
    tokLoopG cfg true f s.posMax s = tokLoop cfg f s.posMax s ∧
    ∀ s', tokLoopG cfg true f s.posMax s = .ok s' → s'.cache = s.cache ∧ s'.src = s.src ∧
      InsideSub s.backticks s'.backticks ∧ B s'.src s'.backticks := by
  intro f
  induction f with
  | zero =>
    intro s hnf
    unfold tokLoopG tokLoop
    by_cases hlt : s.pos < s.posMax
    · simp only [if_pos hlt]
      exact ⟨by trivial, by intro s' h; simp at h⟩
    · simp only [if_neg hlt]
      refine ⟨by trivial, ?_⟩
      intro s' h
      simp only [Except.ok.injEq] at h; subst h
      exact ⟨rfl, rfl, InsideSub.refl _, hnf.back⟩
  | succ f ih =>
    intro s hnf
    by_cases hl : s.level < cfg.maxNesting
    · unfold tokLoopG tokLoop
      by_cases hlt : s.pos < s.posMax
      · simp only [if_pos hlt]
        obtain ⟨e1, n1⟩ := nested_step H (callees_of H f ih) hnf hl hlt
        rw [← e1]
        cases hs : tokStep cfg (fun s => skipTokenG cfg true f s)
            (fun s => tokLoopG cfg true f s.posMax s) f s with
        | error e => exact ⟨rfl, by intro s' h; simp at h⟩
        | ok s1 =>
          simp only
          obtain ⟨a, b, c, d, e⟩ := n1 s1 hs
          have hrec := ih s1 e
          rw [b] at hrec
          refine ⟨hrec.1, fun s' h => ?_⟩
          obtain ⟨r1, r2, r3, r4⟩ := hrec.2 s' h
          exact ⟨r1.trans a, r2.trans c, d.trans r3, r4⟩
      · simp only [if_neg hlt]
        refine ⟨by trivial, ?_⟩
        intro s' h
        simp only [Except.ok.injEq] at h; subst h
        exact ⟨rfl, rfl, InsideSub.refl _, hnf.back⟩
    · obtain ⟨e, n⟩ := over_limit cfg true (f + 1) s.posMax s hl
      refine ⟨e, ?_⟩
      intro s' h
      obtain ⟨a, b, c⟩ := n s' h
      exact ⟨a, c, by rw [b]; exact InsideSub.refl _, by rw [c, b]; exact hnf.back⟩

/-- `nested_eq` in the form the top-frame development consumes (`TokEqAt` of
    `Lemmas/MemoSafeLamCSTop.lean`, with `P := NF cfg B src Mtop`) -/
theorem nested_tokEq (H : NestHyps cfg B src Mtop) (f : Nat) (s : IState)
    (hnf : NF cfg B src Mtop s) :
    (fun s : IState => tokLoopG cfg true f s.posMax s) s = (fun s : IState => tokLoop cfg f s.posMax s) s ∧
    ∀ s', (fun s : IState => tokLoopG cfg true f s.posMax s) s = .ok s' →
      s'.cache = s.cache ∧ s'.src = s.src ∧ InsideSub s.backticks s'.backticks ∧
      (B s.src s.backticks → B s'.src s'.backticks) :=
  ⟨(nested_eq H f s hnf).1, fun s' h =>
    ⟨((nested_eq H f s hnf).2 s' h).1, ((nested_eq H f s hnf).2 s' h).2.1,
      ((nested_eq H f s hnf).2 s' h).2.2.1, fun _ => ((nested_eq H f s hnf).2 s' h).2.2.2⟩⟩

end

end MdIt.Inline.ES
