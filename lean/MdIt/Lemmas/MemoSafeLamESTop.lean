/-
  Helper development for `Props/MemoSafe.lean`, fifth part (the escape landing): THE TOP FRAME — the copy
  of `Lemmas/MemoSafeLamCSTop.lean` against the definitions of `Lemmas/MemoSafeLamESDef.lean` (namespace
  `MdIt.Inline.ES`): `BackOK cfg B` with the premise `EPc` (the state is not at an escaped character),
  witnesses `Just` with the refined `IFP cfg` and `EPc` of their state.

  Differences to the `CS` copy (names are kept; they live in `MdIt.Inline.ES`):
    * `SkipTopHyp` has the further precondition `EPc cfg src s.pos`; `labelLoop_top` carries
      `st.pos < st.posMax → EPc cfg src st.pos` (re-established by `ep_of_entry` from `EndEP`); walks start
      behind a `[` (`esc_after_bracket`);
    * the look-ahead chain inside `skip_token` and the real chain take `EPc` of their state (the rules
      that decline keep the position) — it is the premise of `BackOK` in `runRule_flat_top`;
    * `top_total` carries `st.pos < st.posMax → EPc cfg src st.pos` and `st.level < cfg.maxNesting`
      along the real loop (`StepEP`; the top frame runs at level 0, so the parser theorems ask for
      `0 < cfg.maxNesting`).
  The lemmas that do not mention the changed definitions are re-used from `MdIt.Inline`
  (`rule…_backticks`, `runRule_backticks_unchanged`, `runRule_flat_frame`, `nestedState`,
  `parseInlineG_noRust`, `memoB_init'`).
-/
import MdIt.Lemmas.MemoSafeLamESDef

namespace MdIt.Inline.ES
open MdIt.Inline
open MdIt.Inline.CS (Interior MK InsideSub MK.of_sub InsideSub.refl InsideSub.trans MarksHyp
  insideSub_ruleBackticks not_interior_after_bracket)
open MdIt.InlineOps (Srcmap getSourcePosFor getMap byteLen slice)
open MdIt.C05 (WFMap MonoMap byteLen_append slice_ok_iff)

variable {cfg : Cfg} {B : List Char → CodePair.Cache → Prop} {src : List Char} {Mtop : Nat}

/-! ## `TopInv` reads `src`, `posMax`, `backticks`, `cache` only -/

theorem TopInv.transfer {s s' : IState} (h : TopInv cfg B src Mtop s) (hsrc : s'.src = s.src)
    (hmax : s'.posMax = s.posMax) (hc : s'.cache = s.cache)
    (hsub : InsideSub s.backticks s'.backticks) (hb : B s'.src s'.backticks) :
    TopInv cfg B src Mtop s' :=
  ⟨hsrc.trans h.hsrc, hmax.trans h.hmax, hb, by rw [hc]; exact h.le, by rw [hc]; exact h.just,
    h.nocut, fun hbt => (h.hmk hbt).of_sub hsrc hc hsub⟩

theorem TopInv.of_eq {s s' : IState} (h : TopInv cfg B src Mtop s) (hsrc : s'.src = s.src)
    (hmax : s'.posMax = s.posMax) (hc : s'.cache = s.cache) (hb : s'.backticks = s.backticks) :
    TopInv cfg B src Mtop s' :=
  h.transfer hsrc hmax hc (by rw [hb]; exact InsideSub.refl _) (by rw [hsrc, hb]; exact h.back)

/-- the `NoCut` premise of `BackOK` at a state of the top frame -/
theorem TopInv.nocut_st {s : IState} (h : TopInv cfg B src Mtop s) :
    CodePair.NoCut '`' s.src s.posMax := by
  rw [h.hsrc, h.hmax]; exact h.nocut

/-- one more memo entry behind a failed `lookup`: ends inside the frame, is an over-limit entry or has
    its witness, and — if it is a unit entry ending strictly inside a backtick run — its end is marked -/
theorem TopInv.insert {s s' : IState} {k v : Nat} (h : TopInv cfg B src Mtop s)
    (hmiss : s.cache.lookup k = none) (hsrc : s'.src = s.src) (hmax : s'.posMax = s.posMax)
    (hb : s'.backticks = s.backticks) (hc : s'.cache = cacheInsert s.cache k v) (hv : v ≤ Mtop)
    (hj : v = Mtop ∨ Just cfg B src Mtop (cacheInsert s.cache k v) k v)
    (hnew : RuleId.backticks ∈ cfg.chain → v = k + 1 → Interior src (k + 1) →
      s'.backticks.insideFailed.contains (k + 1) = true) :
    TopInv cfg B src Mtop s' := by
  refine ⟨hsrc.trans h.hsrc, hmax.trans h.hmax, by rw [hsrc, hb]; exact h.back, ?_, ?_, h.nocut, ?_⟩
  · intro a b hab
    rw [hc] at hab
    unfold cacheInsert at hab
    simp only [List.mem_cons, Prod.mk.injEq] at hab
    rcases hab with ⟨rfl, rfl⟩ | hab
    · exact hv
    · exact h.le a b hab
  · rw [hc]
    refine h.just.grow ?_ ?_
    · intro a b hab
      rw [lookup_cacheInsert]
      by_cases hak : a = k
      · subst hak; rw [hmiss] at hab; cases hab
      · rw [if_neg hak]; exact hab
    · intro a b hab
      unfold cacheInsert at hab
      simp only [List.mem_cons, Prod.mk.injEq] at hab
      rcases hab with ⟨rfl, rfl⟩ | hab
      · exact .inr hj
      · exact .inl hab
  · intro hbt p hp hint
    rw [hc] at hp
    rw [hsrc, h.hsrc] at hint
    unfold cacheInsert at hp
    simp only [List.mem_cons, Prod.mk.injEq] at hp
    rcases hp with ⟨rfl, hv'⟩ | hp
    · exact hnew hbt hv'.symm hint
    · rw [hb]
      exact h.hmk hbt p hp (by rw [h.hsrc]; exact hint)

/-! # PART 1 — look-ahead in the top frame preserves `TopInv` -/

/-- a `skip_token` that keeps the invariant of the top frame, from states that satisfy `IFP` and are not
    at an escaped character -/
def SkipTopHyp (cfg : Cfg) (B : List Char → CodePair.Cache → Prop) (src : List Char) (Mtop : Nat)
    (skip : IState → Except Panic IState) : Prop :=
  ∀ s, LInv s → s.pos < s.posMax → TopInv cfg B src Mtop s →
    (RuleId.backticks ∈ cfg.chain → IFP cfg s) → EPc cfg src s.pos →
    ∀ s', skip s = .ok s' → TopInv cfg B src Mtop s'

theorem labelLoop_top (hend : EndHyp cfg B src Mtop) (hep : EndEP cfg B src Mtop)
    {skip : IState → Except Panic IState}
    (hq : CalmFn skip) (hs : SkipHypT skip) (hg : SkipGrowHyp skip)
    (hT : SkipTopHyp cfg B src Mtop skip) (en : Bool) :
    ∀ (n : Nat) (level : Int) (st : IState), LInv st → TopInv cfg B src Mtop st →
      (RuleId.backticks ∈ cfg.chain → IFP cfg st) → (st.pos < st.posMax → EPc cfg src st.pos) →
      ∀ res st', labelLoop skip en n level st = .ok (res, st') → TopInv cfg B src Mtop st' := by
  intro n
  induction n with
  | zero => intro level st _ _ _ _ res st' h; simp [labelLoop] at h
  | succ n ih =>
    intro level st hi ht hifp hepos res st' h
    obtain ⟨w, hw, hsl, hlen⟩ := hi.window
    unfold labelLoop at h
    rw [hw] at h
    simp only [liftR] at h
    cases w with
    | nil =>
      simp only [Except.ok.injEq, Prod.mk.injEq] at h; obtain ⟨_, rfl⟩ := h
      exact ht
    | cons ch rest =>
      have hlt : st.pos < st.posMax := by
        have := Char.utf8Size_pos ch
        simp only [byteLen] at hlen; omega
      simp only at h
      split at h
      · simp only [Except.ok.injEq, Prod.mk.injEq] at h; obtain ⟨_, rfl⟩ := h
        exact ht
      · split at h
        · simp at h
        · next st1 hst1 =>
          obtain ⟨hm1, hp1, hle1, hb1⟩ := (hs st hi hlt).ok st1 hst1
          have hc1 := hq st st1 hst1
          have hi1 : LInv st1 := hi.step hc1 hm1 hle1 hb1
          have ht1 := hT st hi hlt ht hifp (hepos hlt) st1 hst1
          have hifp1 : RuleId.backticks ∈ cfg.chain → IFP cfg st1 := fun hbt =>
            ifp_of_entry hend ht1 hbt (lookup_mem (hg st hi hlt st1 hst1).2)
          have hepos1 : st1.pos < st1.posMax → EPc cfg src st1.pos := fun hl =>
            ep_of_entry hep ht1 (lookup_mem (hg st hi hlt st1 hst1).2) hl
          have hrec : ∀ level', labelLoop skip en n level' st1 = .ok (res, st') →
              TopInv cfg B src Mtop st' := fun l hl => ih l st1 hi1 ht1 hifp1 hepos1 res st' hl
          split at h
          · split at h
            · simp at h
            · split at h
              · exact hrec _ h
              · split at h
                · simp only [Except.ok.injEq, Prod.mk.injEq] at h; obtain ⟨_, rfl⟩ := h
                  exact ht1
                · exact hrec _ h
          · exact hrec _ h

theorem parseLinkLabel_top (hend : EndHyp cfg B src Mtop) (hep : EndEP cfg B src Mtop)
    {skip : IState → Except Panic IState}
    (hq : CalmFn skip) (hs : SkipHypT skip) (hg : SkipGrowHyp skip)
    (hT : SkipTopHyp cfg B src Mtop skip) (en : Bool) (fuel : Nat)
    (st : IState) (start : Nat) (hi : LInv st) (hb : Boundary st.src (start + 1))
    (hle : start + 1 ≤ st.posMax) (hch : ∃ r, slice st.src start st.posMax = .ok ('[' :: r))
    (ht : TopInv cfg B src Mtop st) :
    ∀ o st', parseLinkLabel skip fuel st start en = .ok (o, st') → TopInv cfg B src Mtop st' := by
  obtain ⟨r, hr⟩ := hch
  have hi0 : LInv { st with pos := start + 1 } :=
    ⟨hle, hb, hi.bmax, hi.wf, hi.stop, hi.memo⟩
  have ht0 : TopInv cfg B src Mtop { st with pos := start + 1 } := ht.of_eq rfl rfl rfl rfl
  have hifp0 : RuleId.backticks ∈ cfg.chain → IFP cfg { st with pos := start + 1 } :=
    fun _ hint _ => absurd hint (not_interior_after_bracket hr)
  have hepos0 : start + 1 < st.posMax → EPc cfg src (start + 1) :=
    fun _ _ => by rw [← ht.hsrc]; exact esc_after_bracket hr
  have hl := labelLoop_top hend hep hq hs hg hT en fuel 1 { st with pos := start + 1 } hi0 ht0 hifp0
    hepos0
  intro o st' h
  unfold parseLinkLabel at h
  simp only at h
  split at h
  · simp at h
  · next st1 hll =>
    simp only [Except.ok.injEq, Prod.mk.injEq] at h; obtain ⟨_, rfl⟩ := h
    exact (hl _ st1 hll).of_eq rfl rfl rfl rfl
  · next found st1 hll =>
    simp only [Except.ok.injEq, Prod.mk.injEq] at h; obtain ⟨_, rfl⟩ := h
    exact (hl _ st1 hll).of_eq rfl rfl rfl rfl

theorem parseLinkRef_top (hend : EndHyp cfg B src Mtop) (hep : EndEP cfg B src Mtop)
    {skip : IState → Except Panic IState}
    (hq : CalmFn skip) (hs : SkipHypT skip) (hg : SkipGrowHyp skip)
    (hT : SkipTopHyp cfg B src Mtop skip) (fuel : Nat) (st : IState)
    (labelStart labelEnd : Nat) (hi : LInv st)
    (hend' : ∃ r, slice st.src labelEnd st.posMax = .ok (']' :: r))
    (ht : TopInv cfg B src Mtop st) :
    ∀ o st', parseLinkRef cfg skip fuel st labelStart labelEnd = .ok (o, st') →
      TopInv cfg B src Mtop st' := by
  obtain ⟨r0, hr0⟩ := hend'
  obtain ⟨hle1, hb1⟩ := after_bracket hr0
  obtain ⟨w, hw⟩ := slice_ok_of hb1 hi.bmax hle1
  intro o st'
  unfold parseLinkRef
  rw [hw, liftR_liftOps_ok]
  simp only
  rcases w with _ | ⟨c, r1⟩
  · simp only
    ref_tail ht
  · by_cases hcb : c = '['
    · subst hcb
      have hbr : Boundary st.src (labelEnd + 1 + 1) ∧ labelEnd + 1 + 1 ≤ st.posMax := by
        have e1 : ('[' : Char).utf8Size = 1 := by decide
        constructor
        · have := boundary_in_slice (u := ['[']) (v := r1) hw
          simpa [byteLen, e1] using this
        · have := (slice_boundaries hw).2.2
          simp only [byteLen, e1] at this; omega
      have hlab := parseLinkLabel_top hend hep hq hs hg hT false fuel st (labelEnd + 1) hi hbr.1 hbr.2
        ⟨r1, hw⟩ ht
      simp only
      cases hpl : parseLinkLabel skip fuel st (labelEnd + 1) false with
      | error e => intro h; simp at h
      | ok p =>
        obtain ⟨o1, st1⟩ := p
        have hn1 := hlab _ _ hpl
        cases o1 with
        | none =>
          simp only
          ref_tail hn1
        | some x =>
          simp only
          cases hsl : liftR (liftOps (slice st.src (labelEnd + 1 + 1) x)) with
          | error e => intro h; simp at h
          | ok l =>
            simp only
            ref_tail hn1
    · simp only [List.cons.injEq, hcb, false_and, imp_self, implies_true]
      ref_tail ht

theorem parseLink_top (hend : EndHyp cfg B src Mtop) (hep : EndEP cfg B src Mtop)
    {skip : IState → Except Panic IState}
    (hq : CalmFn skip) (hs : SkipHypT skip) (hg : SkipGrowHyp skip)
    (hT : SkipTopHyp cfg B src Mtop skip) (fuel : Nat) (st : IState)
    (pos : Nat) (en : Bool) (hi : LInv st) (hb : Boundary st.src (pos + 1))
    (hle : pos + 1 ≤ st.posMax) (hch : ∃ r, slice st.src pos st.posMax = .ok ('[' :: r))
    (ht : TopInv cfg B src Mtop st) :
    ∀ o st', parseLink cfg skip fuel st pos en = .ok (o, st') → TopInv cfg B src Mtop st' := by
  have hlabT := parseLinkLabel_T hq hs en fuel st pos hi hb hle
  have hlab := parseLinkLabel_top hend hep hq hs hg hT en fuel st pos hi hb hle hch ht
  intro o st'
  unfold parseLink
  cases hpl : parseLinkLabel skip fuel st pos en with
  | error e => intro h; simp at h
  | ok p =>
    obtain ⟨o1, st1⟩ := p
    have hn1 := hlab _ _ hpl
    obtain ⟨hi1, hc1, hp1, hx⟩ := hlabT.2 _ _ hpl
    cases o1 with
    | none =>
      simp only
      intro h
      simp only [Except.ok.injEq, Prod.mk.injEq] at h; obtain ⟨_, rfl⟩ := h
      exact hn1
    | some labelEnd =>
      simp only
      obtain ⟨hx1, rx, hrx⟩ := hx labelEnd rfl
      have href := parseLinkRef_top (cfg := cfg) hend hep hq hs hg hT fuel st1 (pos + 1) labelEnd hi1
        (by rw [hc1.src, hc1.posMax]; exact ⟨rx, hrx⟩) hn1
      generalize Link.parseInlineTail _ _ _ _ = r
      cases r with
      | error e => intro h; simp at h
      | ok oi =>
        cases oi with
        | some il =>
          simp only
          intro h
          simp only [Except.ok.injEq, Prod.mk.injEq] at h; obtain ⟨_, rfl⟩ := h
          exact hn1
        | none =>
          simp only
          exact href o st'

theorem linkRule_silent_top (hend : EndHyp cfg B src Mtop) (hep : EndEP cfg B src Mtop)
    {skip tok : IState → Except Panic IState}
    (hq : CalmFn skip) (hs : SkipHypT skip) (hg : SkipGrowHyp skip)
    (hT : SkipTopHyp cfg B src Mtop skip) (fuel : Nat)
    (mk : List Nat → Option (List Char) → Val) (en : Bool) (offset : Nat) (st : IState)
    (hi : LInv st) (hb : Boundary st.src (st.pos + offset + 1))
    (hle : st.pos + offset + 1 ≤ st.posMax)
    (hch : ∃ r, slice st.src (st.pos + offset) st.posMax = .ok ('[' :: r))
    (ht : TopInv cfg B src Mtop st) :
    ∀ o st', linkRule cfg skip tok fuel mk en offset st true = .ok (o, st') →
      TopInv cfg B src Mtop st' := by
  have hpl := parseLink_top (cfg := cfg) hend hep hq hs hg hT fuel st (st.pos + offset) en hi hb hle
    hch ht
  intro o st'
  unfold linkRule
  simp only
  cases hp : parseLink cfg skip fuel st (st.pos + offset) en with
  | error e => intro h; simp at h
  | ok p =>
    obtain ⟨o1, st1⟩ := p
    have hn1 := hpl _ _ hp
    cases o1 with
    | none =>
      simp only
      intro h
      simp only [Except.ok.injEq, Prod.mk.injEq] at h; obtain ⟨_, rfl⟩ := h
      exact hn1
    | some res =>
      simp only [if_true]
      split
      · intro h; simp at h
      · intro h
        simp only [Except.ok.injEq, Prod.mk.injEq] at h; obtain ⟨_, rfl⟩ := h
        exact hn1

/-! ## flat rules -/

/-- **a flat rule keeps `TopInv`**, in both modes (`rule…_backticks`, `runRule_backticks_unchanged`,
    `runRule_flat_frame` are those of `Lemmas/MemoSafeLamTop.lean`) -/
theorem runRule_flat_top (hB : BackOK cfg B) {skip tok : IState → Except Panic IState} {fuel : Nat}
    {id : RuleId} (hflat : id.isFlat = true) {st : IState} {silent : Bool} {o : Option Nat}
    {st' : IState} (h : runRule cfg skip tok fuel id st silent = .ok (o, st'))
    (ht : TopInv cfg B src Mtop st) (hepos : EPc cfg src st.pos) : TopInv cfg B src Mtop st' := by
  have hf := runRule_flat_frame hflat h
  have hc := runRule_flat_cache hflat h
  by_cases hid : id = .backticks
  · subst hid
    unfold runRule at h
    have hr := liftR_ok.mp h
    exact ht.transfer hf.src hf.posMax hc (insideSub_ruleBackticks hr)
      (hB st silent o st' hr ht.nocut_st (by rw [ht.hsrc]; exact hepos) ht.back)
  · exact ht.of_eq hf.src hf.posMax hc (runRule_backticks_unchanged hid hflat h)

/-! ## one rule, the chain, one `skip_token` step — look-ahead mode -/

theorem runRule_silent_top (hB : BackOK cfg B) (hend : EndHyp cfg B src Mtop)
    (hep : EndEP cfg B src Mtop) {skip tok : IState → Except Panic IState}
    (hq : CalmFn skip) (hs : SkipHypT skip) (hg : SkipGrowHyp skip)
    (hT : SkipTopHyp cfg B src Mtop skip) (fuel : Nat)
    (id : RuleId) (st : IState) (hi : LInv st) (hlt : st.pos < st.posMax)
    (ht : TopInv cfg B src Mtop st) (hepos : EPc cfg src st.pos) :
    ∀ o st', runRule cfg skip tok fuel id st true = .ok (o, st') → TopInv cfg B src Mtop st' := by
  by_cases hflat : id.isFlat = true
  · intro o st' h
    exact runRule_flat_top hB hflat h ht hepos
  · obtain ⟨w, hw, hsl, hlen⟩ := hi.window
    cases id with
    | link =>
      unfold runRule
      simp only
      unfold ruleLink
      rw [hw]
      simp only [liftR]
      cases w with
      | nil => simp only [byteLen] at hlen; omega
      | cons c rest =>
        simp only
        by_cases hcb : c = '['
        · subst hcb
          simp only [ne_eq, not_true_eq_false, if_false]
          obtain ⟨hb, hle⟩ := after_first (by decide) hsl
          exact linkRule_silent_top (cfg := cfg) (tok := tok) hend hep hq hs hg hT fuel Val.link
            false 0 st hi hb hle ⟨rest, hsl⟩ ht
        · simp only [ne_eq, hcb, not_false_eq_true, if_true]
          intro o st' h
          simp only [Except.ok.injEq, Prod.mk.injEq] at h; obtain ⟨_, rfl⟩ := h
          exact ht
    | image =>
      unfold runRule
      simp only
      unfold ruleImage
      rw [hw]
      simp only [liftR]
      split
      · next e heq => simp at heq
      · next r heq =>
        simp only [Except.ok.injEq] at heq
        subst heq
        obtain ⟨hb, hle⟩ := after_second (by decide) (by decide) hsl
        exact linkRule_silent_top (cfg := cfg) (tok := tok) hend hep hq hs hg hT fuel Val.image
          true 1 st hi hb hle ⟨r, Inline.slice_tail_of_cons (by decide) hsl⟩ ht
      · intro o st' h
        simp only [Except.ok.injEq, Prod.mk.injEq] at h; obtain ⟨_, rfl⟩ := h
        exact ht
    | _ => simp [RuleId.isFlat] at hflat

theorem silentBumped_top {run : IState → Bool → RuleRes} {st : IState}
    (h : ∀ o st', run { st with level := st.level + 1 } true = .ok (o, st') →
      TopInv cfg B src Mtop st') :
    ∀ o st', silentBumped run st = .ok (o, st') → TopInv cfg B src Mtop st' := by
  intro o st'
  unfold silentBumped
  cases hr : run { st with level := st.level + 1 } true with
  | error e => intro h; simp at h
  | ok q =>
    obtain ⟨r, st1⟩ := q
    have hn1 := h r st1 hr
    simp only
    split
    · intro h; simp at h
    · intro h
      simp only [Except.ok.injEq, Prod.mk.injEq] at h; obtain ⟨_, rfl⟩ := h
      exact hn1.of_eq rfl rfl rfl rfl

theorem firstRule_silent_top {run : RuleId → IState → RuleRes}
    (hT : ∀ id s, LInv s → s.pos < s.posMax → SilT s (run id s))
    (hrun : ∀ id s, LInv s → s.pos < s.posMax → TopInv cfg B src Mtop s → EPc cfg src s.pos →
      ∀ o s', run id s = .ok (o, s') → TopInv cfg B src Mtop s') :
    ∀ (rules : List RuleId) (st : IState), LInv st → st.pos < st.posMax →
      TopInv cfg B src Mtop st → EPc cfg src st.pos →
      ∀ o st', firstRule run rules st = .ok (o, st') → TopInv cfg B src Mtop st' := by
  intro rules
  induction rules with
  | nil =>
    intro st _ _ ht _ o st' h
    unfold firstRule at h
    simp only [Except.ok.injEq, Prod.mk.injEq] at h; obtain ⟨_, rfl⟩ := h
    exact ht
  | cons r rs ih =>
    intro st hi hlt ht hepos o st'
    have h1 := hT r st hi hlt
    have n1 := hrun r st hi hlt ht hepos
    unfold firstRule
    cases hr : run r st with
    | error e => intro h; simp at h
    | ok q =>
      obtain ⟨o1, st1⟩ := q
      have hn1 := n1 o1 st1 hr
      cases o1 with
      | some n =>
        simp only
        intro h
        simp only [Except.ok.injEq, Prod.mk.injEq] at h; obtain ⟨_, rfl⟩ := h
        exact hn1
      | none =>
        simp only
        obtain ⟨a, b, c, _⟩ := h1.ok _ _ hr
        exact ih st1 a (by rw [c, b.posMax]; exact hlt) hn1 (by rw [c]; exact hepos) o st'

/-- one run of the chain in look-ahead mode inside `skip_token`, behind a failed `lookup`: the entry
    it adds has THIS step as its witness (with `IFP` of its state), and a unit entry that ends strictly
    inside a backtick run is marked (`MarksHyp`) -/
theorem skipStep_top (hB : BackOK cfg B) (hend : EndHyp cfg B src Mtop) (hep : EndEP cfg B src Mtop)
    (hmarks : MarksHyp cfg B)
    {skip tok : IState → Except Panic IState}
    (hq : CalmFn skip) (hs : SkipHypT skip) (hg : SkipGrowHyp skip)
    (hT : SkipTopHyp cfg B src Mtop skip) (fuel : Nat) (st : IState)
    (hi : LInv st) (hlt : st.pos < st.posMax) (hmiss : st.cache.lookup st.pos = none)
    (ht : TopInv cfg B src Mtop st) (hifp : RuleId.backticks ∈ cfg.chain → IFP cfg st)
    (hepos : EPc cfg src st.pos) :
    ∀ st', skipStep cfg skip tok fuel st = .ok st' → TopInv cfg B src Mtop st' := by
  have hTrun : ∀ id s, LInv s → s.pos < s.posMax →
      SilT s (silentBumped (runRule cfg skip tok fuel id) s) := by
    intro id s his hls
    apply silentBumped_T
    exact runRule_silent_T hq hs fuel id _ ⟨his.le, his.bpos, his.bmax, his.wf, his.stop, his.memo⟩ hls
  have hGrun : ∀ id s, LInv s → s.pos < s.posMax → ∀ o s',
      silentBumped (runRule cfg skip tok fuel id) s = .ok (o, s') →
      Grow (s.pos + 1) s.posMax s.cache s'.cache := by
    intro id s his hls
    apply silentBumped_grow
    exact runRule_silent_grow hq hs hg fuel id _
      ⟨his.le, his.bpos, his.bmax, his.wf, his.stop, his.memo⟩ hls
  have hTop : ∀ id s, LInv s → s.pos < s.posMax → TopInv cfg B src Mtop s → EPc cfg src s.pos →
      ∀ o s', silentBumped (runRule cfg skip tok fuel id) s = .ok (o, s') →
        TopInv cfg B src Mtop s' := by
    intro id s his hls hts heps
    apply silentBumped_top
    exact runRule_silent_top hB hend hep hq hs hg hT fuel id _
      ⟨his.le, his.bpos, his.bmax, his.wf, his.stop, his.memo⟩ hls (hts.of_eq rfl rfl rfl rfl) heps
  have hstepT := skipStep_T (cfg := cfg) (tok := tok) hq hs fuel st hi hlt
  intro st' h
  have hle : st'.pos ≤ Mtop := by rw [← ht.hmax]; exact (hstepT.ok st' h).2.2.1
  -- the witness of the new entry: this very step
  have hjust : ∀ m, LookupMono st'.cache m → Just cfg B src Mtop m st.pos st'.pos :=
    fun m hm => ⟨skip, tok, fuel, st, st', hq, hs, hg, hi, ht.hsrc, ht.hmax, rfl, hlt, ht.back, hmiss,
      h, rfl, hm, hifp, hepos⟩
  -- the mark of a new unit entry that ends strictly inside a backtick run
  have hnew : RuleId.backticks ∈ cfg.chain → st'.pos = st.pos + 1 → Interior src (st.pos + 1) →
      st'.backticks.insideFailed.contains (st.pos + 1) = true := by
    intro hbt hv hint
    have hlt1 : st.pos + 1 < st.posMax := by
      rcases Nat.lt_or_ge (st.pos + 1) st.posMax with h1 | h1
      · exact h1
      · exfalso
        have e : st.pos + 1 = Mtop := by rw [← ht.hmax]; omega
        rw [e] at hint
        exact ht.nocut hint
    exact hmarks skip tok fuel st st' ht.back hbt (by rw [ht.hsrc]; exact hint) hlt1 h hv
  -- the state the chain returned
  have key : ∀ (o : Option Nat) (st1 : IState),
      firstRule (fun id s => silentBumped (runRule cfg skip tok fuel id) s) cfg.chain st = .ok (o, st1) →
      st'.src = st1.src → st'.posMax = st1.posMax → st'.backticks = st1.backticks →
      st'.cache = cacheInsert st1.cache st.pos st'.pos → TopInv cfg B src Mtop st' := by
    intro o st1 he e1 e2 e3 e4
    have ht1 := firstRule_silent_top hTrun hTop cfg.chain st hi hlt ht hepos o st1 he
    have hgrow := firstRule_silent_grow hTrun hGrun cfg.chain st hi hlt o st1 he
    have hmiss1 : st1.cache.lookup st.pos = none := by
      rw [hgrow.low _ (by omega)]; exact hmiss
    refine ht1.insert hmiss1 e1 e2 e3 e4 hle (.inr ?_) hnew
    rw [← e4]
    exact hjust _ (LookupMono.refl _)
  unfold skipStep at h
  simp only at h
  split at h
  · simp at h
  · next len st1 he =>
    simp only [Except.ok.injEq] at h; subst h
    exact key _ _ he rfl rfl rfl rfl
  · next st1 he =>
    split at h
    · simp at h
    · next ch hch =>
      simp only [Except.ok.injEq] at h; subst h
      exact key _ _ he rfl rfl rfl rfl

/-- **the guarded `skip_token` keeps the invariant of the top frame**, at every fuel -/
theorem skip_top (hB : BackOK cfg B) (hend : EndHyp cfg B src Mtop) (hep : EndEP cfg B src Mtop)
    (hmarks : MarksHyp cfg B) :
    ∀ fuel : Nat, SkipTopHyp cfg B src Mtop (fun s => skipTokenG cfg true fuel s) := by
  intro fuel
  induction fuel with
  | zero => intro s _ _ _ _ _ s' h; simp [skipTokenG] at h
  | succ f ih =>
    intro s hi hlt ht hifp hepos s' h
    simp only at h
    unfold skipTokenG at h
    split at h
    · next x hx =>
      split at h
      · simp at h
      · simp only [Except.ok.injEq] at h; subst h
        exact ht.of_eq rfl rfl rfl rfl
    · next hmiss =>
      split at h
      · exact skipStep_top hB hend hep hmarks (skipTokenG_calm cfg true f) (skipTokenG_T cfg f)
          (skip_grow cfg f) ih f s hi hlt hmiss ht hifp hepos s' h
      · simp only [Except.ok.injEq] at h; subst h
        refine ht.insert hmiss rfl rfl rfl rfl (by rw [ht.hmax]; exact Nat.le_refl _) (.inl ht.hmax) ?_
        intro _ hv hint
        exfalso
        have e : s.pos + 1 = Mtop := by rw [← ht.hmax]; exact hv.symm
        rw [e] at hint
        exact ht.nocut hint

/-- `parse_link` over the guarded `skip_token` at a fuel keeps the invariant of the top frame -/
theorem parseLink_top_G (hB : BackOK cfg B) (hend : EndHyp cfg B src Mtop)
    (hep : EndEP cfg B src Mtop) (hmarks : MarksHyp cfg B)
    (f fuel : Nat) (st : IState) (pos : Nat) (en : Bool)
    (hi : LInv st) (hb : Boundary st.src (pos + 1)) (hle : pos + 1 ≤ st.posMax)
    (hch : ∃ r, slice st.src pos st.posMax = .ok ('[' :: r))
    (ht : TopInv cfg B src Mtop st) :
    ∀ o st', parseLink cfg (fun s => skipTokenG cfg true f s) fuel st pos en = .ok (o, st') →
      TopInv cfg B src Mtop st' :=
  parseLink_top hend hep (skipTokenG_calm cfg true f) (skipTokenG_T cfg f) (skip_grow cfg f)
    (skip_top hB hend hep hmarks f) fuel st pos en hi hb hle hch ht

/-! # PART 2 — real mode in the top frame: guarded = model, generic in the nested-entry predicate -/

/-- at the states satisfying `P` the two nested tokenizers agree, and the (first) one leaves memo and
    text alone, only grows `inside_failed`, and keeps the code-span cache invariant -/
def TokEqAt (B : List Char → CodePair.Cache → Prop) (P : IState → Prop)
    (tokG tokM : IState → Except Panic IState) : Prop :=
  ∀ s, P s → tokG s = tokM s ∧
    ∀ s', tokG s = .ok s' → s'.cache = s.cache ∧ s'.src = s.src ∧
      InsideSub s.backticks s'.backticks ∧ (B s.src s.backticks → B s'.src s'.backticks)

/-- the real link rule of the top frame enters nested frames only at `P`-states (`nestedState` is the
    one of `Lemmas/MemoSafeLamTop.lean`) -/
def EntryP (cfg : Cfg) (B : List Char → CodePair.Cache → Prop) (src : List Char) (Mtop : Nat)
    (skipG : IState → Except Panic IState) (P : IState → Prop) : Prop :=
  ∀ (lo : Nat) (st : IState) (offset : Nat) (en : Bool) (fuel : Nat) (res : LinkRes) (st1 : IState),
    Good lo st → MemoB st → TopInv cfg B src Mtop st →
    Boundary st.src (st.pos + offset + 1) → st.pos + offset + 1 ≤ st.posMax →
    (∃ r, slice st.src (st.pos + offset) st.posMax = .ok ('[' :: r)) →
    parseLink cfg skipG fuel st (st.pos + offset) en = .ok (some res, st1) →
    TopInv cfg B src Mtop st1 → P (nestedState st1 res)

theorem linkRule_real_top (hend : EndHyp cfg B src Mtop) (hep : EndEP cfg B src Mtop)
    {skipG skipM tokG tokM : IState → Except Panic IState}
    {P : IState → Prop} (hq : CalmFn skipG) (hs : SkipHypT skipG) (hgr : SkipGrowHyp skipG)
    (hT : SkipTopHyp cfg B src Mtop skipG) (he : SkipEqHyp skipG skipM)
    (hte : TokEqAt B P tokG tokM) (hP : EntryP cfg B src Mtop skipG P) (fuel : Nat)
    (mk : List Nat → Option (List Char) → Val) (en : Bool) (offset : Nat) {lo : Nat} (st : IState)
    (hg : Good lo st) (hm : MemoB st) (hb : Boundary st.src (st.pos + offset + 1))
    (hle : st.pos + offset + 1 ≤ st.posMax)
    (hch : ∃ r, slice st.src (st.pos + offset) st.posMax = .ok ('[' :: r))
    (htop : TopInv cfg B src Mtop st) :
    linkRule cfg skipG tokG fuel mk en offset st false =
      linkRule cfg skipM tokM fuel mk en offset st false ∧
    ∀ o st', linkRule cfg skipG tokG fuel mk en offset st false = .ok (o, st') →
      TopInv cfg B src Mtop st' := by
  have hi := hg.linv hm
  have hpl := parseLink_eq (cfg := cfg) hq hs he fuel st (st.pos + offset) 0 en hi hb hle htop.closed
    (Nat.zero_le _)
  have hplTop := parseLink_top (cfg := cfg) hend hep hq hs hgr hT fuel st (st.pos + offset) en hi hb
    hle hch htop
  unfold linkRule
  simp only
  rw [← hpl.1]
  cases hp : parseLink cfg skipG fuel st (st.pos + offset) en with
  | error e => exact ⟨rfl, by intro o st' h; simp at h⟩
  | ok p =>
    obtain ⟨o1, st1⟩ := p
    have ht1 := hplTop _ _ hp
    cases o1 with
    | none =>
      simp only
      refine ⟨by trivial, ?_⟩
      intro o st' h
      simp only [Except.ok.injEq, Prod.mk.injEq] at h; obtain ⟨_, rfl⟩ := h
      exact ht1
    | some res =>
      have hPs : P (nestedState st1 res) :=
        hP lo st offset en fuel res st1 hg hm htop hb hle hch hp ht1
      obtain ⟨heq, hpost⟩ := hte _ hPs
      unfold nestedState at heq hpost
      simp only [Bool.false_eq_true, if_false]
      rw [← heq]
      cases hG : tokG (IState.mk st1.src st1.srcmap res.labelStart res.labelEnd
          (st1.level + 1) (st1.linkLevel + 1) st1.cache st1.backticks [] []) with
      | error e => exact ⟨by trivial, by intro o st' h; simp at h⟩
      | ok st3 =>
        simp only
        refine ⟨by trivial, ?_⟩
        obtain ⟨hc3, hsrc3, hsub3, hb3⟩ := hpost st3 hG
        intro o st' h
        split at h
        · simp at h
        · split at h
          · simp at h
          · split at h
            · simp at h
            · simp only [Except.ok.injEq, Prod.mk.injEq] at h; obtain ⟨_, rfl⟩ := h
              exact ht1.transfer hsrc3 rfl hc3 hsub3 (hb3 ht1.back)

theorem runRule_real_top (hB : BackOK cfg B) (hend : EndHyp cfg B src Mtop)
    (hep : EndEP cfg B src Mtop) {skipG skipM tokG tokM : IState → Except Panic IState}
    {P : IState → Prop} (hq : CalmFn skipG) (hs : SkipHypT skipG) (hgr : SkipGrowHyp skipG)
    (hT : SkipTopHyp cfg B src Mtop skipG) (he : SkipEqHyp skipG skipM)
    (hte : TokEqAt B P tokG tokM) (hP : EntryP cfg B src Mtop skipG P) (fuel : Nat) (id : RuleId)
    {lo : Nat} (st : IState) (hg : Good lo st) (hm : MemoB st) (hlt : st.pos < st.posMax)
    (htop : TopInv cfg B src Mtop st) (hepos : EPc cfg src st.pos) :
    runRule cfg skipG tokG fuel id st false = runRule cfg skipM tokM fuel id st false ∧
    ∀ o st', runRule cfg skipG tokG fuel id st false = .ok (o, st') → TopInv cfg B src Mtop st' := by
  by_cases hflat : id.isFlat = true
  · constructor
    · unfold runRule
      cases id with
      | link => simp [RuleId.isFlat] at hflat
      | image => simp [RuleId.isFlat] at hflat
      | _ => rfl
    · intro o st' h
      exact runRule_flat_top hB hflat h htop hepos
  · have hi := hg.linv hm
    obtain ⟨w, hw, hsl, hlen⟩ := hi.window
    cases id with
    | link =>
      unfold runRule
      simp only
      unfold ruleLink
      rw [hw]
      simp only [liftR]
      cases w with
      | nil => simp only [byteLen] at hlen; omega
      | cons c rest =>
        simp only
        by_cases hcb : c = '['
        · subst hcb
          simp only [ne_eq, not_true_eq_false, if_false]
          obtain ⟨hb, hle⟩ := after_first (by decide) hsl
          exact linkRule_real_top hend hep hq hs hgr hT he hte hP fuel Val.link false 0 st hg hm hb hle
            ⟨rest, hsl⟩ htop
        · simp only [ne_eq, hcb, not_false_eq_true, if_true]
          refine ⟨by trivial, ?_⟩
          intro o st' h
          simp only [Except.ok.injEq, Prod.mk.injEq] at h; obtain ⟨_, rfl⟩ := h
          exact htop
    | image =>
      unfold runRule
      simp only
      unfold ruleImage
      rw [hw]
      simp only [liftR]
      split
      · next e heq => simp at heq
      · next r heq =>
        simp only [Except.ok.injEq] at heq
        subst heq
        obtain ⟨hb, hle⟩ := after_second (by decide) (by decide) hsl
        exact linkRule_real_top hend hep hq hs hgr hT he hte hP fuel Val.image true 1 st hg hm hb hle
          ⟨r, Inline.slice_tail_of_cons (by decide) hsl⟩ htop
      · refine ⟨by trivial, ?_⟩
        intro o st' h
        simp only [Except.ok.injEq, Prod.mk.injEq] at h; obtain ⟨_, rfl⟩ := h
        exact htop
    | _ => simp [RuleId.isFlat] at hflat

theorem firstRule_real_top (hB : BackOK cfg B) (hend : EndHyp cfg B src Mtop)
    (hep : EndEP cfg B src Mtop)
    (hsz : ∀ mk csw, RuleId.emph mk csw ∈ cfg.chain → mk.utf8Size = 1)
    {skipG skipM tokG tokM : IState → Except Panic IState} {P : IState → Prop}
    (hq : CalmFn skipG) (hs : SkipHypT skipG) (hgr : SkipGrowHyp skipG)
    (hT : SkipTopHyp cfg B src Mtop skipG)
    (he : SkipEqHyp skipG skipM) (ht : TokHypT tokG) (hr : RangesFn tokG)
    (hte : TokEqAt B P tokG tokM) (hP : EntryP cfg B src Mtop skipG P) (fuel : Nat) {lo : Nat} :
    ∀ (rules : List RuleId), (∀ id ∈ rules, id ∈ cfg.chain) →
      ∀ (st : IState), Good lo st → MemoB st → st.pos < st.posMax → TopInv cfg B src Mtop st →
      EPc cfg src st.pos →
      firstRule (fun id s => runRule cfg skipG tokG fuel id s false) rules st =
        firstRule (fun id s => runRule cfg skipM tokM fuel id s false) rules st ∧
      ∀ o st', firstRule (fun id s => runRule cfg skipG tokG fuel id s false) rules st = .ok (o, st') →
        TopInv cfg B src Mtop st' := by
  intro rules
  induction rules with
  | nil =>
    intro _ st _ _ _ htop _
    unfold firstRule
    refine ⟨rfl, ?_⟩
    intro o st' h
    simp only [Except.ok.injEq, Prod.mk.injEq] at h; obtain ⟨_, rfl⟩ := h
    exact htop
  | cons r rs ih =>
    intro hall st hg hm hlt htop hepos
    obtain ⟨e1, n1⟩ := runRule_real_top hB hend hep hq hs hgr hT he hte hP fuel r st hg hm hlt htop
      hepos
    have hRT := runRule_real_T hsz hq hs ht hr fuel (hall r (by simp)) st hg hm hlt
    unfold firstRule
    rw [← e1]
    cases hrG : runRule cfg skipG tokG fuel r st false with
    | error e => exact ⟨rfl, by intro o st' h; simp at h⟩
    | ok p =>
      obtain ⟨o1, st1⟩ := p
      have ht1 := n1 o1 st1 hrG
      cases o1 with
      | some n =>
        simp only
        refine ⟨by trivial, ?_⟩
        intro o st' h
        simp only [Except.ok.injEq, Prod.mk.injEq] at h; obtain ⟨_, rfl⟩ := h
        exact ht1
      | none =>
        simp only
        have s1 := hRT.ok _ _ hrG
        have hg1 : Good lo st1 := Good.of_add_zero (by simpa using s1.good)
        have hp1 := s1.nonePos rfl
        exact ih (fun id hid => hall id (List.mem_cons_of_mem _ hid)) st1 hg1 s1.memo
          (by rw [hp1, s1.frame.posMax]; exact hlt) ht1 (by rw [hp1]; exact hepos)

/-- **in the top frame one iteration of the guarded tokenizer loop is one iteration of the model's** -/
theorem tokStep_top (hB : BackOK cfg B) (hend : EndHyp cfg B src Mtop)
    (hep : EndEP cfg B src Mtop)
    (hsz : ∀ mk csw, RuleId.emph mk csw ∈ cfg.chain → mk.utf8Size = 1)
    {skipG skipM tokG tokM : IState → Except Panic IState} {P : IState → Prop}
    (hq : CalmFn skipG) (hs : SkipHypT skipG) (hgr : SkipGrowHyp skipG)
    (hT : SkipTopHyp cfg B src Mtop skipG)
    (he : SkipEqHyp skipG skipM) (ht : TokHypT tokG) (hr : RangesFn tokG)
    (hte : TokEqAt B P tokG tokM) (hP : EntryP cfg B src Mtop skipG P) (fuel : Nat) {lo : Nat}
    (st : IState) (hg : Good lo st) (hm : MemoB st) (hlt : st.pos < st.posMax)
    (htop : TopInv cfg B src Mtop st) (hepos : EPc cfg src st.pos) :
    tokStep cfg skipG tokG fuel st = tokStep cfg skipM tokM fuel st ∧
    ∀ st', tokStep cfg skipG tokG fuel st = .ok st' → TopInv cfg B src Mtop st' := by
  -- the fall-back keeps the invariant
  have hfall : ∀ (st1 st' : IState), TopInv cfg B src Mtop st1 →
      (match firstChar st1 with
        | .error e => .error e
        | .ok ch =>
          match liftR (st1.pushText st1.pos (st1.pos + ch.utf8Size)) with
          | .error e => .error e
          | .ok st'' => .ok { st'' with pos := st''.pos + ch.utf8Size }) = (.ok st' : Except Panic IState) →
      TopInv cfg B src Mtop st' := by
    intro st1 st' ht1 h
    split at h
    · simp at h
    · next ch _ =>
      split at h
      · simp at h
      · next st2 hp =>
        simp only [Except.ok.injEq] at h; subst h
        obtain ⟨cs, _, rfl⟩ := pushText_eq (liftR_ok.mp hp)
        exact ht1.of_eq rfl rfl rfl rfl
  unfold tokStep
  simp only
  by_cases hl : st.level < cfg.maxNesting
  · simp only [if_pos hl]
    obtain ⟨e1, n1⟩ := firstRule_real_top hB hend hep hsz hq hs hgr hT he ht hr hte hP fuel cfg.chain
      (fun _ h => h) st hg hm hlt htop hepos
    rw [← e1]
    cases hfG : firstRule (fun id s => runRule cfg skipG tokG fuel id s false) cfg.chain st with
    | error e => exact ⟨rfl, by intro st' h; simp at h⟩
    | ok p =>
      obtain ⟨o1, st1⟩ := p
      have ht1 := n1 o1 st1 hfG
      cases o1 with
      | some len =>
        simp only
        refine ⟨by trivial, ?_⟩
        intro st' h
        simp only [Except.ok.injEq] at h; subst h
        exact ht1.of_eq rfl rfl rfl rfl
      | none =>
        simp only
        exact ⟨by trivial, fun st' h => hfall st1 st' ht1 h⟩
  · simp only [if_neg hl]
    exact ⟨by trivial, fun st' h => hfall st st' htop h⟩

/-! # PART 3 — the loop and the parser -/

/-- **in the top frame the guarded tokenizer IS the model tokenizer**, at every fuel, provided the
    nested label runs agree at the `P`-states and the link rule enters nested frames only there -/
theorem top_total (hB : BackOK cfg B) (hend : EndHyp cfg B src Mtop) (hep : EndEP cfg B src Mtop)
    (hstep : StepEP cfg) (hmarks : MarksHyp cfg B)
    (hsz : ∀ mk csw, RuleId.emph mk csw ∈ cfg.chain → mk.utf8Size = 1) {P : IState → Prop}
    (hNE : ∀ f, TokEqAt B P (fun s => tokLoopG cfg true f s.posMax s)
      (fun s => tokLoop cfg f s.posMax s))
    (hP : ∀ f, EntryP cfg B src Mtop (fun s => skipTokenG cfg true f s) P) :
    ∀ (fuel lo : Nat) (st : IState), Good lo st → MemoB st → TopInv cfg B src Mtop st →
      (st.pos < st.posMax → EPc cfg src st.pos) → st.level < cfg.maxNesting →
      tokLoopG cfg true fuel st.posMax st = tokLoop cfg fuel st.posMax st ∧
      ∀ st', tokLoopG cfg true fuel st.posMax st = .ok st' → TopInv cfg B src Mtop st' := by
  intro fuel
  induction fuel with
  | zero =>
    intro lo st hg hm htop _ _
    unfold tokLoopG tokLoop
    by_cases hlt : st.pos < st.posMax
    · simp only [if_pos hlt]
      exact ⟨by trivial, by intro st' h; simp at h⟩
    · simp only [if_neg hlt]
      refine ⟨by trivial, ?_⟩
      intro st' h
      simp only [Except.ok.injEq] at h; subst h
      exact htop
  | succ f ih =>
    intro lo st hg hm htop hepos hlev
    unfold tokLoopG tokLoop
    by_cases hlt : st.pos < st.posMax
    · simp only [if_pos hlt]
      have hq := skipTokenG_calm cfg true f
      have hsT := skipTokenG_T cfg f
      have hr := rangesFnG cfg true f
      have ht : TokHypT (fun s => tokLoopG cfg true f s.posMax s) :=
        fun lo s hg hm => ((guarded_total cfg hsz f).2 lo s hg hm).tokT
      obtain ⟨e1, n1⟩ := tokStep_top hB hend hep hsz hq hsT (skip_grow cfg f)
        (skip_top hB hend hep hmarks f) (skip_guard_free cfg f) ht hr (hNE f) (hP f) f st hg hm hlt htop
        (hepos hlt)
      rw [← e1]
      cases hsG : tokStep cfg (fun s => skipTokenG cfg true f s)
          (fun s => tokLoopG cfg true f s.posMax s) f st with
      | error e => exact ⟨rfl, by intro st' h; simp at h⟩
      | ok st1 =>
        simp only
        obtain ⟨hg1, hm1, f1, _⟩ := (tokStep_T hsz hq hsT ht hr f st hg hm hlt).2 st1 hsG
        have hepos1 : st1.pos < st1.posMax → EPc cfg src st1.pos := by
          intro hl
          rw [f1.posMax] at hl
          have := hstep _ _ f st st1 hq hsG hlev hlt (by rw [htop.hsrc]; exact hepos hlt) hl
          rw [htop.hsrc] at this
          exact this
        have hrec := ih lo st1 hg1 hm1 (n1 st1 hsG) hepos1 (by rw [f1.level]; exact hlev)
        rw [f1.posMax] at hrec
        exact hrec
    · simp only [if_neg hlt]
      refine ⟨by trivial, ?_⟩
      intro st' h
      simp only [Except.ok.injEq] at h; subst h
      exact htop

theorem topInv_init {content : List Char} {mapping : Srcmap}
    (hB0 : B content CodePair.Cache.empty)
    (hnc : CodePair.NoCut '`' content (IState.init content mapping).posMax) :
    TopInv cfg B content (IState.init content mapping).posMax (IState.init content mapping) :=
  ⟨rfl, rfl, hB0, by intro k v h; simp [IState.init] at h, by
    intro k v h; simp [IState.init] at h, hnc, by intro _ p hp; simp [IState.init] at hp⟩

/-- **the guarded inline parser IS the model inline parser** (same tree, same error), under the
    hypotheses on the nested frames and on the text -/
theorem parseInlineG_eq (hB : BackOK cfg B)
    (hsz : ∀ mk csw, RuleId.emph mk csw ∈ cfg.chain → mk.utf8Size = 1) {P : IState → Prop}
    {content : List Char} {mapping : Srcmap} (hm : MapOK content mapping)
    (hB0 : B content CodePair.Cache.empty)
    (hnc : CodePair.NoCut '`' content (IState.init content mapping).posMax)
    (hend : EndHyp cfg B content (IState.init content mapping).posMax)
    (hep : EndEP cfg B content (IState.init content mapping).posMax) (hstep : StepEP cfg)
    (hep0 : EPc cfg content (IState.init content mapping).pos) (hlev0 : 0 < cfg.maxNesting)
    (hmarks : MarksHyp cfg B)
    (hNE : ∀ f, TokEqAt B P (fun s => tokLoopG cfg true f s.posMax s)
      (fun s => tokLoop cfg f s.posMax s))
    (hP : ∀ f, EntryP cfg B content (IState.init content mapping).posMax
      (fun s => skipTokenG cfg true f s) P) :
    parseInlineG cfg content mapping = parseInline cfg content mapping := by
  obtain ⟨lo, _, hg⟩ := init_good hm
  have := (top_total hB hend hep hstep hmarks hsz hNE hP (topFuel cfg content) lo _ hg
    (memoB_init' content mapping) (topInv_init hB0 hnc) (fun _ => hep0) hlev0).1
  unfold parseInlineG parseInline tokenize
  rw [this]
  generalize tokLoop cfg _ _ _ = r
  cases r <;> rfl

/-- **`parseInline` is total** under the hypotheses on the nested frames and on the text: the guarded
    parser cannot panic (`Inline.parseInlineG_noRust`), the model parser cannot run out of fuel, and
    they are equal -/
theorem parseInline_total_of_nested (hB : BackOK cfg B)
    (hsz : ∀ mk csw, RuleId.emph mk csw ∈ cfg.chain → mk.utf8Size = 1) {P : IState → Prop}
    {content : List Char} {mapping : Srcmap} (hm : MapOK content mapping)
    (hB0 : B content CodePair.Cache.empty)
    (hnc : CodePair.NoCut '`' content (IState.init content mapping).posMax)
    (hend : EndHyp cfg B content (IState.init content mapping).posMax)
    (hep : EndEP cfg B content (IState.init content mapping).posMax) (hstep : StepEP cfg)
    (hep0 : EPc cfg content (IState.init content mapping).pos) (hlev0 : 0 < cfg.maxNesting)
    (hmarks : MarksHyp cfg B)
    (hNE : ∀ f, TokEqAt B P (fun s => tokLoopG cfg true f s.posMax s)
      (fun s => tokLoop cfg f s.posMax s))
    (hP : ∀ f, EntryP cfg B content (IState.init content mapping).posMax
      (fun s => skipTokenG cfg true f s) P) :
    ∃ cs, parseInline cfg content mapping = .ok cs := by
  have heq := parseInlineG_eq hB hsz hm hB0 hnc hend hep hstep hep0 hlev0 hmarks hNE hP
  have hnr := Inline.parseInlineG_noRust cfg hsz hm
  cases h : parseInline cfg content mapping with
  | ok cs => exact ⟨cs, rfl⟩
  | error e =>
    cases e with
    | fuel => exact absurd h (parseInline_fuel cfg content mapping)
    | rust p => exact absurd (heq.trans h) (hnr p)

/-! ## examples -/

/-- PART 1 is not vacuous: the initial state of every inline run whose `pos_max` does not cut a
    backtick run meets `TopInv`, and so does the state behind the first guarded look-ahead step — `IFP`
    and `EPc` of the initial state hold when the run starts neither strictly inside a backtick run nor
    at an escaped character -/
example (cfg : Cfg) (B : List Char → CodePair.Cache → Prop) (hB : BackOK cfg B) (fuel : Nat)
    {content : List Char} {mapping : Srcmap} (hm : MapOK content mapping)
    (hB0 : B content CodePair.Cache.empty)
    (hnc : CodePair.NoCut '`' content (IState.init content mapping).posMax)
    (hend : EndHyp cfg B content (IState.init content mapping).posMax)
    (hep : EndEP cfg B content (IState.init content mapping).posMax) (hmarks : MarksHyp cfg B)
    (hni : ¬ Interior content (IState.init content mapping).pos)
    (hep0 : EPc cfg content (IState.init content mapping).pos)
    (hlt : (IState.init content mapping).pos < (IState.init content mapping).posMax) :
    ∀ s1, skipTokenG cfg true fuel (IState.init content mapping) = .ok s1 →
      TopInv cfg B content (IState.init content mapping).posMax s1 := by
  obtain ⟨lo, _, hg⟩ := init_good hm
  have hi := hg.linv (memoB_init' content mapping)
  intro s1 h1
  exact skip_top hB hend hep hmarks fuel _ hi hlt (topInv_init hB0 hnc)
    (fun _ hint _ => absurd hint hni) hep0 s1 h1

end MdIt.Inline.ES
