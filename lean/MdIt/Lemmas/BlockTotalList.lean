/-
  No-panic lemma of the list rule (`Model/Block.lean` §list.rs): `list_np`.

  1. the marker parsers (`skipBullet`, `skipOrdered`/`ordLoop`): a found marker is a non-empty prefix
     of one-byte characters (`MarkerSplit`); the digits of an ordered marker are 1–9 ASCII digits, so
     `parseU32` of them is total (`< 10^9 < 2^32`); `detectMarker`, `markerCharOf`, `emptyItemCheck`
     are total on any text;
  2. `itemRewrite` is total on a `LineOk` entry at a non-negative indent whose text starts with a
     marker, and the rewritten entry is `WsAscii`;
  3. `MarkerAt S m pos`: a marker of `pos` bytes sits at line `m` of `S` at a non-negative indent —
     established by `listRule` (from `IndentOk`) and re-established by `listContinue`;
  4. `listItem_np`, `listContinue_np`, `listLoop_np` (induction on the fuel), `tightenItems_total`,
     `list_np`.
-/
import MdIt.Lemmas.BlockTotalCore

namespace MdIt.Block
open MdIt.Lines (LineOffset)

/-! ## 1. the marker parsers -/

theorem digit_size {c : Char} (h : isDigit c = true) : c.utf8Size = 1 := by
  simp only [isDigit, Bool.and_eq_true, decide_eq_true_eq] at h
  have : c.val.toNat ≤ 57 := h.2
  rw [Char.utf8Size_eq_one_iff, UInt32.le_iff_toNat_le]
  simp
  omega

theorem byteLen_of_ascii : ∀ (l : List Char), (∀ c ∈ l, c.utf8Size = 1) → Lines.byteLen l = l.length
  | [], _ => rfl
  | c :: r, h => by
    have hc := h c (by simp)
    have := byteLen_of_ascii r (fun x hx => h x (List.mem_cons_of_mem _ hx))
    simp [this, hc]; omega

/-- what both marker parsers guarantee of a marker of `p` bytes found in `cur`: it is a non-empty
    prefix of one-byte characters -/
def MarkerSplit (cur : List Char) (p : Nat) : Prop :=
  ∃ pre suf, cur = pre ++ suf ∧ Lines.byteLen pre = p ∧ pre ≠ [] ∧ ∀ c ∈ pre, c.utf8Size = 1

theorem MarkerSplit.pos {cur : List Char} {p : Nat} (h : MarkerSplit cur p) : 1 ≤ p := by
  obtain ⟨pre, suf, _, hp, hne, hasc⟩ := h
  rw [byteLen_of_ascii pre hasc] at hp
  cases pre with
  | nil => exact absurd rfl hne
  | cons c r => simp at hp; omega

theorem skipBullet_split {cur : List Char} {p : Nat} (h : skipBullet cur = some p) : MarkerSplit cur p := by
  unfold skipBullet at h
  split at h
  · cases h
  · rename_i c r
    split at h
    · rename_i hc
      have hp : p = 1 := by
        split at h
        · simp at h; exact h.symm
        · split at h
          · simp at h; exact h.symm
          · cases h
      subst hp
      refine ⟨[c], r, rfl, ?_, by simp, ?_⟩
      · rcases hc with rfl | rfl | rfl <;> decide
      · intro x hx
        simp at hx
        subst hx
        rcases hc with rfl | rfl | rfl <;> decide
    · cases h

/-- the loop of the ordered marker: digits, then `)` or `.`; never more than 9 characters counted
    before the delimiter -/
theorem ordLoop_shape : ∀ (l : List Char) (pos p : Nat) (r : List Char), ordLoop l pos = some (p, r) →
    ∃ ds m, l = ds ++ m :: r ∧ (∀ c ∈ ds, isDigit c = true) ∧ (m = ')' ∨ m = '.') ∧
      p = pos + ds.length + 1 ∧ (pos + ds.length ≤ 9 ∨ ds = [])
  | [], _, _, _, h => by simp [ordLoop] at h
  | c :: l, pos, p, r, h => by
    simp only [ordLoop] at h
    split at h
    · rename_i hd
      split at h
      · cases h
      · rename_i hlt
        obtain ⟨ds, m, rfl, hds, hm, hp, hlen⟩ := ordLoop_shape l (pos + 1) p r h
        refine ⟨c :: ds, m, rfl, ?_, hm, by simp; omega, ?_⟩
        · intro x hx
          simp at hx
          rcases hx with rfl | hx
          · exact hd
          · exact hds x hx
        · left
          rcases hlen with hlen | rfl
          · simp; omega
          · simp; omega
    · split at h
      · rename_i hm
        simp at h
        obtain ⟨rfl, rfl⟩ := h
        exact ⟨[], c, rfl, by simp, hm, by simp, .inr rfl⟩
      · cases h

/-- an ordered marker: 1–9 ASCII digits and a delimiter -/
theorem skipOrdered_shape {cur : List Char} {p : Nat} (h : skipOrdered cur = some p) :
    ∃ ds m suf, cur = ds ++ m :: suf ∧ ds ≠ [] ∧ (∀ c ∈ ds, isDigit c = true) ∧ ds.length ≤ 9 ∧
      (m = ')' ∨ m = '.') ∧ p = ds.length + 1 := by
  unfold skipOrdered at h
  split at h
  · cases h
  · rename_i c r
    split at h
    · rename_i hd
      split at h
      · cases h
      · rename_i pos rest hloop
        have hp : p = pos := by
          split at h
          · simp at h; exact h.symm
          · split at h
            · simp at h; exact h.symm
            · cases h
        subst hp
        obtain ⟨ds, m, rfl, hds, hm, hp, hlen⟩ := ordLoop_shape _ _ _ _ hloop
        refine ⟨c :: ds, m, rest, rfl, by simp, ?_, ?_, hm, by simp; omega⟩
        · intro x hx
          simp at hx
          rcases hx with rfl | hx
          · exact hd
          · exact hds x hx
        · rcases hlen with hlen | rfl
          · simp; omega
          · simp
    · cases h

theorem delim_size {m : Char} (hm : m = ')' ∨ m = '.') : m.utf8Size = 1 := by
  rcases hm with rfl | rfl <;> decide

theorem skipOrdered_split {cur : List Char} {p : Nat} (h : skipOrdered cur = some p) : MarkerSplit cur p := by
  obtain ⟨ds, m, suf, rfl, hne, hds, _, hm, rfl⟩ := skipOrdered_shape h
  have hasc : ∀ c ∈ ds ++ [m], c.utf8Size = 1 := by
    intro c hc
    simp at hc
    rcases hc with hc | rfl
    · exact digit_size (hds c hc)
    · exact delim_size hm
  refine ⟨ds ++ [m], suf, by simp, ?_, by simp, hasc⟩
  rw [byteLen_of_ascii _ hasc]; simp

/-- `acc * 10 + digit` over `n` digits stays below `(acc + 1) * 10^n` -/
theorem digits_bound : ∀ (ds : List Char) (acc : Nat), (∀ c ∈ ds, isDigit c = true) →
    ds.foldl (fun acc c => acc * 10 + (c.toNat - 48)) acc + 1 ≤ (acc + 1) * 10 ^ ds.length
  | [], acc, _ => by simp
  | c :: r, acc, h => by
    have hc := h c (by simp)
    simp only [isDigit, Bool.and_eq_true, decide_eq_true_eq] at hc
    have ih := digits_bound r (acc * 10 + (c.toNat - 48)) (fun x hx => h x (List.mem_cons_of_mem _ hx))
    simp only [List.foldl_cons, List.length_cons]
    refine Nat.le_trans ih ?_
    have h1 : acc * 10 + (c.toNat - 48) + 1 ≤ (acc + 1) * 10 := by omega
    calc (acc * 10 + (c.toNat - 48) + 1) * 10 ^ r.length
        ≤ ((acc + 1) * 10) * 10 ^ r.length := Nat.mul_le_mul_right _ h1
      _ = (acc + 1) * 10 ^ (r.length + 1) := by rw [Nat.mul_assoc, Nat.pow_succ, Nat.mul_comm 10]

/-- `str::parse::<u32>` of 1–9 ASCII digits -/
theorem parseU32_total {ds : List Char} (hne : ds ≠ []) (hds : ∀ c ∈ ds, isDigit c = true)
    (hlen : ds.length ≤ 9) : ∃ v, parseU32 ds = .ok v := by
  unfold parseU32
  have h1 : ¬ (ds.isEmpty = true ∨ ¬ ds.all isDigit = true) := by
    intro h
    rcases h with h | h
    · exact hne (List.isEmpty_iff.mp h)
    · exact h (List.all_eq_true.mpr hds)
  rw [if_neg h1]
  have hb := digits_bound ds 0 hds
  have hpow : 10 ^ ds.length ≤ 10 ^ 9 := Nat.pow_le_pow_right (by omega) hlen
  simp only [Nat.zero_add, Nat.one_mul] at hb
  have : ds.foldl (fun acc c => acc * 10 + (c.toNat - 48)) 0 < 4294967296 := by
    have : (10 : Nat) ^ 9 = 1000000000 := by decide
    omega
  simp only [this, if_true]
  exact ⟨_, rfl⟩

theorem detectMarker_total (cur : List Char) : ∃ r, detectMarker cur = .ok r := by
  unfold detectMarker
  split
  · rename_i p hp
    obtain ⟨ds, m, suf, rfl, hne, hds, hlen, hm, rfl⟩ := skipOrdered_shape hp
    have hbl : Lines.byteLen ds = ds.length := byteLen_of_ascii ds (fun c hc => digit_size (hds c hc))
    have hs : Lines.slice (ds ++ m :: suf) 0 (ds.length + 1 - 1) = .ok ds :=
      Lines.slice_eq_ok_iff.mpr ⟨[], m :: suf, by simp, rfl, by simp [hbl]⟩
    obtain ⟨v, hv⟩ := parseU32_total hne hds hlen
    simp only [psub, Nat.le_add_left, if_true, ok_bind, hs, liftL, hv]
    exact ⟨_, rfl⟩
  · split
    · exact ⟨_, rfl⟩
    · exact ⟨_, rfl⟩

theorem detectMarker_split {cur : List Char} {p : Nat} {v : Option Nat}
    (h : detectMarker cur = .ok (some (p, v))) : MarkerSplit cur p := by
  unfold detectMarker at h
  crack h
  · have := skipOrdered_split ‹skipOrdered _ = _›
    simp_all
  · have := skipBullet_split ‹skipBullet _ = _›
    simp_all

theorem markerCharOf_total {cur : List Char} {p : Nat} (h : MarkerSplit cur p) :
    ∃ c, markerCharOf cur p = .ok c := by
  obtain ⟨pre, suf, rfl, rfl, hne, _⟩ := h
  unfold markerCharOf
  have hs : Lines.slice (pre ++ suf) 0 (Lines.byteLen pre) = .ok pre :=
    Lines.slice_eq_ok_iff.mpr ⟨[], suf, by simp, rfl, by simp⟩
  simp only [hs, liftL, ok_bind]
  cases hl : pre.getLast? with
  | none => exact absurd (List.getLast?_eq_none_iff.mp hl) hne
  | some c => exact ⟨c, rfl⟩

theorem emptyItemCheck_total {cur : List Char} {p : Nat} (isTerm : Bool) (h : MarkerSplit cur p) :
    ∃ b, emptyItemCheck isTerm cur p = .ok b := by
  obtain ⟨pre, suf, rfl, rfl, _, _⟩ := h
  unfold emptyItemCheck
  split
  · have hs : Lines.slice (pre ++ suf) (Lines.byteLen pre) (Lines.byteLen (pre ++ suf)) = .ok suf :=
      Lines.slice_eq_ok_iff.mpr ⟨pre, [], by simp, rfl, by simp⟩
    simp only [hs, liftL, ok_bind]
    exact ⟨_, rfl⟩
  · exact ⟨_, rfl⟩

/-! ## 2. the rewriting of the item's first line -/

theorem itemRewrite_total {src : List Char} {o : LineOffset} {cur : List Char} {pos : Nat}
    (hl : LineOk src o) (h0 : 0 ≤ o.indentNonspace)
    (hb : Lines.slice src o.firstNonspace o.lineEnd = .ok cur) (hM : MarkerSplit cur pos) :
    ∃ r, itemRewrite src o pos = .ok r := by
  obtain ⟨pre, suf, rfl, rfl, _, _⟩ := hM
  obtain ⟨a, run, rest, rfl, hrun, hrest, hwhole, ha, hfn, hend, hfi, hlead⟩ := rewrite_shape hl hb
  unfold itemRewrite
  rw [if_neg (by omega)]
  have hrel : psub (Lines.byteLen pre + o.firstNonspace) o.lineStart
      = .ok (Lines.byteLen a + Lines.byteLen pre) := by
    unfold psub; rw [if_pos (by omega)]; congr 1; omega
  have hlen : psub o.lineEnd o.lineStart = .ok (o.lineEnd - o.lineStart) := by
    unfold psub; rw [if_pos (by omega)]
  simp only [hwhole, liftL, ok_bind, hrel, hfi, hlen]
  exact ⟨_, rfl⟩

/-- the rewritten entry keeps its leading bytes one byte wide -/
theorem itemRewrite_wsAscii {src : List Char} {o o' : LineOffset} {cur : List Char} {pos indent : Nat}
    {re : Bool} (hl : LineOk src o) (ha : WsAscii src o)
    (hb : Lines.slice src o.firstNonspace o.lineEnd = .ok cur) (hM : MarkerSplit cur pos)
    (h : itemRewrite src o pos = .ok (o', indent, re)) : WsAscii src o' := by
  obtain ⟨pre, suf, rfl, rfl, _, hasc⟩ := hM
  obtain ⟨a, run, rest, rfl, hrun, hrest, hwhole, h3, hfn, hend, hfi, hlead⟩ := rewrite_shape hl hb
  unfold itemRewrite at h
  crack h
  rename_i hneg ltxt hltxt rel hrel fi hfi' lineLen hlen ho' hind
  subst ho'
  obtain ⟨hle, rfl⟩ := psub_ok hrel
  have e1 := liftL_eq_ok hltxt
  rw [hwhole] at e1
  cases e1
  have hrel' : Lines.byteLen pre + o.firstNonspace - o.lineStart = Lines.byteLen a + Lines.byteLen pre := by
    omega
  rw [hrel'] at hfi'
  have e2 := liftL_eq_ok hfi'
  rw [hfi] at e2
  cases e2
  exact wsAscii_rewrite ha h3 hasc hrun hlead _

/-! ## 3. a marker sits at a line -/

/-- a marker of `pos` bytes sits at line `m` of `S`, at a non-negative indent -/
def MarkerAt (S : BState) (m pos : Nat) : Prop :=
  ∃ o cur, S.offs[m]? = some o ∧ Lines.slice S.src o.firstNonspace o.lineEnd = .ok cur ∧
    MarkerSplit cur pos ∧ 0 ≤ o.indentNonspace

theorem MarkerAt.pos {S : BState} {m pos : Nat} (h : MarkerAt S m pos) : 1 ≤ pos := by
  obtain ⟨_, _, _, _, hM, _⟩ := h
  exact hM.pos

/-- from the line the rule looks at: `get_line` found the marker, `line_indent ≥ 0` -/
theorem markerAt_of {S : BState} {m pos : Nat} {cur : List Char} {ind : Int} (hm : m < S.offs.length)
    (hind : S.lineIndent m = .ok ind) (h0 : 0 ≤ ind) (hcur : S.getLine m = .ok cur)
    (hM : MarkerSplit cur pos) : MarkerAt S m pos := by
  have ho : S.offs[m]? = some S.offs[m] := List.getElem?_eq_getElem hm
  refine ⟨S.offs[m], cur, ho, getLine_eq ho hcur, hM, ?_⟩
  rw [lineIndent_of_off ho] at hind
  cases hind
  omega

/-! ## 4. one list item -/

theorem listItemBody_np {tok : Tok} (hk : TokSpec tok) (hko : TokOK tok) {S2 : BState} {m : Nat} {re : Bool}
    (hI : BInv S2) : NoPanic (listItemBody tok S2 m re) := by
  intro e h
  unfold listItemBody at h
  crackE h
  · refine hko _ ?_ e h
    exact hI.congr rfl rfl hI.lineMax
  · have hfr := hk.frame _ _ ‹tok _ = _›
    exact absurd_err h (psub_total (by rw [hfr.level]; simp))

theorem prevEmptyEndOf_total {s : BState} {n : Nat} (h : n < s.line) : ∃ b, prevEmptyEndOf s n = .ok b := by
  unfold prevEmptyEndOf psub
  rw [if_pos (by omega)]
  simp only [ok_bind]
  split
  · rw [if_pos (by omega)]; exact ⟨_, rfl⟩
  · exact ⟨_, rfl⟩

theorem listItem_np {tok : Tok} (hk : TokSpec tok) (hko : TokOK tok) {S : BState} {m pos : Nat}
    {pee tight : Bool} (hI : BInv S) (hline : S.line = m) (hlt : m < S.lineMax) (hM : MarkerAt S m pos) :
    NoPanic (listItem tok S m pos pee tight) := by
  have hlen := hI.lineMax
  have hpos := hM.pos
  obtain ⟨o, cur, ho, hcur, hsplit, h0⟩ := hM
  have hlo := hI.table m o ho
  intro e h
  unfold listItem at h
  obtain ⟨o1, ho1⟩ := off_total (s := S) (i := m) (by omega)
  have e1 := off_ok ho1
  rw [ho] at e1
  cases e1
  obtain ⟨⟨o', indent, re⟩, hrw⟩ := itemRewrite_total hlo h0 hcur hsplit
  obtain ⟨S2, hS2⟩ := setOff_total (s := { S with nodeKind := .listItem, children := [], listIndent := some S.blkIndent, blkIndent := indent, tight := true }) (i := m) (o := o')
    (by simp only; omega)
  simp only [ho1, hrw, hS2, ok_bind] at h
  -- the nested state
  obtain ⟨hok, hc⟩ := itemRewrite_spec hrw
  obtain ⟨hend, _, _⟩ := itemRewrite_phi hrw hpos
  have hI2 : BInv S2 := BInv.setOff (s := { S with nodeKind := .listItem, children := [], listIndent := some S.blkIndent, blkIndent := indent, tight := true })
    (hI.congr rfl rfl hI.lineMax) hS2 ho (hok hlo) hend
    (itemRewrite_wsAscii hlo (hI.ascii m o ho) hcur hsplit hrw)
  obtain ⟨hm, hS2eq⟩ := setOff_ok hS2
  simp only at hS2eq
  have hline2 : S2.line = m := by rw [hS2eq]; exact hline
  have hlt2 : m < S2.lineMax := by rw [hS2eq]; exact hlt
  have hli2 : S2.listIndent = some S.blkIndent := by rw [hS2eq]
  have hlen2 : S2.offs.length = S.offs.length := by rw [hS2eq]; simp
  have hmax2 : S2.lineMax = S.lineMax := by rw [hS2eq]
  have hcond : S2.isEmpty m = true ∨ IndentOk { S2 with line := m } := by
    refine item_cond (x := o') (by rw [hS2eq]; simp [hm]) ?_
    rw [hS2eq]
    exact hc
  crackE h
  · exact listItemBody_np hk hko hI2 e h
  all_goals (
    have hbody := ‹listItemBody tok S2 m re = Except.ok _›
    obtain ⟨hfr, hlt3, hle3⟩ := listItemBody_spec hk hbody hline2 hlt2 hcond
    have hle3 := hle3 hI2.table)
  · exact absurd_err h (prevEmptyEndOf_total hlt3)
  · have hnone : _ = none := ‹_›
    rw [hfr.listIndent, hli2] at hnone
    cases hnone
  · exact absurd_err h (setOff_total (by simp only; rw [hfr.offs]; omega))
  · obtain ⟨_, rfl⟩ := setOff_ok ‹BState.setOff _ m o = Except.ok _›
    exact absurd_err h (psub_total (by simp only; omega))
  · obtain ⟨_, rfl⟩ := setOff_ok ‹BState.setOff _ m o = Except.ok _›
    obtain ⟨_, rfl⟩ := psub_ok ‹psub _ 1 = Except.ok _›
    refine absurd_err h (getMap_total (by simp only; omega) ?_)
    simp only [List.length_set]
    rw [hfr.offs]
    omega

/-! ## 5. "is the list continued?" -/

theorem skip_split {ordered : Bool} {cur : List Char} {p : Nat}
    (h : (if ordered = true then skipOrdered cur else skipBullet cur) = some p) : MarkerSplit cur p := by
  split at h
  · exact skipOrdered_split h
  · exact skipBullet_split h

theorem listContinue_np {test : Test} (ht : TestPure test) (hto : TestOK test) {ordered : Bool} {mc : Char}
    {S : BState} {n : Nat} (hI : BInv S) (hline : S.line = n) :
    NoPanic (listContinue test ordered mc S n) := by
  have hlen := hI.lineMax
  intro e h
  unfold listContinue at h
  crackE h
  all_goals (have hn : ¬ n ≥ S.lineMax := ‹_›)
  · exact absurd_err h (lineIndent_total (by omega))
  · exact hto _ hI (by omega) e h
  · have e1 := ht _ _ ‹test S = _›
    refine absurd_err h (getLine_total (BInv.congr hI ?_ ?_ ?_).table ?_)
    · simp only [e1]
    · simp only [e1]
    · simp only [e1]; exact hlen
    · simp only [e1]; omega
  · exact absurd_err h (markerCharOf_total (skip_split ‹_ = some _›))

/-- when the list goes on, the next marker sits at the line the item loop continues with -/
theorem listContinue_marker {test : Test} (ht : TestPure test) {ordered : Bool} {mc : Char}
    {S S' : BState} {n p : Nat} (hI : BInv S) (hline : S.line = n)
    (h : listContinue test ordered mc S n = .ok (some p, S')) : MarkerAt S' n p := by
  have hlen := hI.lineMax
  obtain ⟨rfl, hlt⟩ := listContinue_spec ht h
  have hlt := hlt (by simp)
  unfold listContinue at h
  crack h
  rename_i _ ind hind hneg _ r htest _ cur hcur _ p' hskip _ _ _
  obtain ⟨hp, hS⟩ := h
  simp only [Option.some.injEq] at hp
  subst hp
  rw [hS, hline] at hcur
  exact markerAt_of (by omega) hind (by omega) hcur (skip_split hskip)

/-! ## 6. the item loop -/

theorem listLoop_np {tok : Tok} {test : Test} (hk : TokSpec tok) (ht : TestPure test) (hto : TestOK test)
    (hko : TokOK tok) {ordered : Bool} {mc : Char} :
    ∀ (fuel : Nat) (S : BState) (m pos : Nat) (pee tight : Bool), BInv S → S.line = m → m < S.lineMax →
      MarkerAt S m pos → NoPanic (listLoop tok test ordered mc fuel S m pos pee tight) := by
  intro fuel
  induction fuel with
  | zero => intro S m pos pee tight _ _ _ _ e h; simp [listLoop] at h; exact h.symm
  | succ f ih =>
    intro S m pos pee tight hI hline hlt hM e h
    simp only [listLoop] at h
    crackE h
    · exact listItem_np hk hko hI hline hlt hM e h
    · rename_i _ wi hitem
      obtain ⟨S1, t1, p1⟩ := wi
      obtain ⟨hfr, h1, h2⟩ := listItem_spec hk hitem hline hlt
      exact listContinue_np ht hto (hI.of_frame hfr) rfl e h
    · rename_i _ wi hitem wc hc _ p hsome
      obtain ⟨S1, t1, p1⟩ := wi
      obtain ⟨c, S2⟩ := wc
      obtain ⟨hfr, h1, h2⟩ := listItem_spec hk hitem hline hlt
      have hI1 := hI.of_frame hfr
      simp only at hsome h hc
      subst hsome
      have hM2 := listContinue_marker ht hI1 rfl hc
      obtain ⟨rfl, hc2⟩ := listContinue_spec ht hc
      have hlt2 := hc2 (by simp)
      exact ih _ _ _ _ _ hI1 rfl hlt2 hM2 e h

/-! ## 7. the rule -/

theorem tightenItems_total : ∀ (cs : List BNode), (∀ c ∈ cs, c.kind = .listItem) →
    ∃ r, tightenItems cs = .ok r
  | [], _ => ⟨[], rfl⟩
  | c :: r, h => by
    obtain ⟨r', hr⟩ := tightenItems_total r (fun x hx => h x (List.mem_cons_of_mem _ hx))
    simp only [tightenItems, h c (by simp), ne_eq, not_true_eq_false, if_false, hr]
    exact ⟨_, rfl⟩

theorem listSpecial_total {s : BState} (h : s.line < s.offs.length) : ∃ b, listSpecial s = .ok b := by
  unfold listSpecial
  split
  · obtain ⟨o, ho⟩ := off_total (s := s) h
    simp only [ho, ok_bind]
    exact ⟨_, rfl⟩
  · exact ⟨_, rfl⟩

theorem list_np {tok : Tok} {test : Test} (hk : TokSpec tok) (hsh : TokShape tok) (ht : TestPure test)
    (hto : TestOK test) (hko : TokOK tok) {fuel : Nat} {s : BState} {silent : Bool}
    (hI : BInv s) (hl : s.line < s.lineMax) (hi : silent = false → IndentOk s) :
    NoPanic (listRule tok test fuel s silent) := by
  have hlen := hI.lineMax
  intro e h
  unfold listRule at h
  crackE h
  · exact absurd_err h (lineIndent_total (by omega))
  · exact absurd_err h (listSpecial_total (by omega))
  · exact absurd_err h (getLine_total hI.table (by omega))
  · exact absurd_err h (detectMarker_total _)
  -- a marker was found (twice: ordered / bullet)
  all_goals (have hsplit := detectMarker_split ‹detectMarker _ = Except.ok (some _)›)
  all_goals (try (exact absurd_err h (emptyItemCheck_total _ hsplit)))
  all_goals (try (exact absurd_err h (markerCharOf_total hsplit)))
  -- real mode: the line is at a non-negative indent
  all_goals (
    have hsil : silent = false := by simpa using ‹¬silent = true›
    obtain ⟨i, hi1, hi0⟩ := hi hsil
    have hM : MarkerAt s s.line _ :=
      markerAt_of (by omega) hi1 hi0 ‹s.getLine s.line = Except.ok _› hsplit)
  all_goals (try (
    refine listLoop_np hk ht hto hko _ _ _ _ _ _ ?_ rfl ?_ ?_ e h
    · exact hI.congr rfl rfl hlen
    · exact hl
    · exact hM))
  all_goals (
    have hloop := ‹listLoop _ _ _ _ _ _ _ _ _ _ = Except.ok _›
    obtain ⟨hfr, h1, h2, h3⟩ := listLoop_spec hk ht _ _ _ _ _ _ _ _ _ hloop rfl hl
    have h3 := h3 (fun k o ho => hI.table k o ho)
    have hitems := listLoop_shape hk hsh ht _ _ _ _ _ _ _ _ _ hloop rfl hl (fun _ hc => by simp at hc)
    simp only at h2 h3)
  all_goals (try (exact absurd_err h (tightenItems_total _ (fun c hc => (hitems c hc).1))))
  all_goals (try (exact absurd_err h (psub_total (by rw [hfr.level]; simp))))
  all_goals (try (exact absurd_err h (psub_total (by omega))))
  all_goals (
    obtain ⟨_, rfl⟩ := psub_ok ‹psub _ 1 = Except.ok _›
    refine absurd_err h (getMap_total (by omega) ?_)
    rw [hfr.offs]
    simp only
    omega)

/-! ## 8. sanity: the 9-digit limit is what keeps `parseU32` total -/

/-- nine digits are a marker (and parse), ten are not -/
example : detectMarker "123456789. x".toList = .ok (some (10, some 123456789)) := by decide +kernel
example : detectMarker "1234567890. x".toList = .ok none := by decide +kernel
/-- ten digits would overflow `u32`: the limit in `ordLoop` is necessary for `parseU32_total` -/
example : parseU32 "4294967296".toList = .error .unwrap := by decide +kernel
/-- the marker of an ordered item is the delimiter, of a bullet item the bullet -/
example : markerCharOf "12) x".toList 3 = .ok ')' := by decide +kernel
example : markerCharOf "- x".toList 1 = .ok '-' := by decide +kernel

end MdIt.Block
