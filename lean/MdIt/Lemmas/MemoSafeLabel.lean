/-
  Helper development for `Props/MemoSafe.lean`: what a successful `parse_link` leaves in the memo.

    * `parseLinkLabel_records`, `parseLink_records` — after `parse_link` has found the label
      `[labelStart, labelEnd)`, the label walk is RECORDED: on the memo it returns, and on every
      extension of it, the walk over the memo alone (`pwalk`, `Lemmas/MemoSafeWalk.lean`) from
      `labelStart` finds `labelEnd` (no position without entry, no entry beyond `pos_max`), even when
      the reference form ran a second label walk afterwards;
    * `parseLink_path`      — so the memo has a path `labelStart → … → labelEnd`;
    * `parseLink_entry_closed` — over a LAMINAR memo the nested frame starts `Closed`:
      the entry condition of `Lemmas/MemoSafeEntry.lean` (`entrySafe`);
    * `parseLink_frame_replay` — under `pos_max = labelEnd` (the nested frame) the walk from
      `labelStart` is replayed up to `labelEnd` and stops there on the empty window.
-/
import MdIt.Lemmas.MemoSafeWalk
import MdIt.Lemmas.MemoSafeClosed

namespace MdIt.Inline
open MdIt.InlineOps (Srcmap getSourcePosFor getMap byteLen slice)

theorem SkipGrowHyp.toRec {skip : IState → Except Panic IState} (hg : SkipGrowHyp skip) :
    SkipRecHyp skip :=
  fun s hi hlt s' h => ⟨(hg s hi hlt s' h).1.mono, (hg s hi hlt s' h).2⟩

/-- the label walk of a successful `parse_link_label` is recorded -/
theorem parseLinkLabel_records {skip : IState → Except Panic IState} (hq : CalmFn skip)
    (hs : SkipHypT skip) (hg : SkipGrowHyp skip) (en : Bool) (fuel : Nat) (st : IState)
    (start : Nat) (hi : LInv st) (hb : Boundary st.src (start + 1)) (hle : start + 1 ≤ st.posMax) :
    ∀ e st', parseLinkLabel skip fuel st start en = .ok (some e, st') →
      ∀ c', LookupMono st'.cache c' →
        pwalk st.src st.posMax c' en fuel 1 (start + 1) = .done (some true) e := by
  have hi0 : LInv { st with pos := start + 1 } :=
    ⟨hle, hb, hi.bmax, hi.wf, hi.stop, hi.memo⟩
  have hl := labelLoop_records hq hs hg.toRec en fuel 1 { st with pos := start + 1 } hi0
  intro e st' h c' hc'
  unfold parseLinkLabel at h
  simp only at h
  split at h
  · simp at h
  · simp at h
  · next found st1 he =>
    simp only [Except.ok.injEq, Prod.mk.injEq] at h
    obtain ⟨h1, rfl⟩ := h
    obtain ⟨_, hw⟩ := hl _ _ he
    cases found with
    | false => simp at h1
    | true =>
      simp only [if_true, Option.some.injEq] at h1
      subst h1
      exact hw c' hc'

/-- **the label walk of a successful `parse_link` is recorded** (inline form and reference form) -/
theorem parseLink_records {cfg : Cfg} {skip : IState → Except Panic IState} (hq : CalmFn skip)
    (hs : SkipHypT skip) (hg : SkipGrowHyp skip) (fuel : Nat) (st : IState) (pos : Nat) (en : Bool)
    (hi : LInv st) (hb : Boundary st.src (pos + 1)) (hle : pos + 1 ≤ st.posMax) :
    ∀ res st', parseLink cfg skip fuel st pos en = .ok (some res, st') →
      res.labelStart = pos + 1 ∧
      ∀ c', LookupMono st'.cache c' →
        pwalk st.src st.posMax c' en fuel 1 (pos + 1) = .done (some true) res.labelEnd := by
  have hlabT := parseLinkLabel_T hq hs en fuel st pos hi hb hle
  have hlab := parseLinkLabel_records hq hs hg en fuel st pos hi hb hle
  intro res st' h
  refine ⟨parseLink_labelStart h, ?_⟩
  unfold parseLink at h
  cases hpl : parseLinkLabel skip fuel st pos en with
  | error e => rw [hpl] at h; simp at h
  | ok r =>
    obtain ⟨o, st1⟩ := r
    rw [hpl] at h
    cases o with
    | none => simp at h
    | some labelEnd =>
      simp only at h
      obtain ⟨hi1, hc1, hp1, hx⟩ := hlabT.2 _ _ hpl
      obtain ⟨hx1, rx, hrx⟩ := hx labelEnd rfl
      have hrec := hlab labelEnd st1 hpl
      split at h
      · simp at h
      · next il hil =>
        simp only [Except.ok.injEq, Prod.mk.injEq, Option.some.injEq] at h
        obtain ⟨rfl, rfl⟩ := h
        exact hrec
      · have hend : ∃ r, slice st1.src labelEnd st1.posMax = .ok (']' :: r) := by
          rw [hc1.src, hc1.posMax]; exact ⟨rx, hrx⟩
        have hgrow := parseLinkRef_grow (cfg := cfg) hq hs hg fuel st1 (pos + 1) labelEnd hi1 hend _ _ h
        have href := (parseLinkRef_T (cfg := cfg) hq hs fuel st1 (pos + 1) labelEnd hi1
          (by rw [hc1.src]; exact hb) hx1 hend).2 _ _ h
        obtain ⟨_, hle2, _⟩ := href.2 res rfl
        rw [hle2]
        intro c' hc'
        exact hrec c' (hgrow.mono.trans hc')

/-- the memo path over the label a successful `parse_link` has found -/
theorem parseLink_path {cfg : Cfg} {skip : IState → Except Panic IState} (hq : CalmFn skip)
    (hs : SkipHypT skip) (hg : SkipGrowHyp skip) (fuel : Nat) (st : IState) (pos : Nat) (en : Bool)
    (hi : LInv st) (hb : Boundary st.src (pos + 1)) (hle : pos + 1 ≤ st.posMax)
    {res : LinkRes} {st' : IState} (h : parseLink cfg skip fuel st pos en = .ok (some res, st')) :
    Path st'.cache res.labelStart res.labelEnd := by
  obtain ⟨h1, h2⟩ := parseLink_records hq hs hg fuel st pos en hi hb hle res st' h
  rw [h1]
  exact pwalk_path en _ _ _ _ _ (h2 _ (LookupMono.refl _))

/-- **the nested frame starts closed over a laminar memo**: every memo entry that starts inside the
    label `[labelStart, labelEnd)` found by `parse_link` ends at or before `labelEnd` -/
theorem parseLink_entry_closed {cfg : Cfg} {skip : IState → Except Panic IState} (hq : CalmFn skip)
    (hs : SkipHypT skip) (hg : SkipGrowHyp skip) (fuel : Nat) (st : IState) (pos : Nat) (en : Bool)
    (hi : LInv st) (hb : Boundary st.src (pos + 1)) (hle : pos + 1 ≤ st.posMax)
    {res : LinkRes} {st' : IState} (h : parseLink cfg skip fuel st pos en = .ok (some res, st'))
    (hlam : Laminar st'.cache) : Closed st'.cache res.labelStart res.labelEnd := by
  have hm : MemoB st' := ((parseLink_T (cfg := cfg) hq hs fuel st pos en hi hb hle).2 _ _ h).1.memo
  exact closed_of_path hlam (fun k v hkv => (hm k v hkv).1)
    (parseLink_path hq hs hg fuel st pos en hi hb hle h)

/-- **inside the nested frame the label walk is a pure replay**: under `pos_max = labelEnd`, on every
    extension of the memo, the walk from `labelStart` follows recorded entries up to `labelEnd` and
    stops there on the empty window — no rule runs, no entry beyond `pos_max` is met -/
theorem parseLink_frame_replay {cfg : Cfg} {skip : IState → Except Panic IState} (hq : CalmFn skip)
    (hs : SkipHypT skip) (hg : SkipGrowHyp skip) (fuel : Nat) (st : IState) (pos : Nat) (en : Bool)
    (hi : LInv st) (hb : Boundary st.src (pos + 1)) (hle : pos + 1 ≤ st.posMax)
    {res : LinkRes} {st' : IState} (h : parseLink cfg skip fuel st pos en = .ok (some res, st'))
    {c' : List (Nat × Nat)} (hc' : LookupMono st'.cache c') (hf : ∀ k v, (k, v) ∈ c' → k < v) :
    pwalk st.src res.labelEnd c' en fuel 1 res.labelStart = .done (some false) res.labelEnd := by
  obtain ⟨h1, h2⟩ := parseLink_records hq hs hg fuel st pos en hi hb hle res st' h
  rw [h1]
  exact pwalk_frame hf en _ _ _ _ (h2 c' hc')

/-! ## the instances for the guarded `skip_token` -/

theorem parseLink_entry_closed_G (cfg : Cfg) (f fuel : Nat) (st : IState) (pos : Nat) (en : Bool)
    (hi : LInv st) (hb : Boundary st.src (pos + 1)) (hle : pos + 1 ≤ st.posMax)
    {res : LinkRes} {st' : IState}
    (h : parseLink cfg (fun s => skipTokenG cfg true f s) fuel st pos en = .ok (some res, st'))
    (hlam : Laminar st'.cache) : Closed st'.cache res.labelStart res.labelEnd :=
  parseLink_entry_closed (skipTokenG_calm cfg true f) (skipTokenG_T cfg f) (skip_grow cfg f)
    fuel st pos en hi hb hle h hlam

theorem parseLink_path_G (cfg : Cfg) (f fuel : Nat) (st : IState) (pos : Nat) (en : Bool)
    (hi : LInv st) (hb : Boundary st.src (pos + 1)) (hle : pos + 1 ≤ st.posMax)
    {res : LinkRes} {st' : IState}
    (h : parseLink cfg (fun s => skipTokenG cfg true f s) fuel st pos en = .ok (some res, st')) :
    Path st'.cache res.labelStart res.labelEnd :=
  parseLink_path (skipTokenG_calm cfg true f) (skipTokenG_T cfg f) (skip_grow cfg f)
    fuel st pos en hi hb hle h

end MdIt.Inline
