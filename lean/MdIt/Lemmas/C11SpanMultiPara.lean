/-
  C11, MULTI-LINE code spans, BLOCK level at the top: a document of n lines whose first line starts with a character
  no block rule but `paragraph` claims (`ParaFirst`) and whose other lines all continue a paragraph (`ContLine`) is
  ONE paragraph over the whole source, inline text = the source, table = one identity entry per line
  (`parseBlocks_lines`).

    1. the line table of `docOf Ls`, explicitly (`splitLines_docOf`), hence the exact `get_lines` table (`getLines_all`)
    2. every rule, in SILENT mode, answers `false` on a line that starts (indent < 4) with a `ParaFirst` character
       (`quiet_silent`), so `test_rules_at_line` does (`testRules_quiet`)
    3. `lazyScan` runs over all the continuation lines (`lazyScan_cont`)
    4. the chain on line 0 in real mode (`lines_facts`), the tokenizer with enough fuel (`parseBlocks_single_fuel`)
-/
import MdIt.Lemmas.C11SpanMultiDefs
set_option linter.unusedSimpArgs false
set_option linter.unusedVariables false

namespace MdIt.Block
open MdIt.Lines (LineOffset NoTerm lead)

/-- the lines with their terminators: LF between, none at the end -/
def termsOf : List (List Char) → List (List Char × List Char)
  | [] => []
  | [x] => [(x, [])]
  | x :: y :: r => (x, ['\n']) :: termsOf (y :: r)

theorem lineOf_noTerm {x : List Char} (hx : NoTerm x) : Lines.lineOf x = x := by
  induction x with
  | nil => rfl
  | cons c r ih =>
    have hc := Lines.notTerm_iff.mpr (hx c (by simp))
    simp only [Lines.lineOf, List.takeWhile_cons, hc, if_true] at ih ⊢
    rw [ih hx.tail]

theorem afterLine_noTerm {x : List Char} (hx : NoTerm x) : Lines.afterLine x = [] := by
  induction x with
  | nil => rfl
  | cons c r ih =>
    have hc := Lines.notTerm_iff.mpr (hx c (by simp))
    simp only [Lines.afterLine, List.dropWhile_cons, hc, if_true] at ih ⊢
    rw [ih hx.tail]

theorem lineOf_lf {x : List Char} (hx : NoTerm x) (t : List Char) : Lines.lineOf (x ++ '\n' :: t) = x := by
  induction x with
  | nil => simp [Lines.lineOf, Lines.notTerm, Lines.isTerm]
  | cons c r ih =>
    have hc := Lines.notTerm_iff.mpr (hx c (by simp))
    simp only [Lines.lineOf, List.cons_append, List.takeWhile_cons, hc, if_true] at ih ⊢
    rw [ih hx.tail]

theorem afterLine_lf {x : List Char} (hx : NoTerm x) (t : List Char) :
    Lines.afterLine (x ++ '\n' :: t) = '\n' :: t := by
  induction x with
  | nil => simp [Lines.afterLine, Lines.notTerm, Lines.isTerm]
  | cons c r ih =>
    have hc := Lines.notTerm_iff.mpr (hx c (by simp))
    simp only [Lines.afterLine, List.cons_append, List.dropWhile_cons, hc, if_true] at ih ⊢
    rw [ih hx.tail]

theorem docOf_cons_ne_nil (y : List Char) (r : List (List Char)) (h : (y :: r).getLast? ≠ some []) :
    docOf (y :: r) ≠ [] := by
  cases r with
  | nil =>
    simp [docOf, Lines.joinLines] at h ⊢
    exact h
  | cons z r' => simp [docOf, Lines.joinLines]

theorem linesT_docOf : ∀ (Ls : List (List Char)), (∀ l ∈ Ls, NoTerm l) → Ls.getLast? ≠ some [] → Ls ≠ [] →
    Lines.linesT (docOf Ls) = termsOf Ls
  | [], _, _, h => absurd rfl h
  | [x], hn, _, _ => by
    have hx := hn x (by simp)
    rw [Lines.linesT]
    simp [docOf, Lines.joinLines, lineOf_noTerm hx, afterLine_noTerm hx, Lines.termOf, termsOf]
  | x :: y :: r, hn, hl, _ => by
    have hx := hn x (by simp)
    have hl' : (y :: r).getLast? ≠ some [] := by simpa [List.getLast?_cons_cons] using hl
    have ih := linesT_docOf (y :: r) (fun l h => hn l (List.mem_cons_of_mem _ h)) hl' (by simp)
    have hne := docOf_cons_ne_nil y r hl'
    rw [Lines.linesT]
    have e : docOf (x :: y :: r) = x ++ '\n' :: docOf (y :: r) := rfl
    rw [e, lineOf_lf hx, afterLine_lf hx]
    simp only [Lines.termOf, show ¬ ('\n' = '\r' ∧ (docOf (y :: r)).head? = some '\n') by simp, if_false]
    rw [if_neg hne, ih]
    rfl

/-- the line table of the document, explicitly -/
theorem splitLines_docOf (Ls : List (List Char)) (hn : ∀ l ∈ Ls, NoTerm l) (hl : Ls.getLast? ≠ some [])
    (hne : Ls ≠ []) : Lines.splitLines (docOf Ls) = Lines.offsetsOf 0 (termsOf Ls) := by
  rw [Lines.splitLines_eq, linesT_docOf Ls hn hl hne]

/-- the view of a line: (leading blanks, rest, tab-expanded width of the blanks) -/
def viewOf (l : List Char) : List Char × List Char × Int :=
  (lead l, l.dropWhile Lines.isBlank, (Lines.indentWidth (lead l) : Int))

theorem mapOf_step (o : LineOffset) (l : List Char) (p : Nat)
    (r : List (LineOffset × (List Char × List Char × Int))) :
    Lines.mapOf 0 p ((o, viewOf l) :: r) = (p, o.lineStart) :: Lines.mapOf 0 (p + Lines.byteLen l + 1) r := by
  have e0 : Lines.usizeAsI32 0 = 0 := by decide
  have hcw := Lines.cut_full_indent (lead l)
  have hvp := viewPiece_zero l
  simp only [Lines.mapOf, viewOf, e0, Int.sub_zero, hcw, hvp]
  simp

theorem mapOf_id : ∀ (Ls : List (List Char)) (p : Nat),
    Lines.mapOf 0 p ((Lines.offsetsOf p (termsOf Ls)).zip (Ls.map viewOf)) = idTable p Ls
  | [], _ => rfl
  | [x], p => by
    simp only [termsOf, Lines.offsetsOf, List.map_cons, List.map_nil, List.zip_cons_cons, List.zip_nil_right,
      mapOf_step, idTable, Lines.mapOf]
  | x :: y :: r, p => by
    have ih := mapOf_id (y :: r) (p + Lines.byteLen x + 1)
    simp only [termsOf, Lines.offsetsOf, List.map_cons, List.zip_cons_cons, mapOf_step, idTable] at ih ⊢
    rw [show Lines.byteLen ['\n'] = 1 by decide, ih]

/-- `get_lines(0, n, 0, false)` over the whole document: the document, the identity table -/
theorem getLines_all {Ls : List (List Char)} {s : BState} (hon : OnDoc Ls s) :
    s.getLines 0 Ls.length 0 false = .ok (docOf Ls, idTable 0 Ls) := by
  have holen : s.offs.length = Ls.length := hon.length
  obtain ⟨ovs, hovs⟩ : ∃ ovs, ovs = s.offs.zip (Ls.map viewOf) := ⟨_, rfl⟩
  have hol : ovs.length = Ls.length := by simp [hovs, holen]
  have hov : ∀ j (h : j < ovs.length), s.offs[0 + j]? = some ovs[j].1 ∧ Lines.Shows s.src ovs[j].1 ovs[j].2 := by
    intro j hj
    have hjL : j < Ls.length := by omega
    obtain ⟨o, ho, hsh⟩ := hon.entry hjL
    have hjo : j < s.offs.length := by omega
    have e1 : ovs[j] = (s.offs[j], viewOf Ls[j]) := by
      simp [hovs, List.getElem_zip]
    have e2 : s.offs[j] = o := by
      have := List.getElem?_eq_getElem hjo
      rw [ho] at this
      exact (Option.some.inj this).symm
    rw [e1, e2]
    exact ⟨by simpa using ho, hsh⟩
  obtain ⟨content, hgl, hcontent, _⟩ := Lines.get_lines_faithful s.src s.offs 0 0 false ovs hov
  rw [Nat.zero_add, hol] at hgl
  have hc : content = docOf Ls := by
    rw [hcontent]
    have : (ovs.map fun ov => Lines.viewPiece 0 ov.2) = Ls := by
      apply List.ext_getElem (by simp [hol])
      intro j h1 h2
      have hjo : j < s.offs.length := by omega
      simp only [List.getElem_map, hovs, List.getElem_zip]
      exact viewPiece_zero Ls[j]
    rw [this]
  have hm : Lines.mapOf 0 0 ovs = idTable 0 Ls := by
    rw [hovs, hon.offs, splitLines_docOf Ls hon.noTerm hon.last hon.ne]
    exact mapOf_id Ls 0
  simp only [BState.getLines, hgl, liftL, hc, hm]

/-- SILENT mode: every rule answers `false` on a line that starts, at an indent below 4, with a `ParaFirst` character -/
theorem quiet_silent {cfg : Cfg} {tok : Tok} {test : Test} {fuel : Nat} (r : RuleId)
    {s : BState} {i : Int} {c : Char} {rest : List Char}
    (hind : s.lineIndent s.line = .ok i) (hi0 : 0 ≤ i) (hi4 : i < 4)
    (hgl : s.getLine s.line = .ok (c :: rest)) (hc : ParaFirst c) (hli : s.listIndent = none) :
    runRule cfg tok test fuel r s true = .ok (false, s) := by
  obtain ⟨h1, h2, h3, h4, h5, h6, h7, h8, h9, h10, h11, h12⟩ := hc
  have hn4 : ¬ i ≥ 4 := by omega
  cases r with
  | code => simp [runRule, codeRule, pure, Except.pure]
  | fence => simp [runRule, fenceRule, hind, hn4, hgl, h3, h4, pure, Except.pure, bind, Except.bind]
  | blockquote => simp [runRule, blockquoteRule, hind, hn4, hgl, h5, pure, Except.pure, bind, Except.bind]
  | hr => simp [runRule, hrRule, hind, hn4, hgl, h6, h7, h8, pure, Except.pure, bind, Except.bind]
  | list =>
    by_cases hk : isListKind s.nodeKind = true
    · simp [runRule, listRule, hk, pure, Except.pure]
    · simp [runRule, listRule, hk, hind, hn4, hgl, hli, listSpecial, detectMarker, skipOrdered, skipBullet, h12, h6,
        h7, h9, pure, Except.pure, bind, Except.bind]
  | reference => simp [runRule, referenceRule, pure, Except.pure]
  | heading => simp [runRule, headingRule, hind, hn4, hgl, h10, pure, Except.pure, bind, Except.bind]
  | lheading => simp [runRule, lheadingRule, pure, Except.pure]
  | paragraph => simp [runRule, paragraphRule, pure, Except.pure]

/-- … hence the whole chain, whatever it is (`test_rules_at_line` = `false`, state handed back) -/
theorem runChain_silent {cfg : Cfg} {tok : Tok} {test : Test} {fuel : Nat}
    {s : BState} {i : Int} {c : Char} {rest : List Char}
    (hind : s.lineIndent s.line = .ok i) (hi0 : 0 ≤ i) (hi4 : i < 4)
    (hgl : s.getLine s.line = .ok (c :: rest)) (hc : ParaFirst c) (hli : s.listIndent = none)
    (chain : List RuleId) :
    runChain (runRule cfg tok test fuel) chain s true = .ok (false, s) := by
  induction chain with
  | nil => rfl
  | cons q qs ih => simp only [runChain, quiet_silent q hind hi0 hi4 hgl hc hli, ih]

theorem testRules_succ (cfg : Cfg) (g : Nat) :
    testRules cfg (g + 1) =
      fun s => runChain (runRule cfg (tokenize cfg g) (testRules cfg g) (g + 1)) cfg.chain s true := rfl

/-- REAL mode: the rules other than `lheading` / `paragraph` answer `false` on such a line at indent 0 -/
theorem quiet_real {cfg : Cfg} {tok : Tok} {test : Test} {fuel : Nat} {r : RuleId}
    (hr : r ≠ .paragraph) (hr' : r ≠ .lheading) {s : BState} {c : Char} {rest : List Char}
    (hind : s.lineIndent s.line = .ok 0) (hgl : s.getLine s.line = .ok (c :: rest)) (hc : ParaFirst c)
    (hli : s.listIndent = none) :
    runRule cfg tok test (fuel + 1) r s false = .ok (false, s) := by
  obtain ⟨h1, h2, h3, h4, h5, h6, h7, h8, h9, h10, h11, h12⟩ := hc
  cases r with
  | code => simp [runRule, codeRule, hind, pure, Except.pure]
  | fence => simp [runRule, fenceRule, hind, hgl, h3, h4, pure, Except.pure]
  | blockquote => simp [runRule, blockquoteRule, hind, hgl, h5, pure, Except.pure]
  | hr => simp [runRule, hrRule, hind, hgl, h6, h7, h8, pure, Except.pure]
  | list =>
    simp [runRule, listRule, hind, hgl, hli, listSpecial, detectMarker, skipOrdered, skipBullet, h12, h6, h7, h9,
      pure, Except.pure]
  | reference => simp [runRule, referenceRule, hind, hgl, h11, pure, Except.pure]
  | heading => simp [runRule, headingRule, hind, hgl, h10, pure, Except.pure]
  | lheading => exact absurd rfl hr'
  | paragraph => exact absurd rfl hr

/-- the "jump line-by-line" loop over the continuation lines of a paragraph: it runs to the end of the document,
    finds no underline, and hands the state back unchanged -/
theorem lazyScan_cont {test : Test} {setext : Bool} {Ls : List (List Char)} {s : BState}
    (hon : OnDoc Ls s) (hmax : s.lineMax = Ls.length)
    (hcont : ∀ j (h : j < Ls.length), 0 < j → ContLine Ls[j])
    (htest : ∀ j (h : j < Ls.length), 0 < j → Lines.indentWidth (lead Ls[j]) < 4 →
      test { s with line := j } = .ok (false, { s with line := j })) :
    ∀ (k j fuel : Nat), j + k + 1 = Ls.length → k + 1 ≤ fuel →
      lazyScan test setext fuel s j = .ok (Ls.length, 0, s) := by
  intro k
  induction k with
  | zero =>
    intro j fuel hj hf
    obtain ⟨f, rfl⟩ : ∃ f, fuel = f + 1 := ⟨fuel - 1, by omega⟩
    rw [lazyScan]
    have : j + 1 ≥ s.lineMax := by omega
    simp only [this, true_or, if_true]
    rw [show j + 1 = Ls.length by omega]
  | succ k ih =>
    intro j fuel hj hf
    obtain ⟨f, rfl⟩ : ∃ f, fuel = f + 1 := ⟨fuel - 1, by omega⟩
    have hj1 : j + 1 < Ls.length := by omega
    obtain ⟨c, r, hd, hor⟩ := hcont (j + 1) hj1 (by omega)
    have hemp : s.isEmpty (j + 1) = false := by rw [hon.isEmpty hj1, hd]; simp
    have hind := hon.lineIndent hj1
    have hrec := ih (j + 1) f (by omega) (by omega)
    rw [lazyScan]
    have hnot : ¬ j + 1 ≥ s.lineMax := by omega
    simp only [hnot, hemp, false_or, Bool.false_eq_true, if_false, hind, ok_bind]
    by_cases h4 : 4 ≤ Lines.indentWidth (lead Ls[j + 1])
    · rw [if_pos (by omega)]
      exact hrec
    · rw [if_neg (by omega)]
      have hul : underlineLevel (c :: r) = 0 := by
        rcases hor with h | h
        · exact absurd h h4
        · exact h.2
      have hgl : s.getLine (j + 1) = .ok (c :: r) := by rw [hon.getLine hj1, hd]
      have hse : setextCheck setext s (Lines.indentWidth (lead Ls[j + 1]) : Int) (j + 1) = .ok 0 := by
        cases setext
        · simp [setextCheck, pure, Except.pure]
        · have : (Lines.indentWidth (lead Ls[j + 1]) : Int) ≥ 0 := by omega
          simp [setextCheck, this, hgl, hul, pure, Except.pure, bind, Except.bind]
      obtain ⟨o, ho, _, _, hio⟩ := hon.entry hj1
      have hoff : s.off (j + 1) = .ok o := by simp [BState.off, ho]
      have hneg : ¬ o.indentNonspace < 0 := by
        simp only [] at hio
        rw [hio]; omega
      have ht := htest (j + 1) hj1 (by omega) (by omega)
      simp only [hse, ok_bind, ne_eq, not_true_eq_false, if_false, hoff, hneg, ht, Bool.false_eq_true]
      exact hrec

/-- `test_rules_at_line` (any positive budget) on a continuation line indented by less than 4 -/
theorem testRules_quiet {Ls : List (List Char)} {s : BState} (hon : OnDoc Ls s) (hli : s.listIndent = none)
    (hcont : ∀ j (h : j < Ls.length), 0 < j → ContLine Ls[j]) (cfg : Cfg) (g : Nat) :
    ∀ j (h : j < Ls.length), 0 < j → Lines.indentWidth (lead Ls[j]) < 4 →
      testRules cfg (g + 1) { s with line := j } = .ok (false, { s with line := j }) := by
  intro j hj hj0 h4
  have hon' : OnDoc Ls { s with line := j } := ⟨hon.src, hon.offs, hon.blk, hon.ne, hon.noTerm, hon.last⟩
  obtain ⟨c, r, hd, hor⟩ := hcont j hj hj0
  have hc : ParaFirst c := by
    rcases hor with h | h
    · omega
    · exact h.1
  rw [testRules_succ]
  exact runChain_silent (s := { s with line := j }) (i := (Lines.indentWidth (lead Ls[j]) : Int))
    (hon'.lineIndent hj) (by omega) (by omega) (by rw [hon'.getLine hj, hd]) hc hli _

section rules
variable {Ls : List (List Char)} {s : BState} (hon : OnDoc Ls s) (hmax : s.lineMax = Ls.length) (hline : s.line = 0)
  (hcont : ∀ j (h : j < Ls.length), 0 < j → ContLine Ls[j]) {test : Test}
  (htest : ∀ j (h : j < Ls.length), 0 < j → Lines.indentWidth (lead Ls[j]) < 4 →
    test { s with line := j } = .ok (false, { s with line := j }))
  {fuel : Nat} (hf : Ls.length ≤ fuel)
include hon hmax hline hcont htest hf

/-- `lheading` in real mode on the first line: no underline below, `false`, state handed back -/
theorem lheading_lines (hind : s.lineIndent 0 = .ok 0) : lheadingRule test fuel s false = .ok (false, s) := by
  have hn : 0 < Ls.length := List.length_pos_iff.mpr hon.ne
  have hscan := lazyScan_cont (setext := true) hon hmax hcont htest (Ls.length - 1) 0 fuel (by omega) (by omega)
  unfold lheadingRule
  simp only [Bool.false_eq_true, if_false, hline, hind, ok_bind, hscan, pure, Except.pure]
  simp

/-- `paragraph` in real mode on the first line (no leading blank): one paragraph over the whole document -/
theorem paragraph_lines (hlead : lead (Ls[0]'(List.length_pos_iff.mpr hon.ne)) = []) :
    paragraphRule test fuel s false =
      .ok (true, ({ s with line := Ls.length }).push
        ⟨.paragraph, some (0, Lines.byteLen (docOf Ls)),
          [⟨.inlineRoot (docOf Ls) (idTable 0 Ls), none, []⟩]⟩) := by
  have hn : 0 < Ls.length := List.length_pos_iff.mpr hon.ne
  have hscan := lazyScan_cont (setext := false) hon hmax hcont htest (Ls.length - 1) 0 fuel (by omega) (by omega)
  have hgl : s.getLines 0 Ls.length s.blkIndent false = .ok (docOf Ls, idTable 0 Ls) := by
    rw [hon.blk]; exact getLines_all hon
  obtain ⟨a, ha, _⟩ := hon.entry hn
  obtain ⟨b, hb, _⟩ := hon.entry (j := Ls.length - 1) (by omega)
  have hfa : a.firstNonspace = 0 := by
    have := hon.firstNonspace_first hn ha
    rw [hlead] at this
    simpa using this
  have hlb : b.lineEnd = Lines.byteLen (docOf Ls) := by
    rw [hon.lineEnd_last hb, hon.src]
  have hmap : ∀ t : BState, t.offs = s.offs → t.getMap 0 (Ls.length - 1) = .ok (0, Lines.byteLen (docOf Ls)) := by
    intro t ht
    simp [BState.getMap, Lines.getMap, ht, ha, hb, liftL, hfa, hlb]
  unfold paragraphRule
  simp only [Bool.false_eq_true, if_false, hline, ok_bind, hscan, hgl, psub,
    show 1 ≤ Ls.length from hn, if_true, pure, Except.pure]
  rw [hmap { s with line := Ls.length } rfl]
  rfl

end rules

/-- `parseBlocks_single` with the chain's answer asked only at budgets `f ≥ #lines`, `f ≥ 1` (the run has
    `fuelFor cfg src = f + 1` with `f = #lines + min max_nesting |src| + 7`): a rule that scans several lines burns
    one unit per line, and `testRules cfg 0` is out of fuel -/
theorem parseBlocks_single_fuel {cfg : Cfg} {src : List Char} {s' : BState} {i : Int}
    (hmn : 0 < cfg.maxNesting)
    (hlt : 0 < (BState.fresh src .root []).lineMax)
    (hne : (BState.fresh src .root []).isEmpty 0 = false)
    (hind : (BState.fresh src .root []).lineIndent 0 = .ok i) (hi : 0 ≤ i)
    (hchain : ∀ f, (Lines.splitLines src).length ≤ f → 1 ≤ f →
      runChain (ruleAt cfg f) cfg.chain (BState.fresh src .root []) false = .ok (true, s'))
    (hprog : 0 < s'.line) (hend : s'.line = s'.lineMax) (hk : s'.nodeKind = .root) :
    parseBlocks cfg src = .ok (⟨.root, some (0, Lines.byteLen src), s'.children⟩, s'.refs) := by
  obtain ⟨f, hf⟩ : ∃ f, fuelFor cfg src = f + 2 :=
    ⟨(Lines.splitLines src).length + min cfg.maxNesting (Lines.byteLen src) + 6, by unfold fuelFor; omega⟩
  have hf1 : (Lines.splitLines src).length ≤ f := by unfold fuelFor at hf; omega
  have hf2 : 1 ≤ f := by unfold fuelFor at hf; omega
  unfold parseBlocks
  rw [hf, tokenize_succ,
    tokLoop_single (cfg := cfg) f false (s := BState.fresh src .root []) hlt hne hind hi hmn
      (hchain (f + 1) (by omega) (by omega)) hprog hend]
  simp [hk]

section lines
variable {c : Char} {r : List Char} {Ls : List (List Char)}
  (hnt : ∀ l ∈ (c :: r) :: Ls, NoTerm l) (hc : ParaFirst c) (hcont : ∀ l ∈ Ls, ContLine l)
  {cfg : Cfg} {pre post : List RuleId} (hchain : cfg.chain = pre ++ .paragraph :: post)
  (hpre : .paragraph ∉ pre) (hmn : 0 < cfg.maxNesting)

theorem contLine_ne_nil {l : List Char} (h : ContLine l) : l ≠ [] := by
  obtain ⟨c, r, hd, _⟩ := h
  intro e
  rw [e] at hd
  cases hd

include hnt hcont in
/-- the fresh state over the lines -/
theorem onDoc_lines (k : Kind) (refs : Refs.RefMap) :
    OnDoc ((c :: r) :: Ls) (BState.fresh (docOf ((c :: r) :: Ls)) k refs) := by
  refine OnDoc.fresh (by simp) hnt ?_ k refs
  intro h
  have hm := List.mem_of_getLast? h
  rcases List.mem_cons.mp hm with e | hm'
  · cases e
  · exact contLine_ne_nil (hcont _ hm') rfl

include hcont in
theorem cont_index : ∀ j (h : j < ((c :: r) :: Ls).length), 0 < j → ContLine (((c :: r) :: Ls)[j]) := by
  intro j hj hj0
  obtain ⟨j', rfl⟩ : ∃ j', j = j' + 1 := ⟨j - 1, by omega⟩
  simp only [List.getElem_cons_succ]
  exact hcont _ (List.getElem_mem _)

include hnt hc hcont hchain hpre

theorem lines_facts :
    0 < (BState.fresh (docOf ((c :: r) :: Ls)) .root []).lineMax ∧
    (BState.fresh (docOf ((c :: r) :: Ls)) .root []).isEmpty 0 = false ∧
    (BState.fresh (docOf ((c :: r) :: Ls)) .root []).lineIndent 0 = .ok 0 ∧
    (BState.fresh (docOf ((c :: r) :: Ls)) .root []).lineMax = Ls.length + 1 ∧
    ∀ f, ((c :: r) :: Ls).length ≤ f → 1 ≤ f →
      runChain (ruleAt cfg f) cfg.chain (BState.fresh (docOf ((c :: r) :: Ls)) .root []) false =
      .ok (true, { (BState.fresh (docOf ((c :: r) :: Ls)) .root []) with
        line := Ls.length + 1,
        children := [⟨.paragraph, some (0, Lines.byteLen (docOf ((c :: r) :: Ls))),
          [⟨.inlineRoot (docOf ((c :: r) :: Ls)) (idTable 0 ((c :: r) :: Ls)), none, []⟩]⟩] }) := by
  have hon := onDoc_lines hnt hcont .root []
  obtain ⟨s, hs⟩ : ∃ s, s = BState.fresh (docOf ((c :: r) :: Ls)) .root [] := ⟨_, rfl⟩
  rw [← hs] at hon ⊢
  have h0 : 0 < ((c :: r) :: Ls).length := by simp
  have hld := lead_nonblank_cons r hc.notBlank
  have hlen := hon.length
  have hmax : s.lineMax = ((c :: r) :: Ls).length := by rw [hs] at hlen ⊢; exact hlen
  have hline : s.line = 0 := by rw [hs]; rfl
  have hlist : s.listIndent = none := by rw [hs]; rfl
  have hci := cont_index (c := c) (r := r) hcont
  have hli : s.lineIndent 0 = .ok 0 := by
    have := hon.lineIndent h0
    simpa [hld.1, Lines.indentWidth, Lines.widthFrom] using this
  have hgl : s.getLine 0 = .ok (c :: r) := by
    have := hon.getLine h0
    simpa [hld.2] using this
  refine ⟨by omega, ?_, hli, by simpa using hmax, ?_⟩
  · rw [hon.isEmpty h0]; simp [hld.2]
  · intro f hf hf1
    obtain ⟨g, rfl⟩ : ∃ g, f = g + 1 := ⟨f - 1, by omega⟩
    have htest := testRules_quiet hon hlist hci cfg g
    rw [hchain]
    refine runChain_reach (fun q hq => ?_) ?_
    · by_cases hq' : q = .lheading
      · subst hq'
        exact lheading_lines hon hmax hline hci htest (by omega) hli
      · exact quiet_real (fun e => hpre (e ▸ hq)) hq' (by rw [hline]; exact hli) (by rw [hline]; exact hgl) hc hlist
    · have := paragraph_lines hon hmax hline hci htest (fuel := g + 1 + 1) (by omega) (by simpa using hld.1)
      show paragraphRule (testRules cfg (g + 1)) (g + 1 + 1) s false = _
      rw [this, hs]
      rfl

include hmn

/-- **the block pass on an n-line top-level paragraph**: `Root[Paragraph[InlineRoot src (idTable 0 lines)]]`, both
    nodes over the whole source, no reference -/
theorem parseBlocks_lines :
    parseBlocks cfg (docOf ((c :: r) :: Ls)) =
      .ok (⟨.root, some (0, Lines.byteLen (docOf ((c :: r) :: Ls))),
            [⟨.paragraph, some (0, Lines.byteLen (docOf ((c :: r) :: Ls))),
              [⟨.inlineRoot (docOf ((c :: r) :: Ls)) (idTable 0 ((c :: r) :: Ls)), none, []⟩]⟩]⟩, []) := by
  obtain ⟨h1, h2, h3, h4, h5⟩ := lines_facts hnt hc hcont hchain hpre
  have hlen : (Lines.splitLines (docOf ((c :: r) :: Ls))).length = ((c :: r) :: Ls).length :=
    (onDoc_lines hnt hcont .root []).length
  exact parseBlocks_single_fuel hmn h1 h2 h3 (by omega)
    (fun f hf hf1 => h5 f (by rw [← hlen]; exact hf) hf1) (by simp) h4.symm rfl

end lines

section examples
/-- the hypotheses are satisfiable (`"a `` x\n   y ``\n=b\n\t- z"`: a continuation line at indent 3, one that starts with
    `=` but is no underline, one indented by a tab), on a chain with `lheading` in front of `paragraph` -/
example : parseBlocks ⟨100, [.code, .list, .lheading, .paragraph, .hr], fun _ => none, fun c => [c], fun c => [c]⟩
    (docOf ["a `` x".toList, "   y ``".toList, "=b".toList, "\t- z".toList]) =
    .ok (⟨.root, some (0, 22), [⟨.paragraph, some (0, 22),
      [⟨.inlineRoot "a `` x\n   y ``\n=b\n\t- z".toList [(0, 0), (7, 7), (15, 15), (18, 18)], none, []⟩]⟩]⟩, []) :=
  parseBlocks_lines (c := 'a') (r := " `` x".toList) (Ls := ["   y ``".toList, "=b".toList, "\t- z".toList])
    (pre := [.code, .list, .lheading]) (post := [.hr])
    (by decide) (by decide) (by decide) rfl (by decide) (by decide)

/-- `ContLine` is needed: a setext underline, a list item, a blank line end the paragraph (or change its kind) -/
example : ¬ ContLine "=".toList ∧ ¬ ContLine "- y".toList ∧ ¬ ContLine " ".toList ∧ ContLine "    - y".toList := by
  decide
end examples

end MdIt.Block
