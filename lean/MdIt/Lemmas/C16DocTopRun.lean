/-
  Helper development for `Props/C16Doc.lean`, part 3c: THE TOP FRAME ALONG THE RUN.

    * `not_interior_init` — the run starts behind the leading blanks: not strictly inside a backtick run;
    * `tcallees_G`        — the guarded callees at a fuel meet `TCallees`;
    * `MissIFP`           — the statement about the code-span cache this file takes as a hypothesis (PROVED for
      every coherent chain in `Lemmas/C16DocTopMiss.lean`, `missIFP_all`): a real step of
      the top frame that does NOT start at a memo entry `k ↦ v`, `v < pos_max` (a memo miss, or an entry that
      ends at the top `pos_max`) leads to a state with `IFP` (strictly inside a backtick run, behind a
      non-escaped character, the position is marked in `inside_failed`);
    * `missIFP_nocode`, `missIFP_notick` — it holds for chains without the code-span rule and for contents
      without a backtick;
    * `reach_ifp`         — under `MissIFP` every reached state of the top frame satisfies `IFP`;
    * `top_agree_run`     — **under `MissIFP`, at every reached state of the top frame with a memo entry
      `pos ↦ v`, `v < pos_max`, the real step (model callees, any fuel) `AgreesTop` with the entry**.
-/
import MdIt.Lemmas.C16DocTop

namespace MdIt.Inline.ES.C16Doc
open MdIt.Inline
open MdIt.Inline.CS (Interior MK InsideSub MK.of_sub InsideSub.refl InsideSub.trans AgreeHyp)
open MdIt.InlineOps (Srcmap getSourcePosFor getMap byteLen slice)

/-! ## small facts -/

theorem dropB_mem : ∀ (l : List Char) (n : Nat) (r : List Char), CodePair.dropB l n = some r →
    ∀ c ∈ r, c ∈ l := by
  intro l n
  induction l generalizing n with
  | nil =>
    intro r h c hc
    cases n with
    | zero => simp only [CodePair.dropB, Option.some.injEq] at h; rw [← h] at hc; exact hc
    | succ n => simp [CodePair.dropB] at h
  | cons d l ih =>
    intro r h c hc
    cases n with
    | zero => simp only [CodePair.dropB, Option.some.injEq] at h; rw [← h] at hc; exact hc
    | succ n =>
      simp only [CodePair.dropB] at h
      split at h
      · exact List.mem_cons_of_mem _ (ih _ r h c hc)
      · cases h

/-- a character the text has at some byte offset is a character of the text -/
theorem charAt_some_mem {l : List Char} {j : Nat} {c : Char} (h : CodePair.charAt l j = some c) :
    c ∈ l := by
  unfold CodePair.charAt at h
  cases hd : CodePair.dropB l j with
  | none => rw [hd] at h; cases h
  | some r =>
    rw [hd] at h
    cases r with
    | nil => cases h
    | cons a t =>
      simp only [Option.bind_some, List.head?_cons, Option.some.injEq] at h
      subst h
      exact dropB_mem l j _ hd a (by simp)

/-- a text without a backtick has no position strictly inside a backtick run -/
theorem not_interior_of_notick {src : List Char} (h : '`' ∉ src) (p : Nat) : ¬ Interior src p :=
  fun hi => h (charAt_some_mem hi.2.2)

/-- behind a prefix of blanks the position is not strictly inside a backtick run -/
theorem not_interior_prefix_blanks (bl t : List Char) (h : ∀ c ∈ bl, isSpTab c = true) :
    ¬ Interior (bl ++ t) bl.length := by
  rintro ⟨h0, h1, _⟩
  rcases List.eq_nil_or_concat bl with rfl | ⟨ini, c, rfl⟩
  · simp at h0
  · simp only [List.concat_eq_append] at h h1
    rw [List.length_append, List.length_singleton, Nat.add_sub_cancel] at h1
    have hb : byteLen ini = ini.length :=
      CS.byteLen_blanks ini (fun x hx => h x (List.mem_append_left _ hx))
    have := CodePair.charAt_append_add ini ([c] ++ t) 0
    rw [CodePair.charAt_zero, codeByteLen_eq, hb, Nat.add_zero] at this
    rw [List.append_assoc, this] at h1
    have hc := h c (by simp)
    simp only [List.singleton_append, List.head?_cons, Option.some.injEq] at h1
    rw [h1] at hc
    simp [isSpTab] at hc

/-- the start position of the top frame is not strictly inside a backtick run -/
theorem not_interior_init (content : List Char) (mapping : Srcmap) :
    ¬ Interior content (IState.init content mapping).pos := by
  show ¬ Interior content (trimSrc content).1
  unfold trimSrc
  simp only
  generalize hr : content.reverse.dropWhile isSpTab = r
  have hsplit : content = (r.drop 1).reverse ++ ((r.take 1).reverse ++
      (content.reverse.takeWhile isSpTab).reverse) := by
    have := List.takeWhile_append_dropWhile (p := isSpTab) (l := content.reverse)
    have h' := congrArg List.reverse this
    simp only [List.reverse_append, List.reverse_reverse] at h'
    rw [← List.append_assoc, ← List.reverse_append, List.take_append_drop, ← hr]
    exact h'.symm
  generalize (r.drop 1).reverse = rest at hsplit
  have h2 := (List.takeWhile_append_dropWhile (p := isSpTab) (l := rest)).symm
  have e : content = rest.takeWhile isSpTab ++ (rest.dropWhile isSpTab ++ ((r.take 1).reverse ++
      (content.reverse.takeWhile isSpTab).reverse)) := by
    rw [← List.append_assoc, ← h2]; exact hsplit
  generalize (rest.dropWhile isSpTab ++ ((r.take 1).reverse ++
      (content.reverse.takeWhile isSpTab).reverse)) = tl at e
  have := not_interior_prefix_blanks (rest.takeWhile isSpTab) tl
    (fun c hc => CS.mem_takeWhile_true _ _ hc)
  rw [← e] at this
  exact this

section
variable {cfg : Cfg} {content : List Char} {mapping : Srcmap}

/-- the guarded callees at fuel `f` meet `TCallees` -/
theorem tcallees_G (hc : ChainCoherent cfg = true)
    (hone : cfg.chain.count .link ≤ 1 ∧ cfg.chain.count .image ≤ 1) (f : Nat) :
    TCallees cfg (BE cfg) content (IState.init content mapping).posMax f
      (fun s => skipTokenG cfg true f s) (fun s => tokLoopG cfg true f s.posMax s) := by
  have H := hyps_all (content := content) (mapping := mapping) hc hone
  refine ⟨skipTokenG_calm cfg true f, skipTokenG_T cfg f,
    fun lo s hg hm => ((guarded_total cfg (coherent_hsz hc) f).2 lo s hg hm).tokT,
    rangesFnG cfg true f, ?_, entryP_NF f, fun s hs s' h => (nested_eq H f s hs).2 s' h⟩
  cases f with
  | zero => exact .inl rfl
  | succ f' => exact .inr (followsHits_guarded cfg true f')

/-- **the code-span cache statement this file is conditional on** (see the file header; `missIFP_all`) -/
def MissIFP (cfg : Cfg) (content : List Char) (mapping : Srcmap) : Prop :=
  RuleId.backticks ∈ cfg.chain → ∀ (f : Nat) (s s' : IState), Reach cfg content mapping (f + 1) s →
    s.posMax = (IState.init content mapping).posMax → s.level < cfg.maxNesting → s.pos < s.posMax →
    IFP cfg s → (∀ v, s.cache.lookup s.pos = some v → v = (IState.init content mapping).posMax) →
    tokStep cfg (fun s => skipToken cfg f s) (fun s => tokLoop cfg f s.posMax s) f s = .ok s' →
    s'.src = content → IFP cfg s'

theorem missIFP_nocode (h : RuleId.backticks ∉ cfg.chain) : MissIFP cfg content mapping :=
  fun hbt => absurd hbt h

theorem missIFP_notick (h : '`' ∉ content) : MissIFP cfg content mapping := by
  intro _ f s s' _ _ _ _ _ _ _ hsrc hint _
  rw [hsrc] at hint
  exact absurd hint (not_interior_of_notick h _)

/-- the data of one real step from a state of the top frame, over the guarded callees -/
theorem top_step_G (hc : ChainCoherent cfg = true)
    (hone : cfg.chain.count .link ≤ 1 ∧ cfg.chain.count .image ≤ 1) {f : Nat} {s : IState}
    (T : TopSt cfg content (IState.init content mapping).posMax s) (hlt : s.pos < s.posMax) :
    tokStep cfg (fun s => skipTokenG cfg true f s) (fun s => tokLoopG cfg true f s.posMax s) f s =
      tokStep cfg (fun s => skipToken cfg f s) (fun s => tokLoop cfg f s.posMax s) f s ∧
    ∀ s', tokStep cfg (fun s => skipTokenG cfg true f s) (fun s => tokLoopG cfg true f s.posMax s) f s
      = .ok s' → TopInv cfg (BE cfg) content (IState.init content mapping).posMax s' := by
  have hnc := CS.nocut_init content mapping
  have H := hyps_all (content := content) (mapping := mapping) hc hone
  have hsz := coherent_hsz hc
  have hend := endHyp_holds cfg (BE cfg) hnc
  have hep := endEP_holds cfg (BE cfg) (src := content) (Mtop := (IState.init content mapping).posMax)
  obtain ⟨lo, hg⟩ := T.good
  have ht : TokHypT (fun s => tokLoopG cfg true f s.posMax s) :=
    fun lo s hg hm => ((guarded_total cfg hsz f).2 lo s hg hm).tokT
  exact tokStep_top (backOK_BE cfg) hend hep hsz (skipTokenG_calm cfg true f) (skipTokenG_T cfg f)
    (skip_grow cfg f) (skip_top (backOK_BE cfg) hend hep (marksHyp_BE cfg) f) (skip_guard_free cfg f) ht
    (rangesFnG cfg true f) (fun s hs => nested_tokEq H f s hs) (entryP_NF f) f s hg T.memo hlt T.inv
    (T.ep hlt)

/-- **one real step of the top frame at a memo hit, model callees** -/
theorem top_agree_model (hc : ChainCoherent cfg = true)
    (hone : cfg.chain.count .link ≤ 1 ∧ cfg.chain.count .image ≤ 1) {f : Nat} {s : IState}
    (T : TopSt cfg content (IState.init content mapping).posMax s) (hl : s.level < cfg.maxNesting)
    (hlt : s.pos < s.posMax) (hifp : RuleId.backticks ∈ cfg.chain → IFP cfg s) {v : Nat}
    (hlk : s.cache.lookup s.pos = some v) (hv : v < (IState.init content mapping).posMax) :
    ∀ s', tokStep cfg (fun s => skipToken cfg f s) (fun s => tokLoop cfg f s.posMax s) f s = .ok s' →
      AgreesTop cfg content s.pos (IState.init content mapping).posMax v s'.pos ∧ s'.cache = s.cache ∧
        (RuleId.backticks ∈ cfg.chain → IFP cfg s') := by
  have H := hyps_all (content := content) (mapping := mapping) hc hone
  obtain ⟨e1, n1⟩ := top_step_G (f := f) hc hone T hlt
  intro s' hs
  exact top_agree H (tcallees_G (mapping := mapping) hc hone f) T.inv T.good T.memo hl hlt hifp hlk hv n1
    s' (e1.trans hs)

/-- **under `MissIFP` every reached state of the top frame satisfies `IFP`** -/
theorem reach_ifp (hc : ChainCoherent cfg = true)
    (hone : cfg.chain.count .link ≤ 1 ∧ cfg.chain.count .image ≤ 1) (hm : MapOK content mapping)
    (hmiss : MissIFP cfg content mapping) (hbt : RuleId.backticks ∈ cfg.chain) :
    ∀ f s, Reach cfg content mapping f s → s.level < cfg.maxNesting →
      s.posMax = (IState.init content mapping).posMax → IFP cfg s := by
  have H := hyps_all (content := content) (mapping := mapping) hc hone
  intro f s hR
  induction hR with
  | init =>
    intro _ _ hint _
    exact absurd hint (not_interior_init content mapping)
  | step hR hlt hstep ih =>
    rename_i f s s'
    intro hl' hmax'
    by_cases hl : s.level < cfg.maxNesting
    · rcases reach_inv hc hone hm _ _ hR hl with T | N
      · have hifp := ih hl T.inv.hmax
        obtain ⟨T', _⟩ := top_step (mapping := mapping) hc hone T hl hlt hstep
        cases hlk : s.cache.lookup s.pos with
        | none =>
          exact hmiss hbt f s s' hR T.inv.hmax hl hlt hifp (by intro v hv; rw [hlk] at hv; cases hv)
            hstep T'.inv.hsrc
        | some v =>
          have hle : v ≤ (IState.init content mapping).posMax := T.inv.le _ _ (lookup_mem hlk)
          by_cases hv : v < (IState.init content mapping).posMax
          · exact (top_agree_model hc hone T hl hlt (fun _ => hifp) hlk hv s' hstep).2.2 hbt
          · exact hmiss hbt f s s' hR T.inv.hmax hl hlt hifp
              (by intro v' hv'; rw [hlk] at hv'; cases hv'; omega) hstep T'.inv.hsrc
      · obtain ⟨v, _, _, _, hS, _⟩ := nested_agree H (callees_of H f (nested_eq H f)) N hl hlt
        have := (hS s' hstep).2.2.1
        have := N.top_lt
        omega
    · have := ((tokStep_over (cfg := cfg) _ _ (fun s => skipToken cfg f s)
        (fun s => tokLoop cfg f s.posMax s) f f hl).2 s' hstep).2.2.2
      omega
  | enter hR hlt hl hE ih =>
    rename_i f s y
    intro _ hmax'
    exfalso
    have hN : NF cfg (BE cfg) content (IState.init content mapping).posMax y := by
      rcases reach_inv hc hone hm _ _ hR hl with T | N
      · exact top_enters hc hone T hlt hE
      · obtain ⟨v, _, _, _, _, hEn⟩ := nested_agree H (callees_of H f (nested_eq H f)) N hl hlt
        obtain ⟨id, x, offset, en, res, st1, hA, hshape, hp, rfl⟩ := hE
        obtain ⟨rfl, _, hnf⟩ := hEn id x offset en res st1 hA hshape hp
        exact hnf
    have := hN.top_lt
    omega

/-- **C16 in the top frame, under `MissIFP`**: at a reached state of the top frame at which rules run,
    with a memo entry `pos ↦ v` that ends before the top `pos_max`, the real step (model callees, any
    fuel `g`) `AgreesTop` with the entry and leaves the memo alone -/
theorem top_agree_run (hc : ChainCoherent cfg = true)
    (hone : cfg.chain.count .link ≤ 1 ∧ cfg.chain.count .image ≤ 1) (hm : MapOK content mapping)
    (hmiss : MissIFP cfg content mapping) {f : Nat} {s : IState} (hR : Reach cfg content mapping f s)
    (htop : s.posMax = (IState.init content mapping).posMax) (hl : s.level < cfg.maxNesting)
    (hlt : s.pos < s.posMax) {v : Nat} (hlk : s.cache.lookup s.pos = some v)
    (hv : v < (IState.init content mapping).posMax) :
    ∀ g s', tokStep cfg (fun s => skipToken cfg g s) (fun s => tokLoop cfg g s.posMax s) g s = .ok s' →
      AgreesTop cfg content s.pos (IState.init content mapping).posMax v s'.pos ∧ s'.cache = s.cache := by
  rcases reach_inv hc hone hm f s hR hl with T | N
  · intro g s' hs
    have hifp : RuleId.backticks ∈ cfg.chain → IFP cfg s :=
      fun hbt => reach_ifp hc hone hm hmiss hbt f s hR hl htop
    obtain ⟨a, b, _⟩ := top_agree_model hc hone T hl hlt hifp hlk hv s' hs
    exact ⟨a, b⟩
  · have := N.top_lt
    omega

end

end MdIt.Inline.ES.C16Doc
