/-
  Helper development for `Props/Inline.lean`: positions, frames, windows; the bridges between the
  three byte-offset string views (`MdIt.InlineOps`, `MdIt.CodePair`, `MdIt.Link`).
-/
import MdIt.Model.Inline
import MdIt.Props.C05
import MdIt.Props.C04
import MdIt.Props.CodePair

namespace MdIt.Inline
open MdIt.InlineOps (Srcmap getSourcePosFor getMap byteLen slice)
open MdIt.C05 (WFMap byteLen_append slice_ok_iff)

/-! ## the predicates the theorems talk about -/

/-- `p` is a character boundary of `s` (`p ≤ len` included) -/
def Boundary (s : List Char) (p : Nat) : Prop := ∃ pre post, s = pre ++ post ∧ byteLen pre = p

/-- what NO rule, in either mode, changes in the end -/
structure Frame (a b : IState) : Prop where
  src : b.src = a.src
  srcmap : b.srcmap = a.srcmap
  posMax : b.posMax = a.posMax
  level : b.level = a.level
  linkLevel : b.linkLevel = a.linkLevel

theorem Frame.refl (a : IState) : Frame a a := ⟨rfl, rfl, rfl, rfl, rfl⟩

theorem Frame.trans {a b c : IState} (h1 : Frame a b) (h2 : Frame b c) : Frame a c :=
  ⟨h2.src.trans h1.src, h2.srcmap.trans h1.srcmap, h2.posMax.trans h1.posMax,
   h2.level.trans h1.level, h2.linkLevel.trans h1.linkLevel⟩

/-- the tree under construction is untouched (what look-ahead must guarantee) -/
structure Quiet (a b : IState) : Prop where
  children : b.children = a.children
  bottoms : b.bottoms = a.bottoms

theorem Quiet.refl (a : IState) : Quiet a a := ⟨rfl, rfl⟩

theorem Quiet.trans {a b c : IState} (h1 : Quiet a b) (h2 : Quiet b c) : Quiet a c :=
  ⟨h2.children.trans h1.children, h2.bottoms.trans h1.bottoms⟩

/-- every memoised jump goes forward -/
def MemoInv (st : IState) : Prop := ∀ k v, (k, v) ∈ st.cache → k < v

/-- the invariant under which a rule is called: `pos < posMax ≤ len`, both on character
    boundaries, well-formed per-line table -/
structure InlineInv (st : IState) : Prop where
  lt : st.pos < st.posMax
  bpos : Boundary st.src st.pos
  bmax : Boundary st.src st.posMax
  wf : WFMap st.srcmap

/-! ## strings -/

theorem byteLen_pos_of_ne_nil {l : List Char} (h : l ≠ []) : 0 < byteLen l := by
  cases l with
  | nil => exact absurd rfl h
  | cons c r => have := Char.utf8Size_pos c; simp only [byteLen]; omega

theorem byteLen_eq_zero {l : List Char} (h : byteLen l = 0) : l = [] := by
  cases l with
  | nil => rfl
  | cons c r => have := Char.utf8Size_pos c; simp only [byteLen] at h; omega

/-- two splittings of one string: the shorter prefix is a prefix of the longer one -/
theorem append_prefix (a b c d : List Char) (h : a ++ b = c ++ d) (hl : byteLen a ≤ byteLen c) :
    ∃ w, c = a ++ w ∧ b = w ++ d := by
  induction a generalizing c with
  | nil => exact ⟨c, rfl, by simpa using h⟩
  | cons x a ih =>
    cases c with
    | nil =>
      have := Char.utf8Size_pos x
      simp only [byteLen] at hl; omega
    | cons y c =>
      simp only [List.cons_append, List.cons.injEq] at h
      obtain ⟨rfl, h⟩ := h
      simp only [byteLen] at hl
      obtain ⟨w, rfl, rfl⟩ := ih c h (by omega)
      exact ⟨w, rfl, rfl⟩

theorem Boundary.le_len {s : List Char} {p : Nat} (h : Boundary s p) : p ≤ byteLen s := by
  obtain ⟨pre, post, rfl, rfl⟩ := h
  rw [byteLen_append]; omega

theorem boundary_zero (s : List Char) : Boundary s 0 := ⟨[], s, rfl, rfl⟩

theorem boundary_len (s : List Char) : Boundary s (byteLen s) := ⟨s, [], by simp, rfl⟩

/-- the text between two boundaries -/
theorem slice_of_boundaries {s : List Char} {a b : Nat} (ha : Boundary s a) (hb : Boundary s b)
    (hab : a ≤ b) :
    ∃ pre w post, s = pre ++ w ++ post ∧ byteLen pre = a ∧ a + byteLen w = b ∧ slice s a b = .ok w := by
  obtain ⟨p1, q1, e1, l1⟩ := ha
  obtain ⟨p2, q2, e2, l2⟩ := hb
  obtain ⟨w, hw, hq⟩ := append_prefix p1 q1 p2 q2 (by rw [← e1, e2]) (by omega)
  have hs : s = p1 ++ w ++ q2 := by rw [e2, hw]
  have hl : a + byteLen w = b := by rw [← l1, ← l2, hw, byteLen_append]
  exact ⟨p1, w, q2, hs, l1, hl, (slice_ok_iff _ _ _ _).mpr ⟨p1, q2, hs, l1, hl⟩⟩

theorem slice_boundaries {s : List Char} {a b : Nat} {w : List Char} (h : slice s a b = .ok w) :
    Boundary s a ∧ Boundary s b ∧ a + byteLen w = b := by
  obtain ⟨p, q, e, l1, l2⟩ := (slice_ok_iff _ _ _ _).mp h
  refine ⟨⟨p, w ++ q, by rw [e]; simp, l1⟩, ⟨p ++ w, q, e, by rw [byteLen_append]; omega⟩, l2⟩

/-- a boundary inside a slice: split the slice there -/
theorem boundary_in_slice {s : List Char} {a b : Nat} {u v : List Char}
    (h : slice s a b = .ok (u ++ v)) : Boundary s (a + byteLen u) := by
  obtain ⟨p, q, e, l1, _⟩ := (slice_ok_iff _ _ _ _).mp h
  exact ⟨p ++ u, v ++ q, by rw [e]; simp, by rw [byteLen_append]; omega⟩

/-! ## the window of a state -/

theorem liftOps_ok {α : Type} {x : Except InlineOps.Panic α} {a : α} :
    liftOps x = .ok a ↔ x = .ok a := by
  cases x <;> simp [liftOps]

theorem liftR_ok {α : Type} {x : Except RPanic α} {a : α} : liftR x = .ok a ↔ x = .ok a := by
  cases x <;> simp [liftR]

theorem liftR_ne_fuel {α : Type} (x : Except RPanic α) : liftR x ≠ .error .fuel := by
  cases x <;> simp [liftR]

theorem window_ok {st : IState} (hi : InlineInv st) :
    ∃ pre w post, st.src = pre ++ w ++ post ∧ byteLen pre = st.pos ∧
      st.pos + byteLen w = st.posMax ∧ st.window = .ok w ∧ w ≠ [] := by
  obtain ⟨pre, w, post, hs, hp, hw, hsl⟩ := slice_of_boundaries hi.bpos hi.bmax (Nat.le_of_lt hi.lt)
  refine ⟨pre, w, post, hs, hp, hw, ?_, ?_⟩
  · unfold IState.window; rw [hsl]; rfl
  · intro e; subst e; have := hi.lt; simp only [byteLen] at hw; omega

theorem window_eq {st : IState} {w : List Char} (h : st.window = .ok w) :
    slice st.src st.pos st.posMax = .ok w := by
  unfold IState.window at h; exact liftOps_ok.mp h

/-- `get_map` cannot fail on a well-formed table when `a ≤ b` -/
theorem getMap_ok {st : IState} (hw : WFMap st.srcmap) {a b : Nat} (hab : a ≤ b) :
    ∃ x y, st.getMap a b = .ok (x, y) ∧ getSourcePosFor st.srcmap a = .ok x ∧
      getSourcePosFor st.srcmap b = .ok y := by
  obtain ⟨x, hx⟩ := C05.translate_total st.srcmap hw a
  obtain ⟨y, hy⟩ := C05.translate_total st.srcmap hw b
  refine ⟨x, y, ?_, hx, hy⟩
  unfold IState.getMap InlineOps.getMap
  rw [if_neg (by omega), hx, hy]; rfl

/-! ## bridges between the string views -/

theorem codeByteLen_eq (l : List Char) : CodePair.byteLen l = byteLen l := by
  induction l with
  | nil => rfl
  | cons c r ih => simp [CodePair.byteLen, byteLen, ih]

theorem clen_eq (c : Char) : Link.clen c = c.utf8Size := by
  unfold Link.clen Char.utf8Size
  simp only [UInt32.le_iff_toNat_le, UInt32.toNat_ofNatLT, Char.toNat]
  repeat' split
  all_goals omega

theorem linkByteLen_eq (l : List Char) : Link.byteLen l = byteLen l := by
  induction l with
  | nil => rfl
  | cons c r ih => simp [Link.byteLen, byteLen, ih, clen_eq]

/-- the slice of `MdIt.CodePair` agrees with the slice of `MdIt.InlineOps` -/
theorem codeSlice_eq (s : List Char) (a b : Nat) (w : List Char) :
    CodePair.slice s a b = some w ↔ slice s a b = .ok w := by
  constructor
  · intro h
    obtain ⟨x, z, hs, hx, hu⟩ := CodePair.slice_some h
    rw [codeByteLen_eq] at hx hu
    exact (slice_ok_iff _ _ _ _).mpr ⟨x, z, hs, hx, hu⟩
  · intro h
    obtain ⟨p, q, e, l1, l2⟩ := (slice_ok_iff _ _ _ _).mp h
    have := CodePair.slice_mid p w q
    rw [codeByteLen_eq, codeByteLen_eq, l1, l2] at this
    rw [e]; exact this

/-- the slice of `MdIt.Link` agrees with the slice of `MdIt.InlineOps` -/
theorem linkSlice_eq (s : List Char) (a b : Nat) (w : List Char) :
    Link.slice s a b = .ok w ↔ slice s a b = .ok w := by
  rw [Link.slice_ok_iff, slice_ok_iff]
  constructor
  · rintro ⟨p, q, e, l1, l2⟩
    rw [linkByteLen_eq] at l1 l2
    exact ⟨p, q, e, l1, by omega⟩
  · rintro ⟨p, q, e, l1, l2⟩
    exact ⟨p, q, e, by rw [linkByteLen_eq]; exact l1, by rw [linkByteLen_eq]; omega⟩

theorem codeBoundary_iff (s : List Char) (p : Nat) : CodePair.isBoundary s p = true ↔ Boundary s p := by
  constructor
  · intro h
    unfold CodePair.isBoundary at h
    cases hd : CodePair.dropB s p with
    | none => simp [hd] at h
    | some t =>
      obtain ⟨a, ha, hl⟩ := CodePair.dropB_some hd
      exact ⟨a, t, ha, by rw [← codeByteLen_eq]; exact hl⟩
  · rintro ⟨pre, post, rfl, rfl⟩
    rw [← codeByteLen_eq]; exact CodePair.isBoundary_append pre post

theorem linkBoundary_iff (s : List Char) (p : Nat) : Link.Boundary s p ↔ Boundary s p := by
  constructor
  · rintro ⟨pre, post, e, l⟩; exact ⟨pre, post, e, by rw [← linkByteLen_eq]; exact l⟩
  · rintro ⟨pre, post, e, l⟩; exact ⟨pre, post, e, by rw [linkByteLen_eq]; exact l⟩

end MdIt.Inline
