/-
  C05 for ALL sources, second part: character boundaries at every node.  Shared definitions — the
  interfaces between
    * the table side (Lemmas/C05TabsFaith.lean: `PFthV`, what `get_lines` guarantees about the
      CONTENT for any table, virtual-space entries included; `Block.PTabsF`),
    * the inline side (Lemmas/C05TabsBd*.lean: the frame invariant `BI`; Lemmas/C05TabsBdEmph.lean:
      the delimiter matching),
    * the transport (Lemmas/C05TabsBdSplice.lean: `PInlB`, `PostBd`).
-/
import MdIt.Lemmas.C05TabsDefs

namespace MdIt.C05T
open MdIt.InlineOps (Srcmap getSourcePosFor byteLen)
open MdIt.Inline (Node Val IState)
open MdIt.C05R (Cut Bdy NoBrk BrkAt)

/-- the content of a placeholder is a faithful excerpt of the document — for ANY `get_lines` table
    (`C05R.PFth` is the special case without virtual-space entries):
    `bdy`   the translation of a character boundary of the inline text is a character boundary of
            the document (a position inside the virtual spaces of a split tab is translated to the
            source offset the segment sits on);
    `copy`  inside a stretch `c[p..q]` that starts with a character other than space and line feed
            and holds no line feed, every sub-stretch is a copy of the source bytes between the
            translated offsets;
    `brk`   across a line feed of the inline text the translated range holds a line break. -/
structure PFthV (src c : List Char) (m : Srcmap) : Prop where
  bdy : ∀ p a, Bdy c p → getSourcePosFor m p = .ok a → Bdy src a
  copy : ∀ p q ch0 w p1 p2 w' a b, Cut c p q (ch0 :: w) → ch0 ≠ ' ' → ch0 ≠ '\n' → '\n' ∉ w →
    p ≤ p1 → p2 ≤ q → Cut c p1 p2 w' → getSourcePosFor m p1 = .ok a → getSourcePosFor m p2 = .ok b →
    Cut src a b w'
  brk : ∀ p q w a b w', Cut c p q w → '\n' ∈ w → getSourcePosFor m p = .ok a →
    getSourcePosFor m q = .ok b → Cut src a b w' → ¬ NoBrk w'

mutual
/-- C05 clause 2 at every node of an inline tree: both range ends are character boundaries of the
    document; an `EmphMarker` covers exactly its `remaining` single-byte delimiters (what the
    delimiter matching needs to cut ranges in source coordinates) -/
def BdN (src : List Char) : Node → Prop
  | ⟨v, r, cs⟩ =>
    (∃ a b, r = some (a, b) ∧ Bdy src a ∧ Bdy src b ∧
      (∀ mk l rem o c, v = .emphMarker mk l rem o c →
        Cut src a b (List.replicate rem mk) ∧ mk.utf8Size = 1)) ∧ BdL src cs
def BdL (src : List Char) : List Node → Prop
  | [] => True
  | c :: cs => BdN src c ∧ BdL src cs
end

theorem BdN_eq (src : List Char) (n : Node) :
    BdN src n ↔ (∃ a b, n.range = some (a, b) ∧ Bdy src a ∧ Bdy src b ∧
      (∀ mk l rem o c, n.val = .emphMarker mk l rem o c →
        Cut src a b (List.replicate rem mk) ∧ mk.utf8Size = 1)) ∧ BdL src n.children := by
  cases n; simp [BdN]

theorem bdL_iff (src : List Char) (l : List Node) : BdL src l ↔ ∀ n ∈ l, BdN src n := by
  induction l with
  | nil => simp [BdL]
  | cons c cs ih => simp [BdL, ih]

/-- what one inline run works in, for any source -/
structure CtxV (src0 c : List Char) (m : Srcmap) : Prop where
  map : MapT c m
  fth : PFthV src0 c m

/-- the frame invariant (beside `RIv`): the cursor is on a character boundary of the inline text,
    every child is `BdN` -/
structure BI (src0 c : List Char) (m : Srcmap) (pos : Nat) (cs : List Node) : Prop where
  bpos : Bdy c pos
  deep : BdL src0 cs

def BInv (src0 : List Char) (st : IState) : Prop := BI src0 st.src st.srcmap st.pos st.children

/-- the contract of the emphasis-marker rule (Lemmas/C05TabsBdEmph.lean) -/
def BdEmphOK (cfg : Inline.Cfg) (src0 : List Char) : Prop :=
  ∀ (mk : Char) (csw : Bool) (st st' : IState) (o : Option Nat),
    mk.utf8Size = 1 → mk ≠ '\n' → mk ≠ ' ' → CtxV src0 st.src st.srcmap → BInv src0 st →
    Inline.ruleEmph cfg mk csw st false = .ok (o, st') →
    BI src0 st.src st.srcmap (st'.pos + o.getD 0) st'.children

/-- the claim about a placeholder the splice walk consumes, with boundaries -/
def PInlB (icfg : Inline.Cfg) (src : List Char) : Block.InlP := fun c m a b =>
  ∀ ns, Inline.parseInline icfg c m = .ok ns →
    Inline.OrderedN a b ns ∧ Inline.WellRangedList ns ∧ BdL src ns

/-- a node of the finished tree: both range ends on character boundaries -/
def PostBd (src : List Char) (n : Pipeline.Node) : Prop :=
  ∃ a b, n.range = some (a, b) ∧ Bdy src a ∧ Bdy src b

end MdIt.C05T

namespace MdIt.Block

/-- the full claim about a placeholder for ALL sources -/
def PTabsF (src0 : List Char) : InlP := fun c m a b =>
  PTabs src0 c m a b ∧ C05T.PFthV src0 c m ∧ (b = InlineOps.byteLen src0 ∨ C05R.BrkAt src0 b)

end MdIt.Block
