/-
  C10 with the sourcepos plugin, full version — the exact inline simulation, part 2: the delimiter matching (SECTION EMPH-MATCH) and the emphasis rule (see
  `Lemmas/C10SpTabsInlineBase.lean`).
-/
import MdIt.Lemmas.C10SpTabsInlineBase

namespace MdIt.Inline.XT
open MdIt.InlineOps (Srcmap getSourcePosFor getMap byteLen slice)
open MdIt.Pipeline (MLe)
open MdIt.C10SP (CharSolid)
set_option linter.unusedSimpArgs false
set_option linter.unusedVariables false

variable {K : Ctx}

/-! ## the table on a stretch that starts with a solid character and holds no line feed -/

/-- WITHIN such a stretch the translation is a shift (`C05T.MapT.shift`) -/
theorem tr_shift {src : List Char} {m : Srcmap} (hm : C05T.MapT src m) {a b : Nat} {ch0 : Char}
    {w : List Char} (hs : slice src a b = .ok (ch0 :: w)) (hsp : ch0 ≠ ' ') (hne : ch0 ≠ '\n')
    (hn : '\n' ∉ w) {x : Nat} (hx : getSourcePosFor m a = .ok x) (j : Nat)
    (hj : a + j ≤ b) : getSourcePosFor m (a + j) = .ok (x + j) := by
  obtain ⟨y, hy⟩ := C05.translate_total m hm.wf (a + j)
  have := hm.shift a b ch0 w a (a + j) x y ((C05.slice_ok_iff _ _ _ _).mp hs) hsp hne hn
    (Nat.le_refl _) (by omega) hj hx hy
  rw [hy, this]; congr 2; omega

theorem byteLen_replicate {mk : Char} (h : mk.utf8Size = 1) (n : Nat) :
    byteLen (List.replicate n mk) = n := by
  induction n with
  | zero => rfl
  | succ n ih => simp only [List.replicate_succ, byteLen, ih, h]; omega

theorem run_slice {src p q : List Char} {mk : Char} {n : Nat} (hsz : mk.utf8Size = 1)
    (e : src = p ++ List.replicate n mk ++ q) :
    slice src (byteLen p) (byteLen p + n) = .ok (List.replicate n mk) :=
  (C05.slice_ok_iff _ _ _ _).mpr ⟨p, q, e, rfl, by rw [byteLen_replicate hsz]⟩

theorem run_solid {src p q : List Char} {mk : Char} {n : Nat} (hsz : mk.utf8Size = 1) (hne : mk ≠ '\n')
    (hsp : mk ≠ ' ')
    (e : src = p ++ List.replicate n mk ++ q) (j : Nat) (hj : j < n) : CharSolid src (byteLen p + j) := by
  refine ⟨p ++ List.replicate j mk, mk, List.replicate (n - j - 1) mk ++ q, ?_, ?_, hne, hsp⟩
  · have h1 : List.replicate n mk = List.replicate j mk ++ mk :: List.replicate (n - j - 1) mk := by
      have hn : n = j + ((n - j - 1) + 1) := by omega
      conv => lhs; rw [hn]
      rw [← List.replicate_append_replicate, List.replicate_succ]
    rw [e, h1]; simp
  · rw [C05.byteLen_append, byteLen_replicate hsz]

/-- the delimiter run `ruleEmph` scans: a stretch of delimiters inside the text, a (solid) delimiter at
    each position -/
theorem emph_run {cfg : Cfg} {a : IState} {mk c : Char} {w : List Char} {csw : Bool} {d : DelimRun}
    (hsz : mk.utf8Size = 1) (hne : mk ≠ '\n') (hsp : mk ≠ ' ') (hw : a.window = .ok (c :: w)) (hc : c = mk)
    (hsd : scanDelims cfg a.src a.posMax a.pos csw = .ok d) :
    (∃ k, slice a.src a.pos (a.pos + d.length) = .ok (mk :: List.replicate k mk)) ∧
      (∀ j, j < d.length → CharSolid a.src (a.pos + j)) ∧ a.pos + d.length ≤ byteLen a.src := by
  obtain ⟨mk', rest, hsl, _, hlen⟩ := scanDelims_length hsd
  unfold IState.window at hw
  rw [hsl] at hw
  simp only [Except.ok.injEq, List.cons.injEq] at hw
  obtain ⟨rfl, rfl⟩ := hw
  subst hc
  obtain ⟨p, q, e, hp, _⟩ := (C05.slice_ok_iff _ _ _ _).mp (liftOps_ok.mp hsl)
  obtain ⟨t, ht⟩ := runLen_split mk' rest
  have e' : a.src = p ++ List.replicate d.length mk' ++ (t ++ q) := by
    rw [e, hlen, Nat.add_comm, List.replicate_succ]
    conv => lhs; rw [ht]
    simp
  rw [← hp]
  refine ⟨⟨CodePair.runLen mk' rest, ?_⟩, run_solid hsz hne hsp e', ?_⟩
  · have := run_slice hsz e'
    rw [hlen, Nat.add_comm 1, List.replicate_succ] at this
    rw [hlen, Nat.add_comm 1]; exact this
  · have := congrArg byteLen e'
    rw [C05.byteLen_append, C05.byteLen_append, byteLen_replicate hsz] at this
    omega

theorem tokInv_of_GM {p n k : Nat} {mk : Char} {r₁ r₂ : Nat × Nat}
    (hs : slice K.c p (p + n) = .ok (mk :: List.replicate k mk)) (hne : mk ≠ '\n') (hsp : mk ≠ ' ')
    (hcn : ∀ j, j < n → CharSolid K.c (p + j)) (hb : p + n ≤ byteLen K.c)
    (h : GM K.m₁ K.m₂ p (p + n) r₁ r₂) : TokInv K n (some r₁) (some r₂) := by
  have hn : '\n' ∉ List.replicate k mk := fun hm => hne (List.eq_of_mem_replicate hm).symm
  have s1 := fun j hj => tr_shift K.ok₁ hs hsp hne hn h.1 j hj
  have s2 := fun j hj => tr_shift K.ok₂ hs hsp hne hn h.2.2.1 j hj
  have e1 : r₁.2 = r₁.1 + n := by
    have := s1 n (Nat.le_refl _); rw [h.2.1] at this; simpa using this
  have e2 : r₂.2 = r₂.1 + n := by
    have := s2 n (Nat.le_refl _); rw [h.2.2.2] at this; simpa using this
  exact ⟨p, r₁.1, r₂.1, by rw [← e1], by rw [← e2], fun j hj => ⟨s1 j (by omega), s2 j (by omega)⟩, hcn, hb⟩

/-! ## SECTION EMPH-MATCH: everything that unfolds matchInner / matchOuter / scanAndMatch

  Interface the rest relies on — ONLY the statement of `scanAndMatch_sim` (as in `C10DocInline.lean`).
  New here: the closer's range satisfies the TOKEN INVARIANT for the tracked `closer.remaining`
  (`MSRelC.cl`), and while `matchInner` works on the opener at `idx` that token's VALUE is stale: the
  children are related everywhere except at `idx`, where the ranges satisfy the token invariant for the
  tracked `opener.remaining` (`Decomp`; `CRel` = that, or the plain list relation once the opener is used
  up and has been removed). -/

theorem asMarker_val {n : Node} {m : Marker} (h : n.asMarker = some m) : n.val = m.toVal := by
  unfold Node.asMarker at h
  split at h
  · next hv => simp only [Option.some.injEq] at h; subst h; exact hv
  · cases h

theorem xrel_toVal {s : Bool} {m : Marker} {r₁ r₂ : Option (Nat × Nat)} :
    XRel K s m.toVal r₁ r₂ ↔ (s = true → TokInv K m.remaining r₁ r₂) := Iff.rfl

/-- the matching state without the children -/
structure MSRelC (K : Ctx) (s : Bool) (x y : MatchSt) : Prop where
  eq : y = { x with closerRange := y.closerRange, children := y.children }
  range : RRel s x.closerRange y.closerRange
  cl : s = true → TokInv K x.closer.remaining x.closerRange y.closerRange

theorem MSRelC.out {s : Bool} {x y : MatchSt} (h : MSRelC K s x y) :
    ∃ cr cs, y = { x with closerRange := cr, children := cs } ∧ RRel s x.closerRange cr ∧
      (s = true → TokInv K x.closer.remaining x.closerRange cr) := ⟨_, _, h.eq, h.range, h.cl⟩

theorem MSRelC.mk' {s : Bool} {x : MatchSt} {cr : Option (Nat × Nat)} {cs : List Node}
    (hr : RRel s x.closerRange cr) (hcl : s = true → TokInv K x.closer.remaining x.closerRange cr) :
    MSRelC K s x { x with closerRange := cr, children := cs } := ⟨rfl, hr, hcl⟩

structure MSRel (K : Ctx) (s : Bool) (x y : MatchSt) : Prop where
  core : MSRelC K s x y
  ch : LRel K s x.children y.children

theorem MSRel.out {s : Bool} {x y : MatchSt} (h : MSRel K s x y) :
    ∃ cr cs, y = { x with closerRange := cr, children := cs } ∧ RRel s x.closerRange cr ∧
      (s = true → TokInv K x.closer.remaining x.closerRange cr) ∧
      LRel K s x.children cs := ⟨_, _, h.core.eq, h.core.range, h.core.cl, h.ch⟩

theorem MSRel.mk' {s : Bool} {x : MatchSt} {cr : Option (Nat × Nat)} {cs : List Node}
    (hr : RRel s x.closerRange cr) (hcl : s = true → TokInv K x.closer.remaining x.closerRange cr)
    (hc : LRel K s x.children cs) :
    MSRel K s x { x with closerRange := cr, children := cs } := ⟨⟨rfl, hr, hcl⟩, hc⟩

/-- the opener token while `matchInner` runs: same (stale) value, and the ranges satisfy the token
    invariant for the tracked `remaining` -/
def TokRel (K : Ctx) (s : Bool) (rem : Nat) (t₁ t₂ : Node) : Prop :=
  t₁.val = t₂.val ∧ RRel s t₁.range t₂.range ∧ (s = true → TokInv K rem t₁.range t₂.range) ∧
    LRel K s t₁.children t₂.children

/-- related everywhere except at `idx`, where the tokens are `TokRel` -/
def Decomp (K : Ctx) (s : Bool) (idx rem : Nat) (l₁ l₂ : List Node) : Prop :=
  ∃ pre₁ t₁ post₁ pre₂ t₂ post₂, l₁ = pre₁ ++ [t₁] ++ post₁ ∧ l₂ = pre₂ ++ [t₂] ++ post₂ ∧
    pre₁.length = idx ∧ LRel K s pre₁ pre₂ ∧ TokRel K s rem t₁ t₂ ∧ LRel K s post₁ post₂

def CRel (K : Ctx) (s : Bool) (idx rem : Nat) (l₁ l₂ : List Node) : Prop :=
  (0 < rem → Decomp K s idx rem l₁ l₂) ∧ (rem = 0 → LRel K s l₁ l₂)

theorem LRel.of_append {s : Bool} : ∀ {a c l₂ : List Node}, LRel K s (a ++ c) l₂ →
    ∃ b d, l₂ = b ++ d ∧ LRel K s a b ∧ LRel K s c d
  | [], c, l₂, h => ⟨[], l₂, rfl, by simp, by simp at h; exact h⟩
  | x :: a, c, [], h => absurd h (by simp)
  | x :: a, c, y :: l₂, h => by
    simp only [List.cons_append, LRel_cons_cons] at h
    obtain ⟨b, d, rfl, hb, hd⟩ := LRel.of_append h.2
    exact ⟨y :: b, d, rfl, by simp [h.1, hb], hd⟩

theorem decomp_of_LRel {s : Bool} {l₁ l₂ : List Node} {idx : Nat} {tok : Node} {op : Marker}
    (h : LRel K s l₁ l₂) (ht : l₁[idx]? = some tok) (hm : tok.asMarker = some op) :
    Decomp K s idx op.remaining l₁ l₂ := by
  obtain ⟨e, hlen⟩ := split_at_getElem? ht
  rw [e] at h
  obtain ⟨b, post₂, rfl, hb, hpost⟩ := LRel.of_append h
  obtain ⟨pre₂, b', rfl, hpre, hb'⟩ := LRel.of_append hb
  match b', hb' with
  | [t₂], hb' =>
    simp only [LRel_cons_cons] at hb'
    have hn := hb'.1
    refine ⟨_, tok, _, pre₂, t₂, post₂, e, rfl, hlen, hpre, ⟨hn.val.symm, hn.range, ?_, hn.children⟩, hpost⟩
    have := hn.extra
    rw [asMarker_val hm] at this
    exact xrel_toVal.mp this
  | [], hb' => exact absurd hb' (by simp)
  | _ :: _ :: _, hb' =>
    simp only [LRel_cons_cons] at hb'
    exact absurd hb'.2 (by simp)

theorem take_mid {α : Type} {pre : List α} {idx : Nat} (h : pre.length = idx) (t : α) (post : List α) :
    (pre ++ [t] ++ post).take (idx + 1) = pre ++ [t] := by
  subst h
  induction pre with
  | nil => simp
  | cons x pre ih => simpa using ih

theorem drop_mid {α : Type} {pre : List α} {idx : Nat} (h : pre.length = idx) (t : α) (post : List α) :
    (pre ++ [t] ++ post).drop (idx + 1) = post := by
  subst h
  induction pre with
  | nil => simp
  | cons x pre ih => simp

mutual
/-- related trees carry the same `EmphDepth` (it is a function of the values and the shape) -/
theorem NRel.wrapDepth_eq {s : Bool} : ∀ (a b : Node), NRel K s a b → wrapDepth b = wrapDepth a
  | ⟨v₁, r₁, cs₁⟩, ⟨v₂, r₂, cs₂⟩, h => by
    simp only [NRel] at h
    obtain ⟨rfl, _, _, hc⟩ := h
    have := LRel.wrapDepthList_eq cs₁ cs₂ hc
    cases v₁ <;> simp [wrapDepth, this]
theorem LRel.wrapDepthList_eq {s : Bool} :
    ∀ (l₁ l₂ : List Node), LRel K s l₁ l₂ → wrapDepthList l₂ = wrapDepthList l₁
  | [], l₂, h => by simp only [LRel] at h; subst h; rfl
  | a :: as, [], h => by simp at h
  | a :: as, b :: bs, h => by
    simp only [LRel_cons_cons] at h
    simp only [wrapDepthList, NRel.wrapDepth_eq a b h.1, LRel.wrapDepthList_eq as bs h.2]
end

/-- cutting `ml` delimiters off the START of the closer's range keeps the token invariant (for
    `rem - ml`), and the cut point is the translation of ONE inline position under both tables -/
theorem crStep_tok {s : Bool} {cr₁ cr₂ : Option (Nat × Nat)} {rem : Nat} (ml : Nat) (hml : ml ≤ rem)
    (h : s = true → TokInv K rem cr₁ cr₂) :
    (s = true → TokInv K (rem - ml) (crStep cr₁ ml).1 (crStep cr₂ ml).1) ∧
    (s = true → ∃ q, q ≤ byteLen K.c ∧ getSourcePosFor K.m₁ q = .ok (crStep cr₁ ml).2 ∧
      getSourcePosFor K.m₂ q = .ok (crStep cr₂ ml).2) := by
  refine ⟨fun hs => ?_, fun hs => ?_⟩
  · obtain ⟨p, a₁, a₂, rfl, rfl, hsh, hcn, hb⟩ := h hs
    refine ⟨p + ml, a₁ + ml, a₂ + ml, ?_, ?_, ?_, ?_, by omega⟩
    · simp only [crStep]; congr 2; omega
    · simp only [crStep]; congr 2; omega
    · intro j hj
      have := hsh (ml + j) (by omega)
      simpa only [Nat.add_assoc] using this
    · intro j hj
      have := hcn (ml + j) (by omega)
      simpa only [Nat.add_assoc] using this
  · obtain ⟨p, a₁, a₂, rfl, rfl, hsh, hcn, hb⟩ := h hs
    exact ⟨p + ml, by omega, by simpa only [crStep] using (hsh ml hml).1,
      by simpa only [crStep] using (hsh ml hml).2⟩

/-- cutting `ml` delimiters off the END of the opener's range -/
theorem cutTok_sim {s : Bool} {o₁ o₂ : Node} {ml rem : Nat} {r : Node × Nat} (hn : TokRel K s rem o₁ o₂)
    (hml : ml ≤ rem) (h : cutTok o₁ ml = .ok r) :
    Sim s (fun r r' => TokRel K s (rem - ml) r.1 r'.1 ∧ (s = true → r.2 ≤ r'.2) ∧
      (s = true → 1 ≤ ml → ∃ p, CharSolid K.c p ∧ getSourcePosFor K.m₁ p = .ok r.2 ∧
        getSourcePosFor K.m₂ p = .ok r'.2)) r (cutTok o₂ ml) := by
  obtain ⟨hv, hr, hx, hch⟩ := hn
  cases s with
  | false =>
    have hf : ∀ (a b : Node), a.val = b.val → LRel K false a.children b.children →
        TokRel K false (rem - ml) a b :=
      fun a b h1 h2 => ⟨h1, RRel.false _ _, (fun h => by cases h), h2⟩
    unfold cutTok at h ⊢
    split at h
    · split at h
      · simp at h
      · simp only [Except.ok.injEq] at h; subst h
        split
        · split
          · rfl
          · exact ⟨hf _ _ hv hch, (fun h => by cases h), (fun h => by cases h)⟩
        · exact ⟨hf _ _ hv hch, (fun h => by cases h), (fun h => by cases h)⟩
    · simp only [Except.ok.injEq] at h; subst h
      split
      · split
        · rfl
        · exact ⟨hf _ _ hv hch, (fun h => by cases h), (fun h => by cases h)⟩
      · exact ⟨hf _ _ hv hch, (fun h => by cases h), (fun h => by cases h)⟩
  | true =>
    obtain ⟨p, a₁, a₂, hr1, hr2, hsh, hcn, hb⟩ := hx rfl
    have hro := hr rfl
    rw [hr1, hr2] at hro
    simp only [ROrd] at hro
    unfold cutTok at h ⊢
    rw [hr1] at h
    rw [hr2]
    simp only [] at h ⊢
    rw [if_neg (by omega)] at h
    rw [if_neg (by omega)]
    simp only [Except.ok.injEq] at h; subst h
    refine ⟨⟨hv, RRel.some (fun _ => hro.1) (fun _ => by omega), fun _ => ?_, hch⟩,
      fun _ => by simp only []; omega, fun _ h1 => ?_⟩
    · refine ⟨p, a₁, a₂, ?_, ?_, fun j hj => hsh j (by omega), fun j hj => hcn j (by omega), by omega⟩
      · simp only []; congr 2; omega
      · simp only []; congr 2; omega
    · refine ⟨p + (rem - ml), hcn _ (by omega), ?_, ?_⟩
      · have := (hsh (rem - ml) (by omega)).1
        simp only []; rw [this]; congr 1; omega
      · have := (hsh (rem - ml) (by omega)).2
        simp only []; rw [this]; congr 1; omega

theorem matchInner_sim {s : Bool} (fns : Nat → Option Wrap) (mk : Char) (room idx : Nat) :
    ∀ (fuel : Nat) (opener : Marker) (x y : MatchSt) (r : Marker × MatchSt), MSRelC K s x y →
      CRel K s idx opener.remaining x.children y.children →
      matchInner fns mk room idx fuel opener x = .ok r →
      Sim s (fun r r' => r'.1 = r.1 ∧ MSRelC K s r.2 r'.2 ∧
          CRel K s idx r.1.remaining r.2.children r'.2.children) r
        (matchInner fns mk room idx fuel opener y) := by
  intro fuel
  induction fuel with
  | zero =>
    intro opener x y r rel crel h
    simp only [matchInner, Except.ok.injEq] at h ⊢; subst h; exact ⟨rfl, rel, crel⟩
  | succ n ih =>
    intro opener x y r rel crel h
    obtain ⟨cr, cs, rfl, hr, hcl⟩ := rel.out
    simp only [] at crel
    rw [matchInner_succ] at h ⊢
    simp only [] at h ⊢
    split at h
    · next hrem =>
      rw [if_pos hrem]
      -- the nesting-limit `break`: `inner_depth` is the same on both sides
      split at h
      · next hdep =>
        rw [if_pos hdep]
        simp only [Except.ok.injEq] at h; subst h; exact ⟨rfl, rel, crel⟩
      next hdep =>
      rw [if_neg hdep]
      split at h
      · simp only [Except.ok.injEq] at h; subst h; exact ⟨rfl, rel, crel⟩
      · next ml w hpick =>
        have hml := pickLen_le hpick
        split at h
        · simp at h
        · next hu =>
          rw [if_neg hu]
          obtain ⟨pre₁, t₁, post₁, pre₂, t₂, post₂, e₁, e₂, hlen, hpre, htok, hpost⟩ := crel.1 hrem.2
          have hlen2 : pre₂.length = idx := by rw [← hpre.length]; exact hlen
          subst e₂
          rw [e₁] at h
          rw [if_neg (by simp only [List.length_append, List.length_cons, List.length_nil]; omega)] at h
          rw [if_neg (by simp only [List.length_append, List.length_cons, List.length_nil]; omega)]
          rw [take_mid hlen, popLast_snoc, drop_mid hlen] at h
          rw [take_mid hlen2, popLast_snoc, drop_mid hlen2]
          simp only [] at h ⊢
          split at h
          · simp at h
          · next otok' smp hcut =>
            rcases (cutTok_sim htok (by omega) hcut).cases with ⟨⟨ot₂, sp₂⟩, e2, hrn, hrs, hsp⟩ | ⟨hs, e, e2⟩
            · rw [e2]; simp only []
              have hcr := crStep_rel ml hr
              have hct := crStep_tok ml (by omega) hcl
              simp only [] at hrn hrs hsp
              have hwrap : NRel K s
                  { val := .wrap w mk, range := some (smp, (crStep x.closerRange ml).2), children := post₁ }
                  { val := .wrap w mk, range := some (sp₂, (crStep cr ml).2), children := post₂ } := by
                refine NRel.mk' (RRel.some hrs hcr.2) (fun hs => ?_) hpost
                obtain ⟨p, hp0, hp1, hp2⟩ := hsp hs hml.1
                obtain ⟨q, hq0, hq1, hq2⟩ := hct.2 hs
                exact ⟨p, q, _, _, _, _, rfl, rfl, hq0, hp0, hp1, hq1, hp2, hq2⟩
              refine ih _ _ _ _ ?_ ?_ h
              · exact MSRelC.mk' (x := { closer := _, closerRange := _, children := _, newMin := 0,
                                          innerDepth := _ }) hcr.1 hct.1
              · simp only []
                constructor
                · intro hpos
                  have hne : ¬ (opener.remaining - ml = 0) := by omega
                  rw [if_neg hne, if_neg hne]
                  exact ⟨pre₁, otok', _, pre₂, ot₂, _, rfl, rfl, hlen, hpre, hrn, LRel.single hwrap⟩
                · intro h0
                  rw [if_pos h0, if_pos h0]
                  exact hpre.snoc hwrap
            · rw [e2]; exact hs
    · next hrem =>
      rw [if_neg hrem]
      simp only [Except.ok.injEq] at h; subst h; exact ⟨rfl, rel, crel⟩

/-- writing the tracked opener back restores the plain list relation -/
theorem replaceAt_sim {s : Bool} {c₁ c₂ o₁ : List Node} {idx : Nat} {mkr : Marker}
    (hc : Decomp K s idx mkr.remaining c₁ c₂)
    (h : replaceAt c₁ idx mkr = .ok o₁) : Sim s (LRel K s) o₁ (replaceAt c₂ idx mkr) := by
  obtain ⟨pre₁, t₁, post₁, pre₂, t₂, post₂, rfl, rfl, hlen, hpre, htok, hpost⟩ := hc
  have hlen2 : pre₂.length = idx := by rw [← hpre.length]; exact hlen
  unfold replaceAt at h ⊢
  subst hlen
  rw [getElem?_mid] at h
  simp only [set_mid] at h
  rw [← hlen2, getElem?_mid]
  simp only [set_mid]
  simp only [Except.ok.injEq] at h; subst h
  obtain ⟨hv, hr, hx, hch⟩ := htok
  exact (hpre.snoc (NRel.mk' hr (xrel_toVal.mpr hx) hch)).append hpost

theorem matchOuter_sim {s : Bool} (fns : Nat → Option Wrap) (mk : Char) (room minIdx : Nat) :
    ∀ (k : Nat) (x y r : MatchSt), MSRel K s x y → matchOuter fns mk room minIdx k x = .ok r →
      Sim s (MSRel K s) r (matchOuter fns mk room minIdx k y) := by
  intro k
  induction k with
  | zero =>
    intro x y r rel h
    simp only [matchOuter, Except.ok.injEq] at h ⊢; subst h; exact rel
  | succ k ih =>
    intro x0 y0 r rel0 h
    -- the read of `children[idx + 1]`: related nodes carry the same `EmphDepth`, so `inner_depth`
    -- stays the same on both sides
    rw [matchOuter_succ] at h ⊢
    split at h
    · simp at h
    next nxt hnxt =>
    obtain ⟨nxt₂, hnxt₂, hnrel⟩ := rel0.ch.getElem? _ hnxt
    rw [hnxt₂]; simp only []
    have hid : y0.innerDepth = x0.innerDepth := by obtain ⟨cr, cs, rfl, _, _, _⟩ := rel0.out; rfl
    rw [hid, NRel.wrapDepth_eq _ _ hnrel]
    have rel' : MSRel K s { x0 with innerDepth := max x0.innerDepth (wrapDepth nxt) }
        { y0 with innerDepth := max x0.innerDepth (wrapDepth nxt) } := by
      obtain ⟨cr, cs, rfl, hr, hcl, hc⟩ := rel0.out
      exact MSRel.mk' (x := { x0 with innerDepth := _ }) hr hcl hc
    generalize ({ x0 with innerDepth := max x0.innerDepth (wrapDepth nxt) } : MatchSt) = x at h rel'
    generalize ({ y0 with innerDepth := max x0.innerDepth (wrapDepth nxt) } : MatchSt) = y at rel' ⊢
    have rel := rel'
    clear rel' hid hnrel hnxt₂ hnxt rel0
    unfold matchOuterBody at h ⊢
    simp only [] at h ⊢
    split at h
    · simp at h
    · next tok htok =>
      obtain ⟨tok₂, htok₂, hrel⟩ := rel.ch.getElem? _ htok
      rw [htok₂]; simp only [hrel.asMarker]
      have hcl : y.closer = x.closer := by obtain ⟨cr, cs, rfl, _, _, _⟩ := rel.out; rfl
      rw [hcl]
      split at h
      · exact ih _ _ _ rel h
      · next opener hop =>
        split at h
        · simp at h
        · next opener' ms' hgo =>
          have crel0 : CRel K s (minIdx + k) opener.remaining x.children y.children :=
            ⟨fun _ => decomp_of_LRel rel.ch htok hop, fun _ => rel.ch⟩
          have hgo2 : Sim s (fun r r' => r'.1 = r.1 ∧ MSRelC K s r.2 r'.2 ∧
                CRel K s (minIdx + k) r.1.remaining r.2.children r'.2.children) (opener', ms')
              (if (opener.open_ && opener.marker == x.closer.marker && !isOddMatch opener x.closer) = true then
                matchInner fns mk room (minIdx + k) x.closer.remaining opener y
              else .ok (opener, y)) := by
            split at hgo
            · next hif => rw [if_pos hif]; exact matchInner_sim fns mk _ _ _ _ _ _ _ rel.core crel0 hgo
            · next hif =>
              rw [if_neg hif]
              simp only [Except.ok.injEq, Prod.mk.injEq] at hgo
              obtain ⟨rfl, rfl⟩ := hgo; exact ⟨rfl, rel.core, crel0⟩
          rcases hgo2.cases with ⟨⟨op₂, ms₂⟩, e2, hop2, hms, hcr⟩ | ⟨hs, e, e2⟩
          · rw [e2]; simp only [] at hop2 hms hcr ⊢
            subst hop2
            split at h
            · next hrem =>
              rw [if_pos hrem]
              split at h
              · simp at h
              · next cs' hrep =>
                rcases (replaceAt_sim (hcr.1 hrem) hrep).cases with ⟨cs₂, e3, hcs⟩ | ⟨hs, e, e3⟩
                · rw [e3]; simp only []
                  refine ih _ _ _ ?_ h
                  obtain ⟨cr, cs, rfl, hr', hcl'⟩ := hms.out
                  exact MSRel.mk' (x := { ms' with children := cs' }) hr' hcl' hcs
                · rw [e3]; exact hs
            · next hrem =>
              rw [if_neg hrem]
              exact ih _ _ _ ⟨hms, hcr.2 (by omega)⟩ h
          · rw [e2]; exact hs

theorem scanAndMatch_sim {s : Bool} (fns : Nat → Option Wrap) (mk : Char) {room : Nat}
    {c₁ c₂ : List Node}
    (bt : List (Char × List Nat)) {r : List Node × List (Char × List Nat)} (hc : LRel K s c₁ c₂)
    (h : scanAndMatch fns mk room c₁ bt = .ok r) :
    Sim s (fun r r' => LRel K s r.1 r'.1 ∧ r'.2 = r.2) r (scanAndMatch fns mk room c₂ bt) := by
  unfold scanAndMatch at h ⊢
  rw [← hc.length]
  split at h
  · next hl => simp only [Except.ok.injEq] at h; subst h; rw [if_pos hl]; exact ⟨hc, rfl⟩
  · next hl =>
    rw [if_neg hl]
    split at h
    · simp at h
    · next init ctok hp =>
      obtain ⟨i₂, x₂, hp2, hi, hx⟩ := hc.popLast_some hp
      rw [hp2]; simp only [hx.asMarker, ← hi.length]
      split at h
      · simp at h
      · next closer hcl =>
        generalize ((if closer.open_ = true then 1 else 0) * 3 + closer.length % 3) = param at h ⊢
        simp only [] at h
        cases hmin : (bottomsGet bt mk)[param]? with
        | none => rw [hmin] at h; simp at h
        | some minIdx =>
          rw [hmin] at h
          simp only [] at h ⊢
          split at h
          · simp at h
          · next hil =>
            rw [if_neg hil]
            split at h
            · simp at h
            · next ms hmo =>
              have hxe : s = true → TokInv K closer.remaining ctok.range x₂.range := by
                have := hx.extra
                rw [asMarker_val hcl] at this
                exact xrel_toVal.mp this
              have rel0 : MSRel K s
                  { closer := closer, closerRange := ctok.range, children := init, newMin := init.length - 1 }
                  { closer := closer, closerRange := x₂.range, children := i₂, newMin := init.length - 1 } :=
                MSRel.mk' (x := { closer := closer, closerRange := ctok.range, children := init,
                                  newMin := init.length - 1 }) hx.range hxe hi
              rcases (matchOuter_sim fns mk _ _ _ _ _ _ rel0 hmo).cases with ⟨ms₂, e2, hms⟩ | ⟨hs, e, e2⟩
              · rw [e2]; simp only []
                obtain ⟨cr, cs, rfl, hr', hcl', hc'⟩ := hms.out
                simp only [] at h ⊢
                split at h
                · next hrem =>
                  rw [if_pos hrem]
                  simp only [Except.ok.injEq] at h; subst h
                  exact ⟨hc'.snoc (NRel.mk' hr' (xrel_toVal.mpr hcl') hx.children), rfl⟩
                · next hrem =>
                  rw [if_neg hrem]
                  simp only [Except.ok.injEq] at h; subst h
                  exact ⟨hc', rfl⟩
              · rw [e2]; exact hs

/-! ## END SECTION EMPH-MATCH -/

/-! ## the emphasis rule (uses `scanAndMatch_sim` as a black box); the marker is one byte, not LF -/

theorem ruleEmph_sim {s : Bool} {cfg : Cfg} {mk : Char} {csw : Bool} (hsz : mk.utf8Size = 1)
    (hne : mk ≠ '\n') (hsp : mk ≠ ' ') {a b : IState} {silent : Bool}
    {r : Option Nat × IState} (rel : IRel K s a b) (h : ruleEmph cfg mk csw a silent = .ok r) :
    Sim s (ORel K s) r (ruleEmph cfg mk csw b silent) := by
  obtain ⟨m, cs, rfl, hm, hc⟩ := rel.out
  have htk : ∀ {c : Char} {w : List Char} {d : DelimRun} {r₁ r₂ : Nat × Nat},
      a.window = .ok (c :: w) → ¬ c ≠ mk → scanDelims cfg a.src a.posMax a.pos csw = .ok d →
      GM a.srcmap m a.pos (a.pos + d.length) r₁ r₂ → TokInv K d.length (some r₁) (some r₂) := by
    intro c w d r₁ r₂ hw hcm hsd hg
    obtain ⟨⟨k, hv1⟩, hv2, hv3⟩ := emph_run hsz hne hsp hw (by simpa using hcm) hsd
    obtain ⟨k1, k2, k3, _⟩ := rel.ks
    simp only [] at k3
    rw [k1] at hv1 hv2 hv3
    rw [k2, k3] at hg
    exact tokInv_of_GM hv1 hne hsp hv2 hv3 hg
  unfold ruleEmph IState.push at h ⊢
  have hw2 : IState.window { a with srcmap := m, children := cs } = a.window := rfl
  rw [hw2]
  simp only [] at h ⊢
  repeat' split at h
  all_goals try (simp at h; done)
  all_goals (simp only [Except.ok.injEq] at h; subst h)
  all_goals try simp only [*, ↓reduceIte, Bool.false_eq_true, ne_eq, not_false_eq_true, not_true_eq_false]
  all_goals first
    | exact ⟨rfl, rel⟩
    | skip
  · rename_i hw hcm _ _ hsd _ _ hg hcc _ _ _ hsm
    rw [hcc] at hsm
    rcases (getMapSt_sim (cs := cs) hm hg).cases with ⟨r₂, e2, hr⟩ | ⟨hs, e, e2⟩
    · simp only [e2]
      rcases (scanAndMatch_sim (cfg.fns mk) mk a.bottoms
          (hc.snoc (leaf_rel (Val.emphMarker mk _ _ _ _) hr.1 (fun _ => htk hw hcm hsd hr.2))) hsm).cases with
        ⟨⟨cs₂, b₂⟩, e3, hcs, hb⟩ | ⟨hs, e, e3⟩
      · simp only [e3]
        simp only [] at hb hcs
        subst hb
        exact ⟨rfl, IRel.mk' (a := { a with children := _, bottoms := _ }) hm hcs rel.ks⟩
      · simp only [e3]; exact hs
    · simp only [e2]; exact hs
  · rename_i hw hcm _ _ hsd _ _ hg _
    rcases (getMapSt_sim (cs := cs) hm hg).cases with ⟨r₂, e2, hr⟩ | ⟨hs, e, e2⟩
    · simp only [e2]
      exact ⟨rfl, IRel.mk' (a := { a with children := _ }) hm
        (hc.snoc (leaf_rel (Val.emphMarker mk _ _ _ _) hr.1 (fun _ => htk hw hcm hsd hr.2))) rel.ks⟩
    · simp only [e2]; exact hs

end MdIt.Inline.XT
