/-
  Helper development for `Props/Inline.lean`: the recursive part — `parse_link_label`,
  `parse_link`, the link rule, one step of each tokenizer loop — specified against ARBITRARY
  `skip` / `tok` functions that meet their contracts (`SkipHyp`, `TokHyp`).
-/
import MdIt.Lemmas.InlineRules2

namespace MdIt.Inline
open MdIt.InlineOps (Srcmap getSourcePosFor getMap byteLen slice)
open MdIt.C05 (WFMap byteLen_append slice_ok_iff)

/-! ## contracts -/

/-- what `skip_token` guarantees on a state `st` with `pos < posMax` -/
structure SkipSpec (st : IState) (r : Except Panic IState) : Prop where
  noFuel : r ≠ .error .fuel
  ok : ∀ st', r = .ok st' → Frame st st' ∧ Quiet st st' ∧ MemoInv st' ∧ st.pos < st'.pos

/-- what `tokenize` guarantees -/
structure TokSpec (st : IState) (r : Except Panic IState) : Prop where
  noFuel : r ≠ .error .fuel
  ok : ∀ st', r = .ok st' → Frame st st' ∧ MemoInv st'

/-- what a rule guarantees -/
structure RuleSpec (st : IState) (silent : Bool) (r : RuleRes) : Prop where
  noFuel : r ≠ .error .fuel
  ok : ∀ o st', r = .ok (o, st') →
    Frame st st' ∧ MemoInv st' ∧ (silent = true → Quiet st st' ∧ st'.pos = st.pos) ∧
    (o = none → st'.pos = st.pos) ∧
    (∀ len, o = some len → st.pos < st'.pos + len)

/-- `skip` meets its contract on every state at level `lvl` with the given `posMax` whose window
    has at most `L` bytes -/
def SkipHyp (skip : IState → Except Panic IState) (lvl pm L : Nat) : Prop :=
  ∀ s, MemoInv s → s.level = lvl → s.posMax = pm → s.pos < pm → pm - s.pos ≤ L → SkipSpec s (skip s)

/-- `tok` meets its contract on every state at level `lvl` whose window has at most `L` bytes -/
def TokHyp (tok : IState → Except Panic IState) (lvl L : Nat) : Prop :=
  ∀ s, MemoInv s → s.level = lvl → s.posMax - s.pos ≤ L → TokSpec s (tok s)

theorem SkipHyp.mono {skip : IState → Except Panic IState} {lvl pm L L' : Nat}
    (h : SkipHyp skip lvl pm L) (hl : L' ≤ L) : SkipHyp skip lvl pm L' :=
  fun s h1 h2 h3 h4 h5 => h s h1 h2 h3 h4 (by omega)

theorem TokHyp.mono {tok : IState → Except Panic IState} {lvl L L' : Nat}
    (h : TokHyp tok lvl L) (hl : L' ≤ L) : TokHyp tok lvl L' :=
  fun s h1 h2 h3 => h s h1 h2 (by omega)

/-! ## small facts -/

theorem lookup_mem {l : List (Nat × Nat)} {k v : Nat} (h : l.lookup k = some v) : (k, v) ∈ l := by
  induction l with
  | nil => simp at h
  | cons e r ih =>
    obtain ⟨a, b⟩ := e
    simp only [List.lookup] at h
    split at h
    · next heq =>
      simp only [Option.some.injEq] at h
      have : k = a := by simpa using heq
      subst this; subst h; simp
    · exact List.mem_cons_of_mem _ (ih h)

theorem window_nonempty_lt {st : IState} {c : Char} {r : List Char} (h : st.window = .ok (c :: r)) :
    st.pos < st.posMax := by
  have := (slice_boundaries (window_eq h)).2.2
  have hc := Char.utf8Size_pos c
  simp only [byteLen] at this; omega

theorem liftR_window_ok {st : IState} {w : List Char} (h : liftR st.window = .ok w) :
    st.window = .ok w := liftR_ok.mp h

theorem MemoInv.insert {st : IState} (h : MemoInv st) {k v : Nat} (hkv : k < v) :
    ∀ a b, (a, b) ∈ cacheInsert st.cache k v → a < b := by
  intro a b hab
  unfold cacheInsert at hab
  simp only [List.mem_cons, Prod.mk.injEq] at hab
  rcases hab with ⟨rfl, rfl⟩ | hab
  · exact hkv
  · exact h a b hab

/-! ## the inline form: `Link.parseInlineTail` ends behind where it started -/

theorem skipWs_ge (cs : List Char) (p : Nat) : p ≤ Link.skipWs cs p := by
  obtain ⟨pre, suf, _, hp⟩ := Link.skipWs_spec cs p
  omega

theorem titlePart_ge {dec : List Char → List Char} {src : List Char} {max q q' : Nat}
    {href h : Option (List Nat)} {t : Option (List Char)}
    (hr : Link.inlineTitlePart dec src max href q = .ok (h, t, q')) : q ≤ q' := by
  unfold Link.inlineTitlePart at hr
  split at hr
  · simp at hr
  · next chars hc =>
    simp only at hr
    split at hr
    · simp at hr
    · simp only [Except.ok.injEq, Prod.mk.injEq] at hr
      have := skipWs_ge chars q; omega
    · next tf htf =>
      split at hr
      · simp at hr
      · next chars' hc' =>
        simp only [Except.ok.injEq, Prod.mk.injEq] at hr
        obtain ⟨o, m, suf, _, _, hpos, _⟩ := Link.title_delims _ _ _ _ htf
        have h1 := skipWs_ge chars q
        have h2 := skipWs_ge chars' tf.pos
        omega

theorem tail_end_gt {dec : List Char → List Char} {src : List Char} {p max : Nat}
    {il : Link.InlineLink} (h : Link.parseInlineTail dec src p max = .ok (some il)) :
    p + 1 < il.endPos := by
  unfold Link.parseInlineTail at h
  split at h
  · simp at h
  · next chars hc =>
    split at h
    · next rest =>
      simp only at h
      split at h
      · simp at h
      · next dest hd =>
        have h1 := skipWs_ge rest (p + 1)
        split at h
        · simp at h
        · next href title pos hstage =>
          have hpos : Link.skipWs rest (p + 1) ≤ pos := by
            split at hstage
            · simp only [Except.ok.injEq, Prod.mk.injEq] at hstage; omega
            · next res =>
              have hb := (Link.dest_pos_bounds _ _ _ _ hd).1
              unfold Link.inlineAfterDest at hstage
              split at hstage
              · have := titlePart_ge hstage; omega
              · have := titlePart_ge hstage; omega
          split at h
          · simp at h
          · simp only [Except.ok.injEq, Option.some.injEq] at h; subst h; simp only; omega
          · simp at h
    · simp at h

/-! ## `parse_link_label` -/

/-- the label loop: budget `n > posMax - pos` suffices; positions only move forward -/
theorem labelLoop_spec {skip : IState → Except Panic IState} {lvl pm L : Nat}
    (hskip : SkipHyp skip lvl pm L) (en : Bool) :
    ∀ (n : Nat) (level : Int) (st : IState), MemoInv st → st.level = lvl → st.posMax = pm →
      pm - st.pos + 1 ≤ n → pm - st.pos ≤ L →
      labelLoop skip en n level st ≠ .error .fuel ∧
      ∀ res st', labelLoop skip en n level st = .ok (res, st') →
        Frame st st' ∧ Quiet st st' ∧ MemoInv st' ∧ st.pos ≤ st'.pos ∧
        (res = some true → st'.pos < pm) := by
  intro n
  induction n with
  | zero => intro level st _ _ _ hn; omega
  | succ n ih =>
    intro level st hm hl hp hn hL
    unfold labelLoop
    split
    · next e he =>
      refine ⟨?_, by intro res st' h; simp at h⟩
      intro h
      simp only [Except.error.injEq] at h; subst h
      exact liftR_ne_fuel _ he
    · exact ⟨by simp, by
        intro res st' h
        simp only [Except.ok.injEq, Prod.mk.injEq] at h; obtain ⟨rfl, rfl⟩ := h
        exact ⟨Frame.refl _, Quiet.refl _, hm, Nat.le_refl _, by simp⟩⟩
    · next ch rest hw =>
      have hlt : st.pos < pm := by rw [← hp]; exact window_nonempty_lt (liftR_window_ok hw)
      split
      · exact ⟨by simp, by
          intro res st' h
          simp only [Except.ok.injEq, Prod.mk.injEq] at h; obtain ⟨rfl, rfl⟩ := h
          exact ⟨Frame.refl _, Quiet.refl _, hm, Nat.le_refl _, fun _ => hlt⟩⟩
      · have hs := hskip st hm hl hp hlt hL
        simp only
        split
        · next e he =>
          refine ⟨?_, by intro res st' h; simp at h⟩
          intro h
          simp only [Except.error.injEq] at h; subst h
          exact hs.noFuel he
        · next st1 hst1 =>
          obtain ⟨hf, hq, hm1, hpos⟩ := hs.ok st1 hst1
          have hl1 : st1.level = lvl := by rw [hf.level, hl]
          have hp1 : st1.posMax = pm := by rw [hf.posMax, hp]
          -- the recursive calls
          have hrec : ∀ level', labelLoop skip en n level' st1 ≠ .error .fuel ∧
              ∀ res st', labelLoop skip en n level' st1 = .ok (res, st') →
                Frame st st' ∧ Quiet st st' ∧ MemoInv st' ∧ st.pos ≤ st'.pos ∧
                (res = some true → st'.pos < pm) := by
            intro level'
            obtain ⟨h1, h2⟩ := ih level' st1 hm1 hl1 hp1 (by omega) (by omega)
            refine ⟨h1, ?_⟩
            intro res st' h
            obtain ⟨a, b, c, d, e⟩ := h2 res st' h
            exact ⟨hf.trans a, hq.trans b, c, by omega, e⟩
          split
          · split
            · exact ⟨by simp, by intro res st' h; simp at h⟩
            · split
              · exact hrec _
              · split
                · exact ⟨by simp, by
                    intro res st' h
                    simp only [Except.ok.injEq, Prod.mk.injEq] at h; obtain ⟨rfl, rfl⟩ := h
                    exact ⟨hf, hq, hm1, by omega, by simp⟩⟩
                · exact hrec _
          · exact hrec _

/-- `parse_link_label`: position restored, label end inside the window -/
theorem parseLinkLabel_spec {skip : IState → Except Panic IState} {lvl pm L : Nat}
    (hskip : SkipHyp skip lvl pm L) (en : Bool) (fuel : Nat) (st : IState) (start : Nat)
    (hm : MemoInv st) (hl : st.level = lvl) (hp : st.posMax = pm)
    (hn : pm - (start + 1) + 1 ≤ fuel) (hL : pm - (start + 1) ≤ L) :
    parseLinkLabel skip fuel st start en ≠ .error .fuel ∧
    ∀ o st', parseLinkLabel skip fuel st start en = .ok (o, st') →
      Frame st st' ∧ Quiet st st' ∧ MemoInv st' ∧ st'.pos = st.pos ∧
      (∀ e, o = some e → start + 1 ≤ e ∧ e < pm) := by
  have hspec := labelLoop_spec hskip en fuel 1 { st with pos := start + 1 } hm hl hp hn hL
  unfold parseLinkLabel
  simp only
  split
  · next e he =>
    refine ⟨?_, by intro o st' h; simp at h⟩
    intro h; simp only [Except.error.injEq] at h; subst h; exact hspec.1 he
  · next st1 he =>
    refine ⟨by simp, ?_⟩
    intro o st' h
    simp only [Except.ok.injEq, Prod.mk.injEq] at h; obtain ⟨rfl, rfl⟩ := h
    obtain ⟨a, b, c, d, e⟩ := hspec.2 _ _ he
    exact ⟨⟨a.src, a.srcmap, a.posMax, a.level, a.linkLevel⟩, ⟨b.children, b.bottoms⟩, c, rfl,
      by intro e h; simp at h⟩
  · next found st1 he =>
    refine ⟨by simp, ?_⟩
    intro o st' h
    simp only [Except.ok.injEq, Prod.mk.injEq] at h; obtain ⟨rfl, rfl⟩ := h
    obtain ⟨a, b, c, d, e⟩ := hspec.2 _ _ he
    refine ⟨⟨a.src, a.srcmap, a.posMax, a.level, a.linkLevel⟩, ⟨b.children, b.bottoms⟩, c, rfl, ?_⟩
    intro e' h
    split at h
    · next hf =>
      simp only [Option.some.injEq] at h; subst h
      simp only at d
      exact ⟨d, e (by rw [hf])⟩
    · simp at h

/-! ## `parse_link` -/

/-- what a successful `parse_link` found -/
structure LinkResOK (pm pos : Nat) (res : LinkRes) : Prop where
  labelStart : res.labelStart = pos + 1
  labelLe : res.labelStart ≤ res.labelEnd
  labelLt : res.labelEnd < pm
  endGt : res.labelEnd < res.endPos

theorem parseLinkRef_spec {cfg : Cfg} {skip : IState → Except Panic IState} {lvl pm L : Nat}
    (hskip : SkipHyp skip lvl pm L) (fuel : Nat) (st : IState) (labelStart labelEnd : Nat)
    (hm : MemoInv st) (hl : st.level = lvl) (hp : st.posMax = pm)
    (hn : pm - labelEnd + 1 ≤ fuel) (hL : pm - labelEnd ≤ L + 2) :
    parseLinkRef cfg skip fuel st labelStart labelEnd ≠ .error .fuel ∧
    ∀ o st', parseLinkRef cfg skip fuel st labelStart labelEnd = .ok (o, st') →
      Frame st st' ∧ Quiet st st' ∧ MemoInv st' ∧ st'.pos = st.pos ∧
      (∀ res, o = some res → res.labelStart = labelStart ∧ res.labelEnd = labelEnd ∧
        labelEnd < res.endPos) := by
  unfold parseLinkRef
  split
  · next e he =>
    refine ⟨?_, by intro o st' h; simp at h⟩
    intro h; simp only [Except.error.injEq] at h; subst h; exact liftR_ne_fuel _ he
  · next w hw =>
    clear hw
    -- the optional second label
    have hsecond : ∀ (second : Except Panic (Option (List Char) × Nat × IState)),
        second = (match w with
          | '[' :: _ =>
            match parseLinkLabel skip fuel st (labelEnd + 1) false with
            | .error e => .error e
            | .ok (some x, st') =>
              match liftR (liftOps (slice st.src (labelEnd + 1 + 1) x)) with
              | .error e => .error e
              | .ok l => .ok (some l, x + 1, st')
            | .ok (none, st') => .ok (none, labelEnd + 1, st')
          | _ => .ok (none, labelEnd + 1, st)) →
        second ≠ .error .fuel ∧ ∀ ml pos st', second = .ok (ml, pos, st') →
          Frame st st' ∧ Quiet st st' ∧ MemoInv st' ∧ st'.pos = st.pos ∧ labelEnd < pos := by
      intro second hsec
      subst hsec
      split
      · have hlab := parseLinkLabel_spec hskip false fuel st (labelEnd + 1) hm hl hp (by omega) (by omega)
        split
        · next e he =>
          refine ⟨?_, by intro ml pos st' h; simp at h⟩
          intro h; simp only [Except.error.injEq] at h; subst h; exact hlab.1 he
        · next x st1 he =>
          obtain ⟨a, b, c, d, e⟩ := hlab.2 _ _ he
          have := (e x rfl).1
          split
          · next e2 he2 =>
            refine ⟨?_, by intro ml pos st' h; simp at h⟩
            intro h; simp only [Except.error.injEq] at h; subst h; exact liftR_ne_fuel _ he2
          · refine ⟨by simp, ?_⟩
            intro ml pos st' h
            simp only [Except.ok.injEq, Prod.mk.injEq] at h
            obtain ⟨_, rfl, rfl⟩ := h
            exact ⟨a, b, c, d, by omega⟩
        · next st1 he =>
          obtain ⟨a, b, c, d, e⟩ := hlab.2 _ _ he
          refine ⟨by simp, ?_⟩
          intro ml pos st' h
          simp only [Except.ok.injEq, Prod.mk.injEq] at h
          obtain ⟨_, rfl, rfl⟩ := h
          exact ⟨a, b, c, d, by omega⟩
      · refine ⟨by simp, ?_⟩
        intro ml pos st' h
        simp only [Except.ok.injEq, Prod.mk.injEq] at h
        obtain ⟨_, rfl, rfl⟩ := h
        exact ⟨Frame.refl _, Quiet.refl _, hm, rfl, by omega⟩
    simp only
    have hsec := hsecond _ rfl
    split
    · next e he =>
      refine ⟨?_, by intro o st' h; simp at h⟩
      intro h; simp only [Except.error.injEq] at h; subst h; exact hsec.1 he
    · next ml pos st1 he =>
      obtain ⟨a, b, c, d, e⟩ := hsec.2 _ _ _ he
      split
      · refine ⟨by simp, ?_⟩
        intro o st' h
        simp only [Except.ok.injEq, Prod.mk.injEq] at h; obtain ⟨rfl, rfl⟩ := h
        exact ⟨a, b, c, d, by intro res h; simp at h⟩
      · split
        · next e2 he2 =>
          refine ⟨?_, by intro o st' h; simp at h⟩
          intro h; simp only [Except.error.injEq] at h; subst h
          revert he2
          split <;> intro he2
          · exact liftR_ne_fuel _ he2
          · exact liftR_ne_fuel _ he2
          · simp at he2
        · split
          · refine ⟨by simp, ?_⟩
            intro o st' h
            simp only [Except.ok.injEq, Prod.mk.injEq] at h; obtain ⟨rfl, rfl⟩ := h
            exact ⟨a, b, c, d, by intro res h; simp at h⟩
          · refine ⟨by simp, ?_⟩
            intro o st' h
            simp only [Except.ok.injEq, Prod.mk.injEq] at h; obtain ⟨rfl, rfl⟩ := h
            refine ⟨a, b, c, d, ?_⟩
            intro res h
            simp only [Option.some.injEq] at h; subst h
            exact ⟨rfl, rfl, e⟩

theorem parseLink_spec {cfg : Cfg} {skip : IState → Except Panic IState} {lvl pm L : Nat}
    (hskip : SkipHyp skip lvl pm L) (fuel : Nat) (st : IState) (pos : Nat) (en : Bool)
    (hm : MemoInv st) (hl : st.level = lvl) (hp : st.posMax = pm)
    (hn : pm - pos + 1 ≤ fuel) (hL : pm - (pos + 1) ≤ L) :
    parseLink cfg skip fuel st pos en ≠ .error .fuel ∧
    ∀ o st', parseLink cfg skip fuel st pos en = .ok (o, st') →
      Frame st st' ∧ Quiet st st' ∧ MemoInv st' ∧ st'.pos = st.pos ∧
      (∀ res, o = some res → LinkResOK pm pos res) := by
  have hlab := parseLinkLabel_spec hskip en fuel st pos hm hl hp (by omega) hL
  unfold parseLink
  split
  · next e he =>
    refine ⟨?_, by intro o st' h; simp at h⟩
    intro h; simp only [Except.error.injEq] at h; subst h; exact hlab.1 he
  · next st1 he =>
    obtain ⟨a, b, c, d, _⟩ := hlab.2 _ _ he
    refine ⟨by simp, ?_⟩
    intro o st' h
    simp only [Except.ok.injEq, Prod.mk.injEq] at h; obtain ⟨rfl, rfl⟩ := h
    exact ⟨a, b, c, d, by intro res h; simp at h⟩
  · next labelEnd st1 he =>
    obtain ⟨a, b, c, d, e⟩ := hlab.2 _ _ he
    obtain ⟨e1, e2⟩ := e labelEnd rfl
    simp only
    split
    · exact ⟨by simp, by intro o st' h; simp at h⟩
    · next il hil =>
      refine ⟨by simp, ?_⟩
      intro o st' h
      simp only [Except.ok.injEq, Prod.mk.injEq] at h; obtain ⟨rfl, rfl⟩ := h
      refine ⟨a, b, c, d, ?_⟩
      intro res h
      simp only [Option.some.injEq] at h; subst h
      have := tail_end_gt hil
      exact ⟨rfl, e1, e2, by simp only; omega⟩
    · have hl1 : st1.level = lvl := by rw [a.level, hl]
      have hp1 : st1.posMax = pm := by rw [a.posMax, hp]
      have href := parseLinkRef_spec (cfg := cfg) hskip fuel st1 (pos + 1) labelEnd c hl1 hp1
        (by omega) (by omega)
      refine ⟨href.1, ?_⟩
      intro o st' h
      obtain ⟨a', b', c', d', e'⟩ := href.2 _ _ h
      refine ⟨a.trans a', b.trans b', c', by rw [d', d], ?_⟩
      intro res hres
      obtain ⟨r1, r2, r3⟩ := e' res hres
      exact ⟨r1, by rw [r1, r2]; exact e1, by rw [r2]; exact e2, by rw [r2]; exact r3⟩

/-! ## the link rule -/

theorem linkRule_spec {cfg : Cfg} {skip tok : IState → Except Panic IState} {lvl pm L : Nat}
    (hskip : SkipHyp skip lvl pm L) (fuel : Nat) (mk : List Nat → Option (List Char) → Val)
    (en : Bool) (offset : Nat) (st : IState) (silent : Bool)
    (htok : silent = false → TokHyp tok (lvl + 1) L)
    (hm : MemoInv st) (hl : st.level = lvl) (hp : st.posMax = pm)
    (hn : pm - st.pos + 1 ≤ fuel) (hL : pm - st.pos ≤ L + 1) :
    RuleSpec st silent (linkRule cfg skip tok fuel mk en offset st silent) := by
  have hpl := parseLink_spec (cfg := cfg) hskip fuel st (st.pos + offset) en hm hl hp (by omega) (by omega)
  unfold linkRule
  simp only
  split
  · next e he =>
    refine ⟨?_, by intro o st' h; simp at h⟩
    intro h; simp only [Except.error.injEq] at h; subst h; exact hpl.1 he
  · next st1 he =>
    obtain ⟨a, b, c, d, _⟩ := hpl.2 _ _ he
    refine ⟨by simp, ?_⟩
    intro o st' h
    simp only [Except.ok.injEq, Prod.mk.injEq] at h; obtain ⟨rfl, rfl⟩ := h
    exact ⟨a, c, fun _ => ⟨b, d⟩, fun _ => d, by intro len h; simp at h⟩
  · next res st1 he =>
    obtain ⟨a, b, c, d, e⟩ := hpl.2 _ _ he
    have hres := e res rfl
    split
    · -- look-ahead
      split
      · exact ⟨by simp, by intro o st' h; simp at h⟩
      · refine ⟨by simp, ?_⟩
        intro o st' h
        simp only [Except.ok.injEq, Prod.mk.injEq] at h; obtain ⟨rfl, rfl⟩ := h
        refine ⟨a, c, fun _ => ⟨b, d⟩, by intro h; simp at h, ?_⟩
        intro len h
        simp only [Option.some.injEq] at h; subst h
        have h1 := hres.labelStart; have h2 := hres.labelLe; have h3 := hres.endGt
        omega
    · next hs =>
      -- real mode: the nested tokenizer run over the label
      have hsf : silent = false := by simpa using hs
      have hth := htok hsf
      have hspec := hth (IState.mk st1.src st1.srcmap res.labelStart res.labelEnd (st1.level + 1)
          (st1.linkLevel + 1) st1.cache st1.backticks [] []) c
        (by simp only; rw [a.level, hl])
        (by
          simp only
          have h1 := hres.labelStart; have h3 := hres.labelLt
          omega)
      split
      · next e2 he2 =>
        refine ⟨?_, by intro o st' h; simp at h⟩
        intro h; simp only [Except.error.injEq] at h; subst h; exact hspec.noFuel he2
      · next st3 he3 =>
        obtain ⟨f3, m3⟩ := hspec.ok st3 he3
        split
        · exact ⟨by simp, by intro o st' h; simp at h⟩
        · split
          · next e4 he4 =>
            refine ⟨?_, by intro o st' h; simp at h⟩
            intro h; simp only [Except.error.injEq] at h; subst h; exact liftR_ne_fuel _ he4
          · split
            · exact ⟨by simp, by intro o st' h; simp at h⟩
            · next hnu =>
              refine ⟨by simp, ?_⟩
              intro o st' h
              simp only [Except.ok.injEq, Prod.mk.injEq] at h; obtain ⟨rfl, rfl⟩ := h
              have hlev : st3.level = st1.level + 1 := f3.level
              have hll : st3.linkLevel = st1.linkLevel + 1 := f3.linkLevel
              refine ⟨⟨?_, ?_, ?_, ?_, ?_⟩, m3, by intro h; exact absurd h hs, by intro h; simp at h, ?_⟩
              · simp only; rw [f3.src]; exact a.src
              · simp only; rw [f3.srcmap]; exact a.srcmap
              · simp only; exact a.posMax
              · simp only; rw [hlev]; simp only [Nat.add_sub_cancel]; exact a.level
              · simp only; rw [hll]
                have := a.linkLevel
                omega
              · intro len h
                simp only [Option.some.injEq] at h; subst h
                simp only at hnu ⊢
                have h1 := hres.labelStart; have h2 := hres.labelLe; have h3 := hres.endGt
                omega

theorem ruleLink_spec {cfg : Cfg} {skip tok : IState → Except Panic IState} {lvl pm L : Nat}
    (hskip : SkipHyp skip lvl pm L) (fuel : Nat) (st : IState) (silent : Bool)
    (htok : silent = false → TokHyp tok (lvl + 1) L)
    (hm : MemoInv st) (hl : st.level = lvl) (hp : st.posMax = pm)
    (hn : pm - st.pos + 1 ≤ fuel) (hL : pm - st.pos ≤ L + 1) :
    RuleSpec st silent (ruleLink cfg skip tok fuel st silent) := by
  unfold ruleLink
  split
  · next e he =>
    refine ⟨?_, by intro o st' h; simp at h⟩
    intro h; simp only [Except.error.injEq] at h; subst h; exact liftR_ne_fuel _ he
  · exact ⟨by simp, by intro o st' h; simp at h⟩
  · split
    · refine ⟨by simp, ?_⟩
      intro o st' h
      simp only [Except.ok.injEq, Prod.mk.injEq] at h; obtain ⟨rfl, rfl⟩ := h
      exact ⟨Frame.refl _, hm, fun _ => ⟨Quiet.refl _, rfl⟩, fun _ => rfl, by intro len h; simp at h⟩
    · exact linkRule_spec hskip fuel _ _ _ st silent htok hm hl hp hn hL

theorem ruleImage_spec {cfg : Cfg} {skip tok : IState → Except Panic IState} {lvl pm L : Nat}
    (hskip : SkipHyp skip lvl pm L) (fuel : Nat) (st : IState) (silent : Bool)
    (htok : silent = false → TokHyp tok (lvl + 1) L)
    (hm : MemoInv st) (hl : st.level = lvl) (hp : st.posMax = pm)
    (hn : pm - st.pos + 1 ≤ fuel) (hL : pm - st.pos ≤ L + 1) :
    RuleSpec st silent (ruleImage cfg skip tok fuel st silent) := by
  unfold ruleImage
  split
  · next e he =>
    refine ⟨?_, by intro o st' h; simp at h⟩
    intro h; simp only [Except.error.injEq] at h; subst h; exact liftR_ne_fuel _ he
  · exact linkRule_spec hskip fuel _ _ _ st silent htok hm hl hp hn hL
  · refine ⟨by simp, ?_⟩
    intro o st' h
    simp only [Except.ok.injEq, Prod.mk.injEq] at h; obtain ⟨rfl, rfl⟩ := h
    exact ⟨Frame.refl _, hm, fun _ => ⟨Quiet.refl _, rfl⟩, fun _ => rfl, by intro len h; simp at h⟩

/-! ## the chain -/

theorem RuleSpec.ofSimple {st : IState} {silent : Bool} {r : SRes} (hm : MemoInv st)
    (h : ∀ o st', r = .ok (o, st') → Simple st silent o st') : RuleSpec st silent (liftR r) := by
  refine ⟨liftR_ne_fuel _, ?_⟩
  intro o st' hr
  have hs := h o st' (liftR_ok.mp hr)
  refine ⟨hs.frame, ?_, fun h => ⟨hs.quiet h, hs.pos⟩, fun _ => hs.pos, ?_⟩
  · intro k v hkv; rw [hs.cache] at hkv; exact hm k v hkv
  · intro len hl; have := hs.prog len hl; rw [hs.pos]; omega

theorem runRule_spec {cfg : Cfg} {skip tok : IState → Except Panic IState} {lvl pm L : Nat}
    (hskip : SkipHyp skip lvl pm L) (fuel : Nat) (id : RuleId) (st : IState) (silent : Bool)
    (htok : silent = false → TokHyp tok (lvl + 1) L)
    (hm : MemoInv st) (hl : st.level = lvl) (hp : st.posMax = pm)
    (hn : pm - st.pos + 1 ≤ fuel) (hL : pm - st.pos ≤ L + 1) :
    RuleSpec st silent (runRule cfg skip tok fuel id st silent) := by
  unfold runRule
  cases id with
  | text => exact RuleSpec.ofSimple hm (fun _ _ h => ruleText_simple h)
  | newline => exact RuleSpec.ofSimple hm (fun _ _ h => ruleNewline_simple h)
  | escape => exact RuleSpec.ofSimple hm (fun _ _ h => ruleEscape_simple h)
  | backticks => exact RuleSpec.ofSimple hm (fun _ _ h => ruleBackticks_simple h)
  | emph mk csw => exact RuleSpec.ofSimple hm (fun _ _ h => ruleEmph_simple h)
  | link => exact ruleLink_spec hskip fuel st silent htok hm hl hp hn hL
  | image => exact ruleImage_spec hskip fuel st silent htok hm hl hp hn hL
  | linkEnd =>
    refine ⟨by simp, ?_⟩
    intro o st' h
    simp only [Except.ok.injEq, Prod.mk.injEq] at h; obtain ⟨rfl, rfl⟩ := h
    exact ⟨Frame.refl _, hm, fun _ => ⟨Quiet.refl _, rfl⟩, fun _ => rfl, by intro len h; simp at h⟩
  | autolink => exact RuleSpec.ofSimple hm (fun _ _ h => ruleAutolink_simple h)
  | entity => exact RuleSpec.ofSimple hm (fun _ _ h => ruleEntity_simple h)

/-- the chain loop: rules that answer `None` leave `pos` (and the frame) alone, so every rule is
    called under the same hypotheses -/
theorem firstRule_spec {run : RuleId → IState → RuleRes} {silent : Bool} {lvl pm : Nat} {p0 : Nat}
    (hrun : ∀ id s, MemoInv s → s.level = lvl → s.posMax = pm → s.pos = p0 →
      RuleSpec s silent (run id s)) :
    ∀ (rules : List RuleId) (st : IState), MemoInv st → st.level = lvl → st.posMax = pm →
      st.pos = p0 → RuleSpec st silent (firstRule run rules st) := by
  intro rules
  induction rules with
  | nil =>
    intro st hm _ _ _
    refine ⟨by simp [firstRule], ?_⟩
    intro o st' h
    simp only [firstRule, Except.ok.injEq, Prod.mk.injEq] at h; obtain ⟨rfl, rfl⟩ := h
    exact ⟨Frame.refl _, hm, fun _ => ⟨Quiet.refl _, rfl⟩, fun _ => rfl, by intro len h; simp at h⟩
  | cons r rs ih =>
    intro st hm hl hp hpos
    have h1 := hrun r st hm hl hp hpos
    unfold firstRule
    split
    · next e he =>
      refine ⟨?_, by intro o st' h; simp at h⟩
      intro h; simp only [Except.error.injEq] at h; subst h; exact h1.noFuel he
    · next n st1 he =>
      refine ⟨by simp, ?_⟩
      intro o st' h
      simp only [Except.ok.injEq, Prod.mk.injEq] at h; obtain ⟨rfl, rfl⟩ := h
      exact h1.ok _ _ he
    · next st1 he =>
      obtain ⟨a, b, c, d, _⟩ := h1.ok _ _ he
      have h2 := ih st1 b (by rw [a.level, hl]) (by rw [a.posMax, hp]) (by rw [d rfl, hpos])
      refine ⟨h2.noFuel, ?_⟩
      intro o st' h
      obtain ⟨a', b', c', d', e'⟩ := h2.ok _ _ h
      refine ⟨a.trans a', b', fun hs => ⟨(c hs).1.trans (c' hs).1, by rw [(c' hs).2, (c hs).2]⟩, ?_, ?_⟩
      · intro ho; rw [d' ho, d rfl]
      · intro len hl'; have := e' len hl'; rw [d rfl] at this; exact this

theorem silentBumped_spec {run : IState → Bool → RuleRes} {st : IState}
    (h : RuleSpec { st with level := st.level + 1 } true (run { st with level := st.level + 1 } true)) :
    RuleSpec st true (silentBumped run st) := by
  unfold silentBumped
  split
  · next e he =>
    refine ⟨?_, by intro o st' h; simp at h⟩
    intro hh; simp only [Except.error.injEq] at hh; subst hh; exact h.noFuel he
  · next r st1 he =>
    obtain ⟨a, b, c, d, e⟩ := h.ok _ _ he
    have hlev : st1.level = st.level + 1 := a.level
    split
    · next h0 => omega
    · refine ⟨by simp, ?_⟩
      intro o st' hh
      simp only [Except.ok.injEq, Prod.mk.injEq] at hh; obtain ⟨rfl, rfl⟩ := hh
      refine ⟨⟨a.src, a.srcmap, a.posMax, ?_, a.linkLevel⟩, b, ?_, d, e⟩
      · simp only; rw [hlev]; simp
      · intro _; have := c rfl; exact ⟨⟨this.1.children, this.1.bottoms⟩, this.2⟩

/-! ## one step of each loop -/

/-- **tokenize_progress** (contract form): one iteration of the tokenizer loop either fails with
    a Rust panic or strictly increases `pos`, never running out of fuel -/
theorem tokStep_spec {cfg : Cfg} {skip tok : IState → Except Panic IState} {L : Nat}
    (fuel : Nat) (st : IState)
    (hskip : st.level < cfg.maxNesting → SkipHyp skip st.level st.posMax L)
    (htok : st.level < cfg.maxNesting → TokHyp tok (st.level + 1) L)
    (hm : MemoInv st) (hn : st.posMax - st.pos + 1 ≤ fuel) (hL : st.posMax - st.pos ≤ L + 1) :
    tokStep cfg skip tok fuel st ≠ .error .fuel ∧
    ∀ st', tokStep cfg skip tok fuel st = .ok st' → Frame st st' ∧ MemoInv st' ∧ st.pos < st'.pos := by
  have hok : RuleSpec st false
      (if st.level < cfg.maxNesting then
        firstRule (fun id s => runRule cfg skip tok fuel id s false) cfg.chain st
       else .ok (none, st)) := by
    split
    · next hlt =>
      apply firstRule_spec (lvl := st.level) (pm := st.posMax) (p0 := st.pos) _ cfg.chain st hm rfl rfl rfl
      intro id s hms hls hps hpos
      exact runRule_spec (hskip hlt) fuel id s false (fun _ => htok hlt) hms hls hps
        (by rw [hpos]; exact hn) (by rw [hpos]; exact hL)
    · refine ⟨by simp, ?_⟩
      intro o st' h
      simp only [Except.ok.injEq, Prod.mk.injEq] at h; obtain ⟨rfl, rfl⟩ := h
      exact ⟨Frame.refl _, hm, by intro h; simp at h, fun _ => rfl, by intro len h; simp at h⟩
  unfold tokStep
  simp only
  split
  · next e he =>
    refine ⟨?_, by intro st' h; simp at h⟩
    intro h; simp only [Except.error.injEq] at h; subst h; exact hok.noFuel he
  · next len st1 he =>
    obtain ⟨a, b, _, _, e⟩ := hok.ok _ _ he
    refine ⟨by simp, ?_⟩
    intro st' h
    simp only [Except.ok.injEq] at h; subst h
    exact ⟨⟨a.src, a.srcmap, a.posMax, a.level, a.linkLevel⟩, b, e len rfl⟩
  · next st1 he =>
    obtain ⟨a, b, _, d, _⟩ := hok.ok _ _ he
    unfold firstChar
    split
    · next e2 he2 =>
      refine ⟨?_, by intro st' h; simp at h⟩
      intro h; simp only [Except.error.injEq] at h; subst h
      revert he2
      split <;> intro he2
      · next he3 => simp only [Except.error.injEq] at he2; subst he2; exact liftR_ne_fuel _ he3
      · simp at he2
      · simp at he2
    · next ch hch =>
      split
      · next e3 he3 =>
        refine ⟨?_, by intro st' h; simp at h⟩
        intro h; simp only [Except.error.injEq] at h; subst h; exact liftR_ne_fuel _ he3
      · next st2 he2 =>
        refine ⟨by simp, ?_⟩
        intro st' h
        simp only [Except.ok.injEq] at h; subst h
        obtain ⟨cs, _, rfl⟩ := pushText_eq (liftR_ok.mp he2)
        have hc := Char.utf8Size_pos ch
        refine ⟨⟨a.src, a.srcmap, a.posMax, a.level, a.linkLevel⟩, b, ?_⟩
        simp only; rw [d rfl]; omega

/-- one run of the chain in look-ahead mode inside `skip_token` -/
theorem skipStep_spec {cfg : Cfg} {skip tok : IState → Except Panic IState} {L : Nat}
    (fuel : Nat) (st : IState)
    (hskip : SkipHyp skip (st.level + 1) st.posMax L)
    (hm : MemoInv st) (hn : st.posMax - st.pos + 1 ≤ fuel) (hL : st.posMax - st.pos ≤ L + 1) :
    SkipSpec st (skipStep cfg skip tok fuel st) := by
  have hok : RuleSpec st true
      (firstRule (fun id s => silentBumped (runRule cfg skip tok fuel id) s) cfg.chain st) := by
    apply firstRule_spec (lvl := st.level) (pm := st.posMax) (p0 := st.pos) _ cfg.chain st hm rfl rfl rfl
    intro id s hms hls hps hpos
    apply silentBumped_spec
    exact runRule_spec (lvl := st.level + 1) (pm := st.posMax) hskip fuel id _ true (by intro h; simp at h)
      hms (by simp only; rw [hls]) hps (by simp only; rw [hpos]; exact hn)
      (by simp only; rw [hpos]; exact hL)
  unfold skipStep
  simp only
  split
  · next e he =>
    refine ⟨?_, by intro st' h; simp at h⟩
    intro h; simp only [Except.error.injEq] at h; subst h; exact hok.noFuel he
  · next len st1 he =>
    obtain ⟨a, b, c, _, e⟩ := hok.ok _ _ he
    refine ⟨by simp, ?_⟩
    intro st' h
    simp only [Except.ok.injEq] at h; subst h
    have hlt := e len rfl
    have hq := (c rfl).1
    exact ⟨⟨a.src, a.srcmap, a.posMax, a.level, a.linkLevel⟩, ⟨hq.children, hq.bottoms⟩,
      MemoInv.insert b hlt, hlt⟩
  · next st1 he =>
    obtain ⟨a, b, c, d, _⟩ := hok.ok _ _ he
    have hq := (c rfl).1
    unfold firstChar
    split
    · next e2 he2 =>
      refine ⟨?_, by intro st' h; simp at h⟩
      intro h; simp only [Except.error.injEq] at h; subst h
      revert he2
      split <;> intro he2
      · next he3 => simp only [Except.error.injEq] at he2; subst he2; exact liftR_ne_fuel _ he3
      · simp at he2
      · simp at he2
    · next ch hch =>
      refine ⟨by simp, ?_⟩
      intro st' h
      simp only [Except.ok.injEq] at h; subst h
      have hc := Char.utf8Size_pos ch
      have hlt : st.pos < st1.pos + ch.utf8Size := by rw [d rfl]; omega
      exact ⟨⟨a.src, a.srcmap, a.posMax, a.level, a.linkLevel⟩, ⟨hq.children, hq.bottoms⟩,
        MemoInv.insert b hlt, hlt⟩

end MdIt.Inline
