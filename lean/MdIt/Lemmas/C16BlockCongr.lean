/-
  C16 on the block side, part 1: WHAT THE RULES READ IN LOOK-AHEAD MODE.

  * `upd s c b m` = `s` with other `children` and another `tight` flag.  `silent_congr_*`: a rule of the ten
    in look-ahead mode gives the same verdict on `upd s c b m` as on `s` (and hands back the state it was
    given): in look-ahead mode no shipped rule reads the tree under construction or the `tight` flag.
    What it does read: `src`, the line table `offs`, `blkIndent`, `line`, `listIndent` (list rule,
    "special case"), `nodeKind` (list rule: a list does not interrupt a paragraph inside a list).
  * `runRuleH_silent_indep`: in look-ahead mode a rule does not use the two call-backs nor the budget —
    the sweep `test_rules_at_line` at budget `f` and the look-ahead run of the rules the tokenizer at
    budget `f + 1` uses are the same function.
  * `real_implies_silent_*`: for hr / heading / fence / blockquote the converse of `silent_implies_real`:
    they accept in real mode ONLY where they say yes in look-ahead mode.  (False for code — never says yes
    —, list — the paragraph-interruption restrictions —, html — start condition 7 —, and for
    reference / lheading / paragraph, which never say yes.)
-/
import MdIt.Props.BlockH

namespace MdIt.BlockH.C16
open MdIt.Block
open MdIt.Lines (LineOffset)

/-- `s` with another tree under construction, another `tight` flag and another reference map -/
def upd (s : BState) (c : List BNode) (b : Bool) (m : Refs.RefMap) : BState :=
  { s with children := c, tight := b, refs := m }

@[simp] theorem upd_lineIndent (s c b m n) : (upd s c b m).lineIndent n = s.lineIndent n := rfl
@[simp] theorem upd_getLine (s c b m n) : (upd s c b m).getLine n = s.getLine n := rfl
@[simp] theorem upd_line (s c b m) : (upd s c b m).line = s.line := rfl
@[simp] theorem upd_off (s c b m n) : (upd s c b m).off n = s.off n := rfl
@[simp] theorem upd_listIndent (s c b m) : (upd s c b m).listIndent = s.listIndent := rfl
@[simp] theorem upd_blkIndent (s c b m) : (upd s c b m).blkIndent = s.blkIndent := rfl
@[simp] theorem upd_nodeKind (s c b m) : (upd s c b m).nodeKind = s.nodeKind := rfl
@[simp] theorem upd_listSpecial (s c b m) : listSpecial (upd s c b m) = listSpecial s := rfl
theorem upd_self (s : BState) : upd s s.children s.tight s.refs = s := by cases s; rfl
theorem upd_upd (s c b m c' b' m') : upd (upd s c b m) c' b' m' = upd s c' b' m' := rfl
theorem upd_setLine (s : BState) (c b m) (l : Nat) : upd { s with line := l } c b m = { upd s c b m with line := l } := rfl

/-- the result of a look-ahead call, transported to the updated state -/
abbrev mp (c : List BNode) (b : Bool) (m : Refs.RefMap) : Bool × BState → Bool × BState := fun r => (r.1, upd r.2 c b m)

syntax "congr_tac" : tactic
macro_rules
| `(tactic| congr_tac) => `(tactic|
  (simp only [upd_lineIndent, upd_getLine, upd_line, upd_off, upd_listIndent, upd_blkIndent, upd_nodeKind,
     upd_listSpecial,
     bind, Except.bind, Except.map, pure, Except.pure, if_true, Bool.true_eq_false, if_false, true_and]
   repeat' (first | rfl | split)))

theorem silent_congr_hr (s c b m) : hrRule (upd s c b m) true = Except.map (mp c b m) (hrRule s true) := by
  unfold hrRule; congr_tac
theorem silent_congr_heading (s c b m) : headingRule (upd s c b m) true = Except.map (mp c b m) (headingRule s true) := by
  unfold headingRule; congr_tac
theorem silent_congr_fence (s c b m) : fenceRule (upd s c b m) true = Except.map (mp c b m) (fenceRule s true) := by
  unfold fenceRule; congr_tac
theorem silent_congr_blockquote (tok test fuel s c b m) :
    blockquoteRule tok test fuel (upd s c b m) true = Except.map (mp c b m) (blockquoteRule tok test fuel s true) := by
  unfold blockquoteRule; congr_tac
theorem silent_congr_list (tok test fuel s c b m) :
    listRule tok test fuel (upd s c b m) true = Except.map (mp c b m) (listRule tok test fuel s true) := by
  unfold listRule; congr_tac
theorem silent_congr_htmlBlock (s c b m) : Html.htmlBlockRule (upd s c b m) true =
    Except.map (fun r => (r.1, upd r.2.1 c b m, r.2.2)) (Html.htmlBlockRule s true) := by
  unfold Html.htmlBlockRule; congr_tac
theorem silent_congr_html (s c b m) : htmlRule (upd s c b m) true = Except.map (mp c b m) (htmlRule s true) := by
  unfold htmlRule
  rw [silent_congr_htmlBlock]
  cases h : Html.htmlBlockRule s true with
  | error e => rfl
  | ok r =>
    obtain ⟨v, s', o⟩ := r
    obtain ⟨rfl, rfl⟩ := Html.html_block_silent_quiet h
    rfl

/-- **what look-ahead reads**: each of the ten rules, in look-ahead mode, answers on `upd s c b m` what it
    answers on `s` -/
theorem runRuleH_silent_congr (cfg : Cfg) (tok : Tok) (test : Test) (fuel : Nat) (r : RuleIdH) (s c b m) :
    runRuleH cfg tok test fuel r (upd s c b m) true = Except.map (mp c b m) (runRuleH cfg tok test fuel r s true) := by
  cases r with
  | html => exact silent_congr_html s c b m
  | base r =>
    cases r with
    | code => rfl
    | fence => exact silent_congr_fence s c b m
    | blockquote => exact silent_congr_blockquote tok test fuel s c b m
    | hr => exact silent_congr_hr s c b m
    | list => exact silent_congr_list tok test fuel s c b m
    | reference => rfl
    | heading => exact silent_congr_heading s c b m
    | lheading => rfl
    | paragraph => rfl

/-- **look-ahead does not use the call-backs nor the budget** -/
theorem runRuleH_silent_indep (cfg : Cfg) (tok tok' : Tok) (test test' : Test) (fuel fuel' : Nat) (r : RuleIdH)
    (s : BState) : runRuleH cfg tok test fuel r s true = runRuleH cfg tok' test' fuel' r s true := by
  cases r with
  | html => rfl
  | base r =>
    cases r with
    | code => rfl
    | fence => rfl
    | blockquote =>
      simp only [runRuleH, runRule, blockquoteRule, if_true]
    | hr => rfl
    | list =>
      simp only [runRuleH, runRule, listRule, if_true]
    | reference => rfl
    | heading => rfl
    | lheading => rfl
    | paragraph => rfl

/-! ## real ⇒ look-ahead for the four rules whose look-ahead is complete -/

theorem real_implies_silent_hr {s s' : BState} (h : hrRule s false = .ok (true, s')) :
    hrRule s true = .ok (true, s) := by
  unfold hrRule at h ⊢
  crack h
  simp only [*, ok_bind, if_false, if_true]
  all_goals first | rfl | (simp_all; done)

theorem real_implies_silent_heading {s s' : BState} (h : headingRule s false = .ok (true, s')) :
    headingRule s true = .ok (true, s) := by
  unfold headingRule at h ⊢
  crack h
  simp only [*, ok_bind, if_false, if_true]
  all_goals first | rfl | (simp_all; done)

theorem real_implies_silent_fence {s s' : BState} (h : fenceRule s false = .ok (true, s')) :
    fenceRule s true = .ok (true, s) := by
  unfold fenceRule at h ⊢
  crack h
  simp only [*, ok_bind, if_false, if_true]
  all_goals first | rfl | (simp_all; done)

theorem real_implies_silent_blockquote {tok : Tok} {test : Test} {fuel : Nat} {s s' : BState}
    (h : blockquoteRule tok test fuel s false = .ok (true, s')) :
    blockquoteRule tok test fuel s true = .ok (true, s) := by
  unfold blockquoteRule at h ⊢
  crack h
  simp only [*, ok_bind, if_false, if_true]
  all_goals first | rfl | (simp_all; done)

end MdIt.BlockH.C16
