/-
  Helper development for `Props/C02Doc.lean` (property C02 on the real parser models), block part:
  the DEPTH invariant of the block tokenizer `MdIt.Block.tokenize`.

  `bdepth cb I n` is the depth of a block tree in which every block node weighs `cb` and every
  `InlineRoot` placeholder weighs `I` (the depth of what the splice walk puts in its place).

  Invariant (`TokD`, by the induction scheme of `Props/Pipeline.tokenize_wf`): a tokenizer that is
  entered with `state.level = l`
    * pushes nothing with a positive depth when `l ≥ max_nesting` (the level guard), and
    * otherwise pushes only nodes of depth `≤ (max_nesting - l) + J`, for every `J ≥ max I 1`:
      a leaf block weighs 1, a paragraph / heading `1 + I`, a block quote 1 + what a tokenizer at
      level `l + 1` pushes, a list 2 + what a tokenizer at level `l + 2` pushes (the list rule
      raises the level once for the list and once more for each item body; an item whose body is
      refused by the guard is an EMPTY item — that is where the `1` in `max I 1` comes from).
-/
import MdIt.Props.Block

set_option linter.unusedVariables false

namespace MdIt.Block
open MdIt.Lines (LineOffset)

/-- is the value the `InlineRoot` placeholder -/
def Kind.isInl : Kind → Bool
  | .inlineRoot _ _ => true
  | _ => false

mutual
/-- depth of a block tree: a block node weighs `cb`, a placeholder weighs `I` (its own children
    are dropped by the splice walk) -/
def bdepth (cb I : Nat) : BNode → Nat
  | ⟨k, _, cs⟩ => if k.isInl then I else cb + bdepthList cb I cs
def bdepthList (cb I : Nat) : List BNode → Nat
  | [] => 0
  | c :: cs => max (bdepth cb I c) (bdepthList cb I cs)
end

theorem bdepth_eq (cb I : Nat) (n : BNode) :
    bdepth cb I n = if n.kind.isInl then I else cb + bdepthList cb I n.children := by
  cases n; simp [bdepth]

theorem bdepthList_le_iff (cb I B : Nat) (cs : List BNode) :
    bdepthList cb I cs ≤ B ↔ ∀ c ∈ cs, bdepth cb I c ≤ B := by
  induction cs with
  | nil => simp [bdepthList]
  | cons c cs ih => simp [bdepthList, Nat.max_le, ih]

theorem bdepth_le_of_mem {cb I : Nat} {c : BNode} {cs : List BNode} (h : c ∈ cs) :
    bdepth cb I c ≤ bdepthList cb I cs :=
  (bdepthList_le_iff cb I _ cs).mp (Nat.le_refl _) c h

/-- every node of the list has depth `≤ B` (block nodes weigh 1) -/
def AllLe (I B : Nat) (cs : List BNode) : Prop := ∀ c ∈ cs, bdepth 1 I c ≤ B

theorem AllLe.nil {I B : Nat} : AllLe I B [] := fun _ h => by simp at h

theorem AllLe.push {I B : Nat} {cs : List BNode} {n : BNode} (h : AllLe I B cs)
    (hn : bdepth 1 I n ≤ B) : AllLe I B (cs ++ [n]) := by
  intro c hc
  rcases List.mem_append.mp hc with h1 | h1
  · exact h c h1
  · simp at h1; subst h1; exact hn

theorem AllLe.mono {I B B' : Nat} {cs : List BNode} (h : AllLe I B cs) (hb : B ≤ B') : AllLe I B' cs :=
  fun c hc => Nat.le_trans (h c hc) hb

/-- a container node over children of depth `≤ B` -/
theorem bdepth_container {I B : Nat} {k : Kind} {r : Option (Nat × Nat)} {cs : List BNode}
    (hk : k.isInl = false) (h : AllLe I B cs) : bdepth 1 I ⟨k, r, cs⟩ ≤ 1 + B := by
  rw [bdepth_eq]
  simp only [hk, Bool.false_eq_true, ↓reduceIte]
  have := (bdepthList_le_iff 1 I B cs).mpr h
  omega

/-- what a rule that runs at `state.level < N` does to the children of the current node -/
def KeepsD (I J N : Nat) (s s' : BState) : Prop :=
  ∀ B, N - s.level + J ≤ B → AllLe I B s.children → AllLe I B s'.children

/-- the nested tokenizer: nothing of positive depth at or beyond the limit, depth
    `≤ (N - level) + J` below it -/
def TokD (I J N : Nat) (tok : Tok) : Prop :=
  ∀ s s', tok s = .ok s' → ∀ B, (s.level < N → N - s.level + J ≤ B) →
    AllLe I B s.children → AllLe I B s'.children

section rules
variable {I J N : Nat}

theorem leaf_depth (k : Kind) (r : Option (Nat × Nat)) (hk : k.isInl = false) :
    bdepth 1 I ⟨k, r, []⟩ = 1 := by
  rw [bdepth_eq]; simp [hk, bdepthList]

theorem text_depth (k : Kind) (r : Option (Nat × Nat)) (hk : k.isInl = false) (t : List Char)
    (m : List (Nat × Nat)) : bdepth 1 I ⟨k, r, [⟨.inlineRoot t m, none, []⟩]⟩ = 1 + I := by
  rw [bdepth_eq]
  simp only [hk, Bool.false_eq_true, ↓reduceIte, bdepthList]
  rw [bdepth_eq]; simp [Kind.isInl]

theorem hr_depth {s s' : BState} {b : Bool} (hl : s.level < N) (hJ : 1 ≤ J)
    (h : hrRule s false = .ok (b, s')) : KeepsD I J N s s' := by
  unfold hrRule at h
  crack h
  all_goals (try subst_vars)
  all_goals (intro B hB hg)
  all_goals (first | exact hg | exact hg.push (by rw [leaf_depth _ _ rfl]; omega))

theorem code_depth {s s' : BState} {b : Bool} (hl : s.level < N) (hJ : 1 ≤ J)
    (h : codeRule s false = .ok (b, s')) : KeepsD I J N s s' := by
  unfold codeRule at h
  crack h
  all_goals (try subst_vars)
  all_goals (intro B hB hg)
  all_goals (first | exact hg | exact hg.push (by rw [leaf_depth _ _ rfl]; omega))

theorem fence_depth {s s' : BState} {b : Bool} (hl : s.level < N) (hJ : 1 ≤ J)
    (h : fenceRule s false = .ok (b, s')) : KeepsD I J N s s' := by
  unfold fenceRule at h
  crack h
  all_goals (try subst_vars)
  all_goals (intro B hB hg)
  all_goals (first | exact hg | exact hg.push (by rw [leaf_depth _ _ rfl]; omega))

theorem heading_depth {s s' : BState} {b : Bool} (hl : s.level < N) (hIJ : I ≤ J)
    (h : headingRule s false = .ok (b, s')) : KeepsD I J N s s' := by
  unfold headingRule at h
  crack h
  all_goals (try subst_vars)
  all_goals (intro B hB hg)
  all_goals (first | exact hg | exact hg.push (by rw [text_depth _ _ rfl]; omega))

theorem paragraph_depth {test : Test} (ht : TestPure test) {fuel : Nat} {s s' : BState} {b : Bool}
    (hl : s.level < N) (hIJ : I ≤ J)
    (h : paragraphRule test fuel s false = .ok (b, s')) : KeepsD I J N s s' := by
  unfold paragraphRule at h
  crack h
  have h1 := (lazyScan_spec ht false _ _ _ _ ‹lazyScan _ _ _ _ _ = _›).1
  intro B hB hg
  simp only [BState.push, h1]
  exact hg.push (by rw [text_depth _ _ rfl]; omega)

theorem lheading_depth {test : Test} (ht : TestPure test) {fuel : Nat} {s s' : BState} {b : Bool}
    (hl : s.level < N) (hIJ : I ≤ J)
    (h : lheadingRule test fuel s false = .ok (b, s')) : KeepsD I J N s s' := by
  unfold lheadingRule at h
  crack h
  all_goals (try (have h1 := (lazyScan_spec ht true _ _ _ _ ‹lazyScan _ _ _ _ _ = _›).1))
  all_goals (try subst_vars)
  all_goals (intro B hB hg)
  all_goals (first | exact hg | skip)
  exact hg.push (by rw [text_depth _ _ rfl]; omega)

theorem reference_depth {cfg : Cfg} {test : Test} (ht : TestPure test) {fuel : Nat}
    {s s' : BState} {b : Bool} (h : referenceRule cfg test fuel s false = .ok (b, s')) :
    KeepsD I J N s s' := by
  unfold referenceRule at h
  crack h
  all_goals (try (have h1 := (lazyScan_spec ht false _ _ _ _ ‹lazyScan _ _ _ _ _ = _›).1))
  all_goals (try subst_vars)
  all_goals (intro B hB hg)
  all_goals (first | exact hg | (rw [h1]; exact hg) | (simp only [h1]; exact hg))

theorem blockquote_depth {tok : Tok} {test : Test} (hk : TokSpec tok) (hd : TokD I J N tok)
    (ht : TestPure test) {fuel : Nat} {s s' : BState} {b : Bool} (hl : s.level < N) (hJ : 1 ≤ J)
    (h : blockquoteRule tok test fuel s false = .ok (b, s')) : KeepsD I J N s s' := by
  unfold blockquoteRule at h
  crack h
  all_goals (try subst_vars)
  · exact fun _ _ hg => hg
  · exact fun _ _ hg => hg
  · have hscan := ‹bqScan _ _ _ _ _ _ = _›
    have htok := ‹tok _ = _›
    rename_i scan _ s2 _ _ _ _ _ _ _ _ _
    obtain ⟨n, old', S'⟩ := scan
    have hsb := (bqScan_spec ht _ _ _ _ _ _ _ _ hscan).1
    have hfr := hk.frame _ _ htok
    intro B hB hg
    have hg2 := hd _ _ htok (B - 1) (by
      intro hlt
      simp only at hlt ⊢
      rw [hsb.level] at hlt ⊢
      omega) AllLe.nil
    simp only at hfr hg2 ⊢
    rw [hsb.children]
    have hkind : s2.nodeKind = .blockquote := hfr.nodeKind
    refine hg.push ?_
    have := bdepth_container (I := I) (k := s2.nodeKind) (r := some ‹Nat × Nat›) (by rw [hkind]; rfl) hg2
    omega

/-- `mark_tight_paragraphs` does not deepen anything: a dissolved paragraph is replaced by its
    (shallower) children -/
theorem markTight_depth {B : Nat} : ∀ (cs : List BNode), AllLe I B cs → AllLe I B (markTight cs)
  | [], _ => AllLe.nil
  | n :: r, h => by
    have hr := markTight_depth r (fun c hc => h c (List.mem_cons_of_mem _ hc))
    have hn := h n (by simp)
    simp only [markTight]
    split
    · rename_i hp
      intro c hc
      rcases List.mem_append.mp hc with h1 | h1
      · rw [bdepth_eq, hp] at hn
        simp only [Kind.isInl, Bool.false_eq_true, ↓reduceIte] at hn
        have := bdepth_le_of_mem (cb := 1) (I := I) h1
        omega
      · exact hr c h1
    · intro c hc
      simp at hc
      rcases hc with rfl | h1
      · exact hn
      · exact hr c h1

/-- the children of a list under construction: items of depth `≤ B` -/
def AllItemsD (I B : Nat) (cs : List BNode) : Prop := ∀ c ∈ cs, c.kind = .listItem ∧ bdepth 1 I c ≤ B

theorem tightenItems_depth {B : Nat} : ∀ (cs cs' : List BNode), tightenItems cs = .ok cs' →
    AllItemsD I B cs → AllItemsD I B cs'
  | [], cs', h, _ => by simp [tightenItems] at h; subst h; exact fun _ hc => by simp at hc
  | c :: r, cs', h, hi => by
    simp only [tightenItems] at h
    split at h
    · cases h
    · split at h
      · cases h
      · rename_i hk r' hr
        cases h
        have ih := tightenItems_depth r r' hr (fun x hx => hi x (List.mem_cons_of_mem _ hx))
        obtain ⟨hck, hcd⟩ := hi c (by simp)
        intro x hx
        simp at hx
        rcases hx with rfl | hx
        · refine ⟨hck, ?_⟩
          rw [bdepth_eq] at hcd ⊢
          simp only [hck, Kind.isInl, Bool.false_eq_true, ↓reduceIte] at hcd ⊢
          have h1 : AllLe I (bdepthList 1 I c.children) c.children :=
            fun y hy => bdepth_le_of_mem hy
          have h2 := (bdepthList_le_iff 1 I _ _).mpr (markTight_depth _ h1)
          omega
        · exact ih x hx

theorem listItemBody_depth {tok : Tok} (hd : TokD I J N tok) {S2 S3 : BState} {m : Nat} {re : Bool}
    (h : listItemBody tok S2 m re = .ok S3) {B : Nat} (hB : S2.level + 1 < N → N - (S2.level + 1) + J ≤ B) :
    AllLe I B S2.children → AllLe I B S3.children := by
  unfold listItemBody at h
  crack h
  · exact fun hg => hg
  · have htok := ‹tok _ = _›
    subst_vars
    intro hg
    exact hd _ _ htok B hB hg

theorem listItem_depth {tok : Tok} (hk : TokSpec tok) (hd : TokD I J N tok) {S S' : BState}
    {m pos : Nat} {pee tight pee' tight' : Bool}
    (h : listItem tok S m pos pee tight = .ok (S', tight', pee'))
    (hline : S.line = m) (hlt : m < S.lineMax) {B : Nat}
    (hB : S.level + 1 < N → N - (S.level + 1) + J ≤ B) :
    AllItemsD I (1 + B) S.children → AllItemsD I (1 + B) S'.children := by
  unfold listItem at h
  crack h
  rename_i o ho rw hrw S2 hS2 S3 hbody _ li hli S5 hS5 e _ r _ hS' _ _
  subst hS'
  obtain ⟨hm, hS2eq⟩ := setOff_ok hS2
  obtain ⟨hm5, rfl⟩ := setOff_ok hS5
  have hg3 := listItemBody_depth hd hbody (B := B) (by rw [hS2eq]; exact hB)
    (by rw [hS2eq]; exact AllLe.nil)
  have hkind : S3.nodeKind = .listItem := by
    unfold listItemBody at hbody
    crack hbody
    · rw [hS2eq]
    · have := (hk.frame _ _ ‹tok _ = _›).nodeKind
      simp only at this ⊢
      rw [this, hS2eq]
  intro hi c hc
  simp only at hc
  rcases List.mem_append.mp hc with h1 | h1
  · exact hi c h1
  · simp at h1
    subst h1
    simp only
    rw [hkind]
    exact ⟨rfl, bdepth_container rfl hg3⟩

theorem listLoop_depth {tok : Tok} {test : Test} (hk : TokSpec tok) (hd : TokD I J N tok)
    (ht : TestPure test) {ordered : Bool} {mc : Char} {B L : Nat} (hB : L + 1 < N → N - (L + 1) + J ≤ B) :
    ∀ (fuel : Nat) (S : BState) (m pos : Nat) (pee tight : Bool) (n : Nat) (tight' : Bool) (S' : BState),
      listLoop tok test ordered mc fuel S m pos pee tight = .ok (n, tight', S') →
      S.line = m → m < S.lineMax → S.level = L →
      AllItemsD I (1 + B) S.children → AllItemsD I (1 + B) S'.children := by
  intro fuel
  induction fuel with
  | zero => intro S m pos pee tight n tight' S' h; simp [listLoop] at h
  | succ f ih =>
    intro S m pos pee tight n tight' S' h hline hlt hL hi
    simp only [listLoop] at h
    crack h
    all_goals (try subst_vars)
    · rename_i wi wc hc _ hnone _ hitem
      obtain ⟨S1, t1, p1⟩ := wi
      obtain ⟨c, S2⟩ := wc
      obtain ⟨rfl, _⟩ := listContinue_spec ht hc
      exact listItem_depth hk hd hitem rfl hlt hB hi
    · rename_i wi wc hc _ p hsome _ hitem
      obtain ⟨S1, t1, p1⟩ := wi
      obtain ⟨c, S2⟩ := wc
      obtain ⟨hfr, h1, h2⟩ := listItem_spec hk hitem rfl hlt
      obtain ⟨rfl, hc2⟩ := listContinue_spec ht hc
      simp only at hsome h hc2
      have hlt2 := hc2 (by rw [hsome]; simp)
      exact ih _ _ _ _ _ _ _ _ h rfl hlt2 hfr.level (listItem_depth hk hd hitem rfl hlt hB hi)

theorem list_rule_depth {tok : Tok} {test : Test} (hk : TokSpec tok) (hd : TokD I J N tok)
    (ht : TestPure test) {fuel : Nat} {s s' : BState} {b : Bool} (hlv : s.level < N) (hJ : 1 ≤ J)
    (h : listRule tok test fuel s false = .ok (b, s')) (hl : s.line < s.lineMax) :
    KeepsD I J N s s' := by
  unfold listRule at h
  crack h
  all_goals (try subst_vars)
  all_goals (try (exact fun _ _ hg => hg))
  all_goals (
    have hloop := ‹listLoop _ _ _ _ _ _ _ _ _ _ = _›
    have htight := ‹(if _ then tightenItems _ else _) = Except.ok _›
    rename_i wl _ cs _ _ _ _ _ _ _
    obtain ⟨n, t, S'⟩ := wl
    intro B hB hg
    have hitems := listLoop_depth (I := I) (B := B - 2) (L := s.level + 1) hk hd ht (by omega)
      _ _ _ _ _ _ _ _ _ hloop rfl hl rfl (fun _ hc => by simp at hc)
    obtain ⟨hfr, _⟩ := listLoop_spec hk ht _ _ _ _ _ _ _ _ _ hloop rfl hl
    have hcs : AllItemsD I (1 + (B - 2)) cs := by
      simp only at htight
      split at htight
      · exact tightenItems_depth _ _ htight hitems
      · simp [pure, Except.pure] at htight; subst htight; exact hitems
    simp only
    have hkind := hfr.nodeKind
    simp only at hkind
    refine hg.push ?_
    have := bdepth_container (I := I) (k := S'.nodeKind) (r := some ‹Nat × Nat›) (cs := cs)
      (by rw [hkind]; rfl) (fun c hc => (hcs c hc).2)
    omega)

theorem runRule_depth {cfg : Cfg} {tok : Tok} {test : Test} (hk : TokSpec tok)
    (hd : TokD I J N tok) (ht : TestPure test) (fuel : Nat) (r : RuleId) {s s' : BState} {b : Bool}
    (hlv : s.level < N) (hJ : 1 ≤ J) (hIJ : I ≤ J)
    (h : runRule cfg tok test fuel r s false = .ok (b, s')) (hl : s.line < s.lineMax) :
    KeepsD I J N s s' := by
  cases r <;> simp only [runRule] at h
  · exact code_depth hlv hJ h
  · exact fence_depth hlv hJ h
  · exact blockquote_depth hk hd ht hlv hJ h
  · exact hr_depth hlv hJ h
  · exact list_rule_depth hk hd ht hlv hJ h hl
  · exact reference_depth ht h
  · exact heading_depth hlv hIJ h
  · exact lheading_depth ht hlv hIJ h
  · exact paragraph_depth ht hlv hIJ h

theorem runChain_depth {run : RuleId → BState → Bool → Res} (hr : RunSpec run)
    (hsh : ∀ r s b s', run r s false = .ok (b, s') → s.line < s.lineMax → s.level < N → KeepsD I J N s s') :
    ∀ (chain : List RuleId) (s : BState) (b : Bool) (s' : BState),
      runChain run chain s false = .ok (b, s') → s.line < s.lineMax → s.level < N → KeepsD I J N s s' := by
  intro chain
  induction chain with
  | nil => intro s b s' h _ _; simp [runChain] at h; rw [← h.2]; exact fun _ _ hg => hg
  | cons r rs ih =>
    intro s b s' h hl hlv
    simp only [runChain] at h
    split at h
    · cases h
    · rename_i s1 h1
      cases h
      exact hsh _ _ _ _ h1 hl hlv
    · rename_i s1 h1
      have := hr.false_same _ _ _ h1
      subst this
      exact ih _ _ _ h hl hlv

theorem afterChain_depth {ok : Bool} {s s' : BState} {prev : Nat} (hIJ : I ≤ J)
    (h : afterChain ok s prev = .ok s') : KeepsD I J N s s' := by
  unfold afterChain at h
  crack h
  · exact fun _ _ hg => hg
  · intro B hB hg
    simp only [BState.push]
    refine hg.push ?_
    rw [bdepth_eq]
    simp only [Kind.isInl, ↓reduceIte]
    omega

/-- one iteration of the tokenizer loop in which the chain runs -/
theorem tok_iter_depth {run : RuleId → BState → Bool → Res} (hr : RunSpec run) (hIJ : I ≤ J)
    (hsh : ∀ r s b s', run r s false = .ok (b, s') → s.line < s.lineMax → s.level < N → KeepsD I J N s s')
    {chain : List RuleId} {s1 : BState} {w : Bool × BState} {s3 : BState} {prev : Nat}
    (hlt : s1.line < s1.lineMax) (hi : IndentOk s1) (hlv : s1.level < N)
    (hc : runChain run chain s1 false = .ok w) (ha : afterChain w.1 w.2 prev = .ok s3) :
    KeepsD I J N s1 s3 ∧ s3.level = s1.level := by
  obtain ⟨b, s2⟩ := w
  have h1 := runChain_depth (I := I) (J := J) hr hsh _ _ _ _ hc hlt hlv
  obtain ⟨hf1, hf2⟩ := runChain_real hr _ _ _ _ hc
  have hl2 : s2.level = s1.level := by
    cases b with
    | false => rw [hf1 rfl]
    | true => exact (hf2 rfl hlt hi).frame.level
  have h2 := afterChain_depth (I := I) (J := J) (N := N) hIJ ha
  have hl3 : s3.level = s2.level := (afterChain_spec ha).1.level
  refine ⟨fun B hB hg => h2 B (by simp only; rw [hl2]; exact hB) (h1 B hB hg), hl3.trans hl2⟩

theorem tokLoop_depth {cfg : Cfg} {run : RuleId → BState → Bool → Res}
    (hr : RunSpec run) (hIJ : I ≤ J)
    (hsh : ∀ r s b s', run r s false = .ok (b, s') → s.line < s.lineMax → s.level < cfg.maxNesting →
      KeepsD I J cfg.maxNesting s s') :
    ∀ (fuel : Nat) (he : Bool) (s s' : BState), tokLoop cfg run fuel he s = .ok s' →
      ∀ B, (s.level < cfg.maxNesting → cfg.maxNesting - s.level + J ≤ B) →
        AllLe I B s.children → AllLe I B s'.children := by
  intro fuel
  induction fuel with
  | zero => intro he s s' h; simp [tokLoop] at h
  | succ f ih =>
    intro he s s' h
    simp only [tokLoop] at h
    crack h
    all_goals (try subst_vars)
    all_goals (try (exact fun _ _ hg => hg))
    all_goals (
      have hchain := ‹runChain _ _ _ _ = _›
      have hafter := ‹afterChain _ _ _ = _›
      have hlev : ¬ _ ≥ cfg.maxNesting := ‹_›
      obtain ⟨h1, h2⟩ := tok_iter_depth (I := I) (J := J) (N := cfg.maxNesting) hr hIJ hsh
        (s1 := { s with line := Lines.skipEmptyLines s.offs s.lineMax s.line })
        (by simp; omega) ⟨_, ‹BState.lineIndent _ _ = _›, by omega⟩ (by simp; omega) hchain hafter
      intro B hB hg
      have hB' := hB (by omega)
      refine ih _ _ _ h B (fun _ => ?_) ?_
      · simp only at h2 ⊢
        rw [h2]; exact hB'
      · exact h1 B hB' hg)

/-- **the depth invariant of the block tokenizer, for every fuel** -/
theorem tokenize_depth (cfg : Cfg) (hJ : 1 ≤ J) (hIJ : I ≤ J) :
    ∀ fuel : Nat, TokD I J cfg.maxNesting (tokenize cfg fuel) := by
  intro fuel
  induction fuel with
  | zero => intro s s' h; simp [tokenize, engine] at h
  | succ f ih =>
    intro s s' h
    simp only [tokenize, engine] at h
    have hk := tokenize_tokSpec cfg f
    have ht := testRules_pure cfg f
    exact tokLoop_depth (runRule_spec hk ht _) hIJ
      (fun r s b s' h hl hlv => runRule_depth hk ih ht _ r hlv hJ hIJ h hl) _ _ _ _ h

/-- **`parseBlocks_depth`.**  The tree of the block pass has depth `≤ max_nesting + 1 + max I 1`
    when a block node weighs 1 and a placeholder `I` (for `max_nesting ≥ 1`; with `max_nesting = 0`
    the tokenizer refuses at once and the tree is the bare root). -/
theorem parseBlocks_depth {cfg : Cfg} {src : List Char} {root : BNode} {refs : Refs.RefMap}
    (hJ : 1 ≤ J) (hIJ : I ≤ J) (h : parseBlocks cfg src = .ok (root, refs)) :
    bdepth 1 I root ≤ (if cfg.maxNesting = 0 then 1 else cfg.maxNesting + 1 + J) := by
  unfold parseBlocks at h
  split at h
  · cases h
  · rename_i s hs
    simp only [Except.ok.injEq, Prod.mk.injEq] at h
    obtain ⟨rfl, _⟩ := h
    have hfr := (tokenize_spec cfg _ _ _ hs).frame
    have hk : s.nodeKind = .root := hfr.nodeKind
    have hg := tokenize_depth (I := I) (J := J) cfg hJ hIJ _ _ _ hs
      (if cfg.maxNesting = 0 then 0 else cfg.maxNesting + J) (by
        intro hl
        simp only [BState.fresh] at hl ⊢
        split <;> omega) AllLe.nil
    have := bdepth_container (I := I) (k := s.nodeKind) (r := some (0, Lines.byteLen src))
      (by rw [hk]; rfl) hg
    split at this <;> split <;> omega

end rules

end MdIt.Block
