/-
  Helper development for `Props/MemoSafe.lean`: (I3) at creation — the memo entry `skip_token` makes at
  a `[` is either the single character or comes with its RECORDED label walk.

  At a `[` only the link rule can answer in look-ahead mode (`firesAt_bracket` + `silent_declines`), and
  it answers through `parse_link`, whose label walk is recorded (`parseLink_records`).  So a completed
  `skipStep` at `pos` with `src[pos] = '['` either declined everywhere (entry `pos ↦ pos + 1`) or leaves
  a memo on which — and on every extension of which — the walk over the memo alone from `pos + 1` finds
  a `]` strictly inside the new entry (`skipStep_records_link`).  With `labelLoop_replay` /
  `pwalk_shrink_found` this is what lets the real link rule, later and under a smaller `pos_max`,
  re-run `parse_link_label` over hits only.
-/
import MdIt.Lemmas.MemoSafeLabel
import MdIt.Lemmas.MemoSafeFires
import MdIt.Lemmas.MemoSafeWindow2

namespace MdIt.Inline
open MdIt.InlineOps (Srcmap getSourcePosFor getMap byteLen slice)

/-- at a `[` only the link rule is listed -/
theorem firesAt_bracket (id : RuleId) (h : id ≠ .link) : id.firesAt '[' = false := by
  cases id with
  | link => exact absurd rfl h
  | text => decide
  | newline => decide
  | escape => decide
  | backticks => decide
  | emph m c => rfl
  | image => decide
  | linkEnd => rfl
  | autolink => decide
  | entity => decide

/-- what the chain in look-ahead mode leaves at a `[`: it declines, or the link rule answered and
    its label walk is recorded -/
def BracketPost (fuel : Nat) (st : IState) (o : Option Nat) (st' : IState) : Prop :=
  o = none ∨ ∃ len lq, o = some len ∧ st.pos + 1 ≤ lq ∧ lq < st.pos + len ∧
    ∀ c', LookupMono st'.cache c' →
      pwalk st.src st.posMax c' false fuel 1 (st.pos + 1) = .done (some true) lq

theorem lt_of_window_cons {st : IState} (hi : LInv st) {c : Char} {rest : List Char}
    (hw : st.window = .ok (c :: rest)) : st.pos < st.posMax := by
  obtain ⟨w, hw2, _, hlen⟩ := hi.window
  rw [hw] at hw2
  simp only [Except.ok.injEq] at hw2
  subst hw2
  have := Char.utf8Size_pos c
  simp only [byteLen] at hlen; omega

/-- one rule of the chain at a `[`, between `level += 1` / `level -= 1` -/
theorem bumped_at_bracket {cfg : Cfg} {skip tok : IState → Except Panic IState} (hq : CalmFn skip)
    (hs : SkipHypT skip) (hg : SkipGrowHyp skip) (fuel : Nat) (id : RuleId) (st : IState)
    (hi : LInv st) {rest : List Char} (hw : st.window = .ok ('[' :: rest)) :
    ∀ o st', silentBumped (runRule cfg skip tok fuel id) st = .ok (o, st') →
      LInv st' ∧ st'.window = .ok ('[' :: rest) ∧ st'.pos = st.pos ∧ st'.src = st.src ∧
      st'.posMax = st.posMax ∧ BracketPost fuel st o st' := by
  intro o st' hb
  have hlt := lt_of_window_cons hi hw
  have hiB : LInv { st with level := st.level + 1 } :=
    ⟨hi.le, hi.bpos, hi.bmax, hi.wf, hi.stop, hi.memo⟩
  have hwB : ({ st with level := st.level + 1 } : IState).window = .ok ('[' :: rest) := hw
  have hT := runRule_silent_T (cfg := cfg) (tok := tok) hq hs fuel id _ hiB hlt
  unfold silentBumped at hb
  split at hb
  · simp at hb
  · next r0 s0 he =>
    split at hb
    · simp at hb
    · simp only [Except.ok.injEq, Prod.mk.injEq] at hb
      obtain ⟨rfl, rfl⟩ := hb
      obtain ⟨a, b, c, _⟩ := hT.ok _ _ he
      refine ⟨⟨a.le, a.bpos, a.bmax, a.wf, a.stop, a.memo⟩, ?_, c, b.src, b.posMax, ?_⟩
      · rw [← hw]; exact window_congr b.src c b.posMax
      · by_cases hid : id = .link
        · -- the link rule: through `parse_link`
          subst hid
          unfold runRule at he
          simp only at he
          unfold ruleLink at he
          rw [hwB] at he
          simp only [liftR] at he
          rw [if_neg (by simp)] at he
          obtain ⟨hb1, hle1⟩ := after_first (st := { st with level := st.level + 1 }) (by decide)
            (window_eq hwB)
          unfold linkRule at he
          simp only at he
          split at he
          · simp at he
          · simp only [Except.ok.injEq, Prod.mk.injEq] at he
            exact .inl he.1.symm
          · next res s1 hpl =>
            simp only [if_true] at he
            split at he
            · simp at he
            · next hnu =>
              simp only [Except.ok.injEq, Prod.mk.injEq] at he
              obtain ⟨rfl, rfl⟩ := he
              have hrec := parseLink_records (cfg := cfg) hq hs hg fuel _ _ false hiB hb1 hle1 _ _ hpl
              have hres := ((parseLink_T (cfg := cfg) hq hs fuel _ _ false hiB hb1 hle1).2 _ _ hpl).2.2.2
                res rfl
              have h1 := hres.labelStart; have h2 := hres.labelLe; have h3 := hres.endGt
              simp only at h1 hrec
              refine .inr ⟨_, res.labelEnd, rfl, by omega, ?_, ?_⟩
              · simp only at c hnu ⊢; omega
              · intro c' hc'
                exact hrec.2 c' hc'
        · exact .inl (silent_declines hwB (firesAt_bracket id hid) _ _ he)

/-- the whole chain in look-ahead mode at a `[` -/
theorem chain_at_bracket {cfg : Cfg} {skip tok : IState → Except Panic IState} (hq : CalmFn skip)
    (hs : SkipHypT skip) (hg : SkipGrowHyp skip) (fuel : Nat) {rest : List Char} :
    ∀ (rules : List RuleId) (st : IState), LInv st → st.window = .ok ('[' :: rest) →
      ∀ o st', firstRule (fun id s => silentBumped (runRule cfg skip tok fuel id) s) rules st
          = .ok (o, st') →
        st'.window = .ok ('[' :: rest) ∧ st'.pos = st.pos ∧ BracketPost fuel st o st' := by
  intro rules
  induction rules with
  | nil =>
    intro st _ hw o st' h
    simp only [firstRule, Except.ok.injEq, Prod.mk.injEq] at h
    obtain ⟨rfl, rfl⟩ := h
    exact ⟨hw, rfl, .inl rfl⟩
  | cons r rs ih =>
    intro st hi hw o st' h
    unfold firstRule at h
    split at h
    · simp at h
    · next n st1 he =>
      simp only [Except.ok.injEq, Prod.mk.injEq] at h
      obtain ⟨rfl, rfl⟩ := h
      obtain ⟨_, a, b, _, _, c⟩ := bumped_at_bracket hq hs hg fuel r st hi hw _ _ he
      exact ⟨a, b, c⟩
    · next st1 he =>
      obtain ⟨hi1, hw1, hp1, hs1, hm1, _⟩ := bumped_at_bracket hq hs hg fuel r st hi hw _ _ he
      obtain ⟨a, b, c⟩ := ih st1 hi1 hw1 o st' h
      refine ⟨a, by rw [b, hp1], ?_⟩
      rcases c with c | ⟨len, lq, c1, c2, c3, c4⟩
      · exact .inl c
      · refine .inr ⟨len, lq, c1, by omega, by omega, ?_⟩
        intro c' hc'
        have := c4 c' hc'
        rw [hs1, hm1, hp1] at this
        exact this

/-- **(I3) at creation**: the entry a completed look-ahead step makes at a `[` (memo miss, below the
    nesting limit) is the single character, or the memo it returns — and every extension of it —
    records a label walk from `pos + 1` that finds a `]` strictly inside the entry. -/
theorem skipStep_records_link {cfg : Cfg} {skip tok : IState → Except Panic IState} (hq : CalmFn skip)
    (hs : SkipHypT skip) (hg : SkipGrowHyp skip) (fuel : Nat) (st : IState) (hi : LInv st)
    {rest : List Char} (hw : st.window = .ok ('[' :: rest)) (hmiss : st.cache.lookup st.pos = none) :
    ∀ st', skipStep cfg skip tok fuel st = .ok st' →
      st'.cache.lookup st.pos = some st'.pos ∧
      (st'.pos = st.pos + 1 ∨
       ∃ lq, st.pos + 1 ≤ lq ∧ lq < st'.pos ∧ ∀ c', LookupMono st'.cache c' →
         pwalk st.src st.posMax c' false fuel 1 (st.pos + 1) = .done (some true) lq) := by
  have hlt := lt_of_window_cons hi hw
  intro st' h
  refine ⟨(skipStep_grow (tok := tok) hq hs hg fuel st hi hlt hmiss st' h).2, ?_⟩
  -- the chain
  have hTrun : ∀ id s, LInv s → s.pos < s.posMax →
      SilT s (silentBumped (runRule cfg skip tok fuel id) s) := by
    intro id s his hls
    apply silentBumped_T
    exact runRule_silent_T hq hs fuel id _ ⟨his.le, his.bpos, his.bmax, his.wf, his.stop, his.memo⟩ hls
  have hGrun : ∀ id s, LInv s → s.pos < s.posMax → ∀ o s',
      silentBumped (runRule cfg skip tok fuel id) s = .ok (o, s') →
      Grow (s.pos + 1) s.posMax s.cache s'.cache := by
    intro id s his hls
    apply silentBumped_grow
    exact runRule_silent_grow hq hs hg fuel id _
      ⟨his.le, his.bpos, his.bmax, his.wf, his.stop, his.memo⟩ hls
  unfold skipStep at h
  simp only at h
  split at h
  · simp at h
  · next len st1 he =>
    simp only [Except.ok.injEq] at h
    subst h
    obtain ⟨_, hp1, hpost⟩ := chain_at_bracket hq hs hg fuel cfg.chain st hi hw _ _ he
    have hgrow := firstRule_silent_grow hTrun hGrun cfg.chain st hi hlt _ _ he
    rcases hpost with hn | ⟨len', lq, c1, c2, c3, c4⟩
    · simp at hn
    · simp only [Option.some.injEq] at c1
      subst c1
      right
      refine ⟨lq, c2, by simp only; omega, ?_⟩
      intro c' hc'
      apply c4 c'
      refine LookupMono.trans ?_ hc'
      -- the insertion at `pos` does not shadow anything: the key was missing and is untouched
      intro k v hk
      simp only
      rw [lookup_cacheInsert]
      by_cases hkp : k = st.pos
      · subst hkp
        rw [hgrow.low _ (by omega), hmiss] at hk
        cases hk
      · rw [if_neg hkp]; exact hk
  · next st1 he =>
    obtain ⟨hw1, hp1, _⟩ := chain_at_bracket hq hs hg fuel cfg.chain st hi hw _ _ he
    unfold firstChar at h
    rw [hw1] at h
    simp only [liftR, Except.ok.injEq] at h
    subst h
    left
    simp only
    rw [hp1]
    rfl

/-- **L2 for link entries, the label part**: where the memo records a label walk from `k + 1` that
    found `lq` (under the `pos_max = M` of the look-ahead that made it), `parse_link_label` of the real
    link rule at `k` — in a nested frame with a smaller `pos_max` that still contains `lq`, at any
    level, with less fuel, over the model's or the guarded `skip_token` — finds the same `lq`, by memo
    hits only: the state it returns is the state it was given. -/
theorem parseLinkLabel_replay {skip : IState → Except Panic IState} (hs : FollowsHits skip)
    (s : IState) (k : Nat) {M lq n : Nat}
    (hrec : pwalk s.src M s.cache false n 1 (k + 1) = .done (some true) lq)
    (hf : MemoInv s) (hb : Boundary s.src s.posMax) (hle : s.posMax ≤ M) (hlt : lq < s.posMax)
    (fuel : Nat) (hfuel : lq - (k + 1) + 1 ≤ fuel) :
    parseLinkLabel skip fuel s k false = .ok (some lq, s) := by
  have h1 := pwalk_shrink_found hf hb hle false _ _ _ _ hrec hlt
  have h2 := pwalk_fuel hf false _ _ _ _ _ h1 fuel hfuel
  have h3 := labelLoop_replay hs false fuel 1 { s with pos := k + 1 } (some true) lq h2
  unfold parseLinkLabel
  simp only
  rw [h3]
  cases s
  rfl

/-- **L2 for link entries, inline form**: a successful `parse_link` of the inline form
    `[label](dest "title")`, made by a look-ahead under `pos_max = M`, is REPLAYED IDENTICALLY by the
    link rule in every later state of a frame with a smaller `pos_max` that still contains the link
    (same text, memo an extension, `pos_max` on a boundary, enough fuel for the label): same label,
    same destination, same end — by memo hits only (L1) and window independence of the tail
    (`parseInlineTail_window`); the state is returned unchanged. -/
theorem parseLink_replay_inline {cfg : Cfg} {skip0 skip : IState → Except Panic IState}
    (hq : CalmFn skip0) (hs0 : SkipHypT skip0) (hg : SkipGrowHyp skip0) (fuel0 : Nat) (st0 : IState)
    (k : Nat) (hi : LInv st0) (hb0 : Boundary st0.src (k + 1)) (hle0 : k + 1 ≤ st0.posMax)
    {res : LinkRes} {st0' : IState}
    (h0 : parseLink cfg skip0 fuel0 st0 k false = .ok (some res, st0'))
    {il : Link.InlineLink}
    (htail : Link.parseInlineTail (Entity.unescapeAll cfg.entity) st0.src (res.labelEnd + 1) st0.posMax
      = .ok (some il))
    (hs : FollowsHits skip) (s : IState) (hsrc : s.src = st0.src) (hext : LookupMono st0'.cache s.cache)
    (hf : MemoInv s) (hb : Boundary s.src s.posMax) (hle : s.posMax ≤ st0.posMax)
    (hend : res.endPos ≤ s.posMax) (fuel : Nat) (hfuel : res.labelEnd - (k + 1) + 1 ≤ fuel) :
    parseLink cfg skip fuel s k false = .ok (some res, s) := by
  obtain ⟨_, hrec⟩ := parseLink_records (cfg := cfg) hq hs0 hg fuel0 st0 k false hi hb0 hle0 res st0' h0
  have hres := ((parseLink_T (cfg := cfg) hq hs0 fuel0 st0 k false hi hb0 hle0).2 _ _ h0).2.2.2 res rfl
  -- the shape of `res`
  have hshape : res = (⟨k + 1, res.labelEnd, il.href, il.title, il.endPos⟩ : LinkRes) := by
    have hc := (parseLink_T (cfg := cfg) hq hs0 fuel0 st0 k false hi hb0 hle0).2 _ _ h0
    unfold parseLink at h0
    split at h0
    · simp at h0
    · simp at h0
    · next labelEnd st1 hl =>
      have hc1 := parseLinkLabel_calm hq hl
      simp only at h0
      split at h0
      · simp at h0
      · next il' hil' =>
        simp only [Except.ok.injEq, Prod.mk.injEq, Option.some.injEq] at h0
        obtain ⟨h0r, _⟩ := h0
        have hle' : res.labelEnd = labelEnd := by rw [← h0r]
        rw [hc1.src, hc1.posMax, ← hle', htail] at hil'
        simp only [Except.ok.injEq, Option.some.injEq] at hil'
        subst hil'
        rw [← h0r]
      · next hnone =>
        exfalso
        have hc1' := parseLinkLabel_calm hq hl
        have href := (parseLinkRef_T (cfg := cfg) hq hs0 fuel0 st1 (k + 1) labelEnd
          ((parseLinkLabel_T hq hs0 false fuel0 st0 k hi hb0 hle0).2 _ _ hl).1
          (by rw [hc1'.src]; exact hb0)
          (((parseLinkLabel_T hq hs0 false fuel0 st0 k hi hb0 hle0).2 _ _ hl).2.2.2 labelEnd rfl).1
          (by
            rw [hc1'.src, hc1'.posMax]
            exact (((parseLinkLabel_T hq hs0 false fuel0 st0 k hi hb0 hle0).2 _ _ hl).2.2.2
              labelEnd rfl).2)).2 _ _ h0
        have hle' : res.labelEnd = labelEnd := (href.2 res rfl).2.1
        rw [hc1'.src, hc1'.posMax, ← hle', htail] at hnone
        simp at hnone
  have hend' : il.endPos ≤ s.posMax := by
    have : res.endPos = il.endPos := by rw [hshape]
    omega
  have hlq : res.labelEnd < s.posMax := by have := hres.endGt; omega
  -- the label: memo hits only
  have hlab := parseLinkLabel_replay hs s k
    (by rw [hsrc]; exact hrec s.cache hext) hf hb hle hlq fuel hfuel
  -- the tail: window independence
  have hbM : Boundary s.src st0.posMax := by rw [hsrc]; exact hi.bmax
  have htail' := (parseInlineTail_window (decOk_unescapeAll cfg.entity) hb hbM hle il).mp
    ⟨by rw [hsrc]; exact htail, hend'⟩
  unfold parseLink
  rw [hlab]
  simp only
  rw [htail']
  simp only
  rw [hshape]

end MdIt.Inline
