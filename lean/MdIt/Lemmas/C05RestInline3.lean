/-
  C05, the remaining clauses — the frame invariant `FI` through the inline tokenizer.
  Part 3: the link / image rule, one rule of the chain, the chain, one iteration of the loop, the
  induction on fuel, and `parseInline`: `parseInline_fth_chain` (the contract of the emphasis-marker
  rule is only asked for the markers of the chain), the deliverable `parseInline_fth`, and a worked
  instance.
-/
import MdIt.Lemmas.C05RestInline2

namespace MdIt.C05R
open MdIt.Inline
open MdIt.InlineOps (Srcmap getSourcePosFor getMap byteLen slice)

/-- `tok` keeps the invariant `FI` (of whatever frame it is called for); the analogue of
    `Inline.RangesFn` -/
def fi_FthFn (src0 : List Char) (tok : IState → Except Panic IState) : Prop :=
  ∀ lo s s', Ctx src0 s.src s.srcmap → RInv lo s → FInv src0 s → tok s = .ok s' → FInv src0 s'

/-- the contract of the emphasis-marker rule, for the markers of the chain only (what the induction
    uses; `EmphOK` + `AsciiMarkers` give it: `fi_emphIn_of`) -/
def fi_EmphIn (cfg : Cfg) (src0 : List Char) : Prop :=
  ∀ (mk : Char) (csw : Bool), RuleId.emph mk csw ∈ cfg.chain →
    ∀ (lo : Nat) (st st' : IState) (o : Option Nat), Ctx src0 st.src st.srcmap → RInv lo st →
      FInv src0 st → ruleEmph cfg mk csw st false = .ok (o, st') →
      FI src0 st.src st.srcmap (st'.pos + o.getD 0) st'.children

theorem fi_emphIn_of {cfg : Cfg} {src0 : List Char} (hmk : AsciiMarkers cfg.chain)
    (he : EmphOK cfg src0) : fi_EmphIn cfg src0 := by
  intro mk csw hid lo st st' o hctx hi hf h
  obtain ⟨h1, h2⟩ := hmk mk csw hid
  exact he mk csw lo st st' o h1 h2 hctx hi hf h

theorem fi_nil {src0 c : List Char} {m : Srcmap} {pos : Nat} (hb : Bdy c pos) : FI src0 c m pos [] :=
  ⟨hb, trivial, trivial, by intro n hn; simp at hn, by intro init last hcs; simp at hcs⟩

/-! ## links and images -/

theorem fi_linkRule {src0 : List Char} {cfg : Cfg} {skip tok : IState → Except Panic IState}
    (hq : CalmFn skip) (ht : RangesFn tok) (hft : fi_FthFn src0 tok) {fuel : Nat}
    {mk : List Nat → Option (List Char) → Val}
    (hmk1 : ∀ u t c, mk u t ≠ .text c) (hmk2 : ∀ u t x y z, mk u t ≠ .special x y z)
    (hmk3 : ∀ u t m l r o c, mk u t ≠ .emphMarker m l r o c)
    {en : Bool} {offset : Nat} {st : IState} {o : Option Nat} {st' : IState}
    (hctx : Ctx src0 st.src st.srcmap) (hf : FInv src0 st)
    (hls : Bdy st.src (st.pos + offset + 1))
    (h : linkRule cfg skip tok fuel mk en offset st false = .ok (o, st')) :
    FI src0 st.src st.srcmap (st'.pos + o.getD 0) st'.children := by
  unfold linkRule at h
  simp only at h
  split at h
  · simp at h
  · next st1 hpl =>
    simp only [Except.ok.injEq, Prod.mk.injEq] at h; obtain ⟨rfl, rfl⟩ := h
    have hc := parseLink_calm hq hpl
    have hp := parseLink_pos hpl
    simp only [Option.getD_none, Nat.add_zero]
    rw [hp, hc.children]; exact hf
  · next res st1 hpl =>
    have hc := parseLink_calm hq hpl
    have hp := parseLink_pos hpl
    have hend := (parseLink_end hq hpl).2
    have hls' := parseLink_labelStart hpl
    simp only [Bool.false_eq_true, if_false] at h
    split at h
    · simp at h
    · next st3 htok =>
      split at h
      · simp at h
      · split at h
        · simp at h
        · next r hr =>
          split at h
          · simp at h
          · next hnu =>
            simp only [Except.ok.injEq, Prod.mk.injEq] at h; obtain ⟨rfl, rfl⟩ := h
            -- the nested frame
            have hm : MapOK st.src st.srcmap := hctx.map
            have hm1 : MapOK st1.src st1.srcmap := by rw [hc.src, hc.srcmap]; exact hm
            have hctx1 : Ctx src0 st1.src st1.srcmap := by rw [hc.src, hc.srcmap]; exact hctx
            obtain ⟨lo', hlo'⟩ := C05.translate_total st1.srcmap hm1.wf res.labelStart
            have hnest : RInv lo' (IState.mk st1.src st1.srcmap res.labelStart res.labelEnd
                (st1.level + 1) (st1.linkLevel + 1) st1.cache st1.backticks [] []) :=
              ⟨⟨lo', hlo', Nat.le_refl _⟩, trivial, markersOK_nil,
                by intro init last hcs; simp at hcs⟩
            have hfnest : FInv src0 (IState.mk st1.src st1.srcmap res.labelStart res.labelEnd
                (st1.level + 1) (st1.linkLevel + 1) st1.cache st1.backticks [] []) := by
              unfold FInv; simp only
              refine fi_nil ?_
              rw [hls', hc.src]; exact hls
            obtain ⟨hs3, hm3, _⟩ := ht lo' (IState.mk st1.src st1.srcmap res.labelStart res.labelEnd
                (st1.level + 1) (st1.linkLevel + 1) st1.cache st1.backticks [] []) st3 hm1 htok hnest
            have hf3 : FInv src0 st3 := hft lo' (IState.mk st1.src st1.srcmap res.labelStart
                res.labelEnd (st1.level + 1) (st1.linkLevel + 1) st1.cache st1.backticks [] []) st3
                hctx1 hnest hfnest htok
            have hs3' : st3.src = st1.src := hs3
            have hm3' : st3.srcmap = st1.srcmap := hm3
            obtain ⟨rx, ry⟩ := r
            obtain ⟨e1, e2, hle⟩ := getMap_eq (liftR_ok.mp hr)
            rw [hm3', hc.srcmap] at e1 e2
            simp only [Option.getD_some]
            have epos : st3.pos + (res.endPos - st3.pos) = res.endPos := by omega
            rw [epos, hc.children]
            have hf3' : FI src0 st.src st.srcmap st3.pos st3.children := by
              have := hf3; unfold FInv at this
              rw [hs3', hm3', hc.src, hc.srcmap] at this; exact this
            exact hf.push hend (fi_fthN_plain (hctx.fth.bdy hf.bpos e1) (hctx.fth.bdy hend e2)
              (hmk1 _ _) (hmk2 _ _) (hmk3 _ _) hf3'.adj hf3'.deep) (fi_not_textLike (hmk1 _ _) (hmk3 _ _))

/-! ## one rule of the chain -/

theorem fi_runRule {src0 : List Char} {cfg : Cfg} {skip tok : IState → Except Panic IState}
    (hq : CalmFn skip) (ht : RangesFn tok) (hft : fi_FthFn src0 tok) (he : fi_EmphIn cfg src0)
    {fuel : Nat}
    {id : RuleId} (hid : id ∈ cfg.chain) {lo : Nat} {st : IState} {o : Option Nat} {st' : IState}
    (hctx : Ctx src0 st.src st.srcmap) (hi : RInv lo st) (hf : FInv src0 st)
    (h : runRule cfg skip tok fuel id st false = .ok (o, st')) :
    FI src0 st.src st.srcmap (st'.pos + o.getD 0) st'.children := by
  unfold runRule at h
  cases id with
  | text => exact fi_ruleText hctx hi hf (liftR_ok.mp h)
  | newline => exact fi_ruleNewline hctx hi hf (liftR_ok.mp h)
  | escape => exact fi_ruleEscape hctx hf (liftR_ok.mp h)
  | backticks => exact fi_ruleBackticks hctx hf (liftR_ok.mp h)
  | emph mk csw => exact he mk csw hid lo st st' o hctx hi hf (liftR_ok.mp h)
  | link =>
    simp only at h
    unfold ruleLink at h
    split at h
    · simp at h
    · simp at h
    · next c rest hw =>
      split at h
      · simp only [Except.ok.injEq, Prod.mk.injEq] at h; obtain ⟨rfl, rfl⟩ := h; exact fi_none hf
      · have hsl := window_eq (liftR_ok.mp hw)
        have hb : Bdy st.src (st.pos + 0 + 1) := by
          have := boundary_in_slice (u := [c]) (v := rest) hsl
          have hc : c = '[' := by simpa using ‹¬ c ≠ '['›
          have e1 : ('[' : Char).utf8Size = 1 := by decide
          subst hc
          simp only [byteLen, e1] at this
          exact this
        exact fi_linkRule (mk := Val.link) (offset := 0) hq ht hft (by intro u t c e; cases e)
          (by intro u t x y z e; cases e) (by intro u t m l r o c e; cases e) hctx hf hb h
  | image =>
    simp only at h
    unfold ruleImage at h
    split at h
    · simp at h
    · next rest hw =>
      have hsl := window_eq (liftR_ok.mp hw)
      have hb : Bdy st.src (st.pos + 1 + 1) := by
        have := boundary_in_slice (u := ['!', '[']) (v := rest) hsl
        have e1 : ('[' : Char).utf8Size = 1 := by decide
        have e2 : ('!' : Char).utf8Size = 1 := by decide
        simp only [byteLen, e1, e2] at this
        exact this
      exact fi_linkRule (mk := Val.image) (offset := 1) hq ht hft (by intro u t c e; cases e)
        (by intro u t x y z e; cases e) (by intro u t m l r o c e; cases e) hctx hf hb h
    · simp only [Except.ok.injEq, Prod.mk.injEq] at h; obtain ⟨rfl, rfl⟩ := h; exact fi_none hf
  | linkEnd =>
    simp only [Except.ok.injEq, Prod.mk.injEq] at h; obtain ⟨rfl, rfl⟩ := h; exact fi_none hf
  | autolink => exact fi_ruleAutolink hctx hf (liftR_ok.mp h)
  | entity => exact fi_ruleEntity hctx hf (liftR_ok.mp h)

/-! ## the chain, one iteration, the loop -/

theorem fi_firstRule {src0 : List Char} {chain : List RuleId} {run : RuleId → IState → RuleRes}
    {lo : Nat}
    (hrun : ∀ id s o s', MapOK s.src s.srcmap → RInv lo s → run id s = .ok (o, s') → StepOK lo s o s')
    (hfi : ∀ id s o s', id ∈ chain → Ctx src0 s.src s.srcmap → RInv lo s → FInv src0 s →
      run id s = .ok (o, s') → FI src0 s.src s.srcmap (s'.pos + o.getD 0) s'.children) :
    ∀ (rules : List RuleId), (∀ id ∈ rules, id ∈ chain) →
      ∀ (st : IState) (o : Option Nat) (st' : IState),
      Ctx src0 st.src st.srcmap → RInv lo st → FInv src0 st → firstRule run rules st = .ok (o, st') →
      FI src0 st.src st.srcmap (st'.pos + o.getD 0) st'.children := by
  intro rules
  induction rules with
  | nil =>
    intro _ st o st' _ _ hf h
    simp only [firstRule, Except.ok.injEq, Prod.mk.injEq] at h; obtain ⟨rfl, rfl⟩ := h
    exact fi_none hf
  | cons r rs ih =>
    intro hmem st o st' hctx hi hf h
    unfold firstRule at h
    split at h
    · simp at h
    · next n st1 hr =>
      simp only [Except.ok.injEq, Prod.mk.injEq] at h; obtain ⟨rfl, rfl⟩ := h
      exact hfi _ _ _ _ (hmem r (by simp)) hctx hi hf hr
    · next st1 hr =>
      have s1 := hrun _ _ _ _ hctx.map hi hr
      have f1 := hfi _ _ _ _ (hmem r (by simp)) hctx hi hf hr
      have hi1 : RInv lo st1 := by
        have := s1.ri
        simp only [Option.getD_none, Nat.add_zero] at this
        unfold RInv; rw [s1.src, s1.srcmap]; exact this
      have hf1 : FInv src0 st1 := by
        simp only [Option.getD_none, Nat.add_zero] at f1
        unfold FInv; rw [s1.src, s1.srcmap]; exact f1
      have hctx1 : Ctx src0 st1.src st1.srcmap := by rw [s1.src, s1.srcmap]; exact hctx
      have := ih (fun id hid => hmem id (by simp [hid])) st1 o st' hctx1 hi1 hf1 h
      rw [s1.src, s1.srcmap] at this; exact this

theorem fi_tokStep {src0 : List Char} {cfg : Cfg} {skip tok : IState → Except Panic IState}
    (hq : CalmFn skip) (ht : RangesFn tok) (hft : fi_FthFn src0 tok) (he : fi_EmphIn cfg src0)
    {fuel : Nat}
    {lo : Nat} {st st' : IState} (hctx : Ctx src0 st.src st.srcmap) (hi : RInv lo st)
    (hf : FInv src0 st) (h : tokStep cfg skip tok fuel st = .ok st') : FInv src0 st' := by
  have hok : ∀ o st1, (if st.level < cfg.maxNesting then
        firstRule (fun id s => runRule cfg skip tok fuel id s false) cfg.chain st
      else .ok (none, st)) = .ok (o, st1) →
      StepOK lo st o st1 ∧ FI src0 st.src st.srcmap (st1.pos + o.getD 0) st1.children := by
    intro o st1 hh
    split at hh
    · exact ⟨firstRule_ranges (fun id s o s' hms his hr => runRule_ranges hq ht hms his hr) _ _ _ _
          hctx.map hi hh,
        fi_firstRule (chain := cfg.chain)
          (fun id s o s' hms his hr => runRule_ranges hq ht hms his hr)
          (fun id s o s' hid hcs his hfs hr => fi_runRule hq ht hft he hid hcs his hfs hr)
          cfg.chain (fun id hid => hid) _ _ _ hctx hi hf hh⟩
    · simp only [Except.ok.injEq, Prod.mk.injEq] at hh; obtain ⟨rfl, rfl⟩ := hh
      exact ⟨stepOK_calm hi (Calm.refl _) rfl, fi_none hf⟩
  unfold tokStep at h
  simp only at h
  split at h
  · simp at h
  · next len st1 hr =>
    simp only [Except.ok.injEq] at h; subst h
    obtain ⟨s1, f1⟩ := hok _ _ hr
    simp only [Option.getD_some] at f1
    unfold FInv; simp only; rw [s1.src, s1.srcmap]; exact f1
  · next st1 hr =>
    obtain ⟨s1, f1⟩ := hok _ _ hr
    have hi1 : RInv lo st1 := by
      have := s1.ri
      simp only [Option.getD_none, Nat.add_zero] at this
      unfold RInv; rw [s1.src, s1.srcmap]; exact this
    have hf1 : FInv src0 st1 := by
      simp only [Option.getD_none, Nat.add_zero] at f1
      unfold FInv; rw [s1.src, s1.srcmap]; exact f1
    have hctx1 : Ctx src0 st1.src st1.srcmap := by rw [s1.src, s1.srcmap]; exact hctx
    split at h
    · simp at h
    · next ch hch =>
      split at h
      · simp at h
      · next st2 hp =>
        simp only [Except.ok.injEq] at h; subst h
        have hp' := liftR_ok.mp hp
        have := fi_fallback hctx1 hi1 hf1 hch hp'
        obtain ⟨cs, _, rfl⟩ := pushText_eq hp'
        exact this

/-- **the invariant `FI` through the whole tokenizer** (partial correctness, any fuel) -/
theorem fi_induction {src0 : List Char} (cfg : Cfg) (he : fi_EmphIn cfg src0) : ∀ fuel : Nat,
    ∀ (e lo : Nat) (st st' : IState), Ctx src0 st.src st.srcmap → RInv lo st → FInv src0 st →
      tokLoop cfg fuel e st = .ok st' → FInv src0 st' := by
  intro fuel
  induction fuel with
  | zero =>
    intro e lo st st' _ _ hf h
    unfold tokLoop at h
    split at h
    · simp at h
    · simp only [Except.ok.injEq] at h; subst h; exact hf
  | succ f ih =>
    intro e lo st st' hctx hi hf h
    unfold tokLoop at h
    split at h
    · simp only at h
      split at h
      · simp at h
      · next st1 hstep =>
        have ht : RangesFn (fun s => tokLoop cfg f s.posMax s) :=
          fun lo s s' hms hr his => ranges_induction cfg f _ lo s s' hms hr his
        have hft : fi_FthFn src0 (fun s => tokLoop cfg f s.posMax s) :=
          fun lo s s' hcs his hfs hr => ih _ lo s s' hcs his hfs hr
        obtain ⟨a, b, c⟩ := tokStep_ranges (skipToken_calm cfg f) ht hctx.map hi hstep
        have hf1 := fi_tokStep (skipToken_calm cfg f) ht hft he hctx hi hf hstep
        have hctx1 : Ctx src0 st1.src st1.srcmap := by rw [a, b]; exact hctx
        exact ih e lo st1 st' hctx1 c hf1 h
    · simp only [Except.ok.injEq] at h; subst h; exact hf

/-- **`parseInline`: faithful ranges at every node, adjacent mergeable neighbours, non-empty
    text-like members** — with the contract of the emphasis-marker rule for the markers of the
    chain only -/
theorem parseInline_fth_chain (cfg : Cfg) {src0 c : List Char} {m : Srcmap} (hctx : Ctx src0 c m)
    (he : fi_EmphIn cfg src0) {ns : List Inline.Node}
    (h : Inline.parseInline cfg c m = .ok ns) : FthL src0 ns ∧ Adjd ns ∧ StrictTop ns := by
  unfold parseInline at h
  split at h
  · simp at h
  · next st hst =>
    simp only [Except.ok.injEq] at h; subst h
    unfold tokenize at hst
    obtain ⟨lo, _, hg⟩ := init_good hctx.map
    have hf0 : FInv src0 (IState.init c m) := fi_nil hg.bpos
    have hf := fi_induction cfg he _ _ lo _ _ hctx hg.ri hf0 hst
    exact ⟨hf.deep, hf.adj, hf.strict⟩

/-- **the deliverable**: for a content `c` with per-line table `m` that is a faithful excerpt of the
    document `src0` (`Ctx`), single-byte non-LF emphasis markers, and the contract of the
    emphasis-marker rule: whatever `parseInline` returns is `FthN` at every node (range ends on
    character boundaries of `src0`, `Text` selects its content, `TextSpecial` its markup,
    `EmphMarker` covers its delimiters), mergeable neighbours are adjacent, and text-like members
    have non-empty ranges -/
theorem parseInline_fth (cfg : Inline.Cfg) {src0 c : List Char} {m : Srcmap} (hctx : Ctx src0 c m)
    (hmk : AsciiMarkers cfg.chain) (he : EmphOK cfg src0) {ns : List Inline.Node}
    (h : Inline.parseInline cfg c m = .ok ns) : FthL src0 ns ∧ Adjd ns ∧ StrictTop ns :=
  parseInline_fth_chain cfg hctx (fi_emphIn_of hmk he) h

/-! ## a worked instance -/

theorem fi_tr_id (p : Nat) : getSourcePosFor [(0, 0)] p = .ok p := by
  have hwf : C05.WFMap [(0, 0)] := ⟨⟨0, [], rfl⟩, by simp⟩
  obtain ⟨i, k, v, h1, h2, h3, _⟩ := C05.lineOf_spec _ hwf p
  have := C05.getSourcePosFor_of_line _ p i k v h1 h2 h3
  cases i with
  | zero =>
    simp only [List.getElem?_cons_zero, Option.some.injEq, Prod.mk.injEq] at h2
    obtain ⟨rfl, rfl⟩ := h2; simpa using this
  | succ j => simp at h2

/-- a content that is its own document (identity table) -/
theorem fi_ctx_id (c : List Char) : Ctx c c [(0, 0)] := by
  refine ⟨⟨⟨⟨0, [], rfl⟩, by simp⟩, ?_, ?_⟩, ⟨?_, ?_⟩⟩
  · intro i k1 v1 k2 v2 _ h2; simp at h2
  · intro i k v h hk
    cases i with
    | zero => simp at h; omega
    | succ j => simp at h
  · intro p q w a b hc _ ha hb
    rw [fi_tr_id] at ha hb
    simp only [Except.ok.injEq] at ha hb; subst ha hb; exact hc
  · intro p q w a b w' hc hn ha hb hc' hnb
    rw [fi_tr_id] at ha hb
    simp only [Except.ok.injEq] at ha hb; subst ha hb
    rw [hc'.unique hc] at hnb
    exact hnb.1 hn

/-- every rule except the emphasis-marker rule (`exCfg` of Props/Inline.lean without `*`) -/
def fi_exCfg : Cfg :=
  { exCfg 100 with
    chain := [.text, .newline, .escape, .backticks, .link, .linkEnd, .image, .autolink, .entity] }

theorem fi_exEmph (src0 : List Char) : fi_EmphIn fi_exCfg src0 := by
  intro mk csw hid
  simp [fi_exCfg] at hid

def fi_exSrc : List Char := "a  \n` b `[c](d)<xx:y>&amp;\\*é".toList

/-- what the examples show of a result: value, range and number of children of every top-level node -/
def fi_show (r : Except Panic (List Node)) : Except Panic (List (Val × Option (Nat × Nat) × Nat)) :=
  r.map (fun cs => cs.map (fun n => (n.val, n.range, n.children.length)))

-- `parseInline_fth_chain` on a text that exercises every rule but emphasis (text, hard break with
-- popped blanks, padded code span, link with a nested run, autolink, entity, escape, fall-back /
-- multi-byte text): the run succeeds with eight children, and they satisfy the conclusion
example : ∃ ns, parseInline fi_exCfg fi_exSrc [(0, 0)] = .ok ns ∧ ns.length = 8 ∧
    FthL fi_exSrc ns ∧ Adjd ns ∧ StrictTop ns := by
  have hrun : (match parseInline fi_exCfg fi_exSrc [(0, 0)] with
      | .ok cs => cs.length == 8
      | .error _ => false) = true := by decide +kernel
  split at hrun
  · next cs hcs =>
    exact ⟨cs, hcs, by simpa using hrun,
      parseInline_fth_chain fi_exCfg (fi_ctx_id fi_exSrc) (fi_exEmph _) hcs⟩
  · simp at hrun

example : fi_show (parseInline fi_exCfg fi_exSrc [(0, 0)]) = .ok
    [(.text ['a'], some (0, 1), 0), (.hardbreak, some (1, 4), 0),
     (.codeInline '`' 1, some (4, 9), 1), (.link [100] none, some (9, 15), 1),
     (.autolink [120, 120, 58, 121], some (15, 21), 1),
     (.special ['&'] ['&', 'a', 'm', 'p', ';'] infoEntity, some (21, 26), 0),
     (.special ['*'] ['\\', '*'] infoEscape, some (26, 28), 0), (.text ['é'], some (28, 30), 0)] := by
  decide +kernel

-- `Ctx` is needed: against a document the content is NOT an excerpt of, the text clause fails
example : ∃ ns, parseInline fi_exCfg ['a', 'b'] [(0, 0)] = .ok ns ∧ ¬ FthL ['x', 'y'] ns := by
  have hrun : fi_show (parseInline fi_exCfg ['a', 'b'] [(0, 0)]) = .ok [(.text ['a', 'b'], some (0, 2), 0)] := by
    decide +kernel
  unfold fi_show at hrun
  cases hp : parseInline fi_exCfg ['a', 'b'] [(0, 0)] with
  | error e => rw [hp] at hrun; simp [Except.map] at hrun
  | ok ns =>
    rw [hp] at hrun
    simp only [Except.map, Except.ok.injEq] at hrun
    refine ⟨ns, rfl, ?_⟩
    intro hfth
    obtain ⟨n, rfl, hn⟩ := List.map_eq_singleton_iff.mp hrun
    · simp only [Prod.mk.injEq] at hn
      obtain ⟨hv, hr, _⟩ := hn
      obtain ⟨⟨a, b, hab, _, _, htext, _⟩, _⟩ := (FthN_eq _ _).mp ((fi_fthL_single _ _).mp hfth)
      rw [hr] at hab
      simp only [Option.some.injEq, Prod.mk.injEq] at hab
      obtain ⟨rfl, rfl⟩ := hab
      have := htext _ hv ['x', 'y'] ⟨[], [], rfl, rfl, by decide⟩ ⟨by decide, by decide⟩
      exact absurd this (by decide)

end MdIt.C05R
