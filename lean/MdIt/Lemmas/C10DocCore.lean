/-
  C10 at whole-document level, part 1 (core): the relation between two runs of the block parser on
  two sources whose line tables show the same lines at possibly different byte offsets, and what
  every read of the table returns on related states.

    FRel R x y        lock-step relation on results: side 1 ran out of fuel (then nothing is claimed:
                      side 2 may have more fuel), or both returned values related by `R`, or both
                      panicked with the same panic
    ρ                 a relation on byte offsets that is invariant under translation (`Shift ρ`):
                      `Eq` (LF ↦ CR, final newline: nothing moves), `≤` (LF ↦ CR LF: everything moves
                      right), `fun _ _ => True` (arbitrary tables with the same views)
    ERel ρ            two table entries show the same line (same bytes between `line_start` and
                      `line_end`, same relative `first_nonspace`, same indent), starts related by `ρ`
    MRel ρ            two `InlineRoot` mappings: same keys, values related by `ρ`
    NRel ρ / NRelL ρ  two block trees: same kinds and payloads, `InlineRoot` mappings `MRel`, ranges
                      related by `ρ` componentwise
    SRel ρ G      two parser states: tables entrywise `ERel`, geometry (`line_start`, `line_end`
                      of every entry) equal to the fixed `T₁` / `T₂`, all scalar fields equal,
                      children `NRelL`, equal reference maps
-/
import MdIt.Props.Block
import MdIt.Props.C10

namespace MdIt.Block.LE
open MdIt.Lines (LineOffset)

/-! ## lock-step results -/

def FRel {α β : Type} (R : α → β → Prop) (x : Except Panic α) (y : Except Panic β) : Prop :=
  x = .error .fuel ∨ (∃ a b, x = .ok a ∧ y = .ok b ∧ R a b) ∨ (∃ e, x = .error e ∧ y = .error e)

theorem frel_ok {α β : Type} {R : α → β → Prop} {a : α} {b : β} (h : R a b) :
    FRel R (.ok a) (.ok b) := .inr (.inl ⟨a, b, rfl, rfl, h⟩)

theorem frel_pure {α β : Type} {R : α → β → Prop} {a : α} {b : β} (h : R a b) :
    FRel R (pure a) (pure b) := frel_ok h

theorem frel_err {α β : Type} {R : α → β → Prop} (e : Panic) :
    FRel R (.error e : Except Panic α) (.error e : Except Panic β) := .inr (.inr ⟨e, rfl, rfl⟩)

theorem frel_fuel {α β : Type} {R : α → β → Prop} (y : Except Panic β) :
    FRel R (.error .fuel : Except Panic α) y := .inl rfl

theorem frel_bind {α β γ δ : Type} {R : α → β → Prop} {S : γ → δ → Prop}
    {x : Except Panic α} {y : Except Panic β} {f : α → Except Panic γ} {g : β → Except Panic δ}
    (h : FRel R x y) (hfg : ∀ a b, R a b → FRel S (f a) (g b)) : FRel S (x >>= f) (y >>= g) := by
  rcases h with rfl | ⟨a, b, rfl, rfl, hab⟩ | ⟨e, rfl, rfl⟩
  · exact .inl rfl
  · exact hfg a b hab
  · exact .inr (.inr ⟨e, rfl, rfl⟩)

/-- the same computation first on both sides -/
theorem frel_bind_same {α γ δ : Type} {S : γ → δ → Prop}
    (x : Except Panic α) {f : α → Except Panic γ} {g : α → Except Panic δ}
    (hfg : ∀ a, x = .ok a → FRel S (f a) (g a)) : FRel S (x >>= f) (x >>= g) := by
  cases x with
  | error e => exact .inr (.inr ⟨e, rfl, rfl⟩)
  | ok a => exact hfg a rfl

theorem frel_mono {α β : Type} {R R' : α → β → Prop} {x : Except Panic α} {y : Except Panic β}
    (h : FRel R x y) (hr : ∀ a b, R a b → R' a b) : FRel R' x y := by
  rcases h with h | ⟨a, b, h1, h2, hab⟩ | h
  · exact .inl h
  · exact .inr (.inl ⟨a, b, h1, h2, hr a b hab⟩)
  · exact .inr (.inr h)

/-- equal computations are related by equality -/
theorem frel_refl {α : Type} (x : Except Panic α) : FRel Eq x x := by
  cases x with
  | error e => exact frel_err e
  | ok a => exact frel_ok rfl

theorem frel_of_eq {α : Type} {x y : Except Panic α} (h : y = x) : FRel Eq x y := h ▸ frel_refl x

theorem frel_ok_left {α β : Type} {R : α → β → Prop} {a : α} {y : Except Panic β}
    (h : FRel R (.ok a) y) : ∃ b, y = .ok b ∧ R a b := by
  rcases h with h | ⟨a', b, h1, h2, hab⟩ | ⟨e, h, _⟩
  · cases h
  · cases h1; exact ⟨b, h2, hab⟩
  · cases h

theorem frel_err_left {α β : Type} {R : α → β → Prop} {e : Panic} {y : Except Panic β}
    (h : FRel R (.error e : Except Panic α) y) (he : e ≠ .fuel) : y = .error e := by
  rcases h with h | ⟨a', b, h1, _, _⟩ | ⟨e', h, h'⟩
  · cases h; exact absurd rfl he
  · cases h1
  · cases h; exact h'

/-- `f <$> x` -/
theorem frel_map {α β γ δ : Type} {R : α → β → Prop} {S : γ → δ → Prop}
    {x : Except Panic α} {y : Except Panic β} {f : α → γ} {g : β → δ}
    (h : FRel R x y) (hfg : ∀ a b, R a b → S (f a) (g b)) : FRel S (f <$> x) (g <$> y) := by
  rcases h with rfl | ⟨a, b, rfl, rfl, hab⟩ | ⟨e, rfl, rfl⟩
  · exact .inl rfl
  · exact frel_ok (hfg a b hab)
  · exact .inr (.inr ⟨e, rfl, rfl⟩)

/-! ## offsets -/

/-- a relation on byte offsets that survives adding the same amount on both sides -/
structure Shift (ρ : Nat → Nat → Prop) : Prop where
  add : ∀ {a b : Nat} (d : Nat), ρ a b → ρ (a + d) (b + d)

theorem shift_eq : Shift Eq := ⟨fun _ h => by rw [h]⟩
theorem shift_le : Shift (· ≤ ·) := ⟨fun d h => Nat.add_le_add_right h d⟩
theorem shift_true : Shift (fun _ _ => True) := ⟨fun _ _ => trivial⟩

/-- `(line_start, line_end)` -/
def geom (o : LineOffset) : Nat × Nat := (o.lineStart, o.lineEnd)

/-- a line ends before any later line starts -/
def IncT (T : List (Nat × Nat)) : Prop :=
  ∀ (i j : Nat) (a b : Nat × Nat), i < j → T[i]? = some a → T[j]? = some b → a.2 ≤ b.1

/-- the two entries show the same line: the same bytes `a ++ b` at `line_start .. line_end`,
    `first_nonspace` behind `a` on both sides, the same indent; the starts are `ρ`-related -/
def ERel (ρ : Nat → Nat → Prop) (src₁ src₂ : List Char) (o₁ o₂ : LineOffset) : Prop :=
  ∃ a b p₁ q₁ p₂ q₂, src₁ = p₁ ++ (a ++ b) ++ q₁ ∧ src₂ = p₂ ++ (a ++ b) ++ q₂ ∧
    Lines.byteLen p₁ = o₁.lineStart ∧ Lines.byteLen p₂ = o₂.lineStart ∧
    o₁.firstNonspace = o₁.lineStart + Lines.byteLen a ∧ o₂.firstNonspace = o₂.lineStart + Lines.byteLen a ∧
    o₁.lineEnd = o₁.lineStart + Lines.byteLen a + Lines.byteLen b ∧
    o₂.lineEnd = o₂.lineStart + Lines.byteLen a + Lines.byteLen b ∧
    o₁.indentNonspace = o₂.indentNonspace ∧ ρ o₁.lineStart o₂.lineStart

/-- two per-line tables of an `InlineRoot`: same keys, values `ρ`-related -/
def MRel (ρ : Nat → Nat → Prop) : List (Nat × Nat) → List (Nat × Nat) → Prop
  | [], [] => True
  | x :: r₁, y :: r₂ => x.1 = y.1 ∧ ρ x.2 y.2 ∧ MRel ρ r₁ r₂
  | _, _ => False

theorem MRel.nil {ρ : Nat → Nat → Prop} : MRel ρ [] [] := trivial

theorem MRel.append {ρ : Nat → Nat → Prop} : ∀ {a b c d : List (Nat × Nat)}, MRel ρ a b → MRel ρ c d →
    MRel ρ (a ++ c) (b ++ d)
  | [], [], _, _, _, h => h
  | [], _ :: _, _, _, h, _ => h.elim
  | _ :: _, [], _, _, h, _ => h.elim
  | _ :: _, _ :: _, _, _, h, h' => ⟨h.1, h.2.1, MRel.append h.2.2 h'⟩

theorem MRel.single {ρ : Nat → Nat → Prop} {k v₁ v₂ : Nat} (h : ρ v₁ v₂) : MRel ρ [(k, v₁)] [(k, v₂)] :=
  ⟨rfl, h, trivial⟩

theorem MRel.eq : ∀ {a b : List (Nat × Nat)}, MRel Eq a b → a = b
  | [], [], _ => rfl
  | [], _ :: _, h => h.elim
  | _ :: _, [], h => h.elim
  | (k₁, v₁) :: _, (k₂, v₂) :: _, h => by
    have h1 : k₁ = k₂ := h.1
    have h2 : v₁ = v₂ := h.2.1
    rw [h1, h2, MRel.eq h.2.2]

theorem MRel.head {ρ : Nat → Nat → Prop} {x y : Nat × Nat} {r₁ r₂ : List (Nat × Nat)}
    (h : MRel ρ (x :: r₁) (y :: r₂)) : x.1 = y.1 ∧ ρ x.2 y.2 := ⟨h.1, h.2.1⟩

/-- `r₁ = none ∧ r₂ = none`, or both present and `ρ`-related componentwise -/
def RgRel (ρ : Nat → Nat → Prop) : Option (Nat × Nat) → Option (Nat × Nat) → Prop
  | none, none => True
  | some x, some y => ρ x.1 y.1 ∧ ρ x.2 y.2
  | _, _ => False

theorem RgRel.eq : ∀ {a b : Option (Nat × Nat)}, RgRel Eq a b → a = b
  | none, none, _ => rfl
  | none, some _, h => h.elim
  | some _, none, h => h.elim
  | some (a, b), some (c, d), h => by
    have h1 : a = c := h.1
    have h2 : b = d := h.2
    rw [h1, h2]

/-- node values: equal, or two `InlineRoot`s with the same text and related tables -/
def KRel (ρ : Nat → Nat → Prop) (k₁ k₂ : Kind) : Prop :=
  k₁ = k₂ ∨ ∃ c m₁ m₂, k₁ = .inlineRoot c m₁ ∧ k₂ = .inlineRoot c m₂ ∧ MRel ρ m₁ m₂

theorem KRel.refl {ρ : Nat → Nat → Prop} (k : Kind) : KRel ρ k k := .inl rfl

theorem KRel.inl {ρ : Nat → Nat → Prop} {c : List Char} {m₁ m₂ : List (Nat × Nat)} (h : MRel ρ m₁ m₂) :
    KRel ρ (.inlineRoot c m₁) (.inlineRoot c m₂) := .inr ⟨c, m₁, m₂, rfl, rfl, h⟩

theorem KRel.eq {k₁ k₂ : Kind} (h : KRel Eq k₁ k₂) : k₁ = k₂ := by
  rcases h with h | ⟨c, m₁, m₂, rfl, rfl, hm⟩
  · exact h
  · rw [MRel.eq hm]

/-- a value that is not an `InlineRoot` is related to itself only -/
theorem KRel.eq_of_not_inline {ρ : Nat → Nat → Prop} {k₁ k₂ : Kind} (h : KRel ρ k₁ k₂)
    (hk : ∀ c m, k₁ ≠ .inlineRoot c m) : k₂ = k₁ := by
  rcases h with h | ⟨c, m₁, m₂, rfl, rfl, _⟩
  · exact h.symm
  · exact absurd rfl (hk _ _)

theorem KRel.eq_iff {ρ : Nat → Nat → Prop} {k₁ k₂ : Kind} (h : KRel ρ k₁ k₂) (k : Kind)
    (hk : ∀ c m, k ≠ .inlineRoot c m) : k₁ = k ↔ k₂ = k := by
  rcases h with rfl | ⟨c, m₁, m₂, rfl, rfl, _⟩
  · exact Iff.rfl
  · constructor <;> intro h <;> exact absurd h.symm (hk _ _)

mutual
/-- two block trees that differ in source offsets only -/
def NRel (ρ : Nat → Nat → Prop) : BNode → BNode → Prop
  | ⟨k₁, r₁, c₁⟩, ⟨k₂, r₂, c₂⟩ => KRel ρ k₁ k₂ ∧ RgRel ρ r₁ r₂ ∧ NRelL ρ c₁ c₂
def NRelL (ρ : Nat → Nat → Prop) : List BNode → List BNode → Prop
  | [], [] => True
  | a :: as, b :: bs => NRel ρ a b ∧ NRelL ρ as bs
  | [], _ :: _ => False
  | _ :: _, [] => False
end

theorem NRel.mk {ρ : Nat → Nat → Prop} {k₁ k₂ : Kind} {r₁ r₂ : Option (Nat × Nat)} {c₁ c₂ : List BNode}
    (hk : KRel ρ k₁ k₂) (hr : RgRel ρ r₁ r₂) (hc : NRelL ρ c₁ c₂) : NRel ρ ⟨k₁, r₁, c₁⟩ ⟨k₂, r₂, c₂⟩ := by
  simp only [NRel]; exact ⟨hk, hr, hc⟩

theorem NRel.kind {ρ : Nat → Nat → Prop} {n₁ n₂ : BNode} (h : NRel ρ n₁ n₂) : KRel ρ n₁.kind n₂.kind := by
  cases n₁; cases n₂; simp only [NRel] at h; exact h.1

theorem NRel.range {ρ : Nat → Nat → Prop} {n₁ n₂ : BNode} (h : NRel ρ n₁ n₂) : RgRel ρ n₁.range n₂.range := by
  cases n₁; cases n₂; simp only [NRel] at h; exact h.2.1

theorem NRel.children {ρ : Nat → Nat → Prop} {n₁ n₂ : BNode} (h : NRel ρ n₁ n₂) :
    NRelL ρ n₁.children n₂.children := by
  cases n₁; cases n₂; simp only [NRel] at h; exact h.2.2

theorem NRelL.nil {ρ : Nat → Nat → Prop} : NRelL ρ [] [] := by simp only [NRelL]

theorem NRelL.cons {ρ : Nat → Nat → Prop} {a b : BNode} {as bs : List BNode} (h : NRel ρ a b)
    (ht : NRelL ρ as bs) : NRelL ρ (a :: as) (b :: bs) := by simp only [NRelL]; exact ⟨h, ht⟩

theorem NRelL.cons_inv {ρ : Nat → Nat → Prop} {a b : BNode} {as bs : List BNode}
    (h : NRelL ρ (a :: as) (b :: bs)) : NRel ρ a b ∧ NRelL ρ as bs := by simpa only [NRelL] using h

theorem NRelL.nil_left {ρ : Nat → Nat → Prop} {bs : List BNode} (h : NRelL ρ [] bs) : bs = [] := by
  cases bs with
  | nil => rfl
  | cons b bs => simp only [NRelL] at h

theorem NRelL.nil_right {ρ : Nat → Nat → Prop} {as : List BNode} (h : NRelL ρ as []) : as = [] := by
  cases as with
  | nil => rfl
  | cons a as => simp only [NRelL] at h

theorem NRelL.append {ρ : Nat → Nat → Prop} : ∀ {a b c d : List BNode}, NRelL ρ a b → NRelL ρ c d →
    NRelL ρ (a ++ c) (b ++ d)
  | [], [], _, _, _, h => h
  | [], _ :: _, _, _, h, _ => by simp only [NRelL] at h
  | _ :: _, [], _, _, h, _ => by simp only [NRelL] at h
  | _ :: _, _ :: _, _, _, h, h' => by
    obtain ⟨h1, h2⟩ := h.cons_inv
    exact NRelL.cons h1 (NRelL.append h2 h')

theorem NRelL.single {ρ : Nat → Nat → Prop} {a b : BNode} (h : NRel ρ a b) : NRelL ρ [a] [b] :=
  NRelL.cons h NRelL.nil

theorem NRelL.push {ρ : Nat → Nat → Prop} {as bs : List BNode} {a b : BNode} (h : NRelL ρ as bs)
    (hn : NRel ρ a b) : NRelL ρ (as ++ [a]) (bs ++ [b]) := h.append (NRelL.single hn)

theorem NRelL.length {ρ : Nat → Nat → Prop} : ∀ {a b : List BNode}, NRelL ρ a b → a.length = b.length
  | [], [], _ => rfl
  | [], _ :: _, h => by simp only [NRelL] at h
  | _ :: _, [], h => by simp only [NRelL] at h
  | _ :: _, _ :: _, h => by
    have := NRelL.length h.cons_inv.2
    simp [this]

mutual
theorem NRel.eq {n₁ n₂ : BNode} (h : NRel Eq n₁ n₂) : n₁ = n₂ := by
  match n₁, n₂ with
  | ⟨k₁, r₁, c₁⟩, ⟨k₂, r₂, c₂⟩ =>
    simp only [NRel] at h
    rw [KRel.eq h.1, RgRel.eq h.2.1, NRelL.eq h.2.2]
theorem NRelL.eq {a b : List BNode} (h : NRelL Eq a b) : a = b := by
  match a, b with
  | [], [] => rfl
  | [], _ :: _ => simp only [NRelL] at h
  | _ :: _, [] => simp only [NRelL] at h
  | x :: xs, y :: ys =>
    obtain ⟨h1, h2⟩ := h.cons_inv
    rw [NRel.eq h1, NRelL.eq h2]
end

/-- an `InlineRoot` child -/
theorem nrel_inline {ρ : Nat → Nat → Prop} {c : List Char} {m₁ m₂ : List (Nat × Nat)} (h : MRel ρ m₁ m₂) :
    NRel ρ ⟨.inlineRoot c m₁, none, []⟩ ⟨.inlineRoot c m₂, none, []⟩ :=
  NRel.mk (KRel.inl h) trivial NRelL.nil

/-! ## states -/

/-- what stays fixed during the two runs: the two sources and the geometry of their line tables -/
structure Geo where
  src₁ : List Char
  src₂ : List Char
  T₁ : List (Nat × Nat)
  T₂ : List (Nat × Nat)

structure SRel (ρ : Nat → Nat → Prop) (G : Geo) (s₁ s₂ : BState) : Prop where
  src₁ : s₁.src = G.src₁
  src₂ : s₂.src = G.src₂
  len : s₂.offs.length = s₁.offs.length
  ent : ∀ (i : Nat) (o₁ o₂ : LineOffset), s₁.offs[i]? = some o₁ → s₂.offs[i]? = some o₂ → ERel ρ G.src₁ G.src₂ o₁ o₂
  geo₁ : s₁.offs.map geom = G.T₁
  geo₂ : s₂.offs.map geom = G.T₂
  blkIndent : s₂.blkIndent = s₁.blkIndent
  line : s₂.line = s₁.line
  lineMax : s₂.lineMax = s₁.lineMax
  tight : s₂.tight = s₁.tight
  listIndent : s₂.listIndent = s₁.listIndent
  level : s₂.level = s₁.level
  nodeKind : s₂.nodeKind = s₁.nodeKind
  refs : s₂.refs = s₁.refs
  children : NRelL ρ s₁.children s₂.children

/-- what the rule simulations assume about the two runs -/
structure Ctx (ρ : Nat → Nat → Prop) (G : Geo) : Prop where
  shift : Shift ρ
  inc₁ : IncT G.T₁
  inc₂ : IncT G.T₂

/-- verdict and state of a rule call -/
def ResRel (ρ : Nat → Nat → Prop) (G : Geo) (r₁ r₂ : Bool × BState) : Prop :=
  r₁.1 = r₂.1 ∧ SRel ρ G r₁.2 r₂.2

/-- the nested tokenizers of the two runs -/
def TokSim (ρ : Nat → Nat → Prop) (G : Geo) (tok₁ tok₂ : Tok) : Prop :=
  ∀ s₁ s₂, SRel ρ G s₁ s₂ → FRel (SRel ρ G) (tok₁ s₁) (tok₂ s₂)

/-- the look-aheads of the two runs -/
def TestSim (ρ : Nat → Nat → Prop) (G : Geo) (test₁ test₂ : Test) : Prop :=
  ∀ s₁ s₂, SRel ρ G s₁ s₂ → FRel (ResRel ρ G) (test₁ s₁) (test₂ s₂)

section reads
variable {ρ : Nat → Nat → Prop} {G : Geo} {s₁ s₂ : BState}

/-! ### what an `ERel` pair shows -/

theorem ERel.indent {src₁ src₂ : List Char} {o₁ o₂ : LineOffset} (h : ERel ρ src₁ src₂ o₁ o₂) :
    o₂.indentNonspace = o₁.indentNonspace := by
  obtain ⟨a, b, p₁, q₁, p₂, q₂, _, _, _, _, _, _, _, _, hi, _⟩ := h
  exact hi.symm

theorem ERel.start {src₁ src₂ : List Char} {o₁ o₂ : LineOffset} (h : ERel ρ src₁ src₂ o₁ o₂) :
    ρ o₁.lineStart o₂.lineStart := by
  obtain ⟨a, b, p₁, q₁, p₂, q₂, _, _, _, _, _, _, _, _, _, hr⟩ := h
  exact hr

/-- the numbers: both entries are `line_start ≤ first_nonspace ≤ line_end` with the same distances -/
theorem ERel.nums {src₁ src₂ : List Char} {o₁ o₂ : LineOffset} (h : ERel ρ src₁ src₂ o₁ o₂) :
    o₁.lineStart ≤ o₁.firstNonspace ∧ o₁.firstNonspace ≤ o₁.lineEnd ∧
    o₂.firstNonspace = o₂.lineStart + (o₁.firstNonspace - o₁.lineStart) ∧
    o₂.lineEnd = o₂.lineStart + (o₁.lineEnd - o₁.lineStart) := by
  obtain ⟨a, b, p₁, q₁, p₂, q₂, _, _, _, _, h1, h2, h3, h4, _, _⟩ := h
  omega

/-- `first_nonspace`s are `ρ`-related -/
theorem ERel.first (hs : Shift ρ) {src₁ src₂ : List Char} {o₁ o₂ : LineOffset} (h : ERel ρ src₁ src₂ o₁ o₂) :
    ρ o₁.firstNonspace o₂.firstNonspace := by
  have hn := h.nums
  have := hs.add (o₁.firstNonspace - o₁.lineStart) h.start
  rw [hn.2.2.1, show o₁.firstNonspace = o₁.lineStart + (o₁.firstNonspace - o₁.lineStart) by omega]
  simpa using this

/-- `line_end`s are `ρ`-related -/
theorem ERel.end_ (hs : Shift ρ) {src₁ src₂ : List Char} {o₁ o₂ : LineOffset} (h : ERel ρ src₁ src₂ o₁ o₂) :
    ρ o₁.lineEnd o₂.lineEnd := by
  have hn := h.nums
  have := hs.add (o₁.lineEnd - o₁.lineStart) h.start
  rw [hn.2.2.2, show o₁.lineEnd = o₁.lineStart + (o₁.lineEnd - o₁.lineStart) by omega]
  simpa using this

/-- any offset inside the line, at the same distance from the start -/
theorem ERel.at_ (hs : Shift ρ) {src₁ src₂ : List Char} {o₁ o₂ : LineOffset} (h : ERel ρ src₁ src₂ o₁ o₂)
    (d : Nat) : ρ (o₁.lineStart + d) (o₂.lineStart + d) := hs.add d h.start

/-- a slice inside a part `L` of a text is the slice of `L` -/
theorem slice_inside (p L q : List Char) (x y : Nat) (hy : y ≤ Lines.byteLen L) :
    Lines.slice (p ++ L ++ q) (Lines.byteLen p + x) (Lines.byteLen p + y) = Lines.slice L x y := by
  unfold Lines.slice
  by_cases hxy : x > y
  · rw [if_pos (by omega), if_pos hxy]
  · rw [if_neg (by omega), if_neg hxy]
    rw [List.append_assoc, Lines.dropBytes_append_left]
    cases hd : Lines.dropBytes L x with
    | none =>
      -- `x` is not a boundary of `L`, or beyond it
      cases hd' : Lines.dropBytes (L ++ q) x with
      | none => rfl
      | some t =>
        exfalso
        obtain ⟨u, hu, hux⟩ := Lines.dropBytes_eq_some hd'
        -- `u` is a prefix of `L` since `x ≤ y ≤ |L|`
        have : ∃ w, L = u ++ w := by
          have key : ∀ (u L q t : List Char), L ++ q = u ++ t → Lines.byteLen u ≤ Lines.byteLen L →
              ∃ w, L = u ++ w := by
            intro u
            induction u with
            | nil => intro L _ _ _ _; exact ⟨L, rfl⟩
            | cons c r ih =>
              intro L q t h hl
              cases L with
              | nil => have := Lines.utf8Size_pos' c; simp at hl; omega
              | cons c' L' =>
                simp only [List.cons_append, List.cons.injEq] at h
                obtain ⟨rfl, h⟩ := h
                obtain ⟨w, hw⟩ := ih L' q t h (by simp at hl; omega)
                exact ⟨w, by simp [hw]⟩
          exact key u L q t hu (by omega)
        obtain ⟨w, rfl⟩ := this
        rw [← hux, Lines.dropBytes_append] at hd
        cases hd
    | some t =>
      obtain ⟨u, rfl, hux⟩ := Lines.dropBytes_eq_some hd
      rw [List.append_assoc, ← hux, Lines.dropBytes_append]
      simp only [show Lines.byteLen p + y - (Lines.byteLen p + Lines.byteLen u) = y - Lines.byteLen u by omega]
      -- `takeBytes (t ++ q) n = takeBytes t n` for `n ≤ |t|`
      have key : ∀ (t q : List Char) (n : Nat), n ≤ Lines.byteLen t →
          Lines.takeBytes (t ++ q) n = Lines.takeBytes t n := by
        intro t
        induction t with
        | nil => intro q n hn; simp at hn; subst hn; simp
        | cons c r ih =>
          intro q n hn
          simp only [List.cons_append, Lines.takeBytes]
          by_cases h0 : n = 0
          · simp [h0]
          · rw [if_neg h0, if_neg h0]
            by_cases hc : n < c.utf8Size
            · rw [if_pos hc, if_pos hc]
            · rw [if_neg hc, if_neg hc, ih q _ (by simp at hn; omega)]
      rw [key t q _ (by simp at hy; omega)]


/-- everything a rule slices out of a line, relative to the line's own bytes `L` -/
theorem ERel.slices {src₁ src₂ : List Char} {o₁ o₂ : LineOffset} (h : ERel ρ src₁ src₂ o₁ o₂) :
    ∃ L, o₁.lineEnd = o₁.lineStart + Lines.byteLen L ∧
      (∀ x y, y ≤ Lines.byteLen L →
        Lines.slice src₁ (o₁.lineStart + x) (o₁.lineStart + y) = Lines.slice L x y) ∧
      (∀ x y, y ≤ Lines.byteLen L →
        Lines.slice src₂ (o₂.lineStart + x) (o₂.lineStart + y) = Lines.slice L x y) := by
  obtain ⟨a, b, p₁, q₁, p₂, q₂, e1, e2, hp1, hp2, _, _, h3, _, _, _⟩ := h
  refine ⟨a ++ b, by simp; omega, ?_, ?_⟩
  · intro x y hy; rw [e1, ← hp1]; exact slice_inside p₁ (a ++ b) q₁ x y hy
  · intro x y hy; rw [e2, ← hp2]; exact slice_inside p₂ (a ++ b) q₂ x y hy

/-- the whole line -/
theorem ERel.line {src₁ src₂ : List Char} {o₁ o₂ : LineOffset} (h : ERel ρ src₁ src₂ o₁ o₂) :
    ∃ L, Lines.slice src₁ o₁.lineStart o₁.lineEnd = .ok L ∧ Lines.slice src₂ o₂.lineStart o₂.lineEnd = .ok L ∧
      o₁.lineEnd = o₁.lineStart + Lines.byteLen L ∧ o₂.lineEnd = o₂.lineStart + Lines.byteLen L := by
  obtain ⟨a, b, p₁, q₁, p₂, q₂, e1, e2, hp1, hp2, _, _, h3, h4, _, _⟩ := h
  refine ⟨a ++ b, ?_, ?_, by simp; omega, by simp; omega⟩
  · exact Lines.slice_eq_ok_iff.mpr ⟨p₁, q₁, e1, hp1, by simp; omega⟩
  · exact Lines.slice_eq_ok_iff.mpr ⟨p₂, q₂, e2, hp2, by simp; omega⟩

/-- `src[first_nonspace..line_end]` -/
theorem ERel.text {src₁ src₂ : List Char} {o₁ o₂ : LineOffset} (h : ERel ρ src₁ src₂ o₁ o₂) :
    Lines.slice src₂ o₂.firstNonspace o₂.lineEnd = Lines.slice src₁ o₁.firstNonspace o₁.lineEnd := by
  obtain ⟨L, hl, h1, h2⟩ := h.slices
  have hn := h.nums
  have e1 := h1 (o₁.firstNonspace - o₁.lineStart) (Lines.byteLen L) (Nat.le_refl _)
  have e2 := h2 (o₁.firstNonspace - o₁.lineStart) (Lines.byteLen L) (Nat.le_refl _)
  rw [show o₁.lineStart + (o₁.firstNonspace - o₁.lineStart) = o₁.firstNonspace by omega, ← hl] at e1
  rw [← hn.2.2.1, show o₂.lineStart + Lines.byteLen L = o₂.lineEnd by omega] at e2
  rw [e1, e2]

/-- `src[line_start..first_nonspace]` -/
theorem ERel.ws {src₁ src₂ : List Char} {o₁ o₂ : LineOffset} (h : ERel ρ src₁ src₂ o₁ o₂) :
    Lines.slice src₂ o₂.lineStart o₂.firstNonspace = Lines.slice src₁ o₁.lineStart o₁.firstNonspace := by
  obtain ⟨L, hl, h1, h2⟩ := h.slices
  have hn := h.nums
  have e1 := h1 0 (o₁.firstNonspace - o₁.lineStart) (by omega)
  have e2 := h2 0 (o₁.firstNonspace - o₁.lineStart) (by omega)
  rw [Nat.add_zero, show o₁.lineStart + (o₁.firstNonspace - o₁.lineStart) = o₁.firstNonspace by omega] at e1
  rw [Nat.add_zero, ← hn.2.2.1] at e2
  rw [e1, e2]

/-- `src[line_start + d..line_end]` for `d` inside the line -/
theorem ERel.from_ {src₁ src₂ : List Char} {o₁ o₂ : LineOffset} (h : ERel ρ src₁ src₂ o₁ o₂) (d : Nat) :
    Lines.slice src₂ (o₂.lineStart + d) o₂.lineEnd = Lines.slice src₁ (o₁.lineStart + d) o₁.lineEnd := by
  obtain ⟨L, hl, h1, h2⟩ := h.slices
  have hn := h.nums
  have e1 := h1 d (Lines.byteLen L) (Nat.le_refl _)
  have e2 := h2 d (Lines.byteLen L) (Nat.le_refl _)
  rw [← hl] at e1
  rw [show o₂.lineStart + Lines.byteLen L = o₂.lineEnd by omega] at e2
  rw [e1, e2]

/-- `is_empty` -/
theorem ERel.empty {src₁ src₂ : List Char} {o₁ o₂ : LineOffset} (h : ERel ρ src₁ src₂ o₁ o₂) :
    (o₂.firstNonspace ≥ o₂.lineEnd) ↔ (o₁.firstNonspace ≥ o₁.lineEnd) := by
  have hn := h.nums
  omega

/-- changing the indent on both sides alike -/
theorem ERel.setIndent {src₁ src₂ : List Char} {o₁ o₂ : LineOffset} (h : ERel ρ src₁ src₂ o₁ o₂) (x : Int) :
    ERel ρ src₁ src₂ { o₁ with indentNonspace := x } { o₂ with indentNonspace := x } := by
  obtain ⟨a, b, p₁, q₁, p₂, q₂, e1, e2, hp1, hp2, h1, h2, h3, h4, _, hr⟩ := h
  exact ⟨a, b, p₁, q₁, p₂, q₂, e1, e2, hp1, hp2, h1, h2, h3, h4, rfl, hr⟩

/-- the rewriting both containers perform: `first_nonspace := fn + line_start` for a boundary `fn`
    of the line's bytes, any indent -/
theorem ERel.rewrite {src₁ src₂ : List Char} {o₁ o₂ : LineOffset} (h : ERel ρ src₁ src₂ o₁ o₂)
    {L : List Char} (hL : Lines.slice src₁ o₁.lineStart o₁.lineEnd = .ok L) {fn : Nat}
    (hb : Lines.onBoundary L fn = true) (x : Int) :
    ERel ρ src₁ src₂ { o₁ with firstNonspace := fn + o₁.lineStart, indentNonspace := x }
      { o₂ with firstNonspace := fn + o₂.lineStart, indentNonspace := x } := by
  obtain ⟨L', hL1, _, _, _⟩ := h.line
  rw [hL] at hL1; cases hL1
  obtain ⟨a, b, p₁, q₁, p₂, q₂, e1, e2, hp1, hp2, h1, h2, h3, h4, _, hr⟩ := h
  have hab : L = a ++ b := by
    have := Lines.slice_eq_ok_iff.mpr ⟨p₁, q₁, e1, hp1, (by simp; omega : o₁.lineStart + Lines.byteLen (a ++ b) = o₁.lineEnd)⟩
    rw [hL] at this; cases this; rfl
  obtain ⟨a', b', hab', hfa⟩ := Lines.onBoundary_iff.mp hb
  have hlen : Lines.byteLen a' + Lines.byteLen b' = Lines.byteLen a + Lines.byteLen b := by
    have := congrArg Lines.byteLen (hab.symm.trans hab')
    simp at this; omega
  refine ⟨a', b', p₁, q₁, p₂, q₂, ?_, ?_, hp1, hp2, ?_, ?_, ?_, ?_, rfl, hr⟩
  · rw [e1, ← hab, hab']
  · rw [e2, ← hab, hab']
  · simp; omega
  · simp; omega
  · simp; omega
  · simp; omega

theorem ERel.geom_setIndent (o : LineOffset) (x : Int) : geom { o with indentNonspace := x } = geom o := rfl
theorem ERel.geom_rewrite (o : LineOffset) (f : Nat) (x : Int) :
    geom { o with firstNonspace := f, indentNonspace := x } = geom o := rfl

/-! ### the table -/

/-- the two tables have an entry at the same indices, and the entries are related -/
theorem SRel.get (S : SRel ρ G s₁ s₂) (n : Nat) :
    (s₁.offs[n]? = none ∧ s₂.offs[n]? = none) ∨
    ∃ o₁ o₂, s₁.offs[n]? = some o₁ ∧ s₂.offs[n]? = some o₂ ∧ ERel ρ G.src₁ G.src₂ o₁ o₂ := by
  by_cases hn : n < s₁.offs.length
  · right
    have hn2 : n < s₂.offs.length := by rw [S.len]; exact hn
    exact ⟨s₁.offs[n], s₂.offs[n], List.getElem?_eq_getElem hn, List.getElem?_eq_getElem hn2,
      S.ent n _ _ (List.getElem?_eq_getElem hn) (List.getElem?_eq_getElem hn2)⟩
  · left
    exact ⟨List.getElem?_eq_none (by omega), List.getElem?_eq_none (by rw [S.len]; omega)⟩

/-- `&state.line_offsets[n]` -/
theorem SRel.off (S : SRel ρ G s₁ s₂) (n : Nat) :
    FRel (ERel ρ G.src₁ G.src₂) (s₁.off n) (s₂.off n) := by
  unfold BState.off
  rcases S.get n with ⟨h1, h2⟩ | ⟨o₁, o₂, h1, h2, he⟩
  · rw [h1, h2]; exact frel_err _
  · rw [h1, h2]; exact frel_ok he

theorem SRel.off_ok (S : SRel ρ G s₁ s₂) {n : Nat} {o₁ : LineOffset} (h : s₁.off n = .ok o₁) :
    ∃ o₂, s₂.off n = .ok o₂ ∧ ERel ρ G.src₁ G.src₂ o₁ o₂ := by
  have := S.off n
  rw [h] at this
  exact frel_ok_left this

theorem SRel.lineIndent (S : SRel ρ G s₁ s₂) (n : Nat) : s₂.lineIndent n = s₁.lineIndent n := by
  unfold BState.lineIndent Lines.lineIndent
  rcases S.get n with ⟨h1, h2⟩ | ⟨o₁, o₂, h1, h2, he⟩
  · rw [h1, h2]
  · rw [h1, h2]; simp only; rw [he.indent, S.blkIndent]

theorem SRel.isEmpty (S : SRel ρ G s₁ s₂) (n : Nat) : s₂.isEmpty n = s₁.isEmpty n := by
  unfold BState.isEmpty Lines.isEmpty
  rcases S.get n with ⟨h1, h2⟩ | ⟨o₁, o₂, h1, h2, he⟩
  · rw [h1, h2]
  · rw [h1, h2]
    have := he.empty
    simp only [ge_iff_le, decide_eq_decide]
    exact this

theorem SRel.getLine (S : SRel ρ G s₁ s₂) (n : Nat) : s₂.getLine n = s₁.getLine n := by
  unfold BState.getLine Lines.getLine
  rcases S.get n with ⟨h1, h2⟩ | ⟨o₁, o₂, h1, h2, he⟩
  · rw [h1, h2]
  · rw [h1, h2]; simp only; rw [S.src₁, S.src₂, he.text]

theorem SRel.skipEmpty (S : SRel ρ G s₁ s₂) (lineMax : Nat) :
    ∀ line, Lines.skipEmptyLines s₂.offs lineMax line = Lines.skipEmptyLines s₁.offs lineMax line := by
  intro line
  have he : ∀ n, Lines.isEmpty s₂.offs n = Lines.isEmpty s₁.offs n := S.isEmpty
  generalize hk : s₁.offs.length - line = k
  induction k using Nat.strongRecOn generalizing line with
  | _ k ih =>
    rw [Lines.skipEmptyLines]
    conv => rhs; rw [Lines.skipEmptyLines]
    simp only [he line]
    split
    · rename_i h
      have hlt : line < s₁.offs.length := by
        have := h.2
        unfold Lines.isEmpty at this
        split at this
        · rename_i o ho
          exact (List.getElem?_eq_some_iff.mp ho).1
        · simp at this
      exact ih (s₁.offs.length - (line + 1)) (by omega) (line + 1) rfl
    · rfl

/-- `get_map`: the same verdict, `ρ`-related ranges -/
theorem SRel.getMap (hs : Shift ρ) (S : SRel ρ G s₁ s₂) (a b : Nat) :
    FRel (fun r₁ r₂ => RgRel ρ (some r₁) (some r₂)) (s₁.getMap a b) (s₂.getMap a b) := by
  unfold BState.getMap Lines.getMap
  by_cases hab : a > b
  · rw [if_pos hab, if_pos hab]; exact frel_err _
  · rw [if_neg hab, if_neg hab]
    rcases S.get a with ⟨h1, h2⟩ | ⟨o₁, o₂, h1, h2, he⟩
    · rw [h1, h2]; exact frel_err _
    · rcases S.get b with ⟨h1', h2'⟩ | ⟨o₁', o₂', h1', h2', he'⟩
      · rw [h1, h2, h1', h2']; exact frel_err _
      · rw [h1, h2, h1', h2']
        exact frel_ok ⟨he.first hs, he'.end_ hs⟩

/-- writing related entries with the geometry of the entries they replace -/
theorem SRel.setOff (S : SRel ρ G s₁ s₂) (n : Nat) {o₁ o₂ : LineOffset}
    (he : ERel ρ G.src₁ G.src₂ o₁ o₂)
    (hg₁ : ∀ o, s₁.offs[n]? = some o → geom o₁ = geom o)
    (hg₂ : ∀ o, s₂.offs[n]? = some o → geom o₂ = geom o) :
    FRel (SRel ρ G) (s₁.setOff n o₁) (s₂.setOff n o₂) := by
  unfold BState.setOff
  by_cases hn : n < s₁.offs.length
  · have hn2 : n < s₂.offs.length := by rw [S.len]; exact hn
    rw [if_pos hn, if_pos hn2]
    refine frel_ok ⟨S.src₁, S.src₂, by simp [S.len], ?_, ?_, ?_, S.blkIndent, S.line, S.lineMax, S.tight, S.listIndent,
      S.level, S.nodeKind, S.refs, S.children⟩
    · intro i x y hx hy
      simp only [List.getElem?_set] at hx hy
      by_cases hi : n = i
      · subst hi
        simp only [hn, hn2, if_true] at hx hy
        cases hx; cases hy; exact he
      · simp only [hi, if_false] at hx hy
        exact S.ent i x y hx hy
    · rw [← S.geo₁]
      simp only [List.map_set]
      rw [hg₁ _ (List.getElem?_eq_getElem hn)]
      apply List.ext_getElem?
      intro i
      simp only [List.getElem?_set, List.getElem?_map]
      split
      · rename_i h; subst h; simp [List.getElem?_eq_getElem hn]; exact hn
      · rfl
    · rw [← S.geo₂]
      simp only [List.map_set]
      rw [hg₂ _ (List.getElem?_eq_getElem hn2)]
      apply List.ext_getElem?
      intro i
      simp only [List.getElem?_set, List.getElem?_map]
      split
      · rename_i h; subst h; simp [List.getElem?_eq_getElem hn2]; exact hn2
      · rfl
  · have hn2 : ¬ n < s₂.offs.length := by rw [S.len]; exact hn
    rw [if_neg hn, if_neg hn2]; exact frel_err _


/-! ### `get_lines` -/

/-- the loop of `get_lines` on related tables: the same text, related per-line tables, or the same
    panic -/
theorem getLinesGo_sim (hs : Shift ρ) (S : SRel ρ G s₁ s₂) (end_ indent : Nat) (keep : Bool) :
    ∀ (k line : Nat) (result : List Char) (m₁ m₂ : List (Nat × Nat)), end_ - line = k → MRel ρ m₁ m₂ →
      (∃ c m₁' m₂', Lines.getLinesGo s₁.src s₁.offs end_ indent keep line result m₁ = .ok (c, m₁') ∧
        Lines.getLinesGo s₂.src s₂.offs end_ indent keep line result m₂ = .ok (c, m₂') ∧ MRel ρ m₁' m₂') ∨
      (∃ e, Lines.getLinesGo s₁.src s₁.offs end_ indent keep line result m₁ = .error e ∧
        Lines.getLinesGo s₂.src s₂.offs end_ indent keep line result m₂ = .error e) := by
  intro k
  induction k with
  | zero =>
    intro line result m₁ m₂ hk hm
    left
    rw [Lines.getLinesGo, Lines.getLinesGo, if_neg (by omega), if_neg (by omega)]
    exact ⟨_, _, _, rfl, rfl, hm⟩
  | succ k ih =>
    intro line result m₁ m₂ hk hm
    rw [S.src₁, S.src₂] at *
    rw [Lines.getLinesGo, Lines.getLinesGo, if_pos (by omega), if_pos (by omega)]
    rcases S.get line with ⟨h1, h2⟩ | ⟨o₁, o₂, h1, h2, he⟩
    · right; rw [h1, h2]; exact ⟨_, rfl, rfl⟩
    · rw [h1, h2]
      simp only
      rw [he.ws, he.indent]
      cases hws : Lines.slice G.src₁ o₁.lineStart o₁.firstNonspace with
      | error e => right; exact ⟨_, rfl, rfl⟩
      | ok ws =>
        simp only
        generalize Lines.calcRightWs ws (o₁.indentNonspace - Lines.usizeAsI32 indent) = p
        obtain ⟨ns, first⟩ := p
        simp only
        rw [he.from_ first]
        cases ht : Lines.slice G.src₁ (o₁.lineStart + first) o₁.lineEnd with
        | error e => right; exact ⟨_, rfl, rfl⟩
        | ok t =>
          simp only
          apply ih (line + 1) _ _ _ (by omega)
          have h1 : MRel ρ (m₁ ++ [(Lines.byteLen result, o₁.lineStart + first)])
              (m₂ ++ [(Lines.byteLen result, o₂.lineStart + first)]) :=
            hm.append (MRel.single (he.at_ hs first))
          split
          · exact h1.append (MRel.single (he.at_ hs first))
          · exact h1

/-- `get_lines` -/
theorem SRel.getLines (hs : Shift ρ) (S : SRel ρ G s₁ s₂) (b e indent : Nat) (keep : Bool) :
    FRel (fun r₁ r₂ => r₁.1 = r₂.1 ∧ MRel ρ r₁.2 r₂.2) (s₁.getLines b e indent keep)
      (s₂.getLines b e indent keep) := by
  unfold BState.getLines Lines.getLines
  by_cases hbe : b > e
  · rw [if_pos hbe, if_pos hbe]; exact frel_err _
  · rw [if_neg hbe, if_neg hbe]
    rcases getLinesGo_sim hs S e indent keep _ b [] [] [] rfl MRel.nil with
      ⟨c, m₁', m₂', h1, h2, hm⟩ | ⟨e', h1, h2⟩
    · rw [h1, h2]; exact frel_ok ⟨rfl, hm⟩
    · rw [h1, h2]; cases e' <;> exact frel_err _

/-! ### updates that keep the relation -/

theorem SRel.withLine (S : SRel ρ G s₁ s₂) (l : Nat) :
    SRel ρ G { s₁ with line := l } { s₂ with line := l } :=
  ⟨S.src₁, S.src₂, S.len, S.ent, S.geo₁, S.geo₂, S.blkIndent, rfl, S.lineMax, S.tight, S.listIndent, S.level, S.nodeKind,
    S.refs, S.children⟩

theorem SRel.push (S : SRel ρ G s₁ s₂) {n₁ n₂ : BNode} (hn : NRel ρ n₁ n₂) :
    SRel ρ G (s₁.push n₁) (s₂.push n₂) :=
  ⟨S.src₁, S.src₂, S.len, S.ent, S.geo₁, S.geo₂, S.blkIndent, S.line, S.lineMax, S.tight, S.listIndent, S.level, S.nodeKind,
    S.refs, S.children.push hn⟩

/-- any update of the fields the table relation does not mention -/
theorem SRel.upd (S : SRel ρ G s₁ s₂) {t₁ t₂ : BState}
    (h1 : t₁.src = s₁.src ∧ t₁.offs = s₁.offs) (h2 : t₂.src = s₂.src ∧ t₂.offs = s₂.offs)
    (hb : t₂.blkIndent = t₁.blkIndent) (hl : t₂.line = t₁.line) (hm : t₂.lineMax = t₁.lineMax)
    (ht : t₂.tight = t₁.tight) (hli : t₂.listIndent = t₁.listIndent) (hlv : t₂.level = t₁.level)
    (hk : t₂.nodeKind = t₁.nodeKind) (hr : t₂.refs = t₁.refs) (hc : NRelL ρ t₁.children t₂.children) :
    SRel ρ G t₁ t₂ := by
  refine ⟨h1.1.trans S.src₁, h2.1.trans S.src₂, by rw [h1.2, h2.2]; exact S.len, ?_, by rw [h1.2]; exact S.geo₁,
    by rw [h2.2]; exact S.geo₂, hb, hl, hm, ht, hli, hlv, hk, hr, hc⟩
  rw [h1.2, h2.2]; exact S.ent


/-- `srel_fields S`: prove `SRel ρ G t₁ t₂` for states `t₁`, `t₂` that are record updates of `s₁`, `s₂`
    (with `S : SRel ρ G s₁ s₂`) leaving `src` and `offs` alone; the scalar fields are closed with
    `S`'s equations, what remains (typically the `children` goal) is left to the caller -/
syntax "srel_fields " ident : tactic
macro_rules
| `(tactic| srel_fields $S:ident) => `(tactic|
    (refine SRel.upd $S ⟨rfl, rfl⟩ ⟨rfl, rfl⟩ ?_ ?_ ?_ ?_ ?_ ?_ ?_ ?_ ?_ <;>
     (try simp only [BState.push, SRel.blkIndent $S, SRel.line $S, SRel.lineMax $S, SRel.tight $S,
        SRel.listIndent $S, SRel.level $S, SRel.nodeKind $S, SRel.refs $S])))

end reads

end MdIt.Block.LE
