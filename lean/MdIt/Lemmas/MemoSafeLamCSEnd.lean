/-
  Helper development for `Props/MemoSafe.lean`, fourth part: the four statements of
  `Lemmas/MemoSafeLamCSDef.lean` for the code-span cache invariant `B := BC`, for texts without
  backslash-backtick-backtick (`NoEscTickTick`) and a top `pos_max` that cuts no run of backticks.

    * `backL2_holds`, `agreeHyp_holds` — `back_L2_runRule`, `inside_agree_of_not_interior`;
    * `rule_end_not_interior`          — no look-ahead token of ANY rule ends strictly inside a run of
                                         backticks (flat rules: `Lemmas/MemoSafeLamBack2.lean`; link / image:
                                         the token ends with `)` or `]`, `linkRule_closedAt`);
    * `endHyp_holds`                   — the only memo entry that ends strictly inside a run is the unit step;
    * `marksHyp_holds`                 — the look-ahead step that makes the unit entry at a backtick inside a
                                         run leaves its end marked.
-/
import MdIt.Lemmas.MemoSafeLamCSDef

namespace MdIt.Inline.CS
open MdIt.Inline
open MdIt.InlineOps (Srcmap getSourcePosFor getMap byteLen slice)
open MdIt.C05 (WFMap byteLen_append slice_ok_iff)

/-! ## 3, 4 -/

theorem backL2_holds (cfg : Cfg) {src : List Char} {Mtop : Nat} (hnc : CodePair.NoCut '`' src Mtop) :
    BackL2 cfg BC src Mtop := by
  intro skip tok skip' tok' fuel fuel' st0 s h hsrc0 hmax0 hsrc hpos hb0 hb1 hins
  exact back_L2_runRule h hsrc hpos hb0.1 hb1.1 (by rw [hsrc0, hmax0]; exact hnc) hins

theorem agreeHyp_holds (src : List Char) : AgreeHyp BC src :=
  fun _ _ _ hc hd hni => inside_agree_of_not_interior hc.1 hd.1 hni

/-! ## the last character of a link / image token (either mode) is `)` or `]` -/

/-- the position `e` lies right behind the character `)` or `]` -/
def ClosedAt (src : List Char) (e : Nat) : Prop :=
  1 ≤ e ∧ ∃ x, CodePair.charAt src (e - 1) = some x ∧ (x = ')' ∨ x = ']')

theorem charAt_of_slice {src : List Char} {p pm : Nat} {x : Char} {r : List Char}
    (h : slice src p pm = .ok (x :: r)) : CodePair.charAt src p = some x := by
  have := charAt_next (u := []) (b := x) (v := r) (a := p) (q := pm) (by simpa using h)
  simpa [byteLen] using this

theorem closedAt_after_bracket {src : List Char} {p pm : Nat} {r : List Char}
    (h : slice src p pm = .ok (']' :: r)) : ClosedAt src (p + 1) :=
  ⟨by omega, ']', by simpa using charAt_of_slice h, Or.inr rfl⟩

theorem parseLinkRef_closedAt {cfg : Cfg} {skip : IState → Except Panic IState} (hq : CalmFn skip)
    {fuel : Nat} {st : IState} {ls le : Nat} {res : LinkRes} {st' : IState}
    (hle : ∃ r, slice st.src le st.posMax = .ok (']' :: r))
    (h : parseLinkRef cfg skip fuel st ls le = .ok (some res, st')) :
    ClosedAt st.src res.endPos := by
  obtain ⟨r0, hr0⟩ := hle
  unfold parseLinkRef at h
  split at h
  · simp at h
  · next w hw =>
    clear hw
    simp only at h
    split at h
    · simp at h
    · next ml pos st1 hsec =>
      have hpos : ClosedAt st.src pos := by
        split at hsec
        · split at hsec
          · simp at hsec
          · next x st2 hl =>
            split at hsec
            · simp at hsec
            · simp only [Except.ok.injEq, Prod.mk.injEq] at hsec
              rw [← hsec.2.1]
              obtain ⟨r, hr⟩ := parseLinkLabel_end hq hl
              exact closedAt_after_bracket hr
          · simp only [Except.ok.injEq, Prod.mk.injEq] at hsec
            rw [← hsec.2.1]; exact closedAt_after_bracket hr0
        · simp only [Except.ok.injEq, Prod.mk.injEq] at hsec
          rw [← hsec.2.1]; exact closedAt_after_bracket hr0
      split at h
      · simp at h
      · split at h
        · simp at h
        · split at h
          · simp at h
          · simp only [Except.ok.injEq, Prod.mk.injEq, Option.some.injEq] at h
            rw [← h.1]; exact hpos

theorem tail_closedAt {dec : List Char → List Char} {src : List Char} {p max : Nat}
    {il : Link.InlineLink} (h : Link.parseInlineTail dec src p max = .ok (some il)) :
    ClosedAt src il.endPos := by
  unfold Link.parseInlineTail at h
  split at h
  · simp at h
  · split at h
    · simp only at h
      split at h
      · simp at h
      · split at h
        · simp at h
        · next href title pos hstage =>
          split at h
          · simp at h
          · next rest hs =>
            simp only [Except.ok.injEq, Option.some.injEq] at h; subst h
            simp only
            have hs' := (linkSlice_eq _ _ _ _).mp hs
            exact ⟨by omega, ')', by simpa using charAt_of_slice hs', Or.inl rfl⟩
          · simp at h
    · simp at h

theorem parseLink_closedAt {cfg : Cfg} {skip : IState → Except Panic IState} (hq : CalmFn skip)
    {fuel : Nat} {st : IState} {pos : Nat} {en : Bool} {res : LinkRes} {st' : IState}
    (h : parseLink cfg skip fuel st pos en = .ok (some res, st')) :
    ClosedAt st.src res.endPos := by
  unfold parseLink at h
  split at h
  · simp at h
  · simp at h
  · next le st1 hl =>
    have q1 := parseLinkLabel_calm hq hl
    obtain ⟨r, hr⟩ := parseLinkLabel_end hq hl
    simp only at h
    split at h
    · simp at h
    · next il hil =>
      simp only [Except.ok.injEq, Prod.mk.injEq, Option.some.injEq] at h
      rw [← h.1]
      have := tail_closedAt hil
      rw [q1.src] at this; exact this
    · have := parseLinkRef_closedAt hq (by rw [q1.src, q1.posMax]; exact ⟨r, hr⟩) h
      rw [q1.src] at this; exact this

/-- the link rule in either mode: the position the tokenizer continues from lies right behind `)` or `]` -/
theorem linkRule_closedAt {cfg : Cfg} {skip tok : IState → Except Panic IState} (hq : CalmFn skip)
    {fuel : Nat} {mk : List Nat → Option (List Char) → Val} {en : Bool} {offset : Nat} {st : IState}
    {silent : Bool} {len : Nat} {st' : IState}
    (h : linkRule cfg skip tok fuel mk en offset st silent = .ok (some len, st')) :
    ClosedAt st.src (st'.pos + len) := by
  unfold linkRule at h
  simp only at h
  split at h
  · simp at h
  · simp at h
  · next res st1 hpl =>
    have hb := parseLink_closedAt hq hpl
    split at h
    · split at h
      · simp at h
      · next hnu =>
        simp only [Except.ok.injEq, Prod.mk.injEq, Option.some.injEq] at h
        obtain ⟨rfl, rfl⟩ := h
        have : st1.pos + (res.endPos - st1.pos) = res.endPos := by omega
        rw [this]; exact hb
    · split at h
      · simp at h
      · next st3 _ =>
        split at h
        · simp at h
        · split at h
          · simp at h
          · split at h
            · simp at h
            · next hnu =>
              simp only [Except.ok.injEq, Prod.mk.injEq, Option.some.injEq] at h
              obtain ⟨rfl, rfl⟩ := h
              simp only at hnu ⊢
              have : st3.pos + (res.endPos - st3.pos) = res.endPos := by omega
              rw [this]; exact hb

/-! ## no look-ahead token ends strictly inside a run of backticks -/

theorem closedAt_not_interior {src : List Char} {e : Nat} (h : ClosedAt src e) : ¬ Interior src e := by
  rintro ⟨_, h1, _⟩
  obtain ⟨_, x, hx, hx2⟩ := h
  rw [hx] at h1
  simp only [Option.some.injEq] at h1
  subst h1
  rcases hx2 with h | h <;> revert h <;> decide

/-- a window that starts with backslash-backtick-backtick puts that text into the source -/
theorem infix_of_window {st : IState} {rest : List Char}
    (hw : st.window = .ok ('\\' :: '`' :: '`' :: rest)) : ['\\', '`', '`'] <:+: st.src := by
  obtain ⟨p, q, e, _, _⟩ := (slice_ok_iff _ _ _ _).mp (window_eq hw)
  exact ⟨p, rest ++ q, by rw [e]; simp⟩

/-- **one rule, look-ahead mode**: a token does not end strictly inside a run of backticks — provided the
    text has no backslash-backtick-backtick and `pos_max` cuts no run -/
theorem rule_end_not_interior {cfg : Cfg} {skip tok : IState → Except Panic IState} (hq : CalmFn skip)
    (hs : SkipHypT skip) (fuel : Nat) (id : RuleId) {st : IState} (hi : LInv st)
    (hlt : st.pos < st.posMax) (hne : NoEscTickTick st.src)
    (hnc : CodePair.NoCut '`' st.src st.posMax) {n : Nat} {st' : IState}
    (h : runRule cfg skip tok fuel id st true = .ok (some n, st')) : ¬ Interior st.src (st.pos + n) := by
  have hT := (runRule_silent_T (cfg := cfg) (tok := tok) hq hs fuel id st hi hlt).ok _ _ h
  obtain ⟨_, _, hpos, hadv⟩ := hT
  obtain ⟨h1, hle, _⟩ := hadv n rfl
  -- a token that ends at `pos_max` does not end inside a run: `pos_max` cuts none
  by_cases hend : st.pos + n = st.posMax
  · rw [hend]; exact hnc
  have hlt2 : st.pos + n < st.posMax := by omega
  intro hint
  have hpair : CodePair.charAt st.src (st.pos + n - 1) = some '`' ∧
      CodePair.charAt st.src (st.pos + n) = some '`' := ⟨hint.2.1, hint.2.2⟩
  unfold runRule at h
  cases id with
  | text => exact text_end_not_inside (liftR_ok.mp h) hpair
  | newline => exact newline_end_not_inside (liftR_ok.mp h) hpair
  | escape =>
    obtain ⟨rest, hw⟩ := (escape_end_inside_iff (liftR_ok.mp h) hlt2).mp hpair
    exact hne (infix_of_window hw)
  | backticks => exact backticks_end_not_inside (liftR_ok.mp h) hlt2 hpair
  | emph mk csw =>
    have h' := liftR_ok.mp h
    rw [ruleEmph_silent] at h'
    simp at h'
  | link =>
    simp only at h
    unfold ruleLink at h
    split at h
    · simp at h
    · simp at h
    · split at h
      · simp at h
      · have := linkRule_closedAt hq h
        rw [hpos] at this
        exact closedAt_not_interior this hint
  | image =>
    simp only at h
    unfold ruleImage at h
    split at h
    · simp at h
    · have := linkRule_closedAt hq h
      rw [hpos] at this
      exact closedAt_not_interior this hint
    · simp at h
  | linkEnd => simp at h
  | autolink => exact autolink_end_not_inside (liftR_ok.mp h) hpair
  | entity => exact entity_end_not_inside (liftR_ok.mp h) hpair

/-! ## 1: `EndHyp` -/

/-- a look-ahead chain that answered `some n`: the rule that answered, and the state it was called at -/
theorem firstRule_some_inv {cfg : Cfg} {skip tok : IState → Except Panic IState} (hq : CalmFn skip)
    (hs : SkipHypT skip) (fuel : Nat) :
    ∀ (rules : List RuleId) (st : IState), LInv st → st.pos < st.posMax →
      ∀ n w', firstRule (fun id s => silentBumped (runRule cfg skip tok fuel id) s) rules st
          = .ok (some n, w') →
        ∃ id ∈ rules, ∃ s, LInv s ∧ s.src = st.src ∧ s.posMax = st.posMax ∧ s.pos = st.pos ∧
          silentBumped (runRule cfg skip tok fuel id) s = .ok (some n, w') := by
  intro rules
  induction rules with
  | nil =>
    intro st _ _ n w' h
    simp [firstRule] at h
  | cons r rs ih =>
    intro st hi hlt n w' h
    unfold firstRule at h
    split at h
    · simp at h
    · next n1 st1 he =>
      simp only [Except.ok.injEq, Prod.mk.injEq, Option.some.injEq] at h
      obtain ⟨rfl, rfl⟩ := h
      exact ⟨r, by simp, st, hi, rfl, rfl, rfl, he⟩
    · next st1 he =>
      obtain ⟨hi1, hs1, hm1, hp1⟩ := wit_step hq hs fuel r hi hlt he
      obtain ⟨id, hid, s, a1, a2, a3, a4, a5⟩ := ih st1 hi1 (by rw [hp1, hm1]; exact hlt) n w' h
      exact ⟨id, List.mem_cons_of_mem _ hid, s, a1, a2.trans hs1, a3.trans hm1, a4.trans hp1, a5⟩

/-- **the only memo entry that ends strictly inside a run of backticks is the unit step** — for texts
    without backslash-backtick-backtick and a top `pos_max` that cuts no run -/
theorem endHyp_holds (cfg : Cfg) (B : List Char → CodePair.Cache → Prop) {src : List Char} {Mtop : Nat}
    (hne : NoEscTickTick src) (hnc : CodePair.NoCut '`' src Mtop) : EndHyp cfg B src Mtop := by
  intro m p k hJ hint
  obtain ⟨skip0, tok0, f0, st0, st0', hq0, hs0, _, hi0, hsrc0, hmax0, hpos0, hlt0, _, _, hstep,
    hv, _⟩ := hJ
  obtain ⟨o0, w', hfr, _, hsome, hnone⟩ := skipStep_inv hstep
  obtain ⟨hi', hs', hm', hp'⟩ := wit_chain_step hq0 hs0 f0 cfg.chain hi0 hlt0 hfr
  cases o0 with
  | some n =>
    exfalso
    obtain ⟨id, _, s, his, hss, hsm, hsp, hsb⟩ :=
      firstRule_some_inv hq0 hs0 f0 cfg.chain st0 hi0 hlt0 n w' hfr
    obtain ⟨wb, hwb, _⟩ := silentBumped_ok hsb
    have hk : k = st0.pos + n := by rw [← hv, hsome n rfl, hp']
    have := rule_end_not_interior (cfg := cfg) (tok := tok0) hq0 hs0 f0 id
      (st := { s with level := s.level + 1 }) his.bump
      (by show s.pos < s.posMax; rw [hsp, hsm]; exact hlt0)
      (by show NoEscTickTick s.src; rw [hss, hsrc0]; exact hne)
      (by show CodePair.NoCut '`' s.src s.posMax; rw [hss, hsm, hsrc0, hmax0]; exact hnc) hwb
    apply this
    show Interior s.src (s.pos + n)
    rw [hss, hsp, hsrc0, ← hk]; exact hint
  | none =>
    obtain ⟨c, hc, hpc⟩ := hnone rfl
    have hk : k = p + c.utf8Size := by rw [← hv, hpc, hp', hpos0]
    -- the window of `w'` starts with `c`
    unfold firstChar at hc
    split at hc
    · simp at hc
    · simp at hc
    · next c1 rest hw =>
      simp only [Except.ok.injEq] at hc
      subst hc
      have hsl : slice src p Mtop = .ok ([] ++ c1 :: rest) := by
        have := window_eq (liftR_ok.mp hw)
        rw [hs', hp', hm', hsrc0, hpos0, hmax0] at this
        simpa using this
      have hx := charAt_last (c := '`') hsl (by
        have : p + byteLen ([] ++ [c1]) - 1 = k - 1 := by
          simp only [List.nil_append, byteLen]; omega
        rw [this]; exact hint.2.1)
      subst hx
      rw [hk]; rfl

/-! ## 2: `MarksHyp` -/

theorem unbump (s : IState) :
    ({ ({ s with level := s.level + 1 } : IState) with level := s.level + 1 - 1 } : IState) = s := by
  cases s; simp

/-- every rule other than the code-span rule declines at a backtick in look-ahead mode and returns the
    state it was given (whatever `skip_token` / `tokenize` it is handed) -/
theorem other_at_backtick {cfg : Cfg} {skip tok : IState → Except Panic IState} {fuel : Nat}
    {id : RuleId} (hne : id ≠ .backticks) {s : IState} {rest : List Char}
    (hw : s.window = .ok ('`' :: rest)) {o : Option Nat} {s1 : IState}
    (h : silentBumped (runRule cfg skip tok fuel id) s = .ok (o, s1)) : o = none ∧ s1 = s := by
  obtain ⟨wb, hwb, rfl⟩ := silentBumped_ok h
  have hwB : ({ s with level := s.level + 1 } : IState).window = .ok ('`' :: rest) := hw
  have hfire : id.firesAt '`' = false := by
    cases id with
    | backticks => exact absurd rfl hne
    | text => decide
    | newline => decide
    | escape => decide
    | emph m c => rfl
    | link => decide
    | image => decide
    | linkEnd => rfl
    | autolink => decide
    | entity => decide
  have ho := silent_declines hwB hfire _ _ hwb
  have hst : wb = { s with level := s.level + 1 } := by
    by_cases hf : id.isFlat = true
    · exact silent_flat_state hf hne hwb
    · cases id with
      | link =>
        rw [link_other hwB (by decide) true] at hwb
        simp only [Except.ok.injEq, Prod.mk.injEq] at hwb
        exact hwb.2.symm
      | image =>
        rw [image_other hwB (by intro t ht; simp at ht) true] at hwb
        simp only [Except.ok.injEq, Prod.mk.injEq] at hwb
        exact hwb.2.symm
      | _ => simp [RuleId.isFlat] at hf
  subst hst
  exact ⟨ho, unbump s⟩

/-- what the code-span rule does at a backtick, through `silentBumped` -/
theorem back_at_backtick {cfg : Cfg} {skip tok : IState → Except Panic IState} {fuel : Nat}
    {s : IState} {o : Option Nat} {s1 : IState}
    (h : silentBumped (runRule cfg skip tok fuel .backticks) s = .ok (o, s1)) :
    s1.src = s.src ∧ s1.pos = s.pos ∧ s1.posMax = s.posMax ∧ (∀ n, o = some n → 2 ≤ n) ∧
    (∀ q ∈ s.backticks.insideFailed, q ∈ s1.backticks.insideFailed) ∧
    ∃ wb, ruleBackticks { s with level := s.level + 1 } true = .ok (o, wb) ∧
      s1.backticks = wb.backticks := by
  obtain ⟨wb, hwb, rfl⟩ := silentBumped_ok h
  have hr : ruleBackticks { s with level := s.level + 1 } true = .ok (o, wb) := by
    unfold runRule at hwb; exact liftR_ok.mp hwb
  have hsim := ruleBackticks_simple hr
  obtain ⟨_, oc, hrun, ho⟩ := ruleBackticks_run hr
  have hmono : ∀ q ∈ s.backticks.insideFailed, q ∈ wb.backticks.insideFailed :=
    ruleBackticks_inside_mono (st := { s with level := s.level + 1 }) hr
  refine ⟨hsim.frame.src, hsim.pos, hsim.frame.posMax, ?_, hmono, wb, hr, rfl⟩
  intro n hn
  subst hn
  cases oc with
  | none => simp at ho
  | some o1 =>
    simp only [Option.map_some, Option.some.injEq] at ho
    have := (CodePair.codepair_progress _ _ backtick_size _ _ _ _ _ _ _ _ hrun).1
    omega

/-- the look-ahead chain at a backtick that is followed by a backtick: the position stays, a verdict is at
    least 2, a mark on the next position persists, and if the code-span rule is in the chain and the chain
    declines then the next position is marked -/
theorem chain_marks {cfg : Cfg} {skip tok : IState → Except Panic IState} {fuel : Nat}
    {rest : List Char} :
    ∀ (rules : List RuleId) (s : IState), s.window = .ok ('`' :: '`' :: rest) →
      (InsideFull s.src s.backticks ∨ (s.pos + 1) ∈ s.backticks.insideFailed) →
      ∀ o w', firstRule (fun id s => silentBumped (runRule cfg skip tok fuel id) s) rules s
          = .ok (o, w') →
        w'.pos = s.pos ∧ (∀ n, o = some n → 2 ≤ n) ∧
        ((s.pos + 1) ∈ s.backticks.insideFailed → (s.pos + 1) ∈ w'.backticks.insideFailed) ∧
        (RuleId.backticks ∈ rules → o = none → (s.pos + 1) ∈ w'.backticks.insideFailed) := by
  intro rules
  induction rules with
  | nil =>
    intro s _ _ o w' h
    simp only [firstRule, Except.ok.injEq, Prod.mk.injEq] at h
    obtain ⟨rfl, rfl⟩ := h
    exact ⟨rfl, by intro n hn; simp at hn, fun h => h, by intro h; simp at h⟩
  | cons r rs ih =>
    intro s hw hP o w' h
    unfold firstRule at h
    by_cases hr : r = .backticks
    · subst hr
      split at h
      · simp at h
      · next n1 s1 he =>
        simp only [Except.ok.injEq, Prod.mk.injEq] at h
        obtain ⟨rfl, rfl⟩ := h
        obtain ⟨_, hp1, _, hn2, hmono, _⟩ := back_at_backtick he
        exact ⟨hp1, hn2, fun hm => hmono _ hm, by intro _ hh; simp at hh⟩
      · next s1 he =>
        obtain ⟨hs1, hp1, hm1, _, hmono, wb, hwb, hbk⟩ := back_at_backtick he
        have hw1 : s1.window = .ok ('`' :: '`' :: rest) := by
          rw [← hw]; exact window_congr hs1 hp1 hm1
        -- the declining call leaves the next position marked
        have hmark : (s.pos + 1) ∈ s1.backticks.insideFailed := by
          rcases hP with hfull | hm
          · rw [hbk]
            exact back_decline_marks (st := { s with level := s.level + 1 }) hw hwb hfull
          · exact hmono _ hm
        obtain ⟨a1, a2, a3, _⟩ := ih s1 hw1 (.inr (by rw [hp1]; exact hmark)) o w' h
        have hfin := a3 (by rw [hp1]; exact hmark)
        rw [hp1] at hfin
        exact ⟨a1.trans hp1, a2, fun _ => hfin, fun _ _ => hfin⟩
    · split at h
      · simp at h
      · next n1 s1 he =>
        have := (other_at_backtick hr hw he).1
        simp at this
      · next s1 he =>
        obtain ⟨_, rfl⟩ := other_at_backtick hr hw he
        obtain ⟨a1, a2, a3, a4⟩ := ih s1 hw hP o w' h
        refine ⟨a1, a2, a3, ?_⟩
        intro hmem ho
        simp only [List.mem_cons] at hmem
        rcases hmem with hmem | hmem
        · exact absurd hmem.symm hr
        · exact a4 hmem ho

/-- a state whose window cannot be taken: a chain that contains the code-span rule does not return -/
theorem chain_no_window {cfg : Cfg} {skip tok : IState → Except Panic IState} {fuel : Nat}
    {e : RPanic} :
    ∀ (rules : List RuleId), RuleId.backticks ∈ rules → ∀ (s : IState), s.window = .error e →
      ∀ r, firstRule (fun id s => silentBumped (runRule cfg skip tok fuel id) s) rules s ≠ .ok r := by
  intro rules
  induction rules with
  | nil => intro h; simp at h
  | cons id rs ih =>
    intro hmem s hw r h
    have hwB : ({ s with level := s.level + 1 } : IState).window = .error e := hw
    -- one rule: it does not return, or it is `emph` / `linkEnd` and returns `(none, s)`
    have hone : ∀ o s1, silentBumped (runRule cfg skip tok fuel id) s = .ok (o, s1) →
        o = none ∧ s1 = s ∧ id ≠ .backticks := by
      intro o s1 hb
      obtain ⟨wb, hwb, rfl⟩ := silentBumped_ok hb
      unfold runRule at hwb
      cases id with
      | text =>
        have h' := liftR_ok.mp hwb
        rw [ruleText_silent, hwB] at h'
        simp at h'
      | newline =>
        have h' := liftR_ok.mp hwb
        rw [ruleNewline_silent, hwB] at h'
        simp at h'
      | escape =>
        have h' := liftR_ok.mp hwb
        rw [ruleEscape_silent, hwB] at h'
        simp at h'
      | backticks =>
        exfalso
        have h' := liftR_ok.mp hwb
        obtain ⟨_, oc, hrun, _⟩ := ruleBackticks_run h'
        cases hsl : CodePair.slice s.src s.pos s.posMax with
        | none =>
          unfold CodePair.run at hrun
          have hsl' : CodePair.slice ({ s with level := s.level + 1 } : IState).src
              ({ s with level := s.level + 1 } : IState).pos
              ({ s with level := s.level + 1 } : IState).posMax = none := hsl
          rw [hsl'] at hrun
          simp at hrun
        | some w =>
          have := (codeSlice_eq _ _ _ _).mp hsl
          unfold IState.window at hw
          rw [this] at hw
          simp [liftOps] at hw
      | emph mk csw =>
        have h' := liftR_ok.mp hwb
        rw [ruleEmph_silent] at h'
        simp only [Except.ok.injEq, Prod.mk.injEq] at h'
        obtain ⟨rfl, rfl⟩ := h'
        exact ⟨rfl, unbump s, by simp⟩
      | link =>
        simp only at hwb
        unfold ruleLink at hwb
        rw [hwB] at hwb
        simp [liftR] at hwb
      | image =>
        simp only at hwb
        unfold ruleImage at hwb
        rw [hwB] at hwb
        simp [liftR] at hwb
      | linkEnd =>
        simp only [Except.ok.injEq, Prod.mk.injEq] at hwb
        obtain ⟨rfl, rfl⟩ := hwb
        exact ⟨rfl, unbump s, by simp⟩
      | autolink =>
        have h' := liftR_ok.mp hwb
        rw [ruleAutolink_silent, hwB] at h'
        simp at h'
      | entity =>
        have h' := liftR_ok.mp hwb
        rw [ruleEntity_silent, hwB] at h'
        simp at h'
    unfold firstRule at h
    split at h
    · simp at h
    · next n1 s1 he =>
      have := (hone _ _ he).1
      simp at this
    · next s1 he =>
      obtain ⟨_, rfl, hid⟩ := hone _ _ he
      simp only [List.mem_cons] at hmem
      rcases hmem with hmem | hmem
      · exact hid hmem.symm
      · exact ih hmem s1 hw r h

/-- **the look-ahead step that makes the unit entry at a backtick inside a run leaves its end marked** -/
theorem marksHyp_holds (cfg : Cfg) : MarksHyp cfg BC := by
  intro skip tok fuel st st' hb hbt hint hlt hstep hpos
  obtain ⟨o0, w', hfr, _, hsome, hnone⟩ := skipStep_inv hstep
  -- the window starts with two backticks
  cases hwin : st.window with
  | error e => exact absurd hfr (chain_no_window cfg.chain hbt st hwin _)
  | ok w =>
    have hsl := window_eq hwin
    obtain ⟨_, _, hlen⟩ := slice_boundaries hsl
    have h0 : CodePair.charAt st.src st.pos = some '`' := by
      have := hint.2.1
      rwa [Nat.add_sub_cancel] at this
    have h1 : CodePair.charAt st.src (st.pos + 1) = some '`' := hint.2.2
    cases w with
    | nil => simp only [byteLen] at hlen; omega
    | cons a w1 =>
      have ha := charAt_of_slice hsl
      rw [h0] at ha
      simp only [Option.some.injEq] at ha
      subst ha
      have e3 : ('`' : Char).utf8Size = 1 := by decide
      cases w1 with
      | nil => simp only [byteLen, e3] at hlen; omega
      | cons b rest =>
        have hb1 := charAt_next (u := ['`']) (b := b) (v := rest) (a := st.pos) (q := st.posMax)
          (by simpa using hsl)
        simp only [byteLen, e3, Nat.add_zero] at hb1
        rw [h1] at hb1
        simp only [Option.some.injEq] at hb1
        subst hb1
        obtain ⟨hp', hn2, _, hmark⟩ := chain_marks cfg.chain st hwin (.inl hb.2) o0 w' hfr
        cases o0 with
        | some n =>
          exfalso
          have := hsome n rfl
          have := hn2 n rfl
          omega
        | none =>
          have hm := hmark hbt rfl
          -- `st'` carries the code-span cache of `w'`
          have hbk : st'.backticks = w'.backticks := by
            unfold skipStep at hstep
            simp only [hfr] at hstep
            split at hstep
            · simp at hstep
            · simp only [Except.ok.injEq] at hstep
              rw [← hstep]
          rw [hbk]
          simpa using hm

end MdIt.Inline.CS
