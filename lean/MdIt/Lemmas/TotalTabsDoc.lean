/-
  Totality of the whole pipeline for ALL sources (split tabs included), reduced to the totality of the
  inline parser on `C05T.MapT` tables: the document-level lift of `MemoSafeLamCSDoc.lean` without the
  `NoSplitTab` hypothesis, via `Block.PTabsF` (Lemmas/C05TabsFaith.lean, Props/C05Tabs.lean).
-/
import MdIt.Props.C05Tabs
import MdIt.Lemmas.MemoSafeLamCSDoc

namespace MdIt.Pipeline
open MdIt

/-- the content of a placeholder is a faithful excerpt of the document for ANY `get_lines` table
    (`C05T.PFthV`): a backslash-backtick-backtick of the content is one of the source (the stretch
    starts with the solid character backslash and holds no line feed, so `copy` applies to it) -/
theorem noEscTickTick_of_pfthV {src c : List Char} {m : InlineOps.Srcmap} (hf : C05T.PFthV src c m)
    (hw : C05.WFMap m) (hne : Inline.CS.NoEscTickTick src) : Inline.CS.NoEscTickTick c := by
  rintro ⟨s, t, e⟩
  obtain ⟨a, ha⟩ := C05.translate_total m hw (InlineOps.byteLen s)
  obtain ⟨b, hb⟩ := C05.translate_total m hw (InlineOps.byteLen s + InlineOps.byteLen ['\\', '`', '`'])
  have hcut : C05R.Cut c (InlineOps.byteLen s)
      (InlineOps.byteLen s + InlineOps.byteLen ['\\', '`', '`']) ['\\', '`', '`'] :=
    ⟨s, t, e.symm, rfl, rfl⟩
  obtain ⟨p, q, hsrc, _, _⟩ := hf.copy _ _ '\\' ['`', '`'] _ _ _ a b hcut (by decide) (by decide)
    (by decide) (Nat.le_refl _) (Nat.le_refl _) hcut ha hb
  exact hne ⟨p, q, hsrc.symm⟩

/-- every placeholder of the block pass satisfies `Block.PTabsF`, for ALL sources -/
theorem doc_placeholder_ptabsF (cfg : DocCfg) (src : List Char)
    (hsmall : 4 * Lines.byteLen src + 8 < 2147483648) (hpara : cfg.hasPara = true)
    {root : Block.BNode} {refs : Refs.RefMap}
    (hb : Block.parseBlocks cfg.blockCfg src = .ok (root, refs)) :
    Block.AllInl (fun c m => ∃ a b, Block.PTabsF src c m a b) root := by
  obtain ⟨hr, hg⟩ := Block.parseBlocks_geo3 (cfg := cfg.blockCfg) hpara (Block.inlSpec3_ptabsF src) hsmall hb
  exact hg.allInl (fun c m a b h => ⟨a, b, h⟩) (by
    intro c m _ hnone
    rw [hr] at hnone
    cases hnone)

/-- every placeholder table of the block pass is `MapT`, for ALL sources -/
theorem doc_tables_mapT (cfg : DocCfg) (src : List Char)
    (hsmall : 4 * Lines.byteLen src + 8 < 2147483648) (hpara : cfg.hasPara = true)
    {root : Block.BNode} {refs : Refs.RefMap}
    (hb : Block.parseBlocks cfg.blockCfg src = .ok (root, refs)) :
    Block.AllInl (fun c m => C05T.MapT c m) root :=
  allInl_and (fun _ _ ⟨_, _, h⟩ _ => mapT_of_ptabs h.1)
    (doc_placeholder_ptabsF cfg src hsmall hpara hb) (doc_placeholder_ptabsF cfg src hsmall hpara hb)

/-- no placeholder content has a backslash-backtick-backtick when the source has none — ALL sources -/
theorem docNoEscTickTick_all (cfg : DocCfg) (src : List Char)
    (hsmall : 4 * Lines.byteLen src + 8 < 2147483648) (hpara : cfg.hasPara = true)
    (hne : Inline.CS.NoEscTickTick src) : DocNoEscTickTick cfg src := by
  intro root refs hb
  have hall := doc_placeholder_ptabsF cfg src hsmall hpara hb
  exact allInl_and (fun c m ⟨_, _, h⟩ _ => noEscTickTick_of_pfthV h.2.1 h.1.1.1 hne) hall hall

/-- the same with a hypothesis on the paragraph contents instead of the source -/
theorem doc_total_of_inline_mapT' (cfg : DocCfg) (src : List Char)
    (hsmall : 4 * Lines.byteLen src + 8 < 2147483648) (hpara : cfg.hasPara = true)
    (hne : DocNoEscTickTick cfg src)
    (H : ∀ (refs : Refs.RefMap) (c : List Char) (m : InlineOps.Srcmap), C05T.MapT c m →
      Inline.CS.NoEscTickTick c → ∃ cs, Inline.parseInline (cfg.inlineCfg refs) c m = .ok cs) :
    (∃ t, parseDoc cfg src = .ok t) ∧ ∀ x, ∃ html, renderDoc x cfg src = .ok html := by
  apply doc_total_of_inline
  intro root refs hb
  have hmap := doc_tables_mapT cfg src hsmall hpara hb
  have hall : Block.AllInl (fun c m => ∃ cs, Inline.parseInline (cfg.inlineCfg refs) c m = .ok cs) root :=
    allInl_and (fun c m hm hd => H refs c m hm hd) hmap (hne root refs hb)
  exact (placeholders_of_allInl _ (sizeOf root)).1 root (Nat.le_refl _) hall
    (Block.parseBlocks_inlNoRange hb)

/-- the whole pipeline is total as soon as the inline parser is total on `MapT` tables for texts without backslash-backtick-backtick -/
theorem doc_total_of_inline_mapT (cfg : DocCfg) (src : List Char)
    (hsmall : 4 * Lines.byteLen src + 8 < 2147483648) (hpara : cfg.hasPara = true)
    (hne : Inline.CS.NoEscTickTick src)
    (H : ∀ (refs : Refs.RefMap) (c : List Char) (m : InlineOps.Srcmap), C05T.MapT c m →
      Inline.CS.NoEscTickTick c → ∃ cs, Inline.parseInline (cfg.inlineCfg refs) c m = .ok cs) :
    (∃ t, parseDoc cfg src = .ok t) ∧ ∀ x, ∃ html, renderDoc x cfg src = .ok html :=
  doc_total_of_inline_mapT' cfg src hsmall hpara (docNoEscTickTick_all cfg src hsmall hpara hne) H

end MdIt.Pipeline
