/-
  Helper development for `Props/MemoSafe.lean`: L1 — REPLAY of label walks.

  `pwalk src M m en fuel level p` is the label walk of `parse_link_label` (`labelLoop`,
  `Model/Inline.lean`) done on the MEMO ALONE: it follows memo entries, never runs a rule; it ends
  with the verdict of the walk (`done`), at a position without memo entry (`miss`), or at an entry
  that ends beyond `pos_max = M` (`beyond` — the hit the guard of `skipTokenG` is about).

    * `labelLoop_replay`  — where the memo walk ends with a verdict, `labelLoop` over ANY `skip_token`
      that follows memo hits (the model's and the guarded one, at every fuel ≥ 1, at EVERY nesting
      level) returns that verdict at that position and changes nothing: a repeated walk makes the
      same steps and stops at the same place whatever the level;
    * `labelLoop_records` — a completed `labelLoop` leaves a memo on which — and on every extension of
      which — the memo walk from the same start ends with the same verdict at the same position:
      what a walk did is recorded;
    * `pwalk_mono` (more memo), `pwalk_shrink_found` / `pwalk_frame` (smaller `pos_max`: inside the
      label the walk has found it is replayed up to the label end, where the window is empty),
      `pwalk_level_le` (a walk along the same entries at a LOWER bracket level stops no later),
      `pwalk_path` (the positions of a memo walk form a memo path: with `closed_of_path` the frame
      entry condition).
-/
import MdIt.Lemmas.MemoSafeDef

namespace MdIt.Inline
open MdIt.InlineOps (Srcmap getSourcePosFor getMap byteLen slice)

/-- how a label walk over the memo alone ends -/
inductive PW where
  /-- the walk ends with the verdict of `labelLoop` at this position -/
  | done (res : Option Bool) (pos : Nat)
  /-- no memo entry at this position: a rule would have to run -/
  | miss (pos : Nat)
  /-- the memo entry at `pos` ends at `x`, beyond `pos_max` -/
  | beyond (pos x : Nat)
  /-- out of fuel / the window cannot be sliced / `state.pos - 1` underflows -/
  | stuck
  deriving DecidableEq, Repr

/-- `labelLoop` with `skip_token` replaced by the memo lookup -/
def pwalk (src : List Char) (M : Nat) (m : List (Nat × Nat)) (en : Bool) : Nat → Int → Nat → PW
  | 0, _, _ => .stuck
  | fuel + 1, level, p =>
    match slice src p M with
    | .error _ => .stuck
    | .ok [] => .done (some false) p
    | .ok (ch :: _) =>
      if ch = ']' ∧ level - 1 = 0 then .done (some true) p
      else
        let level := if ch = ']' then level - 1 else level
        match m.lookup p with
        | none => .miss p
        | some x =>
          if M < x then .beyond p x
          else if ch = '[' then
            if x = 0 then .stuck
            else if p = x - 1 then pwalk src M m en fuel (level + 1) x
            else if !en then .done none x
            else pwalk src M m en fuel level x
          else pwalk src M m en fuel level x

theorem pwalk_cons {src : List Char} {M : Nat} {m : List (Nat × Nat)} {en : Bool} {n : Nat}
    {level : Int} {p : Nat} {ch : Char} {rest : List Char} (hsl : slice src p M = .ok (ch :: rest)) :
    pwalk src M m en (n + 1) level p =
      if ch = ']' ∧ level - 1 = 0 then .done (some true) p
      else
        match m.lookup p with
        | none => .miss p
        | some x =>
          if M < x then .beyond p x
          else if ch = '[' then
            if x = 0 then .stuck
            else if p = x - 1 then pwalk src M m en n ((if ch = ']' then level - 1 else level) + 1) x
            else if !en then .done none x
            else pwalk src M m en n (if ch = ']' then level - 1 else level) x
          else pwalk src M m en n (if ch = ']' then level - 1 else level) x := by
  rw [pwalk, hsl]

theorem pwalk_nil {src : List Char} {M : Nat} {m : List (Nat × Nat)} {en : Bool} {n : Nat}
    {level : Int} {p : Nat} (hsl : slice src p M = .ok []) :
    pwalk src M m en (n + 1) level p = .done (some false) p := by
  rw [pwalk, hsl]

/-- a `skip_token` that follows memo hits that end inside the window -/
def FollowsHits (skip : IState → Except Panic IState) : Prop :=
  ∀ s x, s.cache.lookup s.pos = some x → x ≤ s.posMax → skip s = .ok { s with pos := x }

theorem followsHits_model (cfg : Cfg) (f : Nat) : FollowsHits (fun s => skipToken cfg (f + 1) s) := by
  intro s x h _
  exact skip_token_memo_hit cfg f s x h

theorem followsHits_guarded (cfg : Cfg) (g : Bool) (f : Nat) :
    FollowsHits (fun s => skipTokenG cfg g (f + 1) s) := by
  intro s x h hle
  simp only
  unfold skipTokenG
  rw [h]
  simp only
  rw [if_neg (by intro hh; omega)]

theorem IState.with_pos_self (st : IState) : { st with pos := st.pos } = st := by cases st; rfl

theorem window_slice (st : IState) : st.window = liftOps (slice st.src st.pos st.posMax) := rfl

/-- **L1, replay**: where the walk over the memo ends with a verdict, `labelLoop` returns it — at any
    nesting level, over the model's or the guarded `skip_token` — and leaves everything but `pos`
    alone (no rule runs, the memo does not grow). -/
theorem labelLoop_replay {skip : IState → Except Panic IState} (hs : FollowsHits skip) (en : Bool) :
    ∀ (n : Nat) (level : Int) (st : IState) (res : Option Bool) (p : Nat),
      pwalk st.src st.posMax st.cache en n level st.pos = .done res p →
      labelLoop skip en n level st = .ok (res, { st with pos := p }) := by
  intro n
  induction n with
  | zero => intro level st res p h; simp [pwalk] at h
  | succ n ih =>
    intro level st res p h
    unfold pwalk at h
    unfold labelLoop
    rw [window_slice]
    cases hsl : slice st.src st.pos st.posMax with
    | error e => rw [hsl] at h; simp at h
    | ok w =>
      rw [hsl] at h
      cases w with
      | nil =>
        simp only [PW.done.injEq] at h
        obtain ⟨rfl, rfl⟩ := h
        simp only [liftOps, liftR]
      | cons ch rest =>
        simp only at h
        simp only [liftOps, liftR]
        by_cases hf : ch = ']' ∧ level - 1 = 0
        · rw [if_pos hf] at h
          simp only [PW.done.injEq] at h
          obtain ⟨rfl, rfl⟩ := h
          rw [if_pos hf]
        · rw [if_neg hf] at h
          rw [if_neg hf]
          cases hl : st.cache.lookup st.pos with
          | none => rw [hl] at h; simp at h
          | some x =>
            rw [hl] at h
            simp only at h
            by_cases hx : st.posMax < x
            · rw [if_pos hx] at h; simp at h
            · rw [if_neg hx] at h
              have hsk := hs st x hl (by omega)
              rw [hsk]
              simp only
              have hrec : ∀ lv, pwalk st.src st.posMax st.cache en n lv x = .done res p →
                  labelLoop skip en n lv { st with pos := x } = .ok (res, { st with pos := p }) := by
                intro lv hh
                have := ih lv { st with pos := x } res p hh
                simpa using this
              by_cases hb : ch = '['
              · rw [if_pos hb] at h
                rw [if_pos hb]
                by_cases hx0 : x = 0
                · rw [if_pos hx0] at h; simp at h
                · rw [if_neg hx0] at h
                  rw [if_neg hx0]
                  by_cases hp : st.pos = x - 1
                  · rw [if_pos hp] at h
                    rw [if_pos hp]
                    exact hrec _ h
                  · rw [if_neg hp] at h
                    rw [if_neg hp]
                    by_cases he : (!en) = true
                    · rw [if_pos he] at h
                      rw [if_pos he]
                      simp only [PW.done.injEq] at h
                      obtain ⟨rfl, rfl⟩ := h
                      rfl
                    · rw [if_neg he] at h
                      rw [if_neg he]
                      exact hrec _ h
              · rw [if_neg hb] at h
                rw [if_neg hb]
                exact hrec _ h

/-! ## recording -/

/-- what a `skip_token` leaves in the memo (its contract on states under `LInv`) -/
def SkipRecHyp (skip : IState → Except Panic IState) : Prop :=
  ∀ s, LInv s → s.pos < s.posMax → ∀ s', skip s = .ok s' →
    LookupMono s.cache s'.cache ∧ s'.cache.lookup s.pos = some s'.pos

/-- **L1, recording**: a completed `labelLoop` leaves a memo on which, and on every extension of
    which, the walk over the memo alone ends with the same verdict at the same position. -/
theorem labelLoop_records {skip : IState → Except Panic IState} (hq : CalmFn skip)
    (hs : SkipHypT skip) (hr : SkipRecHyp skip) (en : Bool) :
    ∀ (n : Nat) (level : Int) (st : IState), LInv st →
      ∀ res st', labelLoop skip en n level st = .ok (res, st') →
        LookupMono st.cache st'.cache ∧
        ∀ c', LookupMono st'.cache c' →
          pwalk st.src st.posMax c' en n level st.pos = .done res st'.pos := by
  intro n
  induction n with
  | zero => intro level st _ res st' h; simp [labelLoop] at h
  | succ n ih =>
    intro level st hi res st' h
    obtain ⟨w, hw, hsl, hlen⟩ := hi.window
    unfold labelLoop at h
    rw [hw] at h
    simp only [liftR] at h
    cases w with
    | nil =>
      simp only [Except.ok.injEq, Prod.mk.injEq] at h
      obtain ⟨rfl, rfl⟩ := h
      exact ⟨LookupMono.refl _, fun _ _ => pwalk_nil hsl⟩
    | cons ch rest =>
      have hlt : st.pos < st.posMax := by
        have := Char.utf8Size_pos ch
        simp only [byteLen] at hlen; omega
      simp only at h
      by_cases hf : ch = ']' ∧ level - 1 = 0
      · rw [if_pos hf] at h
        simp only [Except.ok.injEq, Prod.mk.injEq] at h
        obtain ⟨rfl, rfl⟩ := h
        exact ⟨LookupMono.refl _, fun _ _ => by rw [pwalk_cons hsl, if_pos hf]⟩
      · rw [if_neg hf] at h
        have hsk := hs st hi hlt
        cases hsr : skip st with
        | error e => rw [hsr] at h; simp at h
        | ok st1 =>
          rw [hsr] at h
          simp only at h
          obtain ⟨hm1, hp1, hle1, hb1⟩ := hsk.ok st1 hsr
          have hc1 := hq st st1 hsr
          have hi1 : LInv st1 := hi.step hc1 hm1 hle1 hb1
          obtain ⟨hmono1, hrec1⟩ := hr st hi hlt st1 hsr
          -- the recursive calls
          have hrec : ∀ lv res st', labelLoop skip en n lv st1 = .ok (res, st') →
              LookupMono st.cache st'.cache ∧
              ∀ c', LookupMono st'.cache c' →
                c'.lookup st.pos = some st1.pos ∧
                pwalk st.src st.posMax c' en n lv st1.pos = .done res st'.pos := by
            intro lv res st' hh
            obtain ⟨a, b⟩ := ih lv st1 hi1 res st' hh
            refine ⟨hmono1.trans a, ?_⟩
            intro c' hc'
            have := b c' hc'
            rw [hc1.src, hc1.posMax] at this
            exact ⟨hc' _ _ (a _ _ hrec1), this⟩
          by_cases hb : ch = '['
          · rw [if_pos hb] at h
            by_cases hx0 : st1.pos = 0
            · rw [if_pos hx0] at h; simp at h
            · rw [if_neg hx0] at h
              by_cases hp : st.pos = st1.pos - 1
              · rw [if_pos hp] at h
                obtain ⟨a, b⟩ := hrec _ _ _ h
                refine ⟨a, ?_⟩
                intro c' hc'
                obtain ⟨hl, hw'⟩ := b c' hc'
                rw [pwalk_cons hsl, if_neg hf, hl]
                simp only
                rw [if_neg (by omega), if_pos hb, if_neg hx0, if_pos hp]
                exact hw'
              · rw [if_neg hp] at h
                by_cases he : (!en) = true
                · rw [if_pos he] at h
                  simp only [Except.ok.injEq, Prod.mk.injEq] at h
                  obtain ⟨rfl, rfl⟩ := h
                  refine ⟨hmono1, ?_⟩
                  intro c' hc'
                  have hl : c'.lookup st.pos = some st1.pos := hc' _ _ hrec1
                  rw [pwalk_cons hsl, if_neg hf, hl]
                  simp only
                  rw [if_neg (by omega), if_pos hb, if_neg hx0, if_neg hp, if_pos he]
                · rw [if_neg he] at h
                  obtain ⟨a, b⟩ := hrec _ _ _ h
                  refine ⟨a, ?_⟩
                  intro c' hc'
                  obtain ⟨hl, hw'⟩ := b c' hc'
                  rw [pwalk_cons hsl, if_neg hf, hl]
                  simp only
                  rw [if_neg (by omega), if_pos hb, if_neg hx0, if_neg hp, if_neg he]
                  exact hw'
          · rw [if_neg hb] at h
            obtain ⟨a, b⟩ := hrec _ _ _ h
            refine ⟨a, ?_⟩
            intro c' hc'
            obtain ⟨hl, hw'⟩ := b c' hc'
            rw [pwalk_cons hsl, if_neg hf, hl]
            simp only
            rw [if_neg (by omega), if_neg hb]
            exact hw'

/-! ## the memo walk as a function of the memo, of `pos_max`, of the bracket level -/

/-- more memo: the same verdict -/
theorem pwalk_mono {src : List Char} {M : Nat} {m m' : List (Nat × Nat)} (hm : LookupMono m m')
    (en : Bool) : ∀ (n : Nat) (level : Int) (p : Nat) (res : Option Bool) (x : Nat),
      pwalk src M m en n level p = .done res x → pwalk src M m' en n level p = .done res x := by
  intro n
  induction n with
  | zero => intro level p res x h; simp [pwalk] at h
  | succ n ih =>
    intro level p res x h
    unfold pwalk at h ⊢
    cases hsl : slice src p M with
    | error e => rw [hsl] at h; simp at h
    | ok w =>
      rw [hsl] at h
      cases w with
      | nil => exact h
      | cons ch rest =>
        simp only at h ⊢
        by_cases hf : ch = ']' ∧ level - 1 = 0
        · rw [if_pos hf] at h ⊢; exact h
        · rw [if_neg hf] at h ⊢
          cases hl : m.lookup p with
          | none => rw [hl] at h; simp at h
          | some y =>
            rw [hl] at h
            rw [hm _ _ hl]
            simp only at h ⊢
            by_cases hy : M < y
            · rw [if_pos hy] at h; simp at h
            · rw [if_neg hy] at h ⊢
              by_cases hb : ch = '['
              · rw [if_pos hb] at h ⊢
                by_cases hy0 : y = 0
                · rw [if_pos hy0] at h; simp at h
                · rw [if_neg hy0] at h ⊢
                  by_cases hp : p = y - 1
                  · rw [if_pos hp] at h ⊢; exact ih _ _ _ _ h
                  · rw [if_neg hp] at h ⊢
                    by_cases he : (!en) = true
                    · rw [if_pos he] at h ⊢; exact h
                    · rw [if_neg he] at h ⊢; exact ih _ _ _ _ h
              · rw [if_neg hb] at h ⊢; exact ih _ _ _ _ h

/-- the positions of a memo walk form a memo path, and the walk only goes forward when the memo does -/
theorem pwalk_path {src : List Char} {M : Nat} {m : List (Nat × Nat)} (en : Bool) :
    ∀ (n : Nat) (level : Int) (p : Nat) (res : Option Bool) (x : Nat),
      pwalk src M m en n level p = .done res x → Path m p x := by
  intro n
  induction n with
  | zero => intro level p res x h; simp [pwalk] at h
  | succ n ih =>
    intro level p res x h
    unfold pwalk at h
    cases hsl : slice src p M with
    | error e => rw [hsl] at h; simp at h
    | ok w =>
      rw [hsl] at h
      cases w with
      | nil =>
        simp only [PW.done.injEq] at h; obtain ⟨_, rfl⟩ := h; exact Path.refl _
      | cons ch rest =>
        simp only at h
        by_cases hf : ch = ']' ∧ level - 1 = 0
        · rw [if_pos hf] at h
          simp only [PW.done.injEq] at h; obtain ⟨_, rfl⟩ := h; exact Path.refl _
        · rw [if_neg hf] at h
          cases hl : m.lookup p with
          | none => rw [hl] at h; simp at h
          | some y =>
            rw [hl] at h
            simp only at h
            by_cases hy : M < y
            · rw [if_pos hy] at h; simp at h
            · rw [if_neg hy] at h
              by_cases hb : ch = '['
              · rw [if_pos hb] at h
                by_cases hy0 : y = 0
                · rw [if_pos hy0] at h; simp at h
                · rw [if_neg hy0] at h
                  by_cases hp : p = y - 1
                  · rw [if_pos hp] at h; exact .step hl (ih _ _ _ _ h)
                  · rw [if_neg hp] at h
                    by_cases he : (!en) = true
                    · rw [if_pos he] at h
                      simp only [PW.done.injEq] at h; obtain ⟨_, rfl⟩ := h
                      exact .step hl (Path.refl _)
                    · rw [if_neg he] at h; exact .step hl (ih _ _ _ _ h)
              · rw [if_neg hb] at h; exact .step hl (ih _ _ _ _ h)

/-- a found label end is a `]` inside the window -/
theorem pwalk_found {src : List Char} {M : Nat} {m : List (Nat × Nat)} (en : Bool) :
    ∀ (n : Nat) (level : Int) (p : Nat) (x : Nat),
      pwalk src M m en n level p = .done (some true) x → ∃ r, slice src x M = .ok (']' :: r) := by
  intro n
  induction n with
  | zero => intro level p x h; simp [pwalk] at h
  | succ n ih =>
    intro level p x h
    unfold pwalk at h
    cases hsl : slice src p M with
    | error e => rw [hsl] at h; simp at h
    | ok w =>
      rw [hsl] at h
      cases w with
      | nil => simp at h
      | cons ch rest =>
        simp only at h
        by_cases hf : ch = ']' ∧ level - 1 = 0
        · rw [if_pos hf] at h
          simp only [PW.done.injEq] at h; obtain ⟨_, rfl⟩ := h
          exact ⟨rest, by rw [hsl, hf.1]⟩
        · rw [if_neg hf] at h
          cases hl : m.lookup p with
          | none => rw [hl] at h; simp at h
          | some y =>
            rw [hl] at h
            simp only at h
            by_cases hy : M < y
            · rw [if_pos hy] at h; simp at h
            · rw [if_neg hy] at h
              by_cases hb : ch = '['
              · rw [if_pos hb] at h
                by_cases hy0 : y = 0
                · rw [if_pos hy0] at h; simp at h
                · rw [if_neg hy0] at h
                  by_cases hp : p = y - 1
                  · rw [if_pos hp] at h; exact ih _ _ _ h
                  · rw [if_neg hp] at h
                    by_cases he : (!en) = true
                    · rw [if_pos he] at h; simp at h
                    · rw [if_neg he] at h; exact ih _ _ _ h
              · rw [if_neg hb] at h; exact ih _ _ _ h

/-- the head of a window does not depend on where the window ends -/
theorem slice_head_shrink {src : List Char} {p M M' : Nat} {ch : Char} {rest : List Char}
    (h : slice src p M = .ok (ch :: rest)) (hb : Boundary src M') (hlt : p < M') (_hle : M' ≤ M) :
    ∃ rest', slice src p M' = .ok (ch :: rest') := by
  obtain ⟨hbp, _, hlen⟩ := slice_boundaries h
  obtain ⟨pre, w', post, hsrc, hpre, hw', hsl'⟩ := slice_of_boundaries hbp hb (Nat.le_of_lt hlt)
  obtain ⟨p2, q2, e2, l2, _⟩ := (C05.slice_ok_iff _ _ _ _).mp h
  cases w' with
  | nil => simp only [byteLen] at hw'; omega
  | cons c' r' =>
    refine ⟨r', ?_⟩
    have : c' = ch := by
      have h1 : pre ++ (c' :: r' ++ post) = p2 ++ (ch :: rest ++ q2) := by
        rw [← List.append_assoc, ← hsrc, e2, List.append_assoc]
      have := C05.append_inj_byteLen pre (c' :: r' ++ post) p2 (ch :: rest ++ q2) h1 (by omega)
      have h2 := this.2
      simp only [List.cons_append, List.cons.injEq] at h2
      exact h2.1
    rw [hsl', this]

/-- **smaller `pos_max`, inside the window**: a walk that finds its `]` before `M'` finds it there
    under `pos_max = M'` -/
theorem pwalk_shrink_found {src : List Char} {M M' : Nat} {m : List (Nat × Nat)}
    (hf : ∀ k v, (k, v) ∈ m → k < v) (hb : Boundary src M') (hle : M' ≤ M) (en : Bool) :
    ∀ (n : Nat) (level : Int) (p : Nat) (x : Nat),
      pwalk src M m en n level p = .done (some true) x → x < M' →
      pwalk src M' m en n level p = .done (some true) x := by
  intro n
  induction n with
  | zero => intro level p x h; simp [pwalk] at h
  | succ n ih =>
    intro level p x h hx
    have hpx : p ≤ x := (pwalk_path en _ _ _ _ _ h).le hf
    unfold pwalk at h ⊢
    cases hsl : slice src p M with
    | error e => rw [hsl] at h; simp at h
    | ok w =>
      rw [hsl] at h
      cases w with
      | nil => simp at h
      | cons ch rest =>
        obtain ⟨rest', hsl'⟩ := slice_head_shrink hsl hb (by omega) hle
        rw [hsl']
        simp only at h ⊢
        by_cases hfd : ch = ']' ∧ level - 1 = 0
        · rw [if_pos hfd] at h ⊢; exact h
        · rw [if_neg hfd] at h ⊢
          cases hl : m.lookup p with
          | none => rw [hl] at h; simp at h
          | some y =>
            rw [hl] at h
            simp only at h ⊢
            by_cases hy : M < y
            · rw [if_pos hy] at h; simp at h
            · rw [if_neg hy] at h
              have hyx : ∀ lv, pwalk src M m en n lv y = .done (some true) x → y ≤ x :=
                fun lv hh => (pwalk_path en _ _ _ _ _ hh).le hf
              by_cases hbk : ch = '['
              · rw [if_pos hbk] at h
                by_cases hy0 : y = 0
                · rw [if_pos hy0] at h; simp at h
                · rw [if_neg hy0] at h
                  by_cases hp : p = y - 1
                  · rw [if_pos hp] at h
                    have := hyx _ h
                    rw [if_neg (by omega), if_pos hbk, if_neg hy0, if_pos hp]
                    exact ih _ _ _ h hx
                  · rw [if_neg hp] at h
                    by_cases he : (!en) = true
                    · rw [if_pos he] at h; simp at h
                    · rw [if_neg he] at h
                      have := hyx _ h
                      rw [if_neg (by omega), if_pos hbk, if_neg hy0, if_neg hp, if_neg he]
                      exact ih _ _ _ h hx
              · rw [if_neg hbk] at h
                have := hyx _ h
                rw [if_neg (by omega), if_neg hbk]
                exact ih _ _ _ h hx

/-- **the nested frame**: under `pos_max = x`, the label end it has found, the walk is replayed up to
    `x` and ends there on the empty window (verdict "not found") or earlier with a verdict — it
    never meets a position without entry nor an entry beyond `x`.  (`level' ≥ level`: the nested
    tokenizer's own walks start behind a `[` inside the label.) -/
theorem pwalk_frame {src : List Char} {M : Nat} {m : List (Nat × Nat)}
    (hf : ∀ k v, (k, v) ∈ m → k < v) (en : Bool) :
    ∀ (n : Nat) (level : Int) (p : Nat) (x : Nat),
      pwalk src M m en n level p = .done (some true) x →
      pwalk src x m en n level p = .done (some false) x := by
  intro n
  induction n with
  | zero => intro level p x h; simp [pwalk] at h
  | succ n ih =>
    intro level p x h
    have hpx : p ≤ x := (pwalk_path en _ _ _ _ _ h).le hf
    obtain ⟨r, hr⟩ := pwalk_found en _ _ _ _ h
    have hbx : Boundary src x := (slice_boundaries hr).1
    have hxM : x ≤ M := by have := (slice_boundaries hr).2.2; omega
    unfold pwalk at h
    cases hsl : slice src p M with
    | error e => rw [hsl] at h; simp at h
    | ok w =>
      rw [hsl] at h
      cases w with
      | nil => simp at h
      | cons ch rest =>
        simp only at h
        by_cases hfd : ch = ']' ∧ level - 1 = 0
        · rw [if_pos hfd] at h
          simp only [PW.done.injEq, true_and] at h
          subst h
          obtain ⟨_, w0, _, _, _, hlen, hs0⟩ := slice_of_boundaries hbx hbx (Nat.le_refl _)
          have : w0 = [] := byteLen_eq_zero (by omega)
          subst this
          exact pwalk_nil hs0
        · rw [if_neg hfd] at h
          cases hl : m.lookup p with
          | none => rw [hl] at h; simp at h
          | some y =>
            rw [hl] at h
            simp only at h
            have hpy : p < y := hf _ _ (lookup_mem hl)
            by_cases hy : M < y
            · rw [if_pos hy] at h; simp at h
            · rw [if_neg hy] at h
              have hyx : ∀ lv, pwalk src M m en n lv y = .done (some true) x → y ≤ x :=
                fun lv hh => (pwalk_path en _ _ _ _ _ hh).le hf
              have hcont : ∀ lv, pwalk src M m en n lv y = .done (some true) x →
                  ∃ rest', slice src p x = .ok (ch :: rest') := by
                intro lv hh
                have := hyx lv hh
                exact slice_head_shrink hsl hbx (by omega) hxM
              by_cases hbk : ch = '['
              · rw [if_pos hbk] at h
                by_cases hy0 : y = 0
                · rw [if_pos hy0] at h; simp at h
                · rw [if_neg hy0] at h
                  by_cases hp : p = y - 1
                  · rw [if_pos hp] at h
                    obtain ⟨rest', hsl'⟩ := hcont _ h
                    have := hyx _ h
                    rw [pwalk_cons hsl', if_neg hfd, hl]
                    simp only
                    rw [if_neg (by omega), if_pos hbk, if_neg hy0, if_pos hp]
                    exact ih _ _ _ h
                  · rw [if_neg hp] at h
                    by_cases he : (!en) = true
                    · rw [if_pos he] at h; simp at h
                    · rw [if_neg he] at h
                      obtain ⟨rest', hsl'⟩ := hcont _ h
                      have := hyx _ h
                      rw [pwalk_cons hsl', if_neg hfd, hl]
                      simp only
                      rw [if_neg (by omega), if_pos hbk, if_neg hy0, if_neg hp, if_neg he]
                      exact ih _ _ _ h
              · rw [if_neg hbk] at h
                obtain ⟨rest', hsl'⟩ := hcont _ h
                have := hyx _ h
                rw [pwalk_cons hsl', if_neg hfd, hl]
                simp only
                rw [if_neg (by omega), if_neg hbk]
                exact ih _ _ _ h

/-- **lower bracket level**: along the entries of a walk that finds its `]` at `x`, a walk from the
    same position at a lower level `1 ≤ level' ≤ level` (any nesting flag) ends with a verdict at or
    before `x` — it stays on the recorded entries. -/
theorem pwalk_level_le {src : List Char} {M : Nat} {m : List (Nat × Nat)}
    (hf : ∀ k v, (k, v) ∈ m → k < v) (en en' : Bool) :
    ∀ (n : Nat) (level level' : Int) (p : Nat) (x : Nat), 1 ≤ level' → level' ≤ level →
      pwalk src M m en n level p = .done (some true) x →
      ∃ res' x', pwalk src M m en' n level' p = .done res' x' ∧ x' ≤ x := by
  intro n
  induction n with
  | zero => intro level level' p x _ _ h; simp [pwalk] at h
  | succ n ih =>
    intro level level' p x h1 h2 h
    have hpx : p ≤ x := (pwalk_path en _ _ _ _ _ h).le hf
    unfold pwalk at h ⊢
    cases hsl : slice src p M with
    | error e => rw [hsl] at h; simp at h
    | ok w =>
      rw [hsl] at h
      cases w with
      | nil => simp at h
      | cons ch rest =>
        simp only at h ⊢
        by_cases hfd' : ch = ']' ∧ level' - 1 = 0
        · rw [if_pos hfd']
          exact ⟨_, _, rfl, hpx⟩
        · rw [if_neg hfd']
          by_cases hfd : ch = ']' ∧ level - 1 = 0
          · -- the upper walk stops here: then so does the lower one
            exfalso
            apply hfd'
            refine ⟨hfd.1, ?_⟩
            have := hfd.2
            omega
          · rw [if_neg hfd] at h
            cases hl : m.lookup p with
            | none => rw [hl] at h; simp at h
            | some y =>
              rw [hl] at h
              simp only at h ⊢
              by_cases hy : M < y
              · rw [if_pos hy] at h; simp at h
              · rw [if_neg hy] at h ⊢
                have hyx : ∀ lv, pwalk src M m en n lv y = .done (some true) x → y ≤ x :=
                  fun lv hh => (pwalk_path en _ _ _ _ _ hh).le hf
                -- the levels behind this character
                have hlv1 : 1 ≤ (if ch = ']' then level' - 1 else level') := by
                  split
                  · next hc =>
                    have : ¬ (level' - 1 = 0) := fun h0 => hfd' ⟨hc, h0⟩
                    omega
                  · exact h1
                have hlv2 : (if ch = ']' then level' - 1 else level') ≤
                    (if ch = ']' then level - 1 else level) := by
                  split <;> omega
                by_cases hbk : ch = '['
                · rw [if_pos hbk] at h ⊢
                  by_cases hy0 : y = 0
                  · rw [if_pos hy0] at h; simp at h
                  · rw [if_neg hy0] at h ⊢
                    by_cases hp : p = y - 1
                    · rw [if_pos hp] at h ⊢
                      exact ih _ _ _ _ (by omega) (by omega) h
                    · rw [if_neg hp] at h ⊢
                      by_cases he : (!en) = true
                      · rw [if_pos he] at h; simp at h
                      · rw [if_neg he] at h
                        by_cases he' : (!en') = true
                        · rw [if_pos he']
                          exact ⟨_, _, rfl, hyx _ h⟩
                        · rw [if_neg he']
                          exact ih _ _ _ _ hlv1 hlv2 h
                · rw [if_neg hbk] at h ⊢
                  exact ih _ _ _ _ hlv1 hlv2 h

/-- **fuel**: a memo walk takes one unit of fuel per position it visits, and goes strictly forward —
    any fuel above the distance it covers gives the same verdict (a replay in a nested frame runs on
    LESS fuel than the walk that made the entries) -/
theorem pwalk_fuel {src : List Char} {M : Nat} {m : List (Nat × Nat)}
    (hf : ∀ k v, (k, v) ∈ m → k < v) (en : Bool) :
    ∀ (n : Nat) (level : Int) (p : Nat) (res : Option Bool) (x : Nat),
      pwalk src M m en n level p = .done res x →
      ∀ n', x - p + 1 ≤ n' → pwalk src M m en n' level p = .done res x := by
  intro n
  induction n with
  | zero => intro level p res x h; simp [pwalk] at h
  | succ n ih =>
    intro level p res x h n' hn'
    have hpx : p ≤ x := (pwalk_path en _ _ _ _ _ h).le hf
    cases n' with
    | zero => omega
    | succ n' =>
      unfold pwalk at h ⊢
      cases hsl : slice src p M with
      | error e => rw [hsl] at h; simp at h
      | ok w =>
        rw [hsl] at h
        cases w with
        | nil => exact h
        | cons ch rest =>
          simp only at h ⊢
          by_cases hfd : ch = ']' ∧ level - 1 = 0
          · rw [if_pos hfd] at h ⊢; exact h
          · rw [if_neg hfd] at h ⊢
            cases hl : m.lookup p with
            | none => rw [hl] at h; simp at h
            | some y =>
              rw [hl] at h
              simp only at h ⊢
              have hpy : p < y := hf _ _ (lookup_mem hl)
              by_cases hy : M < y
              · rw [if_pos hy] at h; simp at h
              · rw [if_neg hy] at h ⊢
                have hyx : ∀ lv, pwalk src M m en n lv y = .done res x → y ≤ x :=
                  fun lv hh => (pwalk_path en _ _ _ _ _ hh).le hf
                by_cases hbk : ch = '['
                · rw [if_pos hbk] at h ⊢
                  by_cases hy0 : y = 0
                  · rw [if_pos hy0] at h; simp at h
                  · rw [if_neg hy0] at h ⊢
                    by_cases hp : p = y - 1
                    · rw [if_pos hp] at h ⊢
                      have := hyx _ h
                      exact ih _ _ _ _ h n' (by omega)
                    · rw [if_neg hp] at h ⊢
                      by_cases he : (!en) = true
                      · rw [if_pos he] at h ⊢; exact h
                      · rw [if_neg he] at h ⊢
                        have := hyx _ h
                        exact ih _ _ _ _ h n' (by omega)
                · rw [if_neg hbk] at h ⊢
                  have := hyx _ h
                  exact ih _ _ _ _ h n' (by omega)

end MdIt.Inline
