/-
  C13 tied to SOURCE LINES, the invariant of the instrumented tokenizer (namespace `MdIt.Block.Tr`).

    `tokenize_calls`   for every fuel: a successful `tokenize cfg fuel s` on a state whose table cuts
                       lines out of the source (`SOk`) yields calls `engineCalls cfg fuel s` that form a
                       `Seg`: the reference map is threaded through the `reference` calls (`Thread`),
                       the line ranges are laminar within `[s.line, s'.line]` (`Lam`), every call is a
                       successful `ruleAt` call on a state over the same source whose table has the
                       geometry of the source's own line table (`Good`).
-/
import MdIt.Lemmas.C13TraceDefs

namespace MdIt.Block.Tr
open MdIt.Lines (LineOffset)
open MdIt.Block

/-! ## the geometry of the table -/

/-- `line_start`, `line_end` of an entry -/
def geo (o : LineOffset) : Nat × Nat := (o.lineStart, o.lineEnd)

/-- line `k` of the table starts and ends where line `k` of the source's own table does (containers
    move `first_nonspace` / `indent_nonspace` only) -/
def GeoOk (s : BState) : Prop := s.offs.map geo = (Lines.splitLines s.src).map geo

/-- the state invariant the trace theorems need: every entry cuts a piece of a line out of the source
    (`TableOk`), and it is the line of that index -/
structure SOk (s : BState) : Prop where
  table : TableOk s
  geo : GeoOk s

theorem SOk.congr {s s' : BState} (h : SOk s) (h1 : s'.src = s.src) (h2 : s'.offs = s.offs) : SOk s' := by
  refine ⟨?_, ?_⟩
  · intro k o ho
    rw [h2] at ho; rw [h1]
    exact h.table k o ho
  · unfold GeoOk; rw [h1, h2]; exact h.geo

theorem SOk.of_frame {s s' : BState} (h : SOk s) (hf : Frame s s') : SOk s' := h.congr hf.src hf.offs

theorem sOk_fresh (src : List Char) (k : Kind) (refs : Refs.RefMap) : SOk (BState.fresh src k refs) :=
  ⟨tableOk_fresh src k refs, rfl⟩

theorem geo_set {offs : List LineOffset} {m : Nat} {o x : LineOffset} (ho : offs[m]? = some o)
    (hx : geo x = geo o) : (offs.set m x).map geo = offs.map geo := by
  apply List.ext_getElem?
  intro i
  simp only [List.getElem?_map, List.getElem?_set]
  split
  · rename_i h
    subst h
    obtain ⟨hm, hv⟩ := List.getElem?_eq_some_iff.mp ho
    simp [hm, hx, hv]
  · rfl

theorem bqRewrite_geo {src : List Char} {o o' : LineOffset} {rest : List Char} {le : Bool}
    (h : bqRewrite src o rest = .ok (o', le)) : geo o' = geo o := by
  unfold bqRewrite at h
  crack h
  subst_vars
  rfl

theorem itemRewrite_geo {src : List Char} {o o' : LineOffset} {pos indent : Nat} {re : Bool}
    (h : itemRewrite src o pos = .ok (o', indent, re)) : geo o' = geo o := by
  unfold itemRewrite at h
  crack h
  subst_vars
  rfl

theorem setOff_geo {S S1 : BState} {m : Nat} {o x : LineOffset} (hset : S.setOff m x = .ok S1)
    (ho : S.off m = .ok o) (hx : geo x = geo o) : S1.offs.map geo = S.offs.map geo := by
  obtain ⟨_, rfl⟩ := setOff_ok hset
  exact geo_set (off_ok ho) hx

theorem bqScan_geo {test : Test} (ht : TestPure test) :
    ∀ (fuel : Nat) (S : BState) (m : Nat) (old : List LineOffset) (le : Bool)
      (n : Nat) (old' : List LineOffset) (S' : BState),
      bqScan test fuel S m old le = .ok (n, old', S') → S'.offs.map geo = S.offs.map geo := by
  intro fuel
  induction fuel with
  | zero => intro S m old le n old' S' h; simp [bqScan] at h
  | succ f ih =>
    intro S m old le n old' S' h
    simp only [bqScan] at h
    crack h
    all_goals (try subst_vars)
    · rfl
    · rfl
    · rw [ih _ _ _ _ _ _ _ h]
      exact setOff_geo ‹BState.setOff _ _ _ = _› ‹BState.off _ _ = _› (bqRewrite_geo ‹bqRewrite _ _ _ = _›)
    · rfl
    · have e := ht _ _ ‹test _ = _›
      simp only [e] at *
      have ho := ‹BState.off _ _ = _›
      have hs := ‹BState.setOff _ _ _ = _›
      have key := setOff_geo hs ho rfl
      exact key
    · have e := ht _ _ ‹test _ = _›
      rw [e]
    · have e := ht _ _ ‹test _ = _›
      simp only [e] at *
      rw [ih _ _ _ _ _ _ _ h]
      have ho := ‹BState.off _ _ = _›
      have hs := ‹BState.setOff _ _ _ = _›
      have key := setOff_geo hs ho rfl
      exact key

/-! ## what holds of every call; segments -/

/-- what holds of every call of a trace over the source `src` -/
structure Good (cfg : Cfg) (src : List Char) (c : Call) : Prop where
  /-- it is a successful real-mode call of the rule, as the tokenizer of some budget makes it -/
  fired : ∃ f, ruleAt cfg f c.rule c.pre false = .ok (true, c.post)
  src : c.pre.src = src
  /-- the state it got sees lines of the source: entry `k` of its table cuts a piece out of line `k` -/
  ok : SOk c.pre
  lt : c.pre.line < c.pre.lineMax
  le : c.post.line ≤ c.pre.lineMax
  frame : Frame c.pre c.post

/-- the calls `cs` lead from the map `m` to the map `m'`, lie laminar in the lines `[a, b]`, and are
    all `Good` -/
structure Seg (cfg : Cfg) (src : List Char) (m m' : Refs.RefMap) (a b : Nat) (cs : Calls) : Prop where
  thread : Thread cfg m m' cs
  lam : Lam a b cs
  good : ∀ c ∈ cs, Good cfg src c

theorem Seg.nil {cfg : Cfg} {src : List Char} {m : Refs.RefMap} {a b : Nat} (h : a ≤ b) :
    Seg cfg src m m a b [] := ⟨rfl, Lam.nil h, by simp⟩

theorem Seg.append {cfg : Cfg} {src : List Char} {m m₁ m₂ : Refs.RefMap} {a b b' c : Nat} {cs₁ cs₂ : Calls}
    (h₁ : Seg cfg src m m₁ a b cs₁) (h₂ : Seg cfg src m₁ m₂ b' c cs₂) (hb : b ≤ b') :
    Seg cfg src m m₂ a c (cs₁ ++ cs₂) := by
  refine ⟨h₁.thread.append h₂.thread, h₁.lam.append h₂.lam hb, ?_⟩
  intro x hx
  rcases List.mem_append.mp hx with hx | hx
  · exact h₁.good x hx
  · exact h₂.good x hx

theorem Seg.widen {cfg : Cfg} {src : List Char} {m m' : Refs.RefMap} {a b a' b' : Nat} {cs : Calls}
    (h : Seg cfg src m m' a b cs) (ha : a' ≤ a) (hb : b ≤ b') : Seg cfg src m m' a' b' cs :=
  ⟨h.thread, h.lam.widen ha hb, h.good⟩

/-- a call of a rule other than `reference`, with its nested calls -/
theorem Seg.call {cfg : Cfg} {src : List Char} {c : Call} {cs : Calls}
    (hg : Good cfg src c) (hlt : c.start < c.stop) (hr : c.rule ≠ .reference)
    (hcs : cs = [] ∨ isContainer c.rule = true)
    (h : Seg cfg src c.pre.refs c.post.refs c.start c.stop cs) :
    Seg cfg src c.pre.refs c.post.refs c.start c.stop (c :: cs) := by
  refine ⟨h.thread.cons_other hr, Lam.cons (Nat.le_refl _) hlt (Nat.le_refl _) hcs h.lam, ?_⟩
  intro x hx
  rcases List.mem_cons.mp hx with rfl | hx
  · exact hg
  · exact h.good x hx

/-- the nested tokenizer, with the calls `tokTr` ascribes to it -/
def TokInv (cfg : Cfg) (tok : Tok) (tokTr : TokTr) : Prop :=
  ∀ s s', tok s = .ok s' → SOk s → s.line ≤ s.lineMax →
    Seg cfg s.src s.refs s'.refs s.line s'.line (tokTr s)

/-! ## the reference rule -/

/-- **the reference rule, located**: a successful call read the lines `s.line .. n` (`n` = where the
    paragraph-continuation scan stopped) through the view of its container, `refParse` made the
    definition `d` of the trimmed text, the rule consumed the `lines + 1` lines of the definition
    itself, and performed exactly one `Refs.addDef` with `d` -/
theorem reference_located {cfg : Cfg} {test : Test} (ht : TestPure test) {fuel : Nat} {s s' : BState}
    (h : referenceRule cfg test fuel s false = .ok (true, s')) (hl : s.line < s.lineMax)
    (hT : TableOk s) :
    ∃ d : Refs.Def, IsDefAt cfg s s' d ∧ s'.refs = Refs.addDef cfg.N s.refs d := by
  unfold referenceRule at h
  crack h
  rename_i raw href title lines hparse hne
  have hscan := ‹lazyScan _ _ _ _ _ = _›
  have hgl := ‹BState.getLines _ _ _ _ _ = _›
  obtain ⟨h1, h2, h3, _⟩ := lazyScan_spec ht false _ _ _ _ hscan
  rw [h1] at hgl
  have hn := getLines_nl hT hgl
  have hlines := refParse_lines hparse
  have htrim := nl_trimStr ‹List Char × List (Nat × Nat)›.1
  have hmax := h3 hl
  have hne' : (Refs.normalize cfg.L cfg.U raw).isEmpty = false := by simpa using hne
  subst_vars
  refine ⟨⟨raw, ⟨href, title⟩⟩, ⟨_, _, _, lines, ?_, ?_, hmax, hgl, hparse, ?_⟩, ?_⟩
  · simp
  · simp; omega
  · simpa [Cfg.N] using hne'
  · simp [Refs.addDef, Cfg.N, hne']

/-! ## one call -/

theorem good_call {cfg : Cfg} {r : RuleId} {s s' : BState}
    (hf : ∃ f, ruleAt cfg f r s false = .ok (true, s')) (hS : SOk s) (hl : s.line < s.lineMax)
    (ha : Advanced s s') : Good cfg s.src (r, s, s') :=
  ⟨hf, rfl, hS, hl, ha.le hS.table, ha.frame⟩

/-- a call of a rule that neither nests nor touches the map -/
theorem seg_leaf {cfg : Cfg} {r : RuleId} {s s' : BState} (hg : Good cfg s.src (r, s, s'))
    (hlt : s.line < s'.line) (hr : r ≠ .reference) (hrefs : s'.refs = s.refs) :
    Seg cfg s.src s.refs s'.refs s.line s'.line [(r, s, s')] := by
  have h0 : Seg cfg s.src s.refs s'.refs s.line s'.line [] := by
    rw [hrefs]; exact Seg.nil (by omega)
  exact Seg.call (c := (r, s, s')) hg hlt hr (.inl rfl) h0

/-- a call of the reference rule -/
theorem seg_reference {cfg : Cfg} {s s' : BState} (hg : Good cfg s.src (.reference, s, s'))
    (hlt : s.line < s'.line)
    (hd : ∃ d : Refs.Def, IsDefAt cfg s s' d ∧ s'.refs = Refs.addDef cfg.N s.refs d) :
    Seg cfg s.src s.refs s'.refs s.line s'.line [(.reference, s, s')] := by
  refine ⟨?_, ?_, ?_⟩
  · rw [Thread, if_pos (by rfl)]
    exact ⟨rfl, hd, rfl⟩
  · exact Lam.cons (c := (.reference, s, s')) (Nat.le_refl _) hlt (Nat.le_refl _) (.inl rfl)
      (Lam.nil (by simp; omega))
  · intro x hx
    simp only [List.mem_singleton] at hx
    subst hx
    exact hg

/-! ## block quote -/

theorem blockquote_inner {cfg : Cfg} {tok : Tok} {tokTr : TokTr} {test : Test} (hinv : TokInv cfg tok tokTr)
    (ht : TestPure test) {fuel : Nat} {s s' : BState}
    (h : blockquoteRule tok test fuel s false = .ok (true, s')) (hS : SOk s) :
    Seg cfg s.src s.refs s'.refs s.line s'.line (bqCalls tokTr test fuel s) := by
  unfold blockquoteRule at h
  crack h
  rename_i ind hind _ line hline hhead scan hscan s2 htok lvl hlvl offs hoffs e he r hr
  obtain ⟨n, old', S'⟩ := scan
  obtain ⟨hsb, hmn, hup, _, hT, add, hadd, hrest⟩ := bqScan_spec ht _ _ _ _ _ _ _ _ hscan
  have hgeo := bqScan_geo ht _ _ _ _ _ _ _ _ hscan
  simp only at htok hlvl hoffs he hr ⊢
  have hcalls : bqCalls tokTr test fuel s = tokTr (bqNest S' s.line n) := by
    simp only [bqCalls, hscan]
  rw [hcalls]
  have hin : SOk (bqNest S' s.line n) := by
    refine ⟨fun k o ho => hT hS.table k o ho, ?_⟩
    unfold GeoOk
    simp only
    rw [hgeo, hsb.src]
    exact hS.geo
  have P := hinv _ _ htok hin (by simpa using hmn)
  generalize tokTr (bqNest S' s.line n) = cs at P ⊢
  simp only [hsb.src, hsb.refs] at P
  exact P

/-! ## list -/

theorem listItemBody_inner {cfg : Cfg} {tok : Tok} {tokTr : TokTr} (hinv : TokInv cfg tok tokTr)
    {S2 S3 : BState} {m : Nat} {re : Bool} (h : listItemBody tok S2 m re = .ok S3) (hS2 : SOk S2)
    (hle : m ≤ S2.lineMax) (hprog : m ≤ S3.line) :
    Seg cfg S2.src S2.refs S3.refs m S3.line
      (if re = true ∧ S2.isEmpty (m + 1) = true then []
       else tokTr { S2 with line := m, level := S2.level + 1 }) := by
  unfold listItemBody at h
  crack h
  · rename_i hcond
    rw [if_pos hcond]
    subst_vars
    exact Seg.nil hprog
  · rename_i hcond s2 htok lvl hlvl
    rw [if_neg hcond]
    subst_vars
    exact hinv _ _ htok (hS2.congr rfl rfl) hle

theorem listItem_inner {cfg : Cfg} {tok : Tok} {tokTr : TokTr} (hk : TokSpec tok) (hinv : TokInv cfg tok tokTr)
    {S S' : BState} {m pos : Nat} {pee tight pee' tight' : Bool}
    (h : listItem tok S m pos pee tight = .ok (S', tight', pee')) (hline : S.line = m)
    (hlt : m < S.lineMax) (hS : SOk S) :
    Seg cfg S.src S.refs S'.refs m S'.line (itemCalls tokTr S m pos) := by
  obtain ⟨_, hprog, _⟩ := listItem_spec hk h hline hlt
  generalize hL : S'.line = L at hprog ⊢
  generalize hR : S'.refs = R
  unfold listItem at h
  crack h
  rename_i o ho rw hrw S2 hS2 S3 hbody _ li hli S5 hS5 e _ r _ hS' _ _
  obtain ⟨o', indent, re⟩ := rw
  subst hS'
  have hS2' := hS2
  obtain ⟨hm, hS2eq⟩ := setOff_ok hS2
  obtain ⟨hm5, rfl⟩ := setOff_ok hS5
  simp only at hS2 hS2' hS2eq hbody hL hR
  subst hL hR
  have hok2 : SOk S2 := by
    refine ⟨?_, ?_⟩
    · refine TableOk.setOff (s := itemNest S indent) (fun k o ho => hS.table k o ho) hS2 ?_
      exact (itemRewrite_spec hrw).1 (hS.table _ _ (off_ok ho))
    · unfold GeoOk
      rw [hS2eq]
      simp only
      rw [geo_set (off_ok ho) (itemRewrite_geo hrw)]
      exact hS.geo
  have hsrc2 : S2.src = S.src := by rw [hS2eq]
  have hrefs2 : S2.refs = S.refs := by rw [hS2eq]
  have hmax2 : S2.lineMax = S.lineMax := by rw [hS2eq]
  have hcalls : itemCalls tokTr S m pos =
      (if re = true ∧ S2.isEmpty (m + 1) = true then []
       else tokTr { S2 with line := m, level := S2.level + 1 }) := by
    simp only [itemCalls, ho, hrw, hS2']
  rw [hcalls]
  have P := listItemBody_inner hinv hbody hok2 (by omega) (by omega)
  rw [← hsrc2, ← hrefs2]
  exact P

theorem listLoop_inner {cfg : Cfg} {tok : Tok} {tokTr : TokTr} {test : Test} (hk : TokSpec tok)
    (hinv : TokInv cfg tok tokTr) (ht : TestPure test) {ordered : Bool} {mc : Char} :
    ∀ (fuel : Nat) (S : BState) (m pos : Nat) (pee tight : Bool) (n : Nat) (tight' : Bool) (S' : BState),
      listLoop tok test ordered mc fuel S m pos pee tight = .ok (n, tight', S') →
      S.line = m → m < S.lineMax → SOk S →
      Seg cfg S.src S.refs S'.refs m n (listLoopCalls tokTr tok test ordered mc fuel S m pos pee tight) := by
  intro fuel
  induction fuel with
  | zero => intro S m pos pee tight n tight' S' h; simp [listLoop] at h
  | succ f ih =>
    intro S m pos pee tight n tight' S' h hline hlt hS
    simp only [listLoop] at h
    crack h
    all_goals (try subst_vars)
    · rename_i wi wc hc _ hnone _ hitem
      obtain ⟨S1, t1, p1⟩ := wi
      obtain ⟨c, S2⟩ := wc
      obtain ⟨hfr, h1, h2⟩ := listItem_spec hk hitem rfl hlt
      obtain ⟨rfl, _⟩ := listContinue_spec ht hc
      simp only at hnone hc
      subst hnone
      have hcalls : listLoopCalls tokTr tok test ordered mc (f + 1) S S.line pos pee tight =
          itemCalls tokTr S S.line pos ++ [] := by
        simp only [listLoopCalls, hitem, hc]
        rw [if_neg (by omega)]
      rw [hcalls, List.append_nil]
      exact listItem_inner hk hinv hitem rfl hlt hS
    · rename_i wi wc hc _ p hsome _ hitem
      obtain ⟨S1, t1, p1⟩ := wi
      obtain ⟨c, S2⟩ := wc
      obtain ⟨hfr, h1, h2⟩ := listItem_spec hk hitem rfl hlt
      obtain ⟨rfl, hc2⟩ := listContinue_spec ht hc
      simp only at hsome h hc2 hc
      subst hsome
      have hlt2 := hc2 (by simp)
      have hcalls : listLoopCalls tokTr tok test ordered mc (f + 1) S S.line pos pee tight =
          itemCalls tokTr S S.line pos ++
            listLoopCalls tokTr tok test ordered mc f S2 S2.line p p1 t1 := by
        simp only [listLoopCalls, hitem, hc]
        rw [if_neg (by omega)]
      rw [hcalls]
      have P1 := listItem_inner hk hinv hitem rfl hlt hS
      have P2 := ih _ _ _ _ _ _ _ _ h rfl hlt2 (hS.of_frame hfr)
      rw [hfr.src] at P2
      exact P1.append P2 (Nat.le_refl _)

theorem list_inner {cfg : Cfg} {tok : Tok} {tokTr : TokTr} {test : Test} (hk : TokSpec tok)
    (hinv : TokInv cfg tok tokTr) (ht : TestPure test) {fuel : Nat} {s s' : BState}
    (h : listRule tok test fuel s false = .ok (true, s')) (hl : s.line < s.lineMax) (hS : SOk s) :
    Seg cfg s.src s.refs s'.refs s.line s'.line (listCalls tokTr tok test fuel s) := by
  unfold listRule at h
  crack h
  all_goals (
    rename_i wl hloop _ _ _ _ _ _ _ _
    obtain ⟨n, t, S'⟩ := wl
    have hcur := ‹BState.getLine _ _ = _›
    have hdet := ‹detectMarker _ = _›
    have hmc := ‹markerCharOf _ _ = _›
    obtain ⟨_, h1, _, _⟩ := listLoop_spec hk ht _ _ _ _ _ _ _ _ _ hloop rfl hl
    have P := listLoop_inner hk hinv ht _ _ _ _ _ _ _ _ _ hloop rfl hl (hS.congr rfl rfl)
    simp only [listCalls, hcur, hdet, hmc]
    simp only [h1]
    exact P)

/-! ## one rule of the chain -/

/-- the head call of a chain is a call of `ruleAt` -/
def FiredBy (cfg : Cfg) (run : RuleId → BState → Bool → Res) : Prop :=
  ∀ r s s', run r s false = .ok (true, s') → ∃ f, ruleAt cfg f r s false = .ok (true, s')

/-- what the tokenizer loop needs of the chain it runs and of the calls ascribed to it -/
def RuleSeg (cfg : Cfg) (run : RuleId → BState → Bool → Res) (inner : RuleId → BState → Calls) : Prop :=
  ∀ r s s', run r s false = .ok (true, s') → s.line < s.lineMax → IndentOk s → SOk s →
    Seg cfg s.src s.refs s'.refs s.line s'.line ((r, s, s') :: inner r s)

theorem runRule_seg {cfg : Cfg} {tok : Tok} {tokTr : TokTr} {test : Test} (hk : TokSpec tok)
    (hinv : TokInv cfg tok tokTr) (ht : TestPure test) (fuel : Nat)
    (hfired : FiredBy cfg (runRule cfg tok test fuel)) :
    RuleSeg cfg (runRule cfg tok test fuel) (ruleCalls tokTr tok test fuel) := by
  intro r s s' h hl hi hS
  have ha := (runRule_spec (cfg := cfg) hk ht fuel).advanced r s s' h hl hi
  have hg : Good cfg s.src (r, s, s') := good_call (hfired r s s' h) hS hl ha
  cases r <;> simp only [runRule] at h <;> simp only [ruleCalls]
  · exact seg_leaf hg ha.lt (by decide) (code_refs h)
  · exact seg_leaf hg ha.lt (by decide) (fence_refs h)
  · exact Seg.call (c := (.blockquote, s, s')) hg ha.lt (by simp) (.inr rfl)
      (blockquote_inner hinv ht h hS)
  · exact seg_leaf hg ha.lt (by decide) (hr_refs h)
  · exact Seg.call (c := (.list, s, s')) hg ha.lt (by simp) (.inr rfl)
      (list_inner hk hinv ht h hl hS)
  · exact seg_reference hg ha.lt (reference_located ht h hl hS.table)
  · exact seg_leaf hg ha.lt (by decide) (heading_refs h)
  · exact seg_leaf hg ha.lt (by decide) (lheading_refs ht h)
  · exact seg_leaf hg ha.lt (by decide) (paragraph_refs ht h)

/-! ## the chain -/

theorem chain_seg {cfg : Cfg} {run : RuleId → BState → Bool → Res} {inner : RuleId → BState → Calls}
    (hr : RunSpec run) (hrule : RuleSeg cfg run inner) :
    ∀ (chain : List RuleId) (s : BState) (b : Bool) (s' : BState),
      runChain run chain s false = .ok (b, s') → s.line < s.lineMax → IndentOk s → SOk s →
      (b = false → chainCalls run inner chain s = []) ∧
      (b = true → Seg cfg s.src s.refs s'.refs s.line s'.line (chainCalls run inner chain s)) := by
  intro chain
  induction chain with
  | nil =>
    intro s b s' h _ _ _
    simp [runChain] at h
    simp [h.1, chainCalls]
  | cons r rs ih =>
    intro s b s' h hl hi hS
    simp only [runChain] at h
    split at h
    · cases h
    · rename_i s1 h1
      cases h
      refine ⟨by simp, fun _ => ?_⟩
      simp only [chainCalls, h1]
      exact hrule _ _ _ h1 hl hi hS
    · rename_i s1 h1
      have := hr.false_same _ _ _ h1
      subst this
      simp only [chainCalls, h1]
      exact ih _ _ _ h hl hi hS

/-! ## the tokenizer loop -/

/-- `tokLoopCalls` along the path on which the chain runs -/
theorem tokLoopCalls_iter {cfg : Cfg} {run : RuleId → BState → Bool → Res}
    {inner : RuleId → BState → Calls} {fuel : Nat} {he : Bool} {s : BState} {l' : Nat}
    (hl' : Lines.skipEmptyLines s.offs s.lineMax s.line = l') (h1 : s.line < s.lineMax)
    (h2 : ¬ l' ≥ s.lineMax) {ind : Int}
    (h3 : BState.lineIndent { s with line := l' } l' = .ok ind) (h4 : ¬ ind < 0)
    (h5 : ¬ s.level ≥ cfg.maxNesting) {w : Bool × BState}
    (h6 : runChain run cfg.chain { s with line := l' } false = .ok w) {s3 : BState}
    (h7 : afterChain w.1 w.2 l' = .ok s3) {l1 : Nat} (h8 : psub s3.line 1 = .ok l1) :
    tokLoopCalls cfg run inner (fuel + 1) he s =
      chainCalls run inner cfg.chain { s with line := l' } ++
        (if s3.line < s3.lineMax ∧ BState.isEmpty { s3 with tight := !he } s3.line = true then
          tokLoopCalls cfg run inner fuel true { s3 with tight := !he, line := s3.line + 1 }
        else tokLoopCalls cfg run inner fuel (he || BState.isEmpty { s3 with tight := !he } l1)
          { s3 with tight := !he }) := by
  obtain ⟨ok, s2⟩ := w
  simp only at h7
  simp only [tokLoopCalls, hl']
  rw [if_neg (by omega), if_neg h2]
  simp only [h3]
  rw [if_neg h4, if_neg h5]
  simp only [h6, h7, h8]

theorem tokLoopCalls_nil1 {cfg : Cfg} {run : RuleId → BState → Bool → Res}
    {inner : RuleId → BState → Calls} {fuel : Nat} {he : Bool} {s : BState}
    (h1 : ¬ s.line < s.lineMax) : tokLoopCalls cfg run inner (fuel + 1) he s = [] := by
  simp [tokLoopCalls, h1]

theorem tokLoopCalls_nil2 {cfg : Cfg} {run : RuleId → BState → Bool → Res}
    {inner : RuleId → BState → Calls} {fuel : Nat} {he : Bool} {s : BState} {l' : Nat}
    (hl' : Lines.skipEmptyLines s.offs s.lineMax s.line = l')
    (h2 : l' ≥ s.lineMax) : tokLoopCalls cfg run inner (fuel + 1) he s = [] := by
  simp [tokLoopCalls, hl', h2]

theorem tokLoopCalls_nil3 {cfg : Cfg} {run : RuleId → BState → Bool → Res}
    {inner : RuleId → BState → Calls} {fuel : Nat} {he : Bool} {s : BState} {l' : Nat}
    (hl' : Lines.skipEmptyLines s.offs s.lineMax s.line = l') {ind : Int}
    (h3 : BState.lineIndent { s with line := l' } l' = .ok ind)
    (h4 : ind < 0 ∨ s.level ≥ cfg.maxNesting) : tokLoopCalls cfg run inner (fuel + 1) he s = [] := by
  simp only [tokLoopCalls, hl', h3]
  rcases h4 with h4 | h4 <;> simp [h4]

/-- one iteration in which the chain runs -/
theorem iter_seg {cfg : Cfg} {run : RuleId → BState → Bool → Res} {inner : RuleId → BState → Calls}
    (hr : RunSpec run) (hrule : RuleSeg cfg run inner) {chain : List RuleId} {s1 : BState}
    {w : Bool × BState} {s3 : BState} (hchain : runChain run chain s1 false = .ok w)
    (hafter : afterChain w.1 w.2 s1.line = .ok s3) (hlt : s1.line < s1.lineMax) (hi : IndentOk s1)
    (hS1 : SOk s1) :
    Seg cfg s1.src s1.refs s3.refs s1.line s3.line (chainCalls run inner chain s1) := by
  obtain ⟨b, s2⟩ := w
  have hc := chain_seg hr hrule _ _ _ _ hchain hlt hi hS1
  obtain ⟨hf1, _⟩ := runChain_real hr _ _ _ _ hchain
  obtain ⟨_, ht3, hf3⟩ := afterChain_spec hafter
  have hrefs := afterChain_refs hafter
  simp only at hafter ht3 hf3 hrefs
  cases b with
  | true =>
    obtain ⟨rfl, _⟩ := ht3 rfl
    exact hc.2 rfl
  | false =>
    have e := hf1 rfl
    subst e
    rw [hc.1 rfl, hrefs]
    exact Seg.nil (by have := hf3 rfl; omega)

theorem tokLoop_seg {cfg : Cfg} {run : RuleId → BState → Bool → Res} {inner : RuleId → BState → Calls}
    (hr : RunSpec run) (hrule : RuleSeg cfg run inner) :
    ∀ (fuel : Nat) (he : Bool) (s s' : BState), tokLoop cfg run fuel he s = .ok s' → SOk s →
      s.line ≤ s.lineMax →
      Seg cfg s.src s.refs s'.refs s.line s'.line (tokLoopCalls cfg run inner fuel he s) := by
  intro fuel
  induction fuel with
  | zero => intro he s s' h; simp [tokLoop] at h
  | succ f ih =>
    intro he s s' h hS hle
    have hpost := tokLoop_spec hr _ _ _ _ h
    simp only [tokLoop] at h
    obtain ⟨hs1, hs2, hs3, hs4⟩ := skipEmpty_spec s.offs s.lineMax s.line
    generalize hl' : Lines.skipEmptyLines s.offs s.lineMax s.line = l' at h hs1 hs2 hs3 hs4
    crack h
    · rw [tokLoopCalls_nil1 ‹_›]
      subst_vars
      exact Seg.nil (Nat.le_refl _)
    · rw [tokLoopCalls_nil2 hl' ‹_›]
      subst_vars
      exact Seg.nil hs1
    · rw [tokLoopCalls_nil3 hl' ‹BState.lineIndent _ _ = _› (.inl ‹_›)]
      subst_vars
      exact Seg.nil hs1
    · rw [tokLoopCalls_nil3 hl' ‹BState.lineIndent _ _ = _› (.inr ‹_›)]
      subst_vars
      exact Seg.nil (by simp only; omega)
    · rename_i hlt hnl ind hind hind0 hlvl w hchain s3 hafter l1 hpsub hcond
      have hlt' : s.line < s.lineMax := by omega
      have hS1 : SOk { s with line := l' } := hS.congr rfl rfl
      have hi1 : IndentOk { s with line := l' } := ⟨_, hind, by omega⟩
      obtain ⟨h13, hlt3, hle3⟩ := tok_iter hr (s1 := { s with line := l' }) rfl (by simp only; omega)
        hi1 hchain hafter
      have seg1 := iter_seg (inner := inner) hr hrule hchain hafter (by simp only; omega) hi1 hS1
      rw [tokLoopCalls_iter hl' hlt' hnl hind hind0 hlvl hchain hafter hpsub, if_pos hcond]
      have P2 := ih _ _ _ h ((hS1.of_frame h13).congr rfl rfl) (by simp only; omega)
      generalize tokLoopCalls cfg run inner f true _ = cs2 at P2 ⊢
      have e3 : s3.src = s.src := h13.src
      simp only [e3] at P2
      exact (seg1.append P2 (by omega)).widen hs1 (Nat.le_refl _)
    · rename_i hlt hnl ind hind hind0 hlvl w hchain s3 hafter l1 hpsub hcond
      have hlt' : s.line < s.lineMax := by omega
      have hS1 : SOk { s with line := l' } := hS.congr rfl rfl
      have hi1 : IndentOk { s with line := l' } := ⟨_, hind, by omega⟩
      obtain ⟨h13, hlt3, hle3⟩ := tok_iter hr (s1 := { s with line := l' }) rfl (by simp only; omega)
        hi1 hchain hafter
      have seg1 := iter_seg (inner := inner) hr hrule hchain hafter (by simp only; omega) hi1 hS1
      rw [tokLoopCalls_iter hl' hlt' hnl hind hind0 hlvl hchain hafter hpsub, if_neg hcond]
      have hle4 := hle3 hS1.table
      have e4 : s3.lineMax = s.lineMax := h13.lineMax
      have P2 := ih _ _ _ h ((hS1.of_frame h13).congr rfl rfl) (by simp only at hle4 ⊢; omega)
      generalize tokLoopCalls cfg run inner f _ _ = cs2 at P2 ⊢
      have e3 : s3.src = s.src := h13.src
      simp only [e3] at P2
      exact (seg1.append P2 (Nat.le_refl _)).widen hs1 (Nat.le_refl _)

/-! ## the tokenizer, for every fuel -/

/-- **the invariant of the instrumented tokenizer** -/
theorem tokenize_calls (cfg : Cfg) : ∀ fuel : Nat, TokInv cfg (tokenize cfg fuel) (engineCalls cfg fuel) := by
  intro fuel
  induction fuel with
  | zero => intro s s' h; simp [tokenize, engine] at h
  | succ f ih =>
    intro s s' h hS hle
    simp only [tokenize, engine] at h
    have hk := tokenize_tokSpec cfg f
    have ht := testRules_pure cfg f
    exact tokLoop_seg (runRule_spec hk ht _)
      (runRule_seg hk ih ht (f + 1) (fun r s s' h => ⟨f, h⟩)) _ _ _ _ h hS hle

end MdIt.Block.Tr
