/-
  C05, inline half, step (3)/(4) of the OPEN block of Props/C05Doc.lean: transport of the geometry
  through the three passes behind the block pass, on the full `Pipeline.Node` tree.

    * `c05s_ofInline_every` / `c05s_ofInlineList_ordered`   `Inline.WellRanged` / `Inline.OrderedN` on the
                                 inline parser's nodes become `Every (NodeOrdB B)` / `OrderedD` on the
                                 document's nodes (`ofInline` keeps every range)
    * `c05s_spliceNode_ord` / `c05s_spliceList_ord`   the splice walk maps `OrderedB (PInl icfg) lo hi cs`
                                 to `OrderedD lo hi out`; the children a placeholder is replaced by sit
                                 inside the placeholder's stretch
    * `c05s_fragmentsJoin_ord`   `fragments_join` keeps `OrderedD lo hi` (a merged text takes the hull
                                 of two ADJACENT members, emptied texts are dropped)
      `c05s_joinNode_every`      `Every (NodeOrd src)` is kept by the join pass
    * `c05s_sourceposNode_every` … and by the sourcepos pass (attributes only)
    * `afterBlocks_nodeOrd`      the composition

    * `parseBlocks_inlNoRange`   (namespace `MdIt.Block`) every tree of the block pass is `InlNoRange`
    * `parseDoc_nodeOrd`         both together for `parseDoc`, given `InlSpec _ (PInl _)`

  The one extra hypothesis of `afterBlocks_nodeOrd` is `InlNoRange root`: a node of the block tree
  whose VALUE is the `InlineRoot` placeholder carries no range.  `spliceList` replaces a child by its
  KIND alone, whereas `RangedB` / `SpanB` speak about the placeholder claim `P` only for a node
  WITHOUT range (for a node with a range `SpanB` is just that range), so `RangedB` says nothing about
  the text of a ranged node whose kind is `inlineRoot` — and the hypothesis is needed (witness
  `c05s_badRoot` below).  Neither `RangedB` nor `WFB` (Props/Pipeline.lean: `LocB` never mentions a
  range; the children of a list item are only `≠ listItem`) excludes such a node, so it is proved
  here of `parseBlocks` by its own induction over the block tokenizer (second half of the file; the
  scheme of `parseBlocks_wf`): every producer builds placeholders as `⟨.inlineRoot c m, none, []⟩`.
-/
import MdIt.Lemmas.C05InlineDefs

namespace MdIt.Pipeline
open MdIt.Block (Bd)

/-! ## the predicates -/

/-- `NodeOrd` with the bound as a number -/
def NodeOrdB (B : Nat) (n : Node) : Prop :=
  ∃ a b, n.range = some (a, b) ∧ a ≤ b ∧ b ≤ B ∧ OrderedD a b n.children

theorem nodeOrd_iff (src : List Char) (n : Node) : NodeOrd src n ↔ NodeOrdB (Lines.byteLen src) n :=
  Iff.rfl

/-- a node of the block tree whose value is the `InlineRoot` placeholder has no range; at every
    node -/
inductive InlNoRange : Block.BNode → Prop
  | mk (n : Block.BNode) : (∀ c m, n.kind = .inlineRoot c m → n.range = none) →
    (∀ c ∈ n.children, InlNoRange c) → InlNoRange n

theorem InlNoRange.at {n : Block.BNode} (h : InlNoRange n) :
    ∀ c m, n.kind = .inlineRoot c m → n.range = none := by
  cases h; assumption
theorem InlNoRange.child {n : Block.BNode} (h : InlNoRange n) : ∀ c ∈ n.children, InlNoRange c := by
  cases h; assumption

/-! ## `OrderedD` -/

theorem OrderedD.le {lo hi : Nat} {l : List Node} (h : OrderedD lo hi l) : lo ≤ hi := by
  induction l generalizing lo with
  | nil => exact h
  | cons n r ih =>
    obtain ⟨a, b, _, h2, h3, h4⟩ := h
    have := ih h4; omega

theorem OrderedD.append {lo mid hi : Nat} {l1 l2 : List Node} (h1 : OrderedD lo mid l1)
    (h2 : OrderedD mid hi l2) : OrderedD lo hi (l1 ++ l2) := by
  induction l1 generalizing lo with
  | nil => exact h2.widen h1 (Nat.le_refl _)
  | cons x r ih =>
    obtain ⟨a, b, q1, q2, q3, q4⟩ := h1
    exact ⟨a, b, q1, q2, q3, ih q4⟩

/-- in an ordered list every member lies inside `[lo, hi]` -/
theorem OrderedD.mem {lo hi : Nat} {l : List Node} (h : OrderedD lo hi l) :
    ∀ c ∈ l, ∃ a b, c.range = some (a, b) ∧ lo ≤ a ∧ a ≤ b ∧ b ≤ hi := by
  induction l generalizing lo with
  | nil => simp
  | cons n r ih =>
    obtain ⟨a, b, h1, h2, h3, h4⟩ := h
    intro c hc
    rcases List.mem_cons.mp hc with rfl | hc
    · exact ⟨a, b, h1, h2, h3, h4.le⟩
    · obtain ⟨a', b', q1, q2, q3, q4⟩ := ih h4 c hc
      exact ⟨a', b', q1, by omega, q3, q4⟩

/-- dropping members keeps the order -/
theorem OrderedD.filter {lo hi : Nat} {l : List Node} (p : Node → Bool) (h : OrderedD lo hi l) :
    OrderedD lo hi (l.filter p) := by
  induction l generalizing lo with
  | nil => exact h
  | cons n r ih =>
    obtain ⟨a, b, h1, h2, h3, h4⟩ := h
    simp only [List.filter_cons]
    split
    · exact ⟨a, b, h1, h2, h3, ih h4⟩
    · exact (ih h4).widen (by omega) (Nat.le_refl _)

/-- the order depends on the ranges only -/
theorem c05s_ordered_map {f : Node → Node} (hf : ∀ n, (f n).range = n.range) {lo hi : Nat}
    {l : List Node} : OrderedD lo hi (l.map f) ↔ OrderedD lo hi l := by
  induction l generalizing lo with
  | nil => exact Iff.rfl
  | cons n r ih => simp only [List.map_cons, OrderedD, hf, ih]

/-- `Every (NodeOrdB B)` reads range and children only -/
theorem c05s_every_congr {B : Nat} {n n' : Node} (hr : n'.range = n.range)
    (hc : n'.children = n.children) (h : Every (NodeOrdB B) n) : Every (NodeOrdB B) n' := by
  refine .mk _ ?_ (by rw [hc]; exact h.child)
  obtain ⟨a, b, h1, h2, h3, h4⟩ := h.here
  exact ⟨a, b, by rw [hr]; exact h1, h2, h3, by rw [hc]; exact h4⟩

/-- a wider range over the same children -/
theorem c05s_every_hull {B : Nat} {n n' : Node} {a b a' b' : Nat} (hr : n.range = some (a, b))
    (hr' : n'.range = some (a', b')) (h1 : a' ≤ a) (h2 : b ≤ b') (h3 : b' ≤ B)
    (hc : n'.children = n.children) (h : Every (NodeOrdB B) n) : Every (NodeOrdB B) n' := by
  refine .mk _ ?_ (by rw [hc]; exact h.child)
  obtain ⟨x, y, q1, q2, q3, q4⟩ := h.here
  rw [hr] at q1
  simp only [Option.some.injEq, Prod.mk.injEq] at q1
  obtain ⟨rfl, rfl⟩ := q1
  exact ⟨a', b', hr', by omega, h3, by rw [hc]; exact q4.widen h1 h2⟩

/-! ## step 1: `ofInline` -/

theorem c05s_ofInline_range (n : Inline.Node) : (ofInline n).range = n.range := by
  cases n; simp [ofInline]

theorem c05s_ofInline_children (n : Inline.Node) : (ofInline n).children = ofInlineList n.children := by
  cases n; simp [ofInline]

/-- `ofInline` keeps the ranges: an ordered list stays ordered -/
theorem c05s_ofInlineList_ordered {lo hi : Nat} {ns : List Inline.Node} (h : Inline.OrderedN lo hi ns) :
    OrderedD lo hi (ofInlineList ns) := by
  induction ns generalizing lo with
  | nil => simp only [ofInlineList, OrderedD]; exact h
  | cons n r ih =>
    obtain ⟨a, b, h1, h2, h3, h4⟩ := h
    simp only [ofInlineList]
    exact ⟨a, b, by rw [c05s_ofInline_range]; exact h1, h2, h3, ih h4⟩

mutual
/-- a well-ranged inline node that ends at or before `B` is `NodeOrdB B` at every node -/
theorem c05s_ofInline_every {B : Nat} (n : Inline.Node) (h : Inline.WellRanged n) (a b : Nat)
    (hr : n.range = some (a, b)) (hb : b ≤ B) : Every (NodeOrdB B) (ofInline n) := by
  match n with
  | ⟨v, r, cs⟩ =>
    rw [Inline.WellRanged_eq] at h
    obtain ⟨⟨a', b', q1, q2, q3⟩, hcs⟩ := h
    simp only at hr q1 q3 hcs
    rw [hr] at q1
    simp only [Option.some.injEq, Prod.mk.injEq] at q1
    obtain ⟨rfl, rfl⟩ := q1
    unfold ofInline
    exact .mk _ ⟨a, b, hr, q2, hb, c05s_ofInlineList_ordered q3⟩
      (c05s_ofInlineList_every cs hcs a b q3 hb)
/-- … and so are the members of an ordered, well-ranged list inside `[lo, hi]`, `hi ≤ B` -/
theorem c05s_ofInlineList_every {B : Nat} (ns : List Inline.Node) (h : Inline.WellRangedList ns)
    (lo hi : Nat) (ho : Inline.OrderedN lo hi ns) (hb : hi ≤ B) :
    ∀ c ∈ ofInlineList ns, Every (NodeOrdB B) c := by
  match ns with
  | [] => simp [ofInlineList]
  | n :: r =>
    simp only [Inline.WellRangedList] at h
    obtain ⟨a, b, h1, h2, h3, h4⟩ := ho
    intro x hx
    simp only [ofInlineList, List.mem_cons] at hx
    rcases hx with rfl | hx
    · exact c05s_ofInline_every n h.1 a b h1 (Nat.le_trans h4.le hb)
    · exact c05s_ofInlineList_every r h.2 b hi h4 hb x hx
end

/-! ## step 2: the splice walk -/

mutual
/-- a walked block keeps its range; below it everything is `NodeOrd` -/
theorem c05s_spliceNode_ord {icfg : Inline.Cfg} {src : List Char} (b : Block.BNode) (t : Node)
    (hg : Block.RangedB (PInl icfg) src b) (hn : InlNoRange b) (a z : Nat) (hr : b.range = some (a, z))
    (h : spliceNode icfg b = .ok t) : t.range = some (a, z) ∧ Every (NodeOrd src) t := by
  match b with
  | ⟨k, r, cs⟩ =>
    simp only [spliceNode] at h
    split at h
    · cases h
    · rename_i cs' hcs
      cases h
      obtain ⟨h1, _, h3, h4⟩ := hg.at a z hr
      obtain ⟨l1, l2⟩ := c05s_spliceList_ord cs cs' a z h4 h3.le hg.child hn.child hcs
      exact ⟨hr, .mk _ ⟨a, z, hr, h1, h3.le, l1⟩ l2⟩
/-- the children: spans in order become ranges in order -/
theorem c05s_spliceList_ord {icfg : Inline.Cfg} {src : List Char} (cs : List Block.BNode) (out : List Node)
    (lo hi : Nat) (ho : Block.OrderedB (PInl icfg) lo hi cs) (hhi : hi ≤ Lines.byteLen src)
    (hg : ∀ c ∈ cs, Block.RangedB (PInl icfg) src c) (hn : ∀ c ∈ cs, InlNoRange c)
    (h : spliceList icfg cs = .ok out) :
    OrderedD lo hi out ∧ ∀ x ∈ out, Every (NodeOrd src) x := by
  match cs with
  | [] => simp [spliceList] at h; subst h; exact ⟨ho, by simp⟩
  | c :: rest =>
    obtain ⟨a, b, hsp, h1, h2, h3⟩ := ho
    have hgr : ∀ x ∈ rest, Block.RangedB (PInl icfg) src x := fun x hx => hg x (List.mem_cons_of_mem _ hx)
    have hnr : ∀ x ∈ rest, InlNoRange x := fun x hx => hn x (List.mem_cons_of_mem _ hx)
    simp only [spliceList] at h
    split at h
    · -- a placeholder: it has no range, its span is a stretch `PInl` accepts
      rename_i content mapping hk
      split at h
      · cases h
      · rename_i ns hns
        split at h
        · cases h
        · rename_i rest' hrest
          cases h
          obtain ⟨i1, i2⟩ := c05s_spliceList_ord rest rest' b hi h3 hhi hgr hnr hrest
          have hnone : c.range = none := (hn c (by simp)).at content mapping hk
          unfold Block.SpanB at hsp
          rw [hnone] at hsp
          obtain ⟨c', m', hk', _, hp⟩ := hsp
          rw [hk] at hk'
          cases hk'
          obtain ⟨p1, p2⟩ := hp ns hns
          refine ⟨((c05s_ofInlineList_ordered p1).widen h1 (Nat.le_refl _)).append i1, ?_⟩
          intro x hx
          rcases List.mem_append.mp hx with hx | hx
          · exact c05s_ofInlineList_every ns p2 a b p1 (Nat.le_trans i1.le hhi) x hx
          · exact i2 x hx
    · -- any other child: walked, it keeps its range
      rename_i hk
      split at h
      · cases h
      · rename_i c' hc'
        split at h
        · cases h
        · rename_i rest' hrest
          cases h
          obtain ⟨i1, i2⟩ := c05s_spliceList_ord rest rest' b hi h3 hhi hgr hnr hrest
          have hrange := Block.spanB_kind hsp (fun c' m hc => hk c' m hc)
          obtain ⟨j1, j2⟩ := c05s_spliceNode_ord c c' (hg c (by simp)) (hn c (by simp)) a b hrange hc'
          refine ⟨⟨a, b, j1, h1, h2, i1⟩, ?_⟩
          intro x hx
          rcases List.mem_cons.mp hx with rfl | hx
          · exact j2
          · exact i2 x hx
end

/-! ## step 3: the join pass -/

theorem c05s_markerToText_range (n : Node) : (markerToText n).range = n.range := by
  unfold markerToText; split <;> rfl

theorem c05s_markerToText_children (n : Node) : (markerToText n).children = n.children := by
  unfold markerToText; split <;> rfl

theorem c05s_keep_emptied (n : Node) : keep (emptied n) = false := rfl

/-- pass 2 + `retain`: the list stays ordered inside the same bounds (a merged text takes the hull
    of two adjacent members; the emptied second text is dropped), and every member — the emptied
    ones included, which keep their old range until they are filtered — is still `NodeOrdB` -/
theorem c05s_mergeLoop_ord {B : Nat} (hi : Nat) (rest : List Node) : ∀ (cur : Node) (lo : Nat),
    OrderedD lo hi (cur :: rest) → (∀ x ∈ cur :: rest, Every (NodeOrdB B) x) →
    OrderedD lo hi ((mergeLoop cur rest).filter keep) ∧ ∀ x ∈ mergeLoop cur rest, Every (NodeOrdB B) x := by
  induction rest with
  | nil =>
    intro cur lo ho he
    simp only [mergeLoop]
    exact ⟨ho.filter keep, he⟩
  | cons nxt rest ih =>
    intro cur lo ho he
    obtain ⟨a, b, q1, q2, q3, c, d, r1, r2, r3, r4⟩ := ho
    simp only [mergeLoop]
    split
    · -- two adjacent texts
      have hm : (merged cur nxt).range = some (a, d) := by simp [merged, q1, r1]
      have hcur := he cur (by simp)
      have hnxt := he nxt (by simp)
      have hd : d ≤ B := by
        obtain ⟨x, y, s1, _, s3, _⟩ := hnxt.here
        rw [r1] at s1; cases s1; exact s3
      have hmer : Every (NodeOrdB B) (merged cur nxt) :=
        c05s_every_hull q1 hm (Nat.le_refl _) (by omega) hd rfl hcur
      obtain ⟨i1, i2⟩ := ih (merged cur nxt) lo ⟨a, d, hm, q2, by omega, r4⟩ (by
        intro x hx
        rcases List.mem_cons.mp hx with rfl | hx
        · exact hmer
        · exact he x (by simp [hx]))
      refine ⟨?_, ?_⟩
      · rw [List.filter_cons, c05s_keep_emptied]
        exact i1
      · intro x hx
        rcases List.mem_cons.mp hx with rfl | hx
        · exact c05s_every_congr (n := nxt) rfl rfl hnxt
        · exact i2 x hx
    · obtain ⟨i1, i2⟩ := ih nxt b ⟨c, d, r1, r2, r3, r4⟩ (fun x hx => he x (List.mem_cons_of_mem _ hx))
      refine ⟨?_, ?_⟩
      · simp only [List.filter_cons]
        split
        · exact ⟨a, b, q1, q2, q3, i1⟩
        · exact i1.widen (by omega) (Nat.le_refl _)
      · intro x hx
        rcases List.mem_cons.mp hx with rfl | hx
        · exact he _ (by simp)
        · exact i2 x hx

/-- **`fragments_join` keeps the order.** -/
theorem c05s_fragmentsJoin_ord {B lo hi : Nat} {cs : List Node} (ho : OrderedD lo hi cs)
    (he : ∀ x ∈ cs, Every (NodeOrdB B) x) :
    OrderedD lo hi (fragmentsJoin cs) ∧ ∀ x ∈ fragmentsJoin cs, Every (NodeOrdB B) x := by
  have ho1 : OrderedD lo hi (pass1 cs) := (c05s_ordered_map c05s_markerToText_range).mpr ho
  have he1 : ∀ x ∈ pass1 cs, Every (NodeOrdB B) x := by
    intro x hx
    obtain ⟨c, hc, rfl⟩ := List.mem_map.mp hx
    exact c05s_every_congr (c05s_markerToText_range c) (c05s_markerToText_children c) (he c hc)
  unfold fragmentsJoin
  cases hp : pass1 cs with
  | nil => simp only [mergeAll, List.filter_nil]; rw [hp] at ho1; exact ⟨ho1, by simp⟩
  | cons c r =>
    rw [hp] at ho1 he1
    obtain ⟨i1, i2⟩ := c05s_mergeLoop_ord hi r c lo ho1 he1
    exact ⟨i1, fun x hx => i2 x (List.mem_filter.mp hx).1⟩

theorem c05s_joinNode_range (n : Node) : (joinNode n).range = n.range := by rw [joinNode_eq]

theorem c05s_joinNode_every_aux {B : Nat} (k : Nat) : ∀ n : Node, nsize n ≤ k → Every (NodeOrdB B) n →
    Every (NodeOrdB B) (joinNode n) := by
  induction k with
  | zero => intro n hn; rw [nsize_eq] at hn; omega
  | succ k ih =>
    intro n hn he
    obtain ⟨a, b, h1, h2, h3, h4⟩ := he.here
    obtain ⟨j1, j2⟩ := c05s_fragmentsJoin_ord h4 he.child
    rw [joinNode_eq, joinList_eq_map]
    refine .mk _ ⟨a, b, h1, h2, h3, (c05s_ordered_map c05s_joinNode_range).mpr j1⟩ ?_
    intro y hy
    simp only at hy
    obtain ⟨x, hx, rfl⟩ := List.mem_map.mp hy
    apply ih x ?_ (j2 x hx)
    have s1 := nsize_le_of_mem hx
    have s2 := nsizeList_fragmentsJoin_le n.children
    rw [nsize_eq] at hn
    omega

/-- **the join pass keeps the geometry**, at every node of the document -/
theorem c05s_joinNode_every {B : Nat} {n : Node} (he : Every (NodeOrdB B) n) :
    Every (NodeOrdB B) (joinNode n) :=
  c05s_joinNode_every_aux _ n (Nat.le_refl _) he

/-! ## step 4: the sourcepos pass -/

mutual
theorem c05s_sourceposNode_every {B : Nat} {src : List Char} {marks : List SourceMap.Mark} (t t' : Node)
    (he : Every (NodeOrdB B) t) (h : sourceposNode src marks t = .ok t') :
    Every (NodeOrdB B) t' ∧ t'.range = t.range := by
  match t with
  | ⟨k, r, at_, cs⟩ =>
    simp only [sourceposNode] at h
    split at h
    · cases h
    · split at h
      · cases h
      · rename_i cs' hcs
        cases h
        obtain ⟨a, b, h1, h2, h3, h4⟩ := he.here
        obtain ⟨l1, l2⟩ := c05s_sourceposList_every cs cs' a b h4 he.child hcs
        exact ⟨.mk _ ⟨a, b, h1, h2, h3, l1⟩ l2, rfl⟩
theorem c05s_sourceposList_every {B : Nat} {src : List Char} {marks : List SourceMap.Mark}
    (cs cs' : List Node) (lo hi : Nat) (ho : OrderedD lo hi cs) (he : ∀ c ∈ cs, Every (NodeOrdB B) c)
    (h : sourceposList src marks cs = .ok cs') :
    OrderedD lo hi cs' ∧ ∀ c ∈ cs', Every (NodeOrdB B) c := by
  match cs with
  | [] => simp [sourceposList] at h; subst h; exact ⟨ho, by simp⟩
  | c :: r =>
    simp only [sourceposList] at h
    split at h
    · cases h
    · rename_i c' hc
      split at h
      · cases h
      · rename_i r' hr
        cases h
        obtain ⟨a, b, q1, q2, q3, q4⟩ := ho
        obtain ⟨j1, j2⟩ := c05s_sourceposNode_every c c' (he c (by simp)) hc
        obtain ⟨i1, i2⟩ := c05s_sourceposList_every r r' b hi q4
          (fun y hy => he y (List.mem_cons_of_mem _ hy)) hr
        refine ⟨⟨a, b, by rw [j2]; exact q1, q2, q3, i1⟩, ?_⟩
        intro x hx
        rcases List.mem_cons.mp hx with rfl | hx
        · exact j1
        · exact i2 x hx
end

/-! ## step 5: the composition -/

/-- **`afterBlocks_nodeOrd`.**  If the tree of the block pass is `RangedB` for the claim `PInl`
    (every placeholder's inline run yields well-ranged nodes in order inside the placeholder's
    stretch), its root has a range inside the source and no ranged node is a placeholder, then in the
    tree the core chain returns EVERY node — block or inline level — has a range `(a, b)`,
    `a ≤ b ≤ |src|`, and its children's ranges lie inside `[a, b]`, in source order, without overlap;
    the root keeps its range. -/
theorem afterBlocks_nodeOrd {cfg : DocCfg} {src : List Char} {root : Block.BNode} {refs : Refs.RefMap}
    {t : Node} {a z : Nat} (hroot : root.range = some (a, z))
    (hg : Block.RangedB (PInl (cfg.inlineCfg refs)) src root) (hn : InlNoRange root)
    (h : afterBlocks cfg src root refs = .ok t) : t.range = some (a, z) ∧ Every (NodeOrd src) t := by
  unfold afterBlocks at h
  split at h
  · cases h
  · rename_i t0 hs
    obtain ⟨r0, e0⟩ := c05s_spliceNode_ord root t0 hg hn a z hroot hs
    have h1 : (if cfg.hasJoin = true then joinNode t0 else t0).range = some (a, z) ∧
        Every (NodeOrd src) (if cfg.hasJoin = true then joinNode t0 else t0) := by
      split
      · exact ⟨by rw [c05s_joinNode_range]; exact r0, c05s_joinNode_every e0⟩
      · exact ⟨r0, e0⟩
    simp only at h
    split at h
    · obtain ⟨j1, j2⟩ := c05s_sourceposNode_every _ _ h1.2 h
      exact ⟨by rw [j2]; exact h1.1, j1⟩
    · cases h; exact h1

/-! ## non-vacuity and witnesses -/

mutual
/-- a document tree in pre-order: (depth, start, end) of every node — block and inline level
    (`(0, 0)` would stand for a missing range: none occurs below) -/
def c05s_flat (d : Nat) : Node → List (Nat × Nat × Nat)
  | ⟨_, r, _, cs⟩ => (d, (r.getD (0, 0)).1, (r.getD (0, 0)).2) :: c05s_flatList (d + 1) cs
def c05s_flatList (d : Nat) : List Node → List (Nat × Nat × Nat)
  | [] => []
  | k :: ks => c05s_flat d k ++ c05s_flatList d ks
end

/-- the shape of the conclusion on a parsed document: root, paragraph, `Text "a "`, `Em` with its
    `Text "b"` inside the delimiters, and ONE `Text " c*d"` at `(5, 9)` … -/
example : (parseDoc (exCfg false 100) "a *b* c*d".toList).toOption.map (c05s_flat 0) =
    some [(0, 0, 9), (1, 0, 9), (2, 0, 2), (2, 2, 5), (3, 3, 4), (2, 5, 9)] := by decide +kernel

/-- … which the join pass made of three adjacent members `Text " c"` `(5, 7)`, the left-over
    delimiter `EmphMarker` `(7, 8)` and `Text "d"` `(8, 9)` of the tree the splice walk returns: the
    merged node takes the hull, the emptied ones are dropped -/
example : (match Block.parseBlocks (exCfg false 100).blockCfg "a *b* c*d".toList with
      | .ok (root, refs) => (spliceNode ((exCfg false 100).inlineCfg refs) root).toOption.map (c05s_flat 0)
      | .error _ => none) =
    some [(0, 0, 9), (1, 0, 9), (2, 0, 2), (2, 2, 5), (3, 3, 4), (2, 5, 7), (2, 7, 8), (2, 8, 9)] := by
  decide +kernel

/-- a tight list: the inline nodes hang directly under the items (their paragraphs are dissolved) -/
example : (parseDoc (exCfg false 100) "- a\n- *b*".toList).toOption.map (c05s_flat 0) =
    some [(0, 0, 9), (1, 0, 9), (2, 0, 3), (3, 2, 3), (2, 4, 9), (3, 6, 9), (4, 7, 8)] := by decide +kernel

/-! ### the hypotheses of `afterBlocks_nodeOrd` are satisfiable -/

/-- `Inline.OrderedN`, as a test -/
def c05s_ordNb (hi : Nat) : Nat → List Inline.Node → Bool
  | lo, [] => decide (lo ≤ hi)
  | lo, n :: r =>
    match n.range with
    | some (a, b) => decide (lo ≤ a) && decide (a ≤ b) && c05s_ordNb hi b r
    | none => false

mutual
/-- `Inline.WellRanged`, as a test -/
def c05s_wrb : Inline.Node → Bool
  | ⟨_, r, cs⟩ =>
    (match r with
     | some (a, b) => decide (a ≤ b) && c05s_ordNb b a cs
     | none => false) && c05s_wrbList cs
def c05s_wrbList : List Inline.Node → Bool
  | [] => true
  | c :: cs => c05s_wrb c && c05s_wrbList cs
end

theorem c05s_ordNb_sound {hi : Nat} : ∀ (l : List Inline.Node) (lo : Nat), c05s_ordNb hi lo l = true →
    Inline.OrderedN lo hi l
  | [], lo, h => by simp only [c05s_ordNb, decide_eq_true_eq] at h; exact h
  | n :: r, lo, h => by
    simp only [c05s_ordNb] at h
    split at h
    · rename_i a b hr
      simp only [Bool.and_eq_true, decide_eq_true_eq] at h
      exact ⟨a, b, hr, h.1.1, h.1.2, c05s_ordNb_sound r b h.2⟩
    · cases h

mutual
theorem c05s_wrb_sound (n : Inline.Node) (h : c05s_wrb n = true) : Inline.WellRanged n := by
  match n with
  | ⟨v, r, cs⟩ =>
    simp only [c05s_wrb, Bool.and_eq_true] at h
    obtain ⟨h1, h2⟩ := h
    simp only [Inline.WellRanged]
    refine ⟨?_, c05s_wrbList_sound cs h2⟩
    split at h1
    · rename_i a b
      simp only [Bool.and_eq_true, decide_eq_true_eq] at h1
      exact ⟨a, b, rfl, h1.1, c05s_ordNb_sound cs a h1.2⟩
    · cases h1
theorem c05s_wrbList_sound (l : List Inline.Node) (h : c05s_wrbList l = true) : Inline.WellRangedList l := by
  match l with
  | [] => trivial
  | c :: cs =>
    simp only [c05s_wrbList, Bool.and_eq_true] at h
    exact ⟨c05s_wrb_sound c h.1, c05s_wrbList_sound cs h.2⟩
end

/-- `PInl` for one placeholder, by evaluation -/
theorem c05s_pinl_of_check {icfg : Inline.Cfg} {c : List Char} {m : List (Nat × Nat)} {a b : Nat}
    (h : (match Inline.parseInline icfg c m with
          | .ok ns => c05s_ordNb b a ns && c05s_wrbList ns
          | .error _ => true) = true) : PInl icfg c m a b := by
  intro ns hns
  rw [hns] at h
  simp only [Bool.and_eq_true] at h
  exact ⟨c05s_ordNb_sound ns a h.1, c05s_wrbList_sound ns h.2⟩

/-- the block tree of `"a *b* c*d"` -/
def c05s_exSrc : List Char := "a *b* c*d".toList
def c05s_exRoot : Block.BNode :=
  ⟨.root, some (0, 9), [⟨.paragraph, some (0, 9), [⟨.inlineRoot c05s_exSrc [(0, 0)], none, []⟩]⟩]⟩

mutual
/-- a block tree in pre-order, with every field -/
def c05s_flatB (d : Nat) : Block.BNode → List (Nat × Block.Kind × Option (Nat × Nat))
  | ⟨k, r, cs⟩ => (d, k, r) :: c05s_flatBList (d + 1) cs
def c05s_flatBList (d : Nat) : List Block.BNode → List (Nat × Block.Kind × Option (Nat × Nat))
  | [] => []
  | k :: ks => c05s_flatB d k ++ c05s_flatBList d ks
end

/-- … is what the block pass returns for it -/
example : (Block.parseBlocks (exCfg false 100).blockCfg c05s_exSrc).toOption.map
      (fun x => c05s_flatB 0 x.1) = some (c05s_flatB 0 c05s_exRoot) ∧
    (Block.parseBlocks (exCfg false 100).blockCfg c05s_exSrc).toOption.map (fun x => x.2.isEmpty) =
      some true := by decide +kernel

theorem c05s_bd_zero (src : List Char) : Bd src 0 := ⟨[], src, rfl, rfl⟩
theorem c05s_bd_len (src : List Char) : Bd src (Lines.byteLen src) := ⟨src, [], by simp, rfl⟩

theorem c05s_exRoot_ranged : Block.RangedB (PInl ((exCfg false 100).inlineCfg [])) c05s_exSrc c05s_exRoot := by
  have hp : PInl ((exCfg false 100).inlineCfg []) c05s_exSrc [(0, 0)] 0 9 :=
    c05s_pinl_of_check (by decide +kernel)
  have h9 : Bd c05s_exSrc 9 := c05s_bd_len c05s_exSrc
  have hpar := Block.rangedB_text (P := PInl ((exCfg false 100).inlineCfg [])) (src := c05s_exSrc)
    .paragraph (a := 0) (b := 9) (by omega) (c05s_bd_zero _) h9 hp (Nat.le_refl _) (by omega) (Nat.le_refl _)
  refine .mk _ (fun a b h => ?_) (fun h => by cases h) ?_
  · cases h
    exact ⟨by omega, c05s_bd_zero _, h9, 0, 9, rfl, Nat.le_refl _, by omega, Nat.le_refl 9⟩
  · intro c hc
    simp only [c05s_exRoot, List.mem_singleton] at hc
    subst hc
    exact hpar

theorem c05s_exRoot_noRange : InlNoRange c05s_exRoot := by
  refine .mk _ (fun c m h => by cases h) ?_
  intro c hc
  simp only [c05s_exRoot, List.mem_singleton] at hc
  subst hc
  refine .mk _ (fun c m h => by cases h) ?_
  intro c hc
  simp only [List.mem_singleton] at hc
  subst hc
  exact .mk _ (fun _ _ _ => rfl) (by simp)

/-- all hypotheses of `afterBlocks_nodeOrd` hold of the block tree of `"a *b* c*d"` (with the join
    pass: the configuration has emphasis rules) -/
example : ∃ t, afterBlocks (exCfg false 100) c05s_exSrc c05s_exRoot [] = .ok t ∧
    t.range = some (0, 9) ∧ Every (NodeOrd c05s_exSrc) t := by
  have h : (afterBlocks (exCfg false 100) c05s_exSrc c05s_exRoot []).toOption.isSome = true := by
    decide +kernel
  cases hp : afterBlocks (exCfg false 100) c05s_exSrc c05s_exRoot [] with
  | error e => rw [hp] at h; cases h
  | ok t => exact ⟨t, rfl, afterBlocks_nodeOrd rfl c05s_exRoot_ranged c05s_exRoot_noRange hp⟩

/-- **`InlNoRange` is needed** (for an arbitrary tree; the trees of `parseBlocks` have it): a node with
    a range whose VALUE is the placeholder satisfies `RangedB` for every claim `P` — nothing is
    claimed about its text — and the splice walk replaces it all the same: here by a `Text` at
    `(5, 7)`, outside the root `(0, 1)` and the one-byte source -/
def c05s_badRoot : Block.BNode :=
  ⟨.root, some (0, 1), [⟨.inlineRoot ['a', 'b'] [(0, 5)], some (0, 1), []⟩]⟩

example : Block.RangedB (PInl ((exCfg false 100).inlineCfg [])) ['x'] c05s_badRoot := by
  have h1 : Bd ['x'] 1 := c05s_bd_len ['x']
  refine .mk _ (fun a b h => ?_) (fun h => by cases h) ?_
  · cases h
    exact ⟨by omega, c05s_bd_zero _, h1, 0, 1, rfl, Nat.le_refl _, by omega, Nat.le_refl 1⟩
  · intro c hc
    simp only [c05s_badRoot, List.mem_singleton] at hc
    subst hc
    exact Block.rangedB_leaf _ (by omega) (c05s_bd_zero _) h1

example : (afterBlocks (exCfg false 100) ['x'] c05s_badRoot []).toOption.map (c05s_flat 0) =
    some [(0, 0, 1), (1, 5, 7)] := by decide +kernel

end MdIt.Pipeline

/-! # `InlNoRange` holds of every tree of the block pass

  The same induction over the block tokenizer as `parseBlocks_wf` (Props/Pipeline.lean), with the
  invariant "every child pushed so far is `InlNoRange`": the three producers of placeholders build
  `⟨.inlineRoot c m, none, []⟩`, every other node has another kind, `mark_tight_paragraphs` only
  lifts the children of a paragraph into its item. -/

namespace MdIt.Block
open MdIt.Pipeline (InlNoRange)

def c05s_AllNR (cs : List BNode) : Prop := ∀ c ∈ cs, InlNoRange c

def c05s_KeepsNR (s s' : BState) : Prop := c05s_AllNR s.children → c05s_AllNR s'.children

theorem c05s_AllNR.nil : c05s_AllNR [] := fun _ h => by simp at h

theorem c05s_AllNR.push {cs : List BNode} {n : BNode} (h : c05s_AllNR cs) (hn : InlNoRange n) :
    c05s_AllNR (cs ++ [n]) := by
  intro c hc
  rcases List.mem_append.mp hc with h1 | h1
  · exact h c h1
  · simp at h1; subst h1; exact hn

theorem c05s_nr_inl (t : List Char) (m : List (Nat × Nat)) : InlNoRange ⟨.inlineRoot t m, none, []⟩ :=
  .mk _ (fun _ _ _ => rfl) (by simp)

theorem c05s_nr_node {k : Kind} {r : Option (Nat × Nat)} {cs : List BNode}
    (hk : ∀ c m, k ≠ .inlineRoot c m) (h : c05s_AllNR cs) : InlNoRange ⟨k, r, cs⟩ :=
  .mk _ (fun c m e => absurd e (hk c m)) h

theorem c05s_nr_leaf (k : Kind) (r : Option (Nat × Nat)) (hk : ∀ c m, k ≠ .inlineRoot c m) :
    InlNoRange ⟨k, r, []⟩ := c05s_nr_node hk c05s_AllNR.nil

theorem c05s_nr_text (k : Kind) (r : Option (Nat × Nat)) (t : List Char) (m : List (Nat × Nat))
    (hk : ∀ c m, k ≠ .inlineRoot c m) : InlNoRange ⟨k, r, [⟨.inlineRoot t m, none, []⟩]⟩ :=
  c05s_nr_node hk (fun c hc => by simp at hc; subst hc; exact c05s_nr_inl t m)

theorem c05s_hr_nr {s s' : BState} {b : Bool} (h : hrRule s false = .ok (b, s')) : c05s_KeepsNR s s' := by
  unfold hrRule at h
  crack h
  all_goals (try subst_vars)
  all_goals (intro hg)
  all_goals (first | exact hg | exact hg.push (c05s_nr_leaf _ _ (by simp)))

theorem c05s_code_nr {s s' : BState} {b : Bool} (h : codeRule s false = .ok (b, s')) : c05s_KeepsNR s s' := by
  unfold codeRule at h
  crack h
  all_goals (try subst_vars)
  all_goals (intro hg)
  all_goals (first | exact hg | exact hg.push (c05s_nr_leaf _ _ (by simp)))

theorem c05s_fence_nr {s s' : BState} {b : Bool} (h : fenceRule s false = .ok (b, s')) : c05s_KeepsNR s s' := by
  unfold fenceRule at h
  crack h
  all_goals (try subst_vars)
  all_goals (intro hg)
  all_goals (first | exact hg | exact hg.push (c05s_nr_leaf _ _ (by simp)))

theorem c05s_heading_nr {s s' : BState} {b : Bool} (h : headingRule s false = .ok (b, s')) :
    c05s_KeepsNR s s' := by
  unfold headingRule at h
  crack h
  all_goals (try subst_vars)
  all_goals (intro hg)
  all_goals (first | exact hg | exact hg.push (c05s_nr_text _ _ _ _ (by simp)))

theorem c05s_paragraph_nr {test : Test} (ht : TestPure test) {fuel : Nat} {s s' : BState} {b : Bool}
    (h : paragraphRule test fuel s false = .ok (b, s')) : c05s_KeepsNR s s' := by
  unfold paragraphRule at h
  crack h
  have h1 := (lazyScan_spec ht false _ _ _ _ ‹lazyScan _ _ _ _ _ = _›).1
  intro hg
  simp only [BState.push, h1]
  exact hg.push (c05s_nr_text _ _ _ _ (by simp))

theorem c05s_lheading_nr {test : Test} (ht : TestPure test) {fuel : Nat} {s s' : BState} {b : Bool}
    (h : lheadingRule test fuel s false = .ok (b, s')) : c05s_KeepsNR s s' := by
  unfold lheadingRule at h
  crack h
  all_goals (try (have h1 := (lazyScan_spec ht true _ _ _ _ ‹lazyScan _ _ _ _ _ = _›).1))
  all_goals (try subst_vars)
  all_goals (intro hg)
  all_goals (first | exact hg | exact hg.push (c05s_nr_text _ _ _ _ (by simp)))

theorem c05s_reference_nr {cfg : Cfg} {test : Test} (ht : TestPure test) {fuel : Nat}
    {s s' : BState} {b : Bool} (h : referenceRule cfg test fuel s false = .ok (b, s')) :
    c05s_KeepsNR s s' := by
  unfold referenceRule at h
  crack h
  all_goals (try (have h1 := (lazyScan_spec ht false _ _ _ _ ‹lazyScan _ _ _ _ _ = _›).1))
  all_goals (try subst_vars)
  all_goals (intro hg)
  all_goals (first | exact hg | (rw [h1]; exact hg) | (simp only [h1]; exact hg))

/-- the nested tokenizer keeps the children of its current node `InlNoRange` -/
def c05s_TokNR (tok : Tok) : Prop := ∀ s s', tok s = .ok s' → c05s_KeepsNR s s'

theorem c05s_blockquote_nr {tok : Tok} {test : Test} (hk : TokSpec tok) (hsh : c05s_TokNR tok)
    (ht : TestPure test) {fuel : Nat} {s s' : BState} {b : Bool}
    (h : blockquoteRule tok test fuel s false = .ok (b, s')) : c05s_KeepsNR s s' := by
  unfold blockquoteRule at h
  crack h
  all_goals (try subst_vars)
  · exact fun hg => hg
  · exact fun hg => hg
  · have hscan := ‹bqScan _ _ _ _ _ _ = _›
    have htok := ‹tok _ = _›
    rename_i scan _ s2 _ _ _ _ _ _ _ _ _
    obtain ⟨n, old', S'⟩ := scan
    obtain ⟨hch, _⟩ := bqScan_children ht hscan
    have hfr := hk.frame _ _ htok
    have hg2 := hsh _ _ htok c05s_AllNR.nil
    intro hg
    simp only at hch hfr hg2 ⊢
    rw [hch]
    have hkind : s2.nodeKind = .blockquote := hfr.nodeKind
    refine hg.push (c05s_nr_node ?_ hg2)
    rw [hkind]; simp

theorem c05s_markTight_nr : ∀ (cs : List BNode), c05s_AllNR cs → c05s_AllNR (markTight cs)
  | [], _ => by simp [markTight]; exact c05s_AllNR.nil
  | n :: r, h => by
    have hr := c05s_markTight_nr r (fun c hc => h c (List.mem_cons_of_mem _ hc))
    have hn := h n (by simp)
    simp only [markTight]
    split
    · intro c hc
      rcases List.mem_append.mp hc with h1 | h1
      · exact hn.child c h1
      · exact hr c h1
    · intro c hc
      simp at hc
      rcases hc with rfl | h1
      · exact hn
      · exact hr c h1

theorem c05s_tightenItems_nr : ∀ (cs cs' : List BNode), tightenItems cs = .ok cs' →
    c05s_AllNR cs → c05s_AllNR cs'
  | [], cs', h, _ => by simp [tightenItems] at h; subst h; exact c05s_AllNR.nil
  | c :: r, cs', h, hi => by
    simp only [tightenItems] at h
    split at h
    · cases h
    · split at h
      · cases h
      · rename_i hk r' hr
        cases h
        have ih := c05s_tightenItems_nr r r' hr (fun x hx => hi x (List.mem_cons_of_mem _ hx))
        have hc := hi c (by simp)
        intro x hx
        simp at hx
        rcases hx with rfl | hx
        · exact .mk _ hc.at (c05s_markTight_nr _ hc.child)
        · exact ih x hx

theorem c05s_listItemBody_nr {tok : Tok} (hsh : c05s_TokNR tok) {S2 S3 : BState} {m : Nat} {re : Bool}
    (h : listItemBody tok S2 m re = .ok S3) : c05s_KeepsNR S2 S3 := by
  unfold listItemBody at h
  crack h
  · exact fun hg => hg
  · have htok := ‹tok _ = _›
    subst_vars
    have key := hsh _ _ htok
    intro hg
    exact key hg

theorem c05s_listItem_nr {tok : Tok} (hk : TokSpec tok) (hsh : c05s_TokNR tok) {S S' : BState}
    {m pos : Nat} {pee tight pee' tight' : Bool}
    (h : listItem tok S m pos pee tight = .ok (S', tight', pee'))
    (_hline : S.line = m) (_hlt : m < S.lineMax) :
    c05s_AllNR S.children → c05s_AllNR S'.children := by
  unfold listItem at h
  crack h
  rename_i o ho rw hrw S2 hS2 S3 hbody _ li hli S5 hS5 e _ r _ hS' _ _
  subst hS'
  obtain ⟨hm, hS2eq⟩ := setOff_ok hS2
  obtain ⟨hm5, rfl⟩ := setOff_ok hS5
  have hg3 := c05s_listItemBody_nr hsh hbody (by rw [hS2eq]; exact c05s_AllNR.nil)
  have hkind : S3.nodeKind = .listItem := by
    unfold listItemBody at hbody
    crack hbody
    · rw [hS2eq]
    · have := (hk.frame _ _ ‹tok _ = _›).nodeKind
      simp only at this ⊢
      rw [this, hS2eq]
  intro hi c hc
  simp only at hc
  rcases List.mem_append.mp hc with h1 | h1
  · exact hi c h1
  · simp at h1
    subst h1
    refine c05s_nr_node ?_ hg3
    rw [hkind]; simp

theorem c05s_listLoop_nr {tok : Tok} {test : Test} (hk : TokSpec tok) (hsh : c05s_TokNR tok)
    (ht : TestPure test) {ordered : Bool} {mc : Char} :
    ∀ (fuel : Nat) (S : BState) (m pos : Nat) (pee tight : Bool) (n : Nat) (tight' : Bool) (S' : BState),
      listLoop tok test ordered mc fuel S m pos pee tight = .ok (n, tight', S') →
      S.line = m → m < S.lineMax → c05s_AllNR S.children → c05s_AllNR S'.children := by
  intro fuel
  induction fuel with
  | zero => intro S m pos pee tight n tight' S' h; simp [listLoop] at h
  | succ f ih =>
    intro S m pos pee tight n tight' S' h hline hlt hi
    simp only [listLoop] at h
    crack h
    all_goals (try subst_vars)
    · rename_i wi wc hc _ hnone _ hitem
      obtain ⟨S1, t1, p1⟩ := wi
      obtain ⟨c, S2⟩ := wc
      obtain ⟨rfl, _⟩ := listContinue_spec ht hc
      exact c05s_listItem_nr hk hsh hitem rfl hlt hi
    · rename_i wi wc hc _ p hsome _ hitem
      obtain ⟨S1, t1, p1⟩ := wi
      obtain ⟨c, S2⟩ := wc
      obtain ⟨hfr, h1, h2⟩ := listItem_spec hk hitem rfl hlt
      obtain ⟨rfl, hc2⟩ := listContinue_spec ht hc
      simp only at hsome h hc2
      have hlt2 := hc2 (by rw [hsome]; simp)
      exact ih _ _ _ _ _ _ _ _ h rfl hlt2 (c05s_listItem_nr hk hsh hitem rfl hlt hi)

theorem c05s_list_rule_nr {tok : Tok} {test : Test} (hk : TokSpec tok) (hsh : c05s_TokNR tok)
    (ht : TestPure test) {fuel : Nat} {s s' : BState} {b : Bool}
    (h : listRule tok test fuel s false = .ok (b, s')) (hl : s.line < s.lineMax) : c05s_KeepsNR s s' := by
  unfold listRule at h
  crack h
  all_goals (try subst_vars)
  all_goals (try (exact fun hg => hg))
  all_goals (
    have hloop := ‹listLoop _ _ _ _ _ _ _ _ _ _ = _›
    have htight := ‹(if _ then tightenItems _ else _) = Except.ok _›
    rename_i wl _ cs _ _ _ _ _ _ _
    obtain ⟨n, t, S'⟩ := wl
    have hitems := c05s_listLoop_nr hk hsh ht _ _ _ _ _ _ _ _ _ hloop rfl hl (fun _ hc => by simp at hc)
    obtain ⟨hfr, _⟩ := listLoop_spec hk ht _ _ _ _ _ _ _ _ _ hloop rfl hl
    have hcs : c05s_AllNR cs := by
      simp only at htight
      split at htight
      · exact c05s_tightenItems_nr _ _ htight hitems
      · simp [pure, Except.pure] at htight; subst htight; exact hitems
    intro hg
    simp only
    have hkind := hfr.nodeKind
    simp only at hkind
    refine hg.push (c05s_nr_node ?_ hcs)
    rw [hkind]; simp)

theorem c05s_runRule_nr {cfg : Cfg} {tok : Tok} {test : Test} (hk : TokSpec tok)
    (hsh : c05s_TokNR tok) (ht : TestPure test) (fuel : Nat) (r : RuleId) {s s' : BState} {b : Bool}
    (h : runRule cfg tok test fuel r s false = .ok (b, s')) (hl : s.line < s.lineMax) :
    c05s_KeepsNR s s' := by
  cases r <;> simp only [runRule] at h
  · exact c05s_code_nr h
  · exact c05s_fence_nr h
  · exact c05s_blockquote_nr hk hsh ht h
  · exact c05s_hr_nr h
  · exact c05s_list_rule_nr hk hsh ht h hl
  · exact c05s_reference_nr ht h
  · exact c05s_heading_nr h
  · exact c05s_lheading_nr ht h
  · exact c05s_paragraph_nr ht h

theorem c05s_runChain_nr {run : RuleId → BState → Bool → Res} (hr : RunSpec run)
    (hsh : ∀ r s b s', run r s false = .ok (b, s') → s.line < s.lineMax → c05s_KeepsNR s s') :
    ∀ (chain : List RuleId) (s : BState) (b : Bool) (s' : BState),
      runChain run chain s false = .ok (b, s') → s.line < s.lineMax → c05s_KeepsNR s s' := by
  intro chain
  induction chain with
  | nil => intro s b s' h _; simp [runChain] at h; rw [← h.2]; exact fun hg => hg
  | cons r rs ih =>
    intro s b s' h hl
    simp only [runChain] at h
    split at h
    · cases h
    · rename_i s1 h1
      cases h
      exact hsh _ _ _ _ h1 hl
    · rename_i s1 h1
      have := hr.false_same _ _ _ h1
      subst this
      exact ih _ _ _ h hl

theorem c05s_afterChain_nr {ok : Bool} {s s' : BState} {prev : Nat}
    (h : afterChain ok s prev = .ok s') : c05s_KeepsNR s s' := by
  unfold afterChain at h
  crack h
  · exact fun hg => hg
  · intro hg
    simp only [BState.push]
    exact hg.push (c05s_nr_inl _ _)

theorem c05s_tokLoop_nr {cfg : Cfg} {run : RuleId → BState → Bool → Res} (hr : RunSpec run)
    (hsh : ∀ r s b s', run r s false = .ok (b, s') → s.line < s.lineMax → c05s_KeepsNR s s') :
    ∀ (fuel : Nat) (he : Bool) (s s' : BState), tokLoop cfg run fuel he s = .ok s' → c05s_KeepsNR s s' := by
  intro fuel
  induction fuel with
  | zero => intro he s s' h; simp [tokLoop] at h
  | succ f ih =>
    intro he s s' h
    simp only [tokLoop] at h
    crack h
    all_goals (try subst_vars)
    all_goals (try (exact fun hg => hg))
    all_goals (
      have hchain := ‹runChain _ _ _ _ = _›
      have hafter := ‹afterChain _ _ _ = _›
      have h1 := c05s_runChain_nr hr hsh _ _ _ _ hchain (by simp; omega)
      have h2 := c05s_afterChain_nr hafter
      have h3 := ih _ _ _ h
      exact fun hg => h3 (h2 (h1 hg)))

theorem c05s_tokenize_nr (cfg : Cfg) : ∀ fuel : Nat, c05s_TokNR (tokenize cfg fuel) := by
  intro fuel
  induction fuel with
  | zero => intro s s' h; simp [tokenize, engine] at h
  | succ f ih =>
    intro s s' h
    simp only [tokenize, engine] at h
    have hk := tokenize_tokSpec cfg f
    have ht := testRules_pure cfg f
    exact c05s_tokLoop_nr (runRule_spec hk ht _)
      (fun r s b s' h hl => c05s_runRule_nr hk ih ht _ r h hl) _ _ _ _ h

/-- **`parseBlocks_inlNoRange`.**  In every tree the block parser returns, a node whose value is the
    `InlineRoot` placeholder has no range (whatever the chain: the no-paragraph fallback included). -/
theorem parseBlocks_inlNoRange {cfg : Cfg} {src : List Char} {root : BNode} {refs : Refs.RefMap}
    (h : parseBlocks cfg src = .ok (root, refs)) : InlNoRange root := by
  unfold parseBlocks at h
  split at h
  · cases h
  · rename_i s hs
    simp only [Except.ok.injEq, Prod.mk.injEq] at h
    obtain ⟨rfl, _⟩ := h
    have hfr := (tokenize_spec cfg _ _ _ hs).frame
    have hg := c05s_tokenize_nr cfg _ _ _ hs c05s_AllNR.nil
    have hk : s.nodeKind = .root := hfr.nodeKind
    refine c05s_nr_node ?_ hg
    rw [hk]; simp

end MdIt.Block

namespace MdIt.Pipeline

/-- **`parseDoc_nodeOrd`.**  The two results together, for `parseDoc`: if the rules that make
    placeholders establish the claim `PInl` (`InlSpec`: what the tables of `get_lines` / the ATX rule
    and the inline range theorems have to provide — independent of this file), then EVERY node of the
    parsed tree has a range `(a, b)` with `a ≤ b ≤ |src|`, its children's ranges inside `[a, b]`, in
    source order, without overlap; the root has `(0, |src|)`.  The size bound is that of
    `doc_block_ranges` (the `i32` fields of the block state). -/
theorem parseDoc_nodeOrd {cfg : DocCfg} {src : List Char} {t : Node}
    (hsmall : 4 * Lines.byteLen src + 8 < 2147483648)
    (hP : ∀ refs, Block.InlSpec cfg.blockCfg.hasPara (PInl (cfg.inlineCfg refs)))
    (h : parseDoc cfg src = .ok t) : t.range = some (0, Lines.byteLen src) ∧ Every (NodeOrd src) t := by
  unfold parseDoc at h
  split at h
  · cases h
  · rename_i root refs hb
    obtain ⟨hr, hg⟩ := Block.parseBlocks_geo (hP refs) hsmall hb
    exact afterBlocks_nodeOrd hr hg (Block.parseBlocks_inlNoRange hb) h

/-- the hypothesis `InlNoRange` of `afterBlocks_nodeOrd` on a parsed block tree -/
example : ∃ root refs, Block.parseBlocks (exCfg false 100).blockCfg "- a\n  # *b*\n".toList = .ok (root, refs) ∧
    InlNoRange root := by
  have h : (Block.parseBlocks (exCfg false 100).blockCfg "- a\n  # *b*\n".toList).toOption.isSome = true := by
    decide +kernel
  cases hp : Block.parseBlocks (exCfg false 100).blockCfg "- a\n  # *b*\n".toList with
  | error e => rw [hp] at h; cases h
  | ok x => exact ⟨x.1, x.2, rfl, Block.parseBlocks_inlNoRange hp⟩

end MdIt.Pipeline
