/-
  Lemmas for `MdIt/Props/InlineH.lean`, part 2: the inline tokenizer with the html rule and a GUARDED
  memo never returns a Rust panic (the analogue of `Lemmas/InlineTotal{Def,Frame,Step,Loop}.lean`).

  `tokLoopHG cfg chain g` / `skipTokenHG cfg chain g` are `tokLoopH` / `skipTokenH` (`Model/InlineH.lean`)
  with ONE extra test when `g = true`: a memo hit of `skip_token` whose stored end lies BEYOND the current
  `pos_max` stops the run (`Panic.fuel`, the non-Rust outcome) — exactly the device of
  `Lemmas/InlineTotalDef.lean`.  With `g = false` they are the model functions (`HG_false`).

  Reuse.  The per-rule totality lemmas (`runRule_silent_T`, `flat_rule_step`, `linkRule_real_T` through
  `runRule_real_T`, `runRule_silent_calm`, `runRule_ranges`, `silentBumped_T`, `silentBumped_calm`) are stated
  against arbitrary `skip` / `tok` under the contracts `CalmFn`, `SkipHypT`, `TokHypT`, `RangesFn`, and
  are used VERBATIM.  New: the html rule meets each contract (`htmlRule_silT`, `htmlRule_realTL`,
  `htmlRule_ranges`), and the chain layer (`firstRuleG_*`, `skipStepG_*`, `tokStepG_*`, the induction on
  fuel) is re-proved over the id-polymorphic chain, statement by statement.

  `link_level`.  `TokHypT` (through `Inline.Frame`) says the nested tokenizer leaves `linkLevel` alone,
  which is false with the html rule; and the html rule panics when `link_level` leaves `i32`.  Both are
  handled by the STATE invariant

      LLPos st  :=  |st.linkLevel| ≤ 2 * st.pos + st.level

  (an html match moves `link_level` by one and `pos` by at least one; the link rule enters the label at
  `pos + 1` with `link_level + 1`, `level + 1`, and leaves at `end > labelEnd` with `- 1`).  Together with
  the size bound `2 * len + max_nesting < 2^31 - 1` it keeps `link_level` strictly inside `i32` at every
  call of the html rule.  `linkRule_real_T` is applied to

      tokP tok  :=  on states with `LLPos`: `tok` with `linkLevel` put back (`resetLL`);  elsewhere: stop

  which meets `TokHypT`, and the result is carried over to `tok` by `linkRule_reset_on` (the nested state
  of a link has `LLPos`) and `linkRule_real_ll` (what `link_level` really is afterwards).
-/
import MdIt.Lemmas.InlineH
import MdIt.Props.InlineTotal

namespace MdIt.InlineH
open MdIt.Inline
open MdIt.InlineOps (Srcmap getSourcePosFor getMap byteLen slice)
open MdIt.C05 (WFMap MonoMap byteLen_append slice_ok_iff)

/-! ## 1. the guarded tokenizer -/

mutual
/-- `tokLoopH` over the guarded `skip_token` -/
def tokLoopHG (cfg : Cfg) (chain : List RuleIdH) (g : Bool) : Nat → Nat → IState → Except Panic IState
  | fuel, end_, st =>
    if st.pos < end_ then
      match fuel with
      | 0 => .error .fuel
      | fuel + 1 =>
        match tokStepG cfg.maxNesting chain
            (runRuleH cfg (fun s => skipTokenHG cfg chain g fuel s)
              (fun s => tokLoopHG cfg chain g fuel s.posMax s) fuel) st with
        | .error e => .error e
        | .ok st' => tokLoopHG cfg chain g fuel end_ st'
    else .ok st
/-- `skipTokenH` with the guard on memo hits -/
def skipTokenHG (cfg : Cfg) (chain : List RuleIdH) (g : Bool) : Nat → IState → Except Panic IState
  | 0, _ => .error .fuel
  | fuel + 1, st =>
    match st.cache.lookup st.pos with
    | some x =>
      -- the guard: a memoised end beyond the current `pos_max`
      if g = true ∧ st.posMax < x then .error .fuel else .ok { st with pos := x }
    | none =>
      if st.level < cfg.maxNesting then
        skipStepG chain
          (runRuleH cfg (fun s => skipTokenHG cfg chain g fuel s)
            (fun s => tokLoopHG cfg chain g fuel s.posMax s) fuel) st
      else
        .ok { st with pos := st.posMax, cache := cacheInsert st.cache st.pos st.posMax }
end

/-- `parseInlineH` over the guarded tokenizer -/
def parseInlineHG (cfg : CfgH) (content : List Char) (mapping : Srcmap) : Except Panic (List Node) :=
  match tokLoopHG cfg.base cfg.chain true (topFuel cfg.base content) (IState.init content mapping).posMax
      (IState.init content mapping) with
  | .error e => .error e
  | .ok st => .ok st.children

/-- the executable memo check: the guarded run completes -/
def memoSafeH (cfg : CfgH) (content : List Char) (mapping : Srcmap) : Bool :=
  match parseInlineHG cfg content mapping with
  | .ok _ => true
  | .error _ => false

/-- with the guard off the guarded functions are the model functions -/
theorem HG_false (cfg : Cfg) (chain : List RuleIdH) : ∀ fuel : Nat,
    (∀ e st, tokLoopHG cfg chain false fuel e st = tokLoopH cfg chain fuel e st) ∧
    (∀ st, skipTokenHG cfg chain false fuel st = skipTokenH cfg chain fuel st) := by
  intro fuel
  induction fuel with
  | zero =>
    refine ⟨fun e st => ?_, fun st => ?_⟩
    · unfold tokLoopHG tokLoopH; rfl
    · unfold skipTokenHG skipTokenH; rfl
  | succ f ih =>
    have hs : (fun s => skipTokenHG cfg chain false f s) = (fun s => skipTokenH cfg chain f s) :=
      funext ih.2
    have ht : (fun s => tokLoopHG cfg chain false f s.posMax s) =
        (fun s => tokLoopH cfg chain f s.posMax s) := funext (fun s => ih.1 _ s)
    refine ⟨fun e st => ?_, fun st => ?_⟩
    · unfold tokLoopHG tokLoopH
      simp only [hs, ih.1]
      rfl
    · unfold skipTokenHG skipTokenH
      simp only [hs, ht]
      cases List.lookup st.pos st.cache with
      | none => rfl
      | some x => simp

/-! ## 2. partial correctness: calm look-ahead, the range invariant -/

theorem htmlRule_silent_same {st st' : IState} {o : Option Nat} (h : htmlRule st true = .ok (o, st')) :
    st' = st := by
  rcases htmlRule_cases h with ⟨_, rfl⟩ | ⟨_, _, _, rfl⟩ | ⟨_, _, _, _, hs, _⟩
  · rfl
  · rfl
  · cases hs

theorem runRuleH_silent_calm {cfg : Cfg} {skip tok : IState → Except Panic IState} (hq : CalmFn skip)
    {fuel : Nat} {id : RuleIdH} {st : IState} {o : Option Nat} {st' : IState}
    (h : runRuleH cfg skip tok fuel id st true = .ok (o, st')) : Calm st st' := by
  cases id with
  | base r => exact runRule_silent_calm hq h
  | html => rw [htmlRule_silent_same h]; exact Calm.refl _

theorem firstRuleG_calm {ι : Type} {run : ι → IState → RuleRes}
    (hrun : ∀ id s o s', run id s = .ok (o, s') → Calm s s') :
    ∀ (rules : List ι) (st : IState) (o : Option Nat) (st' : IState),
      firstRuleG run rules st = .ok (o, st') → Calm st st' := by
  intro rules
  induction rules with
  | nil =>
    intro st o st' h
    simp only [firstRuleG, Except.ok.injEq, Prod.mk.injEq] at h; rw [← h.2]; exact Calm.refl _
  | cons r rs ih =>
    intro st o st' h
    unfold firstRuleG at h
    split at h
    · simp at h
    · next n st1 hr =>
      simp only [Except.ok.injEq, Prod.mk.injEq] at h; rw [← h.2]; exact hrun _ _ _ _ hr
    · next st1 hr => exact (hrun _ _ _ _ hr).trans (ih _ _ _ h)

theorem skipStepG_calm {cfg : Cfg} {chain : List RuleIdH} {skip tok : IState → Except Panic IState}
    (hq : CalmFn skip) {fuel : Nat} {st st' : IState}
    (h : skipStepG chain (runRuleH cfg skip tok fuel) st = .ok st') : Calm st st' := by
  have hfr : ∀ o st1, firstRuleG (fun id s => silentBumped (runRuleH cfg skip tok fuel id) s) chain st
      = .ok (o, st1) → Calm st st1 :=
    fun o st1 hok => firstRuleG_calm
      (fun id s o s' hr => silentBumped_calm (fun s2 o2 s2' hr2 => runRuleH_silent_calm hq hr2) hr) _ _ _ _ hok
  unfold skipStepG at h
  simp only at h
  split at h
  · simp at h
  · next len st1 hok =>
    simp only [Except.ok.injEq] at h; rw [← h]
    have q := hfr _ _ hok
    exact ⟨q.children, q.bottoms, q.src, q.srcmap, q.posMax, q.level, q.linkLevel⟩
  · next st1 hok =>
    have q := hfr _ _ hok
    split at h
    · simp at h
    · simp only [Except.ok.injEq] at h; rw [← h]
      exact ⟨q.children, q.bottoms, q.src, q.srcmap, q.posMax, q.level, q.linkLevel⟩

/-- **the guarded `skip_token` is calm**, at every fuel -/
theorem skipTokenHG_calm (cfg : Cfg) (chain : List RuleIdH) (g : Bool) :
    ∀ fuel : Nat, CalmFn (fun s => skipTokenHG cfg chain g fuel s) := by
  intro fuel
  induction fuel with
  | zero => intro s s' h; simp [skipTokenHG] at h
  | succ f ih =>
    intro s s' h
    simp only at h
    unfold skipTokenHG at h
    split at h
    · split at h
      · simp at h
      · simp only [Except.ok.injEq] at h; rw [← h]; exact ⟨rfl, rfl, rfl, rfl, rfl, rfl, rfl⟩
    · split at h
      · exact skipStepG_calm ih h
      · simp only [Except.ok.injEq] at h; rw [← h]; exact ⟨rfl, rfl, rfl, rfl, rfl, rfl, rfl⟩

/-- the html node is a well-ranged leaf that is neither text nor a delimiter run -/
theorem htmlRule_ranges {lo : Nat} {st st' : IState} {o : Option Nat}
    (hm : MapOK st.src st.srcmap) (hi : RInv lo st) (h : htmlRule st false = .ok (o, st')) :
    StepOK lo st o st' := by
  rcases htmlRule_cases h with ⟨rfl, rfl⟩ | ⟨_, _, hs, _⟩ | ⟨n, ll, nd, rfl, _, he, rfl⟩
  · exact stepOK_calm hi (Calm.refl _) rfl
  · cases hs
  · obtain ⟨_, _, _, e1, e2, _⟩ := Html.htmlInline_node he
    refine ⟨rfl, rfl, ?_, by intro h; simp at h⟩
    simp only [Option.getD_some]
    have hle : nd.range.1 ≤ nd.range.2 := tr_mono hm (by omega) e1 e2
    exact RI.push hi e1 e2 (n := htmlNode nd) rfl (Nat.le_refl _) hle (Nat.le_refl _)
      (wellRanged_leaf hle) rfl rfl

theorem runRuleH_ranges {cfg : Cfg} {skip tok : IState → Except Panic IState} (hq : CalmFn skip)
    (ht : RangesFn tok) {fuel : Nat} {id : RuleIdH} {lo : Nat} {st : IState} {o : Option Nat}
    {st' : IState} (hm : MapOK st.src st.srcmap) (hi : RInv lo st)
    (h : runRuleH cfg skip tok fuel id st false = .ok (o, st')) : StepOK lo st o st' := by
  cases id with
  | base r => exact runRule_ranges hq ht hm hi h
  | html => exact htmlRule_ranges hm hi h

theorem firstRuleG_ranges {ι : Type} {run : ι → IState → RuleRes} {lo : Nat}
    (hrun : ∀ id s o s', MapOK s.src s.srcmap → RInv lo s → run id s = .ok (o, s') → StepOK lo s o s') :
    ∀ (rules : List ι) (st : IState) (o : Option Nat) (st' : IState),
      MapOK st.src st.srcmap → RInv lo st → firstRuleG run rules st = .ok (o, st') →
      StepOK lo st o st' := by
  intro rules
  induction rules with
  | nil =>
    intro st o st' hm hi h
    simp only [firstRuleG, Except.ok.injEq, Prod.mk.injEq] at h; obtain ⟨rfl, rfl⟩ := h
    exact stepOK_calm hi (Calm.refl _) rfl
  | cons r rs ih =>
    intro st o st' hm hi h
    unfold firstRuleG at h
    split at h
    · simp at h
    · next n st1 hr =>
      simp only [Except.ok.injEq, Prod.mk.injEq] at h; obtain ⟨rfl, rfl⟩ := h
      exact hrun _ _ _ _ hm hi hr
    · next st1 hr =>
      have s1 := hrun _ _ _ _ hm hi hr
      have hi1 : RInv lo st1 := by
        have := s1.ri
        simp only [Option.getD_none, Nat.add_zero] at this
        unfold RInv; rw [s1.src, s1.srcmap]; exact this
      have hm1 : MapOK st1.src st1.srcmap := by rw [s1.src, s1.srcmap]; exact hm
      have s2 := ih st1 o st' hm1 hi1 h
      refine ⟨s2.src.trans s1.src, s2.srcmap.trans s1.srcmap, ?_, ?_⟩
      · have := s2.ri; rw [s1.src, s1.srcmap] at this; exact this
      · intro ho; rw [s2.pos ho, s1.pos rfl]

theorem tokStepG_ranges {cfg : Cfg} {chain : List RuleIdH} {skip tok : IState → Except Panic IState}
    (hq : CalmFn skip) (ht : RangesFn tok) {fuel : Nat} {lo : Nat} {st st' : IState}
    (hm : MapOK st.src st.srcmap) (hi : RInv lo st)
    (h : tokStepG cfg.maxNesting chain (runRuleH cfg skip tok fuel) st = .ok st') :
    st'.src = st.src ∧ st'.srcmap = st.srcmap ∧ RInv lo st' := by
  have hok : ∀ o st1, (if st.level < cfg.maxNesting then
        firstRuleG (fun id s => runRuleH cfg skip tok fuel id s false) chain st
      else .ok (none, st)) = .ok (o, st1) → StepOK lo st o st1 := by
    intro o st1 hh
    split at hh
    · exact firstRuleG_ranges (fun id s o s' hms his hr => runRuleH_ranges hq ht hms his hr) _ _ _ _ hm hi hh
    · simp only [Except.ok.injEq, Prod.mk.injEq] at hh; obtain ⟨rfl, rfl⟩ := hh
      exact stepOK_calm hi (Calm.refl _) rfl
  unfold tokStepG at h
  simp only at h
  split at h
  · simp at h
  · next len st1 hr =>
    simp only [Except.ok.injEq] at h; subst h
    have s1 := hok _ _ hr
    refine ⟨s1.src, s1.srcmap, ?_⟩
    have := s1.ri
    simp only [Option.getD_some] at this
    unfold RInv; simp only; rw [s1.src, s1.srcmap]; exact this
  · next st1 hr =>
    have s1 := hok _ _ hr
    have hi1 : RInv lo st1 := by
      have := s1.ri
      simp only [Option.getD_none, Nat.add_zero] at this
      unfold RInv; rw [s1.src, s1.srcmap]; exact this
    have hm1 : MapOK st1.src st1.srcmap := by rw [s1.src, s1.srcmap]; exact hm
    split at h
    · simp at h
    · next ch hch =>
      split at h
      · simp at h
      · next st2 hp =>
        simp only [Except.ok.injEq] at h; subst h
        have hp' := liftR_ok.mp hp
        have := fallback_ranges hm1 hi1 hp'
        obtain ⟨cs, _, rfl⟩ := pushText_eq hp'
        exact ⟨s1.src, s1.srcmap, this⟩

/-- **the frame invariant through the guarded tokenizer** -/
theorem ranges_inductionHG (cfg : Cfg) (chain : List RuleIdH) (g : Bool) : ∀ fuel : Nat,
    ∀ (e lo : Nat) (st st' : IState), MapOK st.src st.srcmap → tokLoopHG cfg chain g fuel e st = .ok st' →
      RInv lo st → st'.src = st.src ∧ st'.srcmap = st.srcmap ∧ RInv lo st' := by
  intro fuel
  induction fuel with
  | zero =>
    intro e lo st st' hm h hi
    unfold tokLoopHG at h
    split at h
    · simp at h
    · simp only [Except.ok.injEq] at h; subst h; exact ⟨rfl, rfl, hi⟩
  | succ f ih =>
    intro e lo st st' hm h hi
    unfold tokLoopHG at h
    split at h
    · simp only at h
      split at h
      · simp at h
      · next st1 hstep =>
        have ht : RangesFn (fun s => tokLoopHG cfg chain g f s.posMax s) :=
          fun lo s s' hms hr his => ih _ lo s s' hms hr his
        obtain ⟨a, b, c⟩ := tokStepG_ranges (skipTokenHG_calm cfg chain g f) ht hm hi hstep
        have hm1 : MapOK st1.src st1.srcmap := by rw [a, b]; exact hm
        obtain ⟨a', b', c'⟩ := ih e lo st1 st' hm1 h c
        exact ⟨a'.trans a, b'.trans b, c'⟩
    · simp only [Except.ok.injEq] at h; subst h; exact ⟨rfl, rfl, hi⟩

theorem rangesFnHG (cfg : Cfg) (chain : List RuleIdH) (g : Bool) (fuel : Nat) :
    RangesFn (fun s => tokLoopHG cfg chain g fuel s.posMax s) :=
  fun lo s s' hms hr his => ranges_inductionHG cfg chain g fuel _ lo s s' hms hr his

/-! ## 3. `link_level`: the state invariant and the size bound -/

/-- `|link_level| ≤ 2 * pos + level` -/
def LLPos (st : IState) : Prop :=
  -((2 * st.pos + st.level : Nat) : Int) ≤ st.linkLevel ∧ st.linkLevel ≤ ((2 * st.pos + st.level : Nat) : Int)

instance (st : IState) : Decidable (LLPos st) := by unfold LLPos; infer_instance

/-- the size bound: `2 * len + max_nesting < 2^31 - 1` -/
def SizeOK (cfg : Cfg) (src : List Char) : Prop := 2 * byteLen src + cfg.maxNesting < 2147483647

instance (cfg : Cfg) (src : List Char) : Decidable (SizeOK cfg src) := by unfold SizeOK; infer_instance

theorem LLPos.add_zero {st : IState} (h : LLPos st) : LLPos { st with pos := st.pos + 0 } := by
  cases st; simpa using h

/-- under the invariant and the size bound `link_level` is strictly inside `i32` wherever a rule is called -/
theorem llpos_i32 {cfg : Cfg} {st : IState} (h : LLPos st) (hs : SizeOK cfg st.src) (hlt : st.pos < st.posMax)
    (hb : Boundary st.src st.posMax) (hlev : st.level < cfg.maxNesting) :
    Html.i32Min < st.linkLevel ∧ st.linkLevel < Html.i32Max := by
  have := hb.le_len
  unfold LLPos at h
  unfold SizeOK at hs
  unfold Html.i32Min Html.i32Max
  omega

/-! ## 4. the contracts with `FrameL` and `LLPos` -/

/-- `Inline.TokT` with `FrameL`, keeping `LLPos` -/
structure TokTL (st : IState) (r : Except Panic IState) : Prop where
  noRust : NoRust r
  ok : ∀ st', r = .ok st' → FrameL st st' ∧ MemoB st' ∧ st'.pos ≤ st'.posMax ∧ LLPos st'

def TokHypTL (cfg : Cfg) (tok : IState → Except Panic IState) : Prop :=
  ∀ lo s, Good lo s → MemoB s → LLPos s → SizeOK cfg s.src → TokTL s (tok s)

/-- `Inline.StepT` with `FrameL`, keeping `LLPos` at the position the tokenizer continues from -/
structure StepTL (lo : Nat) (st : IState) (o : Option Nat) (st' : IState) : Prop where
  good : Good lo { st' with pos := st'.pos + o.getD 0 }
  memo : MemoB st'
  frame : FrameL st st'
  nonePos : o = none → st'.pos = st.pos
  adv : ∀ len, o = some len → st.pos < st'.pos + len
  ll : LLPos { st' with pos := st'.pos + o.getD 0 }

structure RealTL (lo : Nat) (st : IState) (r : RuleRes) : Prop where
  noRust : NoRust r
  ok : ∀ o st', r = .ok (o, st') → StepTL lo st o st'

theorem StepTL.ofStepT {lo : Nat} {st st' : IState} {o : Option Nat} (h : StepT lo st o st')
    (hll : LLPos st) : StepTL lo st o st' := by
  refine ⟨h.good, h.memo, FrameL.ofFrame h.frame, h.nonePos, h.adv, ?_⟩
  unfold LLPos at hll ⊢
  simp only
  rw [h.frame.linkLevel, h.frame.level]
  cases o with
  | none => simp only [Option.getD_none, Nat.add_zero]; rw [h.nonePos rfl]; exact hll
  | some len => have := h.adv len rfl; simp only [Option.getD_some]; omega

theorem RealTL.declined {lo : Nat} {st : IState} (hg : Good lo st) (hm : MemoB st) (hll : LLPos st) :
    RealTL lo st (.ok (none, st)) :=
  ⟨NoRust.ok _, by
    intro o st' h
    simp only [Except.ok.injEq, Prod.mk.injEq] at h; obtain ⟨rfl, rfl⟩ := h
    exact ⟨hg.add_zero, hm, FrameL.refl _, fun _ => rfl, by intro len h; simp at h, hll.add_zero⟩⟩

/-- `tok` on states with the invariant and the size bound, `link_level` put back; elsewhere: stop -/
def tokP (cfg : Cfg) (tok : IState → Except Panic IState) : IState → Except Panic IState :=
  fun s => if LLPos s ∧ SizeOK cfg s.src then resetLL tok s else .error .fuel

theorem tokP_hypT {cfg : Cfg} {tok : IState → Except Panic IState} (ht : TokHypTL cfg tok) :
    TokHypT (tokP cfg tok) := by
  intro lo s hg hm
  unfold tokP
  split
  · next hp =>
    have h := ht lo s hg hm hp.1 hp.2
    unfold resetLL
    split
    · next e he =>
      refine ⟨?_, by intro st' h; simp at h⟩
      intro p hpp; simp only [Except.error.injEq] at hpp; subst hpp; exact h.noRust p he
    · next s' he =>
      refine ⟨NoRust.ok _, ?_⟩
      intro st' hh
      simp only [Except.ok.injEq] at hh; subst hh
      obtain ⟨a, b, c, _⟩ := h.ok s' he
      exact ⟨⟨a.src, a.srcmap, a.posMax, a.level, rfl⟩, b, c⟩
  · exact ⟨NoRust.fuel, by intro st' h; simp at h⟩

theorem tokP_ranges {cfg : Cfg} {tok : IState → Except Panic IState} (hr : RangesFn tok) :
    RangesFn (tokP cfg tok) := by
  intro lo s s' hms h his
  unfold tokP at h
  split at h
  · unfold resetLL at h
    split at h
    · simp at h
    · next s2 he =>
      simp only [Except.ok.injEq] at h; subst h
      exact hr lo s s2 hms he his
  · simp at h

/-- the state the link rule hands to the nested `tokenize` -/
abbrev nested (st1 : IState) (res : LinkRes) : IState :=
  IState.mk st1.src st1.srcmap res.labelStart res.labelEnd (st1.level + 1) (st1.linkLevel + 1)
    st1.cache st1.backticks [] []

/-- `linkRule_reset` for `tokP`: enough that the nested state has the invariant -/
theorem linkRule_reset_on (cfg : Cfg) (skip tok : IState → Except Panic IState) (fuel : Nat)
    (mk : List Nat → Option (List Char) → Val) (en : Bool) (offset : Nat) (st : IState)
    (hP : ∀ res st1, parseLink cfg skip fuel st (st.pos + offset) en = .ok (some res, st1) →
      LLPos (nested st1 res) ∧ SizeOK cfg st1.src) :
    EqLL (linkRule cfg skip tok fuel mk en offset st false)
      (linkRule cfg skip (tokP cfg tok) fuel mk en offset st false) := by
  unfold linkRule
  simp only
  split
  · exact EqLL.rfl' _
  · exact EqLL.rfl' _
  · next res st1 he =>
    have hk : tokP cfg tok (nested st1 res) = resetLL tok (nested st1 res) := by
      unfold tokP; exact if_pos (hP res st1 he)
    split
    · next hc => cases hc
    rw [hk]
    unfold resetLL
    simp only
    split
    · next e he2 => simp only [he2]; exact EqLL.rfl' _
    · next st3 he3 =>
      simp only [he3]
      split
      · exact EqLL.rfl' _
      · have hg : ∀ a b l, IState.getMap { st3 with linkLevel := l } a b = IState.getMap st3 a b := by
          intro a b l; rfl
        simp only [hg]
        split
        · exact EqLL.rfl' _
        · split
          · exact EqLL.rfl' _
          · refine ⟨fun e h => by simp at h, ?_⟩
            intro o s h
            simp only [Except.ok.injEq, Prod.mk.injEq] at h
            obtain ⟨rfl, rfl⟩ := h
            exact ⟨_, rfl⟩

/-- what `link_level`, `pos`, `level` really are behind the link rule in real mode -/
theorem linkRule_real_ll {cfg : Cfg} {skip tok : IState → Except Panic IState} {fuel : Nat}
    {mk : List Nat → Option (List Char) → Val} {en : Bool} {offset : Nat} {st : IState}
    {o : Option Nat} {s : IState}
    (h : linkRule cfg skip tok fuel mk en offset st false = .ok (o, s)) :
    (o = none ∧ parseLink cfg skip fuel st (st.pos + offset) en = .ok (none, s)) ∨
    (∃ res st1 st3, parseLink cfg skip fuel st (st.pos + offset) en = .ok (some res, st1) ∧
      tok (nested st1 res) = .ok st3 ∧ s.linkLevel = st3.linkLevel - 1 ∧ s.pos = st3.pos ∧
      s.level = st3.level - 1 ∧ st3.pos ≤ res.endPos ∧ o = some (res.endPos - st3.pos)) := by
  unfold linkRule at h
  simp only at h
  split at h
  · simp at h
  · next st1 he =>
    simp only [Except.ok.injEq, Prod.mk.injEq] at h; obtain ⟨rfl, rfl⟩ := h
    exact .inl ⟨rfl, he⟩
  · next res st1 he =>
    split at h
    · next hc => cases hc
    split at h
    · simp at h
    · next st3 he3 =>
      split at h
      · simp at h
      · split at h
        · simp at h
        · split at h
          · simp at h
          · next hnu =>
            simp only [Except.ok.injEq, Prod.mk.injEq] at h; obtain ⟨rfl, rfl⟩ := h
            refine .inr ⟨res, st1, st3, he, he3, rfl, rfl, rfl, ?_, rfl⟩
            omega

/-- the nested frame of a link is good (the `hnest` step of `Inline.linkRule_real_T`) -/
theorem nested_good {cfg : Cfg} {skip : IState → Except Panic IState} (hq : CalmFn skip)
    (hs : SkipHypT skip) (fuel : Nat) (en : Bool) (offset : Nat) {lo : Nat} (st : IState)
    (hg : Good lo st) (hm : MemoB st)
    (hb : Boundary st.src (st.pos + offset + 1)) (hle : st.pos + offset + 1 ≤ st.posMax)
    {res : LinkRes} {st1 : IState}
    (he : parseLink cfg skip fuel st (st.pos + offset) en = .ok (some res, st1)) :
    (∃ lo', Good lo' (nested st1 res)) ∧ MemoB (nested st1 res) ∧ Calm st st1 ∧
      LinkResT st (st.pos + offset) res := by
  have hi := hg.linv hm
  have hpl := parseLink_T (cfg := cfg) hq hs fuel st (st.pos + offset) en hi hb hle
  obtain ⟨a, b, c, d⟩ := hpl.2 _ _ he
  have hres := d res rfl
  obtain ⟨rx, hrx⟩ := hres.bracket
  have hm1 : MapOK st1.src st1.srcmap := by rw [b.src, b.srcmap]; exact hg.map
  obtain ⟨lo', hlo'⟩ := C05.translate_total st1.srcmap hm1.wf res.labelStart
  refine ⟨⟨lo', ⟨hres.labelLe, ?_, ?_, hm1, ?_, ?_, ?_⟩⟩, a.memo, b, hres⟩
  · show Boundary st1.src res.labelStart
    rw [b.src, hres.labelStart]; exact hb
  · show Boundary st1.src res.labelEnd
    rw [b.src]; exact (slice_boundaries hrx).1
  · show EntStop st1.src res.labelEnd
    intro pre c post hsrc hl
    obtain ⟨p, q, e, l1, _⟩ := (slice_ok_iff _ _ _ _).mp hrx
    rw [b.src] at hsrc
    have := C05.append_inj_byteLen pre (c :: post) p (']' :: rx ++ q)
      (by rw [← hsrc, e]; simp) (by rw [hl, l1])
    have hc : c = ']' := by
      have h2 := this.2
      simp only [List.cons_append, List.cons.injEq] at h2
      exact h2.1
    rw [hc]; exact isEntChar_bracket
  · exact ⟨⟨lo', hlo', Nat.le_refl _⟩, trivial, markersOK_nil, by intro init last hcs; simp at hcs⟩
  · intro k l hkl; simp at hkl

/-! ## 5. one rule in real mode -/

/-- **the link rule over a tokenizer with the html rule** -/
theorem linkRule_realTL {cfg : Cfg} {skip tok : IState → Except Panic IState} (hq : CalmFn skip)
    (hs : SkipHypT skip) (ht : TokHypTL cfg tok) (hr : RangesFn tok) (fuel : Nat)
    (mk : List Nat → Option (List Char) → Val)
    (hmk : ∀ u t, ∀ c, mk u t ≠ .text c) (hmk2 : ∀ u t r cs, (Node.mk (mk u t) r cs).asMarker = none)
    (en : Bool) (offset : Nat) {lo : Nat} (st : IState) (hg : Good lo st) (hm : MemoB st)
    (hb : Boundary st.src (st.pos + offset + 1)) (hle : st.pos + offset + 1 ≤ st.posMax)
    (hll : LLPos st) (hsize : SizeOK cfg st.src) :
    RealTL lo st (linkRule cfg skip tok fuel mk en offset st false) := by
  have hT := linkRule_real_T (cfg := cfg) hq hs (tokP_hypT ht) (tokP_ranges hr) fuel mk hmk hmk2 en offset
    st hg hm hb hle
  have hP : ∀ res st1, parseLink cfg skip fuel st (st.pos + offset) en = .ok (some res, st1) →
      LLPos (nested st1 res) ∧ SizeOK cfg st1.src := by
    intro res st1 he
    obtain ⟨_, _, b, hres⟩ := nested_good hq hs fuel en offset st hg hm hb hle he
    refine ⟨?_, by rw [b.src]; exact hsize⟩
    unfold LLPos at hll ⊢
    unfold nested
    simp only
    rw [b.linkLevel, b.level, hres.labelStart]
    omega
  have heq := linkRule_reset_on cfg skip tok fuel mk en offset st hP
  refine ⟨?_, ?_⟩
  · intro p hp
    exact hT.1 p (heq.1 _ hp)
  · intro o s h
    obtain ⟨l, h'⟩ := heq.2 o s h
    have T := hT.2 _ _ h'
    refine ⟨⟨T.good.le, T.good.bpos, T.good.bmax, T.good.map, T.good.stop, T.good.ri, T.good.bottoms⟩,
      T.memo, ⟨T.frame.src, T.frame.srcmap, T.frame.posMax, T.frame.level⟩, T.nonePos, T.adv, ?_⟩
    rcases linkRule_real_ll h with ⟨rfl, hpl⟩ | ⟨res, st1, st3, he, he3, e1, e2, e3, e4, rfl⟩
    · -- declined: nothing but the memo changed
      have hi := hg.linv hm
      obtain ⟨_, b, c, _⟩ := (parseLink_T (cfg := cfg) hq hs fuel st (st.pos + offset) en hi hb hle).2 _ _ hpl
      unfold LLPos at hll ⊢
      simp only [Option.getD_none, Nat.add_zero]
      rw [b.linkLevel, b.level, c]; exact hll
    · obtain ⟨⟨lo', hg2⟩, hm2, b, hres⟩ := nested_good hq hs fuel en offset st hg hm hb hle he
      obtain ⟨f3, _, hle3, hll3⟩ := (ht lo' _ hg2 hm2 (hP res st1 he).1 (hP res st1 he).2).ok st3 he3
      have hpm : st3.posMax = res.labelEnd := f3.posMax
      have hlv : st3.level = st1.level + 1 := f3.level
      have h3 := hres.endGt
      unfold LLPos at hll3 ⊢
      simp only [Option.getD_some]
      rw [e1, e2, e3, hlv]
      have := b.level
      omega

theorem boundary_after_first {st : IState} {c : Char} {rest : List Char} (hc : c.utf8Size = 1)
    (h : slice st.src st.pos st.posMax = .ok (c :: rest)) :
    Boundary st.src (st.pos + 0 + 1) ∧ st.pos + 0 + 1 ≤ st.posMax := by
  have := after_first hc h
  simpa using this

/-- **the html rule in real mode**: no Rust panic, and the state it leaves is good again -/
theorem htmlRule_realTL {cfg : Cfg} {lo : Nat} {st : IState} (hg : Good lo st) (hm : MemoB st)
    (hlt : st.pos < st.posMax) (hll : LLPos st) (hsize : SizeOK cfg st.src)
    (hlev : st.level < cfg.maxNesting) : RealTL lo st (htmlRule st false) := by
  have hi := hg.inv hlt
  obtain ⟨o, st', hr, hadv⟩ := htmlRule_fires hi false (llpos_i32 hll hsize hlt hg.bmax hlev)
  refine ⟨noRust_of_eq hr, ?_⟩
  intro o2 st2 h2
  rw [hr] at h2
  simp only [Except.ok.injEq, Prod.mk.injEq] at h2; obtain ⟨rfl, rfl⟩ := h2
  have hstep := htmlRule_ranges hg.map hg.ri hr
  rcases htmlRule_cases hr with ⟨rfl, rfl⟩ | ⟨_, _, hs, _⟩ | ⟨n, ll, nd, rfl, _, he, rfl⟩
  · exact ⟨hg.add_zero, hm, FrameL.refl _, fun _ => rfl, by intro len h; simp at h, hll.add_zero⟩
  · cases hs
  · obtain ⟨h1, h2, h3⟩ := hadv n rfl
    refine ⟨⟨h2, h3, hg.bmax, hg.map, hg.stop, hstep.ri, hg.bottoms⟩, hm, ⟨rfl, rfl, rfl, rfl⟩,
      by intro h; simp at h, ?_, ?_⟩
    · intro len hl; simp only [Option.some.injEq] at hl; subst hl; simp only; omega
    · have hl := Html.htmlInline_link_level he
      unfold LLPos at hll ⊢
      simp only [Option.getD_some] at hl ⊢
      rcases hl with hl | ⟨⟨hl, _⟩ | ⟨hl, _⟩, _⟩ <;> omega

theorem runRuleH_realTL {cfg : Cfg} (hsz : ∀ mk csw, RuleId.emph mk csw ∈ cfg.chain → mk.utf8Size = 1)
    {skip tok : IState → Except Panic IState} (hq : CalmFn skip) (hs : SkipHypT skip)
    (ht : TokHypTL cfg tok) (hr : RangesFn tok) (fuel : Nat) {id : RuleIdH}
    (hid : ∀ r, id = .base r → r ∈ cfg.chain)
    {lo : Nat} (st : IState) (hg : Good lo st) (hm : MemoB st) (hlt : st.pos < st.posMax)
    (hll : LLPos st) (hsize : SizeOK cfg st.src) (hlev : st.level < cfg.maxNesting) :
    RealTL lo st (runRuleH cfg skip tok fuel id st false) := by
  cases id with
  | html => exact htmlRule_realTL hg hm hlt hll hsize hlev
  | base r =>
    have hr' := hid r rfl
    simp only [runRuleH]
    by_cases hflat : r.isFlat = true
    · obtain ⟨o, st', h, f⟩ := flat_rule_step hsz (skip := skip) (tok := tok) (fuel := fuel) hr' hflat hg hlt
      refine ⟨noRust_of_eq h, ?_⟩
      intro o2 st2 h2
      rw [h] at h2
      simp only [Except.ok.injEq, Prod.mk.injEq] at h2; obtain ⟨rfl, rfl⟩ := h2
      have hc := runRule_flat_cache hflat h
      apply StepTL.ofStepT _ hll
      refine ⟨f.good hg, ?_, f.frame, fun _ => f.pos, ?_⟩
      · intro k v hkv
        rw [hc] at hkv
        rw [f.frame.src]; exact hm k v hkv
      · intro len hl
        have := (f.adv len hl).1
        rw [f.pos]; omega
    · have hi := hg.linv hm
      obtain ⟨w, hw, hsl, hlen⟩ := hi.window
      cases r with
      | link =>
        unfold runRule
        simp only
        unfold ruleLink
        rw [hw]
        simp only [liftR]
        cases w with
        | nil => simp only [byteLen] at hlen; omega
        | cons c rest =>
          simp only
          split
          · exact RealTL.declined hg hm hll
          · next hc =>
            have hc' : c = '[' := by simpa using hc
            subst hc'
            obtain ⟨hb, hle⟩ := boundary_after_first (by decide) hsl
            exact linkRule_realTL hq hs ht hr fuel Val.link
              (by intro u t c h; cases h) (by intro u t r cs; rfl) false 0 st hg hm hb hle hll hsize
      | image =>
        unfold runRule
        simp only
        unfold ruleImage
        rw [hw]
        simp only [liftR]
        split
        · next e heq => simp at heq
        · next r heq =>
          simp only [Except.ok.injEq] at heq
          subst heq
          obtain ⟨hb, hle⟩ := after_second (by decide) (by decide) hsl
          exact linkRule_realTL hq hs ht hr fuel Val.image
            (by intro u t c h; cases h) (by intro u t r cs; rfl) true 1 st hg hm hb hle hll hsize
        · exact RealTL.declined hg hm hll
      | _ => simp [RuleId.isFlat] at hflat

/-! ## 6. look-ahead mode: one rule, the chain, `skip_token` -/

theorem htmlRule_silT {st : IState} (hi : LInv st) (hlt : st.pos < st.posMax) :
    SilT st (htmlRule st true) := by
  refine ⟨?_, ?_⟩
  · intro p hp
    unfold htmlRule at hp
    split at hp
    · next e he =>
      have := (Html.htmlInline_only_overflow (hi.inv hlt) true he).2.1
      cases this
    · cases hp
    · cases hp
  · intro o st' h
    have hs := htmlRule_silent_same h
    subst hs
    exact ⟨hi, Calm.refl _, rfl, htmlRule_advances h⟩

theorem runRuleH_silent_T {cfg : Cfg} {skip tok : IState → Except Panic IState} (hq : CalmFn skip)
    (hs : SkipHypT skip) (fuel : Nat) (id : RuleIdH) (st : IState) (hi : LInv st)
    (hlt : st.pos < st.posMax) : SilT st (runRuleH cfg skip tok fuel id st true) := by
  cases id with
  | base r => exact runRule_silent_T hq hs fuel r st hi hlt
  | html => exact htmlRule_silT hi hlt

theorem firstRuleG_silent_T {ι : Type} {run : ι → IState → RuleRes}
    (hrun : ∀ id s, LInv s → s.pos < s.posMax → SilT s (run id s)) :
    ∀ (rules : List ι) (st : IState), LInv st → st.pos < st.posMax →
      SilT st (firstRuleG run rules st) := by
  intro rules
  induction rules with
  | nil => intro st hi _; unfold firstRuleG; exact SilT.declined hi
  | cons r rs ih =>
    intro st hi hlt
    have h1 := hrun r st hi hlt
    unfold firstRuleG
    split
    · next e he =>
      refine ⟨?_, by intro o st' h; simp at h⟩
      intro p hp; simp only [Except.error.injEq] at hp; subst hp; exact h1.noRust p he
    · next n st1 he =>
      refine ⟨NoRust.ok _, ?_⟩
      intro o st' h
      simp only [Except.ok.injEq, Prod.mk.injEq] at h; obtain ⟨rfl, rfl⟩ := h
      exact h1.ok _ _ he
    · next st1 he =>
      obtain ⟨a, b, c, _⟩ := h1.ok _ _ he
      have h2 := ih st1 a (by rw [c, b.posMax]; exact hlt)
      refine ⟨h2.noRust, ?_⟩
      intro o st' h
      obtain ⟨a', b', c', d'⟩ := h2.ok _ _ h
      refine ⟨a', b.trans b', by rw [c', c], ?_⟩
      intro len hl
      have := d' len hl
      rw [c, b.posMax, b.src] at this
      exact this

/-- one run of the chain in look-ahead mode inside `skip_token` (`skipStep_T`) -/
theorem skipStepG_T {cfg : Cfg} {chain : List RuleIdH} {skip tok : IState → Except Panic IState}
    (hq : CalmFn skip) (hs : SkipHypT skip) (fuel : Nat) (st : IState) (hi : LInv st)
    (hlt : st.pos < st.posMax) : SkipT st (skipStepG chain (runRuleH cfg skip tok fuel) st) := by
  have hok : SilT st
      (firstRuleG (fun id s => silentBumped (runRuleH cfg skip tok fuel id) s) chain st) := by
    apply firstRuleG_silent_T _ chain st hi hlt
    intro id s his hls
    apply silentBumped_T
    exact runRuleH_silent_T hq hs fuel id _ ⟨his.le, his.bpos, his.bmax, his.wf, his.stop, his.memo⟩ hls
  unfold skipStepG
  simp only
  split
  · next e he =>
    refine ⟨?_, by intro st' h; simp at h⟩
    intro p hp; simp only [Except.error.injEq] at hp; subst hp; exact hok.noRust p he
  · next len st1 he =>
    obtain ⟨a, b, c, d⟩ := hok.ok _ _ he
    obtain ⟨d1, d2, d3⟩ := d len rfl
    refine ⟨NoRust.ok _, ?_⟩
    intro st' h
    simp only [Except.ok.injEq] at h; subst h
    rw [c]
    refine ⟨?_, by simp only; omega, d2, d3⟩
    intro k v hkv
    exact MemoB.insert a.memo (by omega) (by rw [b.src]; exact d3) k v hkv
  · next st1 he =>
    obtain ⟨a, b, c, _⟩ := hok.ok _ _ he
    have hlt1 : st1.pos < st1.posMax := by rw [c, b.posMax]; exact hlt
    obtain ⟨w, hw, hsl, hlen⟩ := a.window
    unfold firstChar
    rw [hw]
    simp only [liftR]
    cases w with
    | nil => simp only [byteLen] at hlen; omega
    | cons ch rest =>
      simp only
      have hc := Char.utf8Size_pos ch
      have hb : Boundary st1.src (st1.pos + ch.utf8Size) := by
        have := boundary_in_slice (u := [ch]) (v := rest) hsl
        simpa [byteLen] using this
      have hle : st1.pos + ch.utf8Size ≤ st1.posMax := by
        simp only [byteLen] at hlen; omega
      refine ⟨NoRust.ok _, ?_⟩
      intro st' h
      simp only [Except.ok.injEq] at h; subst h
      refine ⟨?_, by simp only; rw [c]; omega, by simp only; rw [← b.posMax]; exact hle,
        by simp only; rw [← b.src]; exact hb⟩
      intro k v hkv
      exact MemoB.insert a.memo (by rw [c]; omega) hb k v hkv

/-! ## 7. real mode: the chain, one step of `tokenize` -/

theorem firstRuleG_realTL {cfg : Cfg} (hsz : ∀ mk csw, RuleId.emph mk csw ∈ cfg.chain → mk.utf8Size = 1)
    {skip tok : IState → Except Panic IState} (hq : CalmFn skip) (hs : SkipHypT skip)
    (ht : TokHypTL cfg tok) (hr : RangesFn tok) (fuel : Nat) {lo : Nat} :
    ∀ (rules : List RuleIdH), (∀ r, RuleIdH.base r ∈ rules → r ∈ cfg.chain) →
      ∀ (st : IState), Good lo st → MemoB st → st.pos < st.posMax → LLPos st → SizeOK cfg st.src →
      st.level < cfg.maxNesting →
      RealTL lo st (firstRuleG (fun id s => runRuleH cfg skip tok fuel id s false) rules st) := by
  intro rules
  induction rules with
  | nil => intro _ st hg hm _ hll _ _; unfold firstRuleG; exact RealTL.declined hg hm hll
  | cons r rs ih =>
    intro hall st hg hm hlt hll hsize hlev
    have h1 := runRuleH_realTL hsz hq hs ht hr fuel (id := r)
      (fun r' hr' => hall r' (by rw [hr']; exact List.mem_cons_self)) st hg hm hlt hll hsize hlev
    unfold firstRuleG
    split
    · next e he =>
      refine ⟨?_, by intro o st' h; simp at h⟩
      intro p hp; simp only [Except.error.injEq] at hp; subst hp; exact h1.noRust p he
    · next n st1 he =>
      refine ⟨NoRust.ok _, ?_⟩
      intro o st' h
      simp only [Except.ok.injEq, Prod.mk.injEq] at h; obtain ⟨rfl, rfl⟩ := h
      exact h1.ok _ _ he
    · next st1 he =>
      have s1 := h1.ok _ _ he
      have hg1 : Good lo st1 := Good.of_add_zero (by simpa using s1.good)
      have hll1 : LLPos st1 := by
        have := s1.ll
        simp only [Option.getD_none] at this
        cases st1; simpa using this
      have hp1 := s1.nonePos rfl
      have h2 := ih (fun r' hr' => hall r' (List.mem_cons_of_mem _ hr')) st1 hg1 s1.memo
        (by rw [hp1, s1.frame.posMax]; exact hlt) hll1 (by rw [s1.frame.src]; exact hsize)
        (by rw [s1.frame.level]; exact hlev)
      refine ⟨h2.noRust, ?_⟩
      intro o st' h
      have s2 := h2.ok _ _ h
      exact ⟨s2.good, s2.memo, s1.frame.trans s2.frame, fun ho => by rw [s2.nonePos ho, hp1],
        by intro len hl; have := s2.adv len hl; rw [hp1] at this; exact this, s2.ll⟩

/-- **one iteration of the tokenizer loop does not panic** (`tokStep_T`) -/
theorem tokStepG_TL {cfg : Cfg} (hsz : ∀ mk csw, RuleId.emph mk csw ∈ cfg.chain → mk.utf8Size = 1)
    {chain : List RuleIdH} (hall : ∀ r, RuleIdH.base r ∈ chain → r ∈ cfg.chain)
    {skip tok : IState → Except Panic IState} (hq : CalmFn skip) (hs : SkipHypT skip)
    (ht : TokHypTL cfg tok) (hr : RangesFn tok) (fuel : Nat) {lo : Nat} (st : IState) (hg : Good lo st)
    (hm : MemoB st) (hlt : st.pos < st.posMax) (hll : LLPos st) (hsize : SizeOK cfg st.src) :
    NoRust (tokStepG cfg.maxNesting chain (runRuleH cfg skip tok fuel) st) ∧
    ∀ st', tokStepG cfg.maxNesting chain (runRuleH cfg skip tok fuel) st = .ok st' →
      Good lo st' ∧ MemoB st' ∧ FrameL st st' ∧ st.pos < st'.pos ∧ LLPos st' := by
  have hok : RealTL lo st (if st.level < cfg.maxNesting then
        firstRuleG (fun id s => runRuleH cfg skip tok fuel id s false) chain st
      else .ok (none, st)) := by
    split
    · next hlev => exact firstRuleG_realTL hsz hq hs ht hr fuel chain hall st hg hm hlt hll hsize hlev
    · exact RealTL.declined hg hm hll
  unfold tokStepG
  simp only
  split
  · next e he =>
    refine ⟨?_, by intro st' h; simp at h⟩
    intro p hp; simp only [Except.error.injEq] at hp; subst hp; exact hok.noRust p he
  · next len st1 he =>
    have s1 := hok.ok _ _ he
    refine ⟨NoRust.ok _, ?_⟩
    intro st' h
    simp only [Except.ok.injEq] at h; subst h
    exact ⟨by simpa using s1.good, s1.memo,
      ⟨s1.frame.src, s1.frame.srcmap, s1.frame.posMax, s1.frame.level⟩,
      s1.adv len rfl, by simpa using s1.ll⟩
  · next st1 he =>
    have s1 := hok.ok _ _ he
    have hg1 : Good lo st1 := Good.of_add_zero (by simpa using s1.good)
    have hll1 : LLPos st1 := by
      have := s1.ll
      simp only [Option.getD_none] at this
      cases st1; simpa using this
    have hp1 := s1.nonePos rfl
    have hlt1 : st1.pos < st1.posMax := by rw [hp1, s1.frame.posMax]; exact hlt
    obtain ⟨pre, w, post, hsrc, hpre, hlen, hw, hne⟩ := window_ok (hg1.inv hlt1)
    cases w with
    | nil => exact absurd rfl hne
    | cons ch rest =>
      have hfc : firstChar st1 = .ok ch := by unfold firstChar; rw [hw]; rfl
      rw [hfc]
      simp only
      have hsl := window_eq hw
      have hb : Boundary st1.src (st1.pos + ch.utf8Size) := by
        have := boundary_in_slice (u := [ch]) (v := rest) hsl
        simpa [byteLen] using this
      have hle : st1.pos + ch.utf8Size ≤ st1.posMax := by
        simp only [byteLen] at hlen; omega
      obtain ⟨_, _, _, _, _, _, hs2⟩ := slice_of_boundaries hg1.bpos hb (by omega)
      obtain ⟨st2, hp⟩ := pushText_total hg1.map.wf hs2
      rw [hp]
      simp only [liftR]
      have hri := fallback_ranges hg1.map hg1.ri hp
      obtain ⟨cs, _, rfl⟩ := pushText_eq hp
      have hc := Char.utf8Size_pos ch
      refine ⟨NoRust.ok _, ?_⟩
      intro st' h
      simp only [Except.ok.injEq] at h; subst h
      refine ⟨⟨hle, hb, hg1.bmax, hg1.map, hg1.stop, hri, hg1.bottoms⟩, s1.memo,
        ⟨s1.frame.src, s1.frame.srcmap, s1.frame.posMax, s1.frame.level⟩, ?_, ?_⟩
      · simp only; rw [hp1]; omega
      · unfold LLPos at hll1 ⊢
        simp only
        omega

/-! ## 8. the induction on fuel (`guarded_total`) -/

/-- what the guarded `tokenize` loop guarantees from a good state -/
structure LoopTL (lo : Nat) (st : IState) (r : Except Panic IState) : Prop where
  noRust : NoRust r
  ok : ∀ st', r = .ok st' → FrameL st st' ∧ MemoB st' ∧ Good lo st' ∧ LLPos st'

theorem LoopTL.tokTL {lo : Nat} {st : IState} {r : Except Panic IState} (h : LoopTL lo st r) : TokTL st r :=
  ⟨h.noRust, fun st' hr => ⟨(h.ok st' hr).1, (h.ok st' hr).2.1, (h.ok st' hr).2.2.1.le, (h.ok st' hr).2.2.2⟩⟩

/-- **the guarded tokenizer with the html rule never panics**, at every fuel -/
theorem guarded_totalH (cfg : Cfg) (chain : List RuleIdH)
    (hsz : ∀ mk csw, RuleId.emph mk csw ∈ cfg.chain → mk.utf8Size = 1)
    (hall : ∀ r, RuleIdH.base r ∈ chain → r ∈ cfg.chain) : ∀ fuel : Nat,
    SkipHypT (fun s => skipTokenHG cfg chain true fuel s) ∧
    (∀ lo st, Good lo st → MemoB st → LLPos st → SizeOK cfg st.src →
      LoopTL lo st (tokLoopHG cfg chain true fuel st.posMax st)) := by
  intro fuel
  induction fuel with
  | zero =>
    constructor
    · intro s _ _
      show SkipT s (skipTokenHG cfg chain true 0 s)
      unfold skipTokenHG
      exact ⟨NoRust.fuel, by intro st' h; simp at h⟩
    · intro lo st hg hm hll _
      unfold tokLoopHG
      split
      · exact ⟨NoRust.fuel, by intro st' h; simp at h⟩
      · exact ⟨NoRust.ok _, by
          intro st' h; simp only [Except.ok.injEq] at h; subst h; exact ⟨FrameL.refl _, hm, hg, hll⟩⟩
  | succ f ih =>
    obtain ⟨ihS, ihT⟩ := ih
    have hq := skipTokenHG_calm cfg chain true f
    have hr := rangesFnHG cfg chain true f
    have ht : TokHypTL cfg (fun s => tokLoopHG cfg chain true f s.posMax s) :=
      fun lo s hg hm hll hsize => (ihT lo s hg hm hll hsize).tokTL
    constructor
    · intro st hi hlt
      show SkipT st (skipTokenHG cfg chain true (f + 1) st)
      unfold skipTokenHG
      split
      · next x hx =>
        obtain ⟨hkx, hbx⟩ := hi.memo _ _ (lookup_mem hx)
        split
        · exact ⟨NoRust.fuel, by intro st' h; simp at h⟩
        · next hng =>
          refine ⟨NoRust.ok _, ?_⟩
          intro st' h
          simp only [Except.ok.injEq] at h; subst h
          refine ⟨hi.memo, hkx, ?_, hbx⟩
          simp only [true_and, Nat.not_lt] at hng
          exact hng
      · split
        · exact skipStepG_T hq ihS f st hi hlt
        · refine ⟨NoRust.ok _, ?_⟩
          intro st' h
          simp only [Except.ok.injEq] at h; subst h
          exact ⟨MemoB.insert hi.memo hlt hi.bmax, hlt, Nat.le_refl _, hi.bmax⟩
    · intro lo st hg hm hll hsize
      unfold tokLoopHG
      split
      · next hlt =>
        simp only
        have hstep := tokStepG_TL hsz hall hq ihS ht hr f st hg hm hlt hll hsize
        split
        · next e he =>
          refine ⟨?_, by intro st' h; simp at h⟩
          intro p hp; simp only [Except.error.injEq] at hp; subst hp; exact hstep.1 p he
        · next st1 he =>
          obtain ⟨hg1, hm1, f1, _, hll1⟩ := hstep.2 st1 he
          have hrec := ihT lo st1 hg1 hm1 hll1 (by rw [f1.src]; exact hsize)
          rw [f1.posMax] at hrec
          refine ⟨hrec.noRust, ?_⟩
          intro st' h
          obtain ⟨a, b, c, d⟩ := hrec.ok st' h
          exact ⟨f1.trans a, b, c, d⟩
      · exact ⟨NoRust.ok _, by
          intro st' h; simp only [Except.ok.injEq] at h; subst h; exact ⟨FrameL.refl _, hm, hg, hll⟩⟩

/-! ## 9. agreement: the guarded result is the model's result, or the guarded run stopped -/

theorem runRuleH_agree (cfg : Cfg) {skip skip' tok tok' : IState → Except Panic IState}
    (hs : AgreeFn skip skip') (ht : AgreeFn tok tok') (fuel : Nat) (id : RuleIdH) (st : IState)
    (silent : Bool) :
    Agree (runRuleH cfg skip tok fuel id st silent) (runRuleH cfg skip' tok' fuel id st silent) := by
  cases id with
  | base r => exact runRule_agree cfg hs ht fuel r st silent
  | html => exact .inl rfl

theorem firstRuleG_agree {ι : Type} {run run' : ι → IState → RuleRes}
    (h : ∀ id s, Agree (run id s) (run' id s)) : ∀ (rules : List ι) (st : IState),
    Agree (firstRuleG run rules st) (firstRuleG run' rules st) := by
  intro rules
  induction rules with
  | nil => intro st; exact .inl rfl
  | cons r rs ih =>
    intro st
    simp only [firstRuleG]
    agree_call h r st
    split
    · exact .inl rfl
    · exact .inl rfl
    · exact ih _

theorem tokStepG_agree (cfg : Cfg) (chain : List RuleIdH) {skip skip' tok tok' : IState → Except Panic IState}
    (hs : AgreeFn skip skip') (ht : AgreeFn tok tok') (fuel : Nat) (st : IState) :
    Agree (tokStepG cfg.maxNesting chain (runRuleH cfg skip tok fuel) st)
      (tokStepG cfg.maxNesting chain (runRuleH cfg skip' tok' fuel) st) := by
  unfold tokStepG
  simp only
  by_cases hl : st.level < cfg.maxNesting
  · simp only [hl, ↓reduceIte]
    agree_call firstRuleG_agree (run := fun id s => runRuleH cfg skip tok fuel id s false)
      (run' := fun id s => runRuleH cfg skip' tok' fuel id s false)
      (fun id s => runRuleH_agree cfg hs ht fuel id s false) chain st
    exact .inl rfl
  · simp only [hl, ↓reduceIte]
    exact .inl rfl

theorem skipStepG_agree (cfg : Cfg) (chain : List RuleIdH) {skip skip' tok tok' : IState → Except Panic IState}
    (hs : AgreeFn skip skip') (ht : AgreeFn tok tok') (fuel : Nat) (st : IState) :
    Agree (skipStepG chain (runRuleH cfg skip tok fuel) st)
      (skipStepG chain (runRuleH cfg skip' tok' fuel) st) := by
  unfold skipStepG
  simp only
  agree_call firstRuleG_agree (run := fun id s => silentBumped (runRuleH cfg skip tok fuel id) s)
    (run' := fun id s => silentBumped (runRuleH cfg skip' tok' fuel id) s)
    (fun id s => silentBumped_agree (fun s b => runRuleH_agree cfg hs ht fuel id s b) s) chain st
  exact .inl rfl

theorem agree_HG (cfg : Cfg) (chain : List RuleIdH) : ∀ fuel : Nat,
    (∀ s, Agree (skipTokenHG cfg chain true fuel s) (skipTokenH cfg chain fuel s)) ∧
    (∀ e s, Agree (tokLoopHG cfg chain true fuel e s) (tokLoopH cfg chain fuel e s)) := by
  intro fuel
  induction fuel with
  | zero =>
    refine ⟨fun s => .inl rfl, fun e s => ?_⟩
    unfold tokLoopHG tokLoopH
    exact .inl rfl
  | succ f ih =>
    obtain ⟨ihs, iht⟩ := ih
    have hs : AgreeFn (fun s => skipTokenHG cfg chain true f s) (fun s => skipTokenH cfg chain f s) := ihs
    have ht : AgreeFn (fun s => tokLoopHG cfg chain true f s.posMax s)
        (fun s => tokLoopH cfg chain f s.posMax s) := fun s => iht _ s
    refine ⟨fun s => ?_, fun e s => ?_⟩
    · unfold skipTokenHG skipTokenH
      cases List.lookup s.pos s.cache with
      | some x =>
        simp only
        split
        · exact .inr rfl
        · exact .inl rfl
      | none =>
        simp only
        split
        · exact skipStepG_agree cfg chain hs ht f s
        · exact .inl rfl
    · unfold tokLoopHG tokLoopH
      split
      · simp only
        agree_call tokStepG_agree cfg chain hs ht f s
        generalize tokStepG cfg.maxNesting chain
          (runRuleH cfg (fun s => skipTokenH cfg chain f s) (fun s => tokLoopH cfg chain f s.posMax s) f) s = r
        cases r with
        | error e => exact .inl rfl
        | ok st' => exact iht _ _
      · exact .inl rfl

theorem parseInlineHG_agree (cfg : CfgH) (content : List Char) (mapping : Srcmap) :
    Agree (parseInlineHG cfg content mapping) (parseInlineH cfg content mapping) := by
  unfold parseInlineHG parseInlineH tokenizeH
  agree_call (agree_HG cfg.base cfg.chain (topFuel cfg.base content)).2 _ _
  exact .inl rfl

end MdIt.InlineH
