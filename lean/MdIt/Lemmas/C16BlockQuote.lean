/-
  C16 on the block side, part 6: THE BLOCKQUOTE RULE AS A CALLER OF THE SWEEP (lazy continuation test).
  * `upd3` / `runRuleH_silent_congr3`: in look-ahead mode each of the ten rules reads ONLY THE ROW `line` of
    the line table (through `line_indent(line)`, `get_line(line)`, `line_offsets[line]`) — plus `src`,
    `blk_indent`, `list_indent`, node kind —: it answers on a state with another table that has the same
    row `line` (and another tree / `tight` / reference map) what it answers on `s`.
  * `bqScan_exit`: how the scan of the blockquote rule ends — at the end of the frame, at a blank line /
    behind a blank quote line, or BY THE SWEEP: `test_rules_at_line` was called on `{ sB with line := nl }`
    and said yes, where `sB` is the scan's state: the rule's state except for the rows in front of `nl`.
  * `blockquote_scans`: an accepting blockquote rule ran that scan.
-/
import MdIt.Lemmas.C16BlockList

namespace MdIt.BlockH.C16
open MdIt.Block
open MdIt.Lines (LineOffset)

/-- `s` with another LINE TABLE, tree, `tight` and reference map -/
def upd3 (s : BState) (o : List LineOffset) (c : List BNode) (b : Bool) (m : Refs.RefMap) : BState :=
  { s with offs := o, children := c, tight := b, refs := m }

section rows
variable {s : BState} {o : List LineOffset} (h : o[s.line]? = s.offs[s.line]?)
include h

theorem upd3_lineIndent (c b m) : (upd3 s o c b m).lineIndent s.line = s.lineIndent s.line := by
  simp only [BState.lineIndent, Lines.lineIndent, upd3, h]
theorem upd3_getLine (c b m) : (upd3 s o c b m).getLine s.line = s.getLine s.line := by
  simp only [BState.getLine, Lines.getLine, upd3, h]
theorem upd3_off (c b m) : (upd3 s o c b m).off s.line = s.off s.line := by
  simp only [BState.off, upd3, h]
theorem upd3_listSpecial (c b m) : listSpecial (upd3 s o c b m) = listSpecial s := by
  unfold listSpecial
  have := upd3_off h c b m
  simp only [upd3] at this ⊢
  simp only [this]
  rfl
end rows

@[simp] theorem upd3_line (s o c b m) : (upd3 s o c b m).line = s.line := rfl
@[simp] theorem upd3_nodeKind (s o c b m) : (upd3 s o c b m).nodeKind = s.nodeKind := rfl

abbrev mp3 (o : List LineOffset) (c : List BNode) (b : Bool) (m : Refs.RefMap) : Bool × BState → Bool × BState :=
  fun r => (r.1, upd3 r.2 o c b m)

syntax "congr_tac3 " term : tactic
macro_rules
| `(tactic| congr_tac3 $h) => `(tactic|
  (simp only [upd3_line, upd3_nodeKind, upd3_lineIndent $h, upd3_getLine $h, upd3_off $h, upd3_listSpecial $h,
     bind, Except.bind, Except.map, pure, Except.pure, if_true, Bool.true_eq_false, if_false, true_and]
   repeat' (first | rfl | split)))

section congr3
variable {s : BState} {o : List LineOffset} (h : o[s.line]? = s.offs[s.line]?) (c : List BNode) (b : Bool)
  (m : Refs.RefMap)
include h

set_option maxHeartbeats 400000 in
theorem silent_congr3_hr : hrRule (upd3 s o c b m) true = Except.map (mp3 o c b m) (hrRule s true) := by
  unfold hrRule; congr_tac3 h
set_option maxHeartbeats 400000 in
theorem silent_congr3_heading : headingRule (upd3 s o c b m) true = Except.map (mp3 o c b m) (headingRule s true) := by
  unfold headingRule; congr_tac3 h
set_option maxHeartbeats 400000 in
theorem silent_congr3_fence : fenceRule (upd3 s o c b m) true = Except.map (mp3 o c b m) (fenceRule s true) := by
  unfold fenceRule; congr_tac3 h
set_option maxHeartbeats 400000 in
theorem silent_congr3_blockquote (tok test fuel) :
    blockquoteRule tok test fuel (upd3 s o c b m) true = Except.map (mp3 o c b m) (blockquoteRule tok test fuel s true) := by
  unfold blockquoteRule; congr_tac3 h
set_option maxHeartbeats 400000 in
theorem silent_congr3_list (tok test fuel) :
    listRule tok test fuel (upd3 s o c b m) true = Except.map (mp3 o c b m) (listRule tok test fuel s true) := by
  unfold listRule; congr_tac3 h
set_option maxHeartbeats 400000 in
theorem silent_congr3_htmlBlock : Html.htmlBlockRule (upd3 s o c b m) true =
    Except.map (fun r => (r.1, upd3 r.2.1 o c b m, r.2.2)) (Html.htmlBlockRule s true) := by
  unfold Html.htmlBlockRule; congr_tac3 h
theorem silent_congr3_html : htmlRule (upd3 s o c b m) true = Except.map (mp3 o c b m) (htmlRule s true) := by
  unfold htmlRule
  rw [silent_congr3_htmlBlock h]
  cases h' : Html.htmlBlockRule s true with
  | error e => rfl
  | ok r =>
    obtain ⟨v, s', o'⟩ := r
    obtain ⟨rfl, rfl⟩ := Html.html_block_silent_quiet h'
    rfl

/-- **what look-ahead reads, third part**: only the row `line` of the line table -/
theorem runRuleH_silent_congr3 (cfg : Cfg) (tok : Tok) (test : Test) (fuel : Nat) (r : RuleIdH) :
    runRuleH cfg tok test fuel r (upd3 s o c b m) true =
      Except.map (mp3 o c b m) (runRuleH cfg tok test fuel r s true) := by
  cases r with
  | html => exact silent_congr3_html h c b m
  | base r =>
    cases r with
    | code => rfl
    | fence => exact silent_congr3_fence h c b m
    | blockquote => exact silent_congr3_blockquote h c b m tok test fuel
    | hr => exact silent_congr3_hr h c b m
    | list => exact silent_congr3_list h c b m tok test fuel
    | reference => rfl
    | heading => exact silent_congr3_heading h c b m
    | lheading => rfl
    | paragraph => rfl
end congr3

/-- the third part of the contract -/
def Eng.OK3 {ι : Type} (E : Eng ι) : Prop :=
  ∀ f i s o c b m, o[s.line]? = s.offs[s.line]? →
    E.rule f i (upd3 s o c b m) true = Except.map (mp3 o c b m) (E.rule f i s true)

theorem engH_ok3 (cfg : Cfg) (chain : List RuleIdH) : (engH cfg chain).OK3 :=
  fun _ i _ _ c b m h => runRuleH_silent_congr3 h c b m _ _ _ _ i

theorem engX_ok3 {X : BState → Bool → Res}
    (hX3 : ∀ s o c b m, o[s.line]? = s.offs[s.line]? → X (upd3 s o c b m) true = Except.map (mp3 o c b m) (X s true))
    (cfg : Cfg) (chain : List RuleIdX) : (engX X cfg chain).OK3 := by
  intro f i s o c b m h
  cases i with
  | custom => exact hX3 s o c b m h
  | std i => exact runRuleH_silent_congr3 h c b m _ _ _ _ i


/-! ## how the scan of the blockquote rule ends -/

/-- `sB` is the rule's state `s` except for the rows of the table in front of line `n` -/
structure ScanInv (s : BState) (n : Nat) (sB : BState) : Prop where
  same : SameBut s sB
  rows : ∀ k, n ≤ k → sB.offs[k]? = s.offs[k]?

theorem ScanInv.refl (s : BState) (n : Nat) : ScanInv s n s := ⟨SameBut.refl s, fun _ _ => rfl⟩

theorem ScanInv.setOff {s sB sB' : BState} {n : Nat} {x : LineOffset} (h : ScanInv s n sB)
    (hs : sB.setOff n x = .ok sB') : ScanInv s (n + 1) sB' := by
  obtain ⟨_, rfl⟩ := setOff_ok hs
  refine ⟨h.same.trans (sameBut_setOff hs), ?_⟩
  intro k hk
  rw [← h.rows k (by omega)]
  simp only [List.getElem?_set]
  rw [if_neg (by omega)]

theorem ScanInv.of_quiet {s sB t1 : BState} {n l : Nat} (h : ScanInv s n sB)
    (hq : ({ t1 with line := l } : BState) = { sB with line := l }) : ScanInv s n t1 := by
  simp only [BState.mk.injEq, true_and] at hq
  obtain ⟨e1, e2, e3, e4, e5, e6, e7, e8, e9, e10⟩ := hq
  refine ⟨⟨e1.trans h.same.src, e3.trans h.same.blkIndent, e4.trans h.same.lineMax, e5.trans h.same.tight,
    e6.trans h.same.listIndent, e7.trans h.same.level, e8.trans h.same.nodeKind, e9.trans h.same.children,
    e10.trans h.same.refs, by rw [e2]; exact h.same.len⟩, ?_⟩
  intro k hk
  rw [e2]; exact h.rows k hk

/-- the scan stopped at `nl` BY THE SWEEP: `test_rules_at_line` was called on `{ sB with line := nl }` — `sB`
    the scan's state — and said yes; at `blk_indent = 0` the scan returns what the sweep returned -/
def BqSweepExit (test : Test) (s : BState) (nl : Nat) (s' : BState) : Prop :=
  ∃ sB t1, ScanInv s nl sB ∧ nl < s.lineMax ∧ (∃ ind, sB.lineIndent nl = .ok ind) ∧
    test { sB with line := nl } = .ok (true, t1) ∧ (s.blkIndent = 0 → s' = t1)

set_option maxHeartbeats 400000 in
/-- **how the scan ends**: by the sweep (`BqSweepExit`), or without it (end of the frame, a blank line, a
    line behind a blank quote line) -/
theorem bqScan_exit {test : Test} (ht : TestQuiet test) :
    ∀ (fuel : Nat) (s0 sB : BState) (n : Nat) (old : List LineOffset) (le : Bool) (nl : Nat)
      (old' : List LineOffset) (s' : BState),
      bqScan test fuel sB n old le = .ok (nl, old', s') → ScanInv s0 n sB →
      BqSweepExit test s0 nl s' ∨
      (¬ nl < s0.lineMax ∨ (∃ sB', ScanInv s0 nl sB' ∧ s' = sB' ∧ (sB'.getLine nl = .ok [] ∨ True))) := by
  intro fuel
  induction fuel with
  | zero => intro s0 sB n old le nl old' s' h; simp [bqScan] at h
  | succ f ih =>
    intro s0 sB n old le nl old' s' h hinv
    simp only [bqScan] at h
    split at h
    · rename_i hc
      simp only [Except.ok.injEq, Prod.mk.injEq] at h
      obtain ⟨rfl, _, rfl⟩ := h
      exact .inr (.inl (by rw [← hinv.same.lineMax]; exact hc))
    · rename_i hc
      obtain ⟨ind, hind, h⟩ := bind_ok.mp h
      obtain ⟨line, hline, h⟩ := bind_ok.mp h
      split at h
      · simp only [Except.ok.injEq, Prod.mk.injEq] at h
        obtain ⟨rfl, _, rfl⟩ := h
        exact .inr (.inr ⟨_, hinv, rfl, .inr trivial⟩)
      · split at h
        · obtain ⟨o, ho, h⟩ := bind_ok.mp h
          obtain ⟨⟨o', le'⟩, hrw, h⟩ := bind_ok.mp h
          dsimp only at h
          obtain ⟨sB2, hset, h⟩ := bind_ok.mp h
          exact ih s0 _ _ _ _ _ _ _ h (hinv.setOff hset)
        · split at h
          · simp only [Except.ok.injEq, Prod.mk.injEq] at h
            obtain ⟨rfl, _, rfl⟩ := h
            exact .inr (.inr ⟨_, hinv, rfl, .inr trivial⟩)
          · obtain ⟨⟨b, t1⟩, htest, h⟩ := bind_ok.mp h
            dsimp only at h
            have hq := ht _ _ _ htest
            have hinv1 : ScanInv s0 n t1 := hinv.of_quiet hq
            split at h
            · rename_i hb
              subst hb
              split at h
              · rename_i hne
                obtain ⟨o, ho, h⟩ := bind_ok.mp h
                obtain ⟨sB2, hset, h⟩ := bind_ok.mp h
                simp only [Except.ok.injEq, Prod.mk.injEq] at h
                obtain ⟨rfl, _, rfl⟩ := h
                refine .inl ⟨sB, t1, hinv, by rw [← hinv.same.lineMax]; exact Classical.not_not.mp hc,
                  ⟨ind, hind⟩, htest, ?_⟩
                intro h0
                exact absurd (hinv1.same.blkIndent.trans h0) hne
              · simp only [Except.ok.injEq, Prod.mk.injEq] at h
                obtain ⟨rfl, _, rfl⟩ := h
                exact .inl ⟨sB, _, hinv, by rw [← hinv.same.lineMax]; exact Classical.not_not.mp hc,
                  ⟨ind, hind⟩, htest, fun _ => rfl⟩
            · obtain ⟨o, ho, h⟩ := bind_ok.mp h
              obtain ⟨sB2, hset, h⟩ := bind_ok.mp h
              exact ih s0 _ _ _ _ _ _ _ h (hinv1.setOff hset)


set_option maxHeartbeats 400000 in
/-- an accepting blockquote rule ran the scan from its own state -/
theorem blockquote_scans {tok : Tok} {test : Test} {fuel : Nat} {s s1 : BState}
    (h : blockquoteRule tok test fuel s false = .ok (true, s1)) :
    ∃ nl old sB', bqScan test fuel s s.line [] false = .ok (nl, old, sB') := by
  unfold blockquoteRule at h
  obtain ⟨ind, hind, h⟩ := bind_ok.mp h
  split at h
  · simp [pure_ok] at h
  obtain ⟨line, hline, h⟩ := bind_ok.mp h
  split at h
  · simp [pure_ok] at h
  simp only [Bool.false_eq_true, if_false] at h
  obtain ⟨⟨nl, old, sB'⟩, hs, _⟩ := bind_ok.mp h
  exact ⟨nl, old, sB', hs⟩

end MdIt.BlockH.C16
