/-
  C05 for ALL sources (split tabs included), character boundaries — the boundary invariant `BI`
  (Lemmas/C05TabsDefs2.lean: the cursor is on a character boundary of the inline text, every child
  is `BdN`: both range ends are character boundaries of the document) through the inline
  tokenizer, for ANY table (`CtxV` = `MapT` ∧ `PFthV`).  Part 1: list lemmas, pushing a node,
  `trailing_text_push` / `trailing_text_pop`, and every rule without look-ahead recursion (text,
  fall-back, escape, entity, autolink, code span, newline).

  Template: Lemmas/C05RestInline.lean, C05RestInline2.lean (the same code for the richer invariant
  `FI` under `Ctx`).  Every new range is `getMap p q` for two boundaries `p ≤ q` of the inline
  text, lowered to the document by `PFthV.bdy`.  The geometric frame invariant carried along is
  `RIv A` of the ranges development (Lemmas/C05TabsRanges*.lean); it is needed at two places:
    * `bd_pushText` reads the start of the new / grown trailing text from the NEW `RI.trail`;
    * `bd_pop` (newline rule) needs `tr pos = tr (pos − tail) + tail` for the popped blanks:
      `bd_pop_shift`, from `MapT.shift` (the blanks stand behind a character of the trailing text
      that is neither a blank nor — `RIv.nolf` — a line feed).

  Shape of every rule lemma (`bd_rule<X>`):
    CtxV src0 st.src st.srcmap → [tv_RInv A lo st →] BInv src0 st →
    rule<X> … st false = .ok (o, st') → BI src0 st.src st.srcmap (st'.pos + o.getD 0) st'.children
-/
import MdIt.Lemmas.C05TabsDefs2
import MdIt.Lemmas.C05TabsRanges3

namespace MdIt.C05T
open MdIt.Inline
open MdIt.InlineOps (Srcmap getSourcePosFor getMap byteLen slice)
open MdIt.C05R (Cut Bdy)

/-! ## sibling lists, single nodes -/

theorem bd_bdL_append (src : List Char) (a b : List Node) :
    BdL src (a ++ b) ↔ BdL src a ∧ BdL src b := by
  simp only [bdL_iff, List.mem_append]
  constructor
  · intro h; exact ⟨fun n hn => h n (Or.inl hn), fun n hn => h n (Or.inr hn)⟩
  · rintro ⟨h1, h2⟩ n (hn | hn)
    · exact h1 n hn
    · exact h2 n hn

theorem bd_bdL_single (src : List Char) (n : Node) : BdL src [n] ↔ BdN src n := by
  simp [BdL]

theorem bd_bdL_snoc {src : List Char} {l : List Node} {n : Node} (hl : BdL src l) (hn : BdN src n) :
    BdL src (l ++ [n]) :=
  (bd_bdL_append _ _ _).mpr ⟨hl, (bd_bdL_single _ _).mpr hn⟩

/-- **lowering a boundary** of the inline text to the document -/
theorem bd_low {src0 c : List Char} {m : Srcmap} (hctx : CtxV src0 c m) {p a : Nat} (hp : Bdy c p)
    (ha : getSourcePosFor m p = .ok a) : Bdy src0 a :=
  hctx.fth.bdy p a hp ha

/-- a node that is not an `EmphMarker` -/
theorem bd_bdN_plain {src0 : List Char} {v : Val} {a b : Nat} {cs : List Node}
    (ha : Bdy src0 a) (hb : Bdy src0 b) (h3 : ∀ mk l rem o c, v ≠ .emphMarker mk l rem o c)
    (hd : BdL src0 cs) : BdN src0 (Node.mk v (some (a, b)) cs) := by
  rw [BdN_eq]
  exact ⟨⟨a, b, rfl, ha, hb, fun mk l rem o c e => absurd e (h3 mk l rem o c)⟩, hd⟩

/-- a childless `Text` -/
theorem bd_bdN_text {src0 : List Char} {n : Node} (ht : n.isText = true) (hc : n.children = [])
    {a b : Nat} (hr : n.range = some (a, b)) (ha : Bdy src0 a) (hb : Bdy src0 b) : BdN src0 n := by
  rw [BdN_eq]
  have hv := C05R.fi_val_of_isText ht
  refine ⟨⟨a, b, hr, ha, hb, ?_⟩, by rw [hc]; trivial⟩
  intro mk l rem o cl e; rw [hv] at e; cases e

theorem bd_bdN_newText {src0 : List Char} {t : List Char} {a b : Nat} (ha : Bdy src0 a)
    (hb : Bdy src0 b) : BdN src0 (Node.newText t (some (a, b))) :=
  bd_bdN_text (n := Node.newText t (some (a, b))) rfl rfl rfl ha hb

/-- a node with one `Text` child (code span, autolink) -/
theorem bd_bdN_oneText {src0 : List Char} {v : Val} {a b x y : Nat} {t : List Char}
    (ha : Bdy src0 a) (hb : Bdy src0 b) (h3 : ∀ mk l rem o c, v ≠ .emphMarker mk l rem o c)
    (hx : Bdy src0 x) (hy : Bdy src0 y) :
    BdN src0 (Node.mk v (some (a, b)) [Node.newText t (some (x, y))]) :=
  bd_bdN_plain ha hb h3 ((bd_bdL_single _ _).mpr (bd_bdN_newText hx hy))

/-! ## pushing a node -/

/-- pushing a node and moving the cursor to a boundary -/
theorem bd_push {src0 c : List Char} {m : Srcmap} {pos : Nat} {cs : List Node}
    (h : BI src0 c m pos cs) {n : Node} {p' : Nat} (hb : Bdy c p') (hn : BdN src0 n) :
    BI src0 c m p' (cs ++ [n]) :=
  ⟨hb, bd_bdL_snoc h.deep hn⟩

theorem bd_nil {src0 c : List Char} {m : Srcmap} {pos : Nat} (hb : Bdy c pos) : BI src0 c m pos [] :=
  ⟨hb, trivial⟩

theorem bd_none {src0 : List Char} {st : IState} (hf : BInv src0 st) :
    BI src0 st.src st.srcmap (st.pos + (none : Option Nat).getD 0) st.children := by
  simp only [Option.getD_none, Nat.add_zero]; exact hf

/-! ## `trailing_text_push` -/

/-- **`trailing_text_push(pos, stop)` keeps the boundary invariant** (`stop` a boundary): the new
    or grown text has range `(tr start, tr stop)` with `start` read from the NEW `RI.trail` -/
theorem bd_pushText {src0 c : List Char} {m : Srcmap} {lo pos stop : Nat} {cs out : List Node}
    (hctx : CtxV src0 c m) (hr : RI c m lo pos cs) (hf : BI src0 c m pos cs) (hle : pos ≤ stop)
    (hb : Bdy c stop) (hp : trailingTextPush c m cs pos stop = .ok out) : BI src0 c m stop out := by
  have hr' : RI c m lo stop out := tv_RI_pushText hr hctx.map hle hp
  obtain ⟨last', hlt', hshape⟩ := C05R.fi_push_shape hp
  have hlast : ∀ init, out = init ++ [last'] → BdN src0 last' := by
    intro init hout
    obtain ⟨hch, start, xs, xe, hsl, hxs, hxe, hrange⟩ := hr'.trail init last' hout hlt'
    have hcut := (C05R.cut_iff_ops _ _ _ _).mp hsl
    exact bd_bdN_text hlt' hch hrange (bd_low hctx hcut.bdy_left hxs) (bd_low hctx hb hxe)
  rcases hshape with ⟨hout, _, _⟩ | ⟨init, last, hcs, _, hout, _⟩
  · have hn := hlast cs hout
    subst hout
    exact ⟨hb, bd_bdL_snoc hf.deep hn⟩
  · have hn := hlast init hout
    subst hcs hout
    exact ⟨hb, bd_bdL_snoc ((bd_bdL_append _ _ _).mp hf.deep).1 hn⟩

/-! ## the rules: text, fall-back -/

theorem bd_ruleText {src0 : List Char} {lo : Nat} {st st' : IState} {o : Option Nat}
    (hctx : CtxV src0 st.src st.srcmap) (hi : RInv lo st) (hf : BInv src0 st)
    (h : ruleText st false = .ok (o, st')) :
    BI src0 st.src st.srcmap (st'.pos + o.getD 0) st'.children := by
  unfold ruleText at h
  split at h
  · simp at h
  · next w hw =>
    simp only at h
    split at h
    · simp only [Except.ok.injEq, Prod.mk.injEq] at h; obtain ⟨rfl, rfl⟩ := h; exact bd_none hf
    · next hne =>
      simp only [Bool.false_eq_true, if_false] at h
      split at h
      · simp at h
      · next st2 hp =>
        simp only [Except.ok.injEq, Prod.mk.injEq] at h; obtain ⟨rfl, rfl⟩ := h
        obtain ⟨cs, hcs, rfl⟩ := pushText_eq hp
        simp only [Option.getD_some]
        obtain ⟨u, v, huv, hu⟩ := textLen_prefix w
        have hb : Bdy st.src (st.pos + textLen w) := by
          rw [← hu]; exact boundary_in_slice (by rw [← huv]; exact window_eq hw)
        exact bd_pushText hctx hi hf (Nat.le_add_right _ _) hb hcs

/-- the fall-back of the tokenizer loop: the first character of the window goes to the pending text -/
theorem bd_fallback {src0 : List Char} {lo : Nat} {st st' : IState} {ch : Char}
    (hctx : CtxV src0 st.src st.srcmap) (hi : RInv lo st) (hf : BInv src0 st)
    (hch : firstChar st = .ok ch) (h : st.pushText st.pos (st.pos + ch.utf8Size) = .ok st') :
    BI src0 st.src st.srcmap (st'.pos + ch.utf8Size) st'.children := by
  obtain ⟨cs, hcs, rfl⟩ := pushText_eq h
  unfold firstChar at hch
  split at hch
  · simp at hch
  · simp at hch
  · next c rest hw =>
    simp only [Except.ok.injEq] at hch; subst hch
    have hsl := window_eq (liftR_ok.mp hw)
    have hb : Bdy st.src (st.pos + c.utf8Size) := by
      have := boundary_in_slice (u := [c]) (v := rest) hsl
      simp only [byteLen, Nat.add_zero] at this
      exact this
    exact bd_pushText hctx hi hf (Nat.le_add_right _ _) hb hcs

/-! ## escape, entity -/

theorem bd_ruleEscape {src0 : List Char} {st st' : IState} {o : Option Nat}
    (hctx : CtxV src0 st.src st.srcmap) (hf : BInv src0 st)
    (h : ruleEscape st false = .ok (o, st')) :
    BI src0 st.src st.srcmap (st'.pos + o.getD 0) st'.children := by
  unfold ruleEscape at h
  split at h
  · simp at h
  · next w hw =>
    have hsl := window_eq hw
    split at h
    · simp at h
    · simp only [Except.ok.injEq, Prod.mk.injEq] at h; obtain ⟨rfl, rfl⟩ := h; exact bd_none hf
    · next len hc =>
      have hel : escapeLen w = some len := by unfold escapeLen; rw [hc]
      obtain ⟨_, u, v, huv, hu⟩ := escapeLen_prefix hel
      obtain ⟨w', hw', _⟩ := escapeCore_hardbreak hc
      simp only [Bool.false_eq_true, if_false] at h
      split at h
      · simp at h
      · next r hr =>
        simp only [Except.ok.injEq, Prod.mk.injEq] at h; obtain ⟨rfl, rfl⟩ := h
        obtain ⟨rx, ry⟩ := r
        obtain ⟨e1, e2, _⟩ := getMap_eq hr
        simp only [Option.getD_some, IState.push]
        have hb : Bdy st.src (st.pos + len) := by
          rw [← hu]; exact boundary_in_slice (by rw [← huv]; exact hsl)
        have hb2 : Bdy st.src (st.pos + 2) := by
          have := boundary_in_slice (u := ['\\', '\n']) (v := w') (by rw [hw'] at hsl; exact hsl)
          have e1 : ('\\' : Char).utf8Size = 1 := by decide
          have e2 : ('\n' : Char).utf8Size = 1 := by decide
          simp only [byteLen, e1, e2] at this
          exact this
        exact bd_push hf hb (bd_bdN_plain (bd_low hctx hf.bpos e1) (bd_low hctx hb2 e2)
          (by intro mk l rem o c e; cases e) trivial)
    · next sp hc =>
      obtain ⟨chr, w', hw', hmk⟩ := escapeCore_special hc
      simp only [Bool.false_eq_true, if_false] at h
      split at h
      · simp at h
      · next r hr =>
        simp only [Except.ok.injEq, Prod.mk.injEq] at h; obtain ⟨rfl, rfl⟩ := h
        obtain ⟨rx, ry⟩ := r
        obtain ⟨e1, e2, _⟩ := getMap_eq hr
        simp only [Option.getD_some, IState.push]
        have hcut : Cut st.src st.pos (st.pos + byteLen sp.markup) sp.markup := by
          rw [hmk]
          exact C05R.fi_cut_of_slice_prefix (u := ['\\', chr]) (v := w') (by rw [hw'] at hsl; exact hsl)
        exact bd_push hf hcut.bdy_right (bd_bdN_plain (bd_low hctx hf.bpos e1)
          (bd_low hctx hcut.bdy_right e2) (by intro mk l rem o c e; cases e) trivial)

theorem bd_ruleEntity {src0 : List Char} {cfg : Cfg} {st st' : IState} {o : Option Nat}
    (hctx : CtxV src0 st.src st.srcmap) (hf : BInv src0 st)
    (h : ruleEntity cfg st false = .ok (o, st')) :
    BI src0 st.src st.srcmap (st'.pos + o.getD 0) st'.children := by
  unfold ruleEntity at h
  split at h
  · simp at h
  · split at h
    · simp at h
    · split at h
      · simp only [Except.ok.injEq, Prod.mk.injEq] at h; obtain ⟨rfl, rfl⟩ := h; exact bd_none hf
      · split at h
        · simp at h
        · next suffix hsuf =>
          split at h
          · simp at h
          · simp only [Except.ok.injEq, Prod.mk.injEq] at h; obtain ⟨rfl, rfl⟩ := h
            exact bd_none hf
          · next sp hc =>
            obtain ⟨t, rest, _, hsfx, _⟩ := entityCore_some hc
            simp only [Bool.false_eq_true, if_false] at h
            split at h
            · simp at h
            · next r hr =>
              simp only [Except.ok.injEq, Prod.mk.injEq] at h; obtain ⟨rfl, rfl⟩ := h
              obtain ⟨rx, ry⟩ := r
              obtain ⟨e1, e2, _⟩ := getMap_eq hr
              simp only [Option.getD_some, IState.push]
              have hcut : Cut st.src st.pos (st.pos + byteLen sp.markup) sp.markup :=
                C05R.fi_cut_of_slice_prefix (u := sp.markup) (v := rest)
                  (by rw [← hsfx]; exact liftOps_ok.mp hsuf)
              exact bd_push hf hcut.bdy_right (bd_bdN_plain (bd_low hctx hf.bpos e1)
                (bd_low hctx hcut.bdy_right e2) (by intro mk l rem o c e; cases e) trivial)

/-! ## autolinks -/

theorem bd_ruleAutolink {src0 : List Char} {st st' : IState} {o : Option Nat}
    (hctx : CtxV src0 st.src st.srcmap) (hf : BInv src0 st)
    (h : ruleAutolink st false = .ok (o, st')) :
    BI src0 st.src st.srcmap (st'.pos + o.getD 0) st'.children := by
  unfold ruleAutolink at h
  split at h
  · simp at h
  · simp at h
  · next c rest hw =>
    have hsl := window_eq hw
    split at h
    · simp only [Except.ok.injEq, Prod.mk.injEq] at h; obtain ⟨rfl, rfl⟩ := h; exact bd_none hf
    · next hc =>
      have hc' : c = '<' := by simpa using hc
      subst hc'
      split at h
      · simp only [Except.ok.injEq, Prod.mk.injEq] at h; obtain ⟨rfl, rfl⟩ := h; exact bd_none hf
      · next p hscan =>
        obtain ⟨u, v, hr, hp⟩ := autolinkScan_spec hscan
        split at h
        · simp at h
        · next url hurl =>
          simp only at h
          split at h
          · simp only [Except.ok.injEq, Prod.mk.injEq] at h; obtain ⟨rfl, rfl⟩ := h
            exact bd_none hf
          · split at h
            · simp only [Except.ok.injEq, Prod.mk.injEq] at h; obtain ⟨rfl, rfl⟩ := h
              exact bd_none hf
            · simp only [Bool.false_eq_true, if_false] at h
              split at h
              · simp at h
              · next r hr' =>
                split at h
                · simp at h
                · next ri hri =>
                  simp only [Except.ok.injEq, Prod.mk.injEq] at h; obtain ⟨rfl, rfl⟩ := h
                  obtain ⟨rx, ry⟩ := r
                  obtain ⟨ix, iy⟩ := ri
                  obtain ⟨e1, e2, _⟩ := getMap_eq hr'
                  obtain ⟨f1, f2, _⟩ := getMap_eq hri
                  simp only [Option.getD_some, IState.push]
                  have e : st.pos + (p - st.pos) = p := by omega
                  rw [e]
                  have c1 : ('<' : Char).utf8Size = 1 := by decide
                  have c2 : ('>' : Char).utf8Size = 1 := by decide
                  have hbp : Bdy st.src p := by
                    have := boundary_in_slice (u := '<' :: u ++ ['>']) (v := v)
                      (by rw [hr] at hsl; simpa using hsl)
                    have hbl : byteLen ('<' :: u ++ ['>']) = p - st.pos := by
                      simp only [List.cons_append, byteLen, C05.byteLen_append, c1, c2]; omega
                    rw [hbl, e] at this; exact this
                  have hcut := (C05R.cut_iff_ops _ _ _ _).mp (liftOps_ok.mp hurl)
                  exact bd_push hf hbp (bd_bdN_oneText (bd_low hctx hf.bpos e1) (bd_low hctx hbp e2)
                    (by intro mk l rem o c e; cases e) (bd_low hctx hcut.bdy_left f1)
                    (bd_low hctx hcut.bdy_right f2))

/-! ## code spans -/

theorem bd_ruleBackticks {src0 : List Char} {st st' : IState} {o : Option Nat}
    (hctx : CtxV src0 st.src st.srcmap) (hf : BInv src0 st)
    (h : ruleBackticks st false = .ok (o, st')) :
    BI src0 st.src st.srcmap (st'.pos + o.getD 0) st'.children := by
  unfold ruleBackticks at h
  split at h
  · simp at h
  · simp only [Except.ok.injEq, Prod.mk.injEq] at h; obtain ⟨rfl, rfl⟩ := h
    exact bd_none hf
  · next oc c hrun =>
    split at h
    · next hnone =>
      exfalso
      have : ∀ (v : CodePair.Variant) (m : Char) (src : List Char) (pos posMax n p matchEnd : Nat)
          (c : CodePair.Cache) (o : CodePair.Outcome) (c' : CodePair.Cache),
          CodePair.scan v m src pos posMax n p false matchEnd c = .ok (some o, c') → o.node ≠ none := by
        intro v m src pos posMax n p matchEnd c o c' hs
        fun_induction CodePair.scan v m src pos posMax n p false matchEnd c <;> simp_all
        all_goals (try (obtain ⟨rfl, _⟩ := hs; simp))
      have hrn : oc.node ≠ none := by
        unfold CodePair.run at hrun
        repeat' split at hrun
        all_goals first
          | exact this _ _ _ _ _ _ _ _ _ _ _ hrun
          | simp at hrun
      exact hrn hnone
    · next nd hnd =>
      split at h
      · simp at h
      · next r hr =>
        split at h
        · simp at h
        · next ri hri =>
          simp only [Except.ok.injEq, Prod.mk.injEq] at h; obtain ⟨rfl, rfl⟩ := h
          obtain ⟨rx, ry⟩ := r
          obtain ⟨ix, iy⟩ := ri
          obtain ⟨e1, e2, _⟩ := getMap_eq hr
          obtain ⟨f1, f2, _⟩ := getMap_eq hri
          obtain ⟨s1, s2, _, _, _⟩ := run_node_shape _ _ _ _ _ _ _ _ _ _ nd hrun hnd
          rw [s1] at e1
          rw [s2] at e2
          simp only [Option.getD_some]
          have hb : Bdy st.src (st.pos + oc.len) :=
            (codeBoundary_iff _ _).mp
              (CodePair.codepair_progress _ _ backtick_size _ _ _ _ _ _ _ _ hrun).2.2
          obtain ⟨p, ms, me, n, hmk⟩ := C05R.fi_run_node _ _ _ _ _ _ _ _ _ _ nd hrun hnd
          obtain ⟨w, hcut, _⟩ := C05R.fi_mkNode_cut hmk
          exact bd_push hf hb (bd_bdN_oneText (bd_low hctx hf.bpos e1) (bd_low hctx hb e2)
            (by intro mk l rem o c e; cases e) (bd_low hctx hcut.bdy_left f1)
            (bd_low hctx hcut.bdy_right f2))

/-! ## the newline rule -/

/-- the popped blanks of the trailing text stand behind a character that is neither a blank
    (`tv_tailSpaces_max`) nor a line feed (`RIv.nolf`, in a frame where the newline rule is
    active): the translation is a shift on them (`MapT.shift`).  (In the ranges development this
    is buried inside the proof of `tv_newline_core`.) -/
theorem bd_pop_shift {A : Prop} {src : List Char} {m : Srcmap} {lo pos : Nat} {cs : List Node}
    (hm : MapT src m) (hA : A) (hi : RIv A src m lo pos cs) {init : List Node} {last : Node}
    {pre : List Char} (hcs : cs = init ++ [last]) (hlt : last.isText = true)
    (hpre : last.content = pre ++ List.replicate (tailSpaces last.content) ' ') (hpne : pre ≠ [])
    {rx xe : Nat} (e1 : getSourcePosFor m (pos - tailSpaces last.content) = .ok rx)
    (hxe : getSourcePosFor m pos = .ok xe) : xe = rx + tailSpaces last.content := by
  obtain ⟨hch, start, xs, xe', hsl, hxs, hxe', hrange⟩ := hi.ri.trail init last hcs hlt
  obtain ⟨_, _, hse⟩ := slice_boundaries hsl
  have hbl : byteLen last.content = byteLen pre + tailSpaces last.content := by
    conv => lhs; rw [hpre]
    rw [C05.byteLen_append, byteLen_replicate_space]
  obtain ⟨pre0, ch0, hpre0⟩ : ∃ pre0 ch0, pre = pre0 ++ [ch0] := by
    rcases List.eq_nil_or_concat pre with h | ⟨a, b, h⟩
    · exact absurd h hpne
    · exact ⟨a, b, by rw [h, List.concat_eq_append]⟩
  have hcont : last.content
      = pre0 ++ [ch0] ++ List.replicate (tailSpaces last.content) ' ' := by
    rw [← hpre0]; exact hpre
  have hnsp : ch0 ≠ ' ' := tv_tailSpaces_max hcont rfl
  have hnlf : ch0 ≠ '\n' := by
    intro hc
    apply hi.nolf hA init last hcs hlt
    rw [hcont, hc]; simp
  have hbp : byteLen pre = byteLen pre0 + ch0.utf8Size := by
    rw [hpre0, C05.byteLen_append]; simp [byteLen]
  obtain ⟨p, q, e, l1, l2⟩ := (C05.slice_ok_iff _ _ _ _).mp hsl
  have hcut : Cut src (pos - tailSpaces last.content - ch0.utf8Size) pos
      (ch0 :: List.replicate (tailSpaces last.content) ' ') := by
    refine ⟨p ++ pre0, q, ?_, ?_, ?_⟩
    · rw [e]; conv => lhs; rw [hcont]
      simp
    · rw [C05.byteLen_append]; omega
    · simp only [byteLen]; rw [byteLen_replicate_space]; omega
  have := hm.shift _ _ ch0 _ (pos - tailSpaces last.content) pos rx xe hcut hnsp hnlf
    (space_not_lf _) (by omega) (by omega) (Nat.le_refl _) e1 hxe
  omega

/-- **`trailing_text_pop` of the blanks before a line feed** moves the boundary invariant back to
    `pos - tail`: the shortened range `(xs, xe - tail)` is the translated `(start, pos - tail)` -/
theorem bd_pop {A : Prop} {src0 c : List Char} {m : Srcmap} {lo pos : Nat} {cs out : List Node}
    (hctx : CtxV src0 c m) (hA : A) (hr : RIv A c m lo pos cs) (hf : BI src0 c m pos cs)
    (hpop : trailingTextPop cs (tailSpaces (trailingTextGet cs)) = .ok out)
    (hge : ¬ pos < tailSpaces (trailingTextGet cs)) :
    BI src0 c m (pos - tailSpaces (trailingTextGet cs)) out := by
  have hm := hctx.map
  rcases pop_tail_cases hpop with ⟨h0, rfl⟩ | ⟨init, last, pre, hcs, hlt, htail, hget, hpre, hcase⟩
  · rw [h0]; exact hf
  · rw [hget] at hge ⊢
    obtain ⟨hch, start, xs, xe, hsl, hxs, hxe, hrange⟩ := hr.ri.trail init last hcs hlt
    obtain ⟨_, _, hse⟩ := slice_boundaries hsl
    have hbl : byteLen last.content = byteLen pre + tailSpaces last.content := by
      conv => lhs; rw [hpre]
      rw [C05.byteLen_append, byteLen_replicate_space]
    obtain ⟨rx, e1⟩ := C05.translate_total m hm.wf (pos - tailSpaces last.content)
    have hstart : start + byteLen pre = pos - tailSpaces last.content := by omega
    -- the kept part
    have hcutpre : Cut c start (pos - tailSpaces last.content) pre := by
      rw [← hstart]
      exact C05R.fi_cut_of_slice_prefix (u := pre) (v := List.replicate (tailSpaces last.content) ' ')
        (by rw [← hpre]; exact hsl)
    have hd := (bd_bdL_append _ _ _).mp (hcs ▸ hf.deep)
    rcases hcase with ⟨_, rfl⟩ | ⟨hpne, a', b', hr', hle', rfl⟩ | ⟨_, hr', _⟩
    · -- the whole node goes
      exact ⟨hcutpre.bdy_right, hd.1⟩
    · -- the node keeps `pre`, its range end moves left by `tail`
      have hline := bd_pop_shift hm hA hr hcs hlt hpre hpne e1 hxe
      rw [hrange] at hr'; simp only [Option.some.injEq, Prod.mk.injEq] at hr'
      obtain ⟨hr1, hr2⟩ := hr'
      subst hr1 hr2
      have hend : xe - tailSpaces last.content = rx := by omega
      rw [hend]
      have hfn : BdN src0 (Node.mk (.text pre) (some (xs, rx)) last.children) :=
        bd_bdN_text (n := Node.mk (.text pre) (some (xs, rx)) last.children) rfl hch rfl
          (bd_low hctx hcutpre.bdy_left hxs) (bd_low hctx hcutpre.bdy_right e1)
      exact ⟨hcutpre.bdy_right, bd_bdL_snoc hd.1 hfn⟩
    · rw [hrange] at hr'; cases hr'

theorem bd_ruleNewline {A : Prop} {src0 : List Char} {lo : Nat} {st st' : IState} {o : Option Nat}
    (hctx : CtxV src0 st.src st.srcmap) (hA : A) (hi : tv_RInv A lo st) (hf : BInv src0 st)
    (h : ruleNewline st false = .ok (o, st')) :
    BI src0 st.src st.srcmap (st'.pos + o.getD 0) st'.children := by
  unfold ruleNewline at h
  split at h
  · simp at h
  · simp at h
  · next c rest hw =>
    have hsl := window_eq hw
    split at h
    · simp only [Except.ok.injEq, Prod.mk.injEq] at h; obtain ⟨rfl, rfl⟩ := h; exact bd_none hf
    · next hc =>
      have hc' : c = '\n' := by simpa using hc
      subst hc'
      simp only [Bool.false_eq_true, if_false] at h
      split at h
      · simp at h
      · next cs hpop =>
        split at h
        · simp at h
        · next hge =>
          split at h
          · simp at h
          · next r hr =>
            simp only [Except.ok.injEq, Prod.mk.injEq] at h; obtain ⟨rfl, rfl⟩ := h
            obtain ⟨rx, ry⟩ := r
            obtain ⟨e1, e2, _⟩ := getMap_eq hr
            simp only [Option.getD_some]
            have epos : st.pos + (st.pos + 1 + (List.takeWhile isSpTab rest).length - st.pos)
                = st.pos + 1 + (List.takeWhile isSpTab rest).length := by omega
            rw [epos]
            -- the cursor behind the line feed and the leading blanks of the next line
            have hb : Bdy st.src (st.pos + 1 + (List.takeWhile isSpTab rest).length) := by
              have hsplit : '\n' :: rest
                  = ('\n' :: List.takeWhile isSpTab rest) ++ List.dropWhile isSpTab rest := by
                simp [List.takeWhile_append_dropWhile]
              have := boundary_in_slice (u := '\n' :: List.takeWhile isSpTab rest)
                (v := List.dropWhile isSpTab rest) (by rw [← hsplit]; exact hsl)
              have e0 : ('\n' : Char).utf8Size = 1 := by decide
              simp only [byteLen, e0, byteLen_takeWhile_spTab] at this
              have e3 : st.pos + (1 + (List.takeWhile isSpTab rest).length)
                  = st.pos + 1 + (List.takeWhile isSpTab rest).length := by omega
              rw [e3] at this; exact this
            have hpopd := bd_pop hctx hA hi hf hpop hge
            exact bd_push hpopd hb (bd_bdN_plain (bd_low hctx hpopd.bpos e1) (bd_low hctx hb e2)
              (by intro mk l rem o c e; split at e <;> cases e) trivial)

end MdIt.C05T
