/-
  C05 for ALL sources, table side: what `get_lines` guarantees about the VIRTUAL-SPACE entries of its
  table (two consecutive entries `(k0, v)`, `(k, v)` with the same source offset, made when the
  leading tab of a line is split by `blk_indent`).

  `tb_Seg`            an entry and its successor: if they carry the SAME source offset, the content is
                      `pre ++ replicate n ' ' ++ post` with `|pre|` the first key, `|pre| + n` the second
                      and `pre` empty or ending with a line feed.
  `tb_mapOf_seg`      ONE induction over the lines read: every entry of `Lines.mapOf indent |pre| ovs`
                      is `tb_Seg` in `pre ++ joinLines false (pieces)`, when the lines are strictly
                      separated (`C05I.ChainD 0`: entries of two DIFFERENT lines never carry the same
                      offset, `lineStart + cut ≤ lineEnd < next lineStart ≤ next lineStart + cut'`).
  `tb_virtSp_of_seg`  `SegAll tb_Seg` ⟹ `C05T.VirtSp`.
  `tb_getLines_virtSp` for `Lines.getLines` on a `LineOk` table in strict order.
  deliverable         `Block.inlSpec2_ptabs : InlSpec2 src0 (PTabs src0)`.
-/
import MdIt.Lemmas.C05TabsDefs

namespace MdIt.C05T
open MdIt.Lines
open MdIt.InlineOps (Srcmap getSourcePosFor)
open MdIt.C05I (SegAll segAll_get ChainD)

/-! ## one entry and its successor -/

/-- entry `x`, followed by `next`: when the successor carries the SAME source offset, the two keys
    frame a run of spaces of the content that starts the content or sits directly behind a line feed
    (`byteLen` is `Lines.byteLen` here, as in `Lines.mapOf`) -/
def tb_Seg (c : List Char) (x : Nat × Nat) : Option (Nat × Nat) → Prop
  | none => True
  | some y => y.2 = x.2 →
      ∃ pre n post, c = pre ++ List.replicate n ' ' ++ post ∧ byteLen pre = x.1 ∧ y.1 = x.1 + n ∧
        (pre = [] ∨ ∃ pre', pre = pre' ++ ['\n'])

/-- **the induction**: the table `mapOf indent |pre| ovs` in the content `pre ++ joinLines …` -/
theorem tb_mapOf_seg (src : List Char) (indent : Nat) :
    ∀ (ovs : List (LineOffset × (List Char × List Char × Int))) (pre : List Char),
      (∀ ov ∈ ovs, Shows src ov.1 ov.2) → ChainD 0 (ovs.map (·.1)) →
      (pre = [] ∨ ∃ pre', pre = pre' ++ ['\n']) →
      SegAll (tb_Seg (pre ++ joinLines false (ovs.map fun ov => viewPiece indent ov.2)))
        (mapOf indent (byteLen pre) ovs) := by
  intro ovs
  induction ovs with
  | nil => intro pre _ _ _; simp [mapOf, SegAll]
  | cons ov rest ih =>
    intro pre hs hc hpre
    obtain ⟨o, v⟩ := ov
    have hsh := hs (o, v) (by simp)
    have hend := C05I.piece_end hsh (v.2.2 - usizeAsI32 indent)
    simp only at hend
    cases rest with
    | nil =>
      simp only [mapOf, List.append_nil, List.map_cons, List.map_nil, joinLines, Bool.false_eq_true,
        if_false]
      by_cases hn : (calcRightWs v.1 (v.2.2 - usizeAsI32 indent)).1 > 0
      · simp only [hn, if_true, SegAll, List.head?_cons, List.head?_nil, tb_Seg, and_true]
        intro _
        exact ⟨pre, (calcRightWs v.1 (v.2.2 - usizeAsI32 indent)).1,
          dropB v.1 (calcRightWs v.1 (v.2.2 - usizeAsI32 indent)).2 ++ v.2.1,
          by simp [viewPiece, List.append_assoc], rfl, rfl, hpre⟩
      · simp [hn, SegAll, tb_Seg]
    | cons ov2 rest' =>
      obtain ⟨o2, v2⟩ := ov2
      have hc1 : o.lineEnd + 1 ≤ o2.lineStart + 0 := hc.1
      have hc2 : ChainD 0 (((o2, v2) :: rest').map (·.1)) := hc.2
      have ih' := ih (pre ++ viewPiece indent v ++ ['\n'])
        (fun ov h => hs ov (List.mem_cons_of_mem _ h)) hc2 (.inr ⟨pre ++ viewPiece indent v, rfl⟩)
      have hcontent : pre ++ joinLines false (((o, v) :: (o2, v2) :: rest').map fun ov => viewPiece indent ov.2)
          = (pre ++ viewPiece indent v ++ ['\n']) ++
            joinLines false (((o2, v2) :: rest').map fun ov => viewPiece indent ov.2) := by
        simp [joinLines, List.append_assoc]
      have hpos : byteLen (pre ++ viewPiece indent v ++ ['\n'])
          = byteLen pre + byteLen (viewPiece indent v) + 1 := by
        simp [show '\n'.utf8Size = 1 by decide]; omega
      rw [hpos] at ih'
      have hhead := C05I.mapOf_head indent (byteLen pre + byteLen (viewPiece indent v) + 1) o2 v2 rest'
      rw [show mapOf indent (byteLen pre) ((o, v) :: (o2, v2) :: rest')
          = ((byteLen pre, o.lineStart + (calcRightWs v.1 (v.2.2 - usizeAsI32 indent)).2) ::
              (if (calcRightWs v.1 (v.2.2 - usizeAsI32 indent)).1 > 0 then
                [(byteLen pre + (calcRightWs v.1 (v.2.2 - usizeAsI32 indent)).1,
                  o.lineStart + (calcRightWs v.1 (v.2.2 - usizeAsI32 indent)).2)] else []))
            ++ mapOf indent (byteLen pre + byteLen (viewPiece indent v) + 1) ((o2, v2) :: rest') from rfl]
      -- the pair of one line
      have hpair : (calcRightWs v.1 (v.2.2 - usizeAsI32 indent)).1 > 0 →
          tb_Seg (pre ++ joinLines false (((o, v) :: (o2, v2) :: rest').map fun ov => viewPiece indent ov.2))
            (byteLen pre, o.lineStart + (calcRightWs v.1 (v.2.2 - usizeAsI32 indent)).2)
            (some (byteLen pre + (calcRightWs v.1 (v.2.2 - usizeAsI32 indent)).1,
              o.lineStart + (calcRightWs v.1 (v.2.2 - usizeAsI32 indent)).2)) := by
        intro _ _
        exact ⟨pre, (calcRightWs v.1 (v.2.2 - usizeAsI32 indent)).1,
          dropB v.1 (calcRightWs v.1 (v.2.2 - usizeAsI32 indent)).2 ++ v.2.1 ++ '\n' ::
            joinLines false (((o2, v2) :: rest').map fun ov => viewPiece indent ov.2),
          by simp [joinLines, viewPiece, List.append_assoc], rfl, rfl, hpre⟩
      -- an entry of this line and the first entry of the next: different source offsets
      have hnext : ∀ k, tb_Seg (pre ++ joinLines false (((o, v) :: (o2, v2) :: rest').map fun ov => viewPiece indent ov.2))
            (k, o.lineStart + (calcRightWs v.1 (v.2.2 - usizeAsI32 indent)).2)
            (some (byteLen pre + byteLen (viewPiece indent v) + 1,
              o2.lineStart + (calcRightWs v2.1 (v2.2.2 - usizeAsI32 indent)).2)) := by
        intro k heq
        simp only at heq
        omega
      rw [hcontent] at hpair hnext ⊢
      generalize hM : mapOf indent (byteLen pre + byteLen (viewPiece indent v) + 1) ((o2, v2) :: rest') = M at *
      by_cases hn : (calcRightWs v.1 (v.2.2 - usizeAsI32 indent)).1 > 0
      · simp only [hn, if_true, List.cons_append, List.nil_append, SegAll, List.head?_cons, hhead]
        exact ⟨hpair hn, hnext _, ih'⟩
      · simp only [hn, if_false, List.cons_append, List.nil_append, SegAll, hhead]
        exact ⟨hnext _, ih'⟩

/-! ## `VirtSp` from the segments -/

theorem tb_charAt_replicate {pre post : List Char} {n j : Nat} (hj : j < n) :
    CharAt (pre ++ List.replicate n ' ' ++ post) (InlineOps.byteLen pre + j) ' ' := by
  refine ⟨pre ++ List.replicate j ' ', List.replicate (n - j - 1) ' ' ++ post, ?_, ?_⟩
  · have : n = j + (1 + (n - j - 1)) := by omega
    conv => lhs; rw [this, ← List.replicate_append_replicate, ← List.replicate_append_replicate]
    simp [List.append_assoc]
  · rw [C05.byteLen_append, ← C05I.linesLen_eq (List.replicate j ' '), byteLen_replicate_space]

theorem tb_virtSp_of_seg {c : List Char} {m : Srcmap} (hs : SegAll (tb_Seg c) m) : VirtSp c m := by
  refine ⟨?_, ?_⟩
  · intro i k0 v k h1 h2 p hp1 hp2
    have := segAll_get hs h1
    rw [h2] at this
    obtain ⟨pre, n, post, rfl, hk0, hk, _⟩ := this rfl
    simp only at hk0 hk
    rw [C05I.linesLen_eq] at hk0
    have := tb_charAt_replicate (pre := pre) (post := post) (n := n) (j := p - k0) (by omega)
    rwa [show InlineOps.byteLen pre + (p - k0) = p by omega] at this
  · intro i k0 v k h1 h2
    have := segAll_get hs h1
    rw [h2] at this
    obtain ⟨pre, n, post, rfl, hk0, hk, hpre⟩ := this rfl
    simp only at hk0 hk
    rw [C05I.linesLen_eq] at hk0
    rcases hpre with rfl | ⟨pre', rfl⟩
    · left; simpa [InlineOps.byteLen] using hk0.symm
    · right
      refine ⟨pre', List.replicate n ' ' ++ post, by simp [List.append_assoc], ?_⟩
      rw [C05.byteLen_append] at hk0
      simp only [InlineOps.byteLen, show '\n'.utf8Size = 1 by decide] at hk0
      omega

/-! ## `get_lines` -/

/-- **the virtual-space entries of the table of `get_lines(b, e, indent, false)`** on a table whose
    entries cut lines out of the source (`LineOk`), strictly separated (`OrderD 0`): spaces of the
    content at the start of a line of the content -/
theorem tb_getLines_virtSp {src : List Char} {offs : List LineOffset}
    (hT : ∀ (k : Nat) (o : LineOffset), offs[k]? = some o → Block.LineOk src o)
    (hord : C05I.OrderD 0 offs) {b e indent : Nat} {c : List Char} {m : Srcmap} (hbe : b < e)
    (h : getLines src offs b e indent false = .ok (c, m)) : VirtSp c m := by
  have hlen : e ≤ offs.length := by
    unfold getLines at h
    rw [if_neg (by omega)] at h
    exact getLinesGo_ok_len h hbe
  obtain ⟨ovs, hvl, hvs⟩ := C05I.ovs_of_tableOk hT (e - b) b (by omega)
  obtain ⟨content, hget, hcontent, _⟩ := get_lines_faithful src offs b indent false ovs hvs
  rw [hvl, show b + (e - b) = e by omega, h] at hget
  simp only [Except.ok.injEq, Prod.mk.injEq] at hget
  obtain ⟨rfl, rfl⟩ := hget
  have hseg := tb_mapOf_seg src indent ovs [] (by
    intro ov hov
    obtain ⟨j, hj, rfl⟩ := List.getElem_of_mem hov
    exact (hvs j hj).2) (by
    apply C05I.chainD_of
    intro j a a' ha ha'
    simp only [List.getElem?_map, Option.map_eq_some_iff] at ha ha'
    obtain ⟨x, hx, rfl⟩ := ha
    obtain ⟨y, hy, rfl⟩ := ha'
    obtain ⟨hj, rfl⟩ := List.getElem?_eq_some_iff.mp hx
    obtain ⟨hj', rfl⟩ := List.getElem?_eq_some_iff.mp hy
    exact hord (b + j) (b + (j + 1)) _ _ (by omega) (hvs j hj).1 (hvs (j + 1) hj').1) (.inl rfl)
  simp only [List.nil_append, byteLen_nil] at hseg
  rw [← hcontent] at hseg
  exact tb_virtSp_of_seg hseg

/-- a one-entry table has no virtual-space entry -/
theorem tb_single_virtSp (c : List Char) (x : Nat) : VirtSp c [(0, x)] :=
  ⟨fun i k0 v k _ h2 => by simp at h2, fun i k0 v k _ h2 => by simp at h2⟩

end MdIt.C05T

namespace MdIt.Block
open MdIt.Lines (LineOffset)

/-- **the block pass establishes `PTabs` at every placeholder**, for ALL sources -/
theorem inlSpec2_ptabs (src0 : List Char) : InlSpec2 src0 (PTabs src0) := by
  refine ⟨?_, ?_⟩
  · intro s b e c m ob oe hg hgl hbe hob hoe hkept
    have hgl' := C05I.getLines_lift hgl
    exact ⟨(inlSpec2_pmapF src0).lines s b e c m ob oe hg hgl hbe hob hoe hkept,
      C05I.getLines_upToAll hg.geo.table (C05I.orderD_of_sorted hg.geo.sorted) hbe hgl' hoe,
      C05T.tb_getLines_virtSp hg.geo.table hg.strict.orderD hbe hgl'⟩
  · intro s o line content textPos textMax hg ho hline hcontent
    refine ⟨(inlSpec2_pmapF src0).heading s o line content textPos textMax hg ho hline hcontent, ?_,
      C05T.tb_single_virtSp _ _⟩
    intro pos x hpos hx
    rw [C05I.single_translate] at hx
    simp only [Except.ok.injEq] at hx
    subst hx
    have h1 : Lines.getLine s.src s.offs s.line = .ok line := liftL_ok5 hline
    unfold Lines.getLine at h1
    rw [ho] at h1
    simp only at h1
    obtain ⟨_, _, _, _, h2⟩ := Lines.slice_eq_ok_iff.mp h1
    obtain ⟨p, q, h3, h4, h5⟩ := Lines.slice_eq_ok_iff.mp (liftL_ok5 hcontent)
    have := congrArg Lines.byteLen h3
    simp at this
    omega

end MdIt.Block

/-! ## non-vacuity -/

namespace MdIt.C05T

/-- `"-    ` a\n\t\t`"`: item content at column 5, the two tabs of the continuation line reach
    column 8 and leave THREE virtual spaces -/
def tb_exSrc : List Char := ['-', ' ', ' ', ' ', ' ', '`', ' ', 'a', '\n', '\t', '\t', '`']

/-- its placeholder: content `"` a\n   `"`, table `[(0,5),(4,11),(7,11)]` — the entries `(4,11)`,
    `(7,11)` are a virtual-space pair -/
def tb_exC : List Char := ['`', ' ', 'a', '\n', ' ', ' ', ' ', '`']

example : (Block.parseBlocks (Pipeline.exCfg false 100).blockCfg tb_exSrc).toOption.map
      (fun r => Pipeline.inlOf r.1) = some [(tb_exC, [(0, 5), (4, 11), (7, 11)])] := by
  decide +kernel

/-- every entry of that table is `tb_Seg` … -/
theorem tb_ex_seg : C05I.SegAll (tb_Seg tb_exC) [(0, 5), (4, 11), (7, 11)] :=
  ⟨fun h => absurd h (by decide),
    fun _ => ⟨['`', ' ', 'a', '\n'], 3, ['`'], by decide, by decide, by decide,
      .inr ⟨['`', ' ', 'a'], rfl⟩⟩,
    trivial, trivial⟩

/-- … hence `VirtSp`: bytes 4, 5, 6 of the content are spaces, byte 3 is a line feed; all of
    `[4, 7]` is translated to the source offset 11 of the backtick (the clamp), byte 8 to 12 -/
example : VirtSp tb_exC [(0, 5), (4, 11), (7, 11)] ∧ CharAt tb_exC 5 ' ' ∧ CharAt tb_exC 3 '\n' ∧
    InlineOps.getSourcePosFor [(0, 5), (4, 11), (7, 11)] 4 = .ok 11 ∧
    InlineOps.getSourcePosFor [(0, 5), (4, 11), (7, 11)] 6 = .ok 11 ∧
    InlineOps.getSourcePosFor [(0, 5), (4, 11), (7, 11)] 7 = .ok 11 ∧
    InlineOps.getSourcePosFor [(0, 5), (4, 11), (7, 11)] 8 = .ok 12 := by
  have hv := tb_virtSp_of_seg tb_ex_seg
  refine ⟨hv, hv.sp 1 4 11 7 rfl rfl 5 (by decide) (by decide), ?_, by decide +kernel, by decide +kernel,
    by decide +kernel, by decide +kernel⟩
  rcases hv.ls 1 4 11 7 rfl rfl with h | h
  · exact absurd h (by decide)
  · exact h

end MdIt.C05T

/-! ## the strict line order is needed -/

namespace MdIt.C05T

/-- two empty "lines" at the same place (allowed by the weak order `lineEnd ≤ next lineStart` of
    `Block.Geo`, every entry `LineOk`): `get_lines` returns the content `"\n"` with the table
    `[(0,0),(1,0)]` — two entries of DIFFERENT lines with the same source offset, and the byte between
    the keys is the line feed, not a space: not `VirtSp`.  Real tables are `SortedS`. -/
example : Lines.getLines [] [⟨0, 0, 0, 0⟩, ⟨0, 0, 0, 0⟩] 0 2 0 false = .ok (['\n'], [(0, 0), (1, 0)]) ∧
    ¬ VirtSp ['\n'] [(0, 0), (1, 0)] := by
  refine ⟨by decide +kernel, fun h => ?_⟩
  obtain ⟨pre, post, e, _⟩ := h.sp 0 0 0 1 rfl rfl 0 (Nat.le_refl _) (by decide)
  cases pre with
  | nil => simp at e
  | cons a pre' => simp at e

end MdIt.C05T
