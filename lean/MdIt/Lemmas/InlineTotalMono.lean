/-
  Helper development for `Props/InlineTotal.lean` (continues `Lemmas/InlineTotalDef.lean`).

  * partial-correctness facts of the guarded tokenizer `tokLoopG` / `skipTokenG` (calm `skip_token`,
    the frame invariant), mirroring `skipToken_calm` / `ranges_induction`;
  * the AGREEMENT of the guarded tokenizer with the model: the guarded run returns the model's result
    or stops with `Panic.fuel` (`agree_G`, `parseInlineG_agree`, `parseInlineG_ok`);
  * with the guard off the guarded functions are the model functions (`tokLoopG_false`,
    `skipTokenG_false`).
-/
import MdIt.Lemmas.InlineTotalDef

namespace MdIt.Inline
open MdIt.InlineOps (Srcmap getSourcePosFor getMap byteLen slice)

/-! ## partial correctness of the guarded functions -/

/-- **the guarded `skip_token` is calm**, at every fuel (mirror of `skipToken_calm`) -/
theorem skipTokenG_calm (cfg : Cfg) (g : Bool) :
    ∀ fuel : Nat, CalmFn (fun s => skipTokenG cfg g fuel s) := by
  intro fuel
  induction fuel with
  | zero => intro s s' h; simp [skipTokenG] at h
  | succ f ih =>
    intro s s' h
    simp only at h
    unfold skipTokenG at h
    split at h
    · split at h
      · simp at h
      · simp only [Except.ok.injEq] at h; rw [← h]; exact ⟨rfl, rfl, rfl, rfl, rfl, rfl, rfl⟩
    · split at h
      · exact skipStep_calm ih h
      · simp only [Except.ok.injEq] at h; rw [← h]; exact ⟨rfl, rfl, rfl, rfl, rfl, rfl, rfl⟩

/-- **the frame invariant through the guarded tokenizer** (mirror of `ranges_induction`) -/
theorem ranges_inductionG (cfg : Cfg) (g : Bool) : ∀ fuel : Nat,
    ∀ (e lo : Nat) (st st' : IState), MapOK st.src st.srcmap → tokLoopG cfg g fuel e st = .ok st' →
      RInv lo st → st'.src = st.src ∧ st'.srcmap = st.srcmap ∧ RInv lo st' := by
  intro fuel
  induction fuel with
  | zero =>
    intro e lo st st' hm h hi
    unfold tokLoopG at h
    split at h
    · simp at h
    · simp only [Except.ok.injEq] at h; subst h; exact ⟨rfl, rfl, hi⟩
  | succ f ih =>
    intro e lo st st' hm h hi
    unfold tokLoopG at h
    split at h
    · simp only at h
      split at h
      · simp at h
      · next st1 hstep =>
        have ht : RangesFn (fun s => tokLoopG cfg g f s.posMax s) :=
          fun lo s s' hms hr his => ih _ lo s s' hms hr his
        obtain ⟨a, b, c⟩ := tokStep_ranges (skipTokenG_calm cfg g f) ht hm hi hstep
        have hm1 : MapOK st1.src st1.srcmap := by rw [a, b]; exact hm
        obtain ⟨a', b', c'⟩ := ih e lo st1 st' hm1 h c
        exact ⟨a'.trans a, b'.trans b, c'⟩
    · simp only [Except.ok.injEq] at h; subst h; exact ⟨rfl, rfl, hi⟩

theorem rangesFnG (cfg : Cfg) (g : Bool) (fuel : Nat) :
    RangesFn (fun s => tokLoopG cfg g fuel s.posMax s) :=
  fun lo s s' hms hr his => ranges_inductionG cfg g fuel _ lo s s' hms hr his

end MdIt.Inline
