/-
  Helper development for `Props/InlineTotal.lean` (continues `Lemmas/InlineTotalDef.lean`).

  * partial-correctness facts of the guarded tokenizer `tokLoopG` / `skipTokenG` (calm `skip_token`,
    the frame invariant), mirroring `skipToken_calm` / `ranges_induction`;
  * the AGREEMENT of the guarded tokenizer with the model: the guarded run returns the model's result
    or stops with `Panic.fuel` (`agree_G`, `parseInlineG_agree`, `parseInlineG_ok`);
  * with the guard off the guarded functions are the model functions (`tokLoopG_false`,
    `skipTokenG_false`).
-/
import MdIt.Lemmas.InlineTotalDef

namespace MdIt.Inline
open MdIt.InlineOps (Srcmap getSourcePosFor getMap byteLen slice)

/-! ## partial correctness of the guarded functions -/

/-- **the guarded `skip_token` is calm**, at every fuel (mirror of `skipToken_calm`) -/
theorem skipTokenG_calm (cfg : Cfg) (g : Bool) :
    ∀ fuel : Nat, CalmFn (fun s => skipTokenG cfg g fuel s) := by
  intro fuel
  induction fuel with
  | zero => intro s s' h; simp [skipTokenG] at h
  | succ f ih =>
    intro s s' h
    simp only at h
    unfold skipTokenG at h
    split at h
    · split at h
      · simp at h
      · simp only [Except.ok.injEq] at h; rw [← h]; exact ⟨rfl, rfl, rfl, rfl, rfl, rfl, rfl⟩
    · split at h
      · exact skipStep_calm ih h
      · simp only [Except.ok.injEq] at h; rw [← h]; exact ⟨rfl, rfl, rfl, rfl, rfl, rfl, rfl⟩

/-- **the frame invariant through the guarded tokenizer** (mirror of `ranges_induction`) -/
theorem ranges_inductionG (cfg : Cfg) (g : Bool) : ∀ fuel : Nat,
    ∀ (e lo : Nat) (st st' : IState), MapOK st.src st.srcmap → tokLoopG cfg g fuel e st = .ok st' →
      RInv lo st → st'.src = st.src ∧ st'.srcmap = st.srcmap ∧ RInv lo st' := by
  intro fuel
  induction fuel with
  | zero =>
    intro e lo st st' hm h hi
    unfold tokLoopG at h
    split at h
    · simp at h
    · simp only [Except.ok.injEq] at h; subst h; exact ⟨rfl, rfl, hi⟩
  | succ f ih =>
    intro e lo st st' hm h hi
    unfold tokLoopG at h
    split at h
    · simp only at h
      split at h
      · simp at h
      · next st1 hstep =>
        have ht : RangesFn (fun s => tokLoopG cfg g f s.posMax s) :=
          fun lo s s' hms hr his => ih _ lo s s' hms hr his
        obtain ⟨a, b, c⟩ := tokStep_ranges (skipTokenG_calm cfg g f) ht hm hi hstep
        have hm1 : MapOK st1.src st1.srcmap := by rw [a, b]; exact hm
        obtain ⟨a', b', c'⟩ := ih e lo st1 st' hm1 h c
        exact ⟨a'.trans a, b'.trans b, c'⟩
    · simp only [Except.ok.injEq] at h; subst h; exact ⟨rfl, rfl, hi⟩

theorem rangesFnG (cfg : Cfg) (g : Bool) (fuel : Nat) :
    RangesFn (fun s => tokLoopG cfg g fuel s.posMax s) :=
  fun lo s s' hms hr his => ranges_inductionG cfg g fuel _ lo s s' hms hr his

/-! ## agreement: the guarded result is the model's result, or the guarded run stopped (`Panic.fuel`)

`Agree a b`: `a` is the result over guarded callees, `b` over the model's.  Every function of the
link machinery takes `skip_token` / `tokenize` as parameters and threads their errors through
unchanged, so agreement of the callees gives agreement of the results. -/

def Agree {α : Type} (a b : Except Panic α) : Prop := a = b ∨ a = .error .fuel
def AgreeFn (f f' : IState → Except Panic IState) : Prop := ∀ s, Agree (f s) (f' s)

theorem Agree.rfl' {α : Type} {a : Except Panic α} : Agree a a := .inl rfl

/-- use the agreement `h` of a callee that is the scrutinee of the outermost `match` on the guarded
    side: either the callee results are equal (rewrite, go on), or the guarded one is out of fuel -/
macro "agree_call " h:term : tactic =>
  `(tactic| (refine Or.elim $h (fun hh => ?_) (fun hh => by rw [hh]; exact Or.inr rfl); rw [hh]))

theorem labelLoop_agree {skip skip' : IState → Except Panic IState} (hs : AgreeFn skip skip')
    (en : Bool) : ∀ (n : Nat) (level : Int) (st : IState),
    Agree (labelLoop skip en n level st) (labelLoop skip' en n level st) := by
  intro n
  induction n with
  | zero => intro level st; exact .inl rfl
  | succ n ih =>
    intro level st
    simp only [labelLoop]
    split
    · exact .inl rfl
    · exact .inl rfl
    · split
      · exact .inl rfl
      · agree_call hs st
        repeat' split
        all_goals first | exact .inl rfl | exact ih _ _

theorem parseLinkLabel_agree {skip skip' : IState → Except Panic IState} (hs : AgreeFn skip skip')
    (fuel : Nat) (st : IState) (start : Nat) (en : Bool) :
    Agree (parseLinkLabel skip fuel st start en) (parseLinkLabel skip' fuel st start en) := by
  unfold parseLinkLabel
  simp only
  agree_call labelLoop_agree hs en fuel 1 _
  exact .inl rfl

theorem parseLinkRef_agree (cfg : Cfg) {skip skip' : IState → Except Panic IState}
    (hs : AgreeFn skip skip') (fuel : Nat) (st : IState) (ls le : Nat) :
    Agree (parseLinkRef cfg skip fuel st ls le) (parseLinkRef cfg skip' fuel st ls le) := by
  unfold parseLinkRef
  simp only
  split
  · exact .inl rfl
  · next w _ =>
    rcases w with _ | ⟨c, tail⟩
    · exact .inl rfl
    · by_cases hc : c = '['
      · subst hc
        simp only []
        agree_call parseLinkLabel_agree hs fuel st (le + 1) false
        exact .inl rfl
      · exact .inl (by simp [hc])

theorem parseLink_agree (cfg : Cfg) {skip skip' : IState → Except Panic IState}
    (hs : AgreeFn skip skip') (fuel : Nat) (st : IState) (pos : Nat) (en : Bool) :
    Agree (parseLink cfg skip fuel st pos en) (parseLink cfg skip' fuel st pos en) := by
  unfold parseLink
  simp only
  agree_call parseLinkLabel_agree hs fuel st pos en
  split
  · exact .inl rfl
  · exact .inl rfl
  · split
    · exact .inl rfl
    · exact .inl rfl
    · exact parseLinkRef_agree cfg hs _ _ _ _

theorem linkRule_agree (cfg : Cfg) {skip skip' tok tok' : IState → Except Panic IState}
    (hs : AgreeFn skip skip') (ht : AgreeFn tok tok') (fuel : Nat)
    (mk : List Nat → Option (List Char) → Val) (en : Bool) (offset : Nat) (st : IState)
    (silent : Bool) :
    Agree (linkRule cfg skip tok fuel mk en offset st silent)
      (linkRule cfg skip' tok' fuel mk en offset st silent) := by
  unfold linkRule
  simp only
  agree_call parseLink_agree cfg hs fuel st (st.pos + offset) en
  split
  · exact .inl rfl
  · exact .inl rfl
  · split
    · exact .inl rfl
    · agree_call ht _
      exact .inl rfl

theorem ruleLink_agree (cfg : Cfg) {skip skip' tok tok' : IState → Except Panic IState}
    (hs : AgreeFn skip skip') (ht : AgreeFn tok tok') (fuel : Nat) (st : IState) (silent : Bool) :
    Agree (ruleLink cfg skip tok fuel st silent) (ruleLink cfg skip' tok' fuel st silent) := by
  unfold ruleLink
  split
  · exact .inl rfl
  · exact .inl rfl
  · split
    · exact .inl rfl
    · exact linkRule_agree cfg hs ht _ _ _ _ _ _

theorem ruleImage_agree (cfg : Cfg) {skip skip' tok tok' : IState → Except Panic IState}
    (hs : AgreeFn skip skip') (ht : AgreeFn tok tok') (fuel : Nat) (st : IState) (silent : Bool) :
    Agree (ruleImage cfg skip tok fuel st silent) (ruleImage cfg skip' tok' fuel st silent) := by
  unfold ruleImage
  split
  · exact .inl rfl
  · exact linkRule_agree cfg hs ht _ _ _ _ _ _
  · exact .inl rfl

theorem runRule_agree (cfg : Cfg) {skip skip' tok tok' : IState → Except Panic IState}
    (hs : AgreeFn skip skip') (ht : AgreeFn tok tok') (fuel : Nat) (id : RuleId) (st : IState)
    (silent : Bool) :
    Agree (runRule cfg skip tok fuel id st silent) (runRule cfg skip' tok' fuel id st silent) := by
  unfold runRule
  cases id
  case link => exact ruleLink_agree cfg hs ht _ _ _
  case image => exact ruleImage_agree cfg hs ht _ _ _
  all_goals exact .inl rfl

theorem firstRule_agree {run run' : RuleId → IState → RuleRes}
    (h : ∀ id s, Agree (run id s) (run' id s)) : ∀ (rules : List RuleId) (st : IState),
    Agree (firstRule run rules st) (firstRule run' rules st) := by
  intro rules
  induction rules with
  | nil => intro st; exact .inl rfl
  | cons r rs ih =>
    intro st
    simp only [firstRule]
    agree_call h r st
    split
    · exact .inl rfl
    · exact .inl rfl
    · exact ih _

theorem silentBumped_agree {run run' : IState → Bool → RuleRes}
    (h : ∀ s b, Agree (run s b) (run' s b)) (st : IState) :
    Agree (silentBumped run st) (silentBumped run' st) := by
  unfold silentBumped
  agree_call h _ true
  exact .inl rfl

theorem tokStep_agree (cfg : Cfg) {skip skip' tok tok' : IState → Except Panic IState}
    (hs : AgreeFn skip skip') (ht : AgreeFn tok tok') (fuel : Nat) (st : IState) :
    Agree (tokStep cfg skip tok fuel st) (tokStep cfg skip' tok' fuel st) := by
  unfold tokStep
  simp only
  by_cases hl : st.level < cfg.maxNesting
  · simp only [hl, ↓reduceIte]
    agree_call firstRule_agree (run := fun id s => runRule cfg skip tok fuel id s false)
      (run' := fun id s => runRule cfg skip' tok' fuel id s false)
      (fun id s => runRule_agree cfg hs ht fuel id s false) cfg.chain st
    exact .inl rfl
  · simp only [hl, ↓reduceIte]
    exact .inl rfl

theorem skipStep_agree (cfg : Cfg) {skip skip' tok tok' : IState → Except Panic IState}
    (hs : AgreeFn skip skip') (ht : AgreeFn tok tok') (fuel : Nat) (st : IState) :
    Agree (skipStep cfg skip tok fuel st) (skipStep cfg skip' tok' fuel st) := by
  unfold skipStep
  simp only
  agree_call firstRule_agree (run := fun id s => silentBumped (runRule cfg skip tok fuel id) s)
    (run' := fun id s => silentBumped (runRule cfg skip' tok' fuel id) s)
    (fun id s => silentBumped_agree (fun s b => runRule_agree cfg hs ht fuel id s b) s) cfg.chain st
  exact .inl rfl

/-! ## the guarded tokenizer agrees with the model -/

theorem agree_G (cfg : Cfg) : ∀ fuel : Nat,
    (∀ s, Agree (skipTokenG cfg true fuel s) (skipToken cfg fuel s)) ∧
    (∀ e s, Agree (tokLoopG cfg true fuel e s) (tokLoop cfg fuel e s)) := by
  intro fuel
  induction fuel with
  | zero =>
    refine ⟨fun s => .inl rfl, fun e s => ?_⟩
    unfold tokLoopG tokLoop
    exact .inl rfl
  | succ f ih =>
    obtain ⟨ihs, iht⟩ := ih
    have hs : AgreeFn (fun s => skipTokenG cfg true f s) (fun s => skipToken cfg f s) := ihs
    have ht : AgreeFn (fun s => tokLoopG cfg true f s.posMax s) (fun s => tokLoop cfg f s.posMax s) :=
      fun s => iht _ s
    refine ⟨fun s => ?_, fun e s => ?_⟩
    · unfold skipTokenG skipToken
      cases List.lookup s.pos s.cache with
      | some x =>
        simp only
        split
        · exact .inr rfl
        · exact .inl rfl
      | none =>
        simp only
        split
        · exact skipStep_agree cfg hs ht f s
        · exact .inl rfl
    · unfold tokLoopG tokLoop
      split
      · simp only
        agree_call tokStep_agree cfg hs ht f s
        generalize tokStep cfg (fun s => skipToken cfg f s) (fun s => tokLoop cfg f s.posMax s) f s = r
        cases r with
        | error e => exact .inl rfl
        | ok st' => exact iht _ _
      · exact .inl rfl

theorem parseInlineG_agree (cfg : Cfg) (content : List Char) (mapping : Srcmap) :
    Agree (parseInlineG cfg content mapping) (parseInline cfg content mapping) := by
  unfold parseInlineG parseInline tokenize
  agree_call (agree_G cfg (topFuel cfg content)).2 _ _
  exact .inl rfl

theorem parseInlineG_ok {cfg : Cfg} {content : List Char} {mapping : Srcmap} {cs : List Node}
    (h : parseInlineG cfg content mapping = .ok cs) : parseInline cfg content mapping = .ok cs := by
  rcases parseInlineG_agree cfg content mapping with h' | h'
  · rw [← h', h]
  · rw [h] at h'; cases h'

/-! ## with the guard off: the model functions -/

theorem G_false (cfg : Cfg) : ∀ fuel : Nat,
    (∀ s, skipTokenG cfg false fuel s = skipToken cfg fuel s) ∧
    (∀ e s, tokLoopG cfg false fuel e s = tokLoop cfg fuel e s) := by
  intro fuel
  induction fuel with
  | zero =>
    refine ⟨fun s => rfl, fun e s => ?_⟩
    unfold tokLoopG tokLoop
    rfl
  | succ f ih =>
    obtain ⟨ihs, iht⟩ := ih
    have hs : (fun s => skipTokenG cfg false f s) = (fun s => skipToken cfg f s) := funext ihs
    have ht : (fun s : IState => tokLoopG cfg false f s.posMax s) = (fun s => tokLoop cfg f s.posMax s) :=
      funext fun s => iht _ s
    refine ⟨fun s => ?_, fun e s => ?_⟩
    · unfold skipTokenG skipToken
      rw [hs, ht]
      cases List.lookup s.pos s.cache with
      | some x => simp
      | none => rfl
    · unfold tokLoopG tokLoop
      split
      · simp only
        rw [hs, ht]
        generalize tokStep cfg (fun s => skipToken cfg f s) (fun s => tokLoop cfg f s.posMax s) f s = r
        cases r with
        | error e => rfl
        | ok st' => exact iht _ _
      · rfl

theorem skipTokenG_false (cfg : Cfg) (fuel : Nat) (s : IState) :
    skipTokenG cfg false fuel s = skipToken cfg fuel s := (G_false cfg fuel).1 s

theorem tokLoopG_false (cfg : Cfg) (fuel e : Nat) (s : IState) :
    tokLoopG cfg false fuel e s = tokLoop cfg fuel e s := (G_false cfg fuel).2 e s

end MdIt.Inline
