/-
  Block ranges start at a byte of their own, part 2: thematic break, ATX heading, indented code and
  fence in lock step on `LX.Y`-related states (copy of `MdIt/Lemmas/C10SourceposSimLeaf.lean`).  New:
  every rule simulation takes `hne : silent = false → Live s₁` (the line the rule starts on exists
  and is not empty); the start of an indented code block, `line_start + first` of its first line, is
  shown to be the same distance `first ≤ first_nonspace - line_start` from the line start on both
  sides (`getLines_head_sim`).
-/
import MdIt.Lemmas.C10SpFullBlockCore

namespace MdIt.Block.LX.Y
open MdIt.Block.LE
open MdIt.Lines (LineOffset)
variable {τ : Nat × Nat → Nat × Nat → Prop} {ρ : Nat → Nat → Prop} {G : Geo} {s₁ s₂ : BState}

theorem hr_sim (C : Ctx τ ρ G) (S : SRel τ ρ G s₁ s₂) (silent : Bool) (hne : silent = false → Live s₁) :
    FRel (ResRel τ ρ G) (hrRule s₁ silent) (hrRule s₂ silent) := by
  unfold hrRule
  rw [S.line, S.lineIndent, S.getLine]
  refine frel_bind_same _ ?_
  intro ind _
  split
  · exact frel_pure ⟨rfl, S⟩
  refine frel_bind_same _ ?_
  intro line _
  split
  · exact frel_pure ⟨rfl, S⟩
  split
  · exact frel_pure ⟨rfl, S⟩
  split
  · exact frel_pure ⟨rfl, S⟩
  split
  · exact frel_pure ⟨rfl, S⟩
  split
  · exact frel_pure ⟨rfl, S⟩
  refine frel_bind (S.getMap C _ _ (hne (silent_false ‹¬ silent = true›)).2) ?_
  intro r₁ r₂ hr
  refine frel_pure ⟨rfl, ?_⟩
  srely_fields S
  exact S.children.push (NRel.mk (KRelS.of_ne (by intro c m h; cases h)) hr NRelL.nil)

theorem heading_sim (C : Ctx τ ρ G) (S : SRel τ ρ G s₁ s₂) (silent : Bool) (hne : silent = false → Live s₁) :
    FRel (ResRel τ ρ G) (headingRule s₁ silent) (headingRule s₂ silent) := by
  unfold headingRule
  rw [S.line, S.lineIndent, S.getLine]
  refine frel_bind_same _ ?_
  intro ind _
  split
  · exact frel_pure ⟨rfl, S⟩
  refine frel_bind_same _ ?_
  intro line hline
  split
  · exact frel_pure ⟨rfl, S⟩
  split
  · exact frel_pure ⟨rfl, S⟩
  split
  · exact frel_pure ⟨rfl, S⟩
  refine frel_bind_same _ ?_
  intro content hcontent
  refine frel_bind' (S.off _) ?_
  intro o₁ o₂ ho₁ _ he
  refine frel_bind (S.getMap C _ _ (hne (silent_false ‹¬ silent = true›)).2) ?_
  intro r₁ r₂ hr
  refine frel_pure ⟨rfl, ?_⟩
  srely_fields S
  exact S.children.push (NRel.mk (KRelS.of_ne (by intro c m h; cases h)) hr
    (NRelL.single (nrel_inline (MRel.single (he.first_add _ (heading_bound hline hcontent ho₁))))))

/-! ## indented code -/

/-- the first entries of the tables `get_lines` returns on two related states: the same distance
    `first` from the two line starts, not behind `first_nonspace`, on a character boundary -/
theorem getLines_head_sim (S : SRel τ ρ G s₁ s₂) {b e indent : Nat} {keep : Bool}
    {c₁ c₂ : List Char} {x y : Nat × Nat} {r₁ r₂ : List (Nat × Nat)}
    (h₁ : s₁.getLines b e indent keep = .ok (c₁, x :: r₁)) (h₂ : s₂.getLines b e indent keep = .ok (c₂, y :: r₂)) :
    b < e ∧ ∃ o₁ o₂ first, s₁.offs[b]? = some o₁ ∧ s₂.offs[b]? = some o₂ ∧
      x.2 = o₁.lineStart + first ∧ y.2 = o₂.lineStart + first ∧
      o₁.lineStart + first ≤ o₁.firstNonspace ∧ Lines.onBoundary G.src₁ (o₁.lineStart + first) = true := by
  have h₁ := liftL_ok' h₁
  have h₂ := liftL_ok' h₂
  unfold Lines.getLines at h₁ h₂
  split at h₁
  · cases h₁
  rw [if_neg (by assumption)] at h₂
  by_cases hbe : b < e
  · refine ⟨hbe, ?_⟩
    rw [Lines.getLinesGo, if_pos hbe] at h₁ h₂
    rcases S.get b with ⟨g1, _⟩ | ⟨o₁, o₂, g1, g2, he⟩
    · rw [g1] at h₁; cases h₁
    · rw [g1] at h₁; rw [g2] at h₂
      simp only at h₁ h₂
      rw [S.src₁] at h₁; rw [S.src₂] at h₂
      rw [he.ws, he.indent] at h₂
      refine ⟨o₁, o₂, ?_⟩
      cases hws : Lines.slice G.src₁ o₁.lineStart o₁.firstNonspace with
      | error e => rw [hws] at h₁; cases h₁
      | ok ws =>
        rw [hws] at h₁ h₂; simp only at h₁ h₂
        have hle := Lines.calc_right_le ws (o₁.indentNonspace - Lines.usizeAsI32 indent)
        generalize Lines.calcRightWs ws (o₁.indentNonspace - Lines.usizeAsI32 indent) = p at h₁ h₂ hle
        obtain ⟨ns, first⟩ := p
        simp only at h₁ h₂ hle
        rw [he.from_ first] at h₂
        refine ⟨first, g1, g2, ?_⟩
        cases ht : Lines.slice G.src₁ (o₁.lineStart + first) o₁.lineEnd with
        | error e => rw [ht] at h₁; cases h₁
        | ok t =>
          rw [ht] at h₁ h₂; simp only at h₁ h₂
          obtain ⟨t₁, ht₁⟩ := getLinesGo_prefix _ _ e indent keep _ (b + 1) _ _ _ _ rfl h₁
          obtain ⟨t₂, ht₂⟩ := getLinesGo_prefix _ _ e indent keep _ (b + 1) _ _ _ _ rfl h₂
          have hx : x = (Lines.byteLen ([] : List Char), o₁.lineStart + first) := by
            by_cases hns : ns > 0
            · rw [if_pos hns] at ht₁; simp at ht₁; exact ht₁.1
            · rw [if_neg hns] at ht₁; simp at ht₁; exact ht₁.1
          have hy : y = (Lines.byteLen ([] : List Char), o₂.lineStart + first) := by
            by_cases hns : ns > 0
            · rw [if_pos hns] at ht₂; simp at ht₂; exact ht₂.1
            · rw [if_neg hns] at ht₂; simp at ht₂; exact ht₂.1
          obtain ⟨p, q, _, hp1, hp2⟩ := Lines.slice_eq_ok_iff.mp hws
          obtain ⟨p', q', e', hp1', _⟩ := Lines.slice_eq_ok_iff.mp ht
          refine ⟨by rw [hx], by rw [hy], by omega, ?_⟩
          exact Lines.onBoundary_iff.mpr ⟨p', t ++ q', by rw [e']; simp, hp1'⟩
  · rw [Lines.getLinesGo, if_neg hbe] at h₁
    cases h₁

theorem codeScan_sim (S : SRel τ ρ G s₁ s₂) :
    ∀ (k n last : Nat), s₁.lineMax - n = k → codeScan s₂ n last = codeScan s₁ n last := by
  intro k
  induction k with
  | zero =>
    intro n last hk
    rw [codeScan.eq_1 s₂, codeScan.eq_1 s₁, S.lineMax, if_neg (by omega), if_neg (by omega)]
  | succ k ih =>
    intro n last hk
    rw [codeScan.eq_1 s₂, codeScan.eq_1 s₁, S.lineMax, S.isEmpty, S.lineIndent]
    have hlt : n < s₁.lineMax := by omega
    rw [if_pos hlt, if_pos hlt]
    rw [ih (n + 1) last (by omega), ih (n + 1) (n + 1) (by omega)]

theorem SRel.ord₁ (S : SRel τ ρ G s₁ s₂) :
    ∀ (n : Nat) (o : LineOffset), s₁.offs[n]? = some o → o.lineStart ≤ o.firstNonspace ∧ o.firstNonspace ≤ o.lineEnd := by
  intro n o ho
  rcases S.get n with ⟨h1, _⟩ | ⟨o₁, o₂, h1, _, he⟩
  · rw [h1] at ho; cases ho
  · rw [h1] at ho; cases ho
    have := he.nums; omega

theorem SRel.ord₂ (S : SRel τ ρ G s₁ s₂) :
    ∀ (n : Nat) (o : LineOffset), s₂.offs[n]? = some o → o.lineStart ≤ o.firstNonspace ∧ o.firstNonspace ≤ o.lineEnd := by
  intro n o ho
  rcases S.get n with ⟨_, h2⟩ | ⟨o₁, o₂, _, h2, he⟩
  · rw [h2] at ho; cases ho
  · rw [h2] at ho; cases ho
    have := he.nums; omega

theorem code_sim (C : Ctx τ ρ G) (S : SRel τ ρ G s₁ s₂) (silent : Bool) (hne : silent = false → Live s₁) :
    FRel (ResRel τ ρ G) (codeRule s₁ silent) (codeRule s₂ silent) := by
  unfold codeRule
  split
  · exact frel_pure ⟨rfl, S⟩
  rw [S.line, S.lineIndent]
  refine frel_bind_same _ ?_
  intro ind _
  split
  · exact frel_pure ⟨rfl, S⟩
  rw [codeScan_sim S _ _ _ rfl]
  refine frel_bind_same _ ?_
  intro last _
  simp only
  rw [S.blkIndent]
  have S' : SRel τ ρ G { s₁ with line := last } { s₂ with line := last, blkIndent := s₁.blkIndent } := by
    srely_fields S
    exact S.children
  refine frel_bind' (S'.getLines _ _ _ _) ?_
  intro p₁ p₂ hp₁ hp₂ hp
  obtain ⟨c₁, m₁⟩ := p₁
  obtain ⟨c₂, m₂⟩ := p₂
  obtain ⟨hc, hm⟩ := hp
  simp only at hc hm ⊢
  subst hc
  match m₁, m₂, hm, hp₁, hp₂ with
  | [], [], _, _, _ => exact frel_err _
  | [], _ :: _, hm, _, _ => exact hm.elim
  | _ :: _, [], hm, _, _ => exact hm.elim
  | x :: r₁, y :: r₂, hm, hp₁, hp₂ =>
    simp only
    refine frel_bind_same _ ?_
    intro l1 hl1
    refine frel_bind' (S'.off _) ?_
    intro o₁ o₂ ho₁ ho₂ he
    have a₁ := code_assert_ok C.inc₁ S'.geo₁ S'.ord₁ hp₁ hl1 ho₁
    have a₂ := code_assert_ok C.inc₂ S'.geo₂ S'.ord₂ hp₂ hl1 ho₂
    rw [if_neg a₁, if_neg a₂]
    refine frel_pure ⟨rfl, ?_⟩
    srely_fields S'
    obtain ⟨hbe, p₁, p₂, first, hp1, hp2, hx, hy, hfirst, hbd⟩ := getLines_head_sim S' hp₁ hp₂
    obtain ⟨_, rfl⟩ := psub_ok hl1
    have hlive := hne (silent_false ‹¬ silent = true›)
    have hlt := nonempty_of (s := s₁) hlive.2 hp1
    have := S'.rng C (show s₁.line ≤ last - 1 by omega) hp1 hp2 (off_ok ho₁) (off_ok ho₂) first (by omega) hbd
    rw [← hx, ← hy] at this
    exact S'.children.push (NRel.mk (KRelS.of_ne (by intro c m h; cases h)) this NRelL.nil)

/-! ## fences -/

theorem fenceScan_sim (S : SRel τ ρ G s₁ s₂) (marker : Char) (len : Nat) :
    ∀ (k n : Nat), s₁.lineMax - n = k → fenceScan s₂ marker len n = fenceScan s₁ marker len n := by
  intro k
  induction k with
  | zero =>
    intro n hk
    rw [fenceScan.eq_1 s₂, fenceScan.eq_1 s₁, S.lineMax, if_pos (by omega), if_pos (by omega)]
  | succ k ih =>
    intro n hk
    rw [fenceScan.eq_1 s₂, fenceScan.eq_1 s₁, S.lineMax, S.getLine, S.lineIndent]
    by_cases hlt : n + 1 ≥ s₁.lineMax
    · rw [if_pos hlt, if_pos hlt]
    · rw [if_neg hlt, if_neg hlt]
      rw [ih (n + 1) (by omega)]

theorem fence_sim (C : Ctx τ ρ G) (S : SRel τ ρ G s₁ s₂) (silent : Bool) (hne : silent = false → Live s₁) :
    FRel (ResRel τ ρ G) (fenceRule s₁ silent) (fenceRule s₂ silent) := by
  unfold fenceRule
  rw [S.line, S.lineIndent, S.getLine]
  refine frel_bind_same _ ?_
  intro ind _
  split
  · exact frel_pure ⟨rfl, S⟩
  refine frel_bind_same _ ?_
  intro line _
  split
  · exact frel_pure ⟨rfl, S⟩
  split
  · exact frel_pure ⟨rfl, S⟩
  simp only
  split
  · exact frel_pure ⟨rfl, S⟩
  refine frel_bind_same _ ?_
  intro params _
  split
  · exact frel_pure ⟨rfl, S⟩
  split
  · exact frel_pure ⟨rfl, S⟩
  rw [fenceScan_sim S _ _ _ _ rfl]
  refine frel_bind_same _ ?_
  intro p _
  obtain ⟨nextLine, haveEnd⟩ := p
  simp only
  refine frel_bind (S.off _) ?_
  intro o₁ o₂ he
  rw [he.indent]
  refine frel_bind (S.getLines _ _ _ _) ?_
  intro q₁ q₂ hq
  obtain ⟨c₁, m₁⟩ := q₁
  obtain ⟨c₂, m₂⟩ := q₂
  obtain ⟨hc, _⟩ := hq
  simp only at hc ⊢
  subst hc
  refine frel_bind_same _ ?_
  intro e _
  refine frel_bind (S.getMap C _ _ (hne (silent_false ‹¬ silent = true›)).2) ?_
  intro r₁ r₂ hr
  refine frel_pure ⟨rfl, ?_⟩
  srely_fields S
  exact S.children.push (NRel.mk (KRelS.of_ne (by intro c m h; cases h)) hr NRelL.nil)

end MdIt.Block.LX.Y
