/-
  Helper development for `Props/C02Doc.lean` (property C02 on the real parser models), recursion
  part: how deep the two tokenizers nest their own calls.

  The models drive every loop AND every nested call with one `fuel`.  To separate the two, each
  tokenizer gets an instrumented twin with a second counter `d` that is spent ONLY by nested calls
  (the sequential loop keeps it): `Block.tokD`, `Inline.tokLoopD` / `Inline.skipTokenD`.  Running
  out of `d` is an error.  The theorems say that a budget depending on `max_nesting` alone is never
  exhausted — every result of the real function is reproduced by the twin:

    `Block.block_call_depth`     `tokenize cfg f s = .ok s'` ⇒ `tokD cfg d f s = .ok s'` whenever
                                 `d ≥ 1` and `d + s.level ≥ N + 1`  (top level: `d = N + 1`)
    `Inline.inline_call_depth`   the same for `tokLoop` with `d + level ≥ N + 2` (below the limit)
                                 and for `skipToken` with `d + level ≥ N + 1`  (top level: `N + 2`)

  The reason is the level discipline, proved as level-restricted monotonicity lemmas for the block
  side (`*_monoL`, in the style of `Props/Block.lean` §11: results, i.e. `.ok`, are preserved) and as
  level-restricted congruence lemmas for the inline side (`*_congr`: full equality, panics included):
  a rule run at `state.level = l` calls the nested tokenizer only at levels `> l` (block quote
  `l + 1`, list item `l + 2`, link text `l + 1`; `skip_token` is called at `l` from a real rule and at
  `l + 1` from a silent one), a silent rule never calls `tokenize`, and both tokenizers refuse to run
  any rule at `level ≥ max_nesting` (`tokLoop_monoL`, `tokStep_congr`, the guard of `skipToken`).
-/
import MdIt.Props.Block
import MdIt.Lemmas.C02DocInline

set_option linter.unusedVariables false

/-! # Block -/

namespace MdIt.Block
open MdIt.Lines (LineOffset)

/-- `tokenize` with a nesting budget: `d` is spent by the nested tokenizer calls of the block quote
    and list rules only; `f` is the fuel of the model (spent by loops and nesting alike) -/
def tokD (cfg : Cfg) : Nat → Nat → Tok
  | _, 0 => fun _ => .error .fuel
  | 0, _ + 1 => fun _ => .error .fuel
  | d + 1, f + 1 => tokLoop cfg (runRule cfg (tokD cfg d f) (testRules cfg f) (f + 1)) (f + 1) false

/-- `tok'` answers whatever `tok` answers on states above level `L` -/
def ExtAbove (L : Nat) (tok tok' : Tok) : Prop := ∀ a b, L < a.level → tok a = .ok b → tok' a = .ok b

theorem blockquote_monoL {tok tok' : Tok} {test : Test} (ht : TestPure test) {fuel : Nat} {s : BState}
    (hk : ExtAbove s.level tok tok') {b : Bool} {r : Bool × BState}
    (h : blockquoteRule tok test fuel s b = .ok r) : blockquoteRule tok' test fuel s b = .ok r := by
  unfold blockquoteRule at h ⊢
  crack h
  all_goals (try (have hsb := (bqScan_spec ht _ _ _ _ _ _ _ _ ‹bqScan _ _ _ _ _ _ = _›).1))
  all_goals (try (have htok := hk _ _ (Nat.lt_succ_of_le (Nat.le_of_eq hsb.level.symm)) ‹tok _ = _›))
  all_goals (try subst_vars)
  all_goals replay_mono

theorem listItemBody_monoL {tok tok' : Tok} {L : Nat} (hk : ExtAbove L tok tok') {s t : BState}
    (hL : L ≤ s.level) {m : Nat} {re : Bool}
    (h : listItemBody tok s m re = .ok t) : listItemBody tok' s m re = .ok t := by
  unfold listItemBody at h ⊢
  crack h
  all_goals (try (have htok := hk _ _ (Nat.lt_succ_of_le hL) ‹tok _ = _›))
  all_goals (try subst_vars)
  all_goals replay_mono

theorem listItem_monoL {tok tok' : Tok} {L : Nat} (hk : ExtAbove L tok tok') {s : BState}
    (hL : L ≤ s.level) {m pos : Nat} {pee tight : Bool}
    {r : BState × Bool × Bool} (h : listItem tok s m pos pee tight = .ok r) :
    listItem tok' s m pos pee tight = .ok r := by
  unfold listItem at h ⊢
  crack h
  rename_i o ho rw hrw S2 hS2 S3 hb0 pe hpe x li hli S5 hS5 e he r hr
  have hS2' := setOff_ok hS2
  have hbody := listItemBody_monoL hk (by rw [hS2'.2]; exact hL) hb0
  clear hS2'
  subst_vars
  replay_mono

theorem listLoop_monoL {tok tok' : Tok} {test : Test} {L : Nat} (hsp : TokSpec tok)
    (hk : ExtAbove L tok tok') (ht : TestPure test) {ordered : Bool} {mc : Char} :
    ∀ (fuel : Nat) (s : BState) (m pos : Nat) (pee tight : Bool) (r : Nat × Bool × BState),
      L ≤ s.level → s.line = m → m < s.lineMax →
      listLoop tok test ordered mc fuel s m pos pee tight = .ok r →
      listLoop tok' test ordered mc fuel s m pos pee tight = .ok r := by
  intro fuel
  induction fuel with
  | zero => intro s m pos pee tight r _ _ _ h; simp [listLoop] at h
  | succ f ih =>
    intro s m pos pee tight r hL hline hlt h
    simp only [listLoop] at h ⊢
    crack h
    all_goals (have hitem0 := ‹listItem _ _ _ _ _ _ = _›)
    all_goals (have hc := ‹listContinue _ _ _ _ _ = _›)
    all_goals (have hitem := listItem_monoL hk hL hitem0)
    · subst_vars
      replay_mono
    · obtain ⟨hfr, h1, h2⟩ := listItem_spec hsp hitem0 hline (by omega)
      obtain ⟨hS2, hc2⟩ := listContinue_spec ht hc
      have hsome := ‹_ = some _›
      have hlt2 := hc2 (by rw [hsome]; simp)
      have hrec := ih _ _ _ _ _ _ (by rw [hS2, hfr.level]; exact hL) (by rw [hS2]) (by rw [hS2]; exact hlt2) h
      rw [hS2] at hrec
      subst_vars
      replay_mono

theorem list_monoL {tok tok' : Tok} {test : Test} (hsp : TokSpec tok) (ht : TestPure test)
    {fuel : Nat} {s : BState} (hk : ExtAbove s.level tok tok') (hl : s.line < s.lineMax)
    {b : Bool} {r : Bool × BState}
    (h : listRule tok test fuel s b = .ok r) : listRule tok' test fuel s b = .ok r := by
  unfold listRule at h ⊢
  cases b <;> crack h
  all_goals (try (have hloop0 := ‹listLoop _ _ _ _ _ _ _ _ _ _ = _›))
  all_goals (try (have hloop := listLoop_monoL hsp hk ht _ _ _ _ _ _ _ (by exact Nat.le_succ _) (by rfl) (by exact hl) hloop0))
  all_goals (try subst_vars)
  all_goals (try simp only [eq_self, true_and, Bool.false_eq_true, false_and, decide_false, pure, Except.pure] at *)
  all_goals replay_mono

theorem runRule_monoL {cfg : Cfg} {tok tok' : Tok} {test : Test} (hsp : TokSpec tok) (ht : TestPure test)
    {fuel : Nat} (r : RuleId) {s : BState} (hk : ExtAbove s.level tok tok') (hl : s.line < s.lineMax)
    {b : Bool} {x : Bool × BState}
    (h : runRule cfg tok test fuel r s b = .ok x) : runRule cfg tok' test fuel r s b = .ok x := by
  cases r <;> simp only [runRule] at h ⊢
  · exact h
  · exact h
  · exact blockquote_monoL ht hk h
  · exact h
  · exact list_monoL hsp ht hk hl h
  · exact h
  · exact h
  · exact h
  · exact h

theorem runChain_monoL {run run' : RuleId → BState → Bool → Res} (hr : RunSpec run) :
    ∀ (chain : List RuleId) (s : BState) (x : Bool × BState),
      (∀ r x, run r s false = .ok x → run' r s false = .ok x) →
      runChain run chain s false = .ok x → runChain run' chain s false = .ok x := by
  intro chain
  induction chain with
  | nil => intro s x _ h; exact h
  | cons r rs ih =>
    intro s x hrun h
    simp only [runChain] at h ⊢
    split at h
    · cases h
    · rename_i s1 h1
      rw [hrun _ _ h1]; exact h
    · rename_i s1 h1
      rw [hrun _ _ h1]
      have := hr.false_same _ _ _ h1
      subst this
      exact ih _ _ hrun h

/-- the tokenizer loop entered at level `L`: only the behaviour of the chain on states of level `L`
    (below the limit, on a line of the window) matters -/
theorem tokLoop_monoL {cfg : Cfg} {run run' : RuleId → BState → Bool → Res} (hr : RunSpec run) {L : Nat}
    (hrun : ∀ r s x, s.level = L → L < cfg.maxNesting → s.line < s.lineMax →
      run r s false = .ok x → run' r s false = .ok x) :
    ∀ (fuel : Nat) (he : Bool) (s t : BState), s.level = L →
      tokLoop cfg run fuel he s = .ok t → tokLoop cfg run' fuel he s = .ok t := by
  intro fuel
  induction fuel with
  | zero => intro he s t _ h; simp [tokLoop] at h
  | succ f ih =>
    intro he s t hL h
    simp only [tokLoop] at h ⊢
    crack h
    all_goals (try (
      have hchain0 := ‹runChain _ _ _ _ = _›
      have hafter := ‹afterChain _ _ _ = _›
      have hlev : ¬ _ ≥ cfg.maxNesting := ‹_›
      have hchain := runChain_monoL (run' := run') hr _ _ _
        (fun r x hx => hrun r _ x (by first | exact hL | rfl) (by omega) (by simp; omega) hx) hchain0
      obtain ⟨h13, _, _⟩ := tok_iter hr
        (s1 := { s with line := Lines.skipEmptyLines s.offs s.lineMax s.line })
        rfl (by simp; omega) ⟨_, ‹BState.lineIndent _ _ = _›, by omega⟩ hchain0 hafter
      have hrec := ih _ _ _ (by first | exact h13.level.trans hL | exact h13.level) h))
    all_goals (try subst_vars)
    all_goals replay_mono

/-- **`block_call_depth`.**  Every result of the block tokenizer entered at level `l` is reproduced
    with a nesting budget of `max (N + 1 − l) 1` simultaneously active tokenizer calls: every
    recursive call site passes a strictly larger level (`blockquote_monoL`, `list_monoL`) and the
    tokenizer runs no rule at `level ≥ N` (`tokLoop_monoL`). -/
theorem block_call_depth (cfg : Cfg) : ∀ (f d : Nat) (s s' : BState), tokenize cfg f s = .ok s' →
    cfg.maxNesting + 1 ≤ d + s.level → 1 ≤ d → tokD cfg d f s = .ok s' := by
  intro f
  induction f with
  | zero => intro d s s' h; simp [tokenize, engine] at h
  | succ f ih =>
    intro d s s' h hd hd1
    obtain ⟨d', rfl⟩ : ∃ d', d = d' + 1 := ⟨d - 1, by omega⟩
    simp only [tokenize, engine] at h
    simp only [tokD]
    have hk := tokenize_tokSpec cfg f
    have ht := testRules_pure cfg f
    refine tokLoop_monoL (runRule_spec hk ht _) (L := s.level) ?_ _ _ _ _ rfl h
    intro r s1 x hL hlt hline hx
    refine runRule_monoL hk ht r ?_ hline hx
    intro a b hab htok
    exact ih d' a b htok (by omega) (by omega)

/-- the whole block pass with `N + 1` nested tokenizer calls -/
theorem parseBlocks_call_depth {cfg : Cfg} {src : List Char} {s : BState}
    (h : tokenize cfg (fuelFor cfg src) (BState.fresh src .root []) = .ok s) :
    tokD cfg (cfg.maxNesting + 1) (fuelFor cfg src) (BState.fresh src .root []) = .ok s :=
  block_call_depth cfg _ _ _ _ h (by omega) (by omega)

end MdIt.Block

/-! # Inline -/

namespace MdIt.Inline
open MdIt.InlineOps (Srcmap getSourcePosFor getMap byteLen slice)

mutual
/-- `tokLoop` with a nesting budget: `d` is spent by the calls a RULE makes back into the parser
    (`skip_token` from the label look-ahead, `tokenize` for the link text), not by the iterations of
    the `while` loop; `fuel` is the fuel of the model -/
def tokLoopD (cfg : Cfg) : Nat → Nat → Nat → IState → Except Panic IState
  | d, fuel, end_, st =>
    if st.pos < end_ then
      match fuel with
      | 0 => .error .fuel
      | fuel + 1 =>
        match d with
        | 0 => .error .fuel
        | d + 1 =>
          match tokStep cfg (fun s => skipTokenD cfg d fuel s) (fun s => tokLoopD cfg d fuel s.posMax s) fuel st with
          | .error e => .error e
          | .ok st' => tokLoopD cfg (d + 1) fuel end_ st'
    else .ok st
/-- `skipToken` with a nesting budget -/
def skipTokenD (cfg : Cfg) : Nat → Nat → IState → Except Panic IState
  | _, 0, _ => .error .fuel
  | d, fuel + 1, st =>
    match d with
    | 0 => .error .fuel
    | d + 1 =>
      match st.cache.lookup st.pos with
      | some x => .ok { st with pos := x }
      | none =>
        if st.level < cfg.maxNesting then
          skipStep cfg (fun s => skipTokenD cfg d fuel s) (fun s => tokLoopD cfg d fuel s.posMax s) fuel st
        else
          .ok { st with pos := st.posMax, cache := cacheInsert st.cache st.pos st.posMax }
end

/-- `f` and `f'` agree (errors included) on states at level `L` -/
def AgreeAt (L : Nat) (f f' : IState → Except Panic IState) : Prop := ∀ a, a.level = L → f a = f' a

theorem labelLoop_congr {skip skip' : IState → Except Panic IState} {L : Nat} (hq : CalmFn skip)
    (hk : AgreeAt L skip skip') (en : Bool) :
    ∀ (n : Nat) (level : Int) (st : IState), st.level = L →
      labelLoop skip en n level st = labelLoop skip' en n level st := by
  intro n
  induction n with
  | zero => intro level st _; rfl
  | succ n ih =>
    intro level st hL
    unfold labelLoop
    rw [← hk st hL]
    cases hs : skip st with
    | error e => rfl
    | ok st' =>
      have hl1 : st'.level = L := (hq _ _ hs).level.trans hL
      simp only [fun lv => ih lv st' hl1]

theorem parseLinkLabel_congr {skip skip' : IState → Except Panic IState} {L : Nat} (hq : CalmFn skip)
    (hk : AgreeAt L skip skip') {fuel : Nat} {st : IState} {start : Nat} {en : Bool} (hL : st.level = L) :
    parseLinkLabel skip fuel st start en = parseLinkLabel skip' fuel st start en := by
  unfold parseLinkLabel
  rw [labelLoop_congr hq hk en fuel 1 _ (by exact hL)]

theorem parseLinkRef_congr {cfg : Cfg} {skip skip' : IState → Except Panic IState} {L : Nat}
    (hq : CalmFn skip) (hk : AgreeAt L skip skip') {fuel : Nat} {st : IState} {ls le : Nat}
    (hL : st.level = L) :
    parseLinkRef cfg skip fuel st ls le = parseLinkRef cfg skip' fuel st ls le := by
  unfold parseLinkRef
  simp only [parseLinkLabel_congr hq hk hL]

theorem parseLink_congr {cfg : Cfg} {skip skip' : IState → Except Panic IState} {L : Nat}
    (hq : CalmFn skip) (hk : AgreeAt L skip skip') {fuel : Nat} {st : IState} {pos : Nat} {en : Bool}
    (hL : st.level = L) :
    parseLink cfg skip fuel st pos en = parseLink cfg skip' fuel st pos en := by
  unfold parseLink
  rw [← parseLinkLabel_congr hq hk hL]
  cases hpl : parseLinkLabel skip fuel st pos en with
  | error e => rfl
  | ok r =>
    obtain ⟨o, st1⟩ := r
    cases o with
    | none => rfl
    | some labelEnd =>
      have hl1 : st1.level = L := (parseLinkLabel_calm hq hpl).level.trans hL
      simp only [parseLinkRef_congr hq hk hl1]

theorem linkRule_congr {cfg : Cfg} {skip skip' tok tok' : IState → Except Panic IState} {L : Nat}
    (hq : CalmFn skip) (hk : AgreeAt L skip skip') {silent : Bool}
    (ht : silent = false → AgreeAt (L + 1) tok tok') {fuel : Nat}
    {mk : List Nat → Option (List Char) → Val} {en : Bool} {offset : Nat} {st : IState}
    (hL : st.level = L) :
    linkRule cfg skip tok fuel mk en offset st silent = linkRule cfg skip' tok' fuel mk en offset st silent := by
  unfold linkRule
  simp only
  rw [← parseLink_congr hq hk hL]
  cases hpl : parseLink cfg skip fuel st (st.pos + offset) en with
  | error e => rfl
  | ok r =>
    obtain ⟨o, st1⟩ := r
    cases o with
    | none => rfl
    | some res =>
      cases silent with
      | true => rfl
      | false =>
        have hl1 : st1.level = L := (parseLink_calm hq hpl).level.trans hL
        have key := ht rfl
          { st1 with children := [], bottoms := [], linkLevel := st1.linkLevel + 1, level := st1.level + 1, pos := res.labelStart, posMax := res.labelEnd }
          (by simp only; omega)
        simp only [Bool.false_eq_true, ↓reduceIte, key]

theorem runRule_congr {cfg : Cfg} {skip skip' tok tok' : IState → Except Panic IState} {L : Nat}
    (hq : CalmFn skip) (hk : AgreeAt L skip skip') {silent : Bool}
    (ht : silent = false → AgreeAt (L + 1) tok tok') {fuel : Nat} (id : RuleId) {st : IState}
    (hL : st.level = L) :
    runRule cfg skip tok fuel id st silent = runRule cfg skip' tok' fuel id st silent := by
  unfold runRule
  cases id with
  | link => simp only [ruleLink, linkRule_congr hq hk ht hL]
  | image => simp only [ruleImage, linkRule_congr hq hk ht hL]
  | _ => rfl

theorem firstRule_congr {run run' : RuleId → IState → RuleRes} {L : Nat}
    (hag : ∀ id a, a.level = L → run id a = run' id a)
    (hlv : ∀ id a o b, a.level = L → run id a = .ok (o, b) → b.level = L) :
    ∀ (rules : List RuleId) (st : IState), st.level = L →
      firstRule run rules st = firstRule run' rules st := by
  intro rules
  induction rules with
  | nil => intro st _; rfl
  | cons r rs ih =>
    intro st hL
    unfold firstRule
    rw [← hag r st hL]
    cases hr : run r st with
    | error e => rfl
    | ok x =>
      obtain ⟨o, st1⟩ := x
      cases o with
      | some n => rfl
      | none => simp only [ih st1 (hlv _ _ _ _ hL hr)]

theorem silentBumped_congr {run run' : IState → Bool → RuleRes} {st : IState}
    (hag : run { st with level := st.level + 1 } true = run' { st with level := st.level + 1 } true) :
    silentBumped run st = silentBumped run' st := by
  unfold silentBumped
  rw [hag]

/-- a real-mode rule below the limit hands the level back (the level part of `runRule_depth`) -/
theorem runRule_real_level {cfg : Cfg} {N : Nat} {skip tok : IState → Except Panic IState}
    (hq : CalmFn skip) (ht : TokDI N tok) {fuel : Nat} {id : RuleId} {st : IState} {o : Option Nat}
    {st' : IState} (h : runRule cfg skip tok fuel id st false = .ok (o, st')) (hl : st.level < N) :
    st'.level = st.level :=
  (runRule_depth (B := max (N - st.level + 1) (idepthList st.children)) hq ht h hl (Nat.le_max_left _ _)
    (fun c hc => Nat.le_trans ((idepthList_le_iff _ _).mp (Nat.le_refl _) c hc) (Nat.le_max_right _ _))).2

theorem tokStep_level {cfg : Cfg} {skip tok : IState → Except Panic IState}
    (hq : CalmFn skip) (ht : TokDI cfg.maxNesting tok) {fuel : Nat} {st st' : IState}
    (h : tokStep cfg skip tok fuel st = .ok st') : st'.level = st.level :=
  (tokStep_depth (B := max (cfg.maxNesting - st.level + 1) (idepthList st.children)) hq ht h
    (Nat.le_max_left _ _)
    (fun c hc => Nat.le_trans ((idepthList_le_iff _ _).mp (Nat.le_refl _) c hc) (Nat.le_max_right _ _))).2

/-- one iteration of `tokenize` at level `L`: below the limit it depends on `skip_token` at level `L`
    and on `tokenize` at level `L + 1` only; at or beyond the limit on neither -/
theorem tokStep_congr {cfg : Cfg} {skip skip' tok tok' : IState → Except Panic IState} {L : Nat}
    (hq : CalmFn skip) (htd : TokDI cfg.maxNesting tok)
    (hk : L < cfg.maxNesting → AgreeAt L skip skip')
    (ht : L < cfg.maxNesting → AgreeAt (L + 1) tok tok') {fuel : Nat} {st : IState} (hL : st.level = L) :
    tokStep cfg skip tok fuel st = tokStep cfg skip' tok' fuel st := by
  unfold tokStep
  simp only
  by_cases hlt : st.level < cfg.maxNesting
  · have hlt' : L < cfg.maxNesting := hL ▸ hlt
    have hfr := firstRule_congr (run := fun id s => runRule cfg skip tok fuel id s false)
      (run' := fun id s => runRule cfg skip' tok' fuel id s false) (L := L)
      (fun id a ha => runRule_congr hq (hk hlt') (fun _ => ht hlt') id ha)
      (fun id a o b ha hr => (runRule_real_level hq htd hr (by omega)).trans ha) cfg.chain st hL
    rw [if_pos hlt, if_pos hlt, hfr]
  · rw [if_neg hlt, if_neg hlt]

/-- the body of `skip_token` at level `L` depends on `skip_token` at level `L + 1` only (every rule
    runs silently between `level += 1` and `level -= 1`; a silent rule never calls `tokenize`) -/
theorem skipStep_congr {cfg : Cfg} {skip skip' tok tok' : IState → Except Panic IState} {L : Nat}
    (hq : CalmFn skip) (hk : AgreeAt (L + 1) skip skip') {fuel : Nat} {st : IState} (hL : st.level = L) :
    skipStep cfg skip tok fuel st = skipStep cfg skip' tok' fuel st := by
  unfold skipStep
  simp only
  have hfr := firstRule_congr (run := fun id s => silentBumped (runRule cfg skip tok fuel id) s)
    (run' := fun id s => silentBumped (runRule cfg skip' tok' fuel id) s) (L := L)
    (fun id a ha => silentBumped_congr
      (runRule_congr hq hk (fun h => by cases h) id (by simp only; omega)))
    (fun id a o b ha hr =>
      (silentBumped_calm (fun s2 o2 s2' hr2 => runRule_silent_calm hq hr2) hr).level.trans ha)
    cfg.chain st hL
  rw [hfr]

/-- **`inline_call_depth`.**  With a nesting budget that depends on `max_nesting` and the entry level
    alone the instrumented twins compute exactly what `skip_token` / `tokenize` compute (errors
    included): `skip_token` entered at level `l` needs `max (N + 1 − l) 1` simultaneously active
    calls, `tokenize` `N + 2 − l` below the limit and 1 at or beyond it. -/
theorem inline_call_depth (cfg : Cfg) : ∀ fuel : Nat,
    (∀ (d : Nat) (st : IState), 1 ≤ d → cfg.maxNesting + 1 ≤ d + st.level →
      skipTokenD cfg d fuel st = skipToken cfg fuel st) ∧
    (∀ (d e : Nat) (st : IState), 1 ≤ d → (st.level < cfg.maxNesting → cfg.maxNesting + 2 ≤ d + st.level) →
      tokLoopD cfg d fuel e st = tokLoop cfg fuel e st) := by
  intro fuel
  induction fuel with
  | zero =>
    constructor
    · intro d st _ _; rfl
    · intro d e st _ _
      unfold tokLoopD tokLoop
      split <;> rfl
  | succ f ih =>
    obtain ⟨ihS, ihT⟩ := ih
    have hq := skipToken_calm cfg f
    have htd : TokDI cfg.maxNesting (fun s => tokLoop cfg f s.posMax s) :=
      fun s s' h => depth_induction cfg f _ s s' h
    constructor
    · intro d st hd1 hd
      obtain ⟨d', rfl⟩ : ∃ d', d = d' + 1 := ⟨d - 1, by omega⟩
      unfold skipTokenD skipToken
      simp only
      cases hlk : List.lookup st.pos st.cache with
      | some x => rfl
      | none =>
        simp only
        by_cases hlt : st.level < cfg.maxNesting
        · rw [if_pos hlt, if_pos hlt]
          exact (skipStep_congr (skip := fun s => skipToken cfg f s)
            (skip' := fun s => skipTokenD cfg d' f s) (L := st.level) hq
            (fun a ha => (ihS d' a (by omega) (by omega)).symm) rfl).symm
        · rw [if_neg hlt, if_neg hlt]
    · intro d e st hd1 hd
      obtain ⟨d', rfl⟩ : ∃ d', d = d' + 1 := ⟨d - 1, by omega⟩
      unfold tokLoopD tokLoop
      by_cases hpos : st.pos < e
      · simp only [hpos, ↓reduceIte]
        rw [← tokStep_congr (skip := fun s => skipToken cfg f s)
          (skip' := fun s => skipTokenD cfg d' f s) (tok := fun s => tokLoop cfg f s.posMax s)
          (tok' := fun s => tokLoopD cfg d' f s.posMax s) (L := st.level) hq htd
          (fun hlt a ha => (ihS d' a (by omega) (by omega)).symm)
          (fun hlt a ha => (ihT d' _ a (by omega) (by omega)).symm) rfl]
        cases hstep : tokStep cfg (fun s => skipToken cfg f s) (fun s => tokLoop cfg f s.posMax s) f st with
        | error e => rfl
        | ok st1 =>
          have hl1 := tokStep_level hq htd hstep
          exact ihT (d' + 1) e st1 hd1 (by rw [hl1]; exact hd)
      · simp only [hpos, ↓reduceIte]

/-- the top-level inline run with `N + 2` nested calls -/
theorem tokenize_call_depth (cfg : Cfg) (fuel : Nat) (st : IState) :
    tokLoopD cfg (cfg.maxNesting + 2) fuel st.posMax st = tokenize cfg fuel st :=
  (inline_call_depth cfg fuel).2 _ _ st (by omega) (by omega)

end MdIt.Inline
