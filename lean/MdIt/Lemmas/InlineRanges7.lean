/-
  Helper development for `Props/Inline.lean`: source ranges, part 7 — the post pass
  (`fragments_join` / `FragmentsJoin::run`) keeps sibling lists ordered and nodes well ranged.
-/
import MdIt.Lemmas.InlineRanges6

namespace MdIt.Inline

/-- ordered inside `[lo, hi]` and well ranged below -/
def OD (lo hi : Nat) (l : List Node) : Prop := OrderedN lo hi l ∧ WellRangedList l

theorem wellRanged_val (n : Node) (v : Val) : WellRanged { n with val := v } ↔ WellRanged n := by
  rw [WellRanged_eq, WellRanged_eq]

theorem markerToText_range (n : Node) : (markerToText n).range = n.range := by
  unfold markerToText; split <;> rfl

theorem markerToText_wellRanged (n : Node) (h : WellRanged n) : WellRanged (markerToText n) := by
  unfold markerToText
  split
  · exact (wellRanged_val n _).mpr h
  · exact h

theorem od_pass1 {lo hi : Nat} {l : List Node} (h : OD lo hi l) : OD lo hi (pass1 l) := by
  induction l generalizing lo with
  | nil => exact h
  | cons n r ih =>
    obtain ⟨⟨a, b, h1, h2, h3, h4⟩, hw⟩ := h
    have := ih ⟨h4, hw.2⟩
    exact ⟨⟨a, b, by rw [markerToText_range]; exact h1, h2, h3, this.1⟩,
      ⟨markerToText_wellRanged n hw.1, this.2⟩⟩

theorem keep_emptied (n : Node) : keep (emptied n) = false := by
  unfold keep emptied Node.isText Node.content; rfl

theorem od_filter_mergeLoop (lo hi : Nat) (cur : Node) (rest : List Node)
    (h : OD lo hi (cur :: rest)) : OD lo hi ((mergeLoop cur rest).filter keep) := by
  induction rest generalizing lo cur with
  | nil =>
    obtain ⟨⟨a, b, h1, h2, h3, h4⟩, hw⟩ := h
    simp only [mergeLoop, List.filter_cons, List.filter_nil]
    split
    · exact ⟨⟨a, b, h1, h2, h3, h4⟩, hw⟩
    · simp only [OrderedN] at h4
      exact ⟨by simp only [OrderedN]; omega, trivial⟩
  | cons nxt rest ih =>
    obtain ⟨⟨a, b, h1, h2, h3, c, d, h5, h6, h7, h8⟩, hw⟩ := h
    simp only [mergeLoop]
    split
    · rw [List.filter_cons_of_neg (by rw [keep_emptied]; simp)]
      apply ih
      refine ⟨⟨a, d, ?_, h2, by omega, h8⟩, ?_, hw.2.2⟩
      · simp [merged, h1, h5]
      · -- the merged node keeps the children of `cur`, inside a wider range
        have hc := hw.1
        rw [WellRanged_eq] at hc ⊢
        obtain ⟨⟨a', b', hr, hab, hord⟩, hdeep⟩ := hc
        rw [h1] at hr; simp only [Option.some.injEq, Prod.mk.injEq] at hr
        obtain ⟨rfl, rfl⟩ := hr
        refine ⟨⟨a, d, by simp [merged, h1, h5], by omega, ?_⟩, hdeep⟩
        exact hord.widen (Nat.le_refl _) (by omega)
    · have hrec := ih b nxt ⟨⟨c, d, h5, h6, h7, h8⟩, hw.2⟩
      simp only [List.filter_cons]
      split
      · exact ⟨⟨a, b, h1, h2, h3, hrec.1⟩, ⟨hw.1, hrec.2⟩⟩
      · exact ⟨hrec.1.widen (by omega) (Nat.le_refl _), hrec.2⟩

/-- `fragments_join` keeps a sibling list ordered inside the parent's interval and well ranged -/
theorem od_fragmentsJoinN {lo hi : Nat} {cs : List Node} (h : OD lo hi cs) :
    OD lo hi (fragmentsJoinN cs) := by
  unfold fragmentsJoinN
  have := od_pass1 h
  cases hp : pass1 cs with
  | nil => rw [hp] at this; simpa [mergeAll] using this
  | cons c r => rw [hp] at this; exact od_filter_mergeLoop lo hi c r this

theorem joinNodeN_range (n : Node) : (joinNodeN n).range = n.range := by rw [joinNodeN_eq]

theorem orderedN_joinListN {lo hi : Nat} {l : List Node} (h : OrderedN lo hi l) :
    OrderedN lo hi (joinListN l) := by
  induction l generalizing lo with
  | nil => rw [joinListN_nil]; exact h
  | cons c cs ih =>
    rw [joinListN_cons]
    obtain ⟨a, b, h1, h2, h3, h4⟩ := h
    exact ⟨a, b, by rw [joinNodeN_range]; exact h1, h2, h3, ih h4⟩

theorem wellRanged_join_aux (k : Nat) :
    (∀ n, nsize n ≤ k → WellRanged n → WellRanged (joinNodeN n)) ∧
    (∀ l, nsizeList l ≤ k → WellRangedList l → WellRangedList (joinListN l)) := by
  induction k with
  | zero =>
    constructor
    · intro n hn; rw [nsize_eq] at hn; omega
    · intro l hl _
      cases l with
      | nil => rw [joinListN_nil]; trivial
      | cons c cs => simp only [nsizeList] at hl; have := nsize_eq c; omega
  | succ k ih =>
    have hnode : ∀ n, nsize n ≤ k + 1 → WellRanged n → WellRanged (joinNodeN n) := by
      intro n hn h
      rw [WellRanged_eq] at h ⊢
      rw [joinNodeN_range, joinNodeN_children]
      obtain ⟨⟨a, b, hr, hab, hord⟩, hdeep⟩ := h
      have hod := od_fragmentsJoinN (lo := a) (hi := b) ⟨hord, hdeep⟩
      refine ⟨⟨a, b, hr, hab, orderedN_joinListN hod.1⟩, ih.2 _ ?_ hod.2⟩
      have := nsizeList_fragmentsJoinN_le n.children
      rw [nsize_eq] at hn; omega
    refine ⟨hnode, ?_⟩
    intro l hl h
    induction l with
    | nil => rw [joinListN_nil]; trivial
    | cons c cs ihl =>
      rw [joinListN_cons]
      simp only [nsizeList] at hl
      have := nsize_eq c
      exact ⟨hnode c (by omega) h.1, ihl (by omega) h.2⟩

/-- the children of the root after `FragmentsJoin::run` -/
theorem od_finish_join {lo hi : Nat} {cs : List Node} (h : OD lo hi cs) :
    OD lo hi (joinAllN (rootOf cs)).children := by
  unfold joinAllN
  rw [joinNodeN_children]
  have hod := od_fragmentsJoinN h
  exact ⟨orderedN_joinListN hod.1, (wellRanged_join_aux _).2 _ (Nat.le_refl _) hod.2⟩

end MdIt.Inline
