/-
  Helper development for `Props/TotalTabs.lean` (C01 for ALL sources, split tabs included), the route
  actually taken: a LOCK-STEP SIMULATION of two runs of the inline parser on the same text,

      side 1  under a table on which the run is known to succeed (in the application `[(0, 0)]`, which
              is `Inline.MapOK` for every text, so the inline totality theorem applies to it),
      side 2  under a table that is only `C05T.MapT` (every `get_lines` table, split tabs included).

  The control flow of the inline parser never reads the table: `cache`, `backticks`, `bottoms`, `pos`,
  `posMax`, `level`, `linkLevel` hold inline offsets only, and the table feeds `get_source_pos_for` /
  `get_map`, whose results go into node RANGES.  The state relation is `IRel false` of
  Lemmas/C10DocInline.lean (every field equal except `srcmap` and the ranges inside `children`), the
  simulation is STRICT (`Sim true`: side 2 must return `ok`).  Side 2 can fail where side 1 does not at
  exactly four kinds of places:
    * `get_source_pos_for` / `get_map` — total on a well-formed table (`C05.translate_total`; the
      `debug_assert!(start <= end)` of `get_map` compares INLINE offsets);
    * `map_end - count` in `trailing_text_pop` (newline rule, real mode) — excluded by
      `TT.TrailOKw`, which follows from the frame invariant `C05T.RIv` of side 2 (shift argument);
    * `e - marker_len` in the delimiter matching — excluded by `Inline.RI` of side 2
      (`matchOuter_total`, Lemmas/InlineEmphTotal.lean, which does not look at the table).
  The unary invariant of side 2 is NOT carried in the conclusions: the lemmas of
  Lemmas/C05TabsRanges*.lean (`tv_runRule`, `tv_tokStep`, `tv_induction`) re-establish it from the
  fact that side 2 returned `ok`.

  This file: `trailing_text_push/pop`, the seven rules without look-ahead, the delimiter matching.
-/
import MdIt.Lemmas.C10DocInline
import MdIt.Lemmas.TotalTabsRules

namespace MdIt.Inline.TT
open MdIt.Inline
open MdIt.InlineOps (Srcmap getSourcePosFor getMap byteLen slice)
open MdIt.C05T (MapT RIv tv_RInv tv_NlAct tv_StepRI tv_StepOK tv_RangesFn SolidMarkers)
open MdIt.C05R (Cut)
open MdIt.C05 (WFMap)
set_option linter.unusedSimpArgs false
set_option linter.unusedVariables false

/-! ## the table -/

theorem getMap_simT {m₁ m₂ : Srcmap} (hw : WFMap m₂) {a b : Nat} {r₁ : Nat × Nat}
    (h₁ : getMap m₁ a b = .ok r₁) :
    Sim true (fun r₁ r₂ => RRel false (some r₁) (some r₂)) r₁ (getMap m₂ a b) := by
  unfold getMap at h₁ ⊢
  split at h₁
  · simp at h₁
  · next hab =>
    rw [if_neg hab]
    obtain ⟨x, hx⟩ := C05.translate_total m₂ hw a
    obtain ⟨y, hy⟩ := C05.translate_total m₂ hw b
    rw [hx, hy]
    exact RRel.false _ _

theorem getMapSt_simT {a : IState} {m : Srcmap} {cs : List Node} (hw : WFMap m)
    {x y : Nat} {r₁ : Nat × Nat} (h : a.getMap x y = .ok r₁) :
    Sim true (fun r₁ r₂ => RRel false (some r₁) (some r₂)) r₁
      (IState.getMap { a with srcmap := m, children := cs } x y) :=
  (getMap_simT hw (liftOps_ok.mp h)).liftOps

/-! ## `trailing_text_push` -/

theorem fresh_simT {src : List Char} {m₁ m₂ : Srcmap} {c₁ c₂ o₁ : List Node}
    {a b : Nat} (hw : WFMap m₂) (hc : LRel false c₁ c₂)
    (h : (match liftOps (slice src a b) with
      | Except.error e => Except.error e
      | Except.ok piece =>
        match liftOps (getMap m₁ a b) with
        | Except.error e => Except.error e
        | Except.ok r => Except.ok (c₁ ++ [Node.newText piece (some r)])) = Except.ok o₁) :
    Sim true (LRel false) o₁ (match liftOps (slice src a b) with
      | Except.error e => Except.error e
      | Except.ok piece =>
        match liftOps (getMap m₂ a b) with
        | Except.error e => Except.error e
        | Except.ok r => Except.ok (c₂ ++ [Node.newText piece (some r)])) := by
  split at h
  · simp at h
  · next piece hp =>
    split at h
    · simp at h
    · next r₁ hg =>
      simp only [Except.ok.injEq] at h; subst h
      rcases (getMap_simT hw (liftOps_ok.mp hg)).liftOps.cases with ⟨r₂, e2, hr⟩ | ⟨hs, e, e2⟩
      · rw [e2]; exact hc.snoc (newText_rel _ hr)
      · rw [e2]; exact hs

theorem trailingTextPush_simT {src : List Char} {m₁ m₂ : Srcmap} {c₁ c₂ o₁ : List Node}
    {a b : Nat} (hw : WFMap m₂) (hc : LRel false c₁ c₂)
    (h : trailingTextPush src m₁ c₁ a b = .ok o₁) :
    Sim true (LRel false) o₁ (trailingTextPush src m₂ c₂ a b) := by
  unfold trailingTextPush at h ⊢
  simp only at h ⊢
  split at h
  · next hp =>
    rw [hc.popLast_none hp]
    exact fresh_simT hw hc h
  · next i₁ x₁ hp =>
    obtain ⟨i₂, x₂, hp2, hi, hx⟩ := hc.popLast_some hp
    rw [hp2]; simp only [hx.isText, hx.content]
    split at h
    · next ht =>
      simp only [ht, if_true]
      split at h
      · simp at h
      · next piece hpc =>
        have hch := hx.children
        obtain ⟨y, hy⟩ := C05.translate_total m₂ hw b
        have key : ∀ o₁, LRel false o₁ [] → True := fun _ _ => trivial
        -- whatever side 1 did, its result is `init ++ [last with the longer text]`
        have hout : ∃ r₁, o₁ = i₁ ++ [{ x₁ with val := .text (x₁.content ++ piece), range := r₁ }] := by
          split at h
          · simp only [Except.ok.injEq] at h; subst h
            exact ⟨x₁.range, by cases x₁; rfl⟩
          · split at h
            · simp at h
            · simp only [Except.ok.injEq] at h; subst h; exact ⟨_, rfl⟩
        obtain ⟨r₁, rfl⟩ := hout
        split
        · exact hi.snoc (NRel.mk' (RRel.false _ _) hch)
        · rw [hy]
          exact hi.snoc (NRel.mk' (RRel.false _ _) hch)
    · next ht =>
      simp only [ht]
      exact fresh_simT hw hc h

/-! ## `trailing_text_pop` -/

/-- `trailing_text_pop(count)`: side 2 does not underflow when `count` bytes cut off a LONGER
    trailing text lie before its source end -/
theorem trailingTextPop_simT {c₁ c₂ o₁ : List Node} {count : Nat} (hc : LRel false c₁ c₂)
    (hs2 : ∀ init last, c₂ = init ++ [last] → last.isText = true →
      ∀ a b, last.range = some (a, b) → count < byteLen last.content → count ≤ b)
    (h : trailingTextPop c₁ count = .ok o₁) :
    Sim true (LRel false) o₁ (trailingTextPop c₂ count) := by
  unfold trailingTextPop at h ⊢
  split at h
  · next h0 => simp only [Except.ok.injEq] at h; subst h; rw [if_pos h0]; exact hc
  · next h0 =>
    rw [if_neg h0]
    split at h
    · simp at h
    · next i₁ x₁ hp =>
      obtain ⟨i₂, x₂, hp2, hi, hx⟩ := hc.popLast_some hp
      have hc2 : c₂ = i₂ ++ [x₂] := by
        rcases popLast_spec c₂ with ⟨h0', _⟩ | ⟨i, l, h1, h2⟩
        · rw [h0'] at hp2; cases hp2
        · rw [h1] at hp2; cases hp2; exact h2
      rw [hp2]; simp only [hx.isText, hx.content]
      split at h
      · simp at h
      · next ht =>
        rw [if_neg ht]
        split at h
        · next hb => simp only [Except.ok.injEq] at h; subst h; rw [if_pos hb]; exact hi
        · next hb =>
          rw [if_neg hb]
          split at h
          · simp at h
          · next hb2 =>
            rw [if_neg hb2]
            split at h
            · simp at h
            · next content' htr =>
              have hch := hx.children
              have hout : ∃ r₁, o₁ = i₁ ++ [{ x₁ with val := .text content', range := r₁ }] := by
                split at h
                · simp only [Except.ok.injEq] at h; subst h
                  exact ⟨x₁.range, by cases x₁; rfl⟩
                · split at h
                  · simp at h
                  · simp only [Except.ok.injEq] at h; subst h; exact ⟨_, rfl⟩
              obtain ⟨r₁, rfl⟩ := hout
              split
              · exact hi.snoc (NRel.mk' (RRel.false _ _) hch)
              · next ms₂ me₂ hr2 =>
                have ht2 : x₂.isText = true := by
                  rw [hx.isText]; simpa using ht
                have := hs2 i₂ x₂ hc2 ht2 ms₂ me₂ hr2 (by rw [hx.content]; omega)
                rw [if_neg (by omega)]
                exact hi.snoc (NRel.mk' (RRel.false _ _) hch)

/-! ## the states -/

theorem pushText_simT {a b a' : IState} {x y : Nat} (rel : IRel false a b) (hw : WFMap b.srcmap)
    (h : a.pushText x y = .ok a') : Sim true (IRel false) a' (b.pushText x y) := by
  obtain ⟨m, cs, rfl, hm, hc⟩ := rel.out
  unfold IState.pushText at h ⊢
  split at h
  · simp at h
  · next o₁ hp =>
    simp only [Except.ok.injEq] at h; subst h
    rcases (trailingTextPush_simT hw hc hp).cases with ⟨o₂, e2, hr⟩ | ⟨hs, e, e2⟩
    · simp only [e2]; exact IRel.mk' hm hr
    · simp only [e2]; exact hs

theorem mrel_false (m₁ m₂ : Srcmap) : MRel false m₁ m₂ := fun h => by cases h

/-! ## the rules without look-ahead -/

theorem ruleText_simT {a b : IState} {silent : Bool} {r : Option Nat × IState}
    (rel : IRel false a b) (hw : silent = false → WFMap b.srcmap) (h : ruleText a silent = .ok r) :
    Sim true (ORel false) r (ruleText b silent) := by
  unfold ruleText at h ⊢
  have hwd : b.window = a.window := rel.window
  have hpos : b.pos = a.pos := rel.pos
  rw [hwd, hpos]
  split at h
  · simp at h
  · next w hw1 =>
    simp only [] at h ⊢
    split at h
    · next hl => simp only [Except.ok.injEq] at h; subst h; rw [if_pos hl]; exact ⟨rfl, rel⟩
    · next hl =>
      rw [if_neg hl]
      split at h
      · next hs => simp only [Except.ok.injEq] at h; subst h; rw [if_pos hs]; exact ⟨rfl, rel⟩
      · next hs =>
        rw [if_neg hs]
        split at h
        · simp at h
        · next a' hp =>
          simp only [Except.ok.injEq] at h; subst h
          rcases (pushText_simT rel (hw (by simpa using hs)) hp).cases with ⟨o₂, e2, hr⟩ | ⟨hs, e, e2⟩
          · simp only [e2]; exact ⟨rfl, hr⟩
          · simp only [e2]; exact hs

theorem ruleEscape_simT {a b : IState} {silent : Bool} {r : Option Nat × IState}
    (rel : IRel false a b) (hw : silent = false → WFMap b.srcmap) (h : ruleEscape a silent = .ok r) :
    Sim true (ORel false) r (ruleEscape b silent) := by
  obtain ⟨m, cs, rfl, hm, hc⟩ := rel.out
  unfold ruleEscape IState.window at h ⊢
  simp only [] at h ⊢
  repeat' split at h
  all_goals try (simp at h; done)
  all_goals (simp only [Except.ok.injEq] at h; subst h)
  all_goals try simp only [*, ↓reduceIte, Bool.false_eq_true]
  all_goals first
    | exact ⟨rfl, rel⟩
    | (have hg := ‹a.getMap _ _ = Except.ok _›
       have hw' : WFMap m := hw (by simpa using ‹¬silent = true›)
       rcases (getMapSt_simT (cs := cs) hw' hg).cases with ⟨r₂, e2, hr⟩ | ⟨hs, e, e2⟩
       · simp only [e2]; exact ⟨rfl, push_rel hm hc (leaf_rel _ hr)⟩
       · simp only [e2]; exact hs)

theorem ruleEntity_simT {cfg : Cfg} {a b : IState} {silent : Bool} {r : Option Nat × IState}
    (rel : IRel false a b) (hw : silent = false → WFMap b.srcmap) (h : ruleEntity cfg a silent = .ok r) :
    Sim true (ORel false) r (ruleEntity cfg b silent) := by
  obtain ⟨m, cs, rfl, hm, hc⟩ := rel.out
  unfold ruleEntity IState.window at h ⊢
  simp only [] at h ⊢
  repeat' split at h
  all_goals try (simp at h; done)
  all_goals (simp only [Except.ok.injEq] at h; subst h)
  all_goals try simp only [*, ↓reduceIte, Bool.false_eq_true, ne_eq, not_false_eq_true, not_true_eq_false]
  all_goals first
    | exact ⟨rfl, rel⟩
    | (have hg := ‹a.getMap _ _ = Except.ok _›
       have hw' : WFMap m := hw (by simpa using ‹¬silent = true›)
       rcases (getMapSt_simT (cs := cs) hw' hg).cases with ⟨r₂, e2, hr⟩ | ⟨hs, e, e2⟩
       · simp only [e2]; exact ⟨rfl, push_rel hm hc (leaf_rel _ hr)⟩
       · simp only [e2]; exact hs)

theorem ruleAutolink_simT {a b : IState} {silent : Bool} {r : Option Nat × IState}
    (rel : IRel false a b) (hw : silent = false → WFMap b.srcmap) (h : ruleAutolink a silent = .ok r) :
    Sim true (ORel false) r (ruleAutolink b silent) := by
  obtain ⟨m, cs, rfl, hm, hc⟩ := rel.out
  unfold ruleAutolink IState.window at h ⊢
  simp only [] at h ⊢
  repeat' split at h
  all_goals try (simp at h; done)
  all_goals (simp only [Except.ok.injEq] at h; subst h)
  all_goals try simp only [*, ↓reduceIte, Bool.false_eq_true, ne_eq, not_false_eq_true, not_true_eq_false]
  all_goals first
    | exact ⟨rfl, rel⟩
    | skip
  rename_i hg1 _ _ hg2
  have hw' : WFMap m := hw (by simpa using ‹¬silent = true›)
  rcases (getMapSt_simT (cs := cs) hw' hg1).cases with ⟨r₂, e2, hr⟩ | ⟨hs, e, e2⟩
  · simp only [e2]
    rcases (getMapSt_simT (cs := cs) hw' hg2).cases with ⟨r₃, e3, hr3⟩ | ⟨hs, e, e3⟩
    · simp only [e3]; exact ⟨rfl, push_rel hm hc (NRel.mk' hr (LRel.single (newText_rel _ hr3)))⟩
    · simp only [e3]; exact hs
  · simp only [e2]; exact hs

theorem ruleBackticks_simT {a b : IState} {silent : Bool} {r : Option Nat × IState}
    (rel : IRel false a b) (hw : silent = false → WFMap b.srcmap) (h : ruleBackticks a silent = .ok r) :
    Sim true (ORel false) r (ruleBackticks b silent) := by
  obtain ⟨m, cs, rfl, hm, hc⟩ := rel.out
  by_cases hsil : silent = false
  · have hw' : WFMap m := hw hsil
    unfold ruleBackticks at h ⊢
    simp only [] at h ⊢
    repeat' split at h
    all_goals try (simp at h; done)
    all_goals (simp only [Except.ok.injEq] at h; subst h)
    all_goals try simp only [*, ↓reduceIte, Bool.false_eq_true, ne_eq, not_false_eq_true, not_true_eq_false]
    · exact ⟨rfl, IRel.mk' (a := { a with backticks := _ }) hm hc⟩
    · exact ⟨rfl, IRel.mk' (a := { a with backticks := _ }) hm hc⟩
    · rename_i hg1 _ _ hg2
      rcases (getMapSt_simT (cs := cs) hw' hg1).cases with ⟨r₂, e2, hr⟩ | ⟨hs, e, e2⟩
      · simp only [e2]
        rcases (getMapSt_simT (cs := cs) hw' hg2).cases with ⟨r₃, e3, hr3⟩ | ⟨hs, e, e3⟩
        · simp only [e3]
          exact ⟨rfl, IRel.mk' (a := { a with backticks := _, children := _ }) hm
            (hc.snoc (NRel.mk' hr (LRel.single (newText_rel _ hr3))))⟩
        · simp only [e3]; exact hs
      · simp only [e2]; exact hs
  · -- silent: the code-span model returns no node, `get_map` is never called
    have hsil' : silent = true := by simpa using hsil
    subst hsil'
    unfold ruleBackticks at h ⊢
    simp only [] at h ⊢
    split at h
    · simp at h
    · next c hrun =>
      simp only [Except.ok.injEq] at h; subst h
      exact ⟨rfl, IRel.mk' (a := { a with backticks := _ }) hm hc⟩
    · next o c hrun =>
      have hnode := run_silent_node _ _ _ _ _ _ _ _ _ hrun
      simp only [hnode] at h ⊢
      simp only [Except.ok.injEq] at h; subst h
      exact ⟨rfl, IRel.mk' (a := { a with backticks := _ }) hm hc⟩

/-! ## the newline rule -/

theorem trailingTextGet_snoc {init : List Node} {last : Node} (ht : last.isText = true) :
    trailingTextGet (init ++ [last]) = last.content := by
  unfold trailingTextGet; rw [popLast_snoc]; simp [ht]

theorem ruleNewline_simT {a b : IState} {silent : Bool} {r : Option Nat × IState}
    (rel : IRel false a b) (hw : silent = false → WFMap b.srcmap) (ht : silent = false → TrailOKw b)
    (h : ruleNewline a silent = .ok r) :
    Sim true (ORel false) r (ruleNewline b silent) := by
  obtain ⟨m, cs, rfl, hm, hc⟩ := rel.out
  have hs2 : silent = false → ∀ init last, cs = init ++ [last] → last.isText = true →
      ∀ x y, last.range = some (x, y) → tailSpaces (trailingTextGet a.children) < byteLen last.content →
        tailSpaces (trailingTextGet a.children) ≤ y := by
    intro hsil init last hcs hlt x y hr hlt2
    have e : trailingTextGet a.children = last.content := by
      rw [← trailingTextGet_rel hc, hcs, trailingTextGet_snoc hlt]
    rw [e] at hlt2 ⊢
    exact ((ht hsil) init last hcs hlt).2 x y hr hlt2
  unfold ruleNewline IState.window at h ⊢
  simp only [trailingTextGet_rel hc] at h ⊢
  repeat' split at h
  all_goals try (simp at h; done)
  all_goals (simp only [Except.ok.injEq] at h; subst h)
  all_goals try simp only [*, ↓reduceIte, Bool.false_eq_true, ne_eq, not_false_eq_true, not_true_eq_false]
  all_goals first
    | exact ⟨rfl, rel⟩
    | skip
  all_goals (
    rename_i hp _ _ _ hg _
    have hsil : silent = false := by simpa using ‹¬silent = true›
    have hw' : WFMap m := hw hsil
    rcases (trailingTextPop_simT hc (hs2 hsil) hp).cases with ⟨cs₂, e2, hr⟩ | ⟨hs, e, e2⟩
    · simp only [e2]
      rcases (getMapSt_simT (cs := cs) hw' hg).cases with ⟨r₃, e3, hr3⟩ | ⟨hs, e, e3⟩
      · simp only [e3]
        exact ⟨rfl, IRel.mk' (a := { a with children := _ }) hm (hr.snoc (leaf_rel _ hr3))⟩
      · simp only [e3]; exact hs
    · simp only [e2]; exact hs)

/-! ## the delimiter matching: `Sim false` of Lemmas/C10DocInline.lean + totality on side 2 -/

theorem matchOuter_simT (fns : Nat → Option Wrap) (mk : Char) (room minIdx k : Nat) {x y r : MatchSt}
    {lo hi r0 : Nat} (rel : MSRel false x y) (hinv : MInv lo hi r0 y)
    (hlen : k = 0 ∨ minIdx + k < y.children.length)
    (h : matchOuter fns mk room minIdx k x = .ok r) :
    Sim true (MSRel false) r (matchOuter fns mk room minIdx k y) := by
  have hf := matchOuter_sim (s := false) fns mk room minIdx k x y r rel h
  have : ∃ ms', matchOuter fns mk room minIdx k y = .ok ms' := by
    rcases hlen with rfl | hl
    · exact ⟨_, rfl⟩
    · exact matchOuter_total room minIdx k y hinv hl
  obtain ⟨ms', e⟩ := this
  rw [e] at hf ⊢; exact hf

theorem scanAndMatch_simT (fns : Nat → Option Wrap) (mk : Char) {room : Nat} {c₁ c₂ : List Node}
    {src : List Char} {m : Srcmap} {lo pos : Nat}
    (bt : List (Char × List Nat)) {r : List Node × List (Char × List Nat)} (hc : LRel false c₁ c₂)
    (hri : RI src m lo pos c₂)
    (h : scanAndMatch fns mk room c₁ bt = .ok r) :
    Sim true (fun r r' => LRel false r.1 r'.1 ∧ r'.2 = r.2) r (scanAndMatch fns mk room c₂ bt) := by
  unfold scanAndMatch at h ⊢
  rw [← hc.length]
  split at h
  · next hl => simp only [Except.ok.injEq] at h; subst h; rw [if_pos hl]; exact ⟨hc, rfl⟩
  · next hl =>
    rw [if_neg hl]
    split at h
    · simp at h
    · next init ctok hp =>
      obtain ⟨i₂, x₂, hp2, hi, hx⟩ := hc.popLast_some hp
      have hc2 : c₂ = i₂ ++ [x₂] := by
        rcases popLast_spec c₂ with ⟨h0', _⟩ | ⟨i, l, h1, h2⟩
        · rw [h0'] at hp2; cases hp2
        · rw [h1] at hp2; cases hp2; exact h2
      rw [hp2]; simp only [hx.asMarker, ← hi.length]
      split at h
      · simp at h
      · next closer hcl =>
        generalize ((if closer.open_ = true then 1 else 0) * 3 + closer.length % 3) = param at h ⊢
        simp only [] at h
        cases hmin : (bottomsGet bt mk)[param]? with
        | none => rw [hmin] at h; simp at h
        | some minIdx =>
          rw [hmin] at h
          simp only [] at h ⊢
          split at h
          · simp at h
          · next hil =>
            rw [if_neg hil]
            split at h
            · simp at h
            · next ms hmo =>
              have rel0 : MSRel false
                  { closer := closer, closerRange := ctok.range, children := init, newMin := init.length - 1 }
                  { closer := closer, closerRange := x₂.range, children := i₂, newMin := init.length - 1 } :=
                MSRel.mk' (x := { closer := closer, closerRange := ctok.range, children := init,
                                  newMin := init.length - 1 }) hx.range hi
              -- the invariant of the outer loop on side 2
              subst hc2
              have hx2 : x₂.asMarker = some closer := by rw [hx.asMarker]; exact hcl
              obtain ⟨hT, hhT, hord⟩ := hri.ord
              obtain ⟨hcc, hrem, cS, cE, hcr, hfit⟩ := hri.markers x₂ (by simp) closer hx2
              obtain ⟨a0, b0, hab, hinit, _, hbT⟩ := hord.last
              rw [hcr] at hab; simp only [Option.some.injEq, Prod.mk.injEq] at hab
              obtain ⟨rfl, rfl⟩ := hab
              have hm0 : MInv lo hT closer.remaining
                  { closer := closer, closerRange := x₂.range, children := i₂, newMin := init.length - 1 } :=
                ⟨cS, ⟨hinit, hri.deep.left, hri.markers.left⟩, ⟨cS, cE, hcr, Nat.le_refl _, hfit, hbT⟩,
                  Or.inl rfl⟩
              have hlen : init.length - 1 - minIdx = 0 ∨
                  minIdx + (init.length - 1 - minIdx) <
                    (MatchSt.mk closer x₂.range i₂ (init.length - 1) 0).children.length := by
                have := hi.length
                simp only []
                omega
              rcases (matchOuter_simT fns mk _ _ _ rel0 hm0 hlen hmo).cases with ⟨ms₂, e2, hms⟩ | ⟨hs, e, e2⟩
              · rw [e2]; simp only []
                obtain ⟨cr, cs, rfl, hr', hc'⟩ := hms.out
                simp only [] at h ⊢
                split at h
                · next hrem =>
                  rw [if_pos hrem]
                  simp only [Except.ok.injEq] at h; subst h
                  exact ⟨hc'.snoc ((NRel_iff _ _ _).mpr ⟨rfl, hr', hx.children⟩), rfl⟩
                · next hrem =>
                  rw [if_neg hrem]
                  simp only [Except.ok.injEq] at h; subst h
                  exact ⟨hc', rfl⟩
              · rw [e2]; exact hs

/-! ## the emphasis rule -/

/-- the state with the new marker leaf pushed satisfies the frame invariant (from the proof of
    `C05T.tv_ruleEmph`: the run `mk … mk` starts with the solid `mk`, so the translation is a shift
    on it and the leaf has room for its delimiters) -/
theorem emph_pushed {A : Prop} {cfg : Cfg} {c : Char} {csw : Bool} {lo : Nat} {st : IState}
    {w : List Char} {scanned : DelimRun} {rx ry : Nat}
    (hm : MapT st.src st.srcmap) (hmk : c.utf8Size = 1) (hnl : c ≠ '\n') (hsp : c ≠ ' ')
    (hi : tv_RInv A lo st) (hw : st.window = .ok (c :: w))
    (hsc : scanDelims cfg st.src st.posMax st.pos csw = .ok scanned)
    (hr : st.getMap st.pos (st.pos + scanned.length) = .ok (rx, ry)) :
    RI st.src st.srcmap lo (st.pos + scanned.length)
      (st.children ++ [Node.leaf (.emphMarker c scanned.length scanned.length scanned.canOpen
        scanned.canClose) (some (rx, ry))]) := by
  obtain ⟨mk', rest, hsl, _, hlen⟩ := scanDelims_length hsc
  unfold IState.window at hw
  rw [hw] at hsl
  simp only [Except.ok.injEq, List.cons.injEq] at hsl
  obtain ⟨rfl, rfl⟩ := hsl
  have hcut : Cut st.src st.pos st.posMax (c :: w) :=
    (C05R.cut_iff_ops _ _ _ _).mp (liftOps_ok.mp hw)
  have hrun := C05R.em_runLen_cut hmk hcut
  rw [← hlen] at hrun
  obtain ⟨e1, e2, _⟩ := getMap_eq hr
  have hexp : ry = rx + scanned.length := by
    have hrep : List.replicate scanned.length c
        = c :: List.replicate (scanned.length - 1) c := by
      rw [← List.replicate_succ]; congr 1; omega
    rw [hrep] at hrun
    have := hm.shift st.pos (st.pos + scanned.length) c _ st.pos (st.pos + scanned.length)
      rx ry hrun hsp hnl (C05R.em_not_mem_replicate hnl _) (Nat.le_refl _) (by omega)
      (Nat.le_refl _) e1 e2
    omega
  obtain ⟨hT, hhT, hord⟩ := hi.ri.ord
  rw [e1] at hhT; simp only [Except.ok.injEq] at hhT; subst hhT
  refine ⟨⟨ry, e2, hord.snoc (n := Node.leaf _ (some (rx, ry))) rfl (Nat.le_refl _) (by omega)
      (Nat.le_refl _)⟩,
    hi.ri.deep.append (WellRangedList.single (wellRanged_leaf (by omega))),
    hi.ri.markers.append ?_, ?_⟩
  · intro n hn mk' hmk'
    simp only [List.mem_singleton] at hn; subst hn
    simp only [Node.leaf, Node.asMarker, Option.some.injEq] at hmk'
    subst hmk'
    exact ⟨rfl, by simp only; omega, rx, ry, rfl, by simp only; omega⟩
  · intro init' last' hcs' hlt'
    obtain ⟨_, rfl⟩ := snoc_inj hcs'
    cases hlt'

theorem ruleEmph_simT {A : Prop} {cfg : Cfg} {mk : Char} {csw : Bool} {lo : Nat} {a b : IState}
    {silent : Bool} {r : Option Nat × IState} (rel : IRel false a b)
    (hreal : silent = false →
      MapT b.src b.srcmap ∧ tv_RInv A lo b ∧ mk.utf8Size = 1 ∧ mk ≠ '\n' ∧ mk ≠ ' ')
    (h : ruleEmph cfg mk csw a silent = .ok r) :
    Sim true (ORel false) r (ruleEmph cfg mk csw b silent) := by
  obtain ⟨m, cs, rfl, hm, hc⟩ := rel.out
  unfold ruleEmph at h ⊢
  split at h
  · next hs => rw [if_pos hs]; simp only [Except.ok.injEq] at h; subst h; exact ⟨rfl, rel⟩
  · next hs =>
    rw [if_neg hs]
    obtain ⟨hmap, hri, k1, k2, k3⟩ := hreal (by simpa using hs)
    have hwin : IState.window { a with srcmap := m, children := cs } = a.window := rfl
    rw [hwin]
    split at h
    · simp at h
    · simp at h
    · next c w hw =>
      simp only [] at h ⊢
      split at h
      · next hc' => rw [if_pos hc']; simp only [Except.ok.injEq] at h; subst h; exact ⟨rfl, rel⟩
      · next hcm =>
        rw [if_neg hcm]
        have hcm' : c = mk := Decidable.not_not.mp hcm
        subst hcm'
        split at h
        · simp at h
        · next scanned hsc =>
          try simp only [] at h ⊢
          split at h
          · simp at h
          · next r₁ hg =>
            rcases (getMapSt_simT (cs := cs) hmap.wf hg).cases with ⟨⟨rx, ry⟩, e2, hr⟩ | ⟨hs', e, e2⟩
            · rw [e2]; simp only []
              have hpushed := emph_pushed (cfg := cfg) (csw := csw) hmap k1 k2 k3 hri
                (st := { a with srcmap := m, children := cs }) hw hsc e2
              simp only [IState.push] at h ⊢
              split at h
              · next hcc =>
                rw [if_pos hcc]
                split at h
                · simp at h
                · next cs' b' hsm =>
                  simp only [Except.ok.injEq] at h; subst h
                  rcases (scanAndMatch_simT (cfg.fns c) c a.bottoms (hc.snoc (leaf_rel _ hr)) hpushed
                    hsm).cases with ⟨⟨cs₂, b₂⟩, e3, hcs, hb⟩ | ⟨hs', e, e3⟩
                  · simp only [e3]
                    simp only [] at hb hcs
                    subst hb
                    exact ⟨rfl, IRel.mk' (a := { a with children := _, bottoms := _ }) hm hcs⟩
                  · simp only [e3]; exact hs'
              · next hcc =>
                rw [if_neg hcc]
                simp only [Except.ok.injEq] at h; subst h
                exact ⟨rfl, IRel.mk' (a := { a with children := _ }) hm (hc.snoc (leaf_rel _ hr))⟩
            · rw [e2]; exact hs'

end MdIt.Inline.TT
