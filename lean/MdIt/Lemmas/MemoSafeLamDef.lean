/-
  Helper development for `Props/MemoSafe.lean`, second part (the whole-run induction): shared
  definitions.

  KEY FACT (brute force, 0 exceptions in 11 million runs of coherent chains): a NESTED label frame never
  has a memo MISS — every `skip_token` call made while the real tokenizer is inside a link label is a
  memo hit; all memo entries are made by look-ahead that starts in the TOP frame, under the top
  `pos_max`.  So the proof has two halves:
    * top frame: the memo grows, every entry ends `≤ pos_max` (the guard cannot trip), and every entry
      carries its WITNESS (`Just`): the look-ahead step (`skipStep`) that made it — or it is an entry made
      over the nesting limit (`v = pos_max`);
    * nested frames: the memo is constant; the real tokenizer walks along the memo path the label
      walk left, and every step of it is predicted by the witness of the entry at its position
      (window independence + replay).

  `B` is an invariant of the code-span cache (`st.src`, `st.backticks`) that every rule call preserves
  (needed to compare code-span verdicts between the witness state and a later state; `fun _ _ => True`
  when the chain has no code-span rule).
-/
import MdIt.Lemmas.MemoSafeRec
import MdIt.Lemmas.MemoSafeWindow

namespace MdIt.Inline
open MdIt.InlineOps (Srcmap getSourcePosFor getMap byteLen slice)

/-- **the witness of a memo entry** `k ↦ v`: a look-ahead step from a state at `k` (same text, the top
    `pos_max`, memo miss at `k`) that returned at `v` and whose memo the current memo `m` extends.  The
    callee `skip0` is any `skip_token` meeting the look-ahead contracts (in the run: the guarded one). -/
def Just (cfg : Cfg) (B : List Char → CodePair.Cache → Prop) (src : List Char) (Mtop : Nat)
    (m : List (Nat × Nat)) (k v : Nat) : Prop :=
  ∃ (skip0 tok0 : IState → Except Panic IState) (f0 : Nat) (st0 st0' : IState),
    CalmFn skip0 ∧ SkipHypT skip0 ∧ SkipGrowHyp skip0 ∧
    LInv st0 ∧ st0.src = src ∧ st0.posMax = Mtop ∧ st0.pos = k ∧ st0.pos < st0.posMax ∧
    B st0.src st0.backticks ∧ st0.cache.lookup k = none ∧
    skipStep cfg skip0 tok0 f0 st0 = .ok st0' ∧ st0'.pos = v ∧ LookupMono st0'.cache m

/-- every memo entry is an over-limit entry (`v = Mtop`) or has its witness -/
def JustAll (cfg : Cfg) (B : List Char → CodePair.Cache → Prop) (src : List Char) (Mtop : Nat)
    (m : List (Nat × Nat)) : Prop :=
  ∀ k v, (k, v) ∈ m → v = Mtop ∨ Just cfg B src Mtop m k v

theorem Just.mono {cfg : Cfg} {B : List Char → CodePair.Cache → Prop} {src : List Char} {Mtop : Nat}
    {m m' : List (Nat × Nat)} {k v : Nat} (h : Just cfg B src Mtop m k v) (hm : LookupMono m m') :
    Just cfg B src Mtop m' k v := by
  obtain ⟨skip0, tok0, f0, st0, st0', a1, a2, a3, a4, a5, a6, a7, a8, a9, a10, a11, a12, a13⟩ := h
  exact ⟨skip0, tok0, f0, st0, st0', a1, a2, a3, a4, a5, a6, a7, a8, a9, a10, a11, a12, a13.trans hm⟩

theorem JustAll.nil (cfg : Cfg) (B : List Char → CodePair.Cache → Prop) (src : List Char) (Mtop : Nat) :
    JustAll cfg B src Mtop [] := by
  intro k v h; simp at h

/-- growth: old entries keep their witnesses, new entries bring theirs -/
theorem JustAll.grow {cfg : Cfg} {B : List Char → CodePair.Cache → Prop} {src : List Char} {Mtop : Nat}
    {m m' : List (Nat × Nat)} (h : JustAll cfg B src Mtop m) (hm : LookupMono m m')
    (hnew : ∀ k v, (k, v) ∈ m' → (k, v) ∈ m ∨ v = Mtop ∨ Just cfg B src Mtop m' k v) :
    JustAll cfg B src Mtop m' := by
  intro k v hkv
  rcases hnew k v hkv with h1 | h1 | h1
  · rcases h k v h1 with h2 | h2
    · exact .inl h2
    · exact .inr (h2.mono hm)
  · exact .inl h1
  · exact .inr h1

/-- the invariant of the states of the TOP frame (look-ahead and real): same text, the top `pos_max`,
    the code-span cache invariant, every memo entry ends `≤ pos_max` and has its witness -/
structure TopInv (cfg : Cfg) (B : List Char → CodePair.Cache → Prop) (src : List Char) (Mtop : Nat)
    (s : IState) : Prop where
  hsrc : s.src = src
  hmax : s.posMax = Mtop
  back : B s.src s.backticks
  le : ∀ k v, (k, v) ∈ s.cache → v ≤ Mtop
  just : JustAll cfg B src Mtop s.cache

theorem TopInv.closed {cfg : Cfg} {B : List Char → CodePair.Cache → Prop} {src : List Char} {Mtop : Nat}
    {s : IState} (h : TopInv cfg B src Mtop s) : Closed s.cache 0 s.posMax := by
  intro k v hkv _ _
  rw [h.hmax]; exact h.le k v hkv

/-- `B` is preserved by the code-span rule (both modes) — the one hypothesis on `B` -/
def BackOK (B : List Char → CodePair.Cache → Prop) : Prop :=
  ∀ (st : IState) (silent : Bool) (o : Option Nat) (st' : IState),
    ruleBackticks st silent = .ok (o, st') → B st.src st.backticks → B st'.src st'.backticks

theorem backOK_true : BackOK (fun _ _ => True) := fun _ _ _ _ _ _ => trivial

end MdIt.Inline
