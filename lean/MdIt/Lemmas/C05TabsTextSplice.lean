/-
  C05 for ALL sources, third part (boundaries + the text clause WITH THE CODE-SPAN EXEMPTION):
  transport through the three passes behind the block pass, on the full `Pipeline.Node` tree.  The
  companion of Lemmas/C05RestSplice.lean (`afterBlocks_postOk`: the same transport without the
  exemption), followed lemma by lemma; the predicates are the RECURSIVE `PreV` / `PostV` of
  Lemmas/C05TabsDefs3.lean (a flag `ex` switches the text clause off; the children of a node `n`
  are checked with `ex := isCodeK n.kind`) instead of `Every (PreOk src)` / `Every (PostOk src)`.

    * `ts_ofInline_pre` / `ts_ofInlineList_pre`   `FthNV src ex` on the inline parser's nodes becomes
                                 `PreV src ex` on the document's nodes
    * `ts_spliceNode_pre` / `ts_spliceList_pre`   the splice walk: a walked block is `PreV src false`,
                                 its spliced child list is `Glued` (the seam by the line break that
                                 ends a placeholder's stretch)
    * `ts_merged_pre`            the hull of two glued texts (`sp_merged_sel`, guarded by `ex = false`)
      `ts_mergeLoop_pre` / `ts_fragmentsJoin_pre`   `fragments_join` keeps `PreV src ex` on the members
                                 it retains, for either value of the flag
      `ts_joinNode_post`         the join pass turns `PreV src ex` into `PostV src ex`
    * `ts_sourceposNode_post`    the sourcepos pass keeps `PostV src ex` (attributes only)
    * `ts_afterBlocks_post`      the composition: `PostV src false t`
    * `ts_nodeOkX_of`            the conversion: `Every (NodeOrd src) t → PostV src ex t →
                                 Every (NodeOkX src) t`
    * `afterBlocks_nodeOkX`      the deliverable
-/
import MdIt.Lemmas.C05TabsDefs3

namespace MdIt.Pipeline
open MdIt.C05T
open MdIt.C05R
open MdIt.InlineOps (byteLen)

/-! ## the recursive predicates, unfolded one level -/

/-- the clauses of `PreV` at the node itself -/
def ts_PreH (src : List Char) (ex : Bool) (n : Node) : Prop :=
  ∃ a b, n.range = some (a, b) ∧ Bdy src a ∧ Bdy src b ∧
    (ex = false → ∀ t, textOfK n.kind = some t → Sel src a b t) ∧
    (∀ ct mu info, n.kind = .inl (.special ct mu info) → Sel src a b mu) ∧
    Glued src n.children

/-- the clauses of `PostV` at the node itself -/
def ts_PostH (src : List Char) (ex : Bool) (n : Node) : Prop :=
  ∃ a b, n.range = some (a, b) ∧ Bdy src a ∧ Bdy src b ∧
    (ex = false → ∀ t, n.kind = .inl (.text t) → Sel src a b t) ∧
    (∀ ct mu info, n.kind = .inl (.special ct mu info) → Sel src a b mu)

theorem ts_preVL_iff (src : List Char) (ex : Bool) (l : List Node) :
    PreVL src ex l ↔ ∀ n ∈ l, PreV src ex n := by
  induction l with
  | nil => simp [PreVL]
  | cons c cs ih => simp [PreVL, ih]

theorem ts_postVL_iff (src : List Char) (ex : Bool) (l : List Node) :
    PostVL src ex l ↔ ∀ n ∈ l, PostV src ex n := by
  induction l with
  | nil => simp [PostVL]
  | cons c cs ih => simp [PostVL, ih]

theorem ts_preV_iff (src : List Char) (ex : Bool) (n : Node) :
    PreV src ex n ↔ ts_PreH src ex n ∧ ∀ c ∈ n.children, PreV src (isCodeK n.kind) c := by
  rw [← ts_preVL_iff]
  cases n; simp [PreV, ts_PreH]

theorem ts_postV_iff (src : List Char) (ex : Bool) (n : Node) :
    PostV src ex n ↔ ts_PostH src ex n ∧ ∀ c ∈ n.children, PostV src (isCodeK n.kind) c := by
  rw [← ts_postVL_iff]
  cases n; simp [PostV, ts_PostH]

/-- the clauses at a node without exemption give the clauses for any flag -/
theorem ts_preH_weaken {src : List Char} {ex : Bool} {n : Node} (h : ts_PreH src false n) :
    ts_PreH src ex n := by
  obtain ⟨a, b, hr, ha, hb, ht, hs, hg⟩ := h
  exact ⟨a, b, hr, ha, hb, fun _ => ht rfl, hs, hg⟩

/-! ## step 1: `ofInline` -/

theorem ts_isCodeK_ofInline (n : Inline.Node) : isCodeK (ofInline n).kind = isCode n.val := by
  cases n; simp [ofInline, isCodeK]

mutual
/-- a faithful inline node (with the exemption flag) is `PreV` with the same flag -/
theorem ts_ofInline_pre {src : List Char} (ex : Bool) (n : Inline.Node) (h : FthNV src ex n) :
    PreV src ex (ofInline n) := by
  match n with
  | ⟨v, r, cs⟩ =>
    rw [FthNV_eq] at h
    obtain ⟨⟨a, b, hr, ha, hb, ht, hs, hm, hadj⟩, hcs⟩ := h
    simp only at hr ht hs hm hadj hcs
    unfold ofInline
    rw [ts_preV_iff]
    refine ⟨⟨a, b, hr, ha, hb, ?_, ?_, sp_ofInlineList_glued hadj⟩, ?_⟩
    · intro hex t ht'
      change textOf v = some t at ht'
      cases v with
      | text c =>
        simp only [textOf, Option.some.injEq] at ht'; subst ht'; exact ht hex _ rfl
      | emphMarker mk l rem o c =>
        simp only [textOf, Option.some.injEq] at ht'; subst ht'
        exact Sel.of_cut (hm mk l rem o c rfl).1
      | _ => simp [textOf] at ht'
    · intro ct mu info hk
      simp only [Kind.inl.injEq] at hk
      exact hs ct mu info hk
    · exact ts_ofInlineList_pre (isCode v) cs hcs
theorem ts_ofInlineList_pre {src : List Char} (ex : Bool) (ns : List Inline.Node)
    (h : FthLV src ex ns) : ∀ c ∈ ofInlineList ns, PreV src ex c := by
  match ns with
  | [] => simp [ofInlineList]
  | n :: r =>
    simp only [FthLV] at h
    intro x hx
    simp only [ofInlineList, List.mem_cons] at hx
    rcases hx with rfl | hx
    · exact ts_ofInline_pre ex n h.1
    · exact ts_ofInlineList_pre ex r h.2 x hx
end

/-! ## step 4: the sourcepos pass -/

mutual
theorem ts_sourceposNode_post {src0 src : List Char} {marks : List SourceMap.Mark} (ex : Bool)
    (t t' : Node) (he : PostV src0 ex t) (h : sourceposNode src marks t = .ok t') :
    PostV src0 ex t' := by
  match t with
  | ⟨k, r, at_, cs⟩ =>
    simp only [sourceposNode] at h
    split at h
    · cases h
    · split at h
      · cases h
      · rename_i cs' hcs
        cases h
        rw [ts_postV_iff] at he ⊢
        exact ⟨he.1, ts_sourceposList_post (isCodeK k) cs cs' he.2 hcs⟩
theorem ts_sourceposList_post {src0 src : List Char} {marks : List SourceMap.Mark} (ex : Bool)
    (cs cs' : List Node) (he : ∀ c ∈ cs, PostV src0 ex c)
    (h : sourceposList src marks cs = .ok cs') : ∀ c ∈ cs', PostV src0 ex c := by
  match cs with
  | [] => simp [sourceposList] at h; subst h; simp
  | c :: r =>
    simp only [sourceposList] at h
    split at h
    · cases h
    · rename_i c' hc
      split at h
      · cases h
      · rename_i r' hr
        cases h
        intro x hx
        rcases List.mem_cons.mp hx with rfl | hx
        · exact ts_sourceposNode_post ex c _ (he c (by simp)) hc
        · exact ts_sourceposList_post ex r r' (fun y hy => he y (List.mem_cons_of_mem _ hy)) hr x hx
end

/-! ## step 3: the join pass -/

theorem ts_isText_isCodeK {n : Node} (h : n.isText = true) : isCodeK n.kind = false := by
  rw [sp_isText_kind h]; rfl

theorem ts_markerToText_isCodeK (n : Node) : isCodeK (markerToText n).kind = isCodeK n.kind := by
  unfold markerToText
  split
  · next m l rem o c hk => rw [hk]; rfl
  · rfl

theorem ts_markerToText_pre {src : List Char} {ex : Bool} {n : Node} (h : PreV src ex n) :
    PreV src ex (markerToText n) := by
  rw [ts_preV_iff] at h ⊢
  obtain ⟨⟨a, b, hr, ha, hb, ht, hs, hg⟩, hc⟩ := h
  refine ⟨⟨a, b, by rw [c05s_markerToText_range]; exact hr, ha, hb, ?_, ?_,
    by rw [c05s_markerToText_children]; exact hg⟩, ?_⟩
  · intro hex t h1
    rw [sp_markerToText_textOfK] at h1
    exact ht hex t h1
  · intro ct mu info hk
    unfold markerToText at hk
    split at hk
    · cases hk
    · exact hs ct mu info hk
  · rw [c05s_markerToText_children, ts_markerToText_isCodeK]; exact hc

/-- the merged text is `PreV` for the flag of the list it stands in: if the flag is off, the hull
    selects the concatenation (`sp_merged_sel`); if it is on (children of a code span) only the
    boundaries are claimed, which the hull keeps -/
theorem ts_merged_pre {src : List Char} {ex : Bool} {cur nxt : Node} {a b c d : Nat}
    (q1 : cur.range = some (a, b)) (r1 : nxt.range = some (c, d)) (o1 : a ≤ b) (o2 : b ≤ c) (o3 : c ≤ d)
    (ht1 : cur.isText = true) (ht2 : nxt.isText = true) (hc : PreV src ex cur) (hx : PreV src ex nxt)
    (hg : Glue src cur nxt) : PreV src ex (merged cur nxt) := by
  rw [ts_preV_iff] at hc hx ⊢
  obtain ⟨⟨a', b', q1', ha, hb, hsel1, _, hgl⟩, hch⟩ := hc
  rw [q1] at q1'; cases q1'
  obtain ⟨⟨c', d', r1', _, hd, hsel2, _, _⟩, _⟩ := hx
  rw [r1] at r1'; cases r1'
  obtain ⟨a1, b1, a2, b2, e1, e2, hdis⟩ := hg _ _ (sp_isText_textOfK ht1) (sp_isText_textOfK ht2)
  rw [q1] at e1; cases e1
  rw [r1] at e2; cases e2
  have hm : (merged cur nxt).range = some (a, d) := by simp [merged, q1, r1]
  refine ⟨⟨a, d, hm, ha, hd, ?_, ?_, hgl⟩, ?_⟩
  · intro hex t ht
    have : t = cur.content ++ nxt.content := by
      simp only [merged, textOfK, textOf, Option.some.injEq] at ht
      exact ht.symm
    subst this
    exact sp_merged_sel (hsel1 hex _ (sp_isText_textOfK ht1)) (hsel2 hex _ (sp_isText_textOfK ht2))
      hb o1 o2 o3 hdis
  · intro ct mu info hk
    simp [merged] at hk
  · rw [ts_isText_isCodeK ht1] at hch
    exact hch

/-- pass 2 + `retain`: every retained member is `PreV` for the flag of the list -/
theorem ts_mergeLoop_pre {src : List Char} {ex : Bool} (hi : Nat) (rest : List Node) :
    ∀ (cur : Node) (lo : Nat),
    OrderedD lo hi (cur :: rest) → Glued src (cur :: rest) →
    (∀ x ∈ cur :: rest, PreV src ex x) →
    ∀ x ∈ mergeLoop cur rest, keep x = true → PreV src ex x := by
  induction rest with
  | nil =>
    intro cur lo _ _ he x hx _
    simp only [mergeLoop, List.mem_singleton] at hx
    subst hx
    exact he _ (by simp)
  | cons nxt rest ih =>
    intro cur lo ho hgl he x hx hk
    obtain ⟨a, b, q1, q2, q3, c, d, r1, r2, r3, r4⟩ := ho
    simp only [mergeLoop] at hx
    split at hx
    · rename_i hboth
      simp only [Bool.and_eq_true] at hboth
      obtain ⟨ht1, ht2⟩ := hboth
      rcases List.mem_cons.mp hx with rfl | hx
      · rw [c05s_keep_emptied] at hk; cases hk
      · have hcur := he cur (by simp)
        have hnxt := he nxt (by simp)
        have hm : (merged cur nxt).range = some (a, d) := by simp [merged, q1, r1]
        have hpm : PreV src ex (merged cur nxt) :=
          ts_merged_pre q1 r1 q3 r2 r3 ht1 ht2 hcur hnxt hgl.1
        refine ih (merged cur nxt) lo ⟨a, d, hm, q2, by omega, r4⟩
          (sp_merged_glued q1 r1 ht2 hgl.2) ?_ x hx hk
        intro y hy
        rcases List.mem_cons.mp hy with rfl | hy
        · exact hpm
        · exact he y (by simp [hy])
    · rcases List.mem_cons.mp hx with rfl | hx
      · exact he _ (by simp)
      · exact ih nxt b ⟨c, d, r1, r2, r3, r4⟩ (sp_glued_tail hgl)
          (fun y hy => he y (List.mem_cons_of_mem _ hy)) x hx hk

/-- **`fragments_join` keeps `PreV src ex`** on the members it retains, for either flag -/
theorem ts_fragmentsJoin_pre {src : List Char} {ex : Bool} {lo hi : Nat} {cs : List Node}
    (ho : OrderedD lo hi cs) (hgl : Glued src cs) (he : ∀ x ∈ cs, PreV src ex x) :
    ∀ x ∈ fragmentsJoin cs, PreV src ex x := by
  have ho1 : OrderedD lo hi (pass1 cs) := (c05s_ordered_map c05s_markerToText_range).mpr ho
  have hg1 : Glued src (pass1 cs) := sp_glued_map sp_markerToText_textOfK c05s_markerToText_range hgl
  have he1 : ∀ x ∈ pass1 cs, PreV src ex x := by
    intro x hx
    obtain ⟨c, hc, rfl⟩ := List.mem_map.mp hx
    exact ts_markerToText_pre (he c hc)
  unfold fragmentsJoin
  cases hp : pass1 cs with
  | nil => simp [mergeAll]
  | cons c r =>
    rw [hp] at ho1 hg1 he1
    intro x hx
    obtain ⟨hx1, hx2⟩ := List.mem_filter.mp hx
    exact ts_mergeLoop_pre hi r c lo ho1 hg1 he1 x hx1 hx2

theorem ts_preH_postH {src : List Char} {ex : Bool} {n : Node} (h : ts_PreH src ex n) :
    ts_PostH src ex n := by
  obtain ⟨a, b, hr, ha, hb, ht, hs, _⟩ := h
  exact ⟨a, b, hr, ha, hb, fun hex t hk => ht hex t (by rw [hk]; rfl), hs⟩

/-- without the join pass: `PreV` is `PostV` (the `Glued` clause is dropped) -/
theorem ts_preV_postV_aux {src : List Char} (k : Nat) : ∀ (n : Node) (ex : Bool), nsize n ≤ k →
    PreV src ex n → PostV src ex n := by
  induction k with
  | zero => intro n _ hn; rw [nsize_eq] at hn; omega
  | succ k ih =>
    intro n ex hn hp
    rw [ts_preV_iff] at hp
    rw [ts_postV_iff]
    refine ⟨ts_preH_postH hp.1, fun c hc => ih c _ ?_ (hp.2 c hc)⟩
    have s1 := nsize_le_of_mem hc
    rw [nsize_eq] at hn
    omega

theorem ts_preV_postV {src : List Char} {ex : Bool} {n : Node} (h : PreV src ex n) : PostV src ex n :=
  ts_preV_postV_aux _ n ex (Nat.le_refl _) h

theorem ts_joinNode_post_aux {B : Nat} {src : List Char} (k : Nat) : ∀ (n : Node) (ex : Bool),
    nsize n ≤ k → Every (NodeOrdB B) n → PreV src ex n → PostV src ex (joinNode n) := by
  induction k with
  | zero => intro n _ hn; rw [nsize_eq] at hn; omega
  | succ k ih =>
    intro n ex hn he hp
    obtain ⟨a, b, h1, h2, h3, h4⟩ := he.here
    obtain ⟨_, j2⟩ := c05s_fragmentsJoin_ord h4 he.child
    rw [ts_preV_iff] at hp
    obtain ⟨⟨a', b', g1, g2, g3, g4, g5, g6⟩, hch⟩ := hp
    have j3 := ts_fragmentsJoin_pre h4 g6 hch
    rw [joinNode_eq, joinList_eq_map, ts_postV_iff]
    refine ⟨⟨a', b', g1, g2, g3,
      fun hex t hk => g4 hex t (by rw [show n.kind = _ from hk]; rfl), g5⟩, ?_⟩
    intro y hy
    simp only at hy
    obtain ⟨x, hx, rfl⟩ := List.mem_map.mp hy
    apply ih x _ ?_ (j2 x hx) (j3 x hx)
    have s1 := nsize_le_of_mem hx
    have s2 := nsizeList_fragmentsJoin_le n.children
    rw [nsize_eq] at hn
    omega

/-- **the join pass turns `PreV src ex` into `PostV src ex`** -/
theorem ts_joinNode_post {B : Nat} {src : List Char} {ex : Bool} {n : Node}
    (he : Every (NodeOrdB B) n) (hp : PreV src ex n) : PostV src ex (joinNode n) :=
  ts_joinNode_post_aux _ n ex (Nat.le_refl _) he hp

/-! ## step 2: the splice walk -/

mutual
/-- a walked block is not text-like (and not a code span); it is `PreV` without exemption -/
theorem ts_spliceNode_pre {icfg : Inline.Cfg} {src : List Char} (b : Block.BNode) (t : Node)
    (hg : Block.RangedB (PInlFV icfg src) src b) (hn : InlNoRange b) (a z : Nat)
    (hr : b.range = some (a, z)) (h : spliceNode icfg b = .ok t) :
    textOfK t.kind = none ∧ PreV src false t := by
  match b with
  | ⟨k, r, cs⟩ =>
    simp only [spliceNode] at h
    split at h
    · cases h
    · rename_i cs' hcs
      cases h
      obtain ⟨_, h2, h3, h4⟩ := hg.at a z hr
      obtain ⟨l1, l2, _⟩ := ts_spliceList_pre cs cs' a z h4 hg.child hn.child hcs
      rw [ts_preV_iff]
      refine ⟨rfl, ⟨a, z, hr, (bdy_iff_bd _ _).mpr h2, (bdy_iff_bd _ _).mpr h3, ?_, ?_, l2⟩, l1⟩
      · intro _ t ht
        simp [textOfK] at ht
      · intro ct mu info hk
        cases hk
/-- the children: every member of the output is `PreV src false`, the output is `Glued` (the seam
    behind a placeholder's last node by the line break at the end of its stretch), and a text-like
    head begins behind `lo` with a non-empty range -/
theorem ts_spliceList_pre {icfg : Inline.Cfg} {src : List Char} (cs : List Block.BNode) (out : List Node)
    (lo hi : Nat) (ho : Block.OrderedB (PInlFV icfg src) lo hi cs)
    (hg : ∀ c ∈ cs, Block.RangedB (PInlFV icfg src) src c) (hn : ∀ c ∈ cs, InlNoRange c)
    (h : spliceList icfg cs = .ok out) :
    (∀ x ∈ out, PreV src false x) ∧ Glued src out ∧ sp_HeadSep lo out := by
  match cs with
  | [] => simp [spliceList] at h; subst h; exact ⟨by simp, trivial, trivial⟩
  | c :: rest =>
    obtain ⟨a, b, hsp, h1, h2, h3⟩ := ho
    have hgr : ∀ x ∈ rest, Block.RangedB (PInlFV icfg src) src x :=
      fun x hx => hg x (List.mem_cons_of_mem _ hx)
    have hnr : ∀ x ∈ rest, InlNoRange x := fun x hx => hn x (List.mem_cons_of_mem _ hx)
    simp only [spliceList] at h
    split at h
    · -- a placeholder
      rename_i content mapping hk
      split at h
      · cases h
      · rename_i ns hns
        split at h
        · cases h
        · rename_i rest' hrest
          cases h
          obtain ⟨i1, i2, i3⟩ := ts_spliceList_pre rest rest' b hi h3 hgr hnr hrest
          have hnone : c.range = none := (hn c (by simp)).at content mapping hk
          unfold Block.SpanB at hsp
          rw [hnone] at hsp
          obtain ⟨c', m', hk', _, hend, hp⟩ := hsp
          rw [hk] at hk'
          cases hk'
          obtain ⟨p1, _, p3, p4, p5⟩ := hp ns hns
          have hord : OrderedD a b (ofInlineList ns) := c05s_ofInlineList_ordered p1
          have hev : ∀ x ∈ ofInlineList ns, PreV src false x := ts_ofInlineList_pre false ns p3
          refine ⟨?_, ?_, ?_⟩
          · intro x hx
            rcases List.mem_append.mp hx with hx | hx
            · exact hev x hx
            · exact i1 x hx
          · -- the seam: the line break at `b`
            apply sp_glued_append (sp_ofInlineList_glued p4) i2
            intro x hxm y r hy tx ty _ hy'
            subst hy
            obtain ⟨a1, b1, rx, _, _, hb1⟩ := hord.mem x hxm
            obtain ⟨a2, b2, ry, ha2, hlt⟩ := i3 ty hy'
            obtain ⟨a2', b2', ry', _, hbd, _⟩ := ((ts_preV_iff _ _ _).mp (i1 y (by simp))).1
            rw [ry] at ry'; cases ry'
            have hle := hbd.le
            have hbrk : BrkAt src b := by
              rcases hend with e | e
              · omega
              · exact e
            exact ⟨a1, b1, a2, b2, rx, ry, .inr ⟨b, hb1, by omega, hbrk⟩⟩
          · cases ns with
            | nil => simp only [ofInlineList, List.nil_append]; exact sp_headSep_mono i3 (by omega)
            | cons n r =>
              simp only [ofInlineList, List.cons_append]
              intro ty hty
              rw [sp_textOfK_ofInline] at hty
              obtain ⟨a', b', rn, hlt⟩ := p5 n (by simp) (by simp [TextLike, hty])
              obtain ⟨a'', b'', rn', hle, _⟩ := p1
              rw [rn] at rn'; cases rn'
              exact ⟨a', b', by rw [c05s_ofInline_range]; exact rn, by omega, hlt⟩
    · -- any other child: walked; a block node is not text-like
      rename_i hk
      split at h
      · cases h
      · rename_i c' hc'
        split at h
        · cases h
        · rename_i rest' hrest
          cases h
          obtain ⟨i1, i2, _⟩ := ts_spliceList_pre rest rest' b hi h3 hgr hnr hrest
          have hrange := Block.spanB_kind hsp (fun c' m hc => hk c' m hc)
          obtain ⟨j1, j2⟩ := ts_spliceNode_pre c c' (hg c (by simp)) (hn c (by simp)) a b hrange hc'
          refine ⟨?_, ?_, ?_⟩
          · intro x hx
            rcases List.mem_cons.mp hx with rfl | hx
            · exact j2
            · exact i1 x hx
          · refine sp_glued_cons (fun y r _ tx ty hx _ => ?_) i2
            rw [j1] at hx; cases hx
          · intro ty hty
            rw [j1] at hty; cases hty
end

/-! ## step 5: the composition -/

theorem ts_pinlFV_pinl {icfg : Inline.Cfg} {src : List Char} {root : Block.BNode}
    (hg : Block.RangedB (PInlFV icfg src) src root) : Block.RangedB (PInl icfg) src root :=
  hg.imp (fun _ _ _ _ _ h ns hns => ⟨(h.2 ns hns).1, (h.2 ns hns).2.1⟩)

/-- the boundary / text half of the deliverable, in the recursive form -/
theorem ts_afterBlocks_post {cfg : DocCfg} {src : List Char} {root : Block.BNode} {refs : Refs.RefMap}
    {t : Node} {a z : Nat} (hroot : root.range = some (a, z))
    (hg : Block.RangedB (PInlFV (cfg.inlineCfg refs) src) src root) (hn : InlNoRange root)
    (h : afterBlocks cfg src root refs = .ok t) : PostV src false t := by
  unfold afterBlocks at h
  split at h
  · cases h
  · rename_i t0 hs
    obtain ⟨_, e0⟩ := c05s_spliceNode_ord root t0 (ts_pinlFV_pinl hg) hn a z hroot hs
    obtain ⟨_, f0⟩ := ts_spliceNode_pre root t0 hg hn a z hroot hs
    have h1 : PostV src false (if cfg.hasJoin = true then joinNode t0 else t0) := by
      split
      · exact ts_joinNode_post e0 f0
      · exact ts_preV_postV f0
    simp only at h
    split at h
    · exact ts_sourceposNode_post false _ _ h1 h
    · cases h; exact h1

/-! ## step 6: the conversion to `NodeOkX` -/

/-- `NodeOrd` at every node and the recursive `PostV` (for ANY flag at the node itself) give
    `NodeOkX` at every node: the text clause of a child, guarded by the parent's `isCodeK`, is the
    parent-level clause of `NodeOkX` -/
theorem ts_nodeOkX_of {src : List Char} {n : Node} (ho : Every (NodeOrd src) n) :
    ∀ ex, PostV src ex n → Every (NodeOkX src) n := by
  induction ho with
  | mk n h1 _ ih =>
    intro ex hp
    rw [ts_postV_iff] at hp
    obtain ⟨⟨a', b', hr', ba, bb, _, _⟩, hch⟩ := hp
    obtain ⟨a, b, hr, hab, hb, hord⟩ := h1
    rw [hr] at hr'
    simp only [Option.some.injEq, Prod.mk.injEq] at hr'
    obtain ⟨rfl, rfl⟩ := hr'
    refine .mk n ⟨a, b, hr, hab, hb, ba.onBoundary, bb.onBoundary, hord, ?_⟩
      (fun c hc => ih c hc _ (hch c hc))
    intro hk x hx c hxk
    have hx' := hch x hx
    rw [hk, ts_postV_iff] at hx'
    obtain ⟨⟨a2, b2, hr2, _, _, ht, _⟩, _⟩ := hx'
    exact ⟨a2, b2, hr2, fun w hw n1 n2 => ht rfl c hxk w ((cut_iff_lines src a2 b2 w).mp hw) ⟨n1, n2⟩⟩

/-- **`afterBlocks_nodeOkX`.**  If the tree of the block pass is `RangedB` for the claim `PInlFV`
    (every placeholder's stretch ends at a line end; its inline run yields well-ranged nodes in
    order inside the stretch, faithful — a `Text` selects its content UNLESS it is the child of a
    code span —, adjacent where mergeable), then in the tree the core chain returns EVERY node has
    a range `(a, b)`, `a ≤ b ≤ |src|`, on character boundaries, its children's ranges lie inside in
    source order, and every `Text` child of a node that is not a code span selects its content
    (unless the range holds a line break); the root keeps its range. -/
theorem afterBlocks_nodeOkX {cfg : DocCfg} {src : List Char} {root : Block.BNode} {refs : Refs.RefMap}
    {t : Node} {a z : Nat} (hroot : root.range = some (a, z))
    (hg : Block.RangedB (C05T.PInlFV (cfg.inlineCfg refs) src) src root) (hn : InlNoRange root)
    (h : afterBlocks cfg src root refs = .ok t) :
    t.range = some (a, z) ∧ Every (C05T.NodeOkX src) t := by
  obtain ⟨r0, e0⟩ := afterBlocks_nodeOrd hroot (ts_pinlFV_pinl hg) hn h
  exact ⟨r0, ts_nodeOkX_of e0 false (ts_afterBlocks_post hroot hg hn h)⟩

/-! ## non-vacuity: the hypotheses of `afterBlocks_nodeOkX` are satisfiable — on a SPLIT TAB inside a
    code span -/

/-- the clauses of `FthNV` about one value at the range `(a, b)`, as a test (`ex`: the flag) -/
def ts_valb (src : List Char) (ex : Bool) (a b : Nat) (v : Inline.Val) : Bool :=
  match InlineOps.slice src a b with
  | .error _ => false
  | .ok w =>
    match v with
    | .text t => ex || (w == t || sp_brkb w)
    | .special _ mu _ => w == mu || sp_brkb w
    | .emphMarker mk _ rem _ _ => w == List.replicate rem mk && mk.utf8Size == 1
    | _ => true

mutual
/-- `FthNV`, as a test -/
def ts_fthb (src : List Char) (ex : Bool) : Inline.Node → Bool
  | ⟨v, r, cs⟩ =>
    (match r with
     | some (a, b) => ts_valb src ex a b v
     | none => false) && sp_adjb cs && ts_fthbList src (isCode v) cs
def ts_fthbList (src : List Char) (ex : Bool) : List Inline.Node → Bool
  | [] => true
  | c :: cs => ts_fthb src ex c && ts_fthbList src ex cs
end

theorem ts_valb_sound {src : List Char} {ex : Bool} {a b : Nat} {v : Inline.Val}
    (h : ts_valb src ex a b v = true) :
    Bdy src a ∧ Bdy src b ∧ (ex = false → ∀ t, v = .text t → Sel src a b t) ∧
      (∀ ct mu info, v = .special ct mu info → Sel src a b mu) ∧
      (∀ mk l rem o c, v = .emphMarker mk l rem o c →
        Cut src a b (List.replicate rem mk) ∧ mk.utf8Size = 1) := by
  unfold ts_valb at h
  split at h
  · cases h
  · rename_i w hw
    have hc : Cut src a b w := (cut_iff_ops src a b w).mp hw
    refine ⟨hc.bdy_left, hc.bdy_right, ?_, ?_, ?_⟩
    · rintro hex t rfl
      subst hex
      simp only [Bool.false_or] at h
      exact sp_sel_of_check hc h
    · rintro ct mu info rfl
      exact sp_sel_of_check hc h
    · rintro mk l rem o c rfl
      simp only [Bool.and_eq_true, beq_iff_eq] at h
      rw [← h.1]
      exact ⟨hc, h.2⟩

mutual
theorem ts_fthb_sound {src : List Char} (ex : Bool) (n : Inline.Node) (h : ts_fthb src ex n = true) :
    FthNV src ex n := by
  match n with
  | ⟨v, r, cs⟩ =>
    simp only [ts_fthb, Bool.and_eq_true] at h
    obtain ⟨⟨h1, h2⟩, h3⟩ := h
    simp only [FthNV]
    refine ⟨?_, ts_fthbList_sound (isCode v) cs h3⟩
    split at h1
    · rename_i a b
      obtain ⟨v1, v2, v3, v4, v5⟩ := ts_valb_sound h1
      exact ⟨a, b, rfl, v1, v2, v3, v4, v5, sp_adjb_sound cs h2⟩
    · cases h1
theorem ts_fthbList_sound {src : List Char} (ex : Bool) (l : List Inline.Node)
    (h : ts_fthbList src ex l = true) : FthLV src ex l := by
  match l with
  | [] => trivial
  | c :: cs =>
    simp only [ts_fthbList, Bool.and_eq_true] at h
    exact ⟨ts_fthb_sound ex c h.1, ts_fthbList_sound ex cs h.2⟩
end

/-- `PInlFV` for one placeholder, by evaluation -/
theorem ts_pinlFV_of_check {icfg : Inline.Cfg} {src c : List Char} {m : List (Nat × Nat)} {a b : Nat}
    (hend : b = byteLen src ∨ BrkAt src b)
    (h : (match Inline.parseInline icfg c m with
          | .ok ns => c05s_ordNb b a ns && c05s_wrbList ns && ts_fthbList src false ns && sp_adjb ns &&
              sp_strictb ns
          | .error _ => true) = true) : PInlFV icfg src c m a b := by
  refine ⟨hend, ?_⟩
  intro ns hns
  rw [hns] at h
  simp only [Bool.and_eq_true] at h
  obtain ⟨⟨⟨⟨h1, h2⟩, h3⟩, h4⟩, h5⟩ := h
  exact ⟨c05s_ordNb_sound ns a h1, c05s_wrbList_sound ns h2, ts_fthbList_sound false ns h3,
    sp_adjb_sound ns h4, sp_strictb_sound h5⟩

/-! ### example 1: ``"> `a\n>\tb`*c"`` (11 bytes).  The tab behind the second `>` is split: the quote
    marker takes one of its three columns, the other two are VIRTUAL spaces of the paragraph's text
    ``"`a\n  b`*c"`` (table `[(0, 2), (3, 7), (5, 7)]`).  The code span `(2, 9)` keeps them:
    its `Text` child is `"a   b"` (five characters) at `(3, 8)`; the left-over delimiter `*` and `c`
    are merged by the join pass into `Text "*c"` `(9, 11)`, a child of the paragraph, for which
    the text clause IS claimed.  (Here the child's range `(3, 8)` selects `"a\n>\tb"`, which holds the
    line break: the clause would be vacuous for it.  In a tree of the block pass the virtual spaces
    sit directly behind a line feed of the text and neither can be a backtick, so this was so in
    every document tried; example 2 shows a placeholder where the exemption does matter.) -/

def ts_exSrc : List Char := ['>', ' ', '`', 'a', '\n', '>', '\t', 'b', '`', '*', 'c']
def ts_exTxt : List Char := ['`', 'a', '\n', ' ', ' ', 'b', '`', '*', 'c']
def ts_exMap : List (Nat × Nat) := [(0, 2), (3, 7), (5, 7)]
def ts_exRoot : Block.BNode :=
  ⟨.root, some (0, 11), [⟨.blockquote, some (0, 11), [⟨.paragraph, some (2, 11),
    [⟨.inlineRoot ts_exTxt ts_exMap, none, []⟩]⟩]⟩]⟩

/-- … is what the block pass returns for it -/
example : (Block.parseBlocks (exCfg false 100).blockCfg ts_exSrc).toOption.map
      (fun x => c05s_flatB 0 x.1) = some (c05s_flatB 0 ts_exRoot) ∧
    (Block.parseBlocks (exCfg false 100).blockCfg ts_exSrc).toOption.map (fun x => x.2.isEmpty) =
      some true := by decide +kernel

theorem ts_exRoot_ranged :
    Block.RangedB (PInlFV ((exCfg false 100).inlineCfg []) ts_exSrc) ts_exSrc ts_exRoot := by
  have hp : PInlFV ((exCfg false 100).inlineCfg []) ts_exSrc ts_exTxt ts_exMap 2 11 :=
    ts_pinlFV_of_check (.inl (by decide)) (by decide +kernel)
  have h0 : Block.Bd ts_exSrc 0 := c05s_bd_zero _
  have h2 : Block.Bd ts_exSrc 2 :=
    ⟨['>', ' '], ['`', 'a', '\n', '>', '\t', 'b', '`', '*', 'c'], rfl, by decide⟩
  have h11 : Block.Bd ts_exSrc 11 := c05s_bd_len ts_exSrc
  have hpar := Block.rangedB_text (P := PInlFV ((exCfg false 100).inlineCfg []) ts_exSrc)
    (src := ts_exSrc) .paragraph (a := 2) (b := 11) (by omega) h2 h11 hp (Nat.le_refl _) (by omega)
    (Nat.le_refl _)
  have hbq : Block.RangedB (PInlFV ((exCfg false 100).inlineCfg []) ts_exSrc) ts_exSrc
      ⟨.blockquote, some (0, 11), [⟨.paragraph, some (2, 11),
        [⟨.inlineRoot ts_exTxt ts_exMap, none, []⟩]⟩]⟩ := by
    refine .mk _ (fun a b h => ?_) (fun h => by cases h) ?_
    · cases h
      exact ⟨by omega, h0, h11, 2, 11, rfl, by omega, by omega, Nat.le_refl 11⟩
    · intro c hc
      simp only [List.mem_singleton] at hc
      subst hc
      exact hpar
  refine .mk _ (fun a b h => ?_) (fun h => by cases h) ?_
  · cases h
    exact ⟨by omega, h0, h11, 0, 11, rfl, Nat.le_refl _, by omega, Nat.le_refl 11⟩
  · intro c hc
    simp only [ts_exRoot, List.mem_singleton] at hc
    subst hc
    exact hbq

theorem ts_exRoot_noRange : InlNoRange ts_exRoot := by
  refine .mk _ (fun c m h => by cases h) ?_
  intro c hc
  simp only [ts_exRoot, List.mem_singleton] at hc
  subst hc
  refine .mk _ (fun c m h => by cases h) ?_
  intro c hc
  simp only [List.mem_singleton] at hc
  subst hc
  refine .mk _ (fun c m h => by cases h) ?_
  intro c hc
  simp only [List.mem_singleton] at hc
  subst hc
  exact .mk _ (fun _ _ _ => rfl) (by simp)

/-- all hypotheses of `afterBlocks_nodeOkX` hold of the block tree of example 1 -/
example : ∃ t, afterBlocks (exCfg false 100) ts_exSrc ts_exRoot [] = .ok t ∧
    t.range = some (0, 11) ∧ Every (NodeOkX ts_exSrc) t := by
  have h : (afterBlocks (exCfg false 100) ts_exSrc ts_exRoot []).toOption.isSome = true := by
    decide +kernel
  cases hp : afterBlocks (exCfg false 100) ts_exSrc ts_exRoot [] with
  | error e => rw [hp] at h; cases h
  | ok t => exact ⟨t, rfl, afterBlocks_nodeOkX rfl ts_exRoot_ranged ts_exRoot_noRange hp⟩

/-- the finished tree of example 1 -/
example : (afterBlocks (exCfg false 100) ts_exSrc ts_exRoot []).toOption.map (sp_flat 0) =
    some [(0, 0, 11, []), (1, 0, 11, []), (2, 2, 11, []), (3, 2, 9, []),
      (4, 3, 8, ['a', ' ', ' ', ' ', 'b']), (3, 9, 11, ['*', 'c'])] := by decide +kernel

/-! ### example 2: the exemption is what makes the placeholder claim TRUE of a code span over a
    virtual space (a hand-made placeholder: source ``"`ab`"``, text ``"`a b`"`` with the
    virtual-space entry pair `(2, 2)`, `(3, 2)` — the space at `2` of the text has no byte in the
    source).  The code span's `Text` child `"a b"` gets the range `(1, 3)`, which selects `"ab"`: no
    line break, not the content.  `PInlFV` holds (the clause is off below a code span), the claim
    without exemption `PInlF` fails, and `afterBlocks_nodeOkX` applies. -/

def ts_cdSrc : List Char := ['`', 'a', 'b', '`']
def ts_cdTxt : List Char := ['`', 'a', ' ', 'b', '`']
def ts_cdMap : List (Nat × Nat) := [(0, 0), (2, 2), (3, 2)]
def ts_cdRoot : Block.BNode :=
  ⟨.root, some (0, 4), [⟨.paragraph, some (0, 4), [⟨.inlineRoot ts_cdTxt ts_cdMap, none, []⟩]⟩]⟩

theorem ts_cdRoot_ranged :
    Block.RangedB (PInlFV ((exCfg false 100).inlineCfg []) ts_cdSrc) ts_cdSrc ts_cdRoot := by
  have hp : PInlFV ((exCfg false 100).inlineCfg []) ts_cdSrc ts_cdTxt ts_cdMap 0 4 :=
    ts_pinlFV_of_check (.inl (by decide)) (by decide +kernel)
  have h0 : Block.Bd ts_cdSrc 0 := c05s_bd_zero _
  have h4 : Block.Bd ts_cdSrc 4 := c05s_bd_len ts_cdSrc
  have hpar := Block.rangedB_text (P := PInlFV ((exCfg false 100).inlineCfg []) ts_cdSrc)
    (src := ts_cdSrc) .paragraph (a := 0) (b := 4) (by omega) h0 h4 hp (Nat.le_refl _) (by omega)
    (Nat.le_refl _)
  refine .mk _ (fun a b h => ?_) (fun h => by cases h) ?_
  · cases h
    exact ⟨by omega, h0, h4, 0, 4, rfl, Nat.le_refl _, by omega, Nat.le_refl 4⟩
  · intro c hc
    simp only [ts_cdRoot, List.mem_singleton] at hc
    subst hc
    exact hpar

theorem ts_cdRoot_noRange : InlNoRange ts_cdRoot := by
  refine .mk _ (fun c m h => by cases h) ?_
  intro c hc
  simp only [ts_cdRoot, List.mem_singleton] at hc
  subst hc
  refine .mk _ (fun c m h => by cases h) ?_
  intro c hc
  simp only [List.mem_singleton] at hc
  subst hc
  exact .mk _ (fun _ _ _ => rfl) (by simp)

example : ∃ t, afterBlocks (exCfg false 100) ts_cdSrc ts_cdRoot [] = .ok t ∧
    t.range = some (0, 4) ∧ Every (NodeOkX ts_cdSrc) t := by
  have h : (afterBlocks (exCfg false 100) ts_cdSrc ts_cdRoot []).toOption.isSome = true := by
    decide +kernel
  cases hp : afterBlocks (exCfg false 100) ts_cdSrc ts_cdRoot [] with
  | error e => rw [hp] at h; cases h
  | ok t => exact ⟨t, rfl, afterBlocks_nodeOkX rfl ts_cdRoot_ranged ts_cdRoot_noRange hp⟩

/-- the tree of example 2, what the child's range selects, and the test WITHOUT exemption
    (`sp_fthbList` of Lemmas/C05RestSplice.lean) failing on the inline run -/
example : (afterBlocks (exCfg false 100) ts_cdSrc ts_cdRoot []).toOption.map (sp_flat 0) =
      some [(0, 0, 4, []), (1, 0, 4, []), (2, 0, 4, []), (3, 1, 3, ['a', ' ', 'b'])] ∧
    InlineOps.slice ts_cdSrc 1 3 = .ok ['a', 'b'] ∧
    (Inline.parseInline ((exCfg false 100).inlineCfg []) ts_cdTxt ts_cdMap).toOption.map
      (fun ns => (sp_fthbList ts_cdSrc ns, ts_fthbList ts_cdSrc false ns)) = some (false, true) := by
  decide +kernel

end MdIt.Pipeline
