/-
  C11 inside containers, BLOCK level: the helper development behind `MdIt/Props/C11Nested.lean`.

  A `Wrapper` is one container put around a document: a block quote (`"> "` in front of every line —
  `Block.prefixQuote`) or one list item (marker + space in front of the first line, as many spaces in
  front of the others — `Li.itemDoc`), with a bullet or an ordered marker.  `wrapAll w D` applies a list
  of wrappers from the inside out.  On a document given by its lines (`docOf Ls`, lines joined by LF, no
  final terminator; `Good Ls`: tab-free, terminator-free lines, the last one not empty) the wrapped
  document is again given by its lines (`wrapAll_docOf`, `wrapAllLines`), which is what makes the
  hypotheses of `Block.quote_commutes` / `Li.item_commutes_gen_parse` checkable level by level:

    * `linesT_docOf`, `wrap1_docOf`            the line table of `docOf Ls`, the two documents agree
    * `Good.wrap`, `firstOk_wrapped`           the invariants survive; a wrapped first line starts with the
                                               marker (indent 0: `Li.FirstOk`)
    * `sigma_good`, `tau_good`, `getMap_whole` the byte maps of C06 on the positions that occur: the bytes
                                               of line 0 move by the prefix width, the end of the source goes
                                               to the end of the source; the container spans everything
    * `wrapTree`, `reloc_wrapTree`             the expected tree and its relocation (kinds and payloads
                                               untouched: only ranges move)
    * `HrFree`, `hrFree_of_mem`                the thematic-break condition of the list half, per bullet
    * `parseBlocks_wrap1`, `parseBlocks_nested` one wrapper / any list of wrappers around `Root[leaf]`
-/
import MdIt.Props.C06List
import MdIt.Lemmas.C14DocVerbatim
set_option linter.unusedSimpArgs false
set_option linter.unusedVariables false

namespace MdIt.C11N
open MdIt.Block MdIt.Block.Li
open MdIt.Lines (NoTerm lead IsTerminator)

/-! ## 1. wrappers -/

/-- one container around a document: a block quote (`"> "` in front of every line), a bullet item
    (`c` and a space in front of the first line, two spaces in front of the others), an ordered item
    (digits `ds`, delimiter `dl`, a space / as many spaces) -/
inductive Wrapper where
  | quote
  | bullet (c : Char)
  | ordered (ds : List Char) (dl : Char)
  deriving DecidableEq, Repr

/-- the marker: what stands in front of the space on the first line -/
def Wrapper.mk : Wrapper → List Char
  | .quote => ['>']
  | .bullet c => [c]
  | .ordered ds dl => ds ++ [dl]

/-- bytes (= columns) inserted in front of every line -/
def Wrapper.width (x : Wrapper) : Nat := x.mk.length + 1

/-- levels of nesting a wrapper costs: the block-quote rule raises `level` once, the list rule once
    for the list and once for the item -/
def Wrapper.cost : Wrapper → Nat
  | .quote => 1
  | _ => 2

/-- the markers the list rule recognises -/
def Wrapper.Ok : Wrapper → Prop
  | .quote => True
  | .bullet c => c = '-' ∨ c = '*' ∨ c = '+'
  | .ordered ds dl => OrdMk ds dl

def Wrapper.isQuote : Wrapper → Bool
  | .quote => true
  | _ => false

/-- the prefix of line `i` -/
def Wrapper.pre : Wrapper → Nat → List Char
  | .quote, _ => ['>', ' ']
  | x, i => preAt x.mk i

def depthCost : List Wrapper → Nat
  | [] => 0
  | x :: ws => depthCost ws + x.cost

def widthAll : List Wrapper → Nat
  | [] => 0
  | x :: ws => x.width + widthAll ws

/-- the wrapper applied to a document (any document: `Block.prefixQuote`, `Li.itemDoc`) -/
def wrap1 : Wrapper → List Char → List Char
  | .quote, D => prefixQuote D
  | x, D => itemDoc x.mk D

/-- the wrappers applied from the inside out: `wrapAll [a, b] D` is `a` around `b` around `D` -/
def wrapAll : List Wrapper → List Char → List Char
  | [], D => D
  | x :: ws, D => wrap1 x (wrapAll ws D)

/-- the same on a list of lines -/
def wrapLines (x : Wrapper) (Ls : List (List Char)) : List (List Char) := Ls.mapIdx fun i l => x.pre i ++ l

def wrapAllLines : List Wrapper → List (List Char) → List (List Char)
  | [], Ls => Ls
  | x :: ws, Ls => wrapLines x (wrapAllLines ws Ls)

/-- the first line of the wrapped document -/
def firstLine : List Wrapper → List Char → List Char
  | [], l => l
  | x :: ws, l => x.pre 0 ++ firstLine ws l

theorem Wrapper.mkOk {x : Wrapper} (h : x.Ok) (hq : x.isQuote = false) : MkOk x.mk := by
  cases x with
  | quote => cases hq
  | bullet c => exact mkOk_bullet h
  | ordered ds dl => exact mkOk_ordered h

theorem Wrapper.pre_item {x : Wrapper} (hq : x.isQuote = false) (i : Nat) : x.pre i = preAt x.mk i := by
  cases x with
  | quote => cases hq
  | bullet c => rfl
  | ordered ds dl => rfl

structure PreFacts (x : Wrapper) : Prop where
  len : ∀ i, (x.pre i).length = x.width
  bytes : ∀ i, Lines.byteLen (x.pre i) = x.width
  tabfree : ∀ i, '\t' ∉ x.pre i
  noTerm : ∀ i, NoTerm (x.pre i)
  /-- the first line starts with a character that is not blank -/
  head : ∃ c r, x.pre 0 = c :: r ∧ Lines.isBlank c = false

theorem Wrapper.preFacts {x : Wrapper} (h : x.Ok) : PreFacts x := by
  by_cases hq : x.isQuote = true
  · cases x <;> simp [Wrapper.isQuote] at hq
    refine ⟨fun _ => rfl, fun _ => by simp [Wrapper.pre, Wrapper.width, Wrapper.mk]; decide,
      fun _ => by simp [Wrapper.pre], fun _ => by simp [Wrapper.pre, NoTerm], ⟨'>', [' '], rfl, by decide⟩⟩
  · have hq' : x.isQuote = false := by simpa using hq
    have hmk := Wrapper.mkOk h hq'
    have hp := preOk_preAt hmk
    refine ⟨fun i => by rw [Wrapper.pre_item hq']; exact hp.len i, fun i => by rw [Wrapper.pre_item hq']; exact hp.bytes i,
      fun i => by rw [Wrapper.pre_item hq']; exact hp.tabfree i, fun i => by rw [Wrapper.pre_item hq']; exact noTerm_preAt hmk i, ?_⟩
    rw [Wrapper.pre_item hq']
    obtain ⟨c, r, hcr⟩ : ∃ c r, x.mk = c :: r := by
      cases hm : x.mk with
      | nil => exact absurd hm hmk.ne
      | cons c r => exact ⟨c, r, rfl⟩
    refine ⟨c, r ++ [' '], by simp [preAt, hcr], ?_⟩
    have := hmk.plain c (by rw [hcr]; simp)
    simp [Lines.isBlank, this.1, this.2.1]

/-! ## 2. the lines of `docOf Ls`, with their terminators -/

def withTerms : List (List Char) → DLines
  | [] => []
  | [x] => [(x, [])]
  | x :: y :: r => (x, ['\n']) :: withTerms (y :: r)

theorem withTerms_length : ∀ Ls, (withTerms Ls).length = Ls.length
  | [] => rfl
  | [x] => rfl
  | x :: y :: r => by simp [withTerms, withTerms_length (y :: r)]

theorem docOf_ne_nil : ∀ (Ls : List (List Char)), Ls ≠ [] → Ls.getLast? ≠ some [] → docOf Ls ≠ []
  | [], h, _ => absurd rfl h
  | [x], _, h => by simpa [docOf, Lines.joinLines] using h
  | x :: y :: r, _, _ => by simp [docOf, Lines.joinLines]

theorem linesT_docOf : ∀ (Ls : List (List Char)), Ls ≠ [] → (∀ l ∈ Ls, NoTerm l) → Ls.getLast? ≠ some [] →
    Lines.linesT (docOf Ls) = withTerms Ls
  | [], h, _, _ => absurd rfl h
  | [x], _, hn, _ => by
    have := lineOf_append (l := x) (x := []) (hn x (by simp)) (.inl rfl)
    simp only [List.append_nil] at this
    rw [Lines.linesT]
    simp [docOf, Lines.joinLines, this.1, this.2, Lines.termOf, withTerms]
  | x :: y :: r, _, hn, hl => by
    have hl' : (y :: r).getLast? ≠ some [] := by simpa [List.getLast?_cons_cons] using hl
    have ih := linesT_docOf (y :: r) (by simp) (fun l h => hn l (List.mem_cons_of_mem _ h)) hl'
    have hne := docOf_ne_nil (y :: r) (by simp) hl'
    have := lineOf_append (l := x) (x := '\n' :: docOf (y :: r)) (hn x (by simp)) (.inr ⟨_, _, rfl, .inl rfl⟩)
    have hd : docOf (x :: y :: r) = x ++ '\n' :: docOf (y :: r) := by simp [docOf, Lines.joinLines]
    rw [hd, Lines.linesT, this.1, this.2]
    have ht : Lines.termOf ('\n' :: docOf (y :: r)) = (['\n'], docOf (y :: r)) := by simp [Lines.termOf]
    rw [ht]
    simp only [hne, if_false, ih, withTerms]

theorem flat_withTerms : ∀ Ls, Lines.flat (withTerms Ls) = docOf Ls
  | [] => rfl
  | [x] => by simp [withTerms, docOf, Lines.joinLines]
  | x :: y :: r => by
    have := flat_withTerms (y :: r)
    simp only [withTerms, Lines.flat_cons, this]
    simp [docOf, Lines.joinLines]

theorem withTerms_mapIdx : ∀ (Ls : List (List Char)) (pre : Nat → List Char),
    (withTerms Ls).mapIdx (fun i lt => (pre i ++ lt.1, lt.2)) = withTerms (Ls.mapIdx fun i l => pre i ++ l)
  | [], _ => rfl
  | [x], _ => by simp [withTerms]
  | x :: y :: r, pre => by
    have := withTerms_mapIdx (y :: r) (fun i => pre (i + 1))
    simp only [withTerms, List.mapIdx_cons] at this ⊢
    rw [this]

theorem mapIdx_const {α β : Type} (f : α → β) : ∀ (l : List α), l.mapIdx (fun _ a => f a) = l.map f
  | [] => rfl
  | a :: r => by simp [List.mapIdx_cons, mapIdx_const f r]

/-- `wrap1` on a document given by its lines -/
theorem wrap1_docOf {x : Wrapper} (hx : x.Ok) {Ls : List (List Char)} (hne : Ls ≠ []) (hn : ∀ l ∈ Ls, NoTerm l)
    (hl : Ls.getLast? ≠ some []) : wrap1 x (docOf Ls) = docOf (wrapLines x Ls) := by
  by_cases hq : x.isQuote = true
  · cases x <;> simp [Wrapper.isQuote] at hq
    simp only [wrap1, prefixQuote, linesT_docOf Ls hne hn hl, wrapLines, Wrapper.pre]
    rw [← flat_withTerms, ← withTerms_mapIdx, prefixLines, mapIdx_const (fun lt : List Char × List Char => (['>', ' '] ++ lt.1, lt.2))]
    rfl
  · have hq' : x.isQuote = false := by simpa using hq
    have hw : wrap1 x (docOf Ls) = itemDoc x.mk (docOf Ls) := by
      cases x with
      | quote => cases hq'
      | bullet c => rfl
      | ordered ds dl => rfl
    rw [hw, itemDoc, linesT_docOf Ls hne hn hl, indentLines, withTerms_mapIdx, flat_withTerms, wrapLines]
    congr 2
    funext i l
    rw [Wrapper.pre_item hq']

/-! ## 3. invariants of the line lists -/

/-- a document given by non-empty list of terminator-free, tab-free lines, the last one not empty -/
structure Good (Ls : List (List Char)) : Prop where
  ne : Ls ≠ []
  noTerm : ∀ l ∈ Ls, NoTerm l
  last : Ls.getLast? ≠ some []
  tabfree : ∀ l ∈ Ls, '\t' ∉ l

theorem wrapLines_length (x : Wrapper) (Ls : List (List Char)) : (wrapLines x Ls).length = Ls.length := by
  simp [wrapLines]

theorem mem_wrapLines {x : Wrapper} {Ls : List (List Char)} {l : List Char} (h : l ∈ wrapLines x Ls) :
    ∃ i l0, l0 ∈ Ls ∧ l = x.pre i ++ l0 := by
  unfold wrapLines at h
  obtain ⟨i, hi, rfl⟩ := List.mem_mapIdx.mp h
  exact ⟨i, Ls[i], List.getElem_mem hi, rfl⟩

theorem Good.wrap {x : Wrapper} (hx : x.Ok) {Ls : List (List Char)} (g : Good Ls) : Good (wrapLines x Ls) := by
  have pf := Wrapper.preFacts hx
  refine ⟨?_, ?_, ?_, ?_⟩
  · intro h
    have := congrArg List.length h
    rw [wrapLines_length] at this
    exact g.ne (List.length_eq_zero_iff.mp this)
  · intro l hl
    obtain ⟨i, l0, h0, rfl⟩ := mem_wrapLines hl
    intro c hc
    rcases List.mem_append.mp hc with h | h
    · exact pf.noTerm i c h
    · exact g.noTerm l0 h0 c h
  · intro h
    obtain ⟨i, l0, h0, he⟩ := mem_wrapLines (List.mem_of_getLast? h)
    have := congrArg List.length he
    simp [pf.len, Wrapper.width] at this
    omega
  · intro l hl
    obtain ⟨i, l0, h0, rfl⟩ := mem_wrapLines hl
    intro hc
    rcases List.mem_append.mp hc with h | h
    · exact pf.tabfree i h
    · exact g.tabfree l0 h0 h

theorem Good.wrapAll {w : List Wrapper} (hw : ∀ x ∈ w, x.Ok) {Ls : List (List Char)} (g : Good Ls) :
    Good (wrapAllLines w Ls) := by
  induction w with
  | nil => exact g
  | cons x ws ih =>
    exact (ih (fun y hy => hw y (List.mem_cons_of_mem _ hy))).wrap (hw x (by simp))

theorem tabfree_docOf : ∀ (Ls : List (List Char)), (∀ l ∈ Ls, '\t' ∉ l) → '\t' ∉ docOf Ls
  | [], _ => by simp [docOf, Lines.joinLines]
  | [x], h => by simpa [docOf, Lines.joinLines] using h x (by simp)
  | x :: y :: r, h => by
    have ih := tabfree_docOf (y :: r) (fun l hl => h l (List.mem_cons_of_mem _ hl))
    have hx := h x (by simp)
    simp only [docOf, Lines.joinLines] at ih ⊢
    intro hc
    rcases List.mem_append.mp hc with h1 | h1
    · exact hx h1
    · rcases List.mem_cons.mp h1 with h2 | h2
      · cases h2
      · exact ih h2

theorem Good.tab {Ls : List (List Char)} (g : Good Ls) : '\t' ∉ docOf Ls := tabfree_docOf Ls g.tabfree

/-- `wrapAll` on a document given by its lines -/
theorem wrapAll_docOf {w : List Wrapper} (hw : ∀ x ∈ w, x.Ok) {Ls : List (List Char)} (g : Good Ls) :
    wrapAll w (docOf Ls) = docOf (wrapAllLines w Ls) := by
  induction w with
  | nil => rfl
  | cons x ws ih =>
    have hws : ∀ y ∈ ws, y.Ok := fun y hy => hw y (List.mem_cons_of_mem _ hy)
    have g' := Good.wrapAll hws g
    simp only [wrapAll, wrapAllLines, ih hws]
    exact wrap1_docOf (hw x (by simp)) g'.ne g'.noTerm g'.last

/-- the first line of the wrapped document -/
theorem wrapAllLines_cons (w : List Wrapper) (l : List Char) (r : List (List Char)) :
    ∃ r', wrapAllLines w (l :: r) = firstLine w l :: r' ∧ r'.length = r.length := by
  induction w with
  | nil => exact ⟨r, rfl, rfl⟩
  | cons x ws ih =>
    obtain ⟨r', h, hl⟩ := ih
    refine ⟨_, by simp only [wrapAllLines, h, wrapLines, List.mapIdx_cons, firstLine]; rfl, by simp [hl]⟩

theorem wrapAllLines_length (w : List Wrapper) (Ls : List (List Char)) : (wrapAllLines w Ls).length = Ls.length := by
  induction w with
  | nil => rfl
  | cons x ws ih => simp [wrapAllLines, wrapLines_length, ih]

theorem withTerms_cons (l : List Char) (r : List (List Char)) :
    ∃ t rest, withTerms (l :: r) = (l, t) :: rest := by
  cases r with
  | nil => exact ⟨[], [], rfl⟩
  | cons y r => exact ⟨['\n'], withTerms (y :: r), rfl⟩

theorem byteLen_firstLine {w : List Wrapper} (hw : ∀ x ∈ w, x.Ok) (l : List Char) :
    Lines.byteLen (firstLine w l) = widthAll w + Lines.byteLen l := by
  induction w with
  | nil => simp [firstLine, widthAll]
  | cons x ws ih =>
    have pf := Wrapper.preFacts (hw x (by simp))
    simp only [firstLine, widthAll, Lines.byteLen_append, pf.bytes, ih (fun y hy => hw y (List.mem_cons_of_mem _ hy))]
    omega

/-- a wrapped first line starts with a character that is not blank -/
theorem firstLine_head {x : Wrapper} (hx : x.Ok) (ws : List Wrapper) (l : List Char) :
    lead (firstLine (x :: ws) l) = [] ∧ (firstLine (x :: ws) l).dropWhile Lines.isBlank ≠ [] := by
  obtain ⟨c, r, hcr, hc⟩ := (Wrapper.preFacts hx).head
  simp only [firstLine, hcr, List.cons_append]
  have := lead_nonblank_cons (r ++ firstLine ws l) hc
  exact ⟨this.1, by rw [this.2]; simp⟩

/-- the payload's first line: not blank, indented by 0 or by at least 4 columns -/
def FirstLineOk (l : List Char) : Prop :=
  l.dropWhile Lines.isBlank ≠ [] ∧ ((lead l).length = 0 ∨ 4 ≤ (lead l).length)

theorem firstOk_wrapped {w : List Wrapper} (hw : ∀ x ∈ w, x.Ok) {l : List Char} {r : List (List Char)}
    (g : Good (l :: r)) (hf : FirstLineOk l) : FirstOk (Lines.linesT (docOf (wrapAllLines w (l :: r)))) := by
  have g' := Good.wrapAll hw g
  rw [linesT_docOf _ g'.ne g'.noTerm g'.last]
  obtain ⟨r', hr', _⟩ := wrapAllLines_cons w l r
  obtain ⟨t, rest, ht⟩ := withTerms_cons (firstLine w l) r'
  rw [hr', ht]
  refine ⟨_, _, _, rfl, ?_⟩
  cases w with
  | nil => exact hf
  | cons x ws =>
    have := firstLine_head (hw x (by simp)) ws l
    exact ⟨this.2, .inl (by rw [this.1]; rfl)⟩

/-! ## 4. sizes -/

theorem byteLen_wrap1 {x : Wrapper} (hx : x.Ok) (D : List Char) :
    Lines.byteLen (wrap1 x D) = Lines.byteLen D + x.width * (Lines.linesT D).length := by
  by_cases hq : x.isQuote = true
  · cases x <;> simp [Wrapper.isQuote] at hq
    simp only [wrap1, byteLen_prefixQuote]; rfl
  · have hq' : x.isQuote = false := by simpa using hq
    have hw : wrap1 x D = itemDoc x.mk D := by
      cases x with
      | quote => cases hq'
      | bullet c => rfl
      | ordered ds dl => rfl
    rw [hw, byteLen_itemDoc (Wrapper.mkOk hx hq')]; rfl

theorem byteLen_wrap1_ge {x : Wrapper} (hx : x.Ok) (D : List Char) : Lines.byteLen D ≤ Lines.byteLen (wrap1 x D) := by
  rw [byteLen_wrap1 hx]; omega

theorem width_le (x : Wrapper) (hx : x.Ok) : x.width ≤ 11 := by
  cases x with
  | quote => decide
  | bullet c => simp [Wrapper.width, Wrapper.mk]
  | ordered ds dl => have := hx.len; simp [Wrapper.width, Wrapper.mk]; omega

/-! ## 5. thematic breaks -/

theorem hrCount_none {m x : Char} (hx : x ≠ m ∧ x ≠ ' ' ∧ x ≠ '\t') : ∀ (rest : List Char) (cnt : Nat), x ∈ rest →
    hrCount m rest cnt = none
  | [], _, h => by simp at h
  | c :: r, cnt, h => by
    simp only [hrCount]
    by_cases hc : c = x
    · subst hc
      rw [if_neg hx.1, if_pos ⟨hx.2.1, hx.2.2⟩]
    · have hr : x ∈ r := by
        rcases List.mem_cons.mp h with h | h
        · exact absurd h.symm hc
        · exact h
      split
      · exact hrCount_none hx r _ hr
      · split
        · rfl
        · exact hrCount_none hx r _ hr

/-- a line that holds a character other than the marker and blanks is not a thematic break -/
theorem hrLook_false_of_mem {m x : Char} {rest : List Char} (h : x ∈ rest) (hx : x ≠ m ∧ x ≠ ' ' ∧ x ≠ '\t') :
    hrLook 0 (m :: rest) = false := by
  simp only [hrLook, show ¬ ((0 : Int) ≥ 4) by omega, if_false]
  split
  · rfl
  · rw [hrCount_none hx rest 1 h]

theorem mem_firstLine {x : Char} {l : List Char} (h : x ∈ l) : ∀ w : List Wrapper, x ∈ firstLine w l
  | [] => h
  | y :: ws => List.mem_append_right _ (mem_firstLine h ws)

/-- the thematic-break condition of `item_commutes_gen`, for every bullet wrapper: the marker line is
    not a thematic break (`- - -`, `* * *`, `-     ---`) -/
def HrFree : List Wrapper → List Char → Prop
  | [], _ => True
  | .bullet c :: ws, l => hrLook 0 (c :: ' ' :: firstLine ws l) = false ∧ HrFree ws l
  | _ :: ws, l => HrFree ws l

/-- sufficient: the payload's first line holds a character that is neither blank nor `-`, `*`, `_` -/
theorem hrFree_of_mem {x : Char} {l : List Char} (h : x ∈ l)
    (hx : x ≠ ' ' ∧ x ≠ '\t' ∧ x ≠ '-' ∧ x ≠ '*' ∧ x ≠ '_') : ∀ w : List Wrapper, HrFree w l
  | [] => trivial
  | .quote :: ws => hrFree_of_mem h hx ws
  | .ordered _ _ :: ws => hrFree_of_mem h hx ws
  | .bullet c :: ws => by
    refine ⟨?_, hrFree_of_mem h hx ws⟩
    by_cases hc : c = '*' ∨ c = '-' ∨ c = '_'
    · refine hrLook_false_of_mem (x := x) (List.mem_cons_of_mem _ (mem_firstLine h ws)) ⟨?_, hx.1, hx.2.1⟩
      rcases hc with rfl | rfl | rfl
      · exact hx.2.2.2.1
      · exact hx.2.2.1
      · exact hx.2.2.2.2
    · simp only [hrLook, show ¬ ((0 : Int) ≥ 4) by omega, if_false, hc, not_false_eq_true, if_true]

/-! ## 6. ranges: where the first line's bytes and the end of the source land -/

theorem startOf_length (L : DLines) : startOf L L.length = Lines.byteLen (Lines.flat L) := by
  simp [startOf]

theorem end_of_last (L : DLines) (hn : 0 < L.length) (hlast : (L[L.length - 1]'(by omega)).2 = []) :
    startOf L (L.length - 1) + Lines.byteLen (L[L.length - 1]'(by omega)).1 = Lines.byteLen (Lines.flat L) := by
  have := startOf_succ L (L.length - 1) (by omega)
  rw [hlast, show L.length - 1 + 1 = L.length by omega, startOf_length] at this
  simp at this
  omega

theorem withTerms_last : ∀ (Ls : List (List Char)) (h : 0 < (withTerms Ls).length),
    ((withTerms Ls)[(withTerms Ls).length - 1]'(by omega)).2 = []
  | [], h => by simp [withTerms] at h
  | [x], _ => rfl
  | x :: y :: r, _ => by
    have ih := withTerms_last (y :: r) (by simp [withTerms_length])
    simp only [withTerms, List.length_cons, withTerms_length] at ih ⊢
    simpa using ih

/-- a byte map that moves byte `x` of line `i` to byte `w + x` of line `i` of a document whose lines are
    `w` bytes longer: the bytes of line 0 move by `w`, the end of the source goes to the end of the source -/
theorem reloc_of_spec (σ : Nat → Nat) (L L' : DLines) (w : Nat) (hlen : L'.length = L.length)
    (hspec : ∀ i (h : i < L.length) x, x ≤ Lines.byteLen L[i].1 → σ (startOf L i + x) = startOf L' i + w + x)
    (h2 : ∀ i (h : i < L.length), (L'[i]'(by omega)).2 = L[i].2 ∧ Lines.byteLen (L'[i]'(by omega)).1 = w + Lines.byteLen L[i].1)
    (hn : 0 < L.length) (hlast : (L[L.length - 1]'(by omega)).2 = []) :
    (∀ a, a ≤ Lines.byteLen (L[0]'hn).1 → σ a = a + w) ∧
      σ (Lines.byteLen (Lines.flat L)) = Lines.byteLen (Lines.flat L') := by
  constructor
  · intro a ha
    have := hspec 0 hn a ha
    simp only [startOf_zero, Nat.zero_add] at this
    omega
  · have e1 := end_of_last L hn hlast
    have h2' := h2 (L.length - 1) (by omega)
    have e2 := end_of_last L' (by omega) (by
      have : L'.length - 1 = L.length - 1 := by omega
      simp only [this]; rw [h2'.1]; exact hlast)
    have := hspec (L.length - 1) (by omega) _ (Nat.le_refl _)
    rw [e1] at this
    rw [this, ← e2]
    have e3 : L'.length - 1 = L.length - 1 := by omega
    simp only [e3, h2'.2]
    omega

/-- the lines of a `Good` document -/
theorem Good.linesT {Ls : List (List Char)} (g : Good Ls) : Lines.linesT (docOf Ls) = withTerms Ls :=
  linesT_docOf Ls g.ne g.noTerm g.last

theorem withTerms_getElem_fst : ∀ (Ls : List (List Char)) (i : Nat) (h : i < Ls.length),
    ((withTerms Ls)[i]'(by rw [withTerms_length]; exact h)).1 = Ls[i]
  | [], _, h => by simp at h
  | [x], 0, _ => rfl
  | [x], i + 1, h => by simp at h
  | x :: y :: r, 0, _ => rfl
  | x :: y :: r, i + 1, h => by
    have := withTerms_getElem_fst (y :: r) i (by simpa using h)
    simpa [withTerms] using this

/-- the block quote's byte map on a `Good` document -/
theorem sigma_good {Ls : List (List Char)} (g : Good Ls) (hsize : Lines.byteLen (docOf Ls) + 8 < 2147483648) :
    (∀ a, a ≤ Lines.byteLen (Ls[0]'(List.length_pos_iff.mpr g.ne)) → sigma (Lines.linesT (docOf Ls)) a = a + 2) ∧
      sigma (Lines.linesT (docOf Ls)) (Lines.byteLen (docOf Ls)) = Lines.byteLen (prefixQuote (docOf Ls)) := by
  have hpos : 0 < Ls.length := List.length_pos_iff.mpr g.ne
  have hL := g.linesT
  have hn : 0 < (Lines.linesT (docOf Ls)).length := by rw [hL, withTerms_length]; exact hpos
  have := reloc_of_spec (sigma (Lines.linesT (docOf Ls))) (Lines.linesT (docOf Ls)) (prefixLines (Lines.linesT (docOf Ls))) 2
    (prefixLines_length _)
    (fun i h x hx => sigma_spec (docOf Ls) g.tab hsize h hx)
    (fun i h => by
      rw [prefixLines_getElem _ i h]
      exact ⟨rfl, byteLen_gt_sp _⟩) hn (by
      simp only [hL]; exact withTerms_last Ls (by rw [withTerms_length]; exact hpos))
  rw [Lines.linesT_flat] at this
  refine ⟨fun a ha => this.1 a ?_, this.2⟩
  simp only [hL, withTerms_getElem_fst Ls 0 hpos]
  exact ha

/-- the list item's byte map on a `Good` document -/
theorem tau_good {mk : List Char} (hmk : MkOk mk) {Ls : List (List Char)} (g : Good Ls)
    (hsize : Lines.byteLen (docOf Ls) + 8 < 2147483648) :
    (∀ a, a ≤ Lines.byteLen (Ls[0]'(List.length_pos_iff.mpr g.ne)) →
        tau (mk.length + 1) (Lines.linesT (docOf Ls)) a = a + (mk.length + 1)) ∧
      tau (mk.length + 1) (Lines.linesT (docOf Ls)) (Lines.byteLen (docOf Ls)) = Lines.byteLen (itemDoc mk (docOf Ls)) := by
  have hpos : 0 < Ls.length := List.length_pos_iff.mpr g.ne
  have hL := g.linesT
  have hn : 0 < (Lines.linesT (docOf Ls)).length := by rw [hL, withTerms_length]; exact hpos
  have := reloc_of_spec (tau (mk.length + 1) (Lines.linesT (docOf Ls))) (Lines.linesT (docOf Ls))
    (indentLines (preAt mk) (Lines.linesT (docOf Ls))) (mk.length + 1)
    (indentLines_length _ _)
    (fun i h x hx => tau_spec hmk (docOf Ls) g.tab hsize h hx)
    (fun i h => by
      rw [indentLines_getElem _ _ i h]
      exact ⟨rfl, by simp [(preOk_preAt hmk).bytes]⟩) hn (by
      simp only [hL]; exact withTerms_last Ls (by rw [withTerms_length]; exact hpos))
  rw [Lines.linesT_flat] at this
  refine ⟨fun a ha => this.1 a ?_, this.2⟩
  simp only [hL, withTerms_getElem_fst Ls 0 hpos]
  exact ha

/-- the range `get_map(0, last line)` of a `Good` document: from the first non-blank byte of line 0 to the
    end of the source -/
theorem getMap_whole {Ls : List (List Char)} (g : Good Ls) {r : Nat × Nat}
    (h : Lines.getMap (Lines.splitLines (docOf Ls)) 0 (Ls.length - 1) = .ok r) :
    r = (Lines.byteLen (lead (Ls[0]'(List.length_pos_iff.mpr g.ne))), Lines.byteLen (docOf Ls)) := by
  have hpos : 0 < Ls.length := List.length_pos_iff.mpr g.ne
  have hon : OnDoc Ls (BState.fresh (docOf Ls) .root []) := OnDoc.fresh g.ne g.noTerm g.last .root []
  have hm : (BState.fresh (docOf Ls) .root []).getMap 0 (Ls.length - 1) = .ok r := by
    simp only [BState.getMap, BState.fresh, h]; rfl
  obtain ⟨oa, ob, ha, hb, hr⟩ := getMap_ok hm
  rw [hr, hon.firstNonspace_first hpos ha, hon.lineEnd_last hb, hon.src]

/-! ## 7. the expected block tree -/

/-- the node value of the wrapper's outer node -/
def Wrapper.kind : Wrapper → Kind
  | .quote => .blockquote
  | .bullet c => .bulletList c
  | .ordered ds dl => .orderedList (ordValue ds) dl

/-- the wrapper's nodes around `child`: a block quote, or a list with one item; all over the range `r` -/
def Wrapper.node (x : Wrapper) (r : Nat × Nat) (child : BNode) : BNode :=
  if x.isQuote then ⟨x.kind, some r, [child]⟩ else ⟨x.kind, some r, [⟨.listItem, some r, [child]⟩]⟩

/-- the block tree of the wrapped document: every wrapper node spans from the column where its marker
    stands on line 0 (`off`: the widths of the wrappers outside it) to the end `E` of the source; the
    leaf (kind `k`) starts `s0` bytes behind the innermost prefix -/
def wrapTree (k : Kind) (s0 E : Nat) : List Wrapper → Nat → BNode
  | [], off => ⟨k, some (off + s0, E), []⟩
  | x :: ws, off => x.node (off, E) (wrapTree k s0 E ws (off + x.width))

theorem relocKind_wrapper (σ : Nat → Nat) (x : Wrapper) : relocKind σ x.kind = x.kind := by
  cases x <;> rfl

theorem reloc_wrapTree (σ : Nat → Nat) (d B E E' : Nat) (hσ : ∀ a, a ≤ B → σ a = a + d) (hE : σ E = E')
    (k : Kind) (hk : relocKind σ k = k) (s0 : Nat) : ∀ (ws : List Wrapper) (off : Nat), off + widthAll ws + s0 ≤ B →
    relocNode σ (wrapTree k s0 E ws off) = wrapTree k s0 E' ws (off + d)
  | [], off, h => by
    simp only [widthAll] at h
    simp only [wrapTree, relocNode, relocNodes, hk, Option.map_some, hσ (off + s0) (by omega), hE]
    rw [Nat.add_right_comm]
  | x :: ws, off, h => by
    simp only [widthAll] at h
    have ih := reloc_wrapTree σ d B E E' hσ hE k hk s0 ws (off + x.width) (by omega)
    rw [Nat.add_right_comm] at ih
    simp only [wrapTree, Wrapper.node]
    split <;>
      simp only [relocNode, relocNodes, relocKind_wrapper, Option.map_some, hσ off (by omega), hE, ih,
        (show relocKind σ Kind.listItem = Kind.listItem from rfl)]

theorem wrapTree_kind_ne_paragraph (k : Kind) (hk : k ≠ .paragraph) (s0 E : Nat) (ws : List Wrapper) (off : Nat) :
    (wrapTree k s0 E ws off).kind ≠ .paragraph := by
  cases ws with
  | nil => exact hk
  | cons x ws =>
    simp only [wrapTree, Wrapper.node]
    split <;> (cases x <;> simp [Wrapper.kind])

theorem markTight_single {n : BNode} (h : n.kind ≠ .paragraph) : markTight [n] = [n] := by
  simp [markTight, h]


/-! ## 8. one wrapper around a parsed document -/

/-- what the chain must look like for the wrappers used: the container's rule stands behind rules that
    reject its marker line (`Block.frontOk`, `Li.frontOkL`) -/
structure ChainFor (chain : List RuleId) (w : List Wrapper) : Prop where
  quote : (∃ x ∈ w, x.isQuote = true) →
    .blockquote ∈ chain ∧ ∀ r ∈ chain.takeWhile (· ≠ .blockquote), frontOk r = true
  list : (∃ x ∈ w, x.isQuote = false) →
    .list ∈ chain ∧ ∀ r ∈ chain.takeWhile (· ≠ .list), frontOkL r = true

theorem ChainFor.tail {chain : List RuleId} {x : Wrapper} {ws : List Wrapper} (h : ChainFor chain (x :: ws)) :
    ChainFor chain ws :=
  ⟨fun ⟨y, hy, hq⟩ => h.quote ⟨y, List.mem_cons_of_mem _ hy, hq⟩,
   fun ⟨y, hy, hq⟩ => h.list ⟨y, List.mem_cons_of_mem _ hy, hq⟩⟩

theorem ChainFor.head {chain : List RuleId} {x : Wrapper} {ws : List Wrapper} (h : ChainFor chain (x :: ws)) :
    ChainFor chain [x] :=
  ⟨fun ⟨y, hy, hq⟩ => h.quote ⟨y, by simp at hy; subst hy; simp, hq⟩,
   fun ⟨y, hy, hq⟩ => h.list ⟨y, by simp at hy; subst hy; simp, hq⟩⟩

theorem HrFree.tail {x : Wrapper} {ws : List Wrapper} {l : List Char} (h : HrFree (x :: ws) l) : HrFree ws l := by
  cases x with
  | quote => exact h
  | bullet c => exact h.2
  | ordered ds dl => exact h

/-- what `item_commutes_gen` wants to know of a list marker -/
theorem Wrapper.itemData {x : Wrapper} (hx : x.Ok) (hq : x.isQuote = false) : ∃ mv mc,
    (∀ rest, detectMarker (x.mk ++ ' ' :: rest) = .ok (some (x.mk.length, mv))) ∧
    (∀ rest, markerCharOf (x.mk ++ ' ' :: rest) x.mk.length = .ok mc) ∧
    (∀ c r, x.mk = c :: r → c ≠ '~' ∧ c ≠ '`' ∧ c ≠ '>' ∧ c ≠ '#' ∧ c ≠ '[') ∧
    kindOf mv mc = x.kind := by
  cases x with
  | quote => cases hq
  | bullet c =>
    refine ⟨none, c, detect_bullet hx, markerChar_bullet hx, ?_, rfl⟩
    intro y r hy
    simp [Wrapper.mk] at hy
    obtain ⟨rfl, _⟩ := hy
    rcases hx with rfl | rfl | rfl <;> decide
  | ordered ds dl =>
    refine ⟨some (ordValue ds), dl, detect_ordered hx, markerChar_ordered hx, ?_, rfl⟩
    intro y r hy
    obtain ⟨c0, r0, hc0r⟩ : ∃ c r, ds = c :: r := by
      cases hds : ds with
      | nil => exact absurd hds hx.ne
      | cons c r => exact ⟨c, r, rfl⟩
    have hd0 : isDigit c0 = true := hx.digits c0 (by rw [hc0r]; simp)
    simp only [Wrapper.mk, hc0r, List.cons_append, List.cons.injEq] at hy
    rw [← hy.1]
    have := digit_plain hd0
    exact ⟨this.2.2.2.2.1, this.2.2.2.2.2.1, this.2.2.2.2.2.2.1, this.2.2.2.2.2.2.2.1, this.2.2.2.2.2.2.2.2.1⟩

/-- the marker line of an item is not a thematic break: by `HrFree` for a bullet, always for a number -/
theorem hr_item {x : Wrapper} (hx : x.Ok) (hq : x.isQuote = false) {ws : List Wrapper} {l : List Char}
    (h : HrFree (x :: ws) l) : hrLook 0 (x.mk ++ ' ' :: firstLine ws l) = false := by
  cases x with
  | quote => cases hq
  | bullet c => exact h.1
  | ordered ds dl =>
    obtain ⟨c0, r0, hc0r⟩ : ∃ c r, ds = c :: r := by
      cases hds : ds with
      | nil => exact absurd hds hx.ne
      | cons c r => exact ⟨c, r, rfl⟩
    have hd0 : isDigit c0 = true := hx.digits c0 (by rw [hc0r]; simp)
    simp only [Wrapper.mk, hc0r, List.cons_append, hrLook, show ¬ ((0 : Int) ≥ 4) by omega, if_false]
    simp only [isDigit, Bool.and_eq_true, decide_eq_true_eq] at hd0
    rw [if_pos]
    rintro (rfl | rfl | rfl) <;> revert hd0 <;> decide

theorem wrapLines_cons (x : Wrapper) (l : List Char) (r : List (List Char)) :
    wrapLines x (l :: r) = (x.pre 0 ++ l) :: r.mapIdx (fun i l => x.pre (i + 1) ++ l) := by
  simp [wrapLines, List.mapIdx_cons]

theorem cfg_nest (cfg : Cfg) (a b : Nat) :
    ({ ({ cfg with maxNesting := cfg.maxNesting + a } : Cfg) with
        maxNesting := ({ cfg with maxNesting := cfg.maxNesting + a } : Cfg).maxNesting + b } : Cfg) =
      { cfg with maxNesting := cfg.maxNesting + (a + b) } := by
  simp [Nat.add_assoc]

/-- **one wrapper.**  `l' :: r'` a `Good` document whose block parse is `Root[wrapTree ws]` (a chain of
    single-child containers around a childless leaf), its first line not blank, indented by 0 or ≥ 4
    columns and at least as long as the prefixes of `ws` plus `s0`: the wrapped document parses, with
    `x.cost` more levels allowed, to `Root[wrapTree (x :: ws)]`. -/
theorem parseBlocks_wrap1 (cfg : Cfg) (hmn : 0 < cfg.maxNesting) (k : Kind) (hk1 : k ≠ .paragraph)
    (hk2 : ∀ σ, relocKind σ k = k) (s0 : Nat) (ws : List Wrapper)
    (l' : List Char) (r' : List (List Char)) (g : Good (l' :: r')) (hf : FirstLineOk l')
    (hB : widthAll ws + s0 ≤ Lines.byteLen l')
    (x : Wrapper) (hx : x.Ok) (hch : ChainFor cfg.chain [x])
    (hhr : .hr ∈ cfg.chain.takeWhile (· ≠ .list) → x.isQuote = false → hrLook 0 (x.mk ++ ' ' :: l') = false)
    (hsize : Lines.byteLen (docOf (l' :: r')) + 20 < 2147483648)
    (ih : parseBlocks cfg (docOf (l' :: r')) =
      .ok (⟨.root, some (0, Lines.byteLen (docOf (l' :: r'))),
            [wrapTree k s0 (Lines.byteLen (docOf (l' :: r'))) ws 0]⟩, [])) :
    parseBlocks { cfg with maxNesting := cfg.maxNesting + x.cost } (docOf (wrapLines x (l' :: r'))) =
      .ok (⟨.root, some (0, Lines.byteLen (docOf (wrapLines x (l' :: r')))),
            [wrapTree k s0 (Lines.byteLen (docOf (wrapLines x (l' :: r')))) (x :: ws) 0]⟩, []) := by
  have hwrap := wrap1_docOf hx g.ne g.noTerm g.last
  have g2 := g.wrap hx
  have hn : (Lines.linesT (docOf (l' :: r'))).length = r'.length + 1 := by
    rw [g.linesT, withTerms_length]; rfl
  have hcons := wrapLines_cons x l' r'
  obtain ⟨c0, p0, hp0, hc0⟩ := (Wrapper.preFacts hx).head
  have hlead : lead (x.pre 0 ++ l') = [] := by
    rw [hp0]; exact (lead_nonblank_cons _ hc0).1
  by_cases hq : x.isQuote = true
  · -- block quote
    have hxq : x = .quote := by cases x <;> simp [Wrapper.isQuote] at hq ⊢
    subst hxq
    obtain ⟨hmem, hpre⟩ := hch.quote ⟨.quote, by simp, rfl⟩
    obtain ⟨rr, hrr, hp⟩ := quote_commutes cfg (docOf (l' :: r')) g.tab (by omega) _ _
      (MdIt.Pipeline.split_at_first .blockquote _ hmem) hpre ih
    have hwrap' : prefixQuote (docOf (l' :: r')) = docOf (wrapLines .quote (l' :: r')) := hwrap
    rw [hwrap', hn] at hrr
    rw [hwrap'] at hp
    obtain ⟨hσ, hE⟩ := sigma_good g (by omega)
    rw [hwrap'] at hE
    have hrel := reloc_wrapTree _ 2 _ _ _ hσ hE k (hk2 _) s0 ws 0 (by simpa using hB)
    -- the range of the quote
    have hrng : rr = (0, Lines.byteLen (docOf (wrapLines .quote (l' :: r')))) := by
      revert hrr g2
      rw [hcons]
      intro g2 hrr
      have := getMap_whole g2 (by simpa using hrr)
      simpa [hlead] using this
    subst hrng
    rw [show Wrapper.quote.cost = 1 from rfl, hp]
    simp only [relocNodes, hrel, wrapTree, Wrapper.node, Wrapper.isQuote, if_true, Wrapper.kind, Wrapper.width, Wrapper.mk,
      List.length_cons, List.length_nil, Nat.zero_add]
  · -- list item
    have hq' : x.isQuote = false := by simpa using hq
    have hmk := Wrapper.mkOk hx hq'
    obtain ⟨mv, mc, hdet, hmc, hch0, hkind⟩ := Wrapper.itemData hx hq'
    obtain ⟨hmem, hpre⟩ := hch.list ⟨x, by simp, hq'⟩
    have hwl := width_le x hx
    have hw1 : wrap1 x (docOf (l' :: r')) = itemDoc x.mk (docOf (l' :: r')) := by
      cases x with
      | quote => cases hq'
      | bullet c => rfl
      | ordered ds dl => rfl
    obtain ⟨t, rest, hwt⟩ := withTerms_cons l' r'
    have hLT : Lines.linesT (docOf (l' :: r')) = (l', t) :: rest := by rw [g.linesT, hwt]
    obtain ⟨tg, rr, hrr, hp⟩ := item_commutes_gen_parse cfg hmk hdet hmc hch0 (docOf (l' :: r')) g.tab
      (by simp only [Wrapper.width] at hwl; omega) ⟨l', t, rest, hLT, hf.1, hf.2⟩ hmn _ _
      (MdIt.Pipeline.split_at_first .list _ hmem) hpre
      (fun hin l0 t0 rest0 h0 => by
        rw [hLT] at h0
        simp only [List.cons.injEq, Prod.mk.injEq] at h0
        rw [← h0.1.1]
        exact hhr hin hq') ih
    have hwrap' : itemDoc x.mk (docOf (l' :: r')) = docOf (wrapLines x (l' :: r')) := by rw [← hw1]; exact hwrap
    rw [hwrap', hn] at hrr
    rw [hwrap'] at hp
    obtain ⟨hσ, hE⟩ := tau_good hmk g (by omega)
    rw [hwrap'] at hE
    have hrel := reloc_wrapTree _ (x.mk.length + 1) _ _ _ hσ hE k (hk2 _) s0 ws 0 (by simpa using hB)
    have hrng : rr = (0, Lines.byteLen (docOf (wrapLines x (l' :: r')))) := by
      revert hrr g2
      rw [hcons]
      intro g2 hrr
      have := getMap_whole g2 (by simpa using hrr)
      simpa [hlead] using this
    subst hrng
    have hcost : x.cost = 2 := by
      cases x with
      | quote => cases hq'
      | bullet c => rfl
      | ordered ds dl => rfl
    have hmt : markTight [wrapTree k s0 (Lines.byteLen (docOf (wrapLines x (l' :: r')))) ws (0 + (x.mk.length + 1))]
        = [wrapTree k s0 (Lines.byteLen (docOf (wrapLines x (l' :: r')))) ws (0 + (x.mk.length + 1))] :=
      markTight_single (wrapTree_kind_ne_paragraph k hk1 _ _ _ _)
    rw [hcost, hp]
    simp only [relocNodes, hrel, hmt, ite_self, wrapTree, Wrapper.node, hq', hkind, Wrapper.width, Bool.false_eq_true, if_false]


/-! ## 9. any list of wrappers -/

theorem byteLen_wrapLines_ge {x : Wrapper} (hx : x.Ok) {Ls : List (List Char)} (g : Good Ls) :
    Lines.byteLen (docOf Ls) ≤ Lines.byteLen (docOf (wrapLines x Ls)) := by
  rw [← wrap1_docOf hx g.ne g.noTerm g.last]
  exact byteLen_wrap1_ge hx _

/-- **the block pass on a wrapped document.**  `l :: r` a `Good` document (tab-free, terminator-free
    lines, the last one not empty) which the block parser turns into `Root[leaf]`, `leaf` a childless
    node of kind `k` (not a paragraph, no mapping: a code block, a fence, a thematic break …) from byte
    `s0` of line 0 to the end of the source, the first line not blank and indented by 0 or ≥ 4 columns.
    For every list `w` of wrappers the list rule / block-quote rule recognise, with the chain condition
    of C06 for the wrappers used and the thematic-break condition for the bullets, below 2 GiB, with
    `depthCost w` more levels of nesting allowed, the wrapped document parses to `Root[wrapTree w]`:
    one node per block quote, two (list, item) per list wrapper, each with exactly one child, each from
    its marker's column on line 0 to the end of the source, around the SAME leaf (same kind, same payload)
    which now starts behind all the prefixes. -/
theorem parseBlocks_nested (cfg : Cfg) (hmn : 0 < cfg.maxNesting) (k : Kind) (hk1 : k ≠ .paragraph)
    (hk2 : ∀ σ, relocKind σ k = k) (s0 : Nat)
    (l : List Char) (r : List (List Char)) (g : Good (l :: r)) (hf : FirstLineOk l) (hs0 : s0 ≤ Lines.byteLen l)
    (hbase : parseBlocks cfg (docOf (l :: r)) =
      .ok (⟨.root, some (0, Lines.byteLen (docOf (l :: r))), [⟨k, some (s0, Lines.byteLen (docOf (l :: r))), []⟩]⟩, [])) :
    ∀ (w : List Wrapper), (∀ x ∈ w, x.Ok) → ChainFor cfg.chain w →
      (.hr ∈ cfg.chain.takeWhile (· ≠ .list) → HrFree w l) →
      Lines.byteLen (docOf (wrapAllLines w (l :: r))) + 20 < 2147483648 →
      parseBlocks { cfg with maxNesting := cfg.maxNesting + depthCost w } (docOf (wrapAllLines w (l :: r))) =
        .ok (⟨.root, some (0, Lines.byteLen (docOf (wrapAllLines w (l :: r)))),
              [wrapTree k s0 (Lines.byteLen (docOf (wrapAllLines w (l :: r)))) w 0]⟩, [])
  | [], _, _, _, _ => by
    simp only [wrapAllLines, depthCost, wrapTree, Nat.zero_add]
    exact hbase
  | x :: ws, hw, hch, hhr, hsize => by
    have hws : ∀ y ∈ ws, y.Ok := fun y hy => hw y (List.mem_cons_of_mem _ hy)
    have hx : x.Ok := hw x (by simp)
    have g' := Good.wrapAll hws g
    have hsz' : Lines.byteLen (docOf (wrapAllLines ws (l :: r))) + 20 < 2147483648 := by
      have := byteLen_wrapLines_ge hx g'
      simp only [wrapAllLines] at hsize
      omega
    have ih := parseBlocks_nested cfg hmn k hk1 hk2 s0 l r g hf hs0 hbase ws hws hch.tail (fun h => (hhr h).tail) hsz'
    obtain ⟨r', hr', _⟩ := wrapAllLines_cons ws l r
    simp only [wrapAllLines]
    rw [hr'] at g' ih hsz' ⊢
    have hf' : FirstLineOk (firstLine ws l) := by
      cases ws with
      | nil => exact hf
      | cons y ws' =>
        have := firstLine_head (hws y (by simp)) ws' l
        exact ⟨this.2, .inl (by rw [this.1]; rfl)⟩
    have := parseBlocks_wrap1 { cfg with maxNesting := cfg.maxNesting + depthCost ws } (Nat.lt_of_lt_of_le hmn (Nat.le_add_right _ _))
      k hk1 hk2 s0 ws (firstLine ws l) r' g' hf' (by rw [byteLen_firstLine hws]; omega) x hx hch.head
      (fun hin hq => hr_item hx hq (hhr hin)) hsz' ih
    rw [cfg_nest] at this
    exact this

end MdIt.C11N
