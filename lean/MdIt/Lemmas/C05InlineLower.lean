/-
  C05, inline half, item (1), the LOWER bound: positions at or behind the cursor `trim_src` sets are
  translated by the `get_lines` table to source offsets at or behind `first_nonspace` of the first
  line — provided the columns `get_lines` keeps of that line beyond `blk_indent` are blanks
  (`KeptBlank`; an invariant of the block parser, `Lemmas/C05InlineGeo.lean`).

  Also here: `calcRightWs` is antitone in the number of columns asked for (`cut_mono`), what is kept
  when asking for at most the width of a trailing blank run is part of that run (`kept_of_run`).
-/
import MdIt.Lemmas.C05InlineTables

namespace MdIt.C05I
open MdIt.Lines
open MdIt.InlineOps (getSourcePosFor Srcmap)

/-! ## strings -/

theorem app_prefix : ∀ (a b c d : List Char), a ++ b = c ++ d → byteLen a ≤ byteLen c →
    ∃ w, c = a ++ w ∧ b = w ++ d
  | [], b, c, d, h, _ => ⟨c, rfl, by simpa using h⟩
  | x :: a, b, [], d, _, hl => by
    have := Char.utf8Size_pos x
    simp only [byteLen_cons, byteLen_nil] at hl; omega
  | x :: a, b, y :: c, d, h, hl => by
    simp only [List.cons_append, List.cons.injEq] at h
    obtain ⟨rfl, h⟩ := h
    simp only [byteLen_cons] at hl
    obtain ⟨w, h1, h2⟩ := app_prefix a b c d h (by omega)
    exact ⟨w, by rw [h1]; simp, h2⟩

theorem allBlank_len {l : List Char} (h : AllBlank l) : byteLen l = l.length := by
  induction l with
  | nil => rfl
  | cons c r ih =>
    have hc : c.utf8Size = 1 := by
      rcases h c (by simp) with rfl | rfl <;> decide
    simp only [byteLen_cons, List.length_cons, hc, ih (fun x hx => h x (List.mem_cons_of_mem _ hx))]
    omega

/-! ## `calc_right_whitespace_with_tabstops` -/

theorem calcGo_snd_le (k : Int) (start : Nat) (l : List Char) (h : byteLen l ≤ start) :
    (calcGo k start l).2 ≤ start := by
  induction l generalizing k start with
  | nil => simp only [calcGo]; split <;> simp
  | cons c r ih =>
    simp only [byteLen_cons] at h
    simp only [calcGo]
    split
    · split
      · split
        · exact Nat.le_refl _
        · exact Nat.le_trans (ih _ _ (Nat.le_refl _)) (by omega)
      · exact Nat.le_trans (ih _ _ (Nat.le_refl _)) (by omega)
    · exact Nat.le_refl _

/-- asking for fewer columns cuts further right -/
theorem calcGo_mono (k k' : Int) (hk : k' ≤ k) (start : Nat) (l : List Char) (h : byteLen l ≤ start) :
    (calcGo k start l).2 ≤ (calcGo k' start l).2 := by
  induction l generalizing k k' start with
  | nil =>
    simp only [calcGo]
    split <;> split <;> simp <;> omega
  | cons c r ih =>
    simp only [byteLen_cons] at h
    by_cases hk' : k' > 0
    · have hk0 : k > 0 := by omega
      simp only [calcGo, hk', hk0, if_true]
      split
      · split
        · rw [if_pos (by omega)]; exact Nat.le_refl _
        · split
          · exact Nat.le_trans (calcGo_snd_le _ _ _ (Nat.le_refl _)) (by omega)
          · exact ih _ _ (by omega) _ (Nat.le_refl _)
      · exact ih _ _ (by omega) _ (Nat.le_refl _)
    · have : (calcGo k' start (c :: r)).2 = start := by simp only [calcGo, if_neg hk']
      rw [this]
      exact calcGo_snd_le _ _ _ (by simp only [byteLen_cons]; omega)

theorem cut_mono (ws : List Char) (k k' : Int) (hk : k' ≤ k) :
    (calcRightWs ws k).2 ≤ (calcRightWs ws k').2 := by
  unfold calcRightWs
  exact calcGo_mono k k' hk _ _ (by simp)

/-- what `get_lines` keeps of the blanks `ws` when asked for `k` columns -/
theorem kept_spec (ws : List Char) (k : Int) :
    ∃ w0, ws = w0 ++ dropB ws (calcRightWs ws k).2 ∧ byteLen w0 = (calcRightWs ws k).2 := by
  obtain ⟨w0, w', hww, hb⟩ := calc_right_bounds ws k
  have hd : dropB ws (calcRightWs ws k).2 = w' := by
    apply dropB_of_dropBytes
    rw [← hb]; conv => lhs; rw [hww]
    exact dropBytes_append w0 w'
  exact ⟨w0, by rw [hd]; exact hww, hb⟩

theorem kept_mono (ws : List Char) (k k' : Int) (hk : k' ≤ k) :
    dropB ws (calcRightWs ws k').2 <:+ dropB ws (calcRightWs ws k).2 := by
  obtain ⟨w0, h0, l0⟩ := kept_spec ws k
  obtain ⟨w1, h1, l1⟩ := kept_spec ws k'
  have := cut_mono ws k k' hk
  obtain ⟨w, _, e2⟩ := app_prefix w0 _ w1 _ (h0.symm.trans h1) (by omega)
  exact ⟨w, e2.symm⟩

/-- asked for at most the columns of the trailing run, `get_lines` keeps part of the run -/
theorem kept_of_run (p run : List Char) (x : Int)
    (hx : x ≤ (indentWidth (p ++ run) : Int) - (indentWidth p : Int)) :
    dropB (p ++ run) (calcRightWs (p ++ run) x).2 <:+ run := by
  obtain ⟨w0, h0, l0⟩ := kept_spec (p ++ run) x
  have := calcRightWs_ge p run x hx
  obtain ⟨w, _, e2⟩ := app_prefix p run w0 _ h0 (by omega)
  exact ⟨w, e2.symm⟩

theorem AllBlank.suffix {a b : List Char} (h : AllBlank b) (hs : a <:+ b) : AllBlank a :=
  fun c hc => h c (hs.subset hc)

/-! ## the columns kept beyond `blk_indent` are blanks -/

/-- of line `o`, `get_lines(.., indent, ..)` keeps blanks only -/
def KeptBlank (src : List Char) (indent : Nat) (o : LineOffset) : Prop :=
  ∀ ws, slice src o.lineStart o.firstNonspace = .ok ws →
    AllBlank (dropB ws (calcRightWs ws (o.indentNonspace - usizeAsI32 indent)).2)

/-- nothing is kept of a line that is not indented beyond `indent` -/
theorem keptBlank_of_le {src : List Char} {indent : Nat} {o : LineOffset}
    (h : o.indentNonspace - usizeAsI32 indent ≤ 0) : KeptBlank src indent o := by
  intro ws _
  have : (calcRightWs ws (o.indentNonspace - usizeAsI32 indent)).2 = byteLen ws := by
    unfold calcRightWs
    cases hr : ws.reverse with
    | nil => simp only [calcGo]; rw [if_neg (by omega)]
    | cons c r => simp only [calcGo]; rw [if_neg (by omega)]
  obtain ⟨w0, h0, l0⟩ := kept_spec ws (o.indentNonspace - usizeAsI32 indent)
  rw [this] at l0
  have hl := congrArg byteLen h0
  simp only [byteLen_append] at hl
  have : dropB ws (calcRightWs ws (o.indentNonspace - usizeAsI32 indent)).2 = [] :=
    byteLen_eq_zero (by omega)
  rw [this]
  intro c hc; simp at hc

theorem KeptBlank.mono {src : List Char} {i i' : Nat} {o : LineOffset} (h : KeptBlank src i o)
    (hi : usizeAsI32 i ≤ usizeAsI32 i') : KeptBlank src i' o :=
  fun ws hws => AllBlank.suffix (h ws hws) (kept_mono ws _ _ (by omega))

/-! ## `trim_src` -/

open MdIt.Inline (trimSrc isSpTab) in
/-- `trim_src`'s start is the number of ALL leading blanks when there is something between the two
    cursors -/
theorem trimSrc_front (c : List Char) (B tail : List Char) (hc : c = B ++ tail)
    (hB : ∀ x ∈ B, isSpTab x = true) (hlt : (trimSrc c).1 < (trimSrc c).2) :
    B.length ≤ (trimSrc c).1 := by
  -- the model's own decomposition
  let rest0 := ((c.reverse.dropWhile isSpTab).drop 1).reverse
  let lastc := ((c.reverse.dropWhile isSpTab).take 1).reverse
  let back := (c.reverse.takeWhile isSpTab).reverse
  have hrev : c = (c.reverse.dropWhile isSpTab).reverse ++ back := by
    show c = _ ++ (c.reverse.takeWhile isSpTab).reverse
    rw [← List.reverse_append, List.takeWhile_append_dropWhile, List.reverse_reverse]
  have hmid : (c.reverse.dropWhile isSpTab).reverse = rest0 ++ lastc := by
    show _ = ((c.reverse.dropWhile isSpTab).drop 1).reverse ++ ((c.reverse.dropWhile isSpTab).take 1).reverse
    rw [← List.reverse_append, List.take_append_drop]
  have hfront : (trimSrc c).1 = (rest0.takeWhile isSpTab).length := rfl
  have hend : (trimSrc c).2 = InlineOps.byteLen c - back.length := by
    show _ = InlineOps.byteLen c - (c.reverse.takeWhile isSpTab).reverse.length
    unfold trimSrc; simp
  -- `c = front ++ mid' ++ back` where `mid'` does not start with a blank
  have hsplit : c = rest0.takeWhile isSpTab ++ (rest0.dropWhile isSpTab ++ lastc) ++ back := by
    conv => lhs; rw [hrev, hmid]
    have := List.takeWhile_append_dropWhile (p := isSpTab) (l := rest0)
    rw [← List.append_assoc (rest0.takeWhile isSpTab), this]
  have hbackB : ∀ x ∈ back, isSpTab x = true := fun x hx =>
    mem_takeWhile_imp (List.mem_reverse.mp hx)
  -- the middle is not empty
  have hmidne : rest0.dropWhile isSpTab ++ lastc ≠ [] := by
    intro he
    rw [he] at hsplit
    have hl := congrArg InlineOps.byteLen hsplit
    simp only [List.append_nil, C05.byteLen_append] at hl
    have h1 := Inline.byteLen_ascii _ (fun x hx => Inline.isSpTab_size (hbackB x hx))
    have h2 := Inline.byteLen_ascii (rest0.takeWhile isSpTab)
      (fun x hx => Inline.isSpTab_size (mem_takeWhile_imp hx))
    omega
  -- its head is not a blank
  obtain ⟨x, tl, hx, hnb⟩ : ∃ x tl, rest0.dropWhile isSpTab ++ lastc = x :: tl ∧ isSpTab x = false := by
    cases hd : rest0.dropWhile isSpTab with
    | cons y r => exact ⟨y, r ++ lastc, by simp, head_dropWhile hd⟩
    | nil =>
      rw [hd] at hmidne
      simp only [List.nil_append] at hmidne ⊢
      cases hdw : c.reverse.dropWhile isSpTab with
      | nil => exact absurd (by show ((c.reverse.dropWhile isSpTab).take 1).reverse = []; rw [hdw]; rfl) hmidne
      | cons z r =>
        refine ⟨z, [], ?_, head_dropWhile hdw⟩
        show ((c.reverse.dropWhile isSpTab).take 1).reverse = [z]
        rw [hdw]; rfl
  rw [hfront]
  -- compare the two decompositions
  have he : B ++ tail = rest0.takeWhile isSpTab ++ (x :: (tl ++ back)) := by
    rw [← hc]; conv => lhs; rw [hsplit, hx]
    simp [List.append_assoc]
  rcases List.append_eq_append_iff.mp he with ⟨a', h1, _⟩ | ⟨c', h1, h2⟩
  · rw [h1]; simp
  · cases c' with
    | nil => simp at h1; rw [h1]; exact Nat.le_refl _
    | cons y r =>
      simp only [List.cons_append, List.cons.injEq] at h2
      have : isSpTab x = true := hB x (by rw [h1, ← h2.1]; simp)
      rw [hnb] at this; cases this

/-! ## the lower bound -/

theorem mapOf_vals_ge (indent lo : Nat) :
    ∀ (ovs : List (LineOffset × (List Char × List Char × Int))) (p : Nat),
      (∀ ov ∈ ovs, lo ≤ ov.1.lineStart) → ∀ e ∈ mapOf indent p ovs, lo ≤ e.2 := by
  intro ovs
  induction ovs with
  | nil => intro p _ e he; simp [mapOf] at he
  | cons ov r ih =>
    intro p h e he
    obtain ⟨o, v⟩ := ov
    have ho := h (o, v) (by simp)
    simp only at ho
    simp only [mapOf, List.cons_append, List.mem_cons, List.mem_append] at he
    rcases he with rfl | he | he
    · simp only; omega
    · split at he
      · simp only [List.mem_cons, List.not_mem_nil, or_false] at he
        subst he; simp only; omega
      · simp at he
    · exact ih _ (fun ov hov => h ov (List.mem_cons_of_mem _ hov)) e he

open MdIt.Inline (trimSrc isSpTab) in
/-- **the lower bound**: behind `trim_src`'s start nothing is translated to the left of
    `first_nonspace` of the first line, when that line keeps blanks only -/
theorem getLines_lower {src : List Char} {offs : List LineOffset}
    (hT : ∀ (k : Nat) (o : LineOffset), offs[k]? = some o → Block.LineOk src o)
    (hord : OrderD 0 offs) {b e indent : Nat} {c : List Char} {m : Srcmap} (hbe : b < e)
    (h : getLines src offs b e indent false = .ok (c, m)) {ob : LineOffset} (hob : offs[b]? = some ob)
    (hkept : KeptBlank src indent ob) (hlt : (trimSrc c).1 < (trimSrc c).2) :
    ∀ pos x, (trimSrc c).1 ≤ pos → getSourcePosFor m pos = .ok x → ob.firstNonspace ≤ x := by
  have hlen : e ≤ offs.length := by
    unfold getLines at h
    rw [if_neg (by omega)] at h
    exact getLinesGo_ok_len h hbe
  obtain ⟨oe, hoe⟩ : ∃ oe, offs[e - 1]? = some oe := ⟨_, List.getElem?_eq_getElem (by omega)⟩
  have hw := (getLines_table hT hord hbe h hoe).1
  obtain ⟨ovs, hvl, hvs⟩ := ovs_of_tableOk hT (e - b) b (by omega)
  obtain ⟨content, hget, hcontent, _⟩ := get_lines_faithful src offs b indent false ovs hvs
  rw [hvl, show b + (e - b) = e by omega, h] at hget
  simp only [Except.ok.injEq, Prod.mk.injEq] at hget
  obtain ⟨rfl, rfl⟩ := hget
  cases ovs with
  | nil => simp at hvl; omega
  | cons ov rest =>
    obtain ⟨o, v⟩ := ov
    obtain ⟨ho, hsh⟩ := hvs 0 (by simp)
    simp only [Nat.add_zero, List.getElem_cons_zero] at ho hsh
    rw [hob] at ho
    cases ho
    have hi : ob.indentNonspace = v.2.2 := hsh.2.2
    have hk := hkept v.1 hsh.1
    rw [hi] at hk
    obtain ⟨w0, h0, l0⟩ := kept_spec v.1 (v.2.2 - usizeAsI32 indent)
    obtain ⟨_, _, _, hp, hq⟩ := slice_eq_ok_iff.mp hsh.1
    have hbnd := (hT _ _ hob).bounds
    generalize hcc : calcRightWs v.1 (v.2.2 - usizeAsI32 indent) = cc at *
    generalize hkk : dropB v.1 cc.2 = kept at *
    have hl0 : byteLen v.1 = byteLen w0 + byteLen kept := by
      conv => lhs; rw [h0]
      simp
    have hkl := allBlank_len hk
    -- the content starts with the virtual spaces and the kept blanks
    obtain ⟨tail, htail⟩ : ∃ tail, c = (List.replicate cc.1 ' ' ++ kept) ++ tail := by
      rw [hcontent]
      cases rest with
      | nil => exact ⟨v.2.1, by simp [joinLines, viewPiece, hcc, hkk]⟩
      | cons ov2 r2 => exact ⟨v.2.1 ++ '\n' :: joinLines false ((ov2 :: r2).map fun ov => viewPiece indent ov.2),
          by simp [joinLines, viewPiece, hcc, hkk]⟩
    have hB : ∀ x ∈ List.replicate cc.1 ' ' ++ kept, isSpTab x = true := by
      intro x hx
      simp only [List.mem_append, List.mem_replicate] at hx
      rcases hx with ⟨_, rfl⟩ | hx
      · decide
      · rcases hk x hx with rfl | rfl <;> decide
    have hfront := trimSrc_front c _ tail htail hB hlt
    simp only [List.length_append, List.length_replicate] at hfront
    intro pos x hpos hx
    -- every entry: the affine value of `pos` in its segment, and (for an entry behind `pos`: the
    -- clamp of `get_source_pos_for`) its own source offset, are at or after `first_nonspace`
    have hent : ∀ k v', (k, v') ∈ mapOf indent 0 ((ob, v) :: rest) →
        (k ≤ pos → ob.firstNonspace ≤ v' + (pos - k)) ∧ (pos < k → ob.firstNonspace ≤ v') := by
      intro k v' hmem
      simp only [mapOf, hcc, List.cons_append, List.mem_cons, List.mem_append] at hmem
      rcases hmem with he | he | he
      · simp only [Prod.mk.injEq] at he
        obtain ⟨rfl, rfl⟩ := he
        constructor <;> intro _ <;> omega
      · split at he
        · simp only [List.mem_cons, List.not_mem_nil, or_false, Prod.mk.injEq] at he
          obtain ⟨rfl, rfl⟩ := he
          constructor <;> intro _ <;> omega
        · simp at he
      · have := mapOf_vals_ge indent ob.lineEnd rest _ (by
          intro ov hov
          obtain ⟨j, hj, rfl⟩ := List.getElem_of_mem hov
          have := (hvs (j + 1) (by simp; omega)).1
          simp only [List.getElem_cons_succ] at this
          have := hord b (b + (j + 1)) _ _ (by omega) hob this
          omega) _ he
        simp only at this
        constructor <;> intro _ <;> omega
    obtain ⟨i, k, v', h1, h2, h3, h4⟩ := C05.lineOf_spec _ hw pos
    rw [C05.getSourcePosFor_of_line_clamp _ pos i k v' h1 h2 h3] at hx
    simp only [Except.ok.injEq] at hx
    subst hx
    apply C05.clampNext_ge _ _ _ _ ((hent k v' (List.mem_of_getElem? h2)).1 h3)
    intro k2 v2 hn
    exact (hent k2 v2 (List.mem_of_getElem? hn)).2 (h4 (i + 1) k2 v2 (by omega) hn)

end MdIt.C05I
