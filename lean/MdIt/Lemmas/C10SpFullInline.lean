/-
  C10 with the sourcepos plugin, full version — the EXACT lock-step simulation of the inline parser under
  two per-line tables, final part: from the internal relation (`XS.LRel K true`, Lemmas/C10SpFullInlineBase /
  Emph / Link) to the interface relation `C10SP.XL` (Lemmas/C10SpFullDefs.lean), and the theorem

      C10SP.parseInline_exact :
        MapOK c m₁ → MapOK c m₂ → MLe m₁ m₂ → AsciiMarkers cfg.chain → parseInline cfg c m₁ = .ok ns₁ →
          ∃ ns₂, parseInline cfg c m₂ = .ok ns₂ ∧ XL c m₁ m₂ ns₁ ns₂

  (side 2 does not panic; same shape and values; every attribute-rendering node — `CodeInline`,
  `Em` / `Strong` / `Strikethrough`, `Link`, `Image`, `Autolink` — has on both sides the translation of
  ONE stretch `[p, q]` of the inline text, `p ≤ q ≤ |c|`, a character other than LF starting at `p`).

  The internal relation records `p`, `q`, the four translations and the start character only
  (`XS.Span`); `p ≤ q` and `q ≤ |c|` come from the SINGLE-run range theorem `parseInline_ranges_exact`
  (ranges ordered and nested inside `[tr pos₀, tr posMax]`) through strict monotonicity of the
  translation under `MonoMap` (`translate_expand`).  In particular the order "opener before closer" of
  the emphasis matcher needs no extra invariant in the simulation.
-/
import MdIt.Lemmas.C10SpFullInlineLink
import MdIt.Lemmas.C05RestDefs

namespace MdIt.Inline.XS
open MdIt.InlineOps (Srcmap getSourcePosFor getMap byteLen slice)
open MdIt.Pipeline (MLe)
open MdIt.C10SP (CharNotLf SameSpan attrVal XN XL)
set_option linter.unusedVariables false

theorem span_of_attr {K : Ctx} {v : Val} {r₁ r₂ : Option (Nat × Nat)} (ha : attrVal v = true)
    (h : Extra K v r₁ r₂) : Span K r₁ r₂ := by
  cases v <;> first | exact h | (simp [attrVal] at ha)

/-- an (ordered) range below the translation of `P` gives `p ≤ q ≤ P` for the inline stretch -/
theorem sameSpan_of_span {K : Ctx} {x y hi P : Nat} {r₂ : Option (Nat × Nat)}
    (hP : getSourcePosFor K.m₁ P = .ok hi) (hPc : P ≤ byteLen K.c) (hxy : x ≤ y) (hy : y ≤ hi)
    (h : Span K (some (x, y)) r₂) : SameSpan K.c K.m₁ K.m₂ (some (x, y)) r₂ := by
  obtain ⟨p, q, a₁, b₁, a₂, b₂, e₁, e₂, hc, h1, h2, h3, h4⟩ := h
  simp only [Option.some.injEq, Prod.mk.injEq] at e₁
  obtain ⟨rfl, rfl⟩ := e₁
  have hpq : p ≤ q := by
    rcases Nat.lt_or_ge q p with hlt | hge
    · have := translate_expand K.m₁ K.ok₁.wf K.ok₁.mono q p (by omega) _ _ h2 h1
      omega
    · exact hge
  have hqP : q ≤ P := by
    rcases Nat.lt_or_ge P q with hlt | hge
    · have := translate_expand K.m₁ K.ok₁.wf K.ok₁.mono P q (by omega) _ _ hP h2
      omega
    · exact hge
  exact ⟨p, q, x, y, a₂, b₂, rfl, e₂, hpq, by omega, hc, h1, h2, h3, h4⟩

mutual
theorem XN_of (K : Ctx) {hi P : Nat} (hP : getSourcePosFor K.m₁ P = .ok hi) (hPc : P ≤ byteLen K.c) :
    ∀ (a b : Node), NRel K true a b → WellRanged a → (∀ x y, a.range = some (x, y) → y ≤ hi) →
      XN K.c K.m₁ K.m₂ a b
  | ⟨v₁, r₁, cs₁⟩, ⟨v₂, r₂, cs₂⟩, h, hw, hb => by
    simp only [NRel] at h
    obtain ⟨rfl, hr, hx, hc⟩ := h
    simp only [WellRanged] at hw
    obtain ⟨⟨x, y, rfl, hxy, hord⟩, hwl⟩ := hw
    have hy := hb x y rfl
    simp only [XN]
    refine ⟨trivial, fun ha => ?_, XL_of K hP hPc x cs₁ cs₂ hc hwl (hord.widen (Nat.le_refl _) hy)⟩
    exact sameSpan_of_span hP hPc hxy hy (span_of_attr ha (hx rfl))
theorem XL_of (K : Ctx) {hi P : Nat} (hP : getSourcePosFor K.m₁ P = .ok hi) (hPc : P ≤ byteLen K.c) :
    ∀ (lo : Nat) (l₁ l₂ : List Node), LRel K true l₁ l₂ → WellRangedList l₁ → OrderedN lo hi l₁ →
      XL K.c K.m₁ K.m₂ l₁ l₂
  | lo, [], [], _, _, _ => by simp only [XL]
  | lo, [], _ :: _, h, _, _ => absurd h (LRel_nil_cons _ _ _)
  | lo, _ :: _, [], h, _, _ => absurd h (LRel_cons_nil _ _ _)
  | lo, a :: as, b :: bs, h, hw, ho => by
    rw [LRel_cons_cons] at h
    obtain ⟨x, y, hr, h1, h2, h3⟩ := ho
    simp only [XL]
    exact ⟨XN_of K hP hPc a b h.1 hw.1 (fun x' y' e => by
        rw [hr] at e; simp only [Option.some.injEq, Prod.mk.injEq] at e; obtain ⟨_, rfl⟩ := e; exact h3.le),
      XL_of K hP hPc y as bs h.2 hw.2 h3⟩
end

end MdIt.Inline.XS

namespace MdIt.C10SP
open MdIt.Inline.XS
open MdIt.Inline

/-- **the exact inline simulation.**  Two per-line tables for the same inline text, both `MapOK`, same
    keys, values pointwise `≤`; every emphasis marker of the chain a single byte other than LF.  If
    the run under the first table succeeds so does the run under the second, with the same tree up to
    ranges, and the ranges of every attribute-rendering node are on both sides the translations of
    ONE stretch of the inline text that starts at a character other than the line feed. -/
theorem parseInline_exact (cfg : Inline.Cfg) (c : List Char) (m₁ m₂ : InlineOps.Srcmap)
    (h₁ : Inline.MapOK c m₁) (h₂ : Inline.MapOK c m₂) (hle : Pipeline.MLe m₁ m₂)
    (hmk : C05R.AsciiMarkers cfg.chain)
    {ns₁ : List Inline.Node} (h : Inline.parseInline cfg c m₁ = .ok ns₁) :
    ∃ ns₂, Inline.parseInline cfg c m₂ = .ok ns₂ ∧ C10SP.XL c m₁ m₂ ns₁ ns₂ := by
  have sim := parseInline_sim ⟨c, m₁, m₂, h₁, h₂⟩ true cfg hmk (fun _ => hle) h
  obtain ⟨_, lo, hi, _, hhi, hord, hwr, _⟩ := Inline.parseInline_ranges_exact cfg h₁ h
  cases h2 : Inline.parseInline cfg c m₂ with
  | error e => simp only [h2] at sim; cases sim
  | ok ns₂ =>
    simp only [h2] at sim
    exact ⟨ns₂, rfl, XL_of ⟨c, m₁, m₂, h₁, h₂⟩ hhi (Inline.trimSrc_le c) lo ns₁ ns₂ sim hwr hord⟩

/-- the form the consumers use (`Pipeline.InlineExactThm`, Lemmas/C10SpFullFinal.lean) -/
theorem parseInline_exact' (cfg : Inline.Cfg) (hmk : C05R.AsciiMarkers cfg.chain) :
    ∀ (c : List Char) (m₁ m₂ : InlineOps.Srcmap), Inline.MapOK c m₁ → Inline.MapOK c m₂ →
      Pipeline.MLe m₁ m₂ → ∀ ns₁, Inline.parseInline cfg c m₁ = .ok ns₁ →
        ∃ ns₂, Inline.parseInline cfg c m₂ = .ok ns₂ ∧ C10SP.XL c m₁ m₂ ns₁ ns₂ :=
  fun c m₁ m₂ h₁ h₂ hle _ h => parseInline_exact cfg c m₁ m₂ h₁ h₂ hle hmk h

/-! ### non-vacuity -/

namespace InlineWitness

theorem mapOK_one (c : List Char) (v : Nat) : Inline.MapOK c [(0, v)] := by
  refine ⟨⟨⟨v, [], rfl⟩, by simp⟩, ?_, ?_⟩
  · intro i k1 v1 k2 v2 h1 h2
    simp at h2
  · intro i k v' h hk
    match i, h with
    | 0, h => simp at h; omega
    | n + 1, h => simp at h

theorem mle_one {v w : Nat} (h : v ≤ w) : Pipeline.MLe [(0, v)] [(0, w)] := by
  refine ⟨rfl, ?_⟩
  intro i k₁ v₁ k₂ v₂ h₁ h₂
  match i, h₁, h₂ with
  | 0, h₁, h₂ => simp at h₁ h₂; omega
  | n + 1, h₁, _ => simp at h₁

theorem asciiMarkers_exCfg (n : Nat) : C05R.AsciiMarkers (Inline.exCfg n).chain := by
  intro mk csw h
  simp [Inline.exCfg] at h
  obtain ⟨rfl, _⟩ := h
  exact ⟨rfl, by decide⟩

example (cfg : Inline.Cfg) (hmk : C05R.AsciiMarkers cfg.chain) (c : List Char) {v w : Nat} (hvw : v ≤ w)
    {ns₁ : List Inline.Node} (h : Inline.parseInline cfg c [(0, v)] = .ok ns₁) :
    ∃ ns₂, Inline.parseInline cfg c [(0, w)] = .ok ns₂ ∧ XL c [(0, v)] [(0, w)] ns₁ ns₂ :=
  parseInline_exact cfg c _ _ (mapOK_one c v) (mapOK_one c w) (mle_one hvw) hmk h

example :
    (Inline.parseInline (Inline.exCfg 100) "*a*".toList [(0, 0)]).toOption.map (fun ns => ns.map (·.range))
      = some [some (0, 3)] ∧
    (Inline.parseInline (Inline.exCfg 100) "*a*".toList [(0, 5)]).toOption.map (fun ns => ns.map (·.range))
      = some [some (5, 8)] := by
  decide +kernel


/-! ### the marker hypothesis is needed: a "delimiter" that is the LINE FEED

  With the chain `[emph '\n', text]` the text `"\n\na\n\n"` is `Em(Em(a))`; under a table that puts two more
  source bytes in front of every line (a block-quote prefix) the runs of delimiters are not copies of
  consecutive source bytes, and the matcher's `e - marker_len` / `s + marker_len` land on source
  offsets (4, 5, 8, 9) that are the translation of NO inline position (`tr` takes the values
  0, 3, 6, 7, 10, 13): both tables are `MapOK`, same keys, values `≤`, both runs succeed, and the results
  are NOT `XL`. -/

def lfCfg : Inline.Cfg :=
  { maxNesting := 100, chain := [.emph '\n' true, .text],
    fns := fun _ i => if i = 0 then some .em else none,
    refs := none, normRef := id, entity := fun _ => none,
    isWhite := fun c => c == ' ', isPunctChar := fun _ => false }
def lfC : List Char := ['\n', '\n', 'a', '\n', '\n']
def lfT1 : InlineOps.Srcmap := [(0,0),(1,1),(2,2),(4,4),(5,5)]
def lfT2 : InlineOps.Srcmap := [(0,0),(1,3),(2,6),(4,10),(5,13)]

theorem lf_not_exact_aux (ns₁ ns₂ : List Inline.Node) (h1 : Inline.parseInline lfCfg lfC lfT1 = .ok ns₁)
    (h2 : Inline.parseInline lfCfg lfC lfT2 = .ok ns₂) : ¬ XL lfC lfT1 lfT2 ns₁ ns₂ := by
  intro hx
  have f : (Inline.parseInline lfCfg lfC lfT1).toOption.map (fun ns => ns.map (fun n => attrVal n.val))
        = some [true] ∧
      (Inline.parseInline lfCfg lfC lfT2).toOption.map (fun ns => ns.map (·.range)) = some [some (4, 9)] ∧
      (∀ p, p < 6 → InlineOps.getSourcePosFor lfT2 p ≠ .ok 4) := by decide +kernel
  obtain ⟨f1, f2, f3⟩ := f
  rw [h1] at f1; rw [h2] at f2
  simp only [Except.toOption, Option.map_some, Option.some.injEq] at f1 f2
  match ns₁, ns₂, f1, f2, hx with
  | [a], [b], f1, f2, hx =>
    obtain ⟨va, ra, ca⟩ := a
    obtain ⟨vb, rb, cb⟩ := b
    simp only [XL, XN] at hx
    simp only [List.map_cons, List.map_nil, List.cons.injEq, and_true] at f1 f2
    obtain ⟨p, q, a₁, b₁, a₂, b₂, e1, e2, hpq, hq, _, _, _, h3, _⟩ := hx.1.2.1 f1
    subst f2
    simp only [Option.some.injEq, Prod.mk.injEq] at e2
    obtain ⟨rfl, rfl⟩ := e2
    have hb : InlineOps.byteLen lfC = 5 := by decide
    exact f3 p (by omega) h3
  | [], _, f1, _, _ => simp at f1
  | _ :: _ :: _, _, f1, _, _ => simp at f1
  | [_], [], _, f2, _ => simp at f2
  | [_], _ :: _ :: _, _, f2, _ => simp at f2
theorem lf_keys (m : InlineOps.Srcmap) (hk : m.map Prod.fst = [0, 1, 2, 4, 5]) : Inline.KeysAfterLF lfC m := by
  intro i k v h hk0
  have h' : (m.map Prod.fst)[i]? = some k := by rw [List.getElem?_map, h]; rfl
  rw [hk] at h'
  match i, h' with
  | 0, h' => simp at h'; omega
  | 1, h' => simp at h'; subst h'; exact ⟨[], ['\n', 'a', '\n', '\n'], rfl, rfl⟩
  | 2, h' => simp at h'; subst h'; exact ⟨['\n'], ['a', '\n', '\n'], rfl, rfl⟩
  | 3, h' => simp at h'; subst h'; exact ⟨['\n', '\n', 'a'], ['\n'], rfl, rfl⟩
  | 4, h' => simp at h'; subst h'; exact ⟨['\n', '\n', 'a', '\n'], [], rfl, rfl⟩
  | n + 5, h' => simp at h'

theorem lf_mono (m : InlineOps.Srcmap) (h : m = lfT1 ∨ m = lfT2) : C05.MonoMap m := by
  intro i k1 v1 k2 v2 h1 h2
  rcases h with rfl | rfl <;>
  match i, h1, h2 with
  | 0, h1, h2 => simp [lfT1, lfT2] at h1 h2; omega
  | 1, h1, h2 => simp [lfT1, lfT2] at h1 h2; omega
  | 2, h1, h2 => simp [lfT1, lfT2] at h1 h2; omega
  | 3, h1, h2 => simp [lfT1, lfT2] at h1 h2; omega
  | n + 4, h1, h2 => simp [lfT1, lfT2] at h2

theorem lf_ok1 : Inline.MapOK lfC lfT1 :=
  ⟨⟨⟨0, _, rfl⟩, by decide⟩, lf_mono _ (.inl rfl), lf_keys _ rfl⟩
theorem lf_ok2 : Inline.MapOK lfC lfT2 :=
  ⟨⟨⟨0, _, rfl⟩, by decide⟩, lf_mono _ (.inr rfl), lf_keys _ rfl⟩
theorem lf_mle : Pipeline.MLe lfT1 lfT2 := by
  refine ⟨rfl, ?_⟩
  intro i k₁ v₁ k₂ v₂ h₁ h₂
  match i, h₁, h₂ with
  | 0, h₁, h₂ => simp [lfT1, lfT2] at h₁ h₂; omega
  | 1, h₁, h₂ => simp [lfT1, lfT2] at h₁ h₂; omega
  | 2, h₁, h₂ => simp [lfT1, lfT2] at h₁ h₂; omega
  | 3, h₁, h₂ => simp [lfT1, lfT2] at h₁ h₂; omega
  | 4, h₁, h₂ => simp [lfT1, lfT2] at h₁ h₂; omega
  | n + 5, h₁, _ => simp [lfT1] at h₁

/-- all hypotheses of `parseInline_exact` except `AsciiMarkers`, and the conclusion fails -/
example : Inline.MapOK lfC lfT1 ∧ Inline.MapOK lfC lfT2 ∧ Pipeline.MLe lfT1 lfT2 ∧
    ∀ ns₁ ns₂, Inline.parseInline lfCfg lfC lfT1 = .ok ns₁ → Inline.parseInline lfCfg lfC lfT2 = .ok ns₂ →
      ¬ XL lfC lfT1 lfT2 ns₁ ns₂ :=
  ⟨lf_ok1, lf_ok2, lf_mle, lf_not_exact_aux⟩

end InlineWitness

end MdIt.C10SP
