/-
  No-panic development for the block model: the chain, `tokLoop`, and the induction on the fuel that
  ties the knot through the nested tokenizer and the look-ahead — parameterised by the per-rule
  lemmas (`RunNP`).
-/
import MdIt.Lemmas.BlockTotalLeaf

namespace MdIt.Block
open MdIt.Lines (LineOffset)

/-- a chain runner whose rules do not panic on a line that exists (real mode: at a non-negative
    indent, which is where the tokenizer runs them) -/
def RunNP (run : RuleId → BState → Bool → Res) : Prop :=
  ∀ r s silent, BInv s → s.line < s.lineMax → (silent = false → IndentOk s) → NoPanic (run r s silent)

theorem runChain_np_real {run : RuleId → BState → Bool → Res} (hr : RunSpec run) (hrun : RunNP run)
    {s : BState} (hI : BInv s) (hl : s.line < s.lineMax) (hi : IndentOk s) :
    ∀ (chain : List RuleId), NoPanic (runChain run chain s false) := by
  intro chain
  induction chain with
  | nil => intro e h; simp [runChain] at h
  | cons r rs ih =>
    intro e h
    simp only [runChain] at h
    split at h
    · rename_i e' he
      simp only [Except.error.injEq] at h
      subst h
      exact hrun r s false hI hl (fun _ => hi) _ he
    · cases h
    · rename_i s1 h1
      have := hr.false_same _ _ _ h1
      subst this
      exact ih e h

theorem runChain_np_silent {run : RuleId → BState → Bool → Res}
    (hp : ∀ r s b s', run r s true = .ok (b, s') → s' = s) (hrun : RunNP run)
    {s : BState} (hI : BInv s) (hl : s.line < s.lineMax) :
    ∀ (chain : List RuleId), NoPanic (runChain run chain s true) := by
  intro chain
  induction chain with
  | nil => intro e h; simp [runChain] at h
  | cons r rs ih =>
    intro e h
    simp only [runChain] at h
    split at h
    · rename_i e' he
      simp only [Except.error.injEq] at h
      subst h
      exact hrun r s true hI hl (fun h => by cases h) _ he
    · cases h
    · rename_i s1 h1
      have := hp _ _ _ _ h1
      subst this
      exact ih e h

theorem tokLoop_np {cfg : Cfg} {run : RuleId → BState → Bool → Res} (hr : RunSpec run) (hrun : RunNP run) :
    ∀ (k : Nat) (he : Bool) (s : BState), BInv s → NoPanic (tokLoop cfg run k he s) := by
  intro k
  induction k with
  | zero => intro he s _ e h; simp [tokLoop] at h; exact h.symm
  | succ k ih =>
    intro he s hI e h
    have hlen := hI.lineMax
    simp only [tokLoop] at h
    obtain ⟨hs1, hs2, hs3, hs4⟩ := skipEmpty_spec s.offs s.lineMax s.line
    generalize Lines.skipEmptyLines s.offs s.lineMax s.line = l' at h hs1 hs2 hs3 hs4
    crackE h
    · exact absurd_err h (lineIndent_total (by show l' < s.offs.length; omega))
    all_goals (
      have hind := ‹BState.lineIndent _ _ = _›
      have hge : ¬ l' ≥ s.lineMax := ‹_›
      have hI1 : BInv { s with line := l' } := hI.line l'
      have hi1 : IndentOk { s with line := l' } := ⟨_, hind, by omega⟩)
    · exact runChain_np_real hr hrun hI1 (by show l' < s.lineMax; omega) hi1 _ e h
    all_goals (
      have hchain := ‹runChain _ _ _ _ = _›
      obtain ⟨hc1, hc2⟩ := runChain_real hr _ _ _ _ hchain)
    · -- `afterChain`: the progress `assert!`, or the no-paragraph fallback
      rename_i w _
      obtain ⟨b, s2⟩ := w
      unfold afterChain at h
      crackE h
      · have := (hc2 ‹_› (by show l' < s.lineMax; omega) hi1).lt
        simp_all
      · have := hc1 (by simpa using ‹¬ b = true›)
        simp only at this
        subst this
        exact absurd_err h (getLine_total hI1.table (by show l' < s.offs.length; omega))
      · have := hc1 (by simpa using ‹¬ b = true›)
        simp only at this
        subst this
        exact absurd_err h (off_total (by show l' < s.offs.length; omega))
    all_goals (
      have hafter := ‹afterChain _ _ _ = _›
      obtain ⟨h13, hlt3, _⟩ := tok_iter hr (s1 := { s with line := l' }) rfl (by show l' < s.lineMax; omega)
        hi1 hchain hafter
      simp only at hlt3)
    · exact absurd_err h (psub_total (by show 1 ≤ _; omega))
    · refine ih _ _ ?_ e h
      exact (hI1.of_frame h13).congr rfl rfl (by rw [h13.lineMax, h13.offs]; exact hlen)
    · refine ih _ _ ?_ e h
      exact (hI1.of_frame h13).congr rfl rfl (by rw [h13.lineMax, h13.offs]; exact hlen)

/-- what the induction on the fuel needs of the nine rules -/
def RulesNP (cfg : Cfg) : Prop :=
  ∀ (tok : Tok) (test : Test) (fuel : Nat), TokSpec tok → TokShape tok → TestPure test → TestOK test →
    TokOK tok → RunNP (runRule cfg tok test fuel)

theorem engine_np {cfg : Cfg} (hrules : RulesNP cfg) :
    ∀ (f : Nat), TokOK (tokenize cfg f) ∧ TestOK (testRules cfg f) := by
  intro f
  induction f with
  | zero =>
    refine ⟨fun s _ e h => ?_, fun s _ _ e h => ?_⟩ <;> simp [tokenize, testRules, engine] at h <;> exact h.symm
  | succ f ih =>
    have hrun := hrules (tokenize cfg f) (testRules cfg f) (f + 1) (tokenize_tokSpec cfg f)
      (tokenize_shape cfg f) (testRules_pure cfg f) ih.2 ih.1
    refine ⟨fun s hI => ?_, fun s hI hl => ?_⟩
    · simp only [tokenize, engine]
      exact tokLoop_np (runRule_spec (tokenize_tokSpec cfg f) (testRules_pure cfg f) _) hrun _ _ _ hI
    · simp only [testRules, engine]
      exact runChain_np_silent (fun r s b s' h => silent_pure_rule h) hrun hI hl _

end MdIt.Block
